#!/usr/bin/env python3
"""Entry point: ./check <Cxx> [--tier quick|thorough] | --setup | <Cxx> --replay <path>"""
import argparse
import importlib
import os
import sys

sys.path.insert(0, "/verif")
from checks import common  # noqa: E402


def setup():
    ok = True
    ok &= common.regen()
    common.sh([sys.executable, "/verif/tools/gen_root.py"])
    rc, out, err = common.sh(["lake", "build"], cwd=common.LEAN, timeout=7200)
    print(out[-2000:], err[-2000:])
    ok &= rc == 0
    ok &= common.build_harness()
    ok &= common.build_az65_bin()
    print("setup", "ok" if ok else "FAILED")
    return 0 if ok else 1


def main():
    ap = argparse.ArgumentParser()
    ap.add_argument("prop", nargs="?")
    ap.add_argument("--tier", default=os.environ.get("VERIF_TIER", "quick"))
    ap.add_argument("--setup", action="store_true")
    ap.add_argument("--replay")
    a = ap.parse_args()
    if a.setup:
        sys.exit(setup())
    if not a.prop:
        ap.error("property id required")
    seed = int(os.environ.get("VERIF_SEED", "1"))
    tier = a.tier if a.tier in ("quick", "thorough") else "quick"
    mod = importlib.import_module(f"checks.{a.prop.lower()}")
    if a.replay:
        sys.exit(mod.replay(a.replay))
    sys.exit(mod.run(tier, seed))


if __name__ == "__main__":
    main()

import P.Expr
namespace Ex2
open Ex (Tok Node E L compile prec)

def primTail (ts : List Tok) : Option (List Node × List Tok) → Option (List Node × List Tok)
  | some (n, .rp :: r'') => some (n, r'')
  | _ => none

mutual
def pl : Nat → Nat → List Tok → Option (List Node × List Tok)
  | 0, _, _ => none
  | f+1, k, ts =>
    if k ≥ L then
      match ts with
      | .neg :: r => (pl f L r).bind fun p => some (p.1 ++ [.neg], p.2)
      | .lp :: r => (pl f 0 r).bind fun p => match p.2 with | .rp :: r'' => some (p.1, r'') | _ => none
      | .num v :: r => some ([.val v], r)
      | _ => none
    else (pl f (k+1) ts).bind fun p => lp f k p.1 p.2
def lp : Nat → Nat → List Node → List Tok → Option (List Node × List Tok)
  | 0, _, _, _ => none
  | f+1, k, acc, ts =>
    match ts with
    | .op k' i :: r =>
      if k' = k then (pl f (k+1) r).bind fun p => lp f k (acc ++ p.1 ++ [.bin k i]) p.2
      else some (acc, ts)
    | _ => some (acc, ts)
end

theorem pl_hi {f k ts} (hk : k ≥ L) : pl (f+1) k ts =
    match ts with
      | .neg :: r => (pl f L r).bind fun p => some (p.1 ++ [.neg], p.2)
      | .lp :: r => (pl f 0 r).bind fun p => match p.2 with | .rp :: r'' => some (p.1, r'') | _ => none
      | .num v :: r => some ([.val v], r)
      | _ => none := by
  simp [pl, hk]
theorem pl_lo {f k ts} (hk : ¬ k ≥ L) : pl (f+1) k ts = (pl f (k+1) ts).bind fun p => lp f k p.1 p.2 := by
  simp [pl, hk]
theorem lp_op_eq {f k acc i r} : lp (f+1) k acc (.op k i :: r) =
    (pl f (k+1) r).bind fun p => lp f k (acc ++ p.1 ++ [.bin k i]) p.2 := by
  simp [lp]
theorem lp_op_ne {f k acc k' i r} (h : k' ≠ k) : lp (f+1) k acc (.op k' i :: r) = some (acc, .op k' i :: r) := by
  simp [lp, h]
theorem lp_other {f k acc ts} (h : ∀ k' i r, ts ≠ .op k' i :: r) : lp (f+1) k acc ts = some (acc, ts) := by
  cases ts with
  | nil => simp [lp]
  | cons t r => cases t <;> simp_all [lp]

theorem bind_mono {α β} {a a' : Option α} {g g' : α → Option β} {r : β}
    (h : a.bind g = some r) (ha : ∀ x, a = some x → a' = some x) (hg : ∀ x y, g x = some y → g' x = some y) :
    a'.bind g' = some r := by
  obtain ⟨p, hp, hr⟩ := Option.bind_eq_some_iff.mp h
  exact Option.bind_eq_some_iff.mpr ⟨p, ha _ hp, hg _ _ hr⟩

theorem mono : ∀ f,
    (∀ k ts r, pl f k ts = some r → pl (f+1) k ts = some r) ∧
    (∀ k acc ts r, lp f k acc ts = some r → lp (f+1) k acc ts = some r) := by
  intro f
  induction f with
  | zero => constructor <;> intros <;> simp_all [pl, lp]
  | succ f ih =>
    obtain ⟨ihp, ihl⟩ := ih
    constructor
    · intro k ts r h
      by_cases hk : k ≥ L
      · rw [pl_hi hk] at h ⊢
        split at h
        · exact bind_mono h (fun x hx => ihp _ _ _ hx) (fun _ _ h => h)
        · exact bind_mono h (fun x hx => ihp _ _ _ hx) (fun _ _ h => h)
        · exact h
        · simp at h
      · rw [pl_lo hk] at h ⊢
        exact bind_mono h (fun x hx => ihp _ _ _ hx) (fun x y h => ihl _ _ _ _ h)
    · intro k acc ts r h
      by_cases hop : ∃ k' i r', ts = .op k' i :: r'
      · obtain ⟨k', i, r', rfl⟩ := hop
        by_cases hk : k' = k
        · subst hk
          rw [lp_op_eq] at h ⊢
          exact bind_mono h (fun x hx => ihp _ _ _ hx) (fun x y h => ihl _ _ _ _ h)
        · rw [lp_op_ne hk] at h ⊢; exact h
      · have : ∀ k' i r', ts ≠ .op k' i :: r' := fun k' i r' he => hop ⟨k', i, r', he⟩
        rw [lp_other this] at h ⊢; exact h

theorem pl_mono {f g k ts r} (h : pl f k ts = some r) (hle : f ≤ g) : pl g k ts = some r := by
  induction hle with
  | refl => exact h
  | step _ ih => exact (mono _).1 _ _ _ ih
theorem lp_mono {f g k acc ts r} (h : lp f k acc ts = some r) (hle : f ≤ g) : lp g k acc ts = some r := by
  induction hle with
  | refl => exact h
  | step _ ih => exact (mono _).2 _ _ _ _ ih
end Ex2

namespace Ex2
open Ex (Tok Node E L compile render)

def notAbove (j : Nat) (rest : List Tok) : Prop := ∀ k' i r, rest = .op k' i :: r → k' ≤ j
def after (f j : Nat) (n : List Node) (rest : List Tok) : Option (List Node × List Tok) :=
  if j ≥ L then some (n, rest) else lp f j n rest
def Good (j : Nat) (X : List Tok) (n : List Node) (rest : List Tok) : Prop :=
  ∀ res, (∃ f, after f j n rest = some res) → ∃ f, pl f j X = some res
def wfE : E → Prop
  | .num _ => True | .neg e => wfE e | .bin k _ l r => k < L ∧ wfE l ∧ wfE r

theorem notAbove_mono {j j' rest} (h : notAbove j rest) (hle : j ≤ j') : notAbove j' rest :=
  fun k' i r he => Nat.le_trans (h k' i r he) hle

theorem lp_stop {f j n rest} (h : ∀ k' i r, rest = .op k' i :: r → k' ≠ j) :
    lp (f+1) j n rest = some (n, rest) := by
  by_cases hop : ∃ k' i r', rest = .op k' i :: r'
  · obtain ⟨k', i, r', rfl⟩ := hop
    exact lp_op_ne (h k' i r' rfl)
  · exact lp_other (fun k' i r' he => hop ⟨k', i, r', he⟩)

theorem after_stop {j n rest} (h : notAbove j rest) : ∃ f, after f (j+1) n rest = some (n, rest) := by
  refine ⟨1, ?_⟩
  unfold after
  split
  · rfl
  · exact lp_stop (fun k' i r he => by have := h k' i r he; omega)

theorem step_down {j X n rest res f1 f2} (hj : ¬ j ≥ L) (h1 : pl f1 (j+1) X = some (n, rest))
    (h2 : lp f2 j n rest = some res) : ∃ f, pl f j X = some res := by
  refine ⟨max f1 f2 + 1, ?_⟩
  rw [pl_lo hj, pl_mono h1 (Nat.le_max_left _ _)]
  exact lp_mono h2 (Nat.le_max_right _ _)

theorem climb {X n rest} : ∀ d j j0, j0 = j + d → j0 ≤ L → Good j0 X n rest → notAbove j rest → Good j X n rest := by
  intro d
  induction d with
  | zero => intro j j0 h _ hg _; simp at h; subst h; exact hg
  | succ d ih =>
    intro j j0 h hL hg hna
    have hg1 : Good (j+1) X n rest := ih (j+1) j0 (by omega) hL hg (notAbove_mono hna (by omega))
    intro res ⟨f, hf⟩
    have hj : ¬ j ≥ L := by omega
    unfold after at hf; rw [if_neg hj] at hf
    obtain ⟨f1, h1⟩ := hg1 (n, rest) (after_stop hna)
    exact step_down hj h1 hf

theorem good_prim {j X n rest} (hj : j ≤ L) (hna : notAbove j rest)
    (h : ∃ f, pl f L X = some (n, rest)) : Good j X n rest := by
  apply climb (L - j) j L (by omega) (Nat.le_refl _) _ hna
  intro res ⟨f, hf⟩
  unfold after at hf; simp at hf; subst hf; exact h

theorem render_bin_ge {j j0 i l r} (h : ¬ j0 < j) :
    render j (.bin j0 i l r) = render j0 l ++ [.op j0 i] ++ render (j0+1) r := by
  simp [render, h]
theorem render_bin_lt {j j0 i l r} (h : j0 < j) :
    render j (.bin j0 i l r) = [.lp] ++ (render j0 l ++ [.op j0 i] ++ render (j0+1) r) ++ [.rp] := by
  simp [render, h]

theorem main (e : E) : wfE e → ∀ j, j ≤ L → ∀ rest, notAbove j rest →
    Good j (render j e ++ rest) (compile e) rest := by
  induction e with
  | num v =>
    intro _ j hj rest hna
    apply good_prim hj hna
    exact ⟨1, by simp [render, pl_hi (Nat.le_refl L), compile]⟩
  | neg e ih =>
    intro hwf j hj rest hna
    apply good_prim hj hna
    obtain ⟨f1, h1⟩ := ih hwf L (Nat.le_refl _) rest (notAbove_mono hna hj) (compile e, rest)
      ⟨0, by simp [after]⟩
    refine ⟨f1 + 1, ?_⟩
    simp [render, pl_hi (Nat.le_refl L), h1, compile]
  | bin j0 i l r ihl ihr =>
    intro hwf j hj rest hna
    obtain ⟨hj0, hwl, hwr⟩ := hwf
    have core : ∀ rest', notAbove j0 rest' →
        Good j0 (render j0 l ++ [.op j0 i] ++ render (j0+1) r ++ rest') (compile (.bin j0 i l r)) rest' := by
      intro rest' hna' res ⟨f, hf⟩
      have hj0' : ¬ j0 ≥ L := by omega
      unfold after at hf; rw [if_neg hj0'] at hf
      obtain ⟨f1, h1⟩ := ihr hwr (j0+1) (by omega) rest' (notAbove_mono hna' (by omega))
        (compile r, rest') (after_stop hna')
      have h2 : ∃ f2, after f2 j0 (compile l) (.op j0 i :: (render (j0+1) r ++ rest')) = some res := by
        refine ⟨max f1 f + 1, ?_⟩
        unfold after; rw [if_neg hj0', lp_op_eq, pl_mono h1 (Nat.le_max_left _ _)]
        simp only [Option.bind_some]
        have := lp_mono hf (Nat.le_max_right f1 f)
        simpa [compile, List.append_assoc] using this
      have := ihl hwl j0 (by omega) (.op j0 i :: (render (j0+1) r ++ rest'))
        (fun k' i' r' he => by cases he; exact Nat.le_refl _) res h2
      simpa [List.append_assoc] using this
    by_cases hlt : j0 < j
    · apply good_prim hj hna
      have hc := core (.rp :: rest) (fun k' i' r' he => by cases he)
      have hc0 : Good 0 _ _ _ := climb j0 0 j0 (by omega) (by omega) hc (fun k' i' r' he => by cases he)
      obtain ⟨f1, h1⟩ := hc0 (compile (.bin j0 i l r), .rp :: rest)
        ⟨1, by unfold after; rw [if_neg (by decide)]; exact lp_other (fun _ _ _ he => by cases he)⟩
      refine ⟨f1 + 1, ?_⟩
      rw [render_bin_lt hlt]
      simp only [List.append_assoc, List.cons_append, List.nil_append, pl_hi (Nat.le_refl L)]
      simp only [List.append_assoc, List.cons_append, List.nil_append] at h1
      simp [h1]
    · rw [render_bin_ge hlt]
      exact climb (j0 - j) j j0 (by omega) (by omega) (core rest (notAbove_mono hna (by omega))) hna

theorem parse_render (e : E) (hwf : wfE e) (rest : List Tok) (hrest : ∀ k i r, rest ≠ .op k i :: r) :
    ∃ f, pl f 0 (render 0 e ++ rest) = some (compile e, rest) := by
  apply main e hwf 0 (by decide) rest (fun k' i r he => absurd he (hrest k' i r))
  exact ⟨1, by unfold after; rw [if_neg (by decide)]; exact lp_other hrest⟩

#print axioms parse_render
end Ex2

import subprocess
R=['b','c','d','e','h','l','(hl)','a']; RP=['bc','de','hl','sp']; RP2=['bc','de','hl','af']; CC=['nz','z','nc','c']
ALU=['add a,','adc a,','sub ','sbc a,','and ','xor ','or ','cp ']
ROT=['rlc','rrc','rl','rr','sla','sra','swap','srl']
cases=[]
def add(s,b): cases.append((s,bytes(b)))
LO,HI,N=0x34,0x12,0x42
add('nop',[0]); add('ld ($1234),sp',[8,LO,HI]); add('stop',[0x10,0]); add('jr $10',[0x18,0x0e])
for i,c in enumerate(CC): add(f'jr {c},$10',[0x20+8*i,0x0e]); add(f'ret {c}',[0xC0+8*i]); add(f'jp {c},$1234',[0xC2+8*i,LO,HI]); add(f'call {c},$1234',[0xC4+8*i,LO,HI])
for p,rp in enumerate(RP): add(f'ld {rp},$1234',[1+16*p,LO,HI]); add(f'add hl,{rp}',[9+16*p]); add(f'inc {rp}',[3+16*p]); add(f'dec {rp}',[0xB+16*p])
add('ld (bc),a',[2]); add('ld (de),a',[0x12]); add('ld (hl+),a',[0x22]); add('ld (hl-),a',[0x32]); add('ld a,(bc)',[0xA]); add('ld a,(de)',[0x1A]); add('ld a,(hl+)',[0x2A]); add('ld a,(hl-)',[0x3A])
for y,r in enumerate(R): add(f'inc {r}',[4+8*y]); add(f'dec {r}',[5+8*y]); add(f'ld {r},$42',[6+8*y,N])
for i,m in enumerate(['rlca','rrca','rla','rra','daa','cpl','scf','ccf']): add(m,[7+8*i])
for y,r in enumerate(R):
    for z,s in enumerate(R):
        if y==6 and z==6: add('halt',[0x76,0])
        else: add(f'ld {r},{s}',[0x40+8*y+z])
for y,a in enumerate(ALU):
    for z,s in enumerate(R): add(f'{a}{s}',[0x80+8*y+z])
    add(f'{a}$42',[0xC6+8*y,N])
add('ldh ($42),a',[0xE0,N]); add('add sp,$42',[0xE8,N]); add('ldh a,($42)',[0xF0,N]); add('ld hl,sp+$42',[0xF8,N])
for p,rp in enumerate(RP2): add(f'pop {rp}',[0xC1+16*p]); add(f'push {rp}',[0xC5+16*p])
add('ret',[0xC9]); add('reti',[0xD9]); add('jp hl',[0xE9]); add('ld sp,hl',[0xF9])
add('ld (c),a',[0xE2]); add('ld ($1234),a',[0xEA,LO,HI]); add('ld a,(c)',[0xF2]); add('ld a,($1234)',[0xFA,LO,HI])
add('jp $1234',[0xC3,LO,HI]); add('di',[0xF3]); add('ei',[0xFB]); add('call $1234',[0xCD,LO,HI])
for y in range(8): add(f'rst ${8*y:02x}',[0xC7+8*y])
for y,o in enumerate(ROT):
    for z,r in enumerate(R): add(f'{o} {r}',[0xCB,8*y+z])
for x,o in [(1,'bit'),(2,'res'),(3,'set')]:
    for y in range(8):
        for z,r in enumerate(R): add(f'{o} {y},{r}',[0xCB,64*x+8*y+z])
un=set(b[0] for _,b in cases if b[0]!=0xCB); cb=set(b[1] for _,b in cases if b[0]==0xCB)
print(len(cases),'cases; unprefixed opcodes',len(un),'cb',len(cb))
bad=0
for s,e in cases:
    open('t.asm','w').write('@org 0\n'+s+'\n')
    p=subprocess.run(['/repo/target/debug/az65','sm83','t.asm'],capture_output=True)
    if p.returncode!=0 or p.stdout!=e:
        bad+=1; print('BAD',s,p.stdout.hex(),e.hex(),p.stderr.decode().strip().split('\n')[-1] if p.returncode else '')
print(bad,'bad')

import subprocess
def load(path):
    src=open(path).read()
    cut=min(i for i in [src.find('\ndef run'),src.find('\nun=set'),src.find('\nops=set')] if i>0)
    g={}; exec(src[:cut],g); return g['cases']
for arch,path in [('z80','gen.py'),('sm83','gensm.py'),('6502','gen65.py')]:
    bad=0; cases=load(path)
    for s,e in cases:
        open('t.asm','w').write('@ORG 0\n'+s.upper()+'\n')
        p=subprocess.run(['/repo/target/debug/az65',arch,'t.asm'],capture_output=True)
        if p.returncode!=0 or p.stdout!=e:
            bad+=1; print(arch,'BAD',s.upper(),p.stdout.hex(),e.hex(),p.stderr.decode().strip().split('\n')[-1] if p.returncode else '')
    print(arch,len(cases),'upper-case cases',bad,'bad')

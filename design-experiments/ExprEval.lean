namespace Ex
def L : Nat := 3
inductive Tok | num (n : Nat) | op (k i : Nat) | neg | lp | rp | stop
  deriving DecidableEq, Repr
inductive Node | val (n : Nat) | bin (k i : Nat) | neg
  deriving DecidableEq, Repr
inductive E | num (n : Nat) | bin (k i : Nat) (l r : E) | neg (e : E)
  deriving Repr

def compile : E → List Node
  | .num n => [.val n]
  | .bin k i l r => compile l ++ compile r ++ [.bin k i]
  | .neg e => compile e ++ [.neg]

-- semantic domain: Int, op semantics abstract
def binSem (k i : Nat) (a b : Int) : Int := if k = 0 then a + b * (i+1) else if k = 1 then a * b + i else a - b
def denote : E → Int
  | .num n => n
  | .bin k i l r => binSem k i (denote l) (denote r)
  | .neg e => - denote e

inductive Res | ok (v : List Int) | crash
def step (st : List Int) : Node → Option (List Int)
  | .val n => some ((n : Int) :: st)
  | .neg => match st with | a :: s => some ((-a) :: s) | _ => none
  | .bin k i => match st with | b :: a :: s => some (binSem k i a b :: s) | _ => none
def run : List Node → List Int → Option (List Int)
  | [], st => some st
  | n :: ns, st => match step st n with | some st' => run ns st' | none => none

theorem run_append (a b : List Node) (st : List Int) :
    run (a ++ b) st = (run a st).bind (run b) := by
  induction a generalizing st with
  | nil => simp [run]
  | cons n ns ih => simp only [List.cons_append, run]; cases step st n <;> simp [ih]

theorem run_compile (e : E) (st : List Int) : run (compile e) st = some (denote e :: st) := by
  induction e generalizing st with
  | num n => simp [compile, run, step, denote]
  | bin k i l r ihl ihr => simp [compile, run_append, ihl, ihr, run, step, denote]
  | neg e ih => simp [compile, run_append, ih, run, step, denote]

mutual
def parseLevel : Nat → Nat → List Tok → Option (List Node × List Tok)
  | 0, _, _ => none
  | f+1, k, ts =>
    if k ≥ L then
      match ts with
      | .neg :: r => match parseLevel f L r with
          | some (n, r') => some (n ++ [.neg], r') | none => none
      | .lp :: r => match parseLevel f 0 r with
          | some (n, .rp :: r'') => some (n, r'') | _ => none
      | .num v :: r => some ([.val v], r)
      | _ => none
    else
      match parseLevel f (k+1) ts with
      | some (n, r) => loop f k n r
      | none => none
def loop : Nat → Nat → List Node → List Tok → Option (List Node × List Tok)
  | 0, _, _, _ => none
  | f+1, k, acc, .op k' i :: r =>
      if k' = k then
        match parseLevel f (k+1) r with
        | some (n, r') => loop f k (acc ++ n ++ [.bin k i]) r'
        | none => none
      else some (acc, .op k' i :: r)
  | _+1, _, acc, ts => some (acc, ts)
end

def prec : E → Nat | .num _ => L | .neg _ => L | .bin k _ _ _ => k
mutual
def render (k : Nat) : E → List Tok
  | .num n => [.num n]
  | .neg e => [.neg] ++ render L e
  | .bin j i l r =>
      if j < k then [.lp] ++ (render j l ++ [.op j i] ++ render (j+1) r) ++ [.rp]
      else render j l ++ [.op j i] ++ render (j+1) r
end
#eval parseLevel 100 0 (render 0 (.bin 1 0 (.bin 0 0 (.num 1) (.num 2)) (.neg (.bin 1 1 (.num 3) (.num 4)))) ++ [.stop])
#eval compile (.bin 1 0 (.bin 0 0 (.num 1) (.num 2)) (.neg (.bin 1 1 (.num 3) (.num 4))))
#print axioms run_compile
end Ex

import subprocess
cases=[]
def add(s,b): cases.append((s,bytes(b)))
g1=['ora','and','eor','adc','sta','lda','cmp','sbc']
for a,m in enumerate(g1):
    base=(a<<5)|1
    add(f'{m} ($42,x)',[base|0<<2,0x42]); add(f'{m} $42',[base|1<<2,0x42])
    if m!='sta': add(f'{m} #$42',[base|2<<2,0x42])
    add(f'{m} $1234',[base|3<<2,0x34,0x12]); add(f'{m} ($42),y',[base|4<<2,0x42]); add(f'{m} $42,x',[base|5<<2,0x42])
    add(f'{m} $1234,y',[base|6<<2,0x34,0x12]); add(f'{m} $1234,x',[base|7<<2,0x34,0x12])
g2=['asl','rol','lsr','ror','stx','ldx','dec','inc']
for a,m in enumerate(g2):
    base=(a<<5)|2
    if m=='ldx': add('ldx #$42',[base,0x42])
    add(f'{m} $42',[base|1<<2,0x42])
    if a<4: add(f'{m} a',[base|2<<2])
    add(f'{m} $1234',[base|3<<2,0x34,0x12])
    idx='y' if m in('stx','ldx') else 'x'
    add(f'{m} $42,{idx}',[base|5<<2,0x42])
    if m!='stx': add(f'{m} $1234,{idx}',[base|7<<2,0x34,0x12])
g3={1:'bit',4:'sty',5:'ldy',6:'cpy',7:'cpx'}
for a,m in g3.items():
    base=a<<5
    if m in('ldy','cpy','cpx'): add(f'{m} #$42',[base,0x42])
    add(f'{m} $42',[base|1<<2,0x42]); add(f'{m} $1234',[base|3<<2,0x34,0x12])
    if m in('sty','ldy'): add(f'{m} $42,x',[base|5<<2,0x42])
    if m=='ldy': add(f'{m} $1234,x',[base|7<<2,0x34,0x12])
add('jmp $1234',[0x4c,0x34,0x12]); add('jmp ($1234)',[0x6c,0x34,0x12]); add('jsr $1234',[0x20,0x34,0x12])
for m,o in zip(['bpl','bmi','bvc','bvs','bcc','bcs','bne','beq'],range(0x10,0x100,0x20)): add(f'{m} $10',[o,0x0e])
for m,o in [('brk',0),('rti',0x40),('rts',0x60),('php',8),('plp',0x28),('pha',0x48),('pla',0x68),('dey',0x88),('tay',0xa8),('iny',0xc8),('inx',0xe8),('clc',0x18),('sec',0x38),('cli',0x58),('sei',0x78),('tya',0x98),('clv',0xb8),('cld',0xd8),('sed',0xf8),('txa',0x8a),('txs',0x9a),('tax',0xaa),('tsx',0xba),('dex',0xca),('nop',0xea)]: add(m,[o])
ops=set(b[0] for _,b in cases); print(len(cases),'cases',len(ops),'distinct opcodes')
bad=0
for s,e in cases:
    open('t.asm','w').write('@org 0\n'+s+'\n')
    p=subprocess.run(['/repo/target/debug/az65','6502','t.asm'],capture_output=True)
    if p.returncode!=0 or p.stdout!=e:
        bad+=1; print('BAD',s,p.stdout.hex(),e.hex(),p.stderr.decode().strip().split('\n')[-1] if p.returncode else '')
print(bad,'bad')

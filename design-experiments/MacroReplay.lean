namespace Rp
abbrev Tok := Nat
inductive MTok | tok (t : Tok) | arg (i : Nat) | entropy
/-- suffix view of `MacroState`: `cur` = unread tokens of the argument being spliced
    (`expanding_macro_arg`/`macro_arg_offset`), `body` = `mac.tokens` after the slot being expanded. -/
structure MState where
  cur  : List Tok
  body : List MTok
  args : List (List Tok)
  ent  : Tok

def subst (args : List (List Tok)) (ent : Tok) : MTok → List Tok
  | .tok t => [t] | .arg i => args.getD i [] | .entropy => [ent]

def flat (s : MState) : List Tok := s.cur ++ s.body.flatMap (subst s.args s.ent)

/-- mirror of `TokenSource::next`, Macro arm (src/assembler/mod.rs:67-113); fuel bounds the `loop` -/
def next : Nat → MState → Option Tok × MState
  | 0, s => (none, s)
  | f+1, s =>
    match s.cur with
    | t :: r => (some t, { s with cur := r })
    | [] =>
      match s.body with
      | [] => (none, s)
      | .tok t :: b => (some t, { s with body := b })
      | .arg i :: b => next f { s with cur := s.args.getD i [], body := b }
      | .entropy :: b => (some s.ent, { s with body := b })

theorem next_flat : ∀ f s, s.body.length < f →
    (match next f s with
     | (some t, s') => flat s = t :: flat s' ∧ s'.args = s.args ∧ s'.ent = s.ent
     | (none, _) => flat s = []) := by
  intro f
  induction f with
  | zero => intro s h; omega
  | succ f ih =>
    intro s h
    rcases s with ⟨cur, body, args, ent⟩
    cases cur with
    | cons t r => simp [next, flat]
    | nil =>
      cases body with
      | nil => simp [next, flat]
      | cons m b =>
        cases m with
        | tok t => simp [next, flat, subst]
        | entropy => simp [next, flat, subst]
        | arg i =>
          simp only [next]
          have := ih ⟨args.getD i [], b, args, ent⟩ (by simp at h ⊢; omega)
          revert this
          cases next f ⟨args.getD i [], b, args, ent⟩ with
          | mk o s' => cases o <;> simp [flat, subst]

/-- draining a replay state yields exactly the substituted body -/
def drain : Nat → MState → List Tok
  | 0, _ => []
  | n+1, s => match next (s.body.length + 1) s with
    | (some t, s') => t :: drain n s'
    | (none, _) => []

theorem drain_eq : ∀ n s, (flat s).length < n → drain n s = flat s := by
  intro n
  induction n with
  | zero => intro s h; omega
  | succ n ih =>
    intro s h
    have hn := next_flat (s.body.length + 1) s (by omega)
    simp only [drain]
    revert hn
    cases next (s.body.length + 1) s with
    | mk o s' =>
      cases o with
      | none => intro hn; simp_all
      | some t =>
        intro hn
        simp only at hn ⊢
        rw [hn.1, ih s' (by rw [hn.1] at h; simp at h; omega)]
#print axioms drain_eq
end Rp

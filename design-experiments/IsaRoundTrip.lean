namespace Sm

inductive R8 | b | c | d | e | h | l | hlInd | a
  deriving DecidableEq, Repr

def R8.idx : R8 → Nat
  | .b => 0 | .c => 1 | .d => 2 | .e => 3 | .h => 4 | .l => 5 | .hlInd => 6 | .a => 7

def R8.ofIdx : Nat → R8
  | 0 => .b | 1 => .c | 2 => .d | 3 => .e | 4 => .h | 5 => .l | 6 => .hlInd | _ => .a

inductive Alu | add | adc | sub | sbc | and | xor | or | cp
  deriving DecidableEq, Repr

def Alu.idx : Alu → Nat
  | .add => 0 | .adc => 1 | .sub => 2 | .sbc => 3 | .and => 4 | .xor => 5 | .or => 6 | .cp => 7
def Alu.ofIdx : Nat → Alu
  | 0 => .add | 1 => .adc | 2 => .sub | 3 => .sbc | 4 => .and | 5 => .xor | 6 => .or | _ => .cp

inductive Instr
  | ldRR (d s : R8)          -- not both hlInd
  | ldRN (d : R8) (n : Nat)
  | alu (op : Alu) (s : R8)
  | aluN (op : Alu) (n : Nat)
  | jp (nn : Nat)
  | jr (e : Nat)             -- raw displacement byte
  | bit (b : Nat) (r : R8)
  | rst (t : Nat)            -- t in 0..7
  | halt
  deriving DecidableEq, Repr

def Instr.wf : Instr → Prop
  | .ldRR d s => ¬ (d = .hlInd ∧ s = .hlInd)
  | .ldRN _ n => n < 256
  | .alu _ _ => True
  | .aluN _ n => n < 256
  | .jp nn => nn < 65536
  | .jr e => e < 256
  | .bit b _ => b < 8
  | .rst t => t < 8
  | .halt => True

def enc : Instr → List Nat
  | .ldRR d s => [0x40 + 8 * d.idx + s.idx]
  | .ldRN d n => [0x06 + 8 * d.idx, n]
  | .alu op s => [0x80 + 8 * op.idx + s.idx]
  | .aluN op n => [0xC6 + 8 * op.idx, n]
  | .jp nn => [0xC3, nn % 256, nn / 256]
  | .jr e => [0x18, e]
  | .bit b r => [0xCB, 0x40 + 8 * b + r.idx]
  | .rst t => [0xC7 + 8 * t]
  | .halt => [0x76]

/-- decoder by x/y/z decomposition -/
def decode : List Nat → Option (Instr × List Nat)
  | [] => none
  | op :: rest =>
    let x := op / 64
    let y := (op / 8) % 8
    let z := op % 8
    if op = 0x76 then some (.halt, rest)
    else if op = 0xCB then
      match rest with
      | op2 :: rest2 =>
        if op2 / 64 = 1 then some (.bit ((op2 / 8) % 8) (R8.ofIdx (op2 % 8)), rest2) else none
      | [] => none
    else if x = 1 then some (.ldRR (R8.ofIdx y) (R8.ofIdx z), rest)
    else if x = 2 then some (.alu (Alu.ofIdx y) (R8.ofIdx z), rest)
    else if x = 0 ∧ z = 6 then
      match rest with
      | n :: rest2 => some (.ldRN (R8.ofIdx y) n, rest2)
      | [] => none
    else if x = 3 ∧ z = 6 then
      match rest with
      | n :: rest2 => some (.aluN (Alu.ofIdx y) n, rest2)
      | [] => none
    else if op = 0xC3 then
      match rest with
      | lo :: hi :: rest2 => some (.jp (lo + 256 * hi), rest2)
      | _ => none
    else if op = 0x18 then
      match rest with
      | e :: rest2 => some (.jr e, rest2)
      | [] => none
    else if x = 3 ∧ z = 7 then some (.rst y, rest)
    else none

theorem decode_enc (i : Instr) (h : i.wf) (rest : List Nat) :
    decode (enc i ++ rest) = some (i, rest) := by
  cases i with
  | ldRR d s => cases d <;> cases s <;> simp_all [Instr.wf, enc, decode, R8.idx, R8.ofIdx]
  | ldRN d n => cases d <;> simp [enc, decode, R8.idx, R8.ofIdx]
  | alu op s => cases op <;> cases s <;> simp [enc, decode, R8.idx, R8.ofIdx, Alu.idx, Alu.ofIdx]
  | aluN op n => cases op <;> simp [enc, decode, Alu.idx, Alu.ofIdx]
  | jp nn => simp [enc, decode]; omega
  | jr e => simp [enc, decode]
  | bit b r =>
    simp [Instr.wf] at h
    have : b = 0 ∨ b = 1 ∨ b = 2 ∨ b = 3 ∨ b = 4 ∨ b = 5 ∨ b = 6 ∨ b = 7 := by omega
    rcases this with rfl | rfl | rfl | rfl | rfl | rfl | rfl | rfl <;>
      cases r <;> simp [enc, decode, R8.idx, R8.ofIdx]
  | rst t =>
    simp [Instr.wf] at h
    have : t = 0 ∨ t = 1 ∨ t = 2 ∨ t = 3 ∨ t = 4 ∨ t = 5 ∨ t = 6 ∨ t = 7 := by omega
    rcases this with rfl | rfl | rfl | rfl | rfl | rfl | rfl | rfl <;> simp [enc, decode]
  | halt => simp [enc, decode]

#print axioms decode_enc
end Sm

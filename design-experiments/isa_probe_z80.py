import subprocess, os, sys, tempfile
R=['b','c','d','e','h','l','(hl)','a']; RP=['bc','de','hl','sp']; RP2=['bc','de','hl','af']
CC=['nz','z','nc','c','po','pe','p','m']
ALU=['add a,','adc a,','sub ','sbc a,','and ','xor ','or ','cp ']
ROT=['rlc','rrc','rl','rr','sla','sra','sll','srl']
cases=[]  # (src, bytes)
def add(src, bs): cases.append((src, bytes(bs)))
N=0x42; NN=0x1234; LO,HI=0x34,0x12; D=5
add('nop',[0]); add("ex af,af'",[8]); add('djnz $10',[0x10,0x0e]); add('jr $10',[0x18,0x0e])
for i,c in enumerate(CC[:4]): add(f'jr {c},$10',[0x20+8*i,0x0e])
for p,rp in enumerate(RP):
    add(f'ld {rp},$1234',[0x01+16*p,LO,HI]); add(f'add hl,{rp}',[0x09+16*p])
    add(f'inc {rp}',[0x03+16*p]); add(f'dec {rp}',[0x0B+16*p])
add('ld (bc),a',[0x02]); add('ld (de),a',[0x12]); add('ld ($1234),hl',[0x22,LO,HI]); add('ld ($1234),a',[0x32,LO,HI])
add('ld a,(bc)',[0x0A]); add('ld a,(de)',[0x1A]); add('ld hl,($1234)',[0x2A,LO,HI]); add('ld a,($1234)',[0x3A,LO,HI])
for y,r in enumerate(R):
    add(f'inc {r}',[0x04+8*y]); add(f'dec {r}',[0x05+8*y]); add(f'ld {r},$42',[0x06+8*y,N])
for i,m in enumerate(['rlca','rrca','rla','rra','daa','cpl','scf','ccf']): add(m,[0x07+8*i])
for y,r in enumerate(R):
    for z,s in enumerate(R):
        if y==6 and z==6: add('halt',[0x76])
        else: add(f'ld {r},{s}',[0x40+8*y+z])
for y,a in enumerate(ALU):
    for z,s in enumerate(R): add(f'{a}{s}',[0x80+8*y+z])
    add(f'{a}$42',[0xC6+8*y,N])
for y,c in enumerate(CC):
    add(f'ret {c}',[0xC0+8*y]); add(f'jp {c},$1234',[0xC2+8*y,LO,HI]); add(f'call {c},$1234',[0xC4+8*y,LO,HI])
    add(f'rst ${8*y:02x}',[0xC7+8*y])
for p,rp in enumerate(RP2): add(f'pop {rp}',[0xC1+16*p]); add(f'push {rp}',[0xC5+16*p])
add('ret',[0xC9]); add('exx',[0xD9]); add('jp (hl)',[0xE9]); add('ld sp,hl',[0xF9]); add('jp $1234',[0xC3,LO,HI])
add('out ($42),a',[0xD3,N]); add('in a,($42)',[0xDB,N]); add('ex (sp),hl',[0xE3]); add('ex de,hl',[0xEB]); add('di',[0xF3]); add('ei',[0xFB]); add('call $1234',[0xCD,LO,HI])
for y,o in enumerate(ROT):
    for z,r in enumerate(R): add(f'{o} {r}',[0xCB,8*y+z])
for x,o in [(1,'bit'),(2,'res'),(3,'set')]:
    for y in range(8):
        for z,r in enumerate(R): add(f'{o} {y},{r}',[0xCB,64*x+8*y+z])
for y,r in enumerate(R):
    if y!=6: add(f'in {r},(c)',[0xED,0x40+8*y]); add(f'out (c),{r}',[0xED,0x41+8*y])
for p,rp in enumerate(RP):
    add(f'sbc hl,{rp}',[0xED,0x42+16*p]); add(f'adc hl,{rp}',[0xED,0x4A+16*p])
    if rp!='hl':
        add(f'ld ($1234),{rp}',[0xED,0x43+16*p,LO,HI]); add(f'ld {rp},($1234)',[0xED,0x4B+16*p,LO,HI])
add('neg',[0xED,0x44]); add('retn',[0xED,0x45]); add('reti',[0xED,0x4D]); add('im 0',[0xED,0x46]); add('im 1',[0xED,0x56]); add('im 2',[0xED,0x5E])
add('ld i,a',[0xED,0x47]); add('ld r,a',[0xED,0x4F]); add('ld a,i',[0xED,0x57]); add('ld a,r',[0xED,0x5F]); add('rrd',[0xED,0x67]); add('rld',[0xED,0x6F])
for m,b in [('ldi',0xA0),('cpi',0xA1),('ini',0xA2),('outi',0xA3),('ldd',0xA8),('cpd',0xA9),('ind',0xAA),('outd',0xAB),('ldir',0xB0),('cpir',0xB1),('inir',0xB2),('otir',0xB3),('lddr',0xB8),('cpdr',0xB9),('indr',0xBA),('otdr',0xBB)]: add(m,[0xED,b])
# index forms
for pre,ix in [(0xDD,'ix'),(0xFD,'iy')]:
    IH,IL=ix+'h',ix+'l'; M=f'({ix}+5)'
    add(f'ld {ix},$1234',[pre,0x21,LO,HI]); add(f'ld ($1234),{ix}',[pre,0x22,LO,HI]); add(f'ld {ix},($1234)',[pre,0x2A,LO,HI])
    add(f'inc {ix}',[pre,0x23]); add(f'dec {ix}',[pre,0x2B]); add(f'ld sp,{ix}',[pre,0xF9]); add(f'jp ({ix})',[pre,0xE9]); add(f'ex (sp),{ix}',[pre,0xE3]); add(f'push {ix}',[pre,0xE5]); add(f'pop {ix}',[pre,0xE1])
    for p,rp in enumerate(['bc','de',ix,'sp']): add(f'add {ix},{rp}',[pre,0x09+16*p])
    add(f'inc {M}',[pre,0x34,D]); add(f'dec {M}',[pre,0x35,D]); add(f'ld {M},$42',[pre,0x36,D,N])
    for y,r in enumerate(R):
        if y!=6: add(f'ld {r},{M}',[pre,0x46+8*y,D]); add(f'ld {M},{r}',[pre,0x70+y,D])
    for y,a in enumerate(ALU): add(f'{a}{M}',[pre,0x86+8*y,D]); add(f'{a}{IH}',[pre,0x84+8*y]); add(f'{a}{IL}',[pre,0x85+8*y])
    for y,o in enumerate(ROT): add(f'{o} {M}',[pre,0xCB,D,8*y+6])
    for x,o in [(1,'bit'),(2,'res'),(3,'set')]:
        for y in range(8): add(f'{o} {y},{M}',[pre,0xCB,D,64*x+8*y+6])
    RX=['b','c','d','e',IH,IL,None,'a']
    for y,r in enumerate(RX):
        if r is None: continue
        if y in (4,5): add(f'inc {r}',[pre,0x04+8*y]); add(f'dec {r}',[pre,0x05+8*y]); add(f'ld {r},$42',[pre,0x06+8*y,N])
        for z,s in enumerate(RX):
            if s is None: continue
            if y in (4,5) or z in (4,5): add(f'ld {r},{s}',[pre,0x40+8*y+z])
def run(src):
    with open('t.asm','w') as f: f.write('@org 0\n'+src+'\n')
    p=subprocess.run(['/repo/target/debug/az65','z80','t.asm'],capture_output=True)
    return p.returncode,p.stdout,p.stderr.decode(errors='replace')
bad=0
for src,exp in cases:
    rc,out,err=run(src)
    if rc!=0:
        msg=[l for l in err.split('\n') if l.strip()][-1] if rc==1 else 'CRASH rc=%d'%rc
        print(f'REJECT {src!r:28} expected {exp.hex()}  :: {msg}'); bad+=1
    elif out!=exp:
        print(f'MISMATCH {src!r:28} got {out.hex()} expected {exp.hex()}'); bad+=1
print(len(cases),'cases',bad,'bad')

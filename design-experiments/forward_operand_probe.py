import subprocess, re, sys, importlib.util
def load(path):
    src=open(path).read()
    # execute only the case-building part (up to 'def run' / 'un=set' / 'ops=set')
    cut=min(i for i in [src.find('\ndef run'),src.find('\nun=set'),src.find('\nops=set')] if i>0)
    g={}; exec(src[:cut],g); return g['cases']
for arch,path in [('z80','gen.py'),('sm83','gensm.py'),('6502','gen65.py')]:
    cases=load(path); n=bad=0
    for s,e in cases:
        t=s; defs=[]
        for lit,name in [('$1234','fw'),('$42','fb'),('$10','ft'),('+5)','+fd)')]:
            if lit in t:
                if lit=='+5)': t=t.replace(lit,name); defs.append('@defl fd, 5')
                else: t=t.replace(lit,name); defs.append(f'@defl {name}, {lit}')
        if not defs: continue
        if arch in('z80','sm83') and (t.startswith('rst') ): continue
        n+=1
        open('t.asm','w').write('@org 0\n'+t+'\n'+'\n'.join(defs)+'\n')
        p=subprocess.run(['/repo/target/debug/az65',arch,'t.asm'],capture_output=True)
        exp=e
        if arch=='6502' and len(e)==2 and '#' not in s and '(' not in s and not s.startswith('b'):
            exp=None  # zero-page form becomes absolute by design; just report
        if p.returncode!=0 or (exp is not None and p.stdout!=exp):
            bad+=1; print(arch,'BAD',repr(t),p.stdout.hex(),e.hex(),p.stderr.decode().strip().split('\n')[-1] if p.returncode else '')
        elif exp is None and bad<0: print(arch,'zp->abs',t,p.stdout.hex())
    print(arch,n,'forward-operand cases',bad,'bad')

//! mode `intern`: operation sequences on the string / path / metadata interners.
//! args: <kind str|path|meta> <ops ';'>
//!   str/path ops: g:<len>:<seed> (generated text) | h:<hex> (literal)
//!   meta ops    : m:<k1>=<v1>,<k2>=<v2>…  (indices into a fixed pool of interned strings), m: = empty
//! out : per op the handle as b:<buffer>:<start>:<len> joined by ' ' \t buffers cap:len,… \t CHECK ok|<what failed>
//! After every op the harness itself checks (reference map): get(handle) of every handle so far
//! (all of them while the history is short, a rotating sample afterwards) resolves to the bytes it was
//! created from; no buffer's (address, capacity) ever changed; every handle lies inside a live buffer.
use std::collections::HashMap;

use az65::intern::{MetaInterner, PathInterner, StrInterner, StrRef};

use crate::util::unhex;

fn gen_text(len: usize, seed: u64) -> Vec<u8> {
    // printable ASCII, deterministic
    let mut s = seed.wrapping_mul(6364136223846793005).wrapping_add(1442695040888963407);
    let mut out = Vec::with_capacity(len);
    for _ in 0..len {
        s = s.wrapping_mul(6364136223846793005).wrapping_add(1442695040888963407);
        out.push(b'a' + ((s >> 33) % 26) as u8);
    }
    out
}

struct Tracker {
    /// every backing buffer ever seen: address -> capacity at creation.  Buffers are identified by
    /// their ADDRESS (the index in the interner's list is an implementation detail: a new buffer may
    /// be filed anywhere in it)
    buffers_seen: HashMap<usize, usize>,
    problems: Vec<String>,
}

impl Tracker {
    fn observe(&mut self, bufs: &[(usize, usize, usize)]) {
        for (i, (addr, cap, len)) in bufs.iter().enumerate() {
            match self.buffers_seen.get(addr) {
                Some(c) if c != cap => self.problems.push(format!("buffer at {i} resized (capacity {c} -> {cap})")),
                Some(_) => {}
                None => {
                    self.buffers_seen.insert(*addr, *cap);
                }
            }
            if len > cap {
                self.problems.push(format!("buffer {i} len>cap"));
            }
        }
        // a buffer that held interned data must still be there, at the same address
        for addr in self.buffers_seen.keys() {
            if !bufs.iter().any(|(a, _, _)| a == addr) {
                self.problems.push("a backing buffer moved or was dropped".into());
                break;
            }
        }
    }
    fn locate(&mut self, bufs: &[(usize, usize, usize)], raw: (usize, usize)) -> String {
        if raw.1 == 0 {
            // empty handle: may point one past the data of a buffer; identify buffer by range incl. end
            for (i, (addr, cap, _)) in bufs.iter().enumerate() {
                if raw.0 >= *addr && raw.0 <= *addr + *cap {
                    return format!("b:{i}:{}:0", raw.0 - addr);
                }
            }
        }
        for (i, (addr, _cap, len)) in bufs.iter().enumerate() {
            if raw.0 >= *addr && raw.0 + raw.1 <= *addr + *len {
                return format!("b:{i}:{}:{}", raw.0 - addr, raw.1);
            }
        }
        self.problems.push("handle outside every live buffer".into());
        "b:?".into()
    }
}

pub fn run(args: &[&str]) -> String {
    let kind = args[0];
    let ops: Vec<&str> = args[1].split(';').filter(|o| !o.is_empty()).collect();
    let mut tr = Tracker { buffers_seen: HashMap::new(), problems: Vec::new() };
    let mut outs: Vec<String> = Vec::new();
    let mut raws: Vec<(usize, usize)> = Vec::new();
    let bufs_final: Vec<(usize, usize, usize)>;
    match kind {
        "str" | "path" => {
            let mut si = StrInterner::new();
            let mut pi = PathInterner::new();
            let mut handles_s: Vec<(az65::intern::StrRef, Vec<u8>)> = Vec::new();
            let mut handles_p: Vec<(az65::intern::PathRef, Vec<u8>)> = Vec::new();
            let mut reference: HashMap<Vec<u8>, (usize, usize)> = HashMap::new();
            for (n, op) in ops.iter().enumerate() {
                let text = if let Some(r) = op.strip_prefix("g:") {
                    let (l, s) = r.split_once(':').unwrap();
                    gen_text(l.parse().unwrap(), s.parse().unwrap())
                } else if let Some(h) = op.strip_prefix("h:") {
                    unhex(h)
                } else {
                    panic!("harness: bad intern op")
                };
                let (raw, bufs) = if kind == "str" {
                    let s = String::from_utf8(text.clone()).unwrap();
                    let h = si.intern(&s);
                    handles_s.push((h, text.clone()));
                    (h.verif_raw(), si.verif_buffers())
                } else {
                    use std::os::unix::ffi::OsStrExt;
                    let p = std::path::Path::new(std::ffi::OsStr::from_bytes(&text));
                    let h = pi.intern(p);
                    handles_p.push((h, text.clone()));
                    (h.verif_raw(), pi.verif_buffers())
                };
                tr.observe(&bufs);
                outs.push(tr.locate(&bufs, raw));
                raws.push(raw);
                // same text => same handle, different text => different handle
                match reference.get(&text) {
                    Some(prev) => {
                        if *prev != raw {
                            tr.problems.push(format!("op {n}: same text, different handle"));
                        }
                    }
                    None => {
                        if reference.values().any(|v| *v == raw && raw.1 != 0) {
                            tr.problems.push(format!("op {n}: different text, same handle"));
                        }
                        reference.insert(text.clone(), raw);
                    }
                }
                // the implementation's own `==` on handles agrees with equality of the texts
                {
                    let total = if kind == "str" { handles_s.len() } else { handles_p.len() };
                    let step = if total <= 96 { 1 } else { total / 48 };
                    let mut i = 0;
                    while i + 1 < total {
                        let (eq_h, eq_t) = if kind == "str" {
                            (handles_s[i].0 == handles_s[total - 1].0, handles_s[i].1 == handles_s[total - 1].1)
                        } else {
                            (handles_p[i].0 == handles_p[total - 1].0, handles_p[i].1 == handles_p[total - 1].1)
                        };
                        if eq_h != eq_t {
                            tr.problems.push(format!("op {n}: handles {i} and {} compare {} but their texts are {}", total - 1,
                                if eq_h { "equal" } else { "different" }, if eq_t { "equal" } else { "different" }));
                        }
                        i += step.max(1);
                    }
                }
                // `eq(text, handle)` agrees with equality of handles
                {
                    let total = if kind == "str" { handles_s.len() } else { handles_p.len() };
                    let step = if total <= 96 { 1 } else { total / 48 };
                    let mut i = 0;
                    while i < total {
                        let (eq_f, eq_h) = if kind == "str" {
                            let t = String::from_utf8(text.clone()).unwrap();
                            (si.eq_some(&t, handles_s[i].0), handles_s[i].0 == handles_s[total - 1].0)
                        } else {
                            use std::os::unix::ffi::OsStrExt;
                            let pth = std::path::Path::new(std::ffi::OsStr::from_bytes(&text));
                            (pi.eq_some(pth, handles_p[i].0), handles_p[i].0 == handles_p[total - 1].0)
                        };
                        if eq_f != eq_h {
                            tr.problems.push(format!("op {n}: eq(text, handle {i}) = {eq_f} but the handles compare {eq_h}"));
                        }
                        i += step.max(1);
                    }
                }
                // every handle still resolves to its text
                let total = if kind == "str" { handles_s.len() } else { handles_p.len() };
                let step = if total <= 64 { 1 } else { total / 32 };
                let mut i = n % step.max(1);
                while i < total {
                    let ok = if kind == "str" {
                        si.get(handles_s[i].0).map(|s| s.as_bytes() == &handles_s[i].1[..]) == Some(true)
                    } else {
                        use std::os::unix::ffi::OsStrExt;
                        pi.get(handles_p[i].0).map(|p| p.as_os_str().as_bytes() == &handles_p[i].1[..]) == Some(true)
                    };
                    if !ok {
                        tr.problems.push(format!("op {n}: handle {i} no longer resolves to its text"));
                    }
                    i += step.max(1);
                }
            }
            bufs_final = if kind == "str" { si.verif_buffers() } else { pi.verif_buffers() };
        }
        "meta" => {
            let mut si = StrInterner::new();
            let pool: Vec<StrRef> = (0..8).map(|i| si.intern(format!("s{i}"))).collect();
            let mut mi = MetaInterner::new();
            let mut handles: Vec<(az65::intern::MetaRef, Vec<[usize; 2]>)> = Vec::new();
            for (n, op) in ops.iter().enumerate() {
                let body = op.strip_prefix("m:").expect("meta op");
                let pairs_idx: Vec<[usize; 2]> = body
                    .split(',')
                    .filter(|p| !p.is_empty())
                    .map(|p| {
                        let (k, v) = p.split_once('=').unwrap();
                        [k.parse().unwrap(), v.parse().unwrap()]
                    })
                    .collect();
                let pairs: Vec<[StrRef; 2]> = pairs_idx.iter().map(|[k, v]| [pool[*k], pool[*v]]).collect();
                let h = mi.intern(&pairs);
                let bufs = mi.verif_buffers();
                tr.observe(&bufs);
                outs.push(tr.locate(&bufs, h.verif_raw()));
                raws.push(h.verif_raw());
                // `eq(expected, handle)` must say exactly what interning `expected` and comparing handles says
                for (i, (ph, _)) in handles.iter().enumerate() {
                    if mi.eq_some(&pairs, *ph) != (*ph == h) {
                        tr.problems.push(format!("op {n}: eq(pairs, handle {i}) = {} but intern(pairs) == handle {i} is {}", mi.eq_some(&pairs, *ph), *ph == h));
                    }
                }
                let mut sorted = pairs_idx.clone();
                sorted.sort();
                // set semantics: equal as multisets of pairs <=> equal handle
                for (ph, pp) in &handles {
                    let mut ps = pp.clone();
                    ps.sort();
                    let same = ps == sorted;
                    if same != (ph.verif_raw() == h.verif_raw()) && !(sorted.is_empty() && ps.is_empty()) {
                        tr.problems.push(format!("op {n}: set equality and handle equality disagree"));
                    }
                }
                handles.push((h, pairs_idx.clone()));
                for (i, (ph, pp)) in handles.iter().enumerate() {
                    let got = mi.get(*ph).map(|s| {
                        let mut g: Vec<[usize; 2]> = s
                            .iter()
                            .map(|[k, v]| {
                                [pool.iter().position(|p| p == k).unwrap(), pool.iter().position(|p| p == v).unwrap()]
                            })
                            .collect();
                        g.sort();
                        g
                    });
                    let mut want = pp.clone();
                    want.sort();
                    if got != Some(want) {
                        tr.problems.push(format!("op {n}: meta handle {i} no longer resolves to its pairs"));
                    }
                }
            }
            bufs_final = mi.verif_buffers();
        }
        _ => return "BADKIND".into(),
    }
    let bufs: Vec<String> = bufs_final.iter().map(|(_, c, l)| format!("{c}:{l}")).collect();
    let check = if tr.problems.is_empty() { "ok".to_string() } else { tr.problems[0].clone() };
    // canonical form of the run: for every operation the first operation that returned the same handle
    let same: Vec<String> = raws.iter().enumerate().map(|(k, r)| format!("{}", raws.iter().position(|q| q == r).unwrap_or(k))).collect();
    format!("{}\t{}\tCHECK {}\tSAME {}", outs.join(" "), bufs.join(","), check, same.join(","))
}

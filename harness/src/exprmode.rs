//! mode `expr`: `Expr::evaluate` on a constructed node list against a constructed symbol table.
//! args: <env> <nodes>
//!   env   = entries joined by '|' ; entry = name~V~<i32>~<meta> | name~E~<nodes>~<meta>
//!           meta = '-' (none) or hex of the "@SIZEOF" value
//!   nodes = space separated: v:<i32> l:<name> s:<name> or an operator name
use std::{cell::RefCell, rc::Rc};

use az65::{
    expr::{Expr, ExprNode},
    intern::StrInterner,
    symtab::{Symbol, Symtab},
};

use crate::util::unhex_str;

fn parse_nodes(s: &str, int: &Rc<RefCell<StrInterner>>) -> Vec<ExprNode> {
    let mut out = Vec::new();
    for t in s.split(' ').filter(|t| !t.is_empty()) {
        let node = if let Some(v) = t.strip_prefix("v:") {
            ExprNode::Value(v.parse::<i64>().unwrap() as i32)
        } else if let Some(n) = t.strip_prefix("l:") {
            ExprNode::Label(int.borrow_mut().intern(n))
        } else if let Some(n) = t.strip_prefix("s:") {
            ExprNode::SizeOf(int.borrow_mut().intern(n))
        } else {
            match t {
                "invert" => ExprNode::Invert,
                "notLogical" => ExprNode::NotLogical,
                "neg" => ExprNode::Neg,
                "lo" => ExprNode::Lo,
                "hi" => ExprNode::Hi,
                "add" => ExprNode::Add,
                "sub" => ExprNode::Sub,
                "mul" => ExprNode::Mul,
                "div" => ExprNode::Div,
                "rem" => ExprNode::Rem,
                "shl" => ExprNode::ShiftLeft,
                "shr" => ExprNode::ShiftRight,
                "shll" => ExprNode::ShiftLeftLogical,
                "shrl" => ExprNode::ShiftRightLogical,
                "and" => ExprNode::And,
                "or" => ExprNode::Or,
                "xor" => ExprNode::Xor,
                "andLogical" => ExprNode::AndLogical,
                "orLogical" => ExprNode::OrLogical,
                "lt" => ExprNode::LessThan,
                "le" => ExprNode::LessThanEqual,
                "gt" => ExprNode::GreaterThan,
                "ge" => ExprNode::GreaterThanEqual,
                "eq" => ExprNode::Equal,
                "ne" => ExprNode::NotEqual,
                "ternary" => ExprNode::Ternary,
                _ => panic!("harness: bad node {t}"),
            }
        };
        out.push(node);
    }
    out
}

pub fn run(args: &[&str]) -> String {
    let int = Rc::new(RefCell::new(StrInterner::new()));
    let mut symtab = Symtab::new();
    let env = args[0];
    if env != "-" {
        for entry in env.split('|').filter(|e| !e.is_empty()) {
            let parts: Vec<&str> = entry.split('~').collect();
            let key = int.borrow_mut().intern(parts[0]);
            let sym = match parts[1] {
                "V" => Symbol::Value(parts[2].parse::<i64>().unwrap() as i32),
                "E" => Symbol::Expr(Expr::new(parse_nodes(parts[2], &int))),
                _ => panic!("harness: bad env entry"),
            };
            if parts[3] == "-" {
                symtab.insert_with_meta(key, sym, &[]);
            } else {
                let k = int.borrow_mut().intern("@SIZEOF");
                let v = int.borrow_mut().intern(unhex_str(parts[3]));
                symtab.insert_with_meta(key, sym, &[[k, v]]);
            }
        }
    }
    let expr = Expr::new(parse_nodes(args[1], &int));
    match expr.evaluate(&symtab, &int) {
        Some(v) => format!("OK\t{v}"),
        None => "NONE".to_string(),
    }
}

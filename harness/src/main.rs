//! `azh` — in-process harness around the az65 crate (built from /repo's working tree).
//!
//! Reads TSV case lines on stdin (`id \t mode \t args…`) and prints one TSV result line per case.
//! Every case runs under `catch_unwind`; a panic is reported as `CRASH <hex of message+location>`.
mod asm;
mod cr;
mod exprmode;
mod intern;
mod lex;
mod memfs;
mod util;

use std::{
    io::{self, BufRead, Write},
    panic,
};

fn main() {
    // record the panic message + location for the CRASH report; keep stderr quiet
    panic::set_hook(Box::new(|info| {
        let msg = if let Some(s) = info.payload().downcast_ref::<&str>() {
            s.to_string()
        } else if let Some(s) = info.payload().downcast_ref::<String>() {
            s.clone()
        } else {
            "panic".to_string()
        };
        let loc = info
            .location()
            .map(|l| format!("{}:{}", l.file(), l.line()))
            .unwrap_or_default();
        util::LAST_PANIC.with(|p| *p.borrow_mut() = format!("{loc}: {msg}"));
    }));

    let stdin = io::stdin();
    let stdout = io::stdout();
    let mut out = io::BufWriter::new(stdout.lock());
    for line in stdin.lock().lines() {
        let line = match line {
            Ok(l) => l,
            Err(_) => break,
        };
        if line.is_empty() {
            continue;
        }
        let fields: Vec<&str> = line.split('\t').collect();
        if fields.len() < 2 {
            writeln!(out, "?\tBADLINE").unwrap();
            continue;
        }
        let id = fields[0];
        let mode = fields[1];
        let args = &fields[2..];
        let res = panic::catch_unwind(panic::AssertUnwindSafe(|| match mode {
            "expr" => exprmode::run(args),
            "asm" => asm::run(args),
            "lex" => lex::run(args),
            "cr" => cr::run(args),
            "intern" => intern::run(args),
            _ => "BADMODE".to_string(),
        }));
        let text = match res {
            Ok(t) => t,
            Err(_) => {
                let msg = util::LAST_PANIC.with(|p| p.borrow().clone());
                format!("CRASH\t{}", util::hex(msg.as_bytes()))
            }
        };
        writeln!(out, "{id}\t{text}").unwrap();
        // flush per case so that an abort (stack overflow) loses only the current case
        out.flush().unwrap();
    }
}

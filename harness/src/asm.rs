//! mode `asm`: a whole assemble()+link() run over an in-memory file system.
//! args: <arch> <cwd> <root> <search paths ';'|-> <files> [opts]
//!   files = entries joined by ';' ; entry = <path>=<hex>[@c<chunks ','>][@f<fail_at>] | <path>/ (dir)
//!   opts  = comma separated: links (report pending links via hook), export=<json|sym|nl>
//! out : OK \t <hex image> \t <sym=val,…sorted> [\t extra…]   |   ERR \t <hex message>
use std::{cell::RefCell, io::Read, path::Path, rc::Rc};

use az65::{
    assembler::{ArchAssembler, Assembler},
    debug::{AZ65Meta, DebugExporter},
    fileman::{FileManager, FileSystem},
    intern::StrInterner,
    lexer::ArchTokens,
    mos6502::{Mos6502, Mos6502Tokens, NameList},
    sm83::{Sm83, Sm83Tokens, Sym},
    symtab::{Symbol, Symtab},
    z80::{Z80, Z80Tokens},
};

use crate::{
    memfs::{FileSpec, MemFs, ScriptReader},
    util::{hex, unhex},
};

pub fn parse_files(spec: &str) -> MemFs {
    let mut fs = MemFs::default();
    fs.add_dir("/");
    if spec == "-" {
        return fs;
    }
    for entry in spec.split(';').filter(|e| !e.is_empty()) {
        if let Some(dir) = entry.strip_suffix('/') {
            fs.add_dir(if dir.is_empty() { "/" } else { dir });
            continue;
        }
        let (path, rest) = entry.split_once('=').expect("file entry");
        let mut parts = rest.split('@');
        let data = unhex(parts.next().unwrap());
        let mut fspec = FileSpec {
            data,
            ..Default::default()
        };
        for p in parts {
            if let Some(c) = p.strip_prefix('c') {
                fspec.chunks = c.split(',').map(|x| x.parse().unwrap()).collect();
            } else if let Some(f) = p.strip_prefix('f') {
                fspec.fail_at = Some(f.parse().unwrap());
            }
        }
        fs.add_file(path, fspec);
    }
    fs
}

pub fn dump_symbols(symtab: &Symtab, int: &Rc<RefCell<StrInterner>>) -> String {
    let mut v: Vec<String> = Vec::new();
    for (k, sym) in symtab {
        let name = int.borrow().get(*k).unwrap().to_string();
        let val = match sym.inner() {
            Symbol::Value(v) => format!("{v}"),
            Symbol::Expr(e) => match e.evaluate(symtab, int) {
                Some(v) => format!("{v}"),
                None => "?".to_string(),
            },
            #[allow(unreachable_patterns)]
            _ => "?".to_string(),
        };
        let meta = symtab.meta_interner().get(sym.meta()).unwrap();
        let mut ms: Vec<String> = meta
            .iter()
            .map(|[a, b]| {
                let i = int.borrow();
                format!("{}:{}", hex(i.get(*a).unwrap().as_bytes()), hex(i.get(*b).unwrap().as_bytes()))
            })
            .collect();
        ms.sort();
        v.push(format!("{}={}={}", hex(name.as_bytes()), val, ms.join("+")));
    }
    v.sort();
    v.join(",")
}

fn go<A, Z>(z: Z, args: &[&str]) -> String
where
    A: ArchTokens,
    Z: ArchAssembler<MemFs, ScriptReader, A>,
{
    let cwd = args[1];
    let root = args[2];
    let mut fs = parse_files(args[4]);
    fs.cwd = std::path::PathBuf::from(args[1]);
    let written = fs.written.clone();
    let opts: Vec<&str> = if args.len() > 5 { args[5].split(',').collect() } else { vec![] };
    let mut asm = Assembler::new(fs, z);
    if args[3] != "-" {
        for sp in args[3].split(';').filter(|s| !s.is_empty()) {
            if let Err(e) = asm.add_search_path(cwd, sp) {
                return format!("ERR\t{}", hex(format!("{e}").as_bytes()));
            }
        }
    }
    let module = match asm.assemble(cwd, root) {
        Ok(m) => m,
        Err(e) => return format!("ERR\t{}", hex(format!("{e}").as_bytes())),
    };
    let mut extra = String::new();
    #[cfg(az65_verif)]
    if opts.contains(&"links") {
        let links: Vec<String> = module
            .verif_links()
            .iter()
            .map(|(k, o, l)| format!("{k}:{o}:{l}"))
            .collect();
        extra.push_str(&format!("\tLINKS {} PRE {}", links.join(","), hex(module.verif_image())));
    }
    let mut out: Vec<u8> = Vec::new();
    match module.link(&mut out) {
        Ok((int, mut fm, symtab)) => {
            let syms = dump_symbols(&symtab, &int);
            for o in &opts {
                if let Some(kind) = o.strip_prefix("export=") {
                    let res = export(kind, &mut fm, &int, &symtab, cwd);
                    match res {
                        Ok(()) => {
                            let w = written.borrow();
                            let mut files: Vec<String> = w
                                .iter()
                                .map(|(p, d)| format!("{}:{}", p.display(), hex(d)))
                                .collect();
                            files.sort();
                            extra.push_str(&format!("\tEXPORT {}", files.join(",")));
                        }
                        Err(e) => extra.push_str(&format!("\tEXPORTERR {}", hex(e.as_bytes()))),
                    }
                }
            }
            format!("OK\t{}\t{}{}", hex(&out), syms, extra)
        }
        Err(e) => format!("ERR\t{}{}", hex(format!("{e}").as_bytes()), extra),
    }
}

fn export(
    kind: &str,
    fm: &mut FileManager<MemFs>,
    int: &Rc<RefCell<StrInterner>>,
    symtab: &Symtab,
    cwd: &str,
) -> Result<(), String> {
    let cwd = Path::new(cwd);
    let path = Path::new("/out/dbg");
    match kind {
        "json" => AZ65Meta::new().export(fm, int, symtab, cwd, path).map_err(|e| format!("{e}")),
        "sym" => Sym::new().export(fm, int, symtab, cwd, path).map_err(|e| format!("{e}")),
        "nl" => NameList::new().export(fm, int, symtab, cwd, path).map_err(|e| format!("{e}")),
        _ => Err("bad export kind".into()),
    }
}

pub fn run(args: &[&str]) -> String {
    match args[0] {
        "z80" => go::<Z80Tokens, _>(Z80, args),
        "sm83" => go::<Sm83Tokens, _>(Sm83, args),
        "6502" => go::<Mos6502Tokens, _>(Mos6502, args),
        _ => "BADARCH".to_string(),
    }
}

#[allow(dead_code)]
fn _unused<R: Read, S: FileSystem>() {}

//! mode `cr`: `CharReader` over a scripted reader.
//! args: <hex data> <chunks ','|-> <fail_at|->
//! out : <codepoints ','> \t END | UTF8 | IO
use az65::{charreader::{CharReader, CharReaderError}, fileman::FileSystem};

use crate::{memfs::{FileSpec, MemFs}, util::unhex};

pub fn run(args: &[&str]) -> String {
    let mut spec = FileSpec { data: unhex(args[0]), ..Default::default() };
    if args[1] != "-" {
        spec.chunks = args[1].split(',').map(|x| x.parse().unwrap()).collect();
    }
    if args[2] != "-" {
        spec.fail_at = Some(args[2].parse().unwrap());
    }
    let mut fs = MemFs::default();
    fs.add_file("/f", spec);
    let reader = fs.open_read(std::path::Path::new("/f")).unwrap();
    let mut cps = Vec::new();
    let mut end = "END";
    for r in CharReader::new(reader) {
        match r {
            Ok(c) => cps.push(format!("{}", c as u32)),
            Err(CharReaderError::Utf8Error(_)) => { end = "UTF8"; break; }
            Err(CharReaderError::IoError(_)) => { end = "IO"; break; }
            #[allow(unreachable_patterns)]
            Err(_) => { end = "OTHER"; break; }
        }
    }
    format!("{}\t{}", cps.join(","), end)
}

use std::cell::RefCell;

thread_local! {
    pub static LAST_PANIC: RefCell<String> = RefCell::new(String::new());
}

pub fn hex(bytes: &[u8]) -> String {
    let mut s = String::with_capacity(bytes.len() * 2);
    for b in bytes {
        s.push_str(&format!("{b:02x}"));
    }
    s
}

pub fn unhex(s: &str) -> Vec<u8> {
    let b = s.as_bytes();
    let mut out = Vec::with_capacity(b.len() / 2);
    let mut i = 0;
    while i + 1 < b.len() {
        let h = (b[i] as char).to_digit(16).unwrap() as u8;
        let l = (b[i + 1] as char).to_digit(16).unwrap() as u8;
        out.push(h * 16 + l);
        i += 2;
    }
    out
}

pub fn unhex_str(s: &str) -> String {
    String::from_utf8(unhex(s)).expect("utf8 in hex field")
}

//! In-memory `FileSystem` with scripted readers (chunk sizes, injected read fault) and
//! captured writers.
use std::{
    cell::RefCell,
    collections::{BTreeMap, BTreeSet},
    io::{self, Read, Write},
    path::{Path, PathBuf},
    rc::Rc,
};

use az65::fileman::FileSystem;

#[derive(Clone, Default)]
pub struct FileSpec {
    pub data: Vec<u8>,
    /// chunk sizes returned by successive reads (cycled); empty = as much as asked
    pub chunks: Vec<usize>,
    /// the read that would deliver byte `fail_at` fails instead
    pub fail_at: Option<usize>,
}

#[derive(Clone, Default)]
pub struct MemFs {
    pub files: BTreeMap<PathBuf, FileSpec>,
    pub dirs: BTreeSet<PathBuf>,
    pub written: Rc<RefCell<BTreeMap<PathBuf, Vec<u8>>>>,
    /// open_write fails for these paths
    pub unwritable: BTreeSet<PathBuf>,
    /// the process working directory: what a relative path handed to the file system means
    pub cwd: PathBuf,
}

impl MemFs {
    pub fn add_file(&mut self, path: &str, spec: FileSpec) {
        let p = PathBuf::from(path);
        let mut d = p.parent();
        while let Some(dir) = d {
            self.dirs.insert(dir.to_path_buf());
            d = dir.parent();
        }
        self.files.insert(p, spec);
    }
    pub fn add_dir(&mut self, path: &str) {
        let p = PathBuf::from(path);
        let mut d = Some(p.as_path());
        while let Some(dir) = d {
            self.dirs.insert(dir.to_path_buf());
            d = dir.parent();
        }
    }
}

pub struct ScriptReader {
    spec: FileSpec,
    pos: usize,
    turn: usize,
}

impl Read for ScriptReader {
    fn read(&mut self, buf: &mut [u8]) -> io::Result<usize> {
        let remaining = self.spec.data.len() - self.pos;
        let mut n = buf.len().min(remaining);
        if !self.spec.chunks.is_empty() && n > 0 {
            let c = self.spec.chunks[self.turn % self.spec.chunks.len()].max(1);
            self.turn += 1;
            n = n.min(c);
        }
        if let Some(f) = self.spec.fail_at {
            // a read that would reach byte index f fails (also at end of data when f == len)
            if self.pos + n > f || (n == 0 && f >= self.pos && f == self.spec.data.len()) {
                if f > self.pos {
                    // deliver the bytes before the fault first
                    n = f - self.pos;
                    if !self.spec.chunks.is_empty() {
                        // keep chunking faithful: n is already <= chunk
                    }
                } else {
                    return Err(io::Error::new(io::ErrorKind::Other, "injected read fault"));
                }
            }
        }
        buf[..n].copy_from_slice(&self.spec.data[self.pos..self.pos + n]);
        self.pos += n;
        Ok(n)
    }
}

pub struct CaptureWriter {
    path: PathBuf,
    buf: Vec<u8>,
    sink: Rc<RefCell<BTreeMap<PathBuf, Vec<u8>>>>,
}

impl Write for CaptureWriter {
    fn write(&mut self, buf: &[u8]) -> io::Result<usize> {
        self.buf.extend_from_slice(buf);
        self.sink
            .borrow_mut()
            .insert(self.path.clone(), self.buf.clone());
        Ok(buf.len())
    }
    fn flush(&mut self) -> io::Result<()> {
        Ok(())
    }
}

/// what the operating system does with `.` and `..` (there are no symlinks here)
fn resolve_from(cwd: &Path, path: &Path) -> PathBuf {
    let joined = if path.is_absolute() { path.to_path_buf() } else { cwd.join(path) };
    let mut out: Vec<std::ffi::OsString> = Vec::new();
    for c in joined.components() {
        match c {
            std::path::Component::RootDir | std::path::Component::CurDir => {}
            std::path::Component::ParentDir => {
                out.pop();
            }
            std::path::Component::Normal(s) => out.push(s.to_os_string()),
            std::path::Component::Prefix(_) => {}
        }
    }
    let mut p = PathBuf::from("/");
    for s in out {
        p.push(s);
    }
    p
}

impl FileSystem for MemFs {
    type Reader = ScriptReader;
    type Writer = CaptureWriter;

    fn exists(&self, path: &Path) -> bool {
        let path = &resolve_from(&self.cwd, path);
        self.files.contains_key(path) || self.dirs.contains(path)
    }
    fn is_dir(&self, path: &Path) -> io::Result<bool> {
        let path = &resolve_from(&self.cwd, path);
        if self.dirs.contains(path) {
            Ok(true)
        } else if self.files.contains_key(path) {
            Ok(false)
        } else {
            Err(io::Error::new(io::ErrorKind::NotFound, "no such file or directory"))
        }
    }
    fn is_file(&self, path: &Path) -> io::Result<bool> {
        let path = &resolve_from(&self.cwd, path);
        if self.files.contains_key(path) {
            Ok(true)
        } else if self.dirs.contains(path) {
            Ok(false)
        } else {
            Err(io::Error::new(io::ErrorKind::NotFound, "no such file or directory"))
        }
    }
    fn open_read(&self, path: &Path) -> io::Result<Self::Reader> {
        let path = &resolve_from(&self.cwd, path);
        match self.files.get(path) {
            Some(spec) => Ok(ScriptReader {
                spec: spec.clone(),
                pos: 0,
                turn: 0,
            }),
            None => Err(io::Error::new(io::ErrorKind::NotFound, "no such file")),
        }
    }
    fn open_write(&self, path: &Path) -> io::Result<Self::Writer> {
        if self.unwritable.contains(path) {
            return Err(io::Error::new(io::ErrorKind::PermissionDenied, "unwritable"));
        }
        self.written.borrow_mut().insert(path.to_path_buf(), Vec::new());
        Ok(CaptureWriter {
            path: path.to_path_buf(),
            buf: Vec::new(),
            sink: self.written.clone(),
        })
    }
}

//! mode `lex`: the real `Lexer` over a byte string.
//! args: <arch> <hex source> [chunks ','|-]
//! out : tokens joined by ' ' ; token = kind[:payload]@line:col ; then \t END | ERR:<class>:<hexmsg>@line:col
use std::{cell::RefCell, rc::Rc};

use az65::{
    intern::{PathInterner, StrInterner},
    lexer::{ArchTokens, LabelKind, Lexer, LexerError, Token},
    mos6502::Mos6502Tokens,
    sm83::Sm83Tokens,
    z80::Z80Tokens,
};

use crate::{
    memfs::{FileSpec, MemFs},
    util::{hex, unhex},
};

pub fn err_class(e: &LexerError) -> &'static str {
    match e {
        LexerError::ReadError { source, .. } => match source {
            az65::charreader::CharReaderError::IoError(_) => "io",
            az65::charreader::CharReaderError::Utf8Error(_) => "utf8",
            #[allow(unreachable_patterns)]
            _ => "read-other",
        },
        LexerError::UnexpectedLineBreak { .. } => "linebreak",
        LexerError::UnrecognizedStringEscape { .. } => "escape",
        LexerError::MalformedCharacterLiteral { .. } => "charlit",
        LexerError::MalformedBinaryNumber { .. } => "bin",
        LexerError::MalformedDecimalNumber { .. } => "dec",
        LexerError::MalformedHexidecimalNumber { .. } => "hex",
        LexerError::UnrecognizedInput { .. } => "input",
        LexerError::UnknownDirective { .. } => "directive",
        LexerError::MalformedLabel { .. } => "label",
        // a variant added to the implementation after this harness was written
        #[allow(unreachable_patterns)]
        _ => "other",
    }
}

pub fn fmt_token<A: ArchTokens>(tok: &Token<A>, int: &Rc<RefCell<StrInterner>>) -> String {
    let loc = tok.loc();
    let body = match tok {
        Token::Comment { .. } => "com".to_string(),
        Token::NewLine { .. } => "nl".to_string(),
        Token::String { value, .. } => {
            format!("str:{}", hex(int.borrow().get(*value).unwrap().as_bytes()))
        }
        Token::Number { value, .. } => format!("num:{value}"),
        Token::Operation { name, .. } => format!("op:{name}"),
        Token::Directive { name, .. } => format!("dir:{name}"),
        Token::Register { name, .. } => format!("reg:{name}"),
        Token::Flag { name, .. } => format!("flag:{name}"),
        Token::Symbol { name, .. } => format!("sym:{}", hex(format!("{name}").as_bytes())),
        Token::Label { kind, value, .. } => {
            let k = match kind {
                LabelKind::Global => "G",
                LabelKind::Local => "L",
                LabelKind::Direct => "D",
                #[allow(unreachable_patterns)]
                _ => "?",
            };
            format!("lab:{k}:{}", hex(int.borrow().get(*value).unwrap().as_bytes()))
        }
        #[allow(unreachable_patterns)]
        _ => "other-token".to_string(),
    };
    format!("{body}@{}:{}", loc.line, loc.column)
}

fn go<A: ArchTokens>(args: &[&str]) -> String {
    let int = Rc::new(RefCell::new(StrInterner::new()));
    let mut paths = PathInterner::new();
    let pathref = paths.intern("/t.asm");
    let mut fs = MemFs::default();
    let mut spec = FileSpec {
        data: unhex(args[1]),
        ..Default::default()
    };
    if args.len() > 2 && args[2] != "-" {
        spec.chunks = args[2].split(',').map(|x| x.parse().unwrap()).collect();
    }
    fs.add_file("/t.asm", spec);
    use az65::fileman::FileSystem;
    let reader = fs.open_read(std::path::Path::new("/t.asm")).unwrap();
    let lexer: Lexer<_, A> = Lexer::new(int.clone(), None, pathref, reader);
    let mut toks = Vec::new();
    let mut end = "END".to_string();
    for res in lexer {
        match res {
            Ok(tok) => toks.push(fmt_token(&tok, &int)),
            Err(e) => {
                let loc = e.loc();
                end = format!(
                    "ERR:{}:{}@{}:{}",
                    err_class(&e),
                    hex(format!("{e}").as_bytes()),
                    loc.line,
                    loc.column
                );
                break;
            }
        }
    }
    format!("{}\t{}", toks.join(" "), end)
}

pub fn run(args: &[&str]) -> String {
    match args[0] {
        "z80" => go::<Z80Tokens>(args),
        "sm83" => go::<Sm83Tokens>(args),
        "6502" => go::<Mos6502Tokens>(args),
        _ => "BADARCH".to_string(),
    }
}

import Az65.Model.Core
/-
Model of `Assembler::expr` / `expr_prec_0 … expr_prec_11`: the recursive-descent precedence
ladder producing a postfix node list, generic in the token supply.  The ten binary levels differ
only in their operator sets, so they are one function driven by `levelOps` (each row transcribes
one `expr_prec_k`).
-/
namespace Az65
variable {σ : Type}

/-- Operators of `expr_prec_k`, k = 1..10: (SymbolName variant, node pushed). -/
def levelOps : Nat → List (String × Node)
  | 1 => [("DoublePipe", .orLogical)]
  | 2 => [("DoubleAmpersand", .andLogical)]
  | 3 => [("Pipe", .or)]
  | 4 => [("Caret", .xor)]
  | 5 => [("Ampersand", .and)]
  | 6 => [("Equal", .eq), ("NotEqual", .ne)]
  | 7 => [("LessThan", .lt), ("LessEqual", .le), ("GreaterThan", .gt), ("GreaterEqual", .ge)]
  | 8 => [("ShiftLeft", .shl), ("ShiftLeftLogical", .shll), ("ShiftRight", .shr), ("ShiftRightLogical", .shrl)]
  | 9 => [("Plus", .add), ("Minus", .sub)]
  | 10 => [("Star", .mul), ("Div", .div), ("Mod", .rem)]
  | _ => []

/-- Prefix operators of `expr_prec_11`: (SymbolName variant, node pushed if any). -/
def unaryOps : List (String × Option Node) :=
  [("Minus", some .neg), ("Plus", none), ("Bang", some .notLogical), ("Tilde", some .invert),
   ("LessThan", some .lo), ("GreaterThan", some .hi)]

def lookupOp {α} (tbl : List (String × α)) (s : String) : Option α :=
  match tbl with
  | [] => none
  | (k, v) :: r => if k = s then some v else lookupOp r s

/-- `peeked_symbol(sym)`: peek and test. -/
def peekedSymbol (ops : TokOps σ) (name : String) (s : σ) : R σ Bool :=
  match ops.peek s with
  | .error e => .error e
  | .ok (some ⟨.sym n, _⟩, s') => .ok (n == name, s')
  | .ok (_, s') => .ok (false, s')

/-- The label / `@sizeof` operand: qualify, record the reference. -/
def labelNode (c : CoreSt) (direct : String) : Node :=
  match c.symtab.get direct with
  | some e =>
    match e.sym with
    | .val v => .val v
    | .expr body =>
      match evaluate c.symtab body with
      | .ok v => .val v
      | _ => .label direct
  | none => .label direct

mutual
/-- `expr_prec_k` for level `k` (0 = ternary, 1..10 binary, ≥ 11 unary/primary);
returns the location of the first token and the extended node list. -/
def parsePrec (ops : TokOps σ) : Nat → Nat → List Node → σ → R σ (Loc × List Node)
  | 0, _, _, s => .error ⟨.fuel, ops.loc s⟩
  | f + 1, k, nodes, s =>
    if k = 0 then
      match parsePrec ops f 1 nodes s with
      | .error e => .error e
      | .ok ((loc, nodes), s) =>
        match ops.peek s with
        | .error e => .error e
        | .ok (some ⟨.sym "Question", _⟩, s) =>
          match ops.next s with
          | .error e => .error e
          | .ok (_, s) =>
            match parsePrec ops f 1 nodes s with
            | .error e => .error e
            | .ok ((_, nodes), s) =>
              match peekedSymbol ops "Colon" s with
              | .error e => .error e
              | .ok (false, s) => .error ⟨.unexpected, ops.loc s⟩
              | .ok (true, s) =>
                match ops.next s with
                | .error e => .error e
                | .ok (_, s) =>
                  match parsePrec ops f 1 nodes s with
                  | .error e => .error e
                  | .ok ((_, nodes), s) => .ok ((loc, nodes ++ [.ternary]), s)
        | .ok (_, s) => .ok ((loc, nodes), s)
    else if k ≤ 10 then
      match parsePrec ops f (k + 1) nodes s with
      | .error e => .error e
      | .ok ((loc, nodes), s) => parseLoop ops f k loc nodes s
    else
      match ops.peek s with
      | .error e => .error e
      | .ok (none, s) => .error ⟨.eoi, ops.loc s⟩
      | .ok (some ⟨.sym name, loc⟩, s) =>
        match lookupOp unaryOps name with
        | some node =>
          match ops.next s with
          | .error e => .error e
          | .ok (_, s) =>
            match parsePrec ops f 11 nodes s with
            | .error e => .error e
            | .ok ((_, nodes), s) =>
              .ok ((loc, match node with | some n => nodes ++ [n] | none => nodes), s)
        | none =>
          if name = "ParenOpen" then
            match ops.next s with
            | .error e => .error e
            | .ok (_, s) =>
              match parsePrec ops f 0 nodes s with
              | .error e => .error e
              | .ok ((_, nodes), s) =>
                match peekedSymbol ops "ParenClose" s with
                | .error e => .error e
                | .ok (false, s) => .error ⟨.unexpected, ops.loc s⟩
                | .ok (true, s) =>
                  match ops.next s with
                  | .error e => .error e
                  | .ok (_, s) => .ok ((loc, nodes), s)
          else .error ⟨.unexpected, loc⟩
      | .ok (some ⟨.num v, loc⟩, s) =>
        match ops.next s with
        | .error e => .error e
        | .ok (_, s) => .ok ((loc, nodes ++ [.val (i32OfNat v)]), s)
      | .ok (some ⟨.dir name, loc⟩, s) =>
        if name = "Here" then
          match ops.next s with
          | .error e => .error e
          | .ok (_, s) => .ok ((loc, nodes ++ [.val (i32OfNat (ops.getC s).here)]), s)
        else if name = "SizeOf" then
          match ops.next s with
          | .error e => .error e
          | .ok (_, s) =>
            match ops.next s with
            | .error e => .error e
            | .ok (none, s) => .error ⟨.eoi, ops.loc s⟩
            | .ok (some ⟨.label kind value, lloc⟩, s) =>
              match qualify (ops.getC s).ns kind value with
              | none => .error ⟨.noScope, lloc⟩
              | some direct =>
                let c := (ops.getC s).touch direct lloc
                .ok ((lloc, nodes ++ [.sizeOf direct]), ops.setC s c)
            | .ok (some t, _) => .error ⟨.unexpected, t.loc⟩
        else .error ⟨.unexpected, loc⟩
      | .ok (some ⟨.label kind value, loc⟩, s) =>
        match ops.next s with
        | .error e => .error e
        | .ok (_, s) =>
          match qualify (ops.getC s).ns kind value with
          | none => .error ⟨.noScope, loc⟩
          | some direct =>
            let c := ops.getC s
            let node := labelNode c direct
            .ok ((loc, nodes ++ [node]), ops.setC s (c.touch direct loc))
      | .ok (some t, _) => .error ⟨.unexpected, t.loc⟩

/-- The `loop { match self.peek()? { op => …, _ => return } }` of a binary level. -/
def parseLoop (ops : TokOps σ) : Nat → Nat → Loc → List Node → σ → R σ (Loc × List Node)
  | 0, _, _, _, s => .error ⟨.fuel, ops.loc s⟩
  | f + 1, k, loc, nodes, s =>
    match ops.peek s with
    | .error e => .error e
    | .ok (some ⟨.sym name, _⟩, s) =>
      match lookupOp (levelOps k) name with
      | some node =>
        match ops.next s with
        | .error e => .error e
        | .ok (_, s) =>
          match parsePrec ops f (k + 1) nodes s with
          | .error e => .error e
          | .ok ((_, nodes), s) => parseLoop ops f k loc (nodes ++ [node]) s
      | none => .ok ((loc, nodes), s)
    | .ok (_, s) => .ok ((loc, nodes), s)
end

/-- `Assembler::expr`. -/
def parseExpr (ops : TokOps σ) (fuel : Nat) (s : σ) : R σ (Loc × List Node) :=
  parsePrec ops fuel 0 [] s

/-- Turn an evaluation result into the `Option<i32>` the Rust sees; a crash is an error. -/
def evalOpt (c : CoreSt) (nodes : List Node) (loc : Loc) : Except Err (Option I32) :=
  match c.eval nodes with
  | .ok v => .ok (some v)
  | .unsolved => .ok none
  | .crash site => .error ⟨.crash site, loc⟩

/-- `Assembler::const_expr`. -/
def constExpr (ops : TokOps σ) (fuel : Nat) (s : σ) : R σ (Loc × Option I32) :=
  match parseExpr ops fuel s with
  | .error e => .error e
  | .ok ((loc, nodes), s) =>
    match evalOpt (ops.getC s) nodes loc with
    | .error e => .error e
    | .ok v => .ok ((loc, v), s)

end Az65

import Az65.Model.Interp
/-
The effect of each statement kind on the core state, as pure functions: what `parse_all` does
*after* it has read the statement's tokens.  `Model/Stmt.lean` (token level) and `Model/Abs.lean`
(statement level) both call these, so theorems about them hold for both.
-/
namespace Az65

def TOP : Nat := 65536

namespace Eff

/-- A label definition at the current address. -/
def label (c : CoreSt) (direct : String) (loc : Loc) : Except Err CoreSt :=
  if (c.symtab.get direct).isSome then .error ⟨.alreadyDefined, loc⟩
  else .ok (c.insert direct (.val (i32OfNat c.here)))

/-- `@org` with an immediately solved value. -/
def org (c : CoreSt) (v : Option I32) (loc : Loc) : Except Err CoreSt :=
  match v with
  | none => .error ⟨.needsNow, loc⟩
  | some v => if u32 v > 65535 then .error ⟨.range, loc⟩ else .ok { c with here := u32 v }

/-- One string item of `@db`. -/
def dbStr (c : CoreSt) (bytes : List Nat) (loc : Loc) : Except Err CoreSt :=
  if c.here + bytes.length > TOP then .error ⟨.addrOverflow, loc⟩
  else .ok { c.pushAll bytes with here := c.here + bytes.length }

/-- One expression item of `@db`: `v` is its value if it can be solved now. -/
def dbVal (c : CoreSt) (v : Option I32) (nodes : List Node) (loc : Loc) : Except Err CoreSt :=
  match v with
  | some v =>
    if u32 v > 255 then .error ⟨.range, loc⟩
    else if c.here + 1 > TOP then .error ⟨.addrOverflow, loc⟩
    else .ok { c.push (lowByte v) with here := c.here + 1 }
  | none =>
    if c.here + 1 > TOP then .error ⟨.addrOverflow, loc⟩
    else .ok { (c.addLink ⟨.byte, loc, c.dataLen, 1, nodes, none⟩).push 0 with here := c.here + 1 }

/-- One item of `@dw`. -/
def dwVal (c : CoreSt) (v : Option I32) (nodes : List Node) (loc : Loc) : Except Err CoreSt :=
  match v with
  | some v =>
    if u32 v > 65535 then .error ⟨.range, loc⟩
    else if c.here + 2 > TOP then .error ⟨.addrOverflow, loc⟩
    else .ok { (c.push (u32 v % 256)).push (u32 v / 256 % 256) with here := c.here + 2 }
  | none =>
    if c.here + 2 > TOP then .error ⟨.addrOverflow, loc⟩
    else .ok { ((c.addLink ⟨.word, loc, c.dataLen, 2, nodes, none⟩).push 0).push 0 with here := c.here + 2 }

/-- `@db` / `@dw` in an ADDR segment: the address advances, nothing is emitted. -/
def skip (c : CoreSt) (n : Nat) (loc : Loc) : Except Err CoreSt :=
  if c.here + n > TOP then .error ⟨.addrOverflow, loc⟩ else .ok { c with here := c.here + n }

/-- The size operand of `@ds`: advances the address; returns the size. -/
def dsSize (c : CoreSt) (v : Option I32) (loc : Loc) : Except Err (CoreSt × Nat) :=
  match v with
  | none => .error ⟨.needsNow, loc⟩
  | some sz =>
    if u32 sz > 65535 then .error ⟨.range, loc⟩
    else if c.here + u32 sz > TOP then .error ⟨.addrOverflow, loc⟩
    else .ok ({ c with here := c.here + u32 sz }, u32 sz)

/-- The fill of `@ds` in a CODE segment: `fill` = `none` (no fill operand → zeros),
`some (some v)` (solved), `some none` (deferred: a space link). -/
def dsFill (c : CoreSt) (size : Nat) (fill : Option (Option I32)) (nodes : List Node) (loc : Loc) :
    Except Err CoreSt :=
  match fill with
  | none => .ok (c.pushAll (List.replicate size 0))
  | some (some v) =>
    if u32 v > 255 then .error ⟨.range, loc⟩ else .ok (c.pushAll (List.replicate size (lowByte v)))
  | some none =>
    .ok ((c.addLink ⟨.space, loc, c.dataLen, size, nodes, none⟩).pushAll (List.replicate size 0))

/-- `@align`: pad to the next multiple (bytes only in a CODE segment). -/
def align (c : CoreSt) (code : Bool) (v : Option I32) (loc : Loc) : Except Err CoreSt :=
  match v with
  | none => .error ⟨.needsNow, loc⟩
  | some al =>
    if al.toInt < 2 then .error ⟨.range, loc⟩ else
    let a := u32 al
    let padding := (a - c.here % a) % a
    if padding > 65535 then .error ⟨.range, loc⟩
    else if c.here + padding > TOP then .error ⟨.addrOverflow, loc⟩
    else if code then .ok { c.pushAll (List.replicate padding 0) with here := c.here + padding }
    else .ok { c with here := c.here + padding }

/-- `@incbin` contents, byte by byte with the top-of-memory test. -/
def incbin (c : CoreSt) (loc : Loc) : List Nat → Except Err CoreSt
  | [] => .ok c
  | b :: r =>
    if c.here + 1 > TOP then .error ⟨.addrOverflow, loc⟩
    else incbin { c.push b with here := c.here + 1 } loc r

/-- The tail of an instruction statement: the address advances by what the encoder emitted. -/
def instrTail (c : CoreSt) (oldLen : Nat) (loc : Loc) : Except Err CoreSt :=
  let here := c.here + (c.dataLen - oldLen)
  if here > TOP then .error ⟨.addrOverflow, loc⟩ else .ok { c with here := here }

/-- `@assert`. -/
def assert (c : CoreSt) (v : Option I32) (nodes : List Node) (msg : Option String) (loc : Loc) :
    Except Err CoreSt :=
  match v with
  | some v => if v = 0 then .error ⟨.assertFail, loc⟩ else .ok c
  | none => .ok (c.addLink ⟨.assert, loc, 0, 0, nodes, msg⟩)

/-- `@defl` / `@defn`: a plain definition (rejected if the name exists). -/
def define (c : CoreSt) (keepMeta : Bool) (direct : String) (nodes : List Node) (loc : Loc) :
    Except Err CoreSt :=
  if (c.symtab.get direct).isSome then .error ⟨.alreadyDefined, loc⟩
  else if keepMeta then .ok (c.insert direct (.expr nodes))
  else .ok (c.insertWithMeta direct (.expr nodes) [])

/-- `@redefl` / `@redefn`: overwrite unconditionally. -/
def redefine (c : CoreSt) (keepMeta : Bool) (direct : String) (nodes : List Node) : CoreSt :=
  if keepMeta then c.insert direct (.expr nodes) else c.insertWithMeta direct (.expr nodes) []

def undef (c : CoreSt) (direct : String) : CoreSt := { c with symtab := c.symtab.remove direct }

/-! ### struct members -/

/-- Padding of the struct `@align`: `(alignment - size.rem_euclid(alignment)) % alignment`. -/
def structPadding (size al : I32) : I32 :=
  let r := size.toInt % al.toInt
  BitVec.ofInt 32 ((al.toInt - r) % al.toInt)

/-- A sized field: the field's value is the running size, its `@SIZEOF` the declared size. -/
def structField (c : CoreSt) (direct : String) (size fieldSize : I32) (sizeText : String) (loc : Loc) :
    Except Err (CoreSt × I32) :=
  if (c.symtab.get direct).isSome then .error ⟨.alreadyDefined, loc⟩
  else .ok (c.insertWithMeta direct (.val size) [("@SIZEOF", sizeText)], size + fieldSize)

end Eff
end Az65

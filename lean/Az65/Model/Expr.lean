import Az65.Basic
/-
Model of `src/expr.rs` (`Expr::evaluate`): a postfix evaluator over a value stack, with lazy
symbols (`Symbol::Expr`) evaluated recursively under a "currently being evaluated" list, and
`@sizeof` reading the `@SIZEOF` metadata entry.  Same case split, same order of pops as the Rust.
-/
namespace Az65

inductive Node where
  | val (v : I32)
  | label (n : String)
  | sizeOf (n : String)
  | invert | notLogical | neg | lo | hi
  | add | sub | mul | div | rem
  | shl | shr | shll | shrl
  | and | or | xor | andLogical | orLogical
  | lt | le | gt | ge | eq | ne
  | ternary
  deriving Repr, DecidableEq

inductive Sym where
  | val (v : I32)
  | expr (ns : List Node)
  deriving Repr

/-- A symbol-table entry: the symbol and its metadata pairs (key, value). -/
structure Entry where
  sym : Sym
  metas : List (String × String) := []
  deriving Repr

/-- Symbol table as an association list (first match wins; the assembler model keeps keys unique). -/
abbrev Env := List (String × Entry)

def Env.get (env : Env) (n : String) : Option Entry :=
  match env with
  | [] => none
  | (k, e) :: r => if k = n then some e else Env.get r n

def b2i (b : Bool) : I32 := if b then 1 else 0

/-- `rhs as u32` reduced by `wrapping_sh*` to `0..31`. -/
def shAmt (rhs : I32) : Nat := rhs.toNat % 32

/-- Unary operators (`stack.pop()`, compute, push). -/
def un1 : Node → Option (I32 → I32)
  | .invert => some fun v => ~~~v
  | .notLogical => some fun v => b2i (v == 0)
  | .neg => some fun v => -v                        -- `wrapping_neg`
  | .lo => some fun v => v &&& 0xFF
  | .hi => some fun v => (v >>> 8) &&& 0xFF          -- `((value as u16) >> 8) as i32`
  | _ => none

/-- Binary operators: `rhs = pop; lhs = pop; push (f lhs rhs)`; `none` = "could not be solved". -/
def bin2 : Node → Option (I32 → I32 → Option I32)
  | .add => some fun l r => some (l + r)
  | .sub => some fun l r => some (l - r)
  | .mul => some fun l r => some (l * r)
  | .div => some fun l r => if r = 0 then none else some (l.sdiv r)
  | .rem => some fun l r => if r = 0 then none else some (l.srem r)
  | .shl => some fun l r => some (l <<< shAmt r)
  | .shr => some fun l r => some (l.sshiftRight (shAmt r))
  | .shll => some fun l r => some (l <<< shAmt r)
  | .shrl => some fun l r => some (l >>> shAmt r)
  | .and => some fun l r => some (l &&& r)
  | .or => some fun l r => some (l ||| r)
  | .xor => some fun l r => some (l ^^^ r)
  | .andLogical => some fun l r => some (b2i (l != 0 && r != 0))
  | .orLogical => some fun l r => some (b2i (l != 0 || r != 0))
  | .lt => some fun l r => some (b2i (l.slt r))
  | .le => some fun l r => some (b2i (l.sle r))
  | .gt => some fun l r => some (b2i (r.slt l))
  | .ge => some fun l r => some (b2i (r.sle l))
  | .eq => some fun l r => some (b2i (l == r))
  | .ne => some fun l r => some (b2i (l != r))
  | _ => none

/-- `i32::from_str_radix(s, 10)`: optional sign, then one or more ASCII digits, in range. -/
def parseI32Digits : List Char → Nat → Option Nat
  | [], acc => some acc
  | c :: r, acc => if '0' ≤ c ∧ c ≤ '9' then parseI32Digits r (acc * 10 + (c.toNat - 48)) else none

def parseI32 (s : String) : Option I32 :=
  match s.toList with
  | [] => none
  | '-' :: r => if r.isEmpty then none else
      match parseI32Digits r 0 with
      | some n => if n ≤ 2147483648 then some (BitVec.ofInt 32 (-(n : Int))) else none
      | none => none
  | '+' :: r => if r.isEmpty then none else
      match parseI32Digits r 0 with
      | some n => if n < 2147483648 then some (BitVec.ofNat 32 n) else none
      | none => none
  | cs =>
      match parseI32Digits cs 0 with
      | some n => if n < 2147483648 then some (BitVec.ofNat 32 n) else none
      | none => none

/-- Steps that do not look at the symbol table: values, unary, binary, ternary. -/
def pureStep (n : Node) (st : List I32) : Res (List I32) :=
  match n with
  | .val v => .ok (v :: st)
  | .ternary =>
    match st with
    | r :: l :: c :: s => .ok ((if c != 0 then l else r) :: s)
    | _ => .crash "pop"
  | n =>
    match un1 n with
    | some f =>
      match st with
      | v :: s => .ok (f v :: s)
      | [] => .crash "pop"
    | none =>
      match bin2 n with
      | some f =>
        match st with
        | r :: l :: s =>
          match f l r with
          | some v => .ok (v :: s)
          | none => .unsolved
        | _ => .crash "pop"
      | none => .crash "node"

/-- Which table access a node makes, if any. -/
inductive Access where
  | label (n : String)
  | sizeOf (n : String)
  | none

def Node.access : Node → Access
  | .label n => .label n
  | .sizeOf n => .sizeOf n
  | _ => .none

/-- `ExprNode::SizeOf`: the `@SIZEOF` metadata entry parsed as a decimal `i32`. -/
def sizeOfStep (env : Env) (n : String) : Res I32 :=
  match env.get n with
  | none => .unsolved
  | some e =>
    match e.metas.find? (fun kv => kv.1 == "@SIZEOF") with
    | none => .unsolved
    | some kv =>
      match parseI32 kv.2 with
      | some v => .ok v
      | none => .unsolved

/-- `ExprNode::Label`: a plain value, or the recursive evaluation of a lazy symbol (a symbol that
is already being evaluated is a cycle: "could not be solved"). -/
def labelStep (lazy : List String → List Node → Res I32) (env : Env) (visiting : List String)
    (x : String) : Res I32 :=
  match env.get x with
  | none => .unsolved
  | some e =>
    match e.sym with
    | .val v => .ok v
    | .expr body => if visiting.contains x then .unsolved else lazy (x :: visiting) body

/-- One pass over a node list.  `lazy vis ns` is the recursive evaluation of a lazy symbol's
expression `ns` with `vis` the symbols currently being evaluated. -/
def evalList (lazy : List String → List Node → Res I32) (env : Env) (visiting : List String) :
    List Node → List I32 → Res I32
  | [], st => match st with
      | v :: _ => .ok v
      | [] => .unsolved                                   -- `stack.pop()` on an empty stack
  | n :: ns, st =>
    match n.access with
    | .label x =>
      match labelStep lazy env visiting x with
      | .ok v => evalList lazy env visiting ns (v :: st)
      | .unsolved => .unsolved
      | .crash s => .crash s
    | .sizeOf x =>
      match sizeOfStep env x with
      | .ok v => evalList lazy env visiting ns (v :: st)
      | .unsolved => .unsolved
      | .crash s => .crash s
    | .none =>
      match pureStep n st with
      | .ok st' => evalList lazy env visiting ns st'
      | .unsolved => .unsolved
      | .crash s => .crash s

/-- Evaluation with `fuel` levels of lazy-symbol recursion available. -/
def evalAt : Nat → Env → List String → List Node → Res I32
  | 0, _, _, _ => .crash "fuel"
  | f + 1, env, vis, ns => evalList (evalAt f env) env vis ns []

/-- `Expr::evaluate` at top level.  Fuel: two more than the number of table entries is enough
(the `visiting` list is duplicate-free), so `crash "fuel"` is not an observable outcome. -/
def evaluate (env : Env) (ns : List Node) : Res I32 :=
  evalAt (env.length + 2) env [] ns

end Az65

import Az65.Model.Link
/-
Model of the three debug exporters (`src/debug.rs` AZ65Meta JSON, `src/sm83/sym.rs`,
`src/mos6502/namelist.rs`): functions from the final symbol table to the records each file holds.
The hash-map iteration order of the Rust is not modelled: files are compared as sets of records.
-/
namespace Az65
namespace Export

/-- Final value of a symbol (lazy symbols are evaluated against the final table); `none` = the
exporter reports "could not be solved". -/
def finalValue (c : CoreSt) (e : Entry) : Option I32 :=
  match e.sym with
  | .val v => some v
  | .expr body =>
    match evaluate c.symtab body with
    | .ok v => some v
    | _ => none

structure JsonSym where
  name : String
  value : Int
  metas : List (String × String)
  deriving Repr

/-- Every symbol of the table with its final value, in table order; the first unsolvable symbol
is the error. -/
def rowsOf (c : CoreSt) : Env → Except String (List (String × Entry × I32))
  | [] => .ok []
  | (n, e) :: r =>
    match finalValue c e with
    | none => .error n
    | some v =>
      match rowsOf c r with
      | .error x => .error x
      | .ok l => .ok ((n, e, v) :: l)

/-- `-g FILE`: every symbol with its name, final value and metadata. -/
def json (c : CoreSt) : Except String (List JsonSym) :=
  match rowsOf c c.symtab with
  | .error x => .error x
  | .ok rows => .ok (rows.map fun (n, e, v) => { name := n, value := v.toInt, metas := e.metas })

def hasMeta (e : Entry) (k v : String) : Bool := e.metas.any fun kv => kv.1 == k && kv.2 == v

def hexVal? (s : String) : Option Nat :=
  if s.isEmpty then none else
  let cs := if s.startsWith "+" then (s.drop 1).toString.toList else s.toList
  if cs.isEmpty then none else
  if cs.all isHexDigit then some (cs.foldl (fun acc ch => acc * 16 + digitVal ch) 0) else none

/-- the last `BANK` entry that parses as hex wins (the Rust loop overwrites `bank`) -/
def bankOf (e : Entry) : Option Nat :=
  (e.metas.filter (·.1 == "BANK")).foldl (fun acc kv => match hexVal? kv.2 with | some b => some b | none => acc) none

def u16 (v : I32) : Nat := v.toNat % 65536

/-- One line of a `.sym` / `.nl` file: optional bank, 16-bit value, label. -/
structure Line where
  bank : Option Nat
  value : Nat
  label : String
  deriving Repr, DecidableEq

/-- SM83 `.sym`: HRAM symbols, then ROM / WRAM / SRAM / VRAM symbols that carry a BANK. -/
def sym (c : CoreSt) : Except String (List Line) := do
  let rows ← rowsOf c c.symtab
  let hram := (rows.filter fun (_, e, _) => hasMeta e "ID" "HRAM").map fun (n, _, v) => Line.mk none (u16 v) n
  let banked (id : String) := (rows.filter fun (_, e, _) => hasMeta e "ID" id && (bankOf e).isSome).map
    fun (n, e, v) => Line.mk (bankOf e) (u16 v) n
  pure (hram ++ banked "ROM" ++ banked "WRAM" ++ banked "SRAM" ++ banked "VRAM")

/-- 6502 `.nl`: a `.ram.nl` file for ZP / RAM symbols and one `.<BANK>.nl` per PRG bank. -/
def nl (c : CoreSt) : Except String (List Line × List Line) := do
  let rows ← rowsOf c c.symtab
  let ram := (rows.filter fun (_, e, _) => hasMeta e "ID" "ZP" || hasMeta e "ID" "RAM").map fun (n, _, v) => Line.mk none (u16 v) n
  let prg := (rows.filter fun (_, e, _) => hasMeta e "ID" "PRG" && (bankOf e).isSome).map fun (n, e, v) => Line.mk (bankOf e) (u16 v) n
  pure (ram, prg)

end Export

/-! ### the command line (`src/bin/az65.rs`) -/
namespace Cli

/-- What each phase did, as far as `main` is concerned. -/
structure Phases where
  outputOpens : Bool := true                   -- `-o FILE` could be created
  outputWrites : Bool := true                  -- the image could be written to it
  searchPathsOk : Bool := true                 -- every `-I` directory exists
  assemble : Bool                              -- parse phase succeeded
  link : Option (List Nat)                     -- `some image` = link succeeded
  exports : List Bool := []                    -- requested exports, in order (NL, SYM, JSON)
  deriving Repr

structure Outcome where
  exit : Nat
  stdout : List Nat
  /-- contents of the `-o` file if it was created -/
  ofile : Option (List Nat)
  message : Bool                               -- something was printed on standard error
  exportsWritten : Nat                         -- how many export files were produced
  deriving Repr, DecidableEq

/-- `main`: open the output, add search paths, assemble, link (the image is written only after
every patch resolved), then the requested exports; the first failure ends the run. -/
def main (toFile : Bool) (p : Phases) : Outcome :=
  if toFile && !p.outputOpens then ⟨1, [], none, true, 0⟩ else
  let empty : Option (List Nat) := if toFile then some [] else none
  if !p.searchPathsOk then ⟨1, [], empty, true, 0⟩ else
  if !p.assemble then ⟨1, [], empty, true, 0⟩ else
  match p.link with
  | none => ⟨1, [], empty, true, 0⟩
  | some image =>
    if toFile && !p.outputWrites then ⟨1, [], some [], true, 0⟩ else
    let out := if toFile then [] else image
    let file := if toFile then some image else none
    let done := (p.exports.takeWhile id).length
    if done < p.exports.length then ⟨1, out, file, true, done⟩
    else ⟨0, out, file, false, done⟩

end Cli
end Az65

import Az65.Model.Expr
import Az65.Model.Lexer
/-
Shared state and vocabulary of the assembler model (`src/assembler/mod.rs`, `src/linker.rs`):
the part of the `Assembler` struct that expression parsing and the instruction encoders touch
(`CoreSt`), deferred patches (`Link`), diagnostics (`Err`) and the abstract token supply
(`TokOps`) over which the expression ladder and the decision-tree interpreter are generic.
-/
namespace Az65

inductive LinkKind where
  | byte | signedByte | word | space | assert
  deriving Repr, DecidableEq, Inhabited

/-- A deferred patch (`linker::Link`). `len` is 1, 1, 2, the space length, 0. -/
structure Link where
  kind : LinkKind
  loc : Loc
  offset : Nat
  len : Nat
  expr : List Node
  msg : Option String := none
  deriving Repr, Inhabited

/-- Diagnostic classes (the wording of messages is not modelled). -/
inductive EKind where
  | eoi                    -- "Unexpected end of input"
  | unexpected             -- unexpected token / malformed statement
  | range                  -- value does not fit its field
  | addrOverflow           -- bytes extend past $ffff
  | needsNow               -- "must be immediately solvable"
  | alreadyDefined
  | noScope                -- local label without a global label
  | assertFail
  | die
  | notFound               -- file not found
  | fileOpen | fileRead
  | lex (k : LexErrKind)
  | undefined              -- link: undefined symbol
  | unsolved               -- link: expression could not be solved
  | other (s : String)
  | crash (site : String)  -- a Rust panic site; never a legal outcome
  | fuel                   -- model ran out of fuel (non-termination in the real code)
  deriving Repr, DecidableEq, Inhabited

structure Err where
  kind : EKind
  loc : Loc
  deriving Repr, Inhabited

/-- The part of `Assembler` that expressions and encoders read and write. -/
structure CoreSt where
  symtab : Env := []
  /-- `Symtab::hits`: first reference of each name, in order of first touch -/
  hits : List (String × Loc) := []
  /-- metadata in force (`@meta … @endmeta`), sorted canonical form is kept by the interner -/
  curMeta : List (String × String) := []
  /-- `data`, newest byte first -/
  dataRev : List Nat := []
  links : List Link := []
  here : Nat := 0
  ns : Option String := none
  deriving Repr, Inhabited

def CoreSt.data (c : CoreSt) : List Nat := c.dataRev.reverse
def CoreSt.dataLen (c : CoreSt) : Nat := c.dataRev.length
def CoreSt.push (c : CoreSt) (b : Nat) : CoreSt := { c with dataRev := b :: c.dataRev }
def CoreSt.pushAll (c : CoreSt) (bs : List Nat) : CoreSt := { c with dataRev := bs.reverse ++ c.dataRev }
def CoreSt.addLink (c : CoreSt) (l : Link) : CoreSt := { c with links := c.links ++ [l] }

/-- `Symtab::touch`: record the first reference only. -/
def CoreSt.touch (c : CoreSt) (n : String) (loc : Loc) : CoreSt :=
  if c.hits.any (·.1 == n) then c else { c with hits := c.hits ++ [(n, loc)] }

def Env.set (env : Env) (n : String) (e : Entry) : Env :=
  match env with
  | [] => [(n, e)]
  | (k, v) :: r => if k = n then (k, e) :: r else (k, v) :: Env.set r n e

def Env.remove (env : Env) (n : String) : Env := env.filter (·.1 ≠ n)

/-- `Symtab::insert`: the symbol carries the metadata in force. -/
def CoreSt.insert (c : CoreSt) (n : String) (s : Sym) : CoreSt :=
  { c with symtab := c.symtab.set n { sym := s, metas := c.curMeta } }

def CoreSt.insertWithMeta (c : CoreSt) (n : String) (s : Sym) (m : List (String × String)) : CoreSt :=
  { c with symtab := c.symtab.set n { sym := s, metas := m } }

/-- `Expr::evaluate(&symtab, …)` as an `Option`; a model crash is surfaced as an error. -/
def CoreSt.eval (c : CoreSt) (ns : List Node) : Res I32 := evaluate c.symtab ns

abbrev R (σ α : Type) := Except Err (α × σ)

/-- The token supply (`Assembler::peek` / `next`, i.e. the pump) and access to the core state. -/
structure TokOps (σ : Type) where
  peek : σ → R σ (Option LTok)
  next : σ → R σ (Option LTok)
  /-- `self.loc()` (location of the token source after the last `peek`) -/
  loc : σ → Loc
  getC : σ → CoreSt
  setC : σ → CoreSt → σ

/-- `name` of the active scope + local label → qualified name. -/
def qualify (ns : Option String) (k : LabelKind) (s : String) : Option String :=
  match k with
  | .global => some s
  | .direct => some s
  | .loc => ns.map fun g => g ++ s

def i32OfNat (n : Nat) : I32 := BitVec.ofNat 32 n

end Az65

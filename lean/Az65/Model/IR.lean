/-
Intermediate representation of the instruction decision trees (`impl ArchAssembler for
Z80 / Sm83 / Mos6502`).  `tools/azx` (a `syn`-based translator) regenerates one `S` block per
mnemonic arm from /repo's current source on every run (`Az65/Gen/Tree*.lean`); the interpreter
in `Model/Asm.lean` is the executable model of those trees.  The IR mirrors the Rust statement by
statement — same order of `peek`/`next`, same order of pushes and range tests.
-/
namespace Az65.IR

/-- Token patterns of `match asm.next()? { … }` / `match asm.peek()? { … }` arms. -/
inductive Pat where
  | eoi                        -- `None`
  | reg (r : String)           -- `Some(Token::Register { name: RegisterName::R, .. })`
  | flag (f : String)          -- `Some(Token::Flag { name: FlagName::F, .. })`
  | sym (s : String)           -- `Some(Token::Symbol { name: SymbolName::S, .. })`
  | num (v : Nat)              -- `Some(Token::Number { value: v, .. })`
  | anyReg                     -- `Some(Token::Register { name, .. })` (binds `name`)
  | anyFlag                    -- `Some(Token::Flag { name, .. })` (binds `name`)
  | any                        -- `Some(_)` / `Some(tok)`
  | alts (ps : List Pat)       -- `Some(A | B)`
  deriving Repr, Inhabited

/-- Integer-valued expressions over the local variables of an arm. -/
inductive V where
  | lit (n : Int)
  | var (x : String)
  | asU8 (e : V)               -- `e as u8`
  | asU16 (e : V)
  | asU32 (e : V)
  | dataLen                    -- `asm.data.len()`
  | add (a b : V)
  | bin (op : String) (a b : V)  -- `sub`, `shl`, `shr`, `band`, `bor` on integers (bit operations on non-negative operands only)
  | matchInt (e : V) (arms : List (Int × Int)) (dflt : Option Int)   -- `none` = `unreachable!()`
  deriving Repr, Inhabited

/-- Conditions. -/
inductive C where
  | lt (a b : V) | le (a b : V) | gt (a b : V) | ge (a b : V) | eq (a b : V) | ne (a b : V)
  | not (c : C) | and (a b : C) | or (a b : C)
  | inRange (lo hi : Int) (e : V)     -- `(lo..=hi).contains(&e)`
  | bvar (x : String)                 -- a boolean local (`indirect`, `need_paren`)
  deriving Repr, Inhabited

/-- Statements. -/
inductive S where
  | next                                             -- `asm.next()?;`
  | matchTok (peek : Bool) (arms : List (Pat × List S))
  | matchName (arms : List (String × List S)) (dflt : List S)  -- `match name { RegisterName::X => … }`
  | push (e : V)                                     -- `asm.data.push(e)`
  | pushWord (e : V)                                 -- `extend_from_slice(&(e as u16).to_le_bytes())`
  | setData (idx e : V)                              -- `asm.data[idx] = e`
  | expectSym (s : String)
  | expectReg (r : String)
  | call (f : String)                                -- one of the shared operand emitters
  | parseExpr                                        -- `let (loc, expr) = asm.expr()?;`
  | exprHereSub                                      -- `expr.push(Value(here+2)); expr.push(Sub);`
  | ifSolved (t e : List S)                          -- `if let Some(value) = expr.evaluate(..) {t} else {e}`
  | letIfSolved (x : String) (t : List S) (tv : V) (e : List S) (ev : V)
  | constExpr (t e : List S)                         -- `match asm.const_expr()? {(loc,Some(value)) => t, (loc,None) => e}`
  | ite (c : C) (t e : List S)
  | letV (x : String) (e : V)
  | letMatch (x : String) (e : V) (arms : List (Int × Int)) (dflt : List S)
  | letPeek (x : String) (p : Pat)                   -- `let x = matches!(asm.peek()?, p);`
  | itePeekSym (s : String) (t e : List S)           -- `if asm.peeked_symbol(S)?.is_some() {t} else {e}`
  | letPeekSym (x : String) (s : String) (t e : List S) (tv ev : Bool)
  | link (kind : String) (off : V)                   -- `asm.links.push(Link::kind(loc, off, expr))`
  | err (cls : String)                               -- `return asm_err!(…)`; class read off the message
  | eoiErr                                           -- `return asm.end_of_input_err()`
  | retOk                                            -- `return Ok(())`
  | unknown (text : String)                          -- something the translator could not read
  deriving Repr, Inhabited

abbrev Block := List S

/-- One mnemonic arm: the `OperationName` variant and its body. -/
structure Arm where
  op : String
  body : Block
  deriving Repr, Inhabited

end Az65.IR

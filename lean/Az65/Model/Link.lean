import Az65.Model.Stmt
/-
Model of `src/linker.rs` (`Module::link`): the first-reference check for undefined names, then
the deferred patches in registration order, each with its range test.
-/
namespace Az65

def patchAt (data : List Nat) (off : Nat) (bs : List Nat) : List Nat :=
  data.take off ++ bs ++ data.drop (off + bs.length)

/-- The undefined-symbol check over the first-reference table.  (The Rust iterates a hash map, so
*which* undefined name is reported first is unspecified; whether one is reported is not.) -/
def checkRefs (c : CoreSt) : List (String × Loc) → Except Err Unit
  | [] => .ok ()
  | (n, loc) :: r =>
    match c.symtab.get n with
    | none => .error ⟨.undefined, loc⟩
    | some e =>
      match e.sym with
      | .val _ => checkRefs c r
      | .expr body =>
        match evaluate c.symtab body with
        | .ok _ => checkRefs c r
        | .unsolved => .error ⟨.undefined, loc⟩
        | .crash s => .error ⟨.crash s, loc⟩

def applyLink (c : CoreSt) (data : List Nat) (l : Link) : Except Err (List Nat) :=
  match evaluate c.symtab l.expr with
  | .crash s => .error ⟨.crash s, l.loc⟩
  | .unsolved => .error ⟨.unsolved, l.loc⟩
  | .ok v =>
    match l.kind with
    | .byte =>
      if u32 v > 255 then .error ⟨.range, l.loc⟩
      else if l.offset < data.length then .ok (patchAt data l.offset [lowByte v])
      else .error ⟨.crash "link: index out of bounds", l.loc⟩
    | .signedByte =>
      if v.toInt < -128 ∨ v.toInt > 127 then .error ⟨.range, l.loc⟩
      else if l.offset < data.length then .ok (patchAt data l.offset [lowByte v])
      else .error ⟨.crash "link: index out of bounds", l.loc⟩
    | .word =>
      if u32 v > 65535 then .error ⟨.range, l.loc⟩
      else if l.offset + 1 < data.length then .ok (patchAt data l.offset [u32 v % 256, u32 v / 256 % 256])
      else .error ⟨.crash "link: index out of bounds", l.loc⟩
    | .space =>
      if u32 v > 255 then .error ⟨.range, l.loc⟩
      else if l.offset + l.len ≤ data.length then .ok (patchAt data l.offset (List.replicate l.len (lowByte v)))
      else .error ⟨.crash "link: index out of bounds", l.loc⟩
    | .assert =>
      if v = 0 then .error ⟨.assertFail, l.loc⟩ else .ok data

def applyLinks (c : CoreSt) : List Nat → List Link → Except Err (List Nat)
  | data, [] => .ok data
  | data, l :: r =>
    match applyLink c data l with
    | .error e => .error e
    | .ok d => applyLinks c d r

/-- `Module::link`: the final image, or the diagnostic. -/
def link (c : CoreSt) : Except Err (List Nat) :=
  match checkRefs c c.hits with
  | .error e => .error e
  | .ok _ => applyLinks c c.data c.links

end Az65

import Az65.Model.Plain
import Az65.Model.Link
import Az65.Spec.Opnd
/-
One instruction through the generated decision tree, over the plain token supply, followed by
the linker: the function about which the form-level theorems of C01–C03 are stated and which the
driver's `enc` mode runs.  Operand values are written as number tokens when known now, and as a
label defined only at link time otherwise.
-/
namespace Az65
open Spec

def tk (t : Tok) : LTok := ⟨t, {}⟩

/-- An operand value as tokens: a literal (negative values as `- n`) or the label `vK`. -/
def valueToks (known : Bool) (k : Nat) (v : Int) : List LTok :=
  if known then
    if v < 0 then [tk (.sym "Minus"), tk (.num (-v).toNat)] else [tk (.num v.toNat)]
  else [tk (.label .global ("v" ++ toString k))]

def regTok (a : Arch) (r : String) : LTok :=
  match lookupName (lexTables a).regs r with
  | some v => tk (.reg v)
  | none => tk (.label .global r)

def flagTok (a : Arch) (f : String) : LTok :=
  match lookupName (lexTables a).flags f with
  | some v => tk (.flag v)
  | none => tk (.label .global f)

def opTok (a : Arch) (m : String) : LTok :=
  match lookupName (lexTables a).ops m with
  | some v => tk (.op v)
  | none => tk (.label .global m)

/-- Source tokens of one Z80 / SM83 operand (value slot index `k`). -/
def opndToks (a : Arch) (known : Bool) (k : Nat) : Opnd → List LTok
  | .reg r => [regTok a r]
  | .flag f => [flagTok a f]
  | .ind r => [tk (.sym "ParenOpen"), regTok a r, tk (.sym "ParenClose")]
  | .idx r d => [tk (.sym "ParenOpen"), regTok a r, tk (.sym "Plus")] ++ valueToks known k d ++ [tk (.sym "ParenClose")]
  | .regPlus r d => [regTok a r, tk (.sym "Plus")] ++ valueToks known k d
  | .indInc r => [tk (.sym "ParenOpen"), regTok a r, tk (.sym "Plus"), tk (.sym "ParenClose")]
  | .indDec r => [tk (.sym "ParenOpen"), regTok a r, tk (.sym "Minus"), tk (.sym "ParenClose")]
  | .mem v => [tk (.sym "ParenOpen")] ++ valueToks known k v ++ [tk (.sym "ParenClose")]
  | .imm v => valueToks known k v

def opndValue : Opnd → Option Int
  | .idx _ d => some d | .regPlus _ d => some d | .mem v => some v | .imm v => some v | _ => none

def opndsToks (a : Arch) (known : Bool) : Nat → List Opnd → List LTok
  | _, [] => []
  | k, [o] => opndToks a known k o
  | k, o :: r => opndToks a known k o ++ [tk (.sym "Comma")] ++ opndsToks a known (k + 1) r

def opndsDefs : Nat → List Opnd → List (String × Int)
  | _, [] => []
  | k, o :: r => (match opndValue o with | some v => [("v" ++ toString k, v)] | none => []) ++ opndsDefs (k + 1) r

/-- Source tokens of a 6502 operand. -/
def modeToks (known : Bool) : Mode → List LTok
  | .implied => []
  | .acc => [regTok .mos6502 "a"]
  | .immediate v => [tk (.sym "Hash")] ++ valueToks known 0 v
  | .direct v => valueToks known 0 v
  | .directX v => valueToks known 0 v ++ [tk (.sym "Comma"), regTok .mos6502 "x"]
  | .directY v => valueToks known 0 v ++ [tk (.sym "Comma"), regTok .mos6502 "y"]
  | .indirect v => [tk (.sym "ParenOpen")] ++ valueToks known 0 v ++ [tk (.sym "ParenClose")]
  | .indirectX v => [tk (.sym "ParenOpen")] ++ valueToks known 0 v ++ [tk (.sym "Comma"), regTok .mos6502 "x", tk (.sym "ParenClose")]
  | .indirectY v => [tk (.sym "ParenOpen")] ++ valueToks known 0 v ++ [tk (.sym "ParenClose"), tk (.sym "Comma"), regTok .mos6502 "y"]

def modeDefs : Mode → List (String × Int)
  | .immediate v | .direct v | .directX v | .directY v | .indirect v | .indirectX v | .indirectY v => [("v0", v)]
  | _ => []

/-- Assemble one instruction line `toks` at address `pc` through the generated tree of `a`, then
link with the late definitions `defs`.  `none` = rejected (at assembly or at link time). -/
def asmOne (a : Arch) (pc : Nat) (toks : List LTok) (defs : List (String × Int)) : Option (List Nat) :=
  match toks with
  | ⟨.op name, _⟩ :: _ =>
    match findArmBody (armsOf a) name with
    | none => none
    | some body =>
      let st : PlainSt := { toks := toks ++ [tk .newline], core := { here := pc } }
      match execArm plainOps 400 body st with
      | .error _ => none
      | .ok (_, s) =>
        -- the whole line must have been consumed (up to the line break)
        match s.toks with
        | [⟨.newline, _⟩] =>
          let c := s.core
          if c.here + c.dataLen > TOP then none else
          let c := defs.foldl (fun c d => c.insert d.1 (.val (BitVec.ofInt 32 d.2))) c
          match link c with
          | .ok bytes => some bytes
          | .error _ => none
        | _ => none
  | _ => none

/-- Z80 / SM83 source line for a mnemonic and operands. -/
def asmOpnds (a : Arch) (pc : Nat) (m : String) (ops : List Opnd) (known : Bool) : Option (List Nat) :=
  asmOne a pc (opTok a m :: opndsToks a known 0 ops) (if known then [] else opndsDefs 0 ops)

/-- 6502 source line for a mnemonic and an operand spelling. -/
def asmMode (pc : Nat) (m : String) (md : Mode) (known : Bool) : Option (List Nat) :=
  asmOne .mos6502 pc (opTok .mos6502 m :: modeToks known md) (if known then [] else modeDefs md)

end Az65

import Az65.Spec.Utf8
/-
Model of `src/charreader.rs` (`CharReader::next`): a window of at most four bytes over a reader
that may return any number of bytes ≥ 1 per call, or fail.  `str::from_utf8` on the window is
specified by `Spec.Utf8.decodeFirst` (std is trusted to implement it; validated by the
correspondence).
-/
namespace Az65.Model.CR
open Az65.Spec.Utf8

/-- The underlying reader: unread bytes, a script of chunk sizes for the coming `read` calls
(an exhausted script means "as much as fits"), and optionally the number of bytes after which
reads fail. -/
structure Src where
  unread : List Nat
  script : List Nat
  failAfter : Option Nat := none     -- bytes still deliverable before the fault
  deriving Repr

inductive ReadRes where
  | bytes (bs : List Nat) (s : Src)    -- `Ok(n)`, n = bs.length (0 = end of input)
  | fail

/-- How many bytes the coming `read` is willing to return for a buffer with `space` free bytes. -/
def Src.want (s : Src) (space : Nat) : Nat :=
  match s.script with
  | [] => space
  | c :: _ => min space (max c 1)

/-- `inner.read(&mut buf[k..])` with `space = 4 - k > 0`. -/
def Src.read (s : Src) (space : Nat) : ReadRes :=
  let want := s.want space
  let script' := s.script.tail
  match s.failAfter with
  | some 0 => .fail
  | some (k + 1) =>
    let n := min want (k + 1)
    .bytes (s.unread.take n) { unread := s.unread.drop n, script := script', failAfter := some (k + 1 - min n s.unread.length) }
  | none => .bytes (s.unread.take want) { unread := s.unread.drop want, script := script', failAfter := none }

structure St where
  win : List Nat
  src : Src

/-- Does the window already decide its first character (complete or invalid)? -/
def decided (w : List Nat) : Bool :=
  match decodeFirst w with
  | .ok _ _ => true
  | .invalid => true
  | _ => false

inductive Fill where
  | ok (st : St)
  | fail

/-- Top the window up until it starts with a complete (or invalid) sequence, is full, or the
input ends.  At most four reads are ever needed. -/
def fill : Nat → St → Fill
  | 0, st => .ok st
  | f + 1, st =>
    if decided st.win || st.win.length ≥ 4 then .ok st else
    match st.src.read (4 - st.win.length) with
    | .fail => .fail
    | .bytes [] s => .ok { st with src := s }
    | .bytes bs s => fill f { win := st.win ++ bs, src := s }

inductive Next where
  | char (cp : Nat) (st : St)
  | eof
  | utf8
  | io

/-- `CharReader::next`. -/
def next (st : St) : Next :=
  match fill 4 st with
  | .fail => .io
  | .ok st' =>
    match decodeFirst st'.win with
    | .empty => .eof
    | .ok cp len => .char cp { st' with win := st'.win.drop len }
    | .incomplete => .utf8
    | .invalid => .utf8

/-- Drain the reader: the characters produced and how the stream ended. -/
def run : Nat → St → List Nat × End
  | 0, _ => ([], .utf8)
  | f + 1, st =>
    match next st with
    | .char cp st' => let (cs, e) := run f st'; (cp :: cs, e)
    | .eof => ([], .eof)
    | .utf8 => ([], .utf8)
    | .io => ([], .io)

def init (bytes : List Nat) (script : List Nat) (failAfter : Option Nat) : St :=
  { win := [], src := { unread := bytes, script := script, failAfter := failAfter } }

end Az65.Model.CR

import Az65.Model.Asm
/-
Model of `Assembler::parse_all` (the statement loop with every directive), `Assembler::assemble`
and `trace_error`.
-/
namespace Az65

def armsOf : Arch → List IR.Arm
  | .z80 => Gen.Z80.arms
  | .sm83 => Gen.Sm83.arms
  | .mos6502 => Gen.Mos6502.arms

def findArmBody (arms : List IR.Arm) (op : String) : Option IR.Block :=
  match arms with
  | [] => none
  | a :: r => if a.op = op then some a.body else findArmBody r op

def TOP : Nat := 65536

def modCore (g : CoreSt → CoreSt) : AM Unit := modify fun s => { s with core := g s.core }
def getCore : AM CoreSt := do pure (← get).core

/-- expression through the pump at fuel `f` -/
def exprAt (f : Nat) : AM (Loc × List Node) := fun s => parseExpr (opsF f) f s

def evalAt' (nodes : List Node) (loc : Loc) : AM (Option I32) := do
  liftExcept (evalOpt (← getCore) nodes loc)

def peekedSym (f : Nat) (name : String) : AM Bool := fun s => peekedSymbol (opsF f) name s

def expectSym (f : Nat) (name : String) : AM Unit := fun s => expectSymbol (opsF f) name s

/-- the label operand of `@defl @defn @redefl @redefn @undef` -/
def labelOperand (t : Option LTok) : AM (String × Loc) := do
  match t with
  | none => eoiErr
  | some ⟨.label kind value, loc⟩ => pure (← qualifyOrFail kind value loc, loc)
  | some t => fail .unexpected t.loc

def commaLoop (f : Nat) : AM Bool := do
  if ← peekedSym f "Comma" then
    let _ ← nextF f
    pure true
  else pure false

/-- one `@db` item -/
def dbItem (f : Nat) : AM Unit := do
  match ← peekF f with
  | some ⟨.str s, loc⟩ =>
    let _ ← nextF f
    let bytes := utf8OfChars s.toList
    let c ← getCore
    if c.here + bytes.length > TOP then fail .addrOverflow loc
    modCore fun c => { c.pushAll bytes with here := c.here + bytes.length }
  | _ =>
    let (loc, nodes) ← exprAt f
    match ← evalAt' nodes loc with
    | some v =>
      if u32 v > 255 then fail .range loc
      let c ← getCore
      if c.here + 1 > TOP then fail .addrOverflow loc
      modCore fun c => { c.push (lowByte v) with here := c.here + 1 }
    | none =>
      let c ← getCore
      if c.here + 1 > TOP then fail .addrOverflow loc
      modCore fun c => { (c.addLink ⟨.byte, loc, c.dataLen, 1, nodes, none⟩).push 0 with here := c.here + 1 }

def dbLoop : Nat → AM Unit
  | 0 => do fail .fuel ((← get).loc.getD {})
  | f + 1 => do
    dbItem f
    if ← commaLoop f then dbLoop f

def dwItem (f : Nat) : AM Unit := do
  let _ ← peekF f
  let (loc, nodes) ← exprAt f
  match ← evalAt' nodes loc with
  | some v =>
    if u32 v > 65535 then fail .range loc
    let c ← getCore
    if c.here + 2 > TOP then fail .addrOverflow loc
    modCore fun c => { (c.push (u32 v % 256)).push (u32 v / 256 % 256) with here := c.here + 2 }
  | none =>
    let c ← getCore
    if c.here + 2 > TOP then fail .addrOverflow loc
    modCore fun c => { ((c.addLink ⟨.word, loc, c.dataLen, 2, nodes, none⟩).push 0).push 0 with here := c.here + 2 }

def dwLoop : Nat → AM Unit
  | 0 => do fail .fuel ((← get).loc.getD {})
  | f + 1 => do
    dwItem f
    if ← commaLoop f then dwLoop f

/-- `@macro` body recording: depth counter over nested `@macro … @endmacro`. -/
def recordMacro : Nat → List String → Nat → List MTok → AM (List MTok)
  | 0, _, _, _ => do fail .fuel ((← get).loc.getD {})
  | f + 1, args, depth, acc => do
    match ← nextF f with
    | none => eoiErr
    | some ⟨.comment, _⟩ => recordMacro f args depth acc
    | some ⟨.newline, _⟩ => recordMacro f args depth acc
    | some t@⟨.dir "Macro", _⟩ => recordMacro f args (depth + 1) (acc ++ [.tok t])
    | some t@⟨.dir "EndMacro", _⟩ =>
      if depth = 0 then pure acc else recordMacro f args (depth - 1) (acc ++ [.tok t])
    | some ⟨.dir "Entropy", loc⟩ => recordMacro f args depth (acc ++ [.entropy loc])
    | some t@⟨.label .global v, _⟩ =>
      match args.idxOf? v with
      | some i => recordMacro f args depth (acc ++ [.arg i])
      | none => recordMacro f args depth (acc ++ [.tok t])
    | some t => recordMacro f args depth (acc ++ [.tok t])

def macroParams : Nat → Nat → List String → AM (List String)
  | 0, _, _ => do fail .fuel ((← get).loc.getD {})
  | _ + 1, 0, acc => pure acc
  | f + 1, k + 1, acc => do
    expectSym f "Comma"
    match ← nextF f with
    | none => eoiErr
    | some ⟨.label kind v, loc⟩ =>
      if kind ≠ .global then fail .unexpected loc
      macroParams f k (acc ++ [v])
    | some t => fail .unexpected t.loc

def skipIf : Nat → Nat → AM Unit
  | 0, _ => do fail .fuel ((← get).loc.getD {})
  | f + 1, level => do
    match ← nextF f with
    | none => eoiErr
    | some ⟨.dir "If", _⟩ => skipIf f (level + 1)
    | some ⟨.dir "EndIf", _⟩ => if level = 1 then pure () else skipIf f (level - 1)
    | some _ => skipIf f level

def metaPairs : Nat → List (String × String) → AM (List (String × String))
  | 0, _ => do fail .fuel ((← get).loc.getD {})
  | f + 1, acc => do
    match ← nextF f with
    | none => eoiErr
    | some ⟨.str key, _⟩ =>
      match ← nextF f with
      | none => eoiErr
      | some ⟨.str value, _⟩ =>
        let acc := acc ++ [(key, value)]
        if ← peekedSym f "Comma" then
          let _ ← nextF f
          metaPairs f acc
        else pure acc
      | some t => fail .unexpected t.loc
    | some t => fail .unexpected t.loc

/-- Padding of the struct `@align`: `(alignment - size.rem_euclid(alignment)) % alignment`
(alignment ≥ 2, so everything stays inside `i32`). -/
def structPadding (size al : I32) (_loc : Loc) : AM I32 := do
  let r := size.toInt % al.toInt
  pure (BitVec.ofInt 32 ((al.toInt - r) % al.toInt))

def structLoop : Nat → String → Loc → I32 → AM I32
  | 0, _, _, _ => do fail .fuel ((← get).loc.getD {})
  | f + 1, sname, sloc, size => do
    match ← nextF f with
    | none => eoiErr
    | some ⟨.newline, _⟩ => structLoop f sname sloc size
    | some ⟨.comment, _⟩ => structLoop f sname sloc size
    | some ⟨.dir "Ds", _⟩ =>
      match ← peekF f with
      | none => eoiErr
      | some _ =>
        let (loc, v) ← constExprF f
        match v with
        | none => fail .needsNow loc
        | some pad => structLoop f sname sloc (size + pad)
    | some ⟨.dir "Align", _⟩ =>
      match ← peekF f with
      | none => eoiErr
      | some _ =>
        let (loc, v) ← constExprF f
        match v with
        | none => fail .needsNow loc
        | some al =>
          if al.toInt < 2 then fail .range sloc
          let pad ← structPadding size al loc
          structLoop f sname sloc (size + pad)
    | some ⟨.dir "EndStruct", _⟩ => pure size
    | some ⟨.label .global field, loc⟩ =>
      let direct := sname ++ "." ++ field
      if ((← getCore).symtab.get direct).isSome then fail .alreadyDefined loc
      if ← peekedSym f "Colon" then let _ ← nextF f
      match ← peekF f with
      | none => eoiErr
      | some ⟨.dir "Db", _⟩ =>
        let _ ← nextF f
        modCore fun c => c.insertWithMeta direct (.val size) [("@SIZEOF", "1")]
        structLoop f sname sloc (size + 1)
      | some ⟨.dir "Dw", _⟩ =>
        let _ ← nextF f
        modCore fun c => c.insertWithMeta direct (.val size) [("@SIZEOF", "2")]
        structLoop f sname sloc (size + 2)
      | some _ =>
        let (eloc, v) ← constExprF f
        match v with
        | none => fail .needsNow eloc
        | some fs =>
          modCore fun c => c.insertWithMeta direct (.val size) [("@SIZEOF", toString fs.toInt)]
          structLoop f sname sloc (size + fs)
    | some t => fail .unexpected t.loc

/-- Open an included file: a lexer over its characters, directory of the file as `cwd`. -/
def openFile (path : String) (incFrom : Option Loc) : AM Source := do
  let s ← get
  match s.fs.find path with
  | none => fail (.crash "open_read of a file that search found") (incFrom.getD {})
  | some fe =>
    let id ← internPath path
    let (cs, e) := fileChars fe
    pure (.lex (Lexer.new id cs e) incFrom)

def incbinBytes (fe : FileEntry) : List Nat × Bool :=
  match fe.failAt with
  | none => (fe.data, false)
  | some k => if k ≤ fe.data.length then (fe.data.take k, true) else (fe.data, false)

def pushBytesChecked (loc : Loc) : List Nat → AM Unit
  | [] => pure ()
  | b :: r => do
    let c ← getCore
    if c.here + 1 > TOP then fail .addrOverflow loc
    modCore fun c => { c.push b with here := c.here + 1 }
    pushBytesChecked loc r

def directive (f : Nat) (name : String) (loc : Loc) (tok : LTok) : AM Unit := do
  match name with
  | "Org" =>
    let _ ← nextF f
    let (eloc, v) ← constExprF f
    match v with
    | some v => if u32 v > 65535 then fail .range eloc else modCore fun c => { c with here := u32 v }
    | none => fail .needsNow eloc
  | "Echo" =>
    let _ ← nextF f
    match ← peekF f with
    | some ⟨.str s, _⟩ => let _ ← nextF f; modify fun st => { st with echo := st.echo ++ [s] }
    | some _ =>
      let (eloc, v) ← constExprF f
      match v with
      | some v => modify fun st => { st with echo := st.echo ++ [toString v.toInt] }
      | none => fail .needsNow eloc
    | none => eoiErr
  | "Die" =>
    let _ ← nextF f
    match ← peekF f with
    | none => eoiErr
    | some ⟨.str _, _⟩ => let _ ← nextF f; fail .die loc
    | some _ =>
      let (eloc, v) ← constExprF f
      match v with
      | some _ => fail .die loc
      | none => fail .needsNow eloc
  | "Assert" =>
    let _ ← nextF f
    let (eloc, nodes) ← exprAt f
    let msg ← if ← peekedSym f "Comma" then do
        let _ ← nextF f
        match ← nextF f with
        | none => eoiErr
        | some ⟨.str s, _⟩ => pure (some s)
        | some t => fail .unexpected t.loc
      else pure none
    match ← evalAt' nodes eloc with
    | some v => if v = 0 then fail .assertFail eloc
    | none => modCore fun c => c.addLink ⟨.assert, eloc, 0, 0, nodes, msg⟩
  | "Defl" | "Defn" =>
    let _ ← nextF f
    let (direct, lloc) ← labelOperand (← peekF f)
    let _ ← nextF f
    if ((← getCore).symtab.get direct).isSome then fail .alreadyDefined lloc
    expectSym f "Comma"
    let (_, nodes) ← exprAt f
    if name = "Defl" then modCore fun c => c.insert direct (.expr nodes)
    else modCore fun c => c.insertWithMeta direct (.expr nodes) []
  | "ReDefl" | "ReDefn" =>
    let _ ← nextF f
    let (direct, _) ← labelOperand (← nextF f)
    expectSym f "Comma"
    let (_, nodes) ← exprAt f
    if name = "ReDefl" then modCore fun c => c.insert direct (.expr nodes)
    else modCore fun c => c.insertWithMeta direct (.expr nodes) []
  | "UnDef" =>
    let _ ← nextF f
    let (direct, _) ← labelOperand (← nextF f)
    modCore fun c => { c with symtab := c.symtab.remove direct }
  | "Db" =>
    let _ ← nextF f
    match (← get).seg with
    | .addr =>
      if (← getCore).here + 1 > TOP then fail .addrOverflow loc
      modCore fun c => { c with here := c.here + 1 }
    | .code => dbLoop f
  | "Dw" =>
    let _ ← nextF f
    match (← get).seg with
    | .addr =>
      if (← getCore).here + 2 > TOP then fail .addrOverflow loc
      modCore fun c => { c with here := c.here + 2 }
    | .code => dwLoop f
  | "Ds" =>
    let _ ← nextF f
    let (eloc, v) ← constExprF f
    match v with
    | none => fail .needsNow eloc
    | some sz =>
      if u32 sz > 65535 then fail .range eloc
      let size := u32 sz
      if (← getCore).here + size > TOP then fail .addrOverflow eloc
      modCore fun c => { c with here := c.here + size }
      match (← get).seg with
      | .addr => pure ()
      | .code =>
        let fill ← if ← peekedSym f "Comma" then do
            let _ ← nextF f
            let (vloc, nodes) ← exprAt f
            match ← evalAt' nodes vloc with
            | some v => if u32 v > 255 then fail .range vloc else pure (lowByte v)
            | none =>
              modCore fun c => c.addLink ⟨.space, vloc, c.dataLen, size, nodes, none⟩
              pure 0
          else pure 0
        modCore fun c => c.pushAll (List.replicate size fill)
  | "Include" =>
    let _ ← nextF f
    match ← nextF f with
    | none => eoiErr
    | some ⟨.str path, sloc⟩ =>
      let s ← get
      match s.cwd with
      | none => fail (.crash "cwd.unwrap()") sloc
      | some cwd =>
        match searchFile s.fs s.searchPaths cwd path with
        | none => fail .notFound sloc
        | some found =>
          let src ← openFile found (some sloc)
          let s ← get
          match s.source with
          | none => fail (.crash "token_source.take().unwrap()") sloc
          | some cur =>
            set { s with sources := cur :: s.sources, cwds := cwd :: s.cwds,
                         source := some src, cwd := some (parentDir found) }
    | some t => fail .unexpected t.loc
  | "Segment" =>
    let _ ← nextF f
    match ← nextF f with
    | none => eoiErr
    | some ⟨.str v, sloc⟩ =>
      if v = "CODE" ∨ v = "code" then modify fun s => { s with seg := .code }
      else if v = "ADDR" ∨ v = "addr" then modify fun s => { s with seg := .addr }
      else fail .unexpected sloc
    | some t => fail .unexpected t.loc
  | "Incbin" =>
    if (← get).seg = .addr then fail .unexpected (← curLoc)
    let _ ← nextF f
    match ← nextF f with
    | none => eoiErr
    | some ⟨.str path, sloc⟩ =>
      let s ← get
      match s.cwd with
      | none => fail (.crash "cwd.unwrap()") sloc
      | some cwd =>
        match searchFile s.fs s.searchPaths cwd path with
        | none => fail .notFound sloc
        | some found =>
          let _ ← internPath found
          match s.fs.find found with
          | none => fail (.crash "open_read") sloc
          | some fe =>
            let (bytes, faulted) := incbinBytes fe
            pushBytesChecked sloc bytes
            if faulted then fail .fileRead sloc
    | some t => fail .unexpected t.loc
  | "Macro" =>
    let _ ← nextF f
    let (mname, mloc) ← match ← nextF f with
      | none => eoiErr
      | some ⟨.label .global v, l⟩ => pure (v, l)
      | some t => fail .unexpected t.loc
    if (lookupMacro (← get).macros mname).isSome then fail .alreadyDefined mloc
    expectSym f "Comma"
    let n ← match ← nextF f with
      | none => eoiErr
      | some ⟨.num v, _⟩ => pure v
      | some t => fail .unexpected t.loc
    let params ← macroParams f n []
    modify fun s => { s with activeMacro := some mname }
    let body ← recordMacro f params 0 []
    modify fun s => { s with activeMacro := none, macros := setMacro s.macros mname { args := params, toks := body } }
  | "Struct" =>
    let _ ← nextF f
    let (sname, sloc) ← match ← nextF f with
      | none => eoiErr
      | some ⟨.label .global v, l⟩ => pure (v, l)
      | some t => fail .unexpected t.loc
    let oldNs := (← getCore).ns
    if ((← getCore).symtab.get sname).isSome then fail .alreadyDefined sloc
    modCore fun c => { c with ns := some sname }
    let size ← structLoop f sname sloc 0
    modCore fun c => ({ c with ns := oldNs }).insertWithMeta sname (.val size) []
  | "Align" =>
    let _ ← nextF f
    match ← peekF f with
    | none => eoiErr
    | some _ =>
      let (eloc, v) ← constExprF f
      match v with
      | none => fail .needsNow eloc
      | some al =>
        if al.toInt < 2 then fail .range eloc
        let a := u32 al
        let here := (← getCore).here
        let padding := (a - here % a) % a
        if padding > 65535 then fail .range eloc
        if here + padding > TOP then fail .addrOverflow eloc
        match (← get).seg with
        | .code => modCore fun c => { c.pushAll (List.replicate padding 0) with here := c.here + padding }
        | .addr => modCore fun c => { c with here := c.here + padding }
  | "Meta" =>
    let _ ← nextF f
    let pairs ← metaPairs f []
    modCore fun c => { c with curMeta := pairs }
  | "EndMeta" =>
    let _ ← nextF f
    modCore fun c => { c with curMeta := [] }
  | "If" =>
    let _ ← nextF f
    let (eloc, v) ← constExprF f
    match v with
    | none => fail .needsNow eloc
    | some r =>
      if r ≠ 0 then modify fun s => { s with ifLevel := s.ifLevel + 1 }
      else skipIf f 1
  | "EndIf" =>
    let _ ← nextF f
    if (← get).ifLevel = 0 then fail .unexpected tok.loc
    modify fun s => { s with ifLevel := s.ifLevel - 1 }
  | _ => fail .unexpected tok.loc

/-- `parse_all`. -/
def parseAllF : Nat → AM Unit
  | 0 => do fail .fuel ((← get).loc.getD {})
  | f + 1 => do
    match ← peekF f with
    | none => pure ()
    | some ⟨.newline, _⟩ => let _ ← nextF f; parseAllF f
    | some ⟨.comment, _⟩ => let _ ← nextF f; parseAllF f
    | some ⟨.label kind value, loc⟩ =>
      if kind = .global then modCore fun c => { c with ns := some value }
      let direct ← qualifyOrFail kind value loc
      if ((← getCore).symtab.get direct).isSome then fail .alreadyDefined loc
      modCore fun c => c.insert direct (.val (i32OfNat c.here))
      let _ ← nextF f
      if ← peekedSym f "Colon" then let _ ← nextF f
      parseAllF f
    | some tok@⟨.dir name, loc⟩ =>
      directive f name loc tok
      parseAllF f
    | some ⟨.op name, _⟩ =>
      if (← get).seg = .addr then fail .unexpected (← curLoc)
      let s ← get
      match findArmBody (armsOf s.arch) name with
      | none => fail (.crash ("no decision tree for operation " ++ name)) (← curLoc)
      | some body =>
        let oldLen := s.core.dataLen
        (fun st => execArm (opsF f) f body st)
        -- `self.here += (self.data.len() - old_len) as u32` and the top-of-memory test
        let c ← getCore
        let here := c.here + (c.dataLen - oldLen)
        if here > TOP then fail .addrOverflow (← curLoc)
        modCore fun c => { c with here := here }
      parseAllF f
    | some t => fail .unexpected t.loc

/-- The chain printed by `trace_error`: the including locations, innermost first. -/
def includeChain (s : Asm) : List Loc :=
  match s.source with
  | none => []
  | some src =>
    let rec go (inc : Option Loc) : List Source → List Loc
      | [] => []
      | nxt :: rest => (inc.getD {}) :: go nxt.includedFrom rest
    go src.includedFrom s.sources

structure AsmFail where
  err : Err
  chain : List Loc
  /-- path of the file the error location refers to -/
  file : String
  deriving Repr, Inhabited

/-- `Assembler::assemble`: open the root file, run the statement loop. -/
def assemble (arch : Arch) (fs : FileSys) (searchPaths : List String) (cwd root : String)
    (fuel : Nat) : Except AsmFail Asm :=
  let s0 : Asm := { arch := arch, fs := fs, searchPaths := searchPaths.map (absolutize cwd) }
  match searchFile fs s0.searchPaths (absolutize cwd ".") root with
  | none => .error ⟨⟨.notFound, {}⟩, [], root⟩
  | some found =>
    match (do
        let src ← openFile found none
        -- the root file's own directory is the first place its includes are looked up
        modify fun s => { s with source := some src, cwd := some (parentDir found) }
        parseAllF fuel : AM Unit) s0 with
    | .ok (_, s) => .ok s
    | .error e => .error ⟨e, [], ""⟩

end Az65

import Az65.Model.Asm
import Az65.Model.Effects
/-
Model of `Assembler::parse_all` (the statement loop with every directive), `Assembler::assemble`
and `trace_error`.
-/
namespace Az65

def armsOf : Arch → List IR.Arm
  | .z80 => Gen.Z80.arms
  | .sm83 => Gen.Sm83.arms
  | .mos6502 => Gen.Mos6502.arms

def findArmBody (arms : List IR.Arm) (op : String) : Option IR.Block :=
  match arms with
  | [] => none
  | a :: r => if a.op = op then some a.body else findArmBody r op

/-- run a pure core effect -/
def eff (g : CoreSt → Except Err CoreSt) : AM Unit := do
  let s ← get
  match g s.core with
  | .ok c => set { s with core := c }
  | .error e => throw e

def modCore (g : CoreSt → CoreSt) : AM Unit := modify fun s => { s with core := g s.core }
def getCore : AM CoreSt := do pure (← get).core

/-- expression through the pump at fuel `f` -/
def exprAt (f : Nat) : AM (Loc × List Node) := fun s => parseExpr (opsF f) f s

def evalAt' (nodes : List Node) (loc : Loc) : AM (Option I32) := do
  liftExcept (evalOpt (← getCore) nodes loc)

def peekedSym (f : Nat) (name : String) : AM Bool := fun s => peekedSymbol (opsF f) name s

def expectSym (f : Nat) (name : String) : AM Unit := fun s => expectSymbol (opsF f) name s

/-- the label operand of `@defl @defn @redefl @redefn @undef` -/
def labelOperand (t : Option LTok) : AM (String × Loc) := do
  match t with
  | none => eoiErr
  | some ⟨.label kind value, loc⟩ => pure (← qualifyOrFail kind value loc, loc)
  | some t => fail .unexpected t.loc

def commaLoop (f : Nat) : AM Bool := do
  if ← peekedSym f "Comma" then
    let _ ← nextF f
    pure true
  else pure false

/-- one `@db` item -/
def dbItem (f : Nat) : AM Unit := do
  match ← peekF f with
  | some ⟨.str str, loc⟩ =>
    let _ ← nextF f
    eff fun c => Eff.dbStr c (utf8OfChars str.toList) loc
  | _ =>
    let (loc, nodes) ← exprAt f
    let v ← evalAt' nodes loc
    eff fun c => Eff.dbVal c v nodes loc

def dbLoop : Nat → AM Unit
  | 0 => do fail .fuel ((← get).loc.getD {})
  | f + 1 => do
    dbItem f
    if ← commaLoop f then dbLoop f

def dwItem (f : Nat) : AM Unit := do
  let _ ← peekF f
  let (loc, nodes) ← exprAt f
  let v ← evalAt' nodes loc
  eff fun c => Eff.dwVal c v nodes loc

def dwLoop : Nat → AM Unit
  | 0 => do fail .fuel ((← get).loc.getD {})
  | f + 1 => do
    dwItem f
    if ← commaLoop f then dwLoop f

/-- `@macro` body recording: depth counter over nested `@macro … @endmacro`. -/
def recordMacro : Nat → List String → Nat → List MTok → AM (List MTok)
  | 0, _, _, _ => do fail .fuel ((← get).loc.getD {})
  | f + 1, args, depth, acc => do
    match ← nextF f with
    | none => eoiErr
    | some ⟨.comment, _⟩ => recordMacro f args depth acc
    | some ⟨.newline, _⟩ => recordMacro f args depth acc
    | some t@⟨.dir "Macro", _⟩ => recordMacro f args (depth + 1) (acc ++ [.tok t])
    | some t@⟨.dir "EndMacro", _⟩ =>
      if depth = 0 then pure acc else recordMacro f args (depth - 1) (acc ++ [.tok t])
    | some t => recordMacro f args depth (acc ++ [slotOf args t])

def macroParams : Nat → Nat → List String → AM (List String)
  | 0, _, _ => do fail .fuel ((← get).loc.getD {})
  | _ + 1, 0, acc => pure acc
  | f + 1, k + 1, acc => do
    expectSym f "Comma"
    match ← nextF f with
    | none => eoiErr
    | some ⟨.label kind v, loc⟩ =>
      if kind ≠ .global then fail .unexpected loc
      macroParams f k (acc ++ [v])
    | some t => fail .unexpected t.loc

def skipIf (f : Nat) (level : Nat) : AM Unit := fun s => skipIfG (opsF f) f level s

def metaPairs : Nat → List (String × String) → AM (List (String × String))
  | 0, _ => do fail .fuel ((← get).loc.getD {})
  | f + 1, acc => do
    match ← nextF f with
    | none => eoiErr
    | some ⟨.str key, _⟩ =>
      match ← nextF f with
      | none => eoiErr
      | some ⟨.str value, _⟩ =>
        let acc := acc ++ [(key, value)]
        if ← peekedSym f "Comma" then
          let _ ← nextF f
          metaPairs f acc
        else pure acc
      | some t => fail .unexpected t.loc
    | some t => fail .unexpected t.loc

def structLoop : Nat → String → Loc → I32 → AM I32
  | 0, _, _, _ => do fail .fuel ((← get).loc.getD {})
  | f + 1, sname, sloc, size => do
    match ← nextF f with
    | none => eoiErr
    | some ⟨.newline, _⟩ => structLoop f sname sloc size
    | some ⟨.comment, _⟩ => structLoop f sname sloc size
    | some ⟨.dir "Ds", _⟩ =>
      match ← peekF f with
      | none => eoiErr
      | some _ =>
        let (loc, v) ← constExprF f
        match v with
        | none => fail .needsNow loc
        | some pad => structLoop f sname sloc (size + pad)
    | some ⟨.dir "Align", _⟩ =>
      match ← peekF f with
      | none => eoiErr
      | some _ =>
        let (loc, v) ← constExprF f
        match v with
        | none => fail .needsNow loc
        | some al =>
          if al.toInt < 2 then fail .range sloc
          structLoop f sname sloc (size + Eff.structPadding size al)
    | some ⟨.dir "EndStruct", _⟩ => pure size
    | some ⟨.label .global field, loc⟩ =>
      let direct := sname ++ "." ++ field
      if ((← getCore).symtab.get direct).isSome then fail .alreadyDefined loc
      if ← peekedSym f "Colon" then let _ ← nextF f
      let field (fs : I32) (text : String) : AM I32 := do
        let s ← get
        match Eff.structField s.core direct size fs text loc with
        | .ok (c, size') => set { s with core := c }; pure size'
        | .error e => throw e
      match ← peekF f with
      | none => eoiErr
      | some ⟨.dir "Db", _⟩ =>
        let _ ← nextF f
        structLoop f sname sloc (← field 1 "1")
      | some ⟨.dir "Dw", _⟩ =>
        let _ ← nextF f
        structLoop f sname sloc (← field 2 "2")
      | some _ =>
        let (eloc, v) ← constExprF f
        match v with
        | none => fail .needsNow eloc
        | some fs => structLoop f sname sloc (← field fs (toString fs.toInt))
    | some t => fail .unexpected t.loc

/-- Open an included file: a lexer over its characters, directory of the file as `cwd`. -/
def openFile (path : String) (incFrom : Option Loc) : AM Source := do
  let s ← get
  match s.fs.find path with
  | none => fail (.crash "open_read of a file that search found") (incFrom.getD {})
  | some fe =>
    let id ← internPath path
    let (cs, e) := fileChars fe
    pure (.lex (Lexer.new id cs e) incFrom)

def incbinBytes (fe : FileEntry) : List Nat × Bool :=
  match fe.failAt with
  | none => (fe.data, false)
  | some k => if k ≤ fe.data.length then (fe.data.take k, true) else (fe.data, false)

def directive (f : Nat) (name : String) (loc : Loc) (tok : LTok) : AM Unit := do
  match name with
  | "Org" =>
    let _ ← nextF f
    let (eloc, v) ← constExprF f
    eff fun c => Eff.org c v eloc
  | "Echo" =>
    let _ ← nextF f
    match ← peekF f with
    | some ⟨.str s, _⟩ => let _ ← nextF f; modify fun st => { st with echo := st.echo ++ [s] }
    | some _ =>
      let (eloc, v) ← constExprF f
      match v with
      | some v => modify fun st => { st with echo := st.echo ++ [toString v.toInt] }
      | none => fail .needsNow eloc
    | none => eoiErr
  | "Die" =>
    let _ ← nextF f
    match ← peekF f with
    | none => eoiErr
    | some ⟨.str _, _⟩ => let _ ← nextF f; fail .die loc
    | some _ =>
      let (eloc, v) ← constExprF f
      match v with
      | some _ => fail .die loc
      | none => fail .needsNow eloc
  | "Assert" =>
    let _ ← nextF f
    let (eloc, nodes) ← exprAt f
    let msg ← if ← peekedSym f "Comma" then do
        let _ ← nextF f
        match ← nextF f with
        | none => eoiErr
        | some ⟨.str s, _⟩ => pure (some s)
        | some t => fail .unexpected t.loc
      else pure none
    let v ← evalAt' nodes eloc
    eff fun c => Eff.assert c v nodes msg eloc
  | "Defl" | "Defn" =>
    let _ ← nextF f
    let (direct, lloc) ← labelOperand (← peekF f)
    let _ ← nextF f
    if ((← getCore).symtab.get direct).isSome then fail .alreadyDefined lloc
    expectSym f "Comma"
    let (_, nodes) ← exprAt f
    eff fun c => Eff.define c (name = "Defl") direct nodes lloc
  | "ReDefl" | "ReDefn" =>
    let _ ← nextF f
    let (direct, _) ← labelOperand (← nextF f)
    expectSym f "Comma"
    let (_, nodes) ← exprAt f
    modCore fun c => Eff.redefine c (name = "ReDefl") direct nodes
  | "UnDef" =>
    let _ ← nextF f
    let (direct, _) ← labelOperand (← nextF f)
    modCore fun c => Eff.undef c direct
  | "Db" =>
    let _ ← nextF f
    match (← get).seg with
    | .addr => eff fun c => Eff.skip c 1 loc
    | .code => dbLoop f
  | "Dw" =>
    let _ ← nextF f
    match (← get).seg with
    | .addr => eff fun c => Eff.skip c 2 loc
    | .code => dwLoop f
  | "Ds" =>
    let _ ← nextF f
    let (eloc, v) ← constExprF f
    let st ← get
    let size ← match Eff.dsSize st.core v eloc with
      | .ok (c, size) => set { st with core := c }; pure size
      | .error e => throw e
    match (← get).seg with
    | .addr => pure ()
    | .code =>
      if ← peekedSym f "Comma" then
        let _ ← nextF f
        let (vloc, nodes) ← exprAt f
        let fv ← evalAt' nodes vloc
        eff fun c => Eff.dsFill c size (some fv) nodes vloc
      else eff fun c => Eff.dsFill c size none [] eloc
  | "Include" =>
    let _ ← nextF f
    match ← nextF f with
    | none => eoiErr
    | some ⟨.str path, sloc⟩ =>
      let s ← get
      match s.cwd with
      | none => fail (.crash "cwd.unwrap()") sloc
      | some cwd =>
        match searchFile s.fs s.searchPaths cwd path with
        | none => fail .notFound sloc
        | some found =>
          let src ← openFile found (some sloc)
          let s ← get
          match s.source with
          | none => fail (.crash "token_source.take().unwrap()") sloc
          | some cur =>
            set { s with sources := cur :: s.sources, cwds := cwd :: s.cwds,
                         source := some src, cwd := some (parentDir found) }
    | some t => fail .unexpected t.loc
  | "Segment" =>
    let _ ← nextF f
    match ← nextF f with
    | none => eoiErr
    | some ⟨.str v, sloc⟩ =>
      if v = "CODE" ∨ v = "code" then modify fun s => { s with seg := .code }
      else if v = "ADDR" ∨ v = "addr" then modify fun s => { s with seg := .addr }
      else fail .unexpected sloc
    | some t => fail .unexpected t.loc
  | "Incbin" =>
    if (← get).seg = .addr then fail .unexpected (← curLoc)
    let _ ← nextF f
    match ← nextF f with
    | none => eoiErr
    | some ⟨.str path, sloc⟩ =>
      let s ← get
      match s.cwd with
      | none => fail (.crash "cwd.unwrap()") sloc
      | some cwd =>
        match searchFile s.fs s.searchPaths cwd path with
        | none => fail .notFound sloc
        | some found =>
          let _ ← internPath found
          match s.fs.find found with
          | none => fail (.crash "open_read") sloc
          | some fe =>
            let (bytes, faulted) := incbinBytes fe
            eff fun c => Eff.incbin c sloc bytes
            if faulted then fail .fileRead sloc
    | some t => fail .unexpected t.loc
  | "Macro" =>
    let _ ← nextF f
    let (mname, mloc) ← match ← nextF f with
      | none => eoiErr
      | some ⟨.label .global v, l⟩ => pure (v, l)
      | some t => fail .unexpected t.loc
    if (lookupMacro (← get).macros mname).isSome then fail .alreadyDefined mloc
    expectSym f "Comma"
    let n ← match ← nextF f with
      | none => eoiErr
      | some ⟨.num v, _⟩ => pure v
      | some t => fail .unexpected t.loc
    let params ← macroParams f n []
    modify fun s => { s with activeMacro := some mname }
    let body ← recordMacro f params 0 []
    modify fun s => { s with activeMacro := none, macros := setMacro s.macros mname { args := params, toks := body } }
  | "Struct" =>
    let _ ← nextF f
    let (sname, sloc) ← match ← nextF f with
      | none => eoiErr
      | some ⟨.label .global v, l⟩ => pure (v, l)
      | some t => fail .unexpected t.loc
    let oldNs := (← getCore).ns
    if ((← getCore).symtab.get sname).isSome then fail .alreadyDefined sloc
    modCore fun c => { c with ns := some sname }
    let size ← structLoop f sname sloc 0
    modCore fun c => ({ c with ns := oldNs }).insertWithMeta sname (.val size) []
  | "Align" =>
    let _ ← nextF f
    match ← peekF f with
    | none => eoiErr
    | some _ =>
      let (eloc, v) ← constExprF f
      let code := (← get).seg = .code
      eff fun c => Eff.align c code v eloc
  | "Meta" =>
    let _ ← nextF f
    let pairs ← metaPairs f []
    modCore fun c => { c with curMeta := pairs }
  | "EndMeta" =>
    let _ ← nextF f
    modCore fun c => { c with curMeta := [] }
  | "If" =>
    let _ ← nextF f
    let (eloc, v) ← constExprF f
    match v with
    | none => fail .needsNow eloc
    | some r =>
      if r ≠ 0 then modify fun s => { s with ifLevel := s.ifLevel + 1 }
      else skipIf f 1
  | "EndIf" =>
    let _ ← nextF f
    if (← get).ifLevel = 0 then fail .unexpected tok.loc
    modify fun s => { s with ifLevel := s.ifLevel - 1 }
  | _ => fail .unexpected tok.loc

/-- `parse_all`. -/
def parseAllF : Nat → AM Unit
  | 0 => do fail .fuel ((← get).loc.getD {})
  | f + 1 => do
    match ← peekF f with
    | none => pure ()
    | some ⟨.newline, _⟩ => let _ ← nextF f; parseAllF f
    | some ⟨.comment, _⟩ => let _ ← nextF f; parseAllF f
    | some ⟨.label kind value, loc⟩ =>
      if kind = .global then modCore fun c => { c with ns := some value }
      let direct ← qualifyOrFail kind value loc
      eff fun c => Eff.label c direct loc
      let _ ← nextF f
      if ← peekedSym f "Colon" then let _ ← nextF f
      parseAllF f
    | some tok@⟨.dir name, loc⟩ =>
      directive f name loc tok
      parseAllF f
    | some ⟨.op name, _⟩ =>
      if (← get).seg = .addr then fail .unexpected (← curLoc)
      let s ← get
      match findArmBody (armsOf s.arch) name with
      | none => fail (.crash ("no decision tree for operation " ++ name)) (← curLoc)
      | some body =>
        let oldLen := s.core.dataLen
        (fun st => execArm (opsF f) f body st)
        -- `self.here += (self.data.len() - old_len) as u32` and the top-of-memory test
        let l ← curLoc
        eff fun c => Eff.instrTail c oldLen l
      parseAllF f
    | some t => fail .unexpected t.loc

/-- The chain printed by `trace_error`: the including locations, innermost first. -/
def includeChain (s : Asm) : List Loc :=
  match s.source with
  | none => []
  | some src =>
    let rec go (inc : Option Loc) : List Source → List Loc
      | [] => []
      | nxt :: rest => (inc.getD {}) :: go nxt.includedFrom rest
    go src.includedFrom s.sources

structure AsmFail where
  err : Err
  chain : List Loc
  /-- path of the file the error location refers to -/
  file : String
  deriving Repr, Inhabited

/-- `Assembler::assemble`: open the root file, run the statement loop. -/
def assemble (arch : Arch) (fs : FileSys) (searchPaths : List String) (cwd root : String)
    (fuel : Nat) : Except AsmFail Asm :=
  let s0 : Asm := { arch := arch, fs := fs, searchPaths := searchPaths.map (absolutize cwd) }
  match searchFile fs s0.searchPaths (absolutize cwd ".") root with
  | none => .error ⟨⟨.notFound, {}⟩, [], root⟩
  | some found =>
    match (do
        let src ← openFile found none
        -- the root file's own directory is the first place its includes are looked up
        modify fun s => { s with source := some src, cwd := some (parentDir found) }
        parseAllF fuel : AM Unit) s0 with
    | .ok (_, s) => .ok s
    | .error e => .error ⟨e, [], ""⟩

end Az65

import Az65.Model.Lexer
import Az65.Gen.Names
/- Name tables of the three CPUs, assembled from the translator's output. -/
namespace Az65

inductive Arch where
  | z80 | sm83 | mos6502
  deriving Repr, DecidableEq, Inhabited

def Arch.ofString : String → Option Arch
  | "z80" => some .z80 | "sm83" => some .sm83 | "6502" => some .mos6502 | _ => none

def lexTables : Arch → LexTables
  | .z80 => { ops := Gen.z80OpSpell, regs := Gen.z80RegSpell, flags := Gen.z80FlagSpell,
              directives := Gen.directiveSpell, symbols := Gen.symbolSpell,
              valueTerminators := Gen.valueTerminators, symbolStarts := Gen.symbolStarts }
  | .sm83 => { ops := Gen.sm83OpSpell, regs := Gen.sm83RegSpell, flags := Gen.sm83FlagSpell,
               directives := Gen.directiveSpell, symbols := Gen.symbolSpell,
               valueTerminators := Gen.valueTerminators, symbolStarts := Gen.symbolStarts }
  | .mos6502 => { ops := Gen.mos6502OpSpell, regs := Gen.mos6502RegSpell, flags := Gen.mos6502FlagSpell,
                  directives := Gen.directiveSpell, symbols := Gen.symbolSpell,
                  valueTerminators := Gen.valueTerminators, symbolStarts := Gen.symbolStarts }

structure DisplayTables where
  ops : List (String × String)
  regs : List (String × String)
  flags : List (String × String)

def displayTables : Arch → DisplayTables
  | .z80 => ⟨Gen.z80OpDisplay, Gen.z80RegDisplay, Gen.z80FlagDisplay⟩
  | .sm83 => ⟨Gen.sm83OpDisplay, Gen.sm83RegDisplay, Gen.sm83FlagDisplay⟩
  | .mos6502 => ⟨Gen.mos6502OpDisplay, Gen.mos6502RegDisplay, Gen.mos6502FlagDisplay⟩

def display (tbl : List (String × String)) (v : String) : String := (lookupName tbl v).getD v

end Az65

import Az65.Model.Interp
import Az65.Model.PumpG
import Az65.Model.Tables
import Az65.Model.CharReader
import Az65.Gen.TreeZ80
import Az65.Gen.TreeSm83
import Az65.Gen.TreeMos6502
/-
Model of `src/assembler/mod.rs` (the pump `peek`/`next` with macro replay and the macro-like
directives, the statement loop `parse_all` with every directive) and of `src/fileman.rs`.
Written in the state monad over `Asm`; all loops take fuel.  Instruction statements are run by the
decision-tree interpreter over the trees regenerated from the source (`Az65/Gen/Tree*.lean`).
-/
namespace Az65

/-! ### files -/

structure FileEntry where
  path : String
  data : List Nat
  /-- a read fault after this many bytes (`none`: no fault) -/
  failAt : Option Nat := none
  deriving Repr, Inhabited

structure FileSys where
  files : List FileEntry := []
  dirs : List String := ["/"]
  deriving Repr, Inhabited

/-- Lexical normalisation of an absolute path (what `path-absolutize` does, and — there being
no symlinks in the model — what the operating system resolves). -/
def normSegs : List String → List String → List String
  | [], acc => acc.reverse
  | seg :: r, acc =>
    if seg = "" ∨ seg = "." then normSegs r acc
    else if seg = ".." then normSegs r acc.tail
    else normSegs r (seg :: acc)

def normPath (p : String) : String := "/" ++ "/".intercalate (normSegs (p.splitOn "/") [])

/-- `Path::join` followed by absolutisation against `cwd`. -/
def absolutize (cwd path : String) : String :=
  if path.startsWith "/" then normPath path else normPath (cwd ++ "/" ++ path)

def parentDir (p : String) : String :=
  let segs := normSegs (p.splitOn "/") []
  "/" ++ "/".intercalate segs.dropLast

def FileSys.isFile (fs : FileSys) (p : String) : Bool := fs.files.any (·.path == p)
def FileSys.find (fs : FileSys) (p : String) : Option FileEntry := fs.files.find? (·.path == p)

/-- `FileManager::search`: the directory of the including file first, then each search path in
order; the first candidate that exists and is a regular file wins. -/
def searchFile (fs : FileSys) (searchPaths : List String) (cwd path : String) : Option String :=
  ((cwd :: searchPaths).map fun d => absolutize d path).find? fs.isFile

/-! ### macros and token sources -/

structure Macro where
  args : List String
  toks : List MTok
  deriving Repr, Inhabited

structure MacroState where
  name : String
  args : List (List LTok)
  macroOff : Nat := 0
  expandingArg : Option Nat := none
  argOff : Nat := 0
  loc : Loc
  includedFrom : Option Loc
  entropy : String
  deriving Repr, Inhabited

inductive Source where
  | lex (lx : Lexer) (includedFrom : Option Loc)
  | mac (ms : MacroState)
  deriving Repr, Inhabited

def Source.loc : Source → Loc
  | .lex lx _ => lx.loc
  | .mac ms => ms.loc

def Source.includedFrom : Source → Option Loc
  | .lex _ i => i
  | .mac ms => ms.includedFrom

inductive Seg where
  | code | addr
  deriving Repr, DecidableEq, Inhabited

structure Asm where
  arch : Arch
  fs : FileSys
  searchPaths : List String := []
  /-- interned absolute paths; `Loc.file` indexes this list -/
  paths : List String := []
  sources : List Source := []        -- `token_sources`, top of the stack first
  source : Option Source := none     -- `token_source`
  cwds : List String := []
  cwd : Option String := none
  macros : List (String × Macro) := []
  core : CoreSt := {}
  seg : Seg := .code
  entropy : Nat := 0
  stash : Option LTok := none
  loc : Option Loc := none
  activeMacro : Option String := none
  ifLevel : Nat := 0
  echo : List String := []
  deriving Inhabited

abbrev AM := StateT Asm (Except Err)

def fail {α} (k : EKind) (loc : Loc) : AM α := throw ⟨k, loc⟩

def curLoc : AM Loc := do
  match (← get).loc with
  | some l => pure l
  | none => throw ⟨.crash "loc.unwrap()", {}⟩

def eoiErr {α} : AM α := do fail .eoi (← curLoc)

def internPath (p : String) : AM Nat := do
  let s ← get
  match s.paths.idxOf? p with
  | some i => pure i
  | none => set { s with paths := s.paths ++ [p] }; pure s.paths.length

def lookupMacro (ms : List (String × Macro)) (n : String) : Option Macro :=
  match ms with
  | [] => none
  | (k, m) :: r => if k = n then some m else lookupMacro r n

def setMacro (ms : List (String × Macro)) (n : String) (m : Macro) : List (String × Macro) :=
  match ms with
  | [] => [(n, m)]
  | (k, v) :: r => if k = n then (k, m) :: r else (k, v) :: setMacro r n m

/-- Characters of a file through the `CharReader` model (chunking is irrelevant: `Thm.C17`). -/
def fileChars (f : FileEntry) : List Char × StreamEnd :=
  let (cps, e) := Model.CR.run (f.data.length + 2) (Model.CR.init f.data [] f.failAt)
  (cps.map Char.ofNat, match e with | .eof => .eof | .utf8 => .utf8 | .io => .io)

/-- `TokenSource::next` for a macro replay: the index triple of the Rust. -/
def macroNext (m : Macro) : Nat → MacroState → Option LTok × MacroState
  | 0, st => (none, st)
  | f + 1, st =>
    if st.macroOff ≥ m.toks.length then (none, st) else
    match st.expandingArg with
    | some a =>
      let argToks := st.args.getD a []
      if st.argOff ≥ argToks.length then
        macroNext m f { st with expandingArg := none, macroOff := st.macroOff + 1 }
      else
        let t := argToks.getD st.argOff default
        (some t, { st with argOff := st.argOff + 1, loc := t.loc })
    | none =>
      match m.toks.getD st.macroOff default with
      | .tok t => (some t, { st with macroOff := st.macroOff + 1, loc := t.loc })
      | .arg i => macroNext m f { st with expandingArg := some i, argOff := 0 }
      | .entropy loc => (some ⟨.str st.entropy, loc⟩, { st with macroOff := st.macroOff + 1, loc := loc })

/-- `TokenSource::next`. -/
def sourceNext (s : Asm) (src : Source) : Except Err (Option LTok × Source) :=
  match src with
  | .lex lx inc =>
    match Lexer.next (lexTables s.arch) lx.fuel lx with
    | .tok t lx' => .ok (some t, .lex lx' inc)
    | .err e _ => .error ⟨.lex e.kind, e.loc⟩
    | .done lx' => .ok (none, .lex lx' inc)
    | .more lx' => .ok (none, .lex lx' inc)
  | .mac ms =>
    match lookupMacro s.macros ms.name with
    | none => .error ⟨.crash "macros.get_mut(name).unwrap()", ms.loc⟩
    | some m =>
      let (t, ms') := macroNext m (2 * m.toks.length + 2) ms
      .ok (t, .mac ms')

def pushSource (src : Source) (cwd : String) : AM Unit :=
  modify fun s => { s with sources := src :: s.sources, cwds := cwd :: s.cwds }

/-- The common tail of the macro-like directives: park the current source, then the new one. -/
def pushInvocation (ms : MacroState) : AM Unit := do
  let s ← get
  match s.source, s.cwd with
  | some cur, some cwd =>
    set { s with sources := .mac ms :: cur :: s.sources, cwds := cwd :: cwd :: s.cwds,
                 source := none, cwd := none }
  | _, _ => eoiErr          -- nothing left to come back to: `suspend_token_source` reports the end of input

def showSymbol (n : String) : String := display Gen.symbolDisplay n

/-- Text contributed by a token to `@string` / `@label`. -/
def stringify (a : Arch) (t : Tok) : Option String :=
  let d := displayTables a
  match t with
  | .str s => some s
  | .label _ s => some s
  | .num v => some (String.ofList (digitsOf 16 v))
  | .op n => some (display d.ops n)
  | .reg n => some (display d.regs n)
  | .sym n => some (showSymbol n)
  | _ => none

def labelKindOf (s : String) : Option LabelKind :=
  match (s.toList.filter (· == '.')).length with
  | 0 => some .global
  | 1 => if s.startsWith "." then some .loc else some .direct
  | _ => none

/-- `str::split_whitespace().count()` -/
def wordCount : List Char → Bool → Nat → Nat
  | [], _, n => n
  | c :: r, inWord, n =>
    if isWs c then wordCount r false n
    else if inWord then wordCount r true n else wordCount r true (n + 1)

def binDigits (v : Nat) : String := String.ofList (digitsOf 2 v)
def hexDigits (v : Nat) : String := String.ofList (digitsOf 16 v)

def qualifyOrFail (kind : LabelKind) (value : String) (loc : Loc) : AM String := do
  match qualify (← get).core.ns kind value with
  | some d => pure d
  | none => fail .noScope loc

mutual
/-- `Assembler::peek` (the pump). -/
def peekF : Nat → AM (Option LTok)
  | 0 => do fail .fuel ((← get).loc.getD {})
  | f + 1 => do
    let s ← get
    -- resume the source below when the current one is exhausted
    if s.source.isNone then
      match s.sources, s.cwds with
      | src :: rest, c :: crest => set { s with source := some src, sources := rest, cwd := some c, cwds := crest }
      | src :: rest, [] => set { s with source := some src, sources := rest, cwd := none }
      | [], c :: crest => set { s with cwd := some c, cwds := crest }
      | [], [] => set { s with cwd := none }
    let s ← get
    match s.stash with
    | some t => pure (some t)
    | none =>
      match s.source with
      | none => pure none
      | some src =>
        let (tok, src) ← liftExcept (sourceNext s src)
        set { s with source := some src }
        -- a backslash swallows the following line break or comment
        if let some ⟨.sym "BackSlash", _⟩ := tok then
          let s ← get
          let (tok2, src) ← liftExcept (sourceNext s src)
          set { s with source := some src }
          match tok2 with
          | none => eoiErr
          | some ⟨.comment, _⟩ => peekF f
          | some ⟨.newline, _⟩ => peekF f
          | some t => fail .unexpected t.loc
        else
        let s ← get
        if s.activeMacro.isNone then
          match tok with
          | some ⟨.label .global value, _⟩ =>
            if (lookupMacro s.macros value).isSome then
              let ms ← macroInvokeF f value
              pushInvocation ms
              peekF f
            else finish f tok src
          | some ⟨.dir "String", loc⟩ =>
            let t ← stringArgF f loc false
            modify fun s => { s with stash := some t, loc := some loc }
            peekF f
          | some ⟨.dir "Label", loc⟩ =>
            let t ← stringArgF f loc true
            modify fun s => { s with stash := some t, loc := some loc }
            peekF f
          | some ⟨.dir "Count", loc⟩ =>
            let ms ← countF f loc
            pushInvocation ms
            peekF f
          | some ⟨.dir "GetMeta", loc⟩ =>
            let ms ← getMetaF f loc
            pushInvocation ms
            peekF f
          | some ⟨.dir "Parse", loc⟩ =>
            match ← nextF f with
            | none => eoiErr
            | some ⟨.str text, _⟩ =>
              let s ← get
              match s.source, s.cwd with
              | some cur, some cwd =>
                let lx := Lexer.new loc.file text.toList .eof
                set { s with sources := .lex lx (some loc) :: cur :: s.sources,
                             cwds := cwd :: cwd :: s.cwds, source := none, cwd := none }
                peekF f
              | _, _ => eoiErr
            | some t => fail .unexpected t.loc
          | some ⟨.dir "Each", loc⟩ =>
            let states ← eachF f loc
            let s ← get
            match s.source, s.cwd with
            | some cur, some cwd =>
              -- the states are pushed reversed: the first element's replay ends up on top
              set { s with sources := (states.map Source.mac) ++ cur :: s.sources,
                           cwds := (states.map fun _ => cwd) ++ cwd :: s.cwds,
                           source := none, cwd := none }
              peekF f
            | _, _ => eoiErr
          | some ⟨.dir "Hex", loc⟩ =>
            let ms ← numberDirF f loc 16
            pushInvocation ms
            peekF f
          | some ⟨.dir "Bin", loc⟩ =>
            let ms ← numberDirF f loc 2
            pushInvocation ms
            peekF f
          | some ⟨.dir "IsDef", loc⟩ =>
            match ← nextF f with
            | none => eoiErr
            | some ⟨.label kind value, lloc⟩ =>
              let direct ← qualifyOrFail kind value lloc
              let s ← get
              let v := if (s.core.symtab.get direct).isSome then 1 else 0
              set { s with stash := some ⟨.num v, loc⟩, loc := some loc }
              peekF f
            | some t => fail .unexpected t.loc
          | _ => finish f tok src
        else finish f tok src
where
  /-- end of the loop body: stash the token; an exhausted source is dropped and the loop goes on
  with the source below it -/
  finish (f : Nat) (tok : Option LTok) (src : Source) : AM (Option LTok) := do
    modify fun s => { s with stash := tok, loc := some src.loc }
    if tok.isNone then modify fun s => { s with source := none, cwd := none }
    peekF f

/-- `Assembler::next`. -/
def nextF : Nat → AM (Option LTok)
  | 0 => do fail .fuel ((← get).loc.getD {})
  | f + 1 => do
    let _ ← peekF f
    let s ← get
    set { s with stash := none }
    pure s.stash

/-- `expect_macro_invoke`: collect one argument per parameter (a single token or one brace group). -/
def macroInvokeF : Nat → String → AM MacroState
  | 0, _ => do fail .fuel ((← get).loc.getD {})
  | f + 1, name => do
    let s ← get
    let argCount := ((lookupMacro s.macros name).map (·.args.length)).getD 0
    let loc ← curLoc
    let args ← collectArgsF f argCount argCount []
    let s ← get
    let ent := "__" ++ toString s.entropy
    set { s with entropy := s.entropy + 1 }
    pure { name := name, args := args, loc := loc, includedFrom := some loc, entropy := ent }

def collectArgsF : Nat → Nat → Nat → List (List LTok) → AM (List (List LTok))
  | 0, _, _, _ => do fail .fuel ((← get).loc.getD {})
  | _ + 1, _, 0, acc => pure acc
  | f + 1, total, k + 1, acc => do
    let toks ← oneArgF f 0 []
    -- a comma between arguments, none after the last
    if k > 0 then
      match ← nextF f with
      | some ⟨.sym "Comma", _⟩ => pure ()
      | some t => fail .unexpected t.loc
      | none => eoiErr
    collectArgsF f total k (acc ++ [toks])

/-- One macro argument: brace depth counter, line breaks and comments dropped. -/
def oneArgF : Nat → Nat → List LTok → AM (List LTok)
  | 0, _, _ => do fail .fuel ((← get).loc.getD {})
  | f + 1, depth, toks => fun s => oneArgG (opsF f) f depth toks s

/-- `expect_string_directive_arg` / `expect_label_directive_arg`. -/
def stringArgF : Nat → Loc → Bool → AM LTok
  | 0, _, _ => do fail .fuel ((← get).loc.getD {})
  | f + 1, loc, asLabel => do
    let text ← stringLoopF f 0 ""
    if asLabel then
      if wordCount text.toList false 0 > 1 then fail .unexpected loc
      else match labelKindOf text with
        | some k => pure ⟨.label k text, loc⟩
        | none => fail .unexpected loc
    else pure ⟨.str text, loc⟩

def stringLoopF : Nat → Nat → String → AM String
  | 0, _, _ => do fail .fuel ((← get).loc.getD {})
  | f + 1, depth, acc => do
    let arch := (← get).arch
    match ← nextF f with
    | none => eoiErr
    | some ⟨.newline, _⟩ => again f depth acc
    | some ⟨.comment, _⟩ => again f depth acc
    | some ⟨.sym "BraceOpen", _⟩ => again f (depth + 1) (if depth > 0 then acc ++ "{" else acc)
    | some ⟨.sym "BraceClose", loc⟩ =>
      if depth = 0 then fail .unexpected loc
      else if depth = 1 then pure acc
      else again f (depth - 1) (acc ++ "}")
    | some t =>
      match stringify arch t.tok with
      | some piece => again f depth (acc ++ piece)
      | none => fail .unexpected t.loc
where
  again (f depth : Nat) (acc : String) : AM String :=
    if depth = 0 then pure acc else stringLoopF f depth acc

/-- `expect_count_directive`. -/
def countF : Nat → Loc → AM MacroState
  | 0, _ => do fail .fuel ((← get).loc.getD {})
  | f + 1, loc => do
    let (eloc, v) ← constExprF f
    match v with
    | none => fail .needsNow eloc
    | some v =>
      if v.toInt < 0 then fail .range eloc else
      let s ← get
      let name := "@count Invocation" ++ toString s.entropy
      let ent := "__" ++ toString s.entropy
      -- the look-ahead token left in the stash is re-queued after the generated tokens
      let toks := countToks v.toNat loc s.stash
      set { s with entropy := s.entropy + 1, stash := none,
                   macros := setMacro s.macros name { args := [], toks := toks } }
      pure { name := name, args := [], loc := loc, includedFrom := some loc, entropy := ent }

/-- `expect_number_directive_arg` (`@hex`, `@bin`). -/
def numberDirF : Nat → Loc → Nat → AM MacroState
  | 0, _, _ => do fail .fuel ((← get).loc.getD {})
  | f + 1, loc, base => do
    let (eloc, v) ← constExprF f
    match v with
    | none => fail .needsNow eloc
    | some v =>
      let s ← get
      let dname := if base = 16 then "@hex" else "@bin"
      let name := dname ++ " Invocation" ++ toString s.entropy
      let ent := "__" ++ toString s.entropy
      let digits := if base = 16 then hexDigits v.toNat else binDigits v.toNat
      let toks := [MTok.tok ⟨.str digits, loc⟩]
      let toks := match s.stash with | some t => toks ++ [.tok t] | none => toks
      set { s with entropy := s.entropy + 1, stash := none,
                   macros := setMacro s.macros name { args := [], toks := toks } }
      pure { name := name, args := [], loc := loc, includedFrom := some loc, entropy := ent }

/-- `@getmeta sym, "key"`. -/
def getMetaF : Nat → Loc → AM MacroState
  | 0, _ => do fail .fuel ((← get).loc.getD {})
  | f + 1, loc => do
    let direct ← match ← nextF f with
      | none => eoiErr
      | some ⟨.label kind value, lloc⟩ => qualifyOrFail kind value lloc
      | some t => fail .unexpected t.loc
    match ← nextF f with
    | some ⟨.sym "Comma", _⟩ => pure ()
    | some t => fail .unexpected t.loc
    | none => eoiErr
    let key ← match ← nextF f with
      | none => eoiErr
      | some ⟨.str k, _⟩ => pure k
      | some t => fail .unexpected t.loc
    let s ← get
    let toks := match s.core.symtab.get direct with
      | some e => (e.metas.filter (·.1 == key)).map fun kv => MTok.tok ⟨.str kv.2, loc⟩
      | none => [MTok.tok ⟨.str "", loc⟩]
    let name := "@metaget Invocation" ++ toString s.entropy
    let ent := "__" ++ toString s.entropy
    set { s with entropy := s.entropy + 1, macros := setMacro s.macros name { args := [], toks := toks } }
    pure { name := name, args := [], loc := loc, includedFrom := some loc, entropy := ent }

/-- `expect_each_directive`. -/
def eachF : Nat → Loc → AM (List MacroState)
  | 0, _ => do fail .fuel ((← get).loc.getD {})
  | f + 1, loc => do
    let argName ← match ← nextF f with
      | none => eoiErr
      | some ⟨.label kind value, lloc⟩ => if kind = .global then pure value else fail .unexpected lloc
      | some t => fail .unexpected t.loc
    match ← nextF f with
    | some ⟨.sym "Comma", _⟩ => pure ()
    | some t => fail .unexpected t.loc
    | none => eoiErr
    let items ← eachItemsF f 0 []
    let s ← get
    let name := "@each Invocation" ++ toString s.entropy
    let ent := "__" ++ toString s.entropy
    set { s with entropy := s.entropy + 1 }
    let body ← eachBodyF f argName []
    modify fun s => { s with macros := setMacro s.macros name { args := [argName], toks := body } }
    pure (items.map fun t =>
      { name := name, args := [[t]], loc := loc, includedFrom := some loc, entropy := ent })

def eachItemsF : Nat → Nat → List LTok → AM (List LTok)
  | 0, _, _ => do fail .fuel ((← get).loc.getD {})
  | f + 1, depth, acc => do
    match ← nextF f with
    | none => eoiErr
    | some ⟨.newline, _⟩ => again f depth acc
    | some ⟨.comment, _⟩ => again f depth acc
    | some t@⟨.sym "BraceOpen", _⟩ => again f (depth + 1) (if depth > 0 then acc ++ [t] else acc)
    | some t@⟨.sym "BraceClose", loc⟩ =>
      if depth = 0 then fail .unexpected loc
      else if depth = 1 then pure acc
      else again f (depth - 1) (acc ++ [t])
    | some t => again f depth (acc ++ [t])
where
  again (f depth : Nat) (acc : List LTok) : AM (List LTok) :=
    if depth = 0 then pure acc else eachItemsF f depth acc

def eachBodyF : Nat → String → List MTok → AM (List MTok)
  | 0, _, _ => do fail .fuel ((← get).loc.getD {})
  | f + 1, argName, acc => do
    match ← nextF f with
    | none => eoiErr
    | some ⟨.dir "EndEach", _⟩ => pure acc
    | some t => eachBodyF f argName (acc ++ [slotOf [argName] t])

/-- `const_expr` over the pump at this fuel. -/
def constExprF : Nat → AM (Loc × Option I32)
  | 0 => do fail .fuel ((← get).loc.getD {})
  | f + 1 => fun s => constExpr (opsF f) f s

/-- The token supply handed to the generic expression ladder / decision-tree interpreter. -/
def opsF : Nat → TokOps Asm
  | 0 => { peek := fun s => .error ⟨.fuel, s.loc.getD {}⟩, next := fun s => .error ⟨.fuel, s.loc.getD {}⟩,
           loc := fun s => s.loc.getD {}, getC := (·.core), setC := fun s c => { s with core := c } }
  | f + 1 => { peek := peekF f, next := nextF f, loc := fun s => s.loc.getD {},
               getC := (·.core), setC := fun s c => { s with core := c } }
end

end Az65

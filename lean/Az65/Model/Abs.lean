import Az65.Model.Effects
import Az65.Model.Link
/-
Statement-level model: a program as a list of already-parsed statements, executed with the SAME
effect functions (`Model/Effects.lean`) that the token-level model (`Model/Stmt.lean`) applies after
reading each statement's tokens.  Instructions enter as piece lists (literal opcode bytes and
operand fields), so theorems hold for every instruction template.  The theorems of C05–C09 and
C16 are stated about `exec` / `run` / `assembleAbs`.
-/
namespace Az65
namespace Abs

/-- One field of an instruction as the encoders emit it. -/
inductive Piece where
  | lit (b : Nat)
  | byte (e : List Node)      -- `expect_immediate`-style 8-bit operand
  | word (e : List Node)      -- 16-bit little-endian operand
  | rel (e : List Node)       -- relative branch target (`expect_branch_immediate`)
  deriving Repr, Inhabited

/-- A struct member. -/
inductive Member where
  | field (name : String) (size : List Node)   -- sized field; `@db` = size 1, `@dw` = size 2
  | pad (size : List Node)                      -- `@ds`
  | align (al : List Node)                      -- `@align`
  deriving Repr, Inhabited

inductive Stmt where
  | label (direct : String)
  | org (e : List Node)
  | dbStr (bytes : List Nat)
  | dbVal (e : List Node)
  | dwVal (e : List Node)
  | ds (size : List Node) (fill : Option (List Node))
  | align (e : List Node)
  | incbin (bytes : List Nat)
  | instr (pieces : List Piece)
  | assert (e : List Node)
  | define (keepMeta : Bool) (direct : String) (e : List Node)      -- @defl / @defn
  | redefine (keepMeta : Bool) (direct : String) (e : List Node)    -- @redefl / @redefn
  | undef (direct : String)
  | segment (code : Bool)
  | struct (name : String) (members : List Member)
  deriving Repr, Inhabited

structure State where
  core : CoreSt := {}
  code : Bool := true
  deriving Repr, Inhabited

/-- What the parser does to the symbols of an expression while reading it: a name whose value can
be computed *now* is inlined as that value (this is what makes an immediate use a snapshot), every
name is recorded in the first-reference table. -/
def resolve (c : CoreSt) : List Node → CoreSt × List Node
  | [] => (c, [])
  | .label n :: r =>
    if n = "@here" then
      -- `@here`: the current address, captured while the expression is read
      let (c', r') := resolve c r
      (c', .val (i32OfNat c.here) :: r')
    else
      let node := labelNode c n
      let (c', r') := resolve (c.touch n {}) r
      (c', node :: r')
  | .sizeOf n :: r =>
    let (c', r') := resolve (c.touch n {}) r
    (c', .sizeOf n :: r')
  | x :: r =>
    let (c', r') := resolve c r
    (c', x :: r')

def ev (c : CoreSt) (e : List Node) : Except Err (Option I32) := evalOpt c e {}

/-- Emission of one instruction piece (the shared operand emitters, without the token reading). -/
def piece (c : CoreSt) : Piece → Except Err CoreSt
  | .lit b => .ok (c.push b)
  | .byte e =>
    let (c, e) := resolve c e
    match ev c e with
    | .error er => .error er
    | .ok (some v) => if u32 v > 255 then .error ⟨.range, {}⟩ else .ok (c.push (lowByte v))
    | .ok none => .ok ((c.addLink ⟨.byte, {}, c.dataLen, 1, e, none⟩).push 0)
  | .word e =>
    let (c, e) := resolve c e
    match ev c e with
    | .error er => .error er
    | .ok (some v) =>
      if u32 v > 65535 then .error ⟨.range, {}⟩ else .ok ((c.push (u32 v % 256)).push (u32 v / 256 % 256))
    | .ok none => .ok (((c.addLink ⟨.word, {}, c.dataLen, 2, e, none⟩).push 0).push 0)
  | .rel e =>
    let (c, e) := resolve c e
    let e' := e ++ [.val (i32OfNat ((c.here + 2) % 4294967296)), .sub]
    match ev c e' with
    | .error er => .error er
    | .ok (some v) =>
      if v.toInt < -128 ∨ v.toInt > 127 then .error ⟨.range, {}⟩ else .ok (c.push (lowByte v))
    | .ok none => .ok ((c.addLink ⟨.signedByte, {}, c.dataLen, 1, e', none⟩).push 0)

def pieces (c : CoreSt) : List Piece → Except Err CoreSt
  | [] => .ok c
  | p :: r =>
    match piece c p with
    | .error e => .error e
    | .ok c' => pieces c' r

/-- One struct member: the running size and the fields defined so far. -/
def member (sname : String) (c : CoreSt) (size : I32) : Member → Except Err (CoreSt × I32)
  | .field name sz =>
    let (c, sz) := resolve c sz
    match ev c sz with
    | .error e => .error e
    | .ok none => .error ⟨.needsNow, {}⟩
    | .ok (some fs) => Eff.structField c (sname ++ "." ++ name) size fs (toString fs.toInt) {}
  | .pad sz =>
    let (c, sz) := resolve c sz
    match ev c sz with
    | .error e => .error e
    | .ok none => .error ⟨.needsNow, {}⟩
    | .ok (some p) => .ok (c, size + p)
  | .align al =>
    let (c, al) := resolve c al
    match ev c al with
    | .error e => .error e
    | .ok none => .error ⟨.needsNow, {}⟩
    | .ok (some a) => if a.toInt < 2 then .error ⟨.range, {}⟩ else .ok (c, size + Eff.structPadding size a)

def members (sname : String) (c : CoreSt) (size : I32) : List Member → Except Err (CoreSt × I32)
  | [] => .ok (c, size)
  | m :: r =>
    match member sname c size m with
    | .error e => .error e
    | .ok (c', size') => members sname c' size' r

/-- Execute one statement. -/
def exec (s : State) : Stmt → Except Err State
  | .label d => (Eff.label s.core d {}).map fun c => { s with core := c }
  | .org e =>
    let (c, e) := resolve s.core e
    match ev c e with
    | .error er => .error er
    | .ok v => (Eff.org c v {}).map fun c => { s with core := c }
  | .dbStr bytes =>
    if s.code then (Eff.dbStr s.core bytes {}).map fun c => { s with core := c }
    else (Eff.skip s.core 1 {}).map fun c => { s with core := c }
  | .dbVal e =>
    if s.code then
      let (c, e) := resolve s.core e
      match ev c e with
      | .error er => .error er
      | .ok v => (Eff.dbVal c v e {}).map fun c => { s with core := c }
    else (Eff.skip s.core 1 {}).map fun c => { s with core := c }
  | .dwVal e =>
    if s.code then
      let (c, e) := resolve s.core e
      match ev c e with
      | .error er => .error er
      | .ok v => (Eff.dwVal c v e {}).map fun c => { s with core := c }
    else (Eff.skip s.core 2 {}).map fun c => { s with core := c }
  | .ds size fill =>
    let (c, size) := resolve s.core size
    match ev c size with
    | .error er => .error er
    | .ok v =>
      match Eff.dsSize c v {} with
      | .error er => .error er
      | .ok (c, n) =>
        if s.code then
          match fill with
          | none => (Eff.dsFill c n none [] {}).map fun c => { s with core := c }
          | some fe =>
            let (c, fe) := resolve c fe
            match ev c fe with
            | .error er => .error er
            | .ok fv => (Eff.dsFill c n (some fv) fe {}).map fun c => { s with core := c }
        else .ok { s with core := c }
  | .align e =>
    let (c, e) := resolve s.core e
    match ev c e with
    | .error er => .error er
    | .ok v => (Eff.align c s.code v {}).map fun c => { s with core := c }
  | .incbin bytes =>
    if s.code then (Eff.incbin s.core {} bytes).map fun c => { s with core := c }
    else .error ⟨.unexpected, {}⟩
  | .instr ps =>
    if s.code then
      match pieces s.core ps with
      | .error er => .error er
      | .ok c => (Eff.instrTail c s.core.dataLen {}).map fun c => { s with core := c }
    else .error ⟨.unexpected, {}⟩
  | .assert e =>
    let (c, e) := resolve s.core e
    match ev c e with
    | .error er => .error er
    | .ok v => (Eff.assert c v e none {}).map fun c => { s with core := c }
  | .define keep d e =>
    if (s.core.symtab.get d).isSome then .error ⟨.alreadyDefined, {}⟩
    else
      let (c, e) := resolve s.core e
      (Eff.define c keep d e {}).map fun c => { s with core := c }
  | .redefine keep d e =>
    let (c, e) := resolve s.core e
    .ok { s with core := Eff.redefine c keep d e }
  | .undef d => .ok { s with core := Eff.undef s.core d }
  | .segment code => .ok { s with code := code }
  | .struct name ms =>
    if (s.core.symtab.get name).isSome then .error ⟨.alreadyDefined, {}⟩
    else
      let old := s.core.ns
      match members name { s.core with ns := some name } 0 ms with
      | .error er => .error er
      | .ok (c, size) => .ok { s with core := ({ c with ns := old }).insertWithMeta name (.val size) [] }

def run (s : State) : List Stmt → Except Err State
  | [] => .ok s
  | st :: r =>
    match exec s st with
    | .error e => .error e
    | .ok s' => run s' r

/-- assemble + link of a statement list: the final image or the diagnostic. -/
def assembleAbs (prog : List Stmt) : Except Err (List Nat) :=
  match run {} prog with
  | .error e => .error e
  | .ok s => link s.core

end Abs
end Az65

/-
Model of `src/intern.rs`: `BytesInterner` (chained backing buffers that are never reallocated,
raw-pointer handles) and `MetaInterner` (pairs sorted into a canonical byte string first).
A handle is (buffer index, start, length) — the model's reading of the raw (address, length).
-/
namespace Az65.Model.Intern

structure Buf where
  cap : Nat
  data : List Nat
  deriving Repr

structure Handle where
  buf : Nat
  start : Nat
  len : Nat
  deriving Repr, DecidableEq

/-- Interner state: `old ++ [cur]` is the Rust `buffers` vector; only the last buffer is ever
written to. -/
structure St where
  old : List Buf
  cur : Buf
  /-- the hash set, as (content, handle) pairs; lookups are by content -/
  map : List (List Nat × Handle)
  deriving Repr

def St.bufs (st : St) : List Buf := st.old ++ [st.cur]

def nextPow2Aux : Nat → Nat → Nat → Nat
  | 0, p, _ => p
  | f + 1, p, n => if n ≤ p then p else nextPow2Aux f (2 * p) n

/-- `usize::next_power_of_two`. -/
def nextPow2 (n : Nat) : Nat := nextPow2Aux (n + 1) 1 n

/-- `BytesInterner::new()`: one buffer of capacity 32. -/
def init : St := { old := [], cur := { cap := 32, data := [] }, map := [] }

def lookup (m : List (List Nat × Handle)) (bytes : List Nat) : Option Handle :=
  match m with
  | [] => none
  | (c, h) :: r => if c = bytes then some h else lookup r bytes

/-- `BytesInterner::buffer`: chain a new buffer when the last one cannot hold the slice, then
append (`extend_from_slice`); the handle points at the appended range. -/
def buffer (st : St) (bytes : List Nat) : St × Handle :=
  let st1 : St :=
    if st.cur.cap < st.cur.data.length + bytes.length then
      { st with old := st.old ++ [st.cur],
                cur := { cap := nextPow2 (max st.cur.cap bytes.length + 1), data := [] } }
    else st
  ({ st1 with cur := { st1.cur with data := st1.cur.data ++ bytes } },
   ⟨st1.old.length, st1.cur.data.length, bytes.length⟩)

/-- `BytesInterner::intern`. -/
def intern (st : St) (bytes : List Nat) : St × Handle :=
  match lookup st.map bytes with
  | some h => (st, h)
  | none =>
    let (st', h) := buffer st bytes
    ({ st' with map := (bytes, h) :: st'.map }, h)

/-- The bytes a handle points at (reading memory through the raw pointer). -/
def resolve (st : St) (h : Handle) : Option (List Nat) :=
  match st.bufs[h.buf]? with
  | none => none
  | some b => if h.start + h.len ≤ b.data.length then some ((b.data.drop h.start).take h.len) else none

/-- `BytesInterner::get`: the set is probed with the handle's own content. -/
def get (st : St) (h : Handle) : Option (List Nat) :=
  match resolve st h with
  | none => none
  | some c => match lookup st.map c with
    | some _ => some c
    | none => none

/-! ### metadata sets -/

/-- Total order on pairs of string handles (the Rust derives `Ord` on the raw (pointer, length);
any total order gives the same canonical form up to the order itself). -/
def pairLe (a b : (Nat × Nat)) : Bool := a.1 < b.1 || (a.1 == b.1 && a.2 ≤ b.2)

/-- `MetaInterner::intern`: sort the pairs, reinterpret as bytes, intern. -/
def canon (pairs : List (Nat × Nat)) : List Nat :=
  (pairs.mergeSort pairLe).flatMap fun p => [p.1, p.2]

def internMeta (st : St) (pairs : List (Nat × Nat)) : St × Handle := intern st (canon pairs)

/-- Run a history of intern operations, collecting the handles. -/
def runOps (st : St) : List (List Nat) → St × List Handle
  | [] => (st, [])
  | op :: ops =>
    let (st1, h) := intern st op
    let (st2, hs) := runOps st1 ops
    (st2, h :: hs)

end Az65.Model.Intern

import Az65.Model.ExprParse
import Az65.Model.IR
/-
Interpreter of the decision-tree IR (`Model/IR.lean`) — the executable model of the three
`ArchAssembler::parse` implementations, generic in the token supply — and the four shared operand
emitters of `assembler/mod.rs` (`expect_immediate`, `expect_hmem_immediate`,
`expect_wide_immediate`, `expect_branch_immediate`).
-/
namespace Az65
open IR
variable {σ : Type}

/-- Local variables of one mnemonic arm. -/
structure Locals where
  ints : List (String × Int) := []
  bools : List (String × Bool) := []
  /-- `(loc, expr)` of the last `asm.expr()?` -/
  expr : Option (Loc × List Node) := none
  /-- `name` bound by a `Some(Token::Register { name, .. })` pattern -/
  name : Option String := none
  deriving Repr, Inhabited

def Locals.int (l : Locals) (x : String) : Option Int := (l.ints.find? (·.1 == x)).map (·.2)
def Locals.bool (l : Locals) (x : String) : Option Bool :=
  if x = "true" then some true else (l.bools.find? (·.1 == x)).map (·.2)
def Locals.setInt (l : Locals) (x : String) (v : Int) : Locals := { l with ints := (x, v) :: l.ints }
def Locals.setBool (l : Locals) (x : String) (v : Bool) : Locals := { l with bools := (x, v) :: l.bools }

/-- Value expressions; `none` = a Rust panic (`unreachable!()`) or an unbound variable. -/
def evalV (l : Locals) (dataLen : Nat) : V → Option Int
  | .lit n => some n
  | .var x => l.int x
  | .asU8 e => (evalV l dataLen e).map (· % 256)
  | .asU16 e => (evalV l dataLen e).map (· % 65536)
  | .asU32 e => (evalV l dataLen e).map (· % 4294967296)
  | .dataLen => some dataLen
  | .add a b => do let x ← evalV l dataLen a; let y ← evalV l dataLen b; some (x + y)
  | .bin op a b => do
    let x ← evalV l dataLen a
    let y ← evalV l dataLen b
    if op = "sub" then some (x - y)
    else if y < 0 then none
    else if op = "shl" then some (x * 2 ^ y.toNat)
    else if op = "shr" then some (x / 2 ^ y.toNat)
    else if x < 0 then none
    else if op = "band" then some (Int.ofNat (x.toNat &&& y.toNat))
    else if op = "bor" then some (Int.ofNat (x.toNat ||| y.toNat))
    else none
  | .matchInt e arms dflt => do
    let v ← evalV l dataLen e
    match arms.find? (·.1 == v) with
    | some (_, r) => some r
    | none => dflt

def evalC (l : Locals) (dataLen : Nat) : C → Option Bool
  | .lt a b => do let x ← evalV l dataLen a; let y ← evalV l dataLen b; some (decide (x < y))
  | .le a b => do let x ← evalV l dataLen a; let y ← evalV l dataLen b; some (decide (x ≤ y))
  | .gt a b => do let x ← evalV l dataLen a; let y ← evalV l dataLen b; some (decide (x > y))
  | .ge a b => do let x ← evalV l dataLen a; let y ← evalV l dataLen b; some (decide (x ≥ y))
  | .eq a b => do let x ← evalV l dataLen a; let y ← evalV l dataLen b; some (decide (x = y))
  | .ne a b => do let x ← evalV l dataLen a; let y ← evalV l dataLen b; some (decide (x ≠ y))
  | .not c => (evalC l dataLen c).map (!·)
  | .and a b => do let x ← evalC l dataLen a; let y ← evalC l dataLen b; some (x && y)
  | .or a b => do let x ← evalC l dataLen a; let y ← evalC l dataLen b; some (x || y)
  | .inRange lo hi e => (evalV l dataLen e).map fun v => decide (lo ≤ v ∧ v ≤ hi)
  | .bvar x => l.bool x

/-- Does a token (or end of input) match a pattern?  Returns the bound register/flag name. -/
def matchPat : Pat → Option LTok → Option (Option String)
  | .eoi, none => some none
  | .eoi, some _ => none
  | _, none => none
  | .reg r, some ⟨.reg n, _⟩ => if r = n then some none else none
  | .flag f, some ⟨.flag n, _⟩ => if f = n then some none else none
  | .sym s, some ⟨.sym n, _⟩ => if s = n then some none else none
  | .num v, some ⟨.num n, _⟩ => if v = n then some none else none
  | .anyReg, some ⟨.reg n, _⟩ => some (some n)
  | .anyFlag, some ⟨.flag n, _⟩ => some (some n)
  | .any, some _ => some none
  | .alts ps, t => ps.findSome? fun p => matchPatFlat p t
  | _, _ => none
where
  /-- alternatives are never nested in the sources -/
  matchPatFlat : Pat → Option LTok → Option (Option String)
    | .reg r, some ⟨.reg n, _⟩ => if r = n then some none else none
    | .flag f, some ⟨.flag n, _⟩ => if f = n then some none else none
    | .sym s, some ⟨.sym n, _⟩ => if s = n then some none else none
    | .anyReg, some ⟨.reg n, _⟩ => some (some n)
    | .anyFlag, some ⟨.flag n, _⟩ => some (some n)
    | .any, some _ => some none
    | _, _ => none

def findArm (arms : List (Pat × List S)) (t : Option LTok) : Option (List S × Option String) :=
  match arms with
  | [] => none
  | (p, b) :: r =>
    match matchPat p t with
    | some bound => some (b, bound)
    | none => findArm r t

def linkKindOf : String → Option (LinkKind × Nat)
  | "byte" => some (.byte, 1) | "signed_byte" => some (.signedByte, 1) | "word" => some (.word, 2)
  | _ => none

def errKindOf : String → EKind
  | "range" => .range | "needsNow" => .needsNow | _ => .unexpected

/-- `expect_symbol`. -/
def expectSymbol (ops : TokOps σ) (name : String) (s : σ) : R σ Unit :=
  match ops.next s with
  | .error e => .error e
  | .ok (some ⟨.sym n, loc⟩, s) => if n = name then .ok ((), s) else .error ⟨.unexpected, loc⟩
  | .ok (some t, _) => .error ⟨.unexpected, t.loc⟩
  | .ok (none, s) => .error ⟨.eoi, ops.loc s⟩

/-- `expect_register`. -/
def expectRegister (ops : TokOps σ) (name : String) (s : σ) : R σ Unit :=
  match ops.next s with
  | .error e => .error e
  | .ok (some ⟨.reg n, loc⟩, s) => if n = name then .ok ((), s) else .error ⟨.unexpected, loc⟩
  | .ok (some t, _) => .error ⟨.unexpected, t.loc⟩
  | .ok (none, s) => .error ⟨.eoi, ops.loc s⟩

def u32 (v : I32) : Nat := v.toNat
def lowByte (v : I32) : Nat := v.toNat % 256

/-- The four shared operand emitters (`assembler/mod.rs:735-801`). -/
def operandEmitter (ops : TokOps σ) (fuel : Nat) (which : String) (s : σ) : R σ Unit :=
  match parseExpr ops fuel s with
  | .error e => .error e
  | .ok ((loc, nodes), s) =>
    let c := ops.getC s
    if which = "expect_branch_immediate" then
      let nodes := nodes ++ [.val (i32OfNat ((c.here + 2) % 4294967296)), .sub]
      match evalOpt c nodes loc with
      | .error e => .error e
      | .ok (some v) =>
        if v.toInt < -128 ∨ v.toInt > 127 then .error ⟨.range, loc⟩
        else .ok ((), ops.setC s (c.push (lowByte v)))
      | .ok none =>
        .ok ((), ops.setC s ((c.addLink ⟨.signedByte, loc, c.dataLen, 1, nodes, none⟩).push 0))
    else
      match evalOpt c nodes loc with
      | .error e => .error e
      | .ok (some v) =>
        if which = "expect_immediate" then
          if u32 v > 255 then .error ⟨.range, loc⟩ else .ok ((), ops.setC s (c.push (lowByte v)))
        else if which = "expect_hmem_immediate" then
          if u32 v > 255 then
            if u32 v > 65535 then .error ⟨.range, loc⟩
            else if ¬ (0xFF00 ≤ v.toInt ∧ v.toInt ≤ 0xFFFF) then .error ⟨.range, loc⟩
            else .ok ((), ops.setC s (c.push (lowByte v)))
          else .ok ((), ops.setC s (c.push (lowByte v)))
        else if which = "expect_wide_immediate" then
          if u32 v > 65535 then .error ⟨.range, loc⟩
          else .ok ((), ops.setC s ((c.push (u32 v % 256)).push (u32 v / 256 % 256)))
        else .error ⟨.crash "unknown emitter", loc⟩
      | .ok none =>
        if which = "expect_wide_immediate" then
          .ok ((), ops.setC s (((c.addLink ⟨.word, loc, c.dataLen, 2, nodes, none⟩).push 0).push 0))
        else if which = "expect_hmem_immediate" then
          -- `(E >= $FF00 && E <= $FFFF) ? <E : E` resolved as a byte at link time
          let high := nodes ++ [.val 0xFF00, .ge] ++ nodes ++ [.val 0xFFFF, .le, .andLogical] ++
            nodes ++ [.lo] ++ nodes ++ [.ternary]
          .ok ((), ops.setC s ((c.addLink ⟨.byte, loc, c.dataLen, 1, high, none⟩).push 0))
        else
          .ok ((), ops.setC s ((c.addLink ⟨.byte, loc, c.dataLen, 1, nodes, none⟩).push 0))

/-- Outcome of a block: fall through with updated locals, or `return Ok(())`. -/
inductive Flow where
  | cont (l : Locals)
  | ret
  deriving Inhabited

/-- Rust block scoping: bindings made inside a nested block do not escape it. -/
def endScope {σ : Type} (l : Locals) (r : R σ Flow) : R σ Flow :=
  match r with
  | .error e => .error e
  | .ok (.ret, s) => .ok (.ret, s)
  | .ok (.cont _, s) => .ok (.cont l, s)

def setNth (l : List Nat) (i : Nat) (v : Nat) : List Nat :=
  match l, i with
  | [], _ => []
  | _ :: r, 0 => v :: r
  | a :: r, i + 1 => a :: setNth r i v

mutual
def execBlock (ops : TokOps σ) : Nat → List S → Locals → σ → R σ Flow
  | 0, _, _, s => .error ⟨.fuel, ops.loc s⟩
  | _ + 1, [], l, s => .ok (.cont l, s)
  | f + 1, st :: rest, l, s =>
    match execStmt ops f st l s with
    | .error e => .error e
    | .ok (.ret, s) => .ok (.ret, s)
    | .ok (.cont l, s) => execBlock ops f rest l s

def execStmt (ops : TokOps σ) : Nat → S → Locals → σ → R σ Flow
  | 0, _, _, s => .error ⟨.fuel, ops.loc s⟩
  | f + 1, st, l, s =>
    let crash (site : String) : R σ Flow := .error ⟨.crash site, ops.loc s⟩
    match st with
    | .next =>
      match ops.next s with
      | .error e => .error e
      | .ok (_, s) => .ok (.cont l, s)
    | .matchTok peek arms =>
      match (if peek then ops.peek s else ops.next s) with
      | .error e => .error e
      | .ok (t, s) =>
        match findArm arms t with
        | none => .error ⟨.crash "non-exhaustive match", ops.loc s⟩
        | some (b, bound) =>
          let l' := match bound with | some n => { l with name := some n } | none => l
          endScope l (execBlock ops f b l' s)
    | .matchName arms dflt =>
      match l.name with
      | none => crash "match name: unbound"
      | some n =>
        match arms.find? (·.1 == n) with
        | some (_, b) => endScope l (execBlock ops f b l s)
        | none => endScope l (execBlock ops f dflt l s)
    | .push e =>
      let c := ops.getC s
      match evalV l c.dataLen e with
      | none => crash "push: value"
      | some v => .ok (.cont l, ops.setC s (c.push (v % 256).toNat))
    | .pushWord e =>
      let c := ops.getC s
      match evalV l c.dataLen e with
      | none => crash "pushWord: value"
      | some v =>
        let w := (v % 65536).toNat
        .ok (.cont l, ops.setC s ((c.push (w % 256)).push (w / 256)))
    | .setData idx e =>
      let c := ops.getC s
      match evalV l c.dataLen idx, evalV l c.dataLen e with
      | some i, some v =>
        if i.toNat < c.dataLen then
          .ok (.cont l, ops.setC s { c with dataRev := (setNth c.dataRev.reverse i.toNat (v % 256).toNat).reverse })
        else crash "data index out of bounds"
      | _, _ => crash "setData: value"
    | .expectSym name =>
      match expectSymbol ops name s with
      | .error e => .error e
      | .ok (_, s) => .ok (.cont l, s)
    | .expectReg name =>
      match expectRegister ops name s with
      | .error e => .error e
      | .ok (_, s) => .ok (.cont l, s)
    | .call which =>
      match operandEmitter ops f which s with
      | .error e => .error e
      | .ok (_, s) => .ok (.cont l, s)
    | .parseExpr =>
      match parseExpr ops f s with
      | .error e => .error e
      | .ok (r, s) => .ok (.cont { l with expr := some r }, s)
    | .exprHereSub =>
      match l.expr with
      | none => crash "exprHereSub: no expr"
      | some (loc, nodes) =>
        let here := (ops.getC s).here
        .ok (.cont { l with expr := some (loc, nodes ++ [.val (i32OfNat ((here + 2) % 4294967296)), .sub]) }, s)
    | .ifSolved t e =>
      match l.expr with
      | none => crash "ifSolved: no expr"
      | some (loc, nodes) =>
        match evalOpt (ops.getC s) nodes loc with
        | .error er => .error er
        | .ok (some v) => endScope l (execBlock ops f t (l.setInt "value" v.toInt) s)
        | .ok none => endScope l (execBlock ops f e l s)
    | .letIfSolved x t tv e ev =>
      match l.expr with
      | none => crash "letIfSolved: no expr"
      | some (loc, nodes) =>
        match evalOpt (ops.getC s) nodes loc with
        | .error er => .error er
        | .ok (some v) =>
          match execBlock ops f t (l.setInt "value" v.toInt) s with
          | .error er => .error er
          | .ok (.ret, s) => .ok (.ret, s)
          | .ok (.cont l', s) =>
            match evalV l' (ops.getC s).dataLen tv with
            | none => crash "letIfSolved: tail"
            | some r => .ok (.cont (l.setInt x r), s)
        | .ok none =>
          match execBlock ops f e l s with
          | .error er => .error er
          | .ok (.ret, s) => .ok (.ret, s)
          | .ok (.cont l', s) =>
            match evalV l' (ops.getC s).dataLen ev with
            | none => crash "letIfSolved: tail"
            | some r => .ok (.cont (l.setInt x r), s)
    | .constExpr t e =>
      match constExpr ops f s with
      | .error er => .error er
      | .ok ((loc, some v), s) =>
        endScope l (execBlock ops f t ({ l with expr := some (loc, []) }.setInt "value" v.toInt) s)
      | .ok ((loc, none), s) => endScope l (execBlock ops f e { l with expr := some (loc, []) } s)
    | .ite c t e =>
      match evalC l (ops.getC s).dataLen c with
      | none => crash "ite: condition"
      | some true => endScope l (execBlock ops f t l s)
      | some false => endScope l (execBlock ops f e l s)
    | .letV x e =>
      match evalV l (ops.getC s).dataLen e with
      | none => crash "letV: value"
      | some v => .ok (.cont (l.setInt x v), s)
    | .letMatch x e arms dflt =>
      match evalV l (ops.getC s).dataLen e with
      | none => crash "letMatch: value"
      | some v =>
        match arms.find? (·.1 == v) with
        | some (_, r) => .ok (.cont (l.setInt x r), s)
        | none => endScope l (execBlock ops f dflt l s)
    | .letPeek x p =>
      match ops.peek s with
      | .error e => .error e
      | .ok (t, s) => .ok (.cont (l.setBool x (matchPat p t).isSome), s)
    | .itePeekSym name t e =>
      match peekedSymbol ops name s with
      | .error er => .error er
      | .ok (true, s) => endScope l (execBlock ops f t l s)
      | .ok (false, s) => endScope l (execBlock ops f e l s)
    | .letPeekSym x name t e tv ev =>
      match peekedSymbol ops name s with
      | .error er => .error er
      | .ok (true, s) =>
        match execBlock ops f t l s with
        | .error er => .error er
        | .ok (.ret, s) => .ok (.ret, s)
        | .ok (.cont _, s) => .ok (.cont (l.setBool x tv), s)
      | .ok (false, s) =>
        match execBlock ops f e l s with
        | .error er => .error er
        | .ok (.ret, s) => .ok (.ret, s)
        | .ok (.cont _, s) => .ok (.cont (l.setBool x ev), s)
    | .link kind off =>
      match l.expr, linkKindOf kind with
      | some (loc, nodes), some (k, len) =>
        let c := ops.getC s
        match evalV l c.dataLen off with
        | none => crash "link: offset"
        | some o => .ok (.cont l, ops.setC s (c.addLink ⟨k, loc, o.toNat, len, nodes, none⟩))
      | _, _ => crash "link: no expr / kind"
    | .err cls =>
      -- location: that of the expression if one is in scope, else the current token's
      .error ⟨errKindOf cls, match l.expr with | some (loc, _) => loc | none => ops.loc s⟩
    | .eoiErr => .error ⟨.eoi, ops.loc s⟩
    | .retOk => .ok (.ret, s)
    | .unknown t => crash ("untranslated construct: " ++ t)
end

/-- `<Z as ArchAssembler>::parse(self, name)` for one mnemonic arm. -/
def execArm (ops : TokOps σ) (fuel : Nat) (body : Block) (s : σ) : R σ Unit :=
  match execBlock ops fuel body {} s with
  | .error e => .error e
  | .ok (_, s) => .ok ((), s)

end Az65

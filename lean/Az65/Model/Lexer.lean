import Az65.Basic
/-
Model of `src/lexer.rs` (`impl Iterator for Lexer`): the character-level state machine with its
line/column bookkeeping (`loc`, `tok_loc`), one-character `stash`, the end-of-input flush (one
pretended `\n`) and the name tables, which are parameters (regenerated from the source by the
translator: `Az65/Gen/Names.lean`).
-/
namespace Az65

inductive LabelKind where
  | global | loc | direct
  deriving Repr, DecidableEq, Inhabited

/-- Tokens.  Operation / register / flag / directive / symbol names are the Rust enum variant
identifiers (`"Adc"`, `"AFPrime"`, `"Org"`, `"ParenOpen"`). -/
inductive Tok where
  | comment
  | newline
  | str (s : String)
  | num (v : Nat)
  | op (n : String)
  | dir (n : String)
  | reg (n : String)
  | flag (n : String)
  | sym (n : String)
  | label (k : LabelKind) (s : String)
  deriving Repr, DecidableEq, Inhabited

structure Loc where
  file : Nat := 0
  line : Nat := 1
  col : Nat := 0
  deriving Repr, DecidableEq, Inhabited

structure LTok where
  tok : Tok
  loc : Loc
  deriving Repr, DecidableEq, Inhabited

/-- Name tables of one CPU plus the shared ones. -/
structure LexTables where
  ops : List (String × String)
  regs : List (String × String)
  flags : List (String × String)
  directives : List (String × String)
  symbols : List (String × String)
  valueTerminators : List Nat
  symbolStarts : List Nat
  deriving Repr, Inhabited

/-- Error classes of `LexerError`. -/
inductive LexErrKind where
  | read (io : Bool)           -- ReadError (io = true: I/O, false: invalid UTF-8)
  | lineBreak | escape | charLit | bin | dec | hex | input | directive | label
  /-- a Rust panic site (never a legal outcome) -/
  | crash (site : String)
  deriving Repr, DecidableEq, Inhabited

structure LexErr where
  kind : LexErrKind
  loc : Loc
  deriving Repr, DecidableEq, Inhabited

/-- How the character stream ends (from the `CharReader` model). -/
inductive StreamEnd where
  | eof | utf8 | io
  deriving Repr, DecidableEq, Inhabited

/-! ### character classes -/

/-- Rust `char::is_whitespace` (Unicode `White_Space`). -/
def isWs (c : Char) : Bool :=
  let n := c.toNat
  n == 0x20 || (0x09 ≤ n && n ≤ 0x0D) || n == 0x85 || n == 0xA0 || n == 0x1680 ||
  (0x2000 ≤ n && n ≤ 0x200A) || n == 0x2028 || n == 0x2029 || n == 0x202F || n == 0x205F || n == 0x3000

/-- Rust `char::is_alphanumeric`, exact on ASCII; above ASCII the model knows the letter and
digit ranges of Latin-1, Latin Extended-A/B, Greek, Cyrillic, Hebrew, Arabic letters, Hiragana,
Katakana and CJK ideographs (the std table is trusted; generators stay inside these ranges). -/
def isAlnum (c : Char) : Bool :=
  let n := c.toNat
  (0x30 ≤ n && n ≤ 0x39) || (0x41 ≤ n && n ≤ 0x5A) || (0x61 ≤ n && n ≤ 0x7A) ||
  n == 0xAA || n == 0xB2 || n == 0xB3 || n == 0xB5 || n == 0xB9 || n == 0xBA ||
  (0xBC ≤ n && n ≤ 0xBE) ||
  (0xC0 ≤ n && n ≤ 0xD6) || (0xD8 ≤ n && n ≤ 0xF6) || (0xF8 ≤ n && n ≤ 0x2C1) ||
  (0x370 ≤ n && n ≤ 0x373) || (0x386 ≤ n && n ≤ 0x3FF && n != 0x387 && n != 0x38B && n != 0x38D && n != 0x3A2 && n != 0x3F6) ||
  (0x400 ≤ n && n ≤ 0x481) || (0x48A ≤ n && n ≤ 0x52F) ||
  (0x5D0 ≤ n && n ≤ 0x5EA) || (0x620 ≤ n && n ≤ 0x64A) ||
  (0x3041 ≤ n && n ≤ 0x3096) || (0x30A1 ≤ n && n ≤ 0x30FA) ||
  (0x4E00 ≤ n && n ≤ 0x9FFF)

def isIdentChar (c : Char) : Bool := isAlnum c || c == '_' || c == '.'
def isHexDigit (c : Char) : Bool :=
  ('0' ≤ c && c ≤ '9') || ('a' ≤ c && c ≤ 'f') || ('A' ≤ c && c ≤ 'F')
def toAsciiLower (c : Char) : Char := if 'A' ≤ c && c ≤ 'Z' then Char.ofNat (c.toNat + 32) else c

def lookupName (tbl : List (String × String)) (s : String) : Option String :=
  match tbl with
  | [] => none
  | (k, v) :: r => if k = s then some v else lookupName r s

/-! ### numbers -/

def digitVal (c : Char) : Nat :=
  if '0' ≤ c && c ≤ '9' then c.toNat - 48
  else if 'a' ≤ c && c ≤ 'f' then c.toNat - 87
  else if 'A' ≤ c && c ≤ 'F' then c.toNat - 55
  else 0

/-- `u32::from_str_radix(buffer, radix)` on a buffer that holds only digits of that radix:
`none` on an empty buffer or on overflow. -/
def parseU32 (radix : Nat) (digits : List Char) : Option Nat :=
  if digits.isEmpty then none else
  let v := digits.foldl (fun acc c => acc * radix + digitVal c) 0
  if v < 4294967296 then some v else none

/-- Little-endian `u32` of up to four bytes (character literals). -/
def leU32 (bs : List Nat) : Nat :=
  bs.foldr (fun b acc => b + 256 * acc) 0

def utf8OfChars (cs : List Char) : List Nat := cs.flatMap fun c => utf8EncodeChar c.toNat

/-! ### the state machine -/

inductive LState where
  | initial | inComment | inString | inStringEscape | inHexStringEscape1 | inHexStringEscape2
  | inChar | inCharEscape | inHexCharEscape1 | inHexCharEscape2
  | inNumber2 | inNumber10 | inNumber16 | inSymbol | inShiftSymbol | inIdentifier | inDirective
  deriving Repr, DecidableEq, Inhabited

structure Lexer where
  input : List Char
  ending : StreamEnd
  loc : Loc
  tokLoc : Loc
  stash : Option Char := none
  state : LState := .initial
  /-- the token buffer, in order -/
  buf : List Char := []
  eof : Bool := false
  deriving Repr, Inhabited

def Lexer.new (file : Nat) (input : List Char) (ending : StreamEnd := .eof) : Lexer :=
  { input := input, ending := ending, loc := { file := file, line := 1, col := 0 },
    tokLoc := { file := file, line := 1, col := 0 } }

inductive LexOut where
  | tok (t : LTok) (lx : Lexer)
  | err (e : LexErr) (lx : Lexer)
  | done (lx : Lexer)
  | more (lx : Lexer)             -- `continue` of the loop

def labelOf (buf : List Char) (loc : Loc) : Except LexErr LTok :=
  let s := String.ofList buf
  match (buf.filter (· == '.')).length with
  | 0 => .ok ⟨.label .global s, loc⟩
  | 1 => if buf.head? == some '.' then .ok ⟨.label .loc s, loc⟩ else .ok ⟨.label .direct s, loc⟩
  | _ => .error ⟨.label, loc⟩

def escapeChar (c : Char) : Option Char :=
  match c with
  | 'n' => some '\n' | 'r' => some '\r' | 't' => some '\t' | '\\' => some '\\'
  | '0' => some (Char.ofNat 0) | '"' => some '"'
  | _ => none

/-- One iteration of the `loop` in `Lexer::next`, given the character `c` to process. -/
def lexChar (T : LexTables) (lx : Lexer) (c : Char) : LexOut :=
  let isTerm (c : Char) : Bool := isWs c || T.valueTerminators.contains c.toNat
  match lx.state with
  | .initial =>
    if c == '\n' then .tok ⟨.newline, lx.loc⟩ lx
    else if isWs c then .more lx
    else if c == ';' then .more { lx with state := .inComment, tokLoc := lx.loc }
    else if c == '"' then .more { lx with state := .inString, tokLoc := lx.loc, buf := [] }
    else if c == '\'' then .more { lx with state := .inChar, tokLoc := lx.loc, buf := [] }
    else if c == '%' then .more { lx with state := .inNumber2, tokLoc := lx.loc, buf := [] }
    else if '0' ≤ c && c ≤ '9' then .more { lx with state := .inNumber10, tokLoc := lx.loc, buf := [c] }
    else if c == '$' then .more { lx with state := .inNumber16, tokLoc := lx.loc, buf := [] }
    else if T.symbolStarts.contains c.toNat then
      .more { lx with state := .inSymbol, tokLoc := lx.loc, buf := [c] }
    else if c == '@' then .more { lx with state := .inDirective, tokLoc := lx.loc, buf := [c] }
    else if isIdentChar c then .more { lx with state := .inIdentifier, tokLoc := lx.loc, buf := [c] }
    else .err ⟨.input, lx.loc⟩ lx
  | .inComment =>
    if c == '\n' then .tok ⟨.comment, lx.tokLoc⟩ { lx with state := .initial, stash := some c }
    else .more lx
  | .inString =>
    if c == '\n' then .err ⟨.lineBreak, lx.loc⟩ lx
    else if c == '"' then .tok ⟨.str (String.ofList lx.buf), lx.tokLoc⟩ { lx with state := .initial }
    else if c == '\\' then .more { lx with state := .inStringEscape }
    else .more { lx with buf := lx.buf ++ [c] }
  | .inStringEscape =>
    if c == '\n' then .more { lx with state := .inString }
    else if c == '$' then .more { lx with state := .inHexStringEscape1 }
    else match escapeChar c with
      | some e => .more { lx with state := .inString, buf := lx.buf ++ [e] }
      | none => .err ⟨.escape, lx.loc⟩ lx
  | .inHexStringEscape1 =>
    if c == '\n' then .err ⟨.lineBreak, lx.loc⟩ lx
    else if isHexDigit c then .more { lx with state := .inHexStringEscape2, buf := lx.buf ++ [toAsciiLower c] }
    else .err ⟨.escape, lx.loc⟩ lx
  | .inHexStringEscape2 =>
    if c == '\n' then .err ⟨.lineBreak, lx.loc⟩ lx
    else if isHexDigit c then
      -- the two digits are replaced by `byte as char` (a code point 0..255)
      let hi := digitVal (lx.buf.getLast?.getD '0')
      let byte := 16 * hi + digitVal c
      .more { lx with state := .inString, buf := lx.buf.dropLast ++ [Char.ofNat byte] }
    else .err ⟨.escape, lx.tokLoc⟩ lx
  | .inChar =>
    if c == '\n' then .err ⟨.lineBreak, lx.loc⟩ lx
    else if c == '\'' then
      let bytes := utf8OfChars lx.buf
      if bytes.length == 0 then .err ⟨.charLit, lx.tokLoc⟩ { lx with state := .initial }
      else if bytes.length > 4 then .err ⟨.charLit, lx.tokLoc⟩ { lx with state := .initial }
      else .tok ⟨.num (leU32 bytes), lx.tokLoc⟩ { lx with state := .initial }
    else if c == '\\' then .more { lx with state := .inCharEscape }
    else .more { lx with buf := lx.buf ++ [c] }
  | .inCharEscape =>
    if c == '\n' then .more { lx with state := .inChar }
    else if c == '$' then .more { lx with state := .inHexCharEscape1 }
    else match escapeChar c with
      | some e => .more { lx with state := .inChar, buf := lx.buf ++ [e] }
      | none => .err ⟨.escape, lx.loc⟩ lx
  | .inHexCharEscape1 =>
    if c == '\n' then .err ⟨.lineBreak, lx.loc⟩ lx
    else if isHexDigit c then .more { lx with state := .inHexCharEscape2, buf := lx.buf ++ [toAsciiLower c] }
    else .err ⟨.escape, lx.loc⟩ lx
  | .inHexCharEscape2 =>
    if c == '\n' then .err ⟨.lineBreak, lx.loc⟩ lx
    else if isHexDigit c then
      let hi := digitVal (lx.buf.getLast?.getD '0')
      let byte := 16 * hi + digitVal c
      .more { lx with state := .inChar, buf := lx.buf.dropLast ++ [Char.ofNat byte] }
    else .err ⟨.escape, lx.tokLoc⟩ lx
  | .inNumber2 =>
    if isTerm c then
      let lx' := { lx with state := .initial, stash := some c }
      if lx.buf.isEmpty then .tok ⟨.sym "Mod", lx.tokLoc⟩ lx'
      else match parseU32 2 lx.buf with
        | some v => .tok ⟨.num v, lx.tokLoc⟩ lx'
        | none => .err ⟨.bin, lx.tokLoc⟩ lx'
    else if c == '0' || c == '1' then .more { lx with buf := lx.buf ++ [c] }
    else .err ⟨.bin, lx.tokLoc⟩ lx
  | .inNumber10 =>
    if isTerm c then
      let lx' := { lx with state := .initial, stash := some c }
      match parseU32 10 lx.buf with
      | some v => .tok ⟨.num v, lx.tokLoc⟩ lx'
      | none => .err ⟨.dec, lx.tokLoc⟩ lx'
    else if '0' ≤ c && c ≤ '9' then .more { lx with buf := lx.buf ++ [c] }
    else .err ⟨.dec, lx.tokLoc⟩ lx
  | .inNumber16 =>
    if isTerm c then
      let lx' := { lx with state := .initial, stash := some c }
      match parseU32 16 lx.buf with
      | some v => .tok ⟨.num v, lx.tokLoc⟩ lx'
      | none => .err ⟨.hex, lx.tokLoc⟩ lx'
    else if isHexDigit c then .more { lx with buf := lx.buf ++ [toAsciiLower c] }
    else .err ⟨.hex, lx.tokLoc⟩ lx
  | .inSymbol =>
    let two := lx.buf ++ [c]
    match lookupName T.symbols (String.ofList two) with
    | some name =>
      if name == "ShiftLeft" || name == "ShiftRight" then
        .more { lx with state := .inShiftSymbol, buf := two }
      else .tok ⟨.sym name, lx.tokLoc⟩ { lx with state := .initial, buf := two }
    | none =>
      -- one character; stash the other
      match lookupName T.symbols (String.ofList lx.buf) with
      | some name => .tok ⟨.sym name, lx.tokLoc⟩ { lx with state := .initial, stash := some c }
      | none => .err ⟨.input, lx.tokLoc⟩ { lx with state := .initial, stash := some c }
  | .inShiftSymbol =>
    let three := lx.buf ++ [c]
    match lookupName T.symbols (String.ofList three) with
    | some name => .tok ⟨.sym name, lx.tokLoc⟩ { lx with state := .initial, buf := three }
    | none =>
      match lookupName T.symbols (String.ofList lx.buf) with
      | some name => .tok ⟨.sym name, lx.tokLoc⟩ { lx with state := .initial, stash := some c }
      | none => .err ⟨.crash "lexer.rs InShiftSymbol unwrap", lx.tokLoc⟩ lx
  | .inDirective =>
    if isAlnum c || c == '_' then .more { lx with buf := lx.buf ++ [c] }
    else
      let lx' := { lx with state := .initial, stash := some c }
      match lookupName T.directives (String.ofList lx.buf) with
      | some name => .tok ⟨.dir name, lx.tokLoc⟩ lx'
      | none => .err ⟨.directive, lx.tokLoc⟩ lx'
  | .inIdentifier =>
    if isIdentChar c then .more { lx with buf := lx.buf ++ [c] }
    else
      let lx' := { lx with state := .initial, stash := some c }
      let s := String.ofList lx.buf
      match lookupName T.ops s with
      | some name => .tok ⟨.op name, lx.tokLoc⟩ lx'
      | none =>
        match lookupName T.regs s with
        | some name =>
          -- the `af'` hack
          if c == '\'' then
            match lookupName T.regs (String.ofList (lx.buf ++ [c])) with
            | some name' => .tok ⟨.reg name', lx.tokLoc⟩ { lx' with stash := none, buf := lx.buf ++ [c] }
            | none => .tok ⟨.reg name, lx.tokLoc⟩ lx'
          else .tok ⟨.reg name, lx.tokLoc⟩ lx'
        | none =>
          match lookupName T.flags s with
          | some name => .tok ⟨.flag name, lx.tokLoc⟩ lx'
          | none =>
            match labelOf lx.buf lx.tokLoc with
            | .ok t => .tok t lx'
            | .error e => .err e lx'

/-- Fetch the next character (stash first; at end of input pretend one `\n` once) and process it. -/
def lexStep (T : LexTables) (lx : Lexer) : LexOut :=
  match lx.stash with
  | some c => lexChar T { lx with stash := none } c
  | none =>
    match lx.input with
    | c :: rest =>
      let loc := if c == '\n' then { lx.loc with line := lx.loc.line + 1, col := 0 }
                 else { lx.loc with col := lx.loc.col + 1 }
      lexChar T { lx with input := rest, loc := loc } c
    | [] =>
      match lx.ending with
      | .eof =>
        if lx.eof then .done lx
        else
          let loc := { lx.loc with line := lx.loc.line + 1, col := 0 }
          lexChar T { lx with eof := true, loc := loc } '\n'
      | .utf8 => .err ⟨.read false, lx.loc⟩ lx
      | .io => .err ⟨.read true, lx.loc⟩ lx

/-- `Lexer::next`: run the loop until it returns. -/
def Lexer.next (T : LexTables) : Nat → Lexer → LexOut
  | 0, lx => .done lx
  | f + 1, lx =>
    match lexStep T lx with
    | .more lx' => Lexer.next T f lx'
    | out => out

/-- Fuel that always suffices for one `next`: every iteration consumes the stash or a character. -/
def Lexer.fuel (lx : Lexer) : Nat := 2 * lx.input.length + 8

/-- All tokens of an input (stops at the first error). -/
def lexAll (T : LexTables) : Nat → Lexer → List LTok × Option LexErr
  | 0, _ => ([], none)
  | f + 1, lx =>
    match Lexer.next T lx.fuel lx with
    | .tok t lx' => let (ts, e) := lexAll T f lx'; (t :: ts, e)
    | .err e _ => ([], some e)
    | .done _ => ([], none)
    | .more _ => ([], none)

end Az65

import Az65.Model.Interp
/-
The plain token supply: a token list with no macro expansion (`peek` = head, `next` = pop).
Used to state theorems about the expression ladder and the decision trees, and as the reference
instance that the pump refines when no macro or macro-like directive is involved.
-/
namespace Az65

structure PlainSt where
  toks : List LTok
  core : CoreSt := {}
  /-- location reported by `self.loc()` -/
  cur : Loc := {}
  deriving Repr, Inhabited

def plainOps : TokOps PlainSt where
  peek s := .ok (s.toks.head?, match s.toks with | t :: _ => { s with cur := t.loc } | [] => s)
  next s := .ok (s.toks.head?, match s.toks with | t :: r => { s with toks := r, cur := t.loc } | [] => s)
  loc s := s.cur
  getC s := s.core
  setC s c := { s with core := c }

end Az65

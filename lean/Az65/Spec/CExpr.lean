import Az65.Model.Expr
/-
Spec for C04: expression trees and their value under C semantics over 32-bit two's-complement
integers with wrapping overflow, stated on `Int` (not on bit-vectors), written from the C standard
and the documented additions, not from `expr.rs`.
-/
namespace Az65.Spec

inductive UnOp where
  | neg | pos | lnot | bnot | lo | hi
  deriving Repr, DecidableEq

inductive BinOp where
  | lor | land | bor | bxor | band | eq | ne | lt | le | gt | ge
  | shl | shr | shll | shrl | add | sub | mul | div | rem
  deriving Repr, DecidableEq

inductive CExpr where
  | num (v : Int)
  | sym (n : String)
  | sizeOf (n : String)
  | un (o : UnOp) (e : CExpr)
  | bin (o : BinOp) (l r : CExpr)
  | tern (c a b : CExpr)
  deriving Repr

/-- Two's-complement wrap of an integer into `-2^31 .. 2^31-1`. -/
def wrap (x : Int) : Int := x.bmod (2 ^ 32)

/-- Unsigned 32-bit view of an integer. -/
def u32 (x : Int) : Nat := (x % 2 ^ 32).toNat

def ofBool (b : Bool) : Int := if b then 1 else 0

/-- Shift count: C leaves counts outside `0..31` undefined; the documented behaviour (Rust's
`wrapping_sh*`) takes the count modulo 32 of its unsigned view. -/
def shCount (b : Int) : Nat := u32 b % 32

def unSem : UnOp → Int → Int
  | .neg, a => wrap (-a)
  | .pos, a => a
  | .lnot, a => ofBool (a = 0)
  | .bnot, a => -a - 1
  | .lo, a => a % 256
  | .hi, a => (a / 256) % 256

/-- `none`: division or remainder by zero ("could not be solved" diagnostic). -/
def binSem : BinOp → Int → Int → Option Int
  | .lor, a, b => some (ofBool (a ≠ 0 ∨ b ≠ 0))
  | .land, a, b => some (ofBool (a ≠ 0 ∧ b ≠ 0))
  | .bor, a, b => some (wrap (u32 a ||| u32 b : Nat))
  | .bxor, a, b => some (wrap (u32 a ^^^ u32 b : Nat))
  | .band, a, b => some (wrap (u32 a &&& u32 b : Nat))
  | .eq, a, b => some (ofBool (a = b))
  | .ne, a, b => some (ofBool (a ≠ b))
  | .lt, a, b => some (ofBool (a < b))
  | .le, a, b => some (ofBool (a ≤ b))
  | .gt, a, b => some (ofBool (a > b))
  | .ge, a, b => some (ofBool (a ≥ b))
  | .shl, a, b => some (wrap (a * 2 ^ shCount b))
  | .shr, a, b => some (a / 2 ^ shCount b)              -- arithmetic: floor division
  | .shll, a, b => some (wrap (a * 2 ^ shCount b))
  | .shrl, a, b => some (wrap (u32 a / 2 ^ shCount b : Nat))
  | .add, a, b => some (wrap (a + b))
  | .sub, a, b => some (wrap (a - b))
  | .mul, a, b => some (wrap (a * b))
  | .div, a, b => if b = 0 then none else some (wrap (Int.tdiv a b))
  | .rem, a, b => if b = 0 then none else some (Int.tmod a b)

/-- Valuation of names: `val` for plain symbols, `size` for `@sizeof`. -/
structure Valuation where
  val : String → Option Int
  size : String → Option Int

/-- Value of a tree; strict in every operand (no short-circuit: an unsolvable operand makes the
whole expression unsolvable, which the assembler reports as a diagnostic). -/
def denote (σ : Valuation) : CExpr → Option Int
  | .num v => some (wrap v)
  | .sym n => σ.val n
  | .sizeOf n => σ.size n
  | .un o e => (denote σ e).map (unSem o)
  | .bin o l r =>
    match denote σ l, denote σ r with
    | some a, some b => binSem o a b
    | _, _ => none
  | .tern c a b =>
    match denote σ c, denote σ a, denote σ b with
    | some vc, some va, some vb => some (if vc ≠ 0 then va else vb)
    | _, _, _ => none

/-! ### postfix compilation (what the parser must produce for a tree) -/

def UnOp.node : UnOp → Option Node
  | .neg => some .neg
  | .pos => none                -- unary plus emits nothing
  | .lnot => some .notLogical
  | .bnot => some .invert
  | .lo => some .lo
  | .hi => some .hi

def BinOp.node : BinOp → Node
  | .lor => .orLogical | .land => .andLogical | .bor => .or | .bxor => .xor | .band => .and
  | .eq => .eq | .ne => .ne | .lt => .lt | .le => .le | .gt => .gt | .ge => .ge
  | .shl => .shl | .shr => .shr | .shll => .shll | .shrl => .shrl
  | .add => .add | .sub => .sub | .mul => .mul | .div => .div | .rem => .rem

def compile : CExpr → List Node
  | .num v => [.val (BitVec.ofInt 32 v)]
  | .sym n => [.label n]
  | .sizeOf n => [.sizeOf n]
  | .un o e => compile e ++ (match o.node with | some n => [n] | none => [])
  | .bin o l r => compile l ++ compile r ++ [o.node]
  | .tern c a b => compile c ++ compile a ++ compile b ++ [.ternary]

end Az65.Spec

import Az65.Spec.Opnd
/-
Spec for C02: the SM83 (Game Boy LR35902) instruction set.

Written from the LR35902 opcode map, i.e. the Z80 `x/y/z` decomposition of the opcode byte
(`x = op / 64`, `y = op / 8 % 8`, `z = op % 8`, `p = y / 2`, `q = y % 2`) with the Game Boy
replacements (`ld (nn),sp`, `stop`, `ldh`, `ld (c),a`, `add sp,e`, `ld hl,sp+e`, `(hl+)`/`(hl-)`,
`ld (nn),a`, `reti`, `swap`), no `DD/ED/FD` prefixes and the 11 unprefixed holes
`D3 DB DD E3 E4 EB EC ED F4 FC FD`.  Nothing here is taken from the assembler's opcode literals.

Bytes are `Nat`s, operand values are `Int`s exactly as written in the source.
-/
set_option linter.constructorNameAsVariable false

namespace Az65.Spec.Sm83
open Az65.Spec

/-! ### operand classes -/

/-- 8-bit operand table `r[z]` / `r[y]`: `b c d e h l (hl) a`. -/
inductive R8 where
  | b | c | d | e | h | l | hlInd | a
  deriving Repr, DecidableEq

/-- 16-bit register-pair table `rp[p]`: `bc de hl sp`. -/
inductive R16 where
  | bc | de | hl | sp
  deriving Repr, DecidableEq

/-- Register-pair table of `push`/`pop`, `rp2[p]`: `bc de hl af`. -/
inductive R16s where
  | bc | de | hl | af
  deriving Repr, DecidableEq

/-- Pointer operands of the accumulator loads `02/12/22/32` and `0A/1A/2A/3A`:
`(bc) (de) (hl+) (hl-)`. -/
inductive IndA where
  | bc | de | hlInc | hlDec
  deriving Repr, DecidableEq

/-- Condition table `cc[y]`: `nz z nc c`. -/
inductive Cond where
  | nz | z | nc | c
  deriving Repr, DecidableEq

/-- ALU table `alu[y]`: `add adc sub sbc and xor or cp`. -/
inductive Alu where
  | add | adc | sub | sbc | and | xor | or | cp
  deriving Repr, DecidableEq

/-- CB-prefixed rotate/shift table `rot[y]`: `rlc rrc rl rr sla sra swap srl`. -/
inductive Rot where
  | rlc | rrc | rl | rr | sla | sra | swap | srl
  deriving Repr, DecidableEq

/-- One SM83 instruction with its operands as written.  244 unprefixed + 256 CB opcodes. -/
inductive Instr where
  -- x = 0
  | nop                                  -- 00
  | ldNNSp (nn : Int)                    -- 08 lo hi     ld (nn),sp
  | stop                                 -- 10 00
  | jr (target : Int)                    -- 18 d
  | jrCc (c : Cond) (target : Int)       -- 20+8c d
  | ldRpNN (rp : R16) (nn : Int)         -- 01+16p lo hi
  | addHl (rp : R16)                     -- 09+16p
  | ldIndA (p : IndA)                    -- 02+16p       ld (bc)/(de)/(hl+)/(hl-),a
  | ldAInd (p : IndA)                    -- 0A+16p       ld a,(bc)/(de)/(hl+)/(hl-)
  | incRp (rp : R16)                     -- 03+16p
  | decRp (rp : R16)                     -- 0B+16p
  | inc (r : R8)                         -- 04+8y
  | dec (r : R8)                         -- 05+8y
  | ldRN (r : R8) (n : Int)              -- 06+8y n
  | rlca | rrca | rla | rra | daa | cpl | scf | ccf   -- 07+8y
  -- x = 1
  | halt                                 -- 76 00
  | ldRR (d s : R8)                      -- 40+8y+z      (not `(hl),(hl)`)
  -- x = 2
  | alu (op : Alu) (r : R8)              -- 80+8y+z
  -- x = 3
  | retCc (c : Cond)                     -- C0+8c
  | ldhNA (n : Int)                      -- E0 n         ldh (n),a
  | addSp (e : Int)                      -- E8 e
  | ldhAN (n : Int)                      -- F0 n         ldh a,(n)
  | ldHlSp (e : Int)                     -- F8 e         ld hl,sp+e
  | pop (q : R16s)                       -- C1+16p
  | ret                                  -- C9
  | reti                                 -- D9
  | jpHl                                 -- E9
  | ldSpHl                               -- F9
  | jpCc (c : Cond) (nn : Int)           -- C2+8c lo hi
  | ldCA                                 -- E2           ld (c),a
  | ldNNA (nn : Int)                     -- EA lo hi     ld (nn),a
  | ldAC                                 -- F2           ld a,(c)
  | ldANN (nn : Int)                     -- FA lo hi     ld a,(nn)
  | jp (nn : Int)                        -- C3 lo hi
  | di                                   -- F3
  | ei                                   -- FB
  | callCc (c : Cond) (nn : Int)         -- C4+8c lo hi
  | push (q : R16s)                      -- C5+16p
  | call (nn : Int)                      -- CD lo hi
  | aluN (op : Alu) (n : Int)            -- C6+8y n
  | rst (target : Int)                   -- C7+target
  -- CB prefix
  | rot (op : Rot) (r : R8)              -- CB 00+8y+z
  | bit (b : Int) (r : R8)               -- CB 40+8b+z
  | res (b : Int) (r : R8)               -- CB 80+8b+z
  | set (b : Int) (r : R8)               -- CB C0+8b+z
  deriving Repr, DecidableEq

/-! ### table indices -/

def R8.idx : R8 → Nat
  | .b => 0 | .c => 1 | .d => 2 | .e => 3 | .h => 4 | .l => 5 | .hlInd => 6 | .a => 7
def R8.ofIdx : Nat → R8
  | 0 => .b | 1 => .c | 2 => .d | 3 => .e | 4 => .h | 5 => .l | 6 => .hlInd | _ => .a

def R16.idx : R16 → Nat
  | .bc => 0 | .de => 1 | .hl => 2 | .sp => 3
def R16.ofIdx : Nat → R16
  | 0 => .bc | 1 => .de | 2 => .hl | _ => .sp

def R16s.idx : R16s → Nat
  | .bc => 0 | .de => 1 | .hl => 2 | .af => 3
def R16s.ofIdx : Nat → R16s
  | 0 => .bc | 1 => .de | 2 => .hl | _ => .af

def IndA.idx : IndA → Nat
  | .bc => 0 | .de => 1 | .hlInc => 2 | .hlDec => 3
def IndA.ofIdx : Nat → IndA
  | 0 => .bc | 1 => .de | 2 => .hlInc | _ => .hlDec

def Cond.idx : Cond → Nat
  | .nz => 0 | .z => 1 | .nc => 2 | .c => 3
def Cond.ofIdx : Nat → Cond
  | 0 => .nz | 1 => .z | 2 => .nc | _ => .c

def Alu.idx : Alu → Nat
  | .add => 0 | .adc => 1 | .sub => 2 | .sbc => 3 | .and => 4 | .xor => 5 | .or => 6 | .cp => 7
def Alu.ofIdx : Nat → Alu
  | 0 => .add | 1 => .adc | 2 => .sub | 3 => .sbc | 4 => .and | 5 => .xor | 6 => .or | _ => .cp

def Rot.idx : Rot → Nat
  | .rlc => 0 | .rrc => 1 | .rl => 2 | .rr => 3 | .sla => 4 | .sra => 5 | .swap => 6 | .srl => 7
def Rot.ofIdx : Nat → Rot
  | 0 => .rlc | 1 => .rrc | 2 => .rl | 3 => .rr | 4 => .sla | 5 => .sra | 6 => .swap | _ => .srl

/-! ### well-formedness -/

/-- `0 ≤ v ≤ 255`. -/
def isByte (v : Int) : Bool := decide (0 ≤ v) && decide (v ≤ 255)
/-- `0 ≤ v ≤ 65535`. -/
def isWord (v : Int) : Bool := decide (0 ≤ v) && decide (v ≤ 65535)
/-- High-page operand of `ldh`: an offset `0..$FF` or a full address `$FF00..$FFFF`. -/
def isHigh (v : Int) : Bool := isByte v || (decide (0xFF00 ≤ v) && decide (v ≤ 0xFFFF))
/-- Bit number `0..7`. -/
def isBit (v : Int) : Bool := decide (0 ≤ v) && decide (v ≤ 7)
/-- Restart vector: one of `0, 8, …, $38`. -/
def isRst (v : Int) : Bool := decide (0 ≤ v) && decide (v ≤ 0x38) && decide (v % 8 = 0)
/-- Relative-jump distance from the end of the 2-byte instruction at `pc` to `target`. -/
def jrDist (pc : Nat) (target : Int) : Int := target - ((pc : Int) + 2)
/-- `-128 ≤ target - (pc+2) ≤ 127`. -/
def isRel (pc : Nat) (target : Int) : Bool :=
  decide (-128 ≤ jrDist pc target) && decide (jrDist pc target ≤ 127)

/-- Is the instruction (located at `pc`) encodable: every operand in range, and it is an
instruction at all (`ld (hl),(hl)` is not: its slot `76` is `halt`). -/
def wf (pc : Nat) : Instr → Bool
  | .ldNNSp nn | .ldRpNN _ nn | .jpCc _ nn | .ldNNA nn | .ldANN nn | .jp nn | .callCc _ nn
  | .call nn => isWord nn
  | .jr t | .jrCc _ t => isRel pc t
  | .ldRN _ n | .aluN _ n => isByte n
  | .addSp e | .ldHlSp e => isByte e
  | .ldhNA n | .ldhAN n => isHigh n
  | .rst t => isRst t
  | .bit b _ | .res b _ | .set b _ => isBit b
  | .ldRR d s => !(d == .hlInd && s == .hlInd)
  | .nop | .stop | .addHl _ | .ldIndA _ | .ldAInd _ | .incRp _ | .decRp _ | .inc _ | .dec _
  | .rlca | .rrca | .rla | .rra | .daa | .cpl | .scf | .ccf | .halt | .alu _ _ | .retCc _
  | .pop _ | .ret | .reti | .jpHl | .ldSpHl | .ldCA | .ldAC | .di | .ei | .push _
  | .rot _ _ => true

/-- Encoding-level normal form: the `ldh` operand reduced to its low byte (`$FF10` ↦ `$10`);
every other instruction is its own normal form. -/
def norm : Instr → Instr
  | .ldhNA n => .ldhNA (n % 256)
  | .ldhAN n => .ldhAN (n % 256)
  | i => i

/-! ### encoder -/

/-- An 8-bit field holding `v` (`0 ≤ v ≤ 255` by `wf`). -/
def byteOf (v : Int) : Nat := v.toNat
/-- Low / high byte of a 16-bit field (little-endian in the instruction stream). -/
def loOf (v : Int) : Nat := v.toNat % 256
def hiOf (v : Int) : Nat := v.toNat / 256
/-- Two's-complement byte of the relative distance. -/
def relOf (pc : Nat) (target : Int) : Nat := (jrDist pc target % 256).toNat

def enc (pc : Nat) : Instr → List Nat
  | .nop => [0x00]
  | .ldNNSp nn => [0x08, loOf nn, hiOf nn]
  | .stop => [0x10, 0x00]
  | .jr t => [0x18, relOf pc t]
  | .jrCc c t => [0x20 + 8 * c.idx, relOf pc t]
  | .ldRpNN rp nn => [0x01 + 16 * rp.idx, loOf nn, hiOf nn]
  | .addHl rp => [0x09 + 16 * rp.idx]
  | .ldIndA p => [0x02 + 16 * p.idx]
  | .ldAInd p => [0x0A + 16 * p.idx]
  | .incRp rp => [0x03 + 16 * rp.idx]
  | .decRp rp => [0x0B + 16 * rp.idx]
  | .inc r => [0x04 + 8 * r.idx]
  | .dec r => [0x05 + 8 * r.idx]
  | .ldRN r n => [0x06 + 8 * r.idx, byteOf n]
  | .rlca => [0x07] | .rrca => [0x0F] | .rla => [0x17] | .rra => [0x1F]
  | .daa => [0x27] | .cpl => [0x2F] | .scf => [0x37] | .ccf => [0x3F]
  | .halt => [0x76, 0x00]
  | .ldRR d s => [0x40 + 8 * d.idx + s.idx]
  | .alu op r => [0x80 + 8 * op.idx + r.idx]
  | .retCc c => [0xC0 + 8 * c.idx]
  | .ldhNA n => [0xE0, byteOf n % 256]
  | .addSp e => [0xE8, byteOf e]
  | .ldhAN n => [0xF0, byteOf n % 256]
  | .ldHlSp e => [0xF8, byteOf e]
  | .pop q => [0xC1 + 16 * q.idx]
  | .ret => [0xC9] | .reti => [0xD9] | .jpHl => [0xE9] | .ldSpHl => [0xF9]
  | .jpCc c nn => [0xC2 + 8 * c.idx, loOf nn, hiOf nn]
  | .ldCA => [0xE2]
  | .ldNNA nn => [0xEA, loOf nn, hiOf nn]
  | .ldAC => [0xF2]
  | .ldANN nn => [0xFA, loOf nn, hiOf nn]
  | .jp nn => [0xC3, loOf nn, hiOf nn]
  | .di => [0xF3] | .ei => [0xFB]
  | .callCc c nn => [0xC4 + 8 * c.idx, loOf nn, hiOf nn]
  | .push q => [0xC5 + 16 * q.idx]
  | .call nn => [0xCD, loOf nn, hiOf nn]
  | .aluN op n => [0xC6 + 8 * op.idx, byteOf n]
  | .rst t => [0xC7 + byteOf t]
  | .rot op r => [0xCB, 8 * op.idx + r.idx]
  | .bit b r => [0xCB, 0x40 + 8 * byteOf b + r.idx]
  | .res b r => [0xCB, 0x80 + 8 * byteOf b + r.idx]
  | .set b r => [0xCB, 0xC0 + 8 * byteOf b + r.idx]

/-! ### decoder -/

/-- Fetch an 8-bit field. -/
def getByte : List Nat → Option (Int × List Nat)
  | b :: rest => if b < 256 then some ((b : Int), rest) else none
  | [] => none

/-- Fetch a little-endian 16-bit field. -/
def getWord : List Nat → Option (Int × List Nat)
  | l :: h :: rest => if l < 256 ∧ h < 256 then some (((l + 256 * h : Nat) : Int), rest) else none
  | _ => none

/-- Fetch a relative distance and turn it into the absolute target of the 2-byte instruction
at `pc`. -/
def getRel (pc : Nat) : List Nat → Option (Int × List Nat)
  | b :: rest =>
    if b < 256 then some ((pc : Int) + 2 + (if b < 128 then (b : Int) else (b : Int) - 256), rest)
    else none
  | [] => none

/-- Fetch the mandatory `00` that this dialect puts after `halt` and `stop`. -/
def getPad : List Nat → Option (List Nat)
  | 0 :: rest => some rest
  | _ => none

def withByte (f : Int → Instr) (rest : List Nat) : Option (Instr × List Nat) :=
  (getByte rest).map fun (n, r) => (f n, r)
def withWord (f : Int → Instr) (rest : List Nat) : Option (Instr × List Nat) :=
  (getWord rest).map fun (n, r) => (f n, r)
def withRel (pc : Nat) (f : Int → Instr) (rest : List Nat) : Option (Instr × List Nat) :=
  (getRel pc rest).map fun (n, r) => (f n, r)
def withPad (i : Instr) (rest : List Nat) : Option (Instr × List Nat) :=
  (getPad rest).map fun r => (i, r)

/-- Quadrant `x = 0`. -/
def decodeX0 (pc y z : Nat) (rest : List Nat) : Option (Instr × List Nat) :=
  let p := y / 2
  let q := y % 2
  match z with
  | 0 =>
    match y with
    | 0 => some (.nop, rest)
    | 1 => withWord .ldNNSp rest
    | 2 => withPad .stop rest
    | 3 => withRel pc .jr rest
    | _ => withRel pc (.jrCc (Cond.ofIdx (y - 4))) rest
  | 1 => if q = 0 then withWord (.ldRpNN (R16.ofIdx p)) rest else some (.addHl (R16.ofIdx p), rest)
  | 2 => if q = 0 then some (.ldIndA (IndA.ofIdx p), rest) else some (.ldAInd (IndA.ofIdx p), rest)
  | 3 => if q = 0 then some (.incRp (R16.ofIdx p), rest) else some (.decRp (R16.ofIdx p), rest)
  | 4 => some (.inc (R8.ofIdx y), rest)
  | 5 => some (.dec (R8.ofIdx y), rest)
  | 6 => withByte (.ldRN (R8.ofIdx y)) rest
  | _ =>
    match y with
    | 0 => some (.rlca, rest) | 1 => some (.rrca, rest) | 2 => some (.rla, rest)
    | 3 => some (.rra, rest) | 4 => some (.daa, rest) | 5 => some (.cpl, rest)
    | 6 => some (.scf, rest) | _ => some (.ccf, rest)

/-- Quadrant `x = 3`. -/
def decodeX3 (y z : Nat) (rest : List Nat) : Option (Instr × List Nat) :=
  let p := y / 2
  let q := y % 2
  match z with
  | 0 =>
    match y with
    | 4 => withByte .ldhNA rest
    | 5 => withByte .addSp rest
    | 6 => withByte .ldhAN rest
    | 7 => withByte .ldHlSp rest
    | _ => some (.retCc (Cond.ofIdx y), rest)
  | 1 =>
    if q = 0 then some (.pop (R16s.ofIdx p), rest)
    else match p with
      | 0 => some (.ret, rest) | 1 => some (.reti, rest) | 2 => some (.jpHl, rest)
      | _ => some (.ldSpHl, rest)
  | 2 =>
    match y with
    | 4 => some (.ldCA, rest)
    | 5 => withWord .ldNNA rest
    | 6 => some (.ldAC, rest)
    | 7 => withWord .ldANN rest
    | _ => withWord (.jpCc (Cond.ofIdx y)) rest
  | 3 =>
    match y with
    | 0 => withWord .jp rest
    | 6 => some (.di, rest)
    | 7 => some (.ei, rest)
    | _ => none                              -- CB is a prefix; D3 DB E3 EB are holes
  | 4 => if y < 4 then withWord (.callCc (Cond.ofIdx y)) rest else none   -- E4 EC F4 FC holes
  | 5 =>
    if q = 0 then some (.push (R16s.ofIdx p), rest)
    else if p = 0 then withWord .call rest else none                      -- DD ED FD holes
  | 6 => withByte (.aluN (Alu.ofIdx y)) rest
  | _ => some (.rst ((8 * y : Nat) : Int), rest)

/-- Unprefixed opcode `op` followed by `rest`. -/
def decodeUn (pc op : Nat) (rest : List Nat) : Option (Instr × List Nat) :=
  let y := op / 8 % 8
  let z := op % 8
  match op / 64 with
  | 0 => decodeX0 pc y z rest
  | 1 => if y = 6 ∧ z = 6 then withPad .halt rest else some (.ldRR (R8.ofIdx y) (R8.ofIdx z), rest)
  | 2 => some (.alu (Alu.ofIdx y) (R8.ofIdx z), rest)
  | 3 => decodeX3 y z rest
  | _ => none

/-- Second byte `op` of a CB-prefixed instruction. -/
def decodeCB (op : Nat) (rest : List Nat) : Option (Instr × List Nat) :=
  let y := op / 8 % 8
  let r := R8.ofIdx (op % 8)
  match op / 64 with
  | 0 => some (.rot (Rot.ofIdx y) r, rest)
  | 1 => some (.bit (y : Int) r, rest)
  | 2 => some (.res (y : Int) r, rest)
  | 3 => some (.set (y : Int) r, rest)
  | _ => none

/-- Decode one instruction located at `pc` from the front of a byte list. -/
def decode (pc : Nat) : List Nat → Option (Instr × List Nat)
  | [] => none
  | op :: rest =>
    if op = 0xCB then
      match rest with
      | op2 :: rest2 => decodeCB op2 rest2
      | [] => none
    else decodeUn pc op rest

/-! ### source syntax -/

/-- Mnemonics of this assembler's SM83 dialect. -/
inductive Mn where
  | nop | ld | inc | dec | rlca | add | sub | rrca | stop | rla | jr | jp | rra | daa | cpl | scf
  | ccf | adc | sbc | and | xor | or | cp | ret | pop | call | push | rst | reti | ldh | di | ei
  | rlc | rrc | rl | rr | sla | sra | swap | srl | bit | res | set | halt
  deriving Repr, DecidableEq

def Mn.name : Mn → String
  | .nop => "nop" | .ld => "ld" | .inc => "inc" | .dec => "dec" | .rlca => "rlca" | .add => "add"
  | .sub => "sub" | .rrca => "rrca" | .stop => "stop" | .rla => "rla" | .jr => "jr" | .jp => "jp"
  | .rra => "rra" | .daa => "daa" | .cpl => "cpl" | .scf => "scf" | .ccf => "ccf" | .adc => "adc"
  | .sbc => "sbc" | .and => "and" | .xor => "xor" | .or => "or" | .cp => "cp" | .ret => "ret"
  | .pop => "pop" | .call => "call" | .push => "push" | .rst => "rst" | .reti => "reti"
  | .ldh => "ldh" | .di => "di" | .ei => "ei" | .rlc => "rlc" | .rrc => "rrc" | .rl => "rl"
  | .rr => "rr" | .sla => "sla" | .sra => "sra" | .swap => "swap" | .srl => "srl" | .bit => "bit"
  | .res => "res" | .set => "set" | .halt => "halt"

def Mn.all : List Mn :=
  [.nop, .ld, .inc, .dec, .rlca, .add, .sub, .rrca, .stop, .rla, .jr, .jp, .rra, .daa, .cpl, .scf,
   .ccf, .adc, .sbc, .and, .xor, .or, .cp, .ret, .pop, .call, .push, .rst, .reti, .ldh, .di, .ei,
   .rlc, .rrc, .rl, .rr, .sla, .sra, .swap, .srl, .bit, .res, .set, .halt]

/-- Mnemonic of a (lower-case) source spelling. -/
def Mn.ofName (s : String) : Option Mn := Mn.all.find? fun m => m.name == s

def R8.opnd : R8 → Opnd
  | .b => .reg "b" | .c => .reg "c" | .d => .reg "d" | .e => .reg "e" | .h => .reg "h"
  | .l => .reg "l" | .hlInd => .ind "hl" | .a => .reg "a"
def R8.all : List R8 := [.b, .c, .d, .e, .h, .l, .hlInd, .a]
def R8.ofOpnd (o : Opnd) : Option R8 := R8.all.find? fun r => r.opnd == o

def R16.opnd : R16 → Opnd
  | .bc => .reg "bc" | .de => .reg "de" | .hl => .reg "hl" | .sp => .reg "sp"
def R16.all : List R16 := [.bc, .de, .hl, .sp]
def R16.ofOpnd (o : Opnd) : Option R16 := R16.all.find? fun r => r.opnd == o

def R16s.opnd : R16s → Opnd
  | .bc => .reg "bc" | .de => .reg "de" | .hl => .reg "hl" | .af => .reg "af"
def R16s.all : List R16s := [.bc, .de, .hl, .af]
def R16s.ofOpnd (o : Opnd) : Option R16s := R16s.all.find? fun r => r.opnd == o

def IndA.opnd : IndA → Opnd
  | .bc => .ind "bc" | .de => .ind "de" | .hlInc => .indInc "hl" | .hlDec => .indDec "hl"
def IndA.all : List IndA := [.bc, .de, .hlInc, .hlDec]
def IndA.ofOpnd (o : Opnd) : Option IndA := IndA.all.find? fun r => r.opnd == o

/-- Conditions; the carry condition is written with the register token `c`. -/
def Cond.opnd : Cond → Opnd
  | .nz => .flag "nz" | .z => .flag "z" | .nc => .flag "nc" | .c => .reg "c"
def Cond.all : List Cond := [.nz, .z, .nc, .c]
def Cond.ofOpnd (o : Opnd) : Option Cond := Cond.all.find? fun r => r.opnd == o

def Alu.mn : Alu → Mn
  | .add => .add | .adc => .adc | .sub => .sub | .sbc => .sbc | .and => .and | .xor => .xor
  | .or => .or | .cp => .cp
/-- `add`, `adc`, `sbc` are written with the explicit accumulator operand (`add a, b`); `sub`,
`and`, `xor`, `or`, `cp` are written without it (`sub b`). -/
def Alu.hasA : Alu → Bool
  | .add | .adc | .sbc => true
  | _ => false

def Rot.mn : Rot → Mn
  | .rlc => .rlc | .rrc => .rrc | .rl => .rl | .rr => .rr | .sla => .sla | .sra => .sra
  | .swap => .swap | .srl => .srl

/-- The source operand of an 8-bit ALU operation: a register / `(hl)`, an immediate `E`, or
(dialect) the parenthesised immediate `(E)`. -/
def readAlu (op : Alu) (o : Opnd) : Option Instr :=
  match R8.ofOpnd o with
  | some r => some (.alu op r)
  | none =>
    match o with
    | .imm n => some (.aluN op n)
    | .mem n => some (.aluN op n)
    | _ => none

/-- `ld a, s`. -/
def readLdA (s : Opnd) : Option Instr :=
  match R8.ofOpnd s with
  | some r => some (.ldRR .a r)
  | none =>
    match IndA.ofOpnd s with
    | some p => some (.ldAInd p)
    | none =>
      match s with
      | .ind "c" => some .ldAC
      | .mem nn => some (.ldANN nn)
      | .imm n => some (.ldRN .a n)
      | _ => none

/-- `ld r, s` for an 8-bit destination `r` other than `a` (`b c d e h l (hl)`). -/
def readLdR (r : R8) (s : Opnd) : Option Instr :=
  match R8.ofOpnd s with
  | some r' => if r = .hlInd ∧ r' = .hlInd then none else some (.ldRR r r')
  | none =>
    match s with
    | .imm n => some (.ldRN r n)
    | .mem n => some (.ldRN r n)      -- dialect: `ld b, (E)` is `ld b, E`
    | _ => none

/-- `ld d, s` where `d` is neither an 8-bit operand nor `(bc) (de) (hl+) (hl-)`. -/
def readLdOther : Opnd → Opnd → Option Instr
  | .ind "c", .reg "a" => some .ldCA
  | .mem nn, .reg "a" => some (.ldNNA nn)
  | .mem nn, .reg "sp" => some (.ldNNSp nn)
  | .reg "sp", .reg "hl" => some .ldSpHl
  | .reg "hl", .regPlus "sp" e => some (.ldHlSp e)
  | d, .imm nn => (R16.ofOpnd d).map fun rp => .ldRpNN rp nn
  | _, _ => none

/-- `ld d, s`. -/
def readLd (d s : Opnd) : Option Instr :=
  match R8.ofOpnd d with
  | some .a => readLdA s
  | some r => readLdR r s
  | none =>
    match IndA.ofOpnd d with
    | some p => if s = .reg "a" then some (.ldIndA p) else none
    | none => readLdOther d s

/-- A bit number followed by an 8-bit operand. -/
def readBit (f : Int → R8 → Instr) : List Opnd → Option Instr
  | [.imm b, o] => (R8.ofOpnd o).map (f b)
  | _ => none

/-- Operation with one 8-bit operand. -/
def readR8 (f : R8 → Instr) : List Opnd → Option Instr
  | [o] => (R8.ofOpnd o).map f
  | _ => none

def readNone (i : Instr) : List Opnd → Option Instr
  | [] => some i
  | _ => none

/-- ALU mnemonic written with / without the accumulator operand. -/
def readAluOps (op : Alu) : List Opnd → Option Instr
  | [o] => if op.hasA then none else readAlu op o
  | [.reg "a", o] => if op.hasA then readAlu op o else none
  | _ => none

def readMn : Mn → List Opnd → Option Instr
  | .nop, ops => readNone .nop ops
  | .stop, ops => readNone .stop ops
  | .halt, ops => readNone .halt ops
  | .di, ops => readNone .di ops
  | .ei, ops => readNone .ei ops
  | .reti, ops => readNone .reti ops
  | .rlca, ops => readNone .rlca ops
  | .rrca, ops => readNone .rrca ops
  | .rla, ops => readNone .rla ops
  | .rra, ops => readNone .rra ops
  | .daa, ops => readNone .daa ops
  | .cpl, ops => readNone .cpl ops
  | .scf, ops => readNone .scf ops
  | .ccf, ops => readNone .ccf ops
  | .ld, ops =>
    match ops with
    | [d, s] => readLd d s
    | _ => none
  | .ldh, ops =>
    match ops with
    | [.mem n, .reg "a"] => some (.ldhNA n)
    | [.reg "a", .mem n] => some (.ldhAN n)
    | _ => none
  | .inc, ops =>
    match ops with
    | [o] =>
      match R8.ofOpnd o with
      | some r => some (.inc r)
      | none => (R16.ofOpnd o).map .incRp
    | _ => none
  | .dec, ops =>
    match ops with
    | [o] =>
      match R8.ofOpnd o with
      | some r => some (.dec r)
      | none => (R16.ofOpnd o).map .decRp
    | _ => none
  | .add, ops =>
    match ops with
    | [.reg "hl", o] => (R16.ofOpnd o).map .addHl
    | [.reg "sp", .imm e] => some (.addSp e)
    | ops => readAluOps .add ops
  | .adc, ops => readAluOps .adc ops
  | .sub, ops => readAluOps .sub ops
  | .sbc, ops => readAluOps .sbc ops
  | .and, ops => readAluOps .and ops
  | .xor, ops => readAluOps .xor ops
  | .or, ops => readAluOps .or ops
  | .cp, ops => readAluOps .cp ops
  | .jr, ops =>
    match ops with
    | [.imm t] => some (.jr t)
    | [c, .imm t] => (Cond.ofOpnd c).map fun c => .jrCc c t
    | _ => none
  | .jp, ops =>
    match ops with
    | [.reg "hl"] => some .jpHl
    | [.imm nn] => some (.jp nn)
    | [c, .imm nn] => (Cond.ofOpnd c).map fun c => .jpCc c nn
    | _ => none
  | .call, ops =>
    match ops with
    | [.imm nn] => some (.call nn)
    | [c, .imm nn] => (Cond.ofOpnd c).map fun c => .callCc c nn
    | _ => none
  | .ret, ops =>
    match ops with
    | [] => some .ret
    | [c] => (Cond.ofOpnd c).map .retCc
    | _ => none
  | .push, ops =>
    match ops with
    | [o] => (R16s.ofOpnd o).map .push
    | _ => none
  | .pop, ops =>
    match ops with
    | [o] => (R16s.ofOpnd o).map .pop
    | _ => none
  | .rst, ops =>
    match ops with
    | [.imm t] => some (.rst t)
    | _ => none
  | .rlc, ops => readR8 (.rot .rlc) ops
  | .rrc, ops => readR8 (.rot .rrc) ops
  | .rl, ops => readR8 (.rot .rl) ops
  | .rr, ops => readR8 (.rot .rr) ops
  | .sla, ops => readR8 (.rot .sla) ops
  | .sra, ops => readR8 (.rot .sra) ops
  | .swap, ops => readR8 (.rot .swap) ops
  | .srl, ops => readR8 (.rot .srl) ops
  | .bit, ops => readBit .bit ops
  | .res, ops => readBit .res ops
  | .set, ops => readBit .set ops

/-- The instruction denoted by mnemonic `m` (lower case) with operands `ops`, if any. -/
def read (m : String) (ops : List Opnd) : Option Instr :=
  (Mn.ofName m).bind fun mn => readMn mn ops

/-- Canonical source spelling of an instruction. -/
def writeMn : Instr → Mn × List Opnd
  | .nop => (.nop, [])
  | .ldNNSp nn => (.ld, [.mem nn, .reg "sp"])
  | .stop => (.stop, [])
  | .jr t => (.jr, [.imm t])
  | .jrCc c t => (.jr, [c.opnd, .imm t])
  | .ldRpNN rp nn => (.ld, [rp.opnd, .imm nn])
  | .addHl rp => (.add, [.reg "hl", rp.opnd])
  | .ldIndA p => (.ld, [p.opnd, .reg "a"])
  | .ldAInd p => (.ld, [.reg "a", p.opnd])
  | .incRp rp => (.inc, [rp.opnd])
  | .decRp rp => (.dec, [rp.opnd])
  | .inc r => (.inc, [r.opnd])
  | .dec r => (.dec, [r.opnd])
  | .ldRN r n => (.ld, [r.opnd, .imm n])
  | .rlca => (.rlca, []) | .rrca => (.rrca, []) | .rla => (.rla, []) | .rra => (.rra, [])
  | .daa => (.daa, []) | .cpl => (.cpl, []) | .scf => (.scf, []) | .ccf => (.ccf, [])
  | .halt => (.halt, [])
  | .ldRR d s => (.ld, [d.opnd, s.opnd])
  | .alu op r => (op.mn, if op.hasA then [.reg "a", r.opnd] else [r.opnd])
  | .retCc c => (.ret, [c.opnd])
  | .ldhNA n => (.ldh, [.mem n, .reg "a"])
  | .addSp e => (.add, [.reg "sp", .imm e])
  | .ldhAN n => (.ldh, [.reg "a", .mem n])
  | .ldHlSp e => (.ld, [.reg "hl", .regPlus "sp" e])
  | .pop q => (.pop, [q.opnd])
  | .ret => (.ret, []) | .reti => (.reti, []) | .jpHl => (.jp, [.reg "hl"])
  | .ldSpHl => (.ld, [.reg "sp", .reg "hl"])
  | .jpCc c nn => (.jp, [c.opnd, .imm nn])
  | .ldCA => (.ld, [.ind "c", .reg "a"])
  | .ldNNA nn => (.ld, [.mem nn, .reg "a"])
  | .ldAC => (.ld, [.reg "a", .ind "c"])
  | .ldANN nn => (.ld, [.reg "a", .mem nn])
  | .jp nn => (.jp, [.imm nn])
  | .di => (.di, []) | .ei => (.ei, [])
  | .callCc c nn => (.call, [c.opnd, .imm nn])
  | .push q => (.push, [q.opnd])
  | .call nn => (.call, [.imm nn])
  | .aluN op n => (op.mn, if op.hasA then [.reg "a", .imm n] else [.imm n])
  | .rst t => (.rst, [.imm t])
  | .rot op r => (op.mn, [r.opnd])
  | .bit b r => (.bit, [.imm b, r.opnd])
  | .res b r => (.res, [.imm b, r.opnd])
  | .set b r => (.set, [.imm b, r.opnd])

def write (i : Instr) : String × List Opnd := ((writeMn i).1.name, (writeMn i).2)

/-- The bytes the assembler must emit for mnemonic `m` with operands `ops` at address `pc`;
`none`: the line must be rejected. -/
def expected (pc : Nat) (m : String) (ops : List Opnd) : Option (List Nat) :=
  (read m ops).bind fun i => if wf pc i then some (enc pc i) else none

/-! ### the 500 opcodes -/

def Alu.all : List Alu := [.add, .adc, .sub, .sbc, .and, .xor, .or, .cp]
def Rot.all : List Rot := [.rlc, .rrc, .rl, .rr, .sla, .sra, .swap, .srl]

/-- One well-formed instruction per defined opcode (operand values: `$42`, `$1234`, target `$10`
for `jr` at `pc = 0`). -/
def allOpcodes : List Instr :=
  [.nop, .ldNNSp 0x1234, .stop, .jr 0x10] ++ Cond.all.map (.jrCc · 0x10)
  ++ R16.all.map (.ldRpNN · 0x1234) ++ R16.all.map .addHl
  ++ IndA.all.map .ldIndA ++ IndA.all.map .ldAInd
  ++ R16.all.map .incRp ++ R16.all.map .decRp
  ++ R8.all.map .inc ++ R8.all.map .dec ++ R8.all.map (.ldRN · 0x42)
  ++ [.rlca, .rrca, .rla, .rra, .daa, .cpl, .scf, .ccf, .halt]
  ++ (R8.all.flatMap fun d => R8.all.map fun s => Instr.ldRR d s).filter (wf 0)
  ++ (Alu.all.flatMap fun op => R8.all.map fun r => Instr.alu op r)
  ++ Cond.all.map .retCc ++ [.ldhNA 0x42, .addSp 0x42, .ldhAN 0x42, .ldHlSp 0x42]
  ++ R16s.all.map .pop ++ [.ret, .reti, .jpHl, .ldSpHl]
  ++ Cond.all.map (.jpCc · 0x1234) ++ [.ldCA, .ldNNA 0x1234, .ldAC, .ldANN 0x1234]
  ++ [.jp 0x1234, .di, .ei] ++ Cond.all.map (.callCc · 0x1234)
  ++ R16s.all.map .push ++ [.call 0x1234] ++ Alu.all.map (.aluN · 0x42)
  ++ (List.range 8).map (fun y => Instr.rst (8 * y : Nat))
  ++ (Rot.all.flatMap fun op => R8.all.map fun r => Instr.rot op r)
  ++ ((List.range 8).flatMap fun b => R8.all.map fun r => Instr.bit (b : Nat) r)
  ++ ((List.range 8).flatMap fun b => R8.all.map fun r => Instr.res (b : Nat) r)
  ++ ((List.range 8).flatMap fun b => R8.all.map fun r => Instr.set (b : Nat) r)

/-- The 11 undefined unprefixed opcodes. -/
def holes : List Nat := [0xD3, 0xDB, 0xDD, 0xE3, 0xE4, 0xEB, 0xEC, 0xED, 0xF4, 0xFC, 0xFD]

/-- Opcode key of an encoding: the first byte, or `256 + second byte` behind the CB prefix. -/
def opKey : List Nat → Nat
  | 0xCB :: b :: _ => 256 + b
  | b :: _ => b
  | [] => 0

/-- The 500 defined opcode keys: `0..255` minus CB and the holes, and `256..511`. -/
def definedKeys : List Nat :=
  (List.range 512).filter fun k => k != 0xCB && !holes.contains k

/-- Opcode keys of `allOpcodes`, in list order. -/
def allKeys : List Nat := allOpcodes.map fun i => opKey (enc 0 i)

/-- Bit set of a key list, `none` if some key occurs twice (a linear-time distinctness check:
`Az65.Thm.IsaSm83.keyMask_spec` shows `keyMask ks = some m` iff `ks` is duplicate-free and `m`
has exactly the bits `ks`). -/
def keyMask : List Nat → Option Nat
  | [] => some 0
  | k :: ks => (keyMask ks).bind fun m => if m.testBit k then none else some (m ||| 1 <<< k)

theorem allOpcodes_count : allOpcodes.length = 500 := by decide +kernel

theorem definedKeys_count : definedKeys.length = 500 := by decide +kernel

/-- Every member of `allOpcodes` is well-formed at `pc = 0`. -/
theorem allOpcodes_wf : allOpcodes.all (wf 0) = true := by decide +kernel

/-- The opcodes of `allOpcodes` are pairwise distinct (the mask exists) and they are exactly the
500 defined opcodes (same bit set): all are reached, none is a hole or the bare CB prefix. -/
theorem allOpcodes_keys :
    (keyMask allKeys).isSome = true ∧ keyMask allKeys = keyMask definedKeys := by
  decide +kernel

end Az65.Spec.Sm83

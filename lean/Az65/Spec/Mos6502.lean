import Az65.Spec.Opnd
/-
Spec for property C03 — the MOS 6502 instruction set as an independent oracle.

Written from the published structure of the NMOS 6502 opcode matrix, *not* from the assembler:
most opcodes have the bit layout `aaabbbcc`, where `cc` selects one of three instruction groups,
`aaa` the operation inside the group and `bbb` the addressing mode; the remaining opcodes
(branches `xxy10000`, `jsr`, and the one-byte instructions) are the documented exception list.
56 mnemonics, 13 addressing modes, 151 legal opcodes.

Bytes are `Nat`s (0..255), operand values are `Int`s (what the source expression evaluates to).
-/
namespace Az65.Spec.Mos6502
open Az65.Spec

/-- The 56 mnemonics of the NMOS 6502. -/
inductive Mn where
  | adc | and | asl | bcc | bcs | beq | bit | bmi | bne | bpl | brk | bvc | bvs | clc
  | cld | cli | clv | cmp | cpx | cpy | dec | dex | dey | eor | inc | inx | iny | jmp
  | jsr | lda | ldx | ldy | lsr | nop | ora | pha | php | pla | plp | rol | ror | rti
  | rts | sbc | sec | sed | sei | sta | stx | sty | tax | tay | tsx | txa | txs | tya
  deriving Repr, DecidableEq

/-- The 13 addressing modes. -/
inductive AMode where
  | implied | accumulator | immediate | zeroPage | zeroPageX | zeroPageY
  | absolute | absoluteX | absoluteY | indirect | indirectX | indirectY | relative
  deriving Repr, DecidableEq

def Mn.all : List Mn :=
  [.adc, .and, .asl, .bcc, .bcs, .beq, .bit, .bmi, .bne, .bpl, .brk, .bvc, .bvs, .clc,
   .cld, .cli, .clv, .cmp, .cpx, .cpy, .dec, .dex, .dey, .eor, .inc, .inx, .iny, .jmp,
   .jsr, .lda, .ldx, .ldy, .lsr, .nop, .ora, .pha, .php, .pla, .plp, .rol, .ror, .rti,
   .rts, .sbc, .sec, .sed, .sei, .sta, .stx, .sty, .tax, .tay, .tsx, .txa, .txs, .tya]

def AMode.all : List AMode :=
  [.implied, .accumulator, .immediate, .zeroPage, .zeroPageX, .zeroPageY,
   .absolute, .absoluteX, .absoluteY, .indirect, .indirectX, .indirectY, .relative]

/-! ### Opcode map -/

/-- Where a mnemonic lives in the opcode matrix. -/
inductive Cls where
  /-- `aaabbb01`: the eight accumulator/memory ALU operations -/
  | g1 (aaa : Nat)
  /-- `aaabbb10`: shifts/rotates, `stx`/`ldx`, `dec`/`inc` -/
  | g2 (aaa : Nat)
  /-- `aaabbb00`: `bit`, `sty`, `ldy`, `cpy`, `cpx` -/
  | g0 (aaa : Nat)
  /-- `jmp`: `aaabbb00` with `bbb = 3`, `aaa = 2` (absolute) or `aaa = 3` (indirect) -/
  | jmp
  /-- conditional branch `xxy10000`: `xx` = flag (N,V,C,Z), `y` = value the flag is compared with -/
  | branch (xx y : Nat)
  /-- `jsr` abs: the one three-byte instruction in the `x0` column of the exception list -/
  | jsr
  /-- one-byte instruction, implied addressing, with its opcode from the exception list -/
  | single (op : Nat)
  deriving Repr, DecidableEq

def cls : Mn → Cls
  -- cc = 01
  | .ora => .g1 0 | .and => .g1 1 | .eor => .g1 2 | .adc => .g1 3
  | .sta => .g1 4 | .lda => .g1 5 | .cmp => .g1 6 | .sbc => .g1 7
  -- cc = 10
  | .asl => .g2 0 | .rol => .g2 1 | .lsr => .g2 2 | .ror => .g2 3
  | .stx => .g2 4 | .ldx => .g2 5 | .dec => .g2 6 | .inc => .g2 7
  -- cc = 00
  | .bit => .g0 1 | .sty => .g0 4 | .ldy => .g0 5 | .cpy => .g0 6 | .cpx => .g0 7
  | .jmp => .jmp
  -- branches: flag N=0 V=1 C=2 Z=3; taken when flag = y
  | .bpl => .branch 0 0 | .bmi => .branch 0 1 | .bvc => .branch 1 0 | .bvs => .branch 1 1
  | .bcc => .branch 2 0 | .bcs => .branch 2 1 | .bne => .branch 3 0 | .beq => .branch 3 1
  | .jsr => .jsr
  -- column x0 of rows 0,4,6
  | .brk => .single 0x00 | .rti => .single 0x40 | .rts => .single 0x60
  -- column x8
  | .php => .single 0x08 | .plp => .single 0x28 | .pha => .single 0x48 | .pla => .single 0x68
  | .dey => .single 0x88 | .tay => .single 0xA8 | .iny => .single 0xC8 | .inx => .single 0xE8
  | .clc => .single 0x18 | .sec => .single 0x38 | .cli => .single 0x58 | .sei => .single 0x78
  | .tya => .single 0x98 | .clv => .single 0xB8 | .cld => .single 0xD8 | .sed => .single 0xF8
  -- column xA of rows 8..E
  | .txa => .single 0x8A | .txs => .single 0x9A | .tax => .single 0xAA | .tsx => .single 0xBA
  | .dex => .single 0xCA | .nop => .single 0xEA

/-- Assemble the bit fields `aaabbbcc`. -/
def pat (aaa bbb cc : Nat) : Nat := aaa * 32 + bbb * 4 + cc

/-- `aaabbb01`. bbb: 0 `(zp,x)`  1 `zp`  2 `#imm`  3 `abs`  4 `(zp),y`  5 `zp,x`  6 `abs,y`  7 `abs,x`;
the one hole is `sta #imm`. -/
def opcodeG1 (mn : Mn) (a : Nat) : AMode → Option Nat
  | .indirectX => some (pat a 0 1)
  | .zeroPage => some (pat a 1 1)
  | .immediate => if mn = .sta then none else some (pat a 2 1)
  | .absolute => some (pat a 3 1)
  | .indirectY => some (pat a 4 1)
  | .zeroPageX => some (pat a 5 1)
  | .absoluteY => some (pat a 6 1)
  | .absoluteX => some (pat a 7 1)
  | _ => none

/-- `aaabbb10`. bbb: 0 `#imm` (`ldx` only)  1 `zp`  2 `A` (shifts/rotates only)  3 `abs`  5 `zp,x`
7 `abs,x`; `stx`/`ldx` index with Y instead of X, and there is no `stx abs,y`. -/
def opcodeG2 (mn : Mn) (a : Nat) : AMode → Option Nat
  | .immediate => if mn = .ldx then some (pat a 0 2) else none
  | .zeroPage => some (pat a 1 2)
  | .accumulator => if a < 4 then some (pat a 2 2) else none
  | .absolute => some (pat a 3 2)
  | .zeroPageX => if mn = .stx ∨ mn = .ldx then none else some (pat a 5 2)
  | .zeroPageY => if mn = .stx ∨ mn = .ldx then some (pat a 5 2) else none
  | .absoluteX => if mn = .stx ∨ mn = .ldx then none else some (pat a 7 2)
  | .absoluteY => if mn = .ldx then some (pat a 7 2) else none
  | _ => none

/-- `aaabbb00`. bbb: 0 `#imm` (`ldy cpy cpx`)  1 `zp`  3 `abs`  5 `zp,x` (`sty ldy`)  7 `abs,x` (`ldy`). -/
def opcodeG0 (mn : Mn) (a : Nat) : AMode → Option Nat
  | .immediate => if mn = .ldy ∨ mn = .cpy ∨ mn = .cpx then some (pat a 0 0) else none
  | .zeroPage => some (pat a 1 0)
  | .absolute => some (pat a 3 0)
  | .zeroPageX => if mn = .sty ∨ mn = .ldy then some (pat a 5 0) else none
  | .absoluteX => if mn = .ldy then some (pat a 7 0) else none
  | _ => none

/-- `jmp abs` = `010 011 00`, `jmp (abs)` = `011 011 00`. -/
def opcodeJmp : AMode → Option Nat
  | .absolute => some (pat 2 3 0)
  | .indirect => some (pat 3 3 0)
  | _ => none

/-- The opcode of a (mnemonic, addressing mode) pair, `none` when the 6502 has no such instruction. -/
def opcode (mn : Mn) (mode : AMode) : Option Nat :=
  match cls mn with
  | .g1 a => opcodeG1 mn a mode
  | .g2 a => opcodeG2 mn a mode
  | .g0 a => opcodeG0 mn a mode
  | .jmp => opcodeJmp mode
  | .branch xx y => if mode = .relative then some (xx * 64 + y * 32 + 16) else none
  | .jsr => if mode = .absolute then some 0x20 else none
  | .single op => if mode = .implied then some op else none

/-- All legal (mnemonic, mode, opcode) rows, enumerated from `opcode`. -/
def legal : List (Mn × AMode × Nat) :=
  Mn.all.flatMap fun mn => AMode.all.filterMap fun md => (opcode mn md).map fun op => (mn, md, op)

theorem legal_count : legal.length = 151 := by decide +kernel

/-- No two legal rows share an opcode byte. -/
theorem legal_opcodes_nodup : (legal.map (·.2.2)).Nodup := by decide +kernel

/-- Every legal opcode is a byte. -/
theorem legal_opcodes_byte : ∀ row ∈ legal, row.2.2 < 256 := by decide +kernel

/-- The (mnemonic, mode) pair with a given opcode byte. -/
def lookup (op : Nat) : Option (Mn × AMode) :=
  (legal.find? fun row => row.2.2 == op).map fun row => (row.1, row.2.1)

/-! ### Instructions, encoding, decoding -/

/-- A 6502 instruction: `v` is the written operand value (0 for implied / accumulator); for
`relative` it is the written *target address*, not the displacement. -/
structure Instr where
  mn : Mn
  mode : AMode
  v : Int
  deriving Repr, DecidableEq

/-- Operand shape of an addressing mode. -/
inductive OpSize where
  | none | byte | word | rel
  deriving Repr, DecidableEq

def opSize : AMode → OpSize
  | .implied | .accumulator => .none
  | .immediate | .zeroPage | .zeroPageX | .zeroPageY | .indirectX | .indirectY => .byte
  | .absolute | .absoluteX | .absoluteY | .indirect => .word
  | .relative => .rel

/-- Operand in range: byte operands 0..255, word operands 0..65535, branch target within
-128..+127 of the address of the next instruction (`pc + 2`). -/
def wf (pc : Nat) (i : Instr) : Bool :=
  match opSize i.mode with
  | .none => i.v == 0
  | .byte => decide (0 ≤ i.v ∧ i.v ≤ 255)
  | .word => decide (0 ≤ i.v ∧ i.v ≤ 65535)
  | .rel => decide (-128 ≤ i.v - ((pc : Int) + 2) ∧ i.v - ((pc : Int) + 2) ≤ 127)

/-- Operand bytes, little-endian; a branch stores the two's-complement displacement from `pc + 2`. -/
def operandBytes (pc : Nat) (mode : AMode) (v : Int) : List Nat :=
  match opSize mode with
  | .none => []
  | .byte => [v.toNat % 256]
  | .word => [v.toNat % 256, v.toNat / 256 % 256]
  | .rel => [((v - ((pc : Int) + 2)) % 256).toNat]

/-- Machine code of an instruction placed at address `pc` (`[]` if the pair is not legal). -/
def enc (pc : Nat) (i : Instr) : List Nat :=
  match opcode i.mn i.mode with
  | none => []
  | some op => op :: operandBytes pc i.mode i.v

/-- Disassemble one instruction located at address `pc`. -/
def decode (pc : Nat) : List Nat → Option (Instr × List Nat)
  | [] => none
  | op :: bs =>
    match lookup op with
    | none => none
    | some (mn, mode) =>
      match opSize mode, bs with
      | .none, rest => some (⟨mn, mode, 0⟩, rest)
      | .byte, b :: rest => if b < 256 then some (⟨mn, mode, b⟩, rest) else none
      | .word, lo :: hi :: rest =>
        if lo < 256 ∧ hi < 256 then some (⟨mn, mode, (lo + 256 * hi : Nat)⟩, rest) else none
      | .rel, b :: rest =>
        if b < 256 then
          some (⟨mn, mode, (pc : Int) + 2 + (if b < 128 then (b : Int) else (b : Int) - 256)⟩, rest)
        else none
      | _, _ => none

/-! ### Source level -/

/-- Lower-case source spelling. -/
def Mn.name : Mn → String
  | .adc => "adc" | .and => "and" | .asl => "asl" | .bcc => "bcc" | .bcs => "bcs" | .beq => "beq"
  | .bit => "bit" | .bmi => "bmi" | .bne => "bne" | .bpl => "bpl" | .brk => "brk" | .bvc => "bvc"
  | .bvs => "bvs" | .clc => "clc" | .cld => "cld" | .cli => "cli" | .clv => "clv" | .cmp => "cmp"
  | .cpx => "cpx" | .cpy => "cpy" | .dec => "dec" | .dex => "dex" | .dey => "dey" | .eor => "eor"
  | .inc => "inc" | .inx => "inx" | .iny => "iny" | .jmp => "jmp" | .jsr => "jsr" | .lda => "lda"
  | .ldx => "ldx" | .ldy => "ldy" | .lsr => "lsr" | .nop => "nop" | .ora => "ora" | .pha => "pha"
  | .php => "php" | .pla => "pla" | .plp => "plp" | .rol => "rol" | .ror => "ror" | .rti => "rti"
  | .rts => "rts" | .sbc => "sbc" | .sec => "sec" | .sed => "sed" | .sei => "sei" | .sta => "sta"
  | .stx => "stx" | .sty => "sty" | .tax => "tax" | .tay => "tay" | .tsx => "tsx" | .txa => "txa"
  | .txs => "txs" | .tya => "tya"

/-- A mnemonic is written all lower-case or all upper-case. -/
def Mn.parse (s : String) : Option Mn :=
  Mn.all.find? fun mn => s == mn.name || s == mn.name.toUpper

def isBranch (mn : Mn) : Bool :=
  match cls mn with
  | .branch _ _ => true
  | _ => false

/-- The mnemonic has zero-page addressing at all (everything with a direct operand except
`jmp`, `jsr` and the branches). -/
def hasZeroPage (mn : Mn) : Bool := (opcode mn .zeroPage).isSome

/-- The statement's size rule: the short form is taken exactly when the operand value is already
known and at most `$FF` (and not negative). -/
def short (known : Bool) (v : Int) : Bool := known && decide (0 ≤ v ∧ v ≤ 255)

/-- The mnemonic has some indirect addressing mode (the eight `aaabbb01` operations and `jmp`). -/
def hasIndirect (mn : Mn) : Bool :=
  (opcode mn .indirect).isSome || (opcode mn .indirectX).isSome || (opcode mn .indirectY).isSome

/-- Parentheses are addressing-mode syntax only for mnemonics that have an indirect mode; for all
others an operand written `(E)` is just the expression `E` in grouping parentheses, so `(E)` is
the direct spelling `E` and `(E), y` is `E, y` (`ldx ($10), y` = `ldx $10, y`). -/
def normalize (mn : Mn) (md : Mode) : Mode :=
  if hasIndirect mn then md
  else
    match md with
    | .indirect v => .direct v
    | .indirectY v => .directY v
    | md => md

/-- The addressing mode a (normalized) source spelling asks for, before the legality check. -/
def candidate (mn : Mn) (md : Mode) (known : Bool) : AMode :=
  match md with
  | .implied => .implied
  | .acc => .accumulator
  | .immediate _ => .immediate
  | .indirect _ => .indirect
  | .indirectX _ => .indirectX
  | .indirectY _ => .indirectY
  | .direct v =>
    if isBranch mn then .relative
    else if hasZeroPage mn && short known v then .zeroPage else .absolute
  | .directX v => if hasZeroPage mn && short known v then .zeroPageX else .absoluteX
  | .directY v => if hasZeroPage mn && short known v then .zeroPageY else .absoluteY

/-- Source-level rule: the addressing mode selected for mnemonic `mn` written with operand
spelling `md`, where `known` says whether the operand value is known when the instruction is
assembled; `none` = rejected (the 6502 has no such instruction).

* `#E` immediate, `(E, x)` / `(E), y` / `(E)` the indirect modes, `a` accumulator, nothing implied;
* a branch mnemonic with `E`: relative;
* `E`, `E, x`, `E, y` on a mnemonic that has zero-page addressing: the zero-page form exactly when
  the value is known now and in `0..$FF`, the absolute form otherwise; on `jmp` / `jsr` (no
  zero-page addressing at all): absolute;
* the pair so selected must be a legal instruction — there is no fallback to the other width
  (`adc $10, y` selects zero-page,Y, which `adc` lacks: rejected; `stx fwd, y` selects
  absolute,Y, which `stx` lacks: rejected). -/
def expectedMode (mn : Mn) (md : Mode) (known : Bool) : Option AMode :=
  let c := candidate mn (normalize mn md) known
  if (opcode mn c).isSome then some c else none

/-- The written operand value (0 when nothing is written). -/
def modeValue : Mode → Int
  | .implied | .acc => 0
  | .immediate v | .direct v | .directX v | .directY v
  | .indirect v | .indirectX v | .indirectY v => v

def read (m : String) (md : Mode) (known : Bool) : Option Instr :=
  (Mn.parse m).bind fun mn =>
    (expectedMode mn md known).map fun mode => ⟨mn, mode, modeValue md⟩

/-- The canonical source spelling of an instruction. -/
def write (i : Instr) : String × Mode :=
  (i.mn.name,
    match i.mode with
    | .implied => .implied
    | .accumulator => .acc
    | .immediate => .immediate i.v
    | .zeroPage | .absolute | .relative => .direct i.v
    | .zeroPageX | .absoluteX => .directX i.v
    | .zeroPageY | .absoluteY => .directY i.v
    | .indirect => .indirect i.v
    | .indirectX => .indirectX i.v
    | .indirectY => .indirectY i.v)

/-- Expected machine code for mnemonic `m` with operand `md` at address `pc`; `none` = the
assembler must reject the line (at assembly or at link time) with a diagnostic. `md` carries the
*final* operand value; `known` says whether it was already known when the line was assembled. -/
def expected (pc : Nat) (m : String) (md : Mode) (known : Bool) : Option (List Nat) :=
  (read m md known).bind fun i => if wf pc i then some (enc pc i) else none

end Az65.Spec.Mos6502

/-
Spec for C17: UTF-8 (RFC 3629) decoding of a byte string, independent of `charreader.rs`.
Bytes and code points are `Nat`.
-/
namespace Az65.Spec.Utf8

inductive First where
  /-- a complete scalar value `cp` encoded in the first `len` bytes -/
  | ok (cp : Nat) (len : Nat)
  /-- the bytes are a proper prefix of a well-formed sequence (more input needed) -/
  | incomplete
  /-- no well-formed sequence starts here -/
  | invalid
  /-- no bytes -/
  | empty
  deriving Repr, DecidableEq

def isCont (b : Nat) : Bool := 0x80 ≤ b && b ≤ 0xBF

/-- Length of the sequence announced by a lead byte (RFC 3629 table 3-7); 0 = not a lead byte
(continuation bytes, the overlong leads C0 C1, and F5..FF). -/
def seqLen (b0 : Nat) : Nat :=
  if b0 < 0x80 then 1
  else if 0xC2 ≤ b0 ∧ b0 ≤ 0xDF then 2
  else if 0xE0 ≤ b0 ∧ b0 ≤ 0xEF then 3
  else if 0xF0 ≤ b0 ∧ b0 ≤ 0xF4 then 4
  else 0

/-- Is `b` acceptable as the `i`-th byte (1 = the byte after the lead) of a sequence led by `b0`?
The second byte is restricted after E0 (no overlongs), ED (no surrogates), F0 (no overlongs) and
F4 (nothing above U+10FFFF). -/
def stepOk (b0 i b : Nat) : Bool :=
  if i = 1 then
    (if b0 = 0xE0 then 0xA0 else if b0 = 0xF0 then 0x90 else 0x80) ≤ b &&
      b ≤ (if b0 = 0xED then 0x9F else if b0 = 0xF4 then 0x8F else 0xBF)
  else isCont b

inductive Scan where
  | done | short | bad
  deriving Repr, DecidableEq

/-- Check `k` further bytes of a sequence, starting with byte number `i`. -/
def scan (b0 : Nat) : Nat → Nat → List Nat → Scan
  | 0, _, _ => .done
  | _ + 1, _, [] => .short
  | k + 1, i, b :: r => if stepOk b0 i b then scan b0 k (i + 1) r else .bad

/-- Payload bits of a complete sequence. -/
def cpOf (bs : List Nat) : Nat :=
  match bs with
  | [b0] => b0
  | [b0, b1] => (b0 - 0xC0) * 64 + (b1 - 0x80)
  | [b0, b1, b2] => (b0 - 0xE0) * 4096 + (b1 - 0x80) * 64 + (b2 - 0x80)
  | [b0, b1, b2, b3] => (b0 - 0xF0) * 262144 + (b1 - 0x80) * 4096 + (b2 - 0x80) * 64 + (b3 - 0x80)
  | _ => 0

/-- Decode the first character of a byte string. -/
def decodeFirst : List Nat → First
  | [] => .empty
  | b0 :: r =>
    if seqLen b0 = 0 then .invalid else
    match scan b0 (seqLen b0 - 1) 1 r with
    | .done => .ok (cpOf ((b0 :: r).take (seqLen b0))) (seqLen b0)
    | .short => .incomplete
    | .bad => .invalid

/-- How a decoding run ends. -/
inductive End where
  | eof                 -- all input consumed
  | utf8                -- not valid UTF-8 at the current position (incl. truncated at end of input)
  | io                  -- the underlying read failed
  deriving Repr, DecidableEq

/-- The characters of a byte string, up to the first offending position. `fuel` ≥ length suffices. -/
def decodeAll : Nat → List Nat → List Nat × End
  | 0, _ => ([], .utf8)
  | f + 1, bs =>
    match decodeFirst bs with
    | .empty => ([], .eof)
    | .ok cp len =>
      let (cs, e) := decodeAll f (bs.drop len)
      (cp :: cs, e)
    | .incomplete => ([], .utf8)
    | .invalid => ([], .utf8)

end Az65.Spec.Utf8

/-
Operand syntax shared by the three ISA Specs (C01–C03): what is *written* in the source after a
mnemonic, with expression operands already replaced by their (32-bit signed) values.
Register / flag names are the assembler's lower-case display names ("a", "hl", "af'", "ixh", "nz"…).
-/
namespace Az65.Spec

/-- One operand of a Z80 / SM83 instruction as written in source. -/
inductive Opnd where
  /-- a register token: `a`, `hl`, `af'`, `ixh`, `i`, `r`, `sp` … (note: `c` is always a register
  token, also where it means the carry condition) -/
  | reg (r : String)
  /-- a flag token: `nz z nc po pe p m` -/
  | flag (f : String)
  /-- `( reg )`: `(hl)`, `(bc)`, `(de)`, `(sp)`, `(c)`, `(ix)`, `(iy)` -/
  | ind (r : String)
  /-- `( reg + E )`: `(ix+d)`, `(iy+d)`; SM83 `sp+e` is written without parentheses and is `regPlus` -/
  | idx (r : String) (d : Int)
  /-- `reg + E` without parentheses (SM83 `ld hl, sp+e`) -/
  | regPlus (r : String) (d : Int)
  /-- `( reg+ )` / `( reg- )` post-increment / decrement spellings (SM83 `(hl+)`, `(hl-)`) -/
  | indInc (r : String)
  | indDec (r : String)
  /-- `( E )`: a memory operand at an absolute address, or (dialect) a parenthesised immediate -/
  | mem (v : Int)
  /-- `E`: an immediate / address / bit number / restart target / relative-jump target -/
  | imm (v : Int)
  deriving Repr, DecidableEq

/-- The operand of a 6502 instruction as written in source (addressing-mode spelling). -/
inductive Mode where
  | implied                 -- nothing
  | acc                     -- `a`
  | immediate (v : Int)     -- `#E`
  | direct (v : Int)        -- `E`
  | directX (v : Int)       -- `E, x`
  | directY (v : Int)       -- `E, y`
  | indirect (v : Int)      -- `(E)`
  | indirectX (v : Int)     -- `(E, x)`
  | indirectY (v : Int)     -- `(E), y`
  deriving Repr, DecidableEq

end Az65.Spec

/-
Spec for property C01: the Zilog Z80 instruction set as an independent oracle.

Everything here is written from the published opcode decomposition (an opcode byte is
`x = bits 7..6`, `y = bits 5..3`, `z = bits 2..0`, `p = y / 2`, `q = y % 2`; tables
`r = b c d e h l (hl) a`, `rp = bc de hl sp`, `rp2 = bc de hl af`, `cc = nz z nc c po pe p m`,
`alu = add adc sub sbc and xor or cp`, `rot = rlc rrc rl rr sla sra sll srl`; prefixes `CB`, `ED`,
`DD`/`FD` = "replace hl/h/l/(hl) by ix/ixh/ixl/(ix+d)", and `DD CB d op`), not from the assembler.

* `Instr`   — every documented instruction plus the ixh/ixl/iyh/iyl and `sll` forms; operand values are
              `Int`s exactly as written in source.
* `wf`      — every operand value fits its field and the form exists (`documented`).
* `enc`     — instruction ↦ bytes, `decode` — bytes ↦ instruction (and the remaining bytes).
* `read`    — (mnemonic, operands as written) ↦ instruction; `write` — a canonical spelling.
* `expected`— what an assembler has to emit for a source line (or `none`: it has to reject).

Dialect of this assembler that `read` follows on purpose: `jr` / `djnz` take the absolute target address;
`rst` takes the target address (0, 8, …, 0x38); `(ix+d)` takes `d` as a raw byte `0..255`; the carry
condition is the register token `c`; `add a,x` / `adc a,x` / `sbc a,x` carry an explicit `a`,
`sub x` / `and x` / `xor x` / `or x` / `cp x` do not; `(E)` spells the immediate `E` for exactly
`adc add cp sbc`. Not covered (the assembler does not advertise them): `in (c)` / `in f,(c)`,
`out (c),0`, the `DD CB d op` forms that also store into a register, duplicate `ED` encodings.
`decode` maps those, and useless `DD`/`FD` prefixes, to `none`.
-/
import Az65.Spec.Opnd

namespace Az65.Spec.Z80

/-! ## Register / condition / operation tables -/

/-- The two index registers, i.e. the two prefixes `DD` / `FD`. -/
inductive Idx | ix | iy
  deriving Repr, DecidableEq

/-- 8-bit registers, including the undocumented halves of `ix` / `iy`. -/
inductive R8 | b | c | d | e | h | l | a | ixh | ixl | iyh | iyl
  deriving Repr, DecidableEq

/-- An 8-bit operand location: a register, `(hl)`, or `(ix+d)` / `(iy+d)`. -/
inductive Loc8
  | reg (r : R8)
  | mhl
  | midx (i : Idx) (d : Int)
  deriving Repr, DecidableEq

/-- 16-bit registers of `ld rr,nn`, `inc`, `dec`, `add`, `ld rr,(nn)`: table `rp` plus `ix`, `iy`. -/
inductive R16 | bc | de | hl | sp | ix | iy
  deriving Repr, DecidableEq

/-- 16-bit registers of `push` / `pop`: table `rp2` plus `ix`, `iy`. -/
inductive Q16 | bc | de | hl | af | ix | iy
  deriving Repr, DecidableEq

/-- `hl` or the index register that replaces it (`jp (hl)`, `ld sp,hl`, `ex (sp),hl`). -/
inductive HX | hl | ix | iy
  deriving Repr, DecidableEq

/-- `bc` / `de` as the pointer of `ld a,(bc)` … -/
inductive BD | bc | de
  deriving Repr, DecidableEq

/-- Table `cc`. -/
inductive Cond | nz | z | nc | c | po | pe | p | m
  deriving Repr, DecidableEq

/-- Table `alu`. -/
inductive Alu | add | adc | sub | sbc | and | xor | or | cp
  deriving Repr, DecidableEq

/-- Table `rot` (with the undocumented `sll` in slot 6). -/
inductive Rot | rlc | rrc | rl | rr | sla | sra | sll | srl
  deriving Repr, DecidableEq

/-- `CB` page, `x = 1, 2, 3`. -/
inductive BitOp | bit | res | set
  deriving Repr, DecidableEq

/-- `x = 0, z = 7`: the accumulator / flag operations. -/
inductive AccOp | rlca | rrca | rla | rra | daa | cpl | scf | ccf
  deriving Repr, DecidableEq

/-- `ED` page, `x = 2`, `y = 4..7`, `z = 0..3`: table `bli`. -/
inductive BlkOp
  | ldi | cpi | ini | outi
  | ldd | cpd | ind | outd
  | ldir | cpir | inir | otir
  | lddr | cpdr | indr | otdr
  deriving Repr, DecidableEq

/-- A Z80 instruction with the operand values as written. -/
inductive Instr
  -- unprefixed, x = 0
  | nop
  | exAF                                  -- ex af,af'
  | djnz (target : Int)
  | jr (target : Int)
  | jrcc (cc : Cond) (target : Int)        -- only nz z nc c
  | ld16 (rp : R16) (nn : Int)            -- ld rr,nn
  | add16 (dst src : R16)                 -- add hl,rr / add ix,rr / add iy,rr
  | ldIndA (p : BD)                       -- ld (bc),a / ld (de),a
  | ldAInd (p : BD)                       -- ld a,(bc) / ld a,(de)
  | ldMemRR (nn : Int) (rp : R16)         -- ld (nn),rr
  | ldRRMem (rp : R16) (nn : Int)         -- ld rr,(nn)
  | ldMemA (nn : Int)                     -- ld (nn),a
  | ldAMem (nn : Int)                     -- ld a,(nn)
  | inc16 (rp : R16)
  | dec16 (rp : R16)
  | inc8 (l : Loc8)
  | dec8 (l : Loc8)
  | ld8n (l : Loc8) (n : Int)             -- ld r,n / ld (hl),n / ld (ix+d),n
  | acc (op : AccOp)
  -- x = 1
  | ld8 (dst src : Loc8)                  -- ld r,r'
  | halt
  -- x = 2
  | alu (op : Alu) (src : Loc8)
  -- x = 3
  | alun (op : Alu) (n : Int)
  | retcc (cc : Cond)
  | ret
  | pop (q : Q16)
  | push (q : Q16)
  | exx
  | jpInd (r : HX)                        -- jp (hl) / jp (ix) / jp (iy)
  | ldSP (r : HX)                         -- ld sp,hl / ld sp,ix / ld sp,iy
  | jpcc (cc : Cond) (nn : Int)
  | jp (nn : Int)
  | callcc (cc : Cond) (nn : Int)
  | call (nn : Int)
  | outNA (n : Int)                       -- out (n),a
  | inAN (n : Int)                        -- in a,(n)
  | exSP (r : HX)                         -- ex (sp),hl / ix / iy
  | exDEHL
  | di
  | ei
  | rst (target : Int)
  -- CB page
  | rot (op : Rot) (l : Loc8)
  | bitop (op : BitOp) (bit : Int) (l : Loc8)
  -- ED page
  | inC (r : R8)                          -- in r,(c)
  | outC (r : R8)                         -- out (c),r
  | sbc16 (rp : R16)                      -- sbc hl,rr
  | adc16 (rp : R16)                      -- adc hl,rr
  | neg
  | retn
  | reti
  | im (mode : Int)
  | ldIA | ldRA | ldAI | ldAR             -- ld i,a / ld r,a / ld a,i / ld a,r
  | rrd
  | rld
  | blk (op : BlkOp)
  deriving Repr, DecidableEq

/-! ## Index functions of the tables -/

/-- The opcode byte with fields `x`, `y`, `z`. -/
def opc (x y z : Nat) : Nat := 64 * x + 8 * y + z

def R8.isHalf : R8 → Bool
  | .ixh | .ixl | .iyh | .iyl => true
  | _ => false

/-- `b c d e h l a` -/
def R8.plain (r : R8) : Bool := !r.isHalf

def R8.isHL : R8 → Bool
  | .h | .l => true
  | _ => false

/-- Slot in table `r`; the index halves take the slots of `h` and `l`. -/
def R8.idx : R8 → Nat
  | .b => 0 | .c => 1 | .d => 2 | .e => 3 | .h => 4 | .l => 5 | .a => 7
  | .ixh => 4 | .ixl => 5 | .iyh => 4 | .iyl => 5

/-- The prefix an 8-bit register needs. -/
def R8.pfx : R8 → Option Idx
  | .ixh | .ixl => some .ix
  | .iyh | .iyl => some .iy
  | _ => none

/-- Table `r` without slot 6. -/
def R8.ofIdx : Nat → R8
  | 0 => .b | 1 => .c | 2 => .d | 3 => .e | 4 => .h | 5 => .l | _ => .a

/-- Table `r` under a `DD` / `FD` prefix: `h`, `l` become the halves of the index register. -/
def R8.ofIdxX (i : Idx) : Nat → R8
  | 0 => .b | 1 => .c | 2 => .d | 3 => .e
  | 4 => (match i with | .ix => .ixh | .iy => .iyh)
  | 5 => (match i with | .ix => .ixl | .iy => .iyl)
  | _ => .a

def Loc8.idx : Loc8 → Nat
  | .reg r => r.idx
  | .mhl => 6
  | .midx _ _ => 6

def Loc8.pfx : Loc8 → Option Idx
  | .reg r => r.pfx
  | .mhl => none
  | .midx i _ => some i

/-- The displacement byte that follows the opcode. -/
def Loc8.disp : Loc8 → List Nat
  | .midx _ d => [d.toNat]
  | _ => []

/-- Table `r`. -/
def Loc8.ofIdx (k : Nat) : Loc8 := if k = 6 then .mhl else .reg (R8.ofIdx k)

def Loc8.isHalf : Loc8 → Bool
  | .reg r => r.isHalf
  | _ => false

def prefixByte : Idx → Nat
  | .ix => 0xDD
  | .iy => 0xFD

def pfxBytes : Option Idx → List Nat
  | none => []
  | some i => [prefixByte i]

def R16.p : R16 → Nat
  | .bc => 0 | .de => 1 | .hl => 2 | .sp => 3 | .ix => 2 | .iy => 2

def R16.pfx : R16 → Option Idx
  | .ix => some .ix | .iy => some .iy | _ => none

/-- Table `rp`. -/
def R16.ofIdx : Nat → R16
  | 0 => .bc | 1 => .de | 2 => .hl | _ => .sp

def R16.ofIdxX (i : Idx) : Nat → R16
  | 0 => .bc | 1 => .de | 2 => (match i with | .ix => .ix | .iy => .iy) | _ => .sp

def R16.ofIdxReg : Idx → R16
  | .ix => .ix | .iy => .iy

/-- `bc de hl sp` -/
def R16.plain : R16 → Bool
  | .ix | .iy => false
  | _ => true

def Q16.p : Q16 → Nat
  | .bc => 0 | .de => 1 | .hl => 2 | .af => 3 | .ix => 2 | .iy => 2

def Q16.pfx : Q16 → Option Idx
  | .ix => some .ix | .iy => some .iy | _ => none

/-- Table `rp2`. -/
def Q16.ofIdx : Nat → Q16
  | 0 => .bc | 1 => .de | 2 => .hl | _ => .af

def Q16.ofIdxReg : Idx → Q16
  | .ix => .ix | .iy => .iy

def HX.pfx : HX → Option Idx
  | .hl => none | .ix => some .ix | .iy => some .iy

def HX.ofIdxReg : Idx → HX
  | .ix => .ix | .iy => .iy

def BD.p : BD → Nat
  | .bc => 0 | .de => 1

def Cond.idx : Cond → Nat
  | .nz => 0 | .z => 1 | .nc => 2 | .c => 3 | .po => 4 | .pe => 5 | .p => 6 | .m => 7

def Cond.ofIdx : Nat → Cond
  | 0 => .nz | 1 => .z | 2 => .nc | 3 => .c | 4 => .po | 5 => .pe | 6 => .p | _ => .m

/-- the conditions `jr` can test -/
def Cond.short : Cond → Bool
  | .nz | .z | .nc | .c => true
  | _ => false

def Alu.idx : Alu → Nat
  | .add => 0 | .adc => 1 | .sub => 2 | .sbc => 3 | .and => 4 | .xor => 5 | .or => 6 | .cp => 7

def Alu.ofIdx : Nat → Alu
  | 0 => .add | 1 => .adc | 2 => .sub | 3 => .sbc | 4 => .and | 5 => .xor | 6 => .or | _ => .cp

def Rot.idx : Rot → Nat
  | .rlc => 0 | .rrc => 1 | .rl => 2 | .rr => 3 | .sla => 4 | .sra => 5 | .sll => 6 | .srl => 7

def Rot.ofIdx : Nat → Rot
  | 0 => .rlc | 1 => .rrc | 2 => .rl | 3 => .rr | 4 => .sla | 5 => .sra | 6 => .sll | _ => .srl

/-- the `x` field of the `CB` page -/
def BitOp.x : BitOp → Nat
  | .bit => 1 | .res => 2 | .set => 3

def AccOp.idx : AccOp → Nat
  | .rlca => 0 | .rrca => 1 | .rla => 2 | .rra => 3 | .daa => 4 | .cpl => 5 | .scf => 6 | .ccf => 7

def AccOp.ofIdx : Nat → AccOp
  | 0 => .rlca | 1 => .rrca | 2 => .rla | 3 => .rra | 4 => .daa | 5 => .cpl | 6 => .scf | _ => .ccf

/-- row of table `bli`: `i`, `d`, `ir`, `dr` = `y` 4, 5, 6, 7 -/
def BlkOp.y : BlkOp → Nat
  | .ldi | .cpi | .ini | .outi => 4
  | .ldd | .cpd | .ind | .outd => 5
  | .ldir | .cpir | .inir | .otir => 6
  | .lddr | .cpdr | .indr | .otdr => 7

/-- column of table `bli`: `ld`, `cp`, `in`, `out` = `z` 0, 1, 2, 3 -/
def BlkOp.z : BlkOp → Nat
  | .ldi | .ldd | .ldir | .lddr => 0
  | .cpi | .cpd | .cpir | .cpdr => 1
  | .ini | .ind | .inir | .indr => 2
  | .outi | .outd | .otir | .otdr => 3

def BlkOp.ofYZ : Nat → Nat → BlkOp
  | 4, 0 => .ldi  | 4, 1 => .cpi  | 4, 2 => .ini  | 4, 3 => .outi
  | 5, 0 => .ldd  | 5, 1 => .cpd  | 5, 2 => .ind  | 5, 3 => .outd
  | 6, 0 => .ldir | 6, 1 => .cpir | 6, 2 => .inir | 6, 3 => .otir
  | 7, 0 => .lddr | 7, 1 => .cpdr | 7, 2 => .indr | _, _ => .otdr

/-- `im 0 / 1 / 2` sit in `y = 0 / 2 / 3` of `ED x=1 z=6`. -/
def imY (m : Int) : Nat := if m = 0 then 0 else if m = 1 then 2 else 3

/-! ## Well-formedness -/

def fits8 (n : Int) : Bool := decide (0 ≤ n) && decide (n ≤ 255)
def fits16 (n : Int) : Bool := decide (0 ≤ n) && decide (n ≤ 65535)
def fits3 (n : Int) : Bool := decide (0 ≤ n) && decide (n ≤ 7)

/-- a relative jump at `pc` (instruction length 2) reaches `target` -/
def fitsRel (pc : Nat) (target : Int) : Bool :=
  decide (-128 ≤ target - ((pc : Int) + 2)) && decide (target - ((pc : Int) + 2) ≤ 127)

def fitsRst (t : Int) : Bool := decide (0 ≤ t) && decide (t ≤ 56) && decide (t % 8 = 0)
def fitsIm (m : Int) : Bool := decide (m = 0) || decide (m = 1) || decide (m = 2)

/-- the displacement of an indexed location is a byte -/
def Loc8.fits : Loc8 → Bool
  | .midx _ d => fits8 d
  | _ => true

/-- Two registers can appear in one `ld r,r'`: one prefix covers the whole instruction, and under a
prefix `h` / `l` are not addressable. -/
def R8.compat (x y : R8) : Bool :=
  match x.pfx, y.pfx with
  | none, none => true
  | some i, some j => i == j
  | some _, none => !y.isHL
  | none, some _ => !x.isHL

/-- `ld dst,src` exists: not memory to memory; with `(ix+d)` the other side is one of `b c d e h l a`;
with `(hl)` likewise; two registers must be compatible. -/
def ld8Ok : Loc8 → Loc8 → Bool
  | .reg x, .reg y => x.compat y
  | .reg x, .mhl => x.plain
  | .mhl, .reg y => y.plain
  | .reg x, .midx _ _ => x.plain
  | .midx _ _, .reg y => y.plain
  | _, _ => false

/-- The instruction form exists (is documented, or is one of the ixh/ixl/iyh/iyl / `sll` forms). This is
the value-independent part of `wf`. -/
def documented : Instr → Bool
  | .jrcc cc _ => cc.short
  | .add16 d s => (d == .hl || d == .ix || d == .iy) && (s == .bc || s == .de || s == .sp || s == d)
  | .ld8 d s => ld8Ok d s
  | .rot _ l => !l.isHalf
  | .bitop _ _ l => !l.isHalf
  | .inC r => r.plain
  | .outC r => r.plain
  | .sbc16 rp => rp.plain
  | .adc16 rp => rp.plain
  | _ => true

/-- Every operand value fits its field. -/
def valuesOk (pc : Nat) : Instr → Bool
  | .djnz t => fitsRel pc t
  | .jr t => fitsRel pc t
  | .jrcc _ t => fitsRel pc t
  | .ld16 _ nn => fits16 nn
  | .ldMemRR nn _ => fits16 nn
  | .ldRRMem _ nn => fits16 nn
  | .ldMemA nn => fits16 nn
  | .ldAMem nn => fits16 nn
  | .inc8 l => l.fits
  | .dec8 l => l.fits
  | .ld8n l n => l.fits && fits8 n
  | .ld8 d s => d.fits && s.fits
  | .alu _ s => s.fits
  | .alun _ n => fits8 n
  | .jpcc _ nn => fits16 nn
  | .jp nn => fits16 nn
  | .callcc _ nn => fits16 nn
  | .call nn => fits16 nn
  | .outNA n => fits8 n
  | .inAN n => fits8 n
  | .rst t => fitsRst t
  | .rot _ l => l.fits
  | .bitop _ b l => fits3 b && l.fits
  | .im m => fitsIm m
  | _ => true

/-- The instruction exists and every operand fits its field (`pc` = address of the instruction). -/
def wf (pc : Nat) (i : Instr) : Bool := documented i && valuesOk pc i

/-! ## Encoder -/

/-- little-endian 16-bit word -/
def word (nn : Int) : List Nat := [nn.toNat % 256, nn.toNat / 256]

/-- the displacement byte of a relative jump at `pc` to `target` (two's complement) -/
def relByte (pc : Nat) (target : Int) : Nat := ((target - ((pc : Int) + 2)) % 256).toNat

/-- The bytes of an instruction located at address `pc`. -/
def enc (pc : Nat) : Instr → List Nat
  | .nop => [opc 0 0 0]
  | .exAF => [opc 0 1 0]
  | .djnz t => [opc 0 2 0, relByte pc t]
  | .jr t => [opc 0 3 0, relByte pc t]
  | .jrcc cc t => [opc 0 (4 + cc.idx) 0, relByte pc t]
  | .ld16 rp nn => pfxBytes rp.pfx ++ [opc 0 (2 * rp.p) 1] ++ word nn
  | .add16 d s => pfxBytes d.pfx ++ [opc 0 (2 * s.p + 1) 1]
  | .ldIndA p => [opc 0 (2 * p.p) 2]
  | .ldAInd p => [opc 0 (2 * p.p + 1) 2]
  | .ldMemRR nn rp =>
      if rp == .bc || rp == .de || rp == .sp then [0xED, opc 1 (2 * rp.p) 3] ++ word nn
      else pfxBytes rp.pfx ++ [opc 0 4 2] ++ word nn
  | .ldRRMem rp nn =>
      if rp == .bc || rp == .de || rp == .sp then [0xED, opc 1 (2 * rp.p + 1) 3] ++ word nn
      else pfxBytes rp.pfx ++ [opc 0 5 2] ++ word nn
  | .ldMemA nn => [opc 0 6 2] ++ word nn
  | .ldAMem nn => [opc 0 7 2] ++ word nn
  | .inc16 rp => pfxBytes rp.pfx ++ [opc 0 (2 * rp.p) 3]
  | .dec16 rp => pfxBytes rp.pfx ++ [opc 0 (2 * rp.p + 1) 3]
  | .inc8 l => pfxBytes l.pfx ++ [opc 0 l.idx 4] ++ l.disp
  | .dec8 l => pfxBytes l.pfx ++ [opc 0 l.idx 5] ++ l.disp
  | .ld8n l n => pfxBytes l.pfx ++ [opc 0 l.idx 6] ++ l.disp ++ [n.toNat]
  | .acc op => [opc 0 op.idx 7]
  | .ld8 d s => pfxBytes (d.pfx <|> s.pfx) ++ [opc 1 d.idx s.idx] ++ d.disp ++ s.disp
  | .halt => [opc 1 6 6]
  | .alu op s => pfxBytes s.pfx ++ [opc 2 op.idx s.idx] ++ s.disp
  | .alun op n => [opc 3 op.idx 6, n.toNat]
  | .retcc cc => [opc 3 cc.idx 0]
  | .ret => [opc 3 1 1]
  | .pop q => pfxBytes q.pfx ++ [opc 3 (2 * q.p) 1]
  | .push q => pfxBytes q.pfx ++ [opc 3 (2 * q.p) 5]
  | .exx => [opc 3 3 1]
  | .jpInd r => pfxBytes r.pfx ++ [opc 3 5 1]
  | .ldSP r => pfxBytes r.pfx ++ [opc 3 7 1]
  | .jpcc cc nn => [opc 3 cc.idx 2] ++ word nn
  | .jp nn => [opc 3 0 3] ++ word nn
  | .callcc cc nn => [opc 3 cc.idx 4] ++ word nn
  | .call nn => [opc 3 1 5] ++ word nn
  | .outNA n => [opc 3 2 3, n.toNat]
  | .inAN n => [opc 3 3 3, n.toNat]
  | .exSP r => pfxBytes r.pfx ++ [opc 3 4 3]
  | .exDEHL => [opc 3 5 3]
  | .di => [opc 3 6 3]
  | .ei => [opc 3 7 3]
  | .rst t => [opc 3 (t.toNat / 8) 7]
  | .rot op l => pfxBytes l.pfx ++ [0xCB] ++ l.disp ++ [opc 0 op.idx l.idx]
  | .bitop op b l => pfxBytes l.pfx ++ [0xCB] ++ l.disp ++ [opc op.x b.toNat l.idx]
  | .inC r => [0xED, opc 1 r.idx 0]
  | .outC r => [0xED, opc 1 r.idx 1]
  | .sbc16 rp => [0xED, opc 1 (2 * rp.p) 2]
  | .adc16 rp => [0xED, opc 1 (2 * rp.p + 1) 2]
  | .neg => [0xED, opc 1 0 4]
  | .retn => [0xED, opc 1 0 5]
  | .reti => [0xED, opc 1 1 5]
  | .im m => [0xED, opc 1 (imY m) 6]
  | .ldIA => [0xED, opc 1 0 7]
  | .ldRA => [0xED, opc 1 1 7]
  | .ldAI => [0xED, opc 1 2 7]
  | .ldAR => [0xED, opc 1 3 7]
  | .rrd => [0xED, opc 1 4 7]
  | .rld => [0xED, opc 1 5 7]
  | .blk op => [0xED, opc 2 op.y op.z]

/-! ## Decoder -/

/-- a 16-bit operand from its two bytes -/
def wordI (lo hi : Nat) : Int := ((lo + 256 * hi : Nat) : Int)

/-- the target of a relative jump at `pc` with displacement byte `e` -/
def relTarget (pc : Nat) (e : Nat) : Int :=
  if e < 128 then (pc : Int) + 2 + (e : Int) else (pc : Int) + 2 + (e : Int) - 256

abbrev Res := Option (Instr × List Nat)

/-- after `CB`: `rot[y] r[z]`, `bit y,r[z]`, `res y,r[z]`, `set y,r[z]` -/
def decodeCB : List Nat → Res
  | op :: rest =>
    let y := op / 8 % 8
    let l := Loc8.ofIdx (op % 8)
    match op / 64 with
    | 0 => some (.rot (Rot.ofIdx y) l, rest)
    | 1 => some (.bitop .bit (y : Int) l, rest)
    | 2 => some (.bitop .res (y : Int) l, rest)
    | 3 => some (.bitop .set (y : Int) l, rest)
    | _ => none
  | [] => none

/-- after `DD CB` / `FD CB`: displacement, then the `CB` opcode whose `z` must be 6 -/
def decodeIdxCB (i : Idx) : List Nat → Res
  | d :: op :: rest =>
    let y := op / 8 % 8
    let l := Loc8.midx i (d : Int)
    if op % 8 = 6 then
      match op / 64 with
      | 0 => some (.rot (Rot.ofIdx y) l, rest)
      | 1 => some (.bitop .bit (y : Int) l, rest)
      | 2 => some (.bitop .res (y : Int) l, rest)
      | 3 => some (.bitop .set (y : Int) l, rest)
      | _ => none
    else none
  | _ => none

/-- `ED x=1 z=3`: `ld (nn),rp[p]` / `ld rp[p],(nn)`; the `hl` slot duplicates the short form and is
not a documented encoding. -/
def decodeEDword (p q : Nat) : List Nat → Res
  | lo :: hi :: rest =>
    if p = 2 then none
    else if q = 0 then some (.ldMemRR (wordI lo hi) (R16.ofIdx p), rest)
    else some (.ldRRMem (R16.ofIdx p) (wordI lo hi), rest)
  | _ => none

/-- after `ED` -/
def decodeED : List Nat → Res
  | op :: rest =>
    let y := op / 8 % 8
    let z := op % 8
    let p := y / 2
    let q := y % 2
    match op / 64 with
    | 1 =>
      match z with
      | 0 => if y = 6 then none else some (.inC (R8.ofIdx y), rest)
      | 1 => if y = 6 then none else some (.outC (R8.ofIdx y), rest)
      | 2 => if q = 0 then some (.sbc16 (R16.ofIdx p), rest) else some (.adc16 (R16.ofIdx p), rest)
      | 3 => decodeEDword p q rest
      | 4 => if y = 0 then some (.neg, rest) else none
      | 5 => if y = 0 then some (.retn, rest) else if y = 1 then some (.reti, rest) else none
      | 6 =>
        match y with
        | 0 => some (.im 0, rest)
        | 2 => some (.im 1, rest)
        | 3 => some (.im 2, rest)
        | _ => none
      | _ =>
        match y with
        | 0 => some (.ldIA, rest)
        | 1 => some (.ldRA, rest)
        | 2 => some (.ldAI, rest)
        | 3 => some (.ldAR, rest)
        | 4 => some (.rrd, rest)
        | 5 => some (.rld, rest)
        | _ => none
    | 2 => if 4 ≤ y ∧ z ≤ 3 then some (.blk (BlkOp.ofYZ y z), rest) else none
    | _ => none
  | [] => none

/-- one byte operand -/
def take1 (f : Int → Instr) : List Nat → Res
  | n :: rest => some (f (n : Int), rest)
  | [] => none

/-- one 16-bit operand -/
def take2 (f : Int → Instr) : List Nat → Res
  | lo :: hi :: rest => some (f (wordI lo hi), rest)
  | _ => none

/-- one relative displacement -/
def takeRel (pc : Nat) (f : Int → Instr) : List Nat → Res
  | e :: rest => some (f (relTarget pc e), rest)
  | [] => none

/-- unprefixed, `x = 0` -/
def decodeX0 (pc : Nat) (y z : Nat) (rest : List Nat) : Res :=
  let p := y / 2
  let q := y % 2
  match z with
  | 0 =>
    match y with
    | 0 => some (.nop, rest)
    | 1 => some (.exAF, rest)
    | 2 => takeRel pc .djnz rest
    | 3 => takeRel pc .jr rest
    | _ => takeRel pc (.jrcc (Cond.ofIdx (y - 4))) rest
  | 1 => if q = 0 then take2 (.ld16 (R16.ofIdx p)) rest else some (.add16 .hl (R16.ofIdx p), rest)
  | 2 =>
    match y with
    | 0 => some (.ldIndA .bc, rest)
    | 1 => some (.ldAInd .bc, rest)
    | 2 => some (.ldIndA .de, rest)
    | 3 => some (.ldAInd .de, rest)
    | 4 => take2 (fun nn => .ldMemRR nn .hl) rest
    | 5 => take2 (.ldRRMem .hl) rest
    | 6 => take2 .ldMemA rest
    | _ => take2 .ldAMem rest
  | 3 => if q = 0 then some (.inc16 (R16.ofIdx p), rest) else some (.dec16 (R16.ofIdx p), rest)
  | 4 => some (.inc8 (Loc8.ofIdx y), rest)
  | 5 => some (.dec8 (Loc8.ofIdx y), rest)
  | 6 => take1 (.ld8n (Loc8.ofIdx y)) rest
  | _ => some (.acc (AccOp.ofIdx y), rest)

/-- unprefixed, `x = 3` (the four prefix bytes are handled by `decode`) -/
def decodeX3 (y z : Nat) (rest : List Nat) : Res :=
  let p := y / 2
  let q := y % 2
  match z with
  | 0 => some (.retcc (Cond.ofIdx y), rest)
  | 1 =>
    if q = 0 then some (.pop (Q16.ofIdx p), rest)
    else match p with
      | 0 => some (.ret, rest)
      | 1 => some (.exx, rest)
      | 2 => some (.jpInd .hl, rest)
      | _ => some (.ldSP .hl, rest)
  | 2 => take2 (.jpcc (Cond.ofIdx y)) rest
  | 3 =>
    match y with
    | 0 => take2 .jp rest
    | 2 => take1 .outNA rest
    | 3 => take1 .inAN rest
    | 4 => some (.exSP .hl, rest)
    | 5 => some (.exDEHL, rest)
    | 6 => some (.di, rest)
    | 7 => some (.ei, rest)
    | _ => none
  | 4 => take2 (.callcc (Cond.ofIdx y)) rest
  | 5 =>
    if q = 0 then some (.push (Q16.ofIdx p), rest)
    else if p = 0 then take2 .call rest else none
  | 6 => take1 (.alun (Alu.ofIdx y)) rest
  | _ => some (.rst (((8 * y : Nat) : Int)), rest)

/-- an instruction whose operand is `(ix+d)`: the displacement follows the opcode -/
def takeDisp (i : Idx) (f : Loc8 → Instr) : List Nat → Res
  | d :: rest => some (f (.midx i (d : Int)), rest)
  | [] => none

/-- `ld (ix+d),n` -/
def takeDispN (i : Idx) : List Nat → Res
  | d :: n :: rest => some (.ld8n (.midx i (d : Int)) (n : Int), rest)
  | _ => none

/-- after `DD` / `FD`, `x = 0`: only the opcodes that mention `hl`, `h`, `l` or `(hl)` -/
def decodeIdxX0 (i : Idx) (y z : Nat) (rest : List Nat) : Res :=
  let p := y / 2
  let q := y % 2
  match z with
  | 1 =>
    if q = 1 then some (.add16 (R16.ofIdxReg i) (R16.ofIdxX i p), rest)
    else if p = 2 then take2 (.ld16 (R16.ofIdxReg i)) rest else none
  | 2 =>
    if y = 4 then take2 (fun nn => .ldMemRR nn (R16.ofIdxReg i)) rest
    else if y = 5 then take2 (.ldRRMem (R16.ofIdxReg i)) rest
    else none
  | 3 =>
    if y = 4 then some (.inc16 (R16.ofIdxReg i), rest)
    else if y = 5 then some (.dec16 (R16.ofIdxReg i), rest)
    else none
  | 4 =>
    if y = 6 then takeDisp i .inc8 rest
    else if y = 4 ∨ y = 5 then some (.inc8 (.reg (R8.ofIdxX i y)), rest) else none
  | 5 =>
    if y = 6 then takeDisp i .dec8 rest
    else if y = 4 ∨ y = 5 then some (.dec8 (.reg (R8.ofIdxX i y)), rest) else none
  | 6 =>
    if y = 6 then takeDispN i rest
    else if y = 4 ∨ y = 5 then take1 (.ld8n (.reg (R8.ofIdxX i y))) rest else none
  | _ => none

/-- after `DD` / `FD`, `x = 1`: `ld (ix+d),r` / `ld r,(ix+d)` keep the plain `h`, `l`; otherwise at least
one side must be an index half -/
def decodeIdxX1 (i : Idx) (y z : Nat) (rest : List Nat) : Res :=
  if y = 6 then
    if z = 6 then none
    else takeDisp i (fun l => .ld8 l (.reg (R8.ofIdx z))) rest
  else if z = 6 then takeDisp i (fun l => .ld8 (.reg (R8.ofIdx y)) l) rest
  else if y = 4 ∨ y = 5 ∨ z = 4 ∨ z = 5 then
    some (.ld8 (.reg (R8.ofIdxX i y)) (.reg (R8.ofIdxX i z)), rest)
  else none

/-- after `DD` / `FD`, `x = 2` -/
def decodeIdxX2 (i : Idx) (y z : Nat) (rest : List Nat) : Res :=
  if z = 6 then takeDisp i (.alu (Alu.ofIdx y)) rest
  else if z = 4 ∨ z = 5 then some (.alu (Alu.ofIdx y) (.reg (R8.ofIdxX i z)), rest)
  else none

/-- after `DD` / `FD`, `x = 3` -/
def decodeIdxX3 (i : Idx) (y z : Nat) (rest : List Nat) : Res :=
  match z with
  | 1 =>
    match y with
    | 4 => some (.pop (Q16.ofIdxReg i), rest)
    | 5 => some (.jpInd (HX.ofIdxReg i), rest)
    | 7 => some (.ldSP (HX.ofIdxReg i), rest)
    | _ => none
  | 3 => if y = 4 then some (.exSP (HX.ofIdxReg i), rest) else none
  | 5 => if y = 4 then some (.push (Q16.ofIdxReg i), rest) else none
  | _ => none

/-- after `DD` / `FD` -/
def decodeIdx (i : Idx) : List Nat → Res
  | op :: rest =>
    if op = 0xCB then decodeIdxCB i rest
    else
      let y := op / 8 % 8
      let z := op % 8
      match op / 64 with
      | 0 => decodeIdxX0 i y z rest
      | 1 => decodeIdxX1 i y z rest
      | 2 => decodeIdxX2 i y z rest
      | 3 => decodeIdxX3 i y z rest
      | _ => none
  | [] => none

/-- unprefixed opcode -/
def decodeMain (pc : Nat) (op : Nat) (rest : List Nat) : Res :=
  let y := op / 8 % 8
  let z := op % 8
  match op / 64 with
  | 0 => decodeX0 pc y z rest
  | 1 => if y = 6 ∧ z = 6 then some (.halt, rest) else some (.ld8 (Loc8.ofIdx y) (Loc8.ofIdx z), rest)
  | 2 => some (.alu (Alu.ofIdx y) (Loc8.ofIdx z), rest)
  | 3 => decodeX3 y z rest
  | _ => none

/-- Decode the one instruction that starts the byte string (located at address `pc`); returns it and the
remaining bytes. Undocumented duplicate encodings and useless prefixes decode to `none`. -/
def decode (pc : Nat) : List Nat → Res
  | op :: rest =>
    if op = 0xCB then decodeCB rest
    else if op = 0xED then decodeED rest
    else if op = 0xDD then decodeIdx .ix rest
    else if op = 0xFD then decodeIdx .iy rest
    else decodeMain pc op rest
  | [] => none

/-! ## Source syntax -/

def Idx.name : Idx → String
  | .ix => "ix" | .iy => "iy"

def Idx.ofName : String → Option Idx
  | "ix" => some .ix | "iy" => some .iy | _ => none

def R8.name : R8 → String
  | .b => "b" | .c => "c" | .d => "d" | .e => "e" | .h => "h" | .l => "l" | .a => "a"
  | .ixh => "ixh" | .ixl => "ixl" | .iyh => "iyh" | .iyl => "iyl"

def R8.ofName : String → Option R8
  | "b" => some .b | "c" => some .c | "d" => some .d | "e" => some .e | "h" => some .h
  | "l" => some .l | "a" => some .a
  | "ixh" => some .ixh | "ixl" => some .ixl | "iyh" => some .iyh | "iyl" => some .iyl
  | _ => none

def R16.name : R16 → String
  | .bc => "bc" | .de => "de" | .hl => "hl" | .sp => "sp" | .ix => "ix" | .iy => "iy"

def R16.ofName : String → Option R16
  | "bc" => some .bc | "de" => some .de | "hl" => some .hl | "sp" => some .sp
  | "ix" => some .ix | "iy" => some .iy | _ => none

def Q16.name : Q16 → String
  | .bc => "bc" | .de => "de" | .hl => "hl" | .af => "af" | .ix => "ix" | .iy => "iy"

def Q16.ofName : String → Option Q16
  | "bc" => some .bc | "de" => some .de | "hl" => some .hl | "af" => some .af
  | "ix" => some .ix | "iy" => some .iy | _ => none

def HX.name : HX → String
  | .hl => "hl" | .ix => "ix" | .iy => "iy"

def HX.ofName : String → Option HX
  | "hl" => some .hl | "ix" => some .ix | "iy" => some .iy | _ => none

def BD.name : BD → String
  | .bc => "bc" | .de => "de"

def BD.ofName : String → Option BD
  | "bc" => some .bc | "de" => some .de | _ => none

def Loc8.toOpnd : Loc8 → Opnd
  | .reg r => .reg r.name
  | .mhl => .ind "hl"
  | .midx i d => .idx i.name d

def Loc8.ofOpnd : Opnd → Option Loc8
  | .reg s => (R8.ofName s).map .reg
  | .ind s => if s = "hl" then some .mhl else none
  | .idx s d => (Idx.ofName s).map (.midx · d)
  | _ => none

/-- the carry condition is the register token `c` -/
def Cond.toOpnd : Cond → Opnd
  | .nz => .flag "nz" | .z => .flag "z" | .nc => .flag "nc" | .c => .reg "c"
  | .po => .flag "po" | .pe => .flag "pe" | .p => .flag "p" | .m => .flag "m"

def Cond.ofOpnd : Opnd → Option Cond
  | .reg s => if s = "c" then some .c else none
  | .flag "nz" => some .nz | .flag "z" => some .z | .flag "nc" => some .nc
  | .flag "po" => some .po | .flag "pe" => some .pe | .flag "p" => some .p | .flag "m" => some .m
  | _ => none

def Alu.name : Alu → String
  | .add => "add" | .adc => "adc" | .sub => "sub" | .sbc => "sbc"
  | .and => "and" | .xor => "xor" | .or => "or" | .cp => "cp"

/-- `add`, `adc`, `sbc` are written with an explicit `a,`; `sub and xor or cp` without. -/
def Alu.explicitA : Alu → Bool
  | .add | .adc | .sbc => true
  | _ => false

/-- dialect: exactly `adc add cp sbc` take `(E)` as a spelling of the immediate `E` -/
def Alu.parenImm : Alu → Bool
  | .add | .adc | .sbc | .cp => true
  | _ => false

def Rot.name : Rot → String
  | .rlc => "rlc" | .rrc => "rrc" | .rl => "rl" | .rr => "rr"
  | .sla => "sla" | .sra => "sra" | .sll => "sll" | .srl => "srl"

def BitOp.name : BitOp → String
  | .bit => "bit" | .res => "res" | .set => "set"

def AccOp.name : AccOp → String
  | .rlca => "rlca" | .rrca => "rrca" | .rla => "rla" | .rra => "rra"
  | .daa => "daa" | .cpl => "cpl" | .scf => "scf" | .ccf => "ccf"

def BlkOp.name : BlkOp → String
  | .ldi => "ldi" | .cpi => "cpi" | .ini => "ini" | .outi => "outi"
  | .ldd => "ldd" | .cpd => "cpd" | .ind => "ind" | .outd => "outd"
  | .ldir => "ldir" | .cpir => "cpir" | .inir => "inir" | .otir => "otir"
  | .lddr => "lddr" | .cpdr => "cpdr" | .indr => "indr" | .otdr => "otdr"

/-- A canonical source spelling: mnemonic and operands. -/
def write : Instr → String × List Opnd
  | .nop => ("nop", [])
  | .exAF => ("ex", [.reg "af", .reg "af'"])
  | .djnz t => ("djnz", [.imm t])
  | .jr t => ("jr", [.imm t])
  | .jrcc cc t => ("jr", [cc.toOpnd, .imm t])
  | .ld16 rp nn => ("ld", [.reg rp.name, .imm nn])
  | .add16 d s => ("add", [.reg d.name, .reg s.name])
  | .ldIndA p => ("ld", [.ind p.name, .reg "a"])
  | .ldAInd p => ("ld", [.reg "a", .ind p.name])
  | .ldMemRR nn rp => ("ld", [.mem nn, .reg rp.name])
  | .ldRRMem rp nn => ("ld", [.reg rp.name, .mem nn])
  | .ldMemA nn => ("ld", [.mem nn, .reg "a"])
  | .ldAMem nn => ("ld", [.reg "a", .mem nn])
  | .inc16 rp => ("inc", [.reg rp.name])
  | .dec16 rp => ("dec", [.reg rp.name])
  | .inc8 l => ("inc", [l.toOpnd])
  | .dec8 l => ("dec", [l.toOpnd])
  | .ld8n l n => ("ld", [l.toOpnd, .imm n])
  | .acc op => (op.name, [])
  | .ld8 d s => ("ld", [d.toOpnd, s.toOpnd])
  | .halt => ("halt", [])
  | .alu op s => (op.name, if op.explicitA then [.reg "a", s.toOpnd] else [s.toOpnd])
  | .alun op n => (op.name, if op.explicitA then [.reg "a", .imm n] else [.imm n])
  | .retcc cc => ("ret", [cc.toOpnd])
  | .ret => ("ret", [])
  | .pop q => ("pop", [.reg q.name])
  | .push q => ("push", [.reg q.name])
  | .exx => ("exx", [])
  | .jpInd r => ("jp", [.ind r.name])
  | .ldSP r => ("ld", [.reg "sp", .reg r.name])
  | .jpcc cc nn => ("jp", [cc.toOpnd, .imm nn])
  | .jp nn => ("jp", [.imm nn])
  | .callcc cc nn => ("call", [cc.toOpnd, .imm nn])
  | .call nn => ("call", [.imm nn])
  | .outNA n => ("out", [.mem n, .reg "a"])
  | .inAN n => ("in", [.reg "a", .mem n])
  | .exSP r => ("ex", [.ind "sp", .reg r.name])
  | .exDEHL => ("ex", [.reg "de", .reg "hl"])
  | .di => ("di", [])
  | .ei => ("ei", [])
  | .rst t => ("rst", [.imm t])
  | .rot op l => (op.name, [l.toOpnd])
  | .bitop op b l => (op.name, [.imm b, l.toOpnd])
  | .inC r => ("in", [.reg r.name, .ind "c"])
  | .outC r => ("out", [.ind "c", .reg r.name])
  | .sbc16 rp => ("sbc", [.reg "hl", .reg rp.name])
  | .adc16 rp => ("adc", [.reg "hl", .reg rp.name])
  | .neg => ("neg", [])
  | .retn => ("retn", [])
  | .reti => ("reti", [])
  | .im m => ("im", [.imm m])
  | .ldIA => ("ld", [.reg "i", .reg "a"])
  | .ldRA => ("ld", [.reg "r", .reg "a"])
  | .ldAI => ("ld", [.reg "a", .reg "i"])
  | .ldAR => ("ld", [.reg "a", .reg "r"])
  | .rrd => ("rrd", [])
  | .rld => ("rld", [])
  | .blk op => (op.name, [])

/-- the 8-bit ALU source operand: a location, an immediate, or (dialect, some mnemonics) `(E)` -/
def readAluSrc (op : Alu) : Opnd → Option Instr
  | .imm n => some (.alun op n)
  | .mem n => if op.parenImm then some (.alun op n) else none
  | o => (Loc8.ofOpnd o).map (.alu op)

/-- `add a,x` / `adc a,x` / `sbc a,x`, or the 16-bit forms -/
def readAluA (op : Alu) (wide : R16 → R16 → Option Instr) : List Opnd → Option Instr
  | [.reg d, x] =>
    if d = "a" then readAluSrc op x
    else match x with
      | .reg s => (R16.ofName d).bind fun d' => (R16.ofName s).bind fun s' => wide d' s'
      | _ => none
  | _ => none

/-- `sub x` / `and x` / `xor x` / `or x` / `cp x` -/
def readAlu1 (op : Alu) : List Opnd → Option Instr
  | [x] => readAluSrc op x
  | _ => none

def readNullary (i : Instr) : List Opnd → Option Instr
  | [] => some i
  | _ => none

def readRot (op : Rot) : List Opnd → Option Instr
  | [x] => (Loc8.ofOpnd x).map (.rot op)
  | _ => none

def readBit (op : BitOp) : List Opnd → Option Instr
  | [.imm b, x] => (Loc8.ofOpnd x).map (.bitop op b)
  | _ => none

/-- `inc` / `dec` -/
def readIncDec (f8 : Loc8 → Instr) (f16 : R16 → Instr) : List Opnd → Option Instr
  | [x] =>
    match Loc8.ofOpnd x with
    | some l => some (f8 l)
    | none => match x with
      | .reg s => (R16.ofName s).map f16
      | _ => none
  | _ => none

/-- `ld` with two register tokens -/
def readLdRegReg (d s : String) : Option Instr :=
  if d = "i" ∧ s = "a" then some .ldIA
  else if d = "r" ∧ s = "a" then some .ldRA
  else if d = "a" ∧ s = "i" then some .ldAI
  else if d = "a" ∧ s = "r" then some .ldAR
  else if d = "sp" then (HX.ofName s).map .ldSP
  else (R8.ofName d).bind fun d' => (R8.ofName s).map fun s' => .ld8 (.reg d') (.reg s')

def readLd : List Opnd → Option Instr
  | [.reg d, .reg s] => readLdRegReg d s
  | [.reg d, .imm n] =>
    match R8.ofName d with
    | some r => some (.ld8n (.reg r) n)
    | none => (R16.ofName d).map (.ld16 · n)
  | [.reg d, .mem nn] =>
    if d = "a" then some (.ldAMem nn) else (R16.ofName d).map (.ldRRMem · nn)
  | [.mem nn, .reg s] =>
    if s = "a" then some (.ldMemA nn) else (R16.ofName s).map (.ldMemRR nn)
  | [.reg d, .ind s] =>
    if s = "hl" then (R8.ofName d).map fun r => .ld8 (.reg r) .mhl
    else if d = "a" then (BD.ofName s).map .ldAInd else none
  | [.ind d, .reg s] =>
    if d = "hl" then (R8.ofName s).map fun r => .ld8 .mhl (.reg r)
    else if s = "a" then (BD.ofName d).map .ldIndA else none
  | [.ind d, .imm n] => if d = "hl" then some (.ld8n .mhl n) else none
  | [.idx i d, .imm n] => (Idx.ofName i).map fun i' => .ld8n (.midx i' d) n
  | [d, s] => (Loc8.ofOpnd d).bind fun d' => (Loc8.ofOpnd s).map fun s' => .ld8 d' s'
  | _ => none

def readJr : List Opnd → Option Instr
  | [.imm t] => some (.jr t)
  | [c, .imm t] => (Cond.ofOpnd c).map (.jrcc · t)
  | _ => none

def readJp : List Opnd → Option Instr
  | [.imm nn] => some (.jp nn)
  | [.ind s] => (HX.ofName s).map .jpInd
  | [c, .imm nn] => (Cond.ofOpnd c).map (.jpcc · nn)
  | _ => none

def readCall : List Opnd → Option Instr
  | [.imm nn] => some (.call nn)
  | [c, .imm nn] => (Cond.ofOpnd c).map (.callcc · nn)
  | _ => none

def readRet : List Opnd → Option Instr
  | [] => some .ret
  | [c] => (Cond.ofOpnd c).map .retcc
  | _ => none

def readEx : List Opnd → Option Instr
  | [.reg d, .reg s] =>
    if d = "af" ∧ s = "af'" then some .exAF
    else if d = "de" ∧ s = "hl" then some .exDEHL
    else none
  | [.ind d, .reg s] => if d = "sp" then (HX.ofName s).map .exSP else none
  | _ => none

def readIn : List Opnd → Option Instr
  | [.reg d, .ind s] => if s = "c" then (R8.ofName d).map .inC else none
  | [.reg d, .mem n] => if d = "a" then some (.inAN n) else none
  | _ => none

def readOut : List Opnd → Option Instr
  | [.ind d, .reg s] => if d = "c" then (R8.ofName s).map .outC else none
  | [.mem n, .reg s] => if s = "a" then some (.outNA n) else none
  | _ => none

def readPushPop (f : Q16 → Instr) : List Opnd → Option Instr
  | [.reg s] => (Q16.ofName s).map f
  | _ => none

def readImm (f : Int → Instr) : List Opnd → Option Instr
  | [.imm n] => some (f n)
  | _ => none

/-- The purely syntactic reading: which instruction a mnemonic with these operands denotes, before
checking that the form exists. -/
def readRaw (m : String) (ops : List Opnd) : Option Instr :=
  match m with
  | "adc" => readAluA .adc (fun d s => if d = .hl then some (.adc16 s) else none) ops
  | "add" => readAluA .add (fun d s => some (.add16 d s)) ops
  | "and" => readAlu1 .and ops
  | "bit" => readBit .bit ops
  | "call" => readCall ops
  | "ccf" => readNullary (.acc .ccf) ops
  | "cp" => readAlu1 .cp ops
  | "cpd" => readNullary (.blk .cpd) ops
  | "cpdr" => readNullary (.blk .cpdr) ops
  | "cpi" => readNullary (.blk .cpi) ops
  | "cpir" => readNullary (.blk .cpir) ops
  | "cpl" => readNullary (.acc .cpl) ops
  | "daa" => readNullary (.acc .daa) ops
  | "dec" => readIncDec .dec8 .dec16 ops
  | "di" => readNullary .di ops
  | "djnz" => readImm .djnz ops
  | "ei" => readNullary .ei ops
  | "ex" => readEx ops
  | "exx" => readNullary .exx ops
  | "halt" => readNullary .halt ops
  | "im" => readImm .im ops
  | "in" => readIn ops
  | "inc" => readIncDec .inc8 .inc16 ops
  | "ind" => readNullary (.blk .ind) ops
  | "indr" => readNullary (.blk .indr) ops
  | "ini" => readNullary (.blk .ini) ops
  | "inir" => readNullary (.blk .inir) ops
  | "jp" => readJp ops
  | "jr" => readJr ops
  | "ld" => readLd ops
  | "ldd" => readNullary (.blk .ldd) ops
  | "lddr" => readNullary (.blk .lddr) ops
  | "ldi" => readNullary (.blk .ldi) ops
  | "ldir" => readNullary (.blk .ldir) ops
  | "neg" => readNullary .neg ops
  | "nop" => readNullary .nop ops
  | "or" => readAlu1 .or ops
  | "otdr" => readNullary (.blk .otdr) ops
  | "otir" => readNullary (.blk .otir) ops
  | "out" => readOut ops
  | "outd" => readNullary (.blk .outd) ops
  | "outi" => readNullary (.blk .outi) ops
  | "pop" => readPushPop .pop ops
  | "push" => readPushPop .push ops
  | "res" => readBit .res ops
  | "ret" => readRet ops
  | "reti" => readNullary .reti ops
  | "retn" => readNullary .retn ops
  | "rl" => readRot .rl ops
  | "rla" => readNullary (.acc .rla) ops
  | "rlc" => readRot .rlc ops
  | "rlca" => readNullary (.acc .rlca) ops
  | "rld" => readNullary .rld ops
  | "rr" => readRot .rr ops
  | "rra" => readNullary (.acc .rra) ops
  | "rrc" => readRot .rrc ops
  | "rrca" => readNullary (.acc .rrca) ops
  | "rrd" => readNullary .rrd ops
  | "rst" => readImm .rst ops
  | "sbc" => readAluA .sbc (fun d s => if d = .hl then some (.sbc16 s) else none) ops
  | "scf" => readNullary (.acc .scf) ops
  | "set" => readBit .set ops
  | "sla" => readRot .sla ops
  | "sll" => readRot .sll ops
  | "sra" => readRot .sra ops
  | "srl" => readRot .srl ops
  | "sub" => readAlu1 .sub ops
  | "xor" => readAlu1 .xor ops
  | _ => none

/-- The standard Zilog reading of a source line (mnemonic in lower case, operands as written), with the
dialect spellings listed in the header. `none`: no such instruction. -/
def read (m : String) (ops : List Opnd) : Option Instr :=
  (readRaw m ops).filter documented

/-- The bytes an assembler has to emit for this source line at address `pc`; `none` = it has to reject
the line (no such instruction, or an operand does not fit its field). -/
def expected (pc : Nat) (m : String) (ops : List Opnd) : Option (List Nat) :=
  (read m ops).bind fun i => if wf pc i then some (enc pc i) else none

/-! ## One representative of every instruction form -/

def allIdx : List Idx := [.ix, .iy]
def allR8 : List R8 := [.b, .c, .d, .e, .h, .l, .a, .ixh, .ixl, .iyh, .iyl]
/-- every location, index displacement 5 -/
def allLoc8 : List Loc8 := allR8.map .reg ++ [.mhl, .midx .ix 5, .midx .iy 5]
def allR16 : List R16 := [.bc, .de, .hl, .sp, .ix, .iy]
def allQ16 : List Q16 := [.bc, .de, .hl, .af, .ix, .iy]
def allHX : List HX := [.hl, .ix, .iy]
def allBD : List BD := [.bc, .de]
def allCond : List Cond := [.nz, .z, .nc, .c, .po, .pe, .p, .m]
def allAlu : List Alu := [.add, .adc, .sub, .sbc, .and, .xor, .or, .cp]
def allRot : List Rot := [.rlc, .rrc, .rl, .rr, .sla, .sra, .sll, .srl]
def allBitOp : List BitOp := [.bit, .res, .set]
def allAccOp : List AccOp := [.rlca, .rrca, .rla, .rra, .daa, .cpl, .scf, .ccf]
def allBlkOp : List BlkOp :=
  [.ldi, .cpi, .ini, .outi, .ldd, .cpd, .ind, .outd, .ldir, .cpir, .inir, .otir, .lddr, .cpdr, .indr, .otdr]
def allBits : List Int := [0, 1, 2, 3, 4, 5, 6, 7]

/-- every combination of the finite parameters, junk included; values: `n = 0x42`, `nn = 0x1234`,
`d = 5`, relative target `0x10` -/
def allCandidates : List Instr :=
  [.nop, .exAF, .djnz 0x10, .jr 0x10]
  ++ allCond.map (.jrcc · 0x10)
  ++ allR16.map (.ld16 · 0x1234)
  ++ allR16.flatMap (fun d => allR16.map (.add16 d))
  ++ allBD.map .ldIndA ++ allBD.map .ldAInd
  ++ allR16.map (.ldMemRR 0x1234) ++ allR16.map (.ldRRMem · 0x1234)
  ++ [.ldMemA 0x1234, .ldAMem 0x1234]
  ++ allR16.map .inc16 ++ allR16.map .dec16
  ++ allLoc8.map .inc8 ++ allLoc8.map .dec8 ++ allLoc8.map (.ld8n · 0x42)
  ++ allAccOp.map .acc
  ++ allLoc8.flatMap (fun d => allLoc8.map (.ld8 d))
  ++ [.halt]
  ++ allAlu.flatMap (fun op => allLoc8.map (.alu op))
  ++ allAlu.map (.alun · 0x42)
  ++ allCond.map .retcc ++ [.ret]
  ++ allQ16.map .pop ++ allQ16.map .push
  ++ [.exx] ++ allHX.map .jpInd ++ allHX.map .ldSP
  ++ allCond.map (.jpcc · 0x1234) ++ [.jp 0x1234]
  ++ allCond.map (.callcc · 0x1234) ++ [.call 0x1234]
  ++ [.outNA 0x42, .inAN 0x42] ++ allHX.map .exSP ++ [.exDEHL, .di, .ei]
  ++ allBits.map (fun y => .rst (8 * y))
  ++ allRot.flatMap (fun op => allLoc8.map (.rot op))
  ++ allBitOp.flatMap (fun op => allBits.flatMap fun b => allLoc8.map (.bitop op b))
  ++ allR8.map .inC ++ allR8.map .outC
  ++ allR16.map .sbc16 ++ allR16.map .adc16
  ++ [.neg, .retn, .reti, .im 0, .im 1, .im 2, .ldIA, .ldRA, .ldAI, .ldAR, .rrd, .rld]
  ++ allBlkOp.map .blk

/-- One representative of every instruction form that exists. -/
def allShapes : List Instr := allCandidates.filter documented

end Az65.Spec.Z80

import Az65.Model.Tables
import Az65.Model.Expr
import Az65.Lemmas.LexLemmas
/-
C13 (lexer and evaluator part) — "Every input ends in a binary or a diagnostic — never a crash."

* the lexer never reaches its one panic site (`InShiftSymbol` `unwrap`), for every character
  sequence and EVERY name table (so in particular for the three tables as they are in the source
  now; `tables_ok` additionally records that there the buffer is `<<` or `>>`);
* one `Lexer::next` always terminates within the fuel the model gives it (the fuel-bounded
  function is the unbounded loop);
* the evaluator's lazy-symbol recursion never runs out of the fuel the model gives it.
-/
namespace Az65.Thm.C13
open Az65

/-! ### 1. the lexer never panics -/

theorem lookupName_mem {tbl : List (String × String)} {s v : String}
    (h : lookupName tbl s = some v) : (s, v) ∈ tbl := by
  induction tbl with
  | nil => cases h
  | cons kv r ih =>
    obtain ⟨k, w⟩ := kv
    unfold lookupName at h
    split at h
    · rename_i hk; cases h; subst hk; exact List.mem_cons_self
    · exact List.mem_cons_of_mem _ (ih h)

/-- The state invariant: in `InShiftSymbol` the buffer is a spelling found in the symbol table
(that is how the machine got there), so the second lookup's `unwrap` cannot fail. -/
def ShiftOk (T : LexTables) (lx : Lexer) : Prop :=
  lx.state = .inShiftSymbol → (lookupName T.symbols (String.ofList lx.buf)).isSome = true

def NoCrash (e : LexErr) : Prop := ∀ s, e.kind ≠ .crash s

theorem ShiftOk_new (T : LexTables) (f : Nat) (cs : List Char) (e : StreamEnd) :
    ShiftOk T (Lexer.new f cs e) := by
  intro h; cases h

/-- The invariant is preserved by one iteration (it is established by the `InSymbol` branch, the
only way into `InShiftSymbol`). -/
theorem lexChar_shiftOk (T : LexTables) (lx : Lexer) (c : Char) (hok : ShiftOk T lx) :
    ShiftOk T (lexChar T lx c).lx := by
  by_cases hs : lx.state = .initial
  · rcases lexChar_initial T lx c hs with ⟨_, h⟩ | h | ⟨s, b, _, hne, _, h⟩ | h <;> rw [h]
    · exact hok
    · exact hok
    · intro h'; exact absurd h' hne
    · exact hok
  · obtain ⟨input, ending, loc, tokLoc, stash, state, buf, eof⟩ := lx
    cases state
    case initial => exact absurd rfl hs
    case inSymbol =>
      unfold lexChar; dsimp only
      split
      · rename_i name hlk
        split
        · intro _
          show (lookupName T.symbols (String.ofList (buf ++ [c]))).isSome = true
          rw [hlk]; rfl
        · intro h; cases h
      · split <;> (intro h; cases h)
    all_goals (unfold lexChar; dsimp only; (repeat' split) <;>
      first | exact hok | (intro h; cases h))

/-- **C13 (`lexChar` never panics).**  For any table, from a state with `ShiftOk`, one iteration
never produces the `crash` outcome (the Rust `unwrap` in `InShiftSymbol` cannot fail). -/
theorem lexChar_no_crash (T : LexTables) (lx : Lexer) (c : Char) (hok : ShiftOk T lx) :
    (lexChar T lx c).ErrP NoCrash := by
  by_cases hs : lx.state = .initial
  · rcases lexChar_initial T lx c hs with ⟨_, h⟩ | h | ⟨s, b, _, hne, _, h⟩ | h <;> rw [h]
    · trivial
    · trivial
    · trivial
    · intro s h'; cases h'
  · obtain ⟨input, ending, loc, tokLoc, stash, state, buf, eof⟩ := lx
    cases state
    case initial => exact absurd rfl hs
    case inShiftSymbol =>
      unfold lexChar; dsimp only
      split
      · trivial
      · split
        · trivial
        · rename_i h2
          exfalso
          have := hok rfl
          dsimp only at this
          rw [h2] at this; cases this
    all_goals (unfold lexChar; dsimp only; (repeat' split) <;>
      first
      | trivial
      | (intro s h; cases h; done)
      | (have hl := labelOf_err ‹labelOf _ _ = .error _›; subst hl; intro s h; cases h))

/-- `lexStep`: same two facts. -/
theorem lexStep_no_crash (T : LexTables) (lx : Lexer) (hok : ShiftOk T lx) :
    (lexStep T lx).ErrP NoCrash ∧ ShiftOk T (lexStep T lx).lx := by
  cases hs : lx.stash with
  | some c =>
    rw [lexStep_stash hs]
    exact ⟨lexChar_no_crash T _ c hok, lexChar_shiftOk T _ c hok⟩
  | none =>
    cases hi : lx.input with
    | cons c rest =>
      rw [lexStep_cons hs hi]
      exact ⟨lexChar_no_crash T _ c hok, lexChar_shiftOk T _ c hok⟩
    | nil =>
      cases he : lx.ending with
      | utf8 => rw [lexStep_utf8 hs hi he]; exact ⟨fun s h => (by cases h), hok⟩
      | io => rw [lexStep_io hs hi he]; exact ⟨fun s h => (by cases h), hok⟩
      | eof =>
        cases hf : lx.eof with
        | true => rw [lexStep_done hs hi he hf]; exact ⟨trivial, hok⟩
        | false =>
          rw [lexStep_flush hs hi he hf]
          exact ⟨lexChar_no_crash T _ _ hok, lexChar_shiftOk T _ _ hok⟩

theorem next_no_crash (T : LexTables) (f : Nat) :
    ∀ lx, ShiftOk T lx → (Lexer.next T f lx).ErrP NoCrash ∧ ShiftOk T (Lexer.next T f lx).lx := by
  induction f with
  | zero => intro lx hok; exact ⟨trivial, hok⟩
  | succ f ih =>
    intro lx hok
    have hstep := lexStep_no_crash T lx hok
    cases h : lexStep T lx with
    | more lx' => rw [Lexer.next_more f h]; rw [h] at hstep; exact ih lx' hstep.2
    | tok t lx' => rw [Lexer.next_stop f (by rw [h]; intro _ hh; cases hh)]; exact hstep
    | err e lx' => rw [Lexer.next_stop f (by rw [h]; intro _ hh; cases hh)]; exact hstep
    | done lx' => rw [Lexer.next_stop f (by rw [h]; intro _ hh; cases hh)]; exact hstep

theorem lexAll_no_crash (T : LexTables) (f : Nat) :
    ∀ lx, ShiftOk T lx → ∀ e, (lexAll T f lx).2 = some e → NoCrash e := by
  induction f with
  | zero => intro lx _ e h; simp [lexAll] at h
  | succ f ih =>
    intro lx hok e he
    obtain ⟨h1, h2⟩ := next_no_crash T lx.fuel lx hok
    cases h : Lexer.next T lx.fuel lx with
    | tok t lx' =>
      rw [h] at h2
      simp only [lexAll, h] at he
      exact ih lx' h2 e he
    | err e' lx' =>
      rw [h] at h1
      simp only [lexAll, h] at he
      cases he; exact h1
    | done lx' => simp [lexAll, h] at he
    | more lx' => simp [lexAll, h] at he

/-- **C13 (the lexer never panics).**  For every name table, character sequence, stream end and
fuel, a whole run of the lexer ends with tokens and possibly a *diagnostic* — never with the `crash`
outcome.  (No hypothesis on the table is needed: the machine enters `InShiftSymbol` only with a
buffer it has just found in the table.) -/
theorem lexer_total (T : LexTables) (file : Nat) (cs : List Char) (ending : StreamEnd)
    (fuel : Nat) (site : String) (loc : Loc) :
    (lexAll T fuel (Lexer.new file cs ending)).2 ≠ some ⟨.crash site, loc⟩ := by
  intro h
  exact lexAll_no_crash T fuel _ (ShiftOk_new T file cs ending) _ h site rfl

/-- The same for a single `Lexer::next` from any state reached without leaving `ShiftOk`. -/
theorem next_total (T : LexTables) (file : Nat) (cs : List Char) (ending : StreamEnd) (f : Nat)
    (e : LexErr) (lx' : Lexer) (h : Lexer.next T f (Lexer.new file cs ending) = .err e lx') :
    ∀ s, e.kind ≠ .crash s :=
  LexOut.ErrP_of_eq (next_no_crash T f _ (ShiftOk_new T file cs ending)).1 h

/-- **C13 (no lexer panic for the three CPUs)** — the instance for the generated tables. -/
theorem lexer_total_arch (a : Arch) (file : Nat) (cs : List Char) (ending : StreamEnd) (fuel : Nat)
    (site : String) (loc : Loc) :
    (lexAll (lexTables a) fuel (Lexer.new file cs ending)).2 ≠ some ⟨.crash site, loc⟩ :=
  lexer_total (lexTables a) file cs ending fuel site loc

/-- What the shape of the symbol table guarantees in addition: `<<` and `>>` are symbols, and they
are the only spellings of the names `ShiftLeft` / `ShiftRight` (the two names that send the machine
to `InShiftSymbol`), so in `InShiftSymbol` the buffer is `<<` or `>>`. -/
def TableOk (T : LexTables) : Prop :=
  (lookupName T.symbols "<<").isSome = true ∧ (lookupName T.symbols ">>").isSome = true ∧
  ∀ kv ∈ T.symbols, (kv.2 = "ShiftLeft" ∨ kv.2 = "ShiftRight") → (kv.1 = "<<" ∨ kv.1 = ">>")

instance (T : LexTables) : Decidable (TableOk T) := by unfold TableOk; infer_instance

/-- **C13 (the generated tables).**  The symbol tables of the three CPUs, as regenerated from the
Rust source, satisfy `TableOk`. -/
theorem tables_ok : ∀ a, TableOk (lexTables a) := by
  intro a; cases a <;> decide +kernel

/-- With `TableOk`, the buffer that sends the machine to `InShiftSymbol` is `<<` or `>>`. -/
theorem shift_buffer {T : LexTables} (hT : TableOk T) {s name : String}
    (h : lookupName T.symbols s = some name) (hn : name = "ShiftLeft" ∨ name = "ShiftRight") :
    s = "<<" ∨ s = ">>" :=
  hT.2.2 _ (lookupName_mem h) hn

/-! ### 2. one `next` terminates within its fuel -/

/-- `P` holds of the next state, if the outcome is `continue`. -/
def MoreP (P : Lexer → Prop) : LexOut → Prop
  | .more l => P l
  | _ => True

def isDone : LexOut → Bool
  | .done _ => true
  | _ => false

/-- `continue` never touches the stash (it is refilled only when a token or error is returned). -/
theorem lexChar_more_stash' (T : LexTables) (lx : Lexer) (c : Char) :
    MoreP (fun l' => l'.stash = lx.stash) (lexChar T lx c) := by
  by_cases hs : lx.state = .initial
  · rcases lexChar_initial T lx c hs with ⟨_, h⟩ | h | ⟨s, b, _, _, _, h⟩ | h <;> rw [h] <;>
      first | trivial | exact rfl
  · obtain ⟨input, ending, loc, tokLoc, stash, state, buf, eof⟩ := lx
    cases state
    case initial => exact absurd rfl hs
    all_goals (unfold lexChar; dsimp only; (repeat' split) <;> first | trivial | exact rfl)

theorem lexChar_more_stash (T : LexTables) (lx : Lexer) (c : Char) (lx' : Lexer)
    (h : lexChar T lx c = .more lx') : lx'.stash = lx.stash := by
  have := lexChar_more_stash' T lx c
  rw [h] at this; exact this

/-- One iteration never reports the end of the stream. -/
theorem lexChar_not_done (T : LexTables) (lx : Lexer) (c : Char) : isDone (lexChar T lx c) = false := by
  by_cases hs : lx.state = .initial
  · rcases lexChar_initial T lx c hs with ⟨_, h⟩ | h | ⟨s, b, _, _, _, h⟩ | h <;> rw [h] <;> rfl
  · obtain ⟨input, ending, loc, tokLoc, stash, state, buf, eof⟩ := lx
    cases state
    case initial => exact absurd rfl hs
    all_goals (unfold lexChar; dsimp only; (repeat' split) <;> rfl)

theorem lexChar_ne_done (T : LexTables) (lx : Lexer) (c : Char) (lx' : Lexer) :
    lexChar T lx c ≠ .done lx' := by
  intro h
  have := lexChar_not_done T lx c
  rw [h] at this; cases this

/-- The termination measure: two per unread character, one for a pending stash, two for the
end-of-input flush not yet done. -/
def mu (lx : Lexer) : Nat :=
  2 * lx.input.length + (if lx.stash.isSome then 1 else 0) + (if lx.eof then 0 else 2)

theorem mu_lt_fuel (lx : Lexer) : mu lx < lx.fuel := by
  unfold mu Lexer.fuel; split <;> split <;> omega

/-- Every `continue` strictly decreases the measure: the step consumed the stash, or a character,
or performed the single flush. -/
theorem lexStep_more_decreases {T : LexTables} {lx lx' : Lexer} (h : lexStep T lx = .more lx') :
    mu lx' < mu lx := by
  cases hs : lx.stash with
  | some c =>
    rw [lexStep_stash hs] at h
    have h1 := lexChar_more_stash T _ c lx' h
    obtain ⟨f1, _, _, f4⟩ := lexChar_frame T { lx with stash := none } c
    rw [h] at f1 f4
    simp only [LexOut.lx] at f1 f4 h1
    unfold mu; rw [h1, f1, f4, hs]; simp
  | none =>
    cases hi : lx.input with
    | cons c rest =>
      rw [lexStep_cons hs hi] at h
      have h1 := lexChar_more_stash T _ c lx' h
      obtain ⟨f1, _, _, f4⟩ := lexChar_frame T { lx with input := rest, loc := stepLoc lx.loc c } c
      rw [h] at f1 f4
      simp only [LexOut.lx] at f1 f4 h1
      unfold mu; rw [h1, f1, f4, hs, hi]; simp
    | nil =>
      cases he : lx.ending with
      | utf8 => rw [lexStep_utf8 hs hi he] at h; cases h
      | io => rw [lexStep_io hs hi he] at h; cases h
      | eof =>
        cases hf : lx.eof with
        | true => rw [lexStep_done hs hi he hf] at h; cases h
        | false =>
          rw [lexStep_flush hs hi he hf] at h
          have h1 := lexChar_more_stash T _ _ lx' h
          obtain ⟨f1, _, _, f4⟩ := lexChar_frame T
            { lx with eof := true, loc := { lx.loc with line := lx.loc.line + 1, col := 0 } } '\n'
          rw [h] at f1 f4
          simp only [LexOut.lx] at f1 f4 h1
          unfold mu; rw [h1, f1, f4, hs, hi, hf]; simp

/-- The loop of `Lexer::next` without fuel, as a relation: iterate `lexStep` while it says
`continue`; the first other outcome is the result. -/
inductive Loop (T : LexTables) : Lexer → LexOut → Prop
  | stop {lx : Lexer} {o : LexOut} : lexStep T lx = o → (∀ lx', o ≠ .more lx') → Loop T lx o
  | more {lx lx' : Lexer} {o : LexOut} : lexStep T lx = .more lx' → Loop T lx' o → Loop T lx o

theorem Loop_deterministic {T : LexTables} {lx : Lexer} {o1 o2 : LexOut}
    (h1 : Loop T lx o1) (h2 : Loop T lx o2) : o1 = o2 := by
  induction h1 with
  | stop e1 n1 =>
    cases h2 with
    | stop e2 _ => exact e1.symm.trans e2
    | more e2 _ => rw [e2] at e1; exact absurd e1.symm (n1 _)
  | more e1 _ ih =>
    cases h2 with
    | stop e2 n2 => rw [e1] at e2; exact absurd e2.symm (n2 _)
    | more e2 l2 => rw [e1] at e2; cases e2; exact ih l2

/-- With more fuel than the measure, the fuel-bounded `next` is the unbounded loop. -/
theorem next_is_loop (T : LexTables) (f : Nat) : ∀ lx, mu lx < f → Loop T lx (Lexer.next T f lx) := by
  induction f with
  | zero => intro lx h; omega
  | succ f ih =>
    intro lx hlt
    cases h : lexStep T lx with
    | more lx' =>
      rw [Lexer.next_more f h]
      have := lexStep_more_decreases h
      exact Loop.more h (ih lx' (by omega))
    | tok t lx' =>
      rw [Lexer.next_stop f (by rw [h]; intro _ hh; cases hh), h]
      exact Loop.stop h (by intro _ hh; cases hh)
    | err e lx' =>
      rw [Lexer.next_stop f (by rw [h]; intro _ hh; cases hh), h]
      exact Loop.stop h (by intro _ hh; cases hh)
    | done lx' =>
      rw [Lexer.next_stop f (by rw [h]; intro _ hh; cases hh), h]
      exact Loop.stop h (by intro _ hh; cases hh)

theorem lexStep_done_iff {T : LexTables} {lx lx' : Lexer} (h : lexStep T lx = .done lx') :
    lx' = lx ∧ lx.stash = none ∧ lx.input = [] ∧ lx.ending = .eof ∧ lx.eof = true := by
  cases hs : lx.stash with
  | some c => rw [lexStep_stash hs] at h; exact absurd h (lexChar_ne_done T _ c lx')
  | none =>
    cases hi : lx.input with
    | cons c rest => rw [lexStep_cons hs hi] at h; exact absurd h (lexChar_ne_done T _ c lx')
    | nil =>
      cases he : lx.ending with
      | utf8 => rw [lexStep_utf8 hs hi he] at h; cases h
      | io => rw [lexStep_io hs hi he] at h; cases h
      | eof =>
        cases hf : lx.eof with
        | true => rw [lexStep_done hs hi he hf] at h; cases h; exact ⟨rfl, rfl, rfl, rfl, rfl⟩
        | false => rw [lexStep_flush hs hi he hf] at h; exact absurd h (lexChar_ne_done T _ _ lx')

theorem Loop_result {T : LexTables} {lx : Lexer} {o : LexOut} (h : Loop T lx o) :
    (∃ t lx', o = .tok t lx') ∨ (∃ e lx', o = .err e lx') ∨
    (∃ lx', o = .done lx' ∧ lx'.stash = none ∧ lx'.input = [] ∧ lx'.ending = .eof ∧ lx'.eof = true) := by
  induction h with
  | more _ _ ih => exact ih
  | @stop lx o e n =>
    cases o with
    | tok t l => exact Or.inl ⟨t, l, rfl⟩
    | err x l => exact Or.inr (Or.inl ⟨x, l, rfl⟩)
    | more l => exact absurd rfl (n l)
    | done l =>
      obtain ⟨h1, h2, h3, h4, h5⟩ := lexStep_done_iff e
      subst h1
      exact Or.inr (Or.inr ⟨_, rfl, h2, h3, h4, h5⟩)

/-- **C13 (one `next` terminates).**  With the fuel the model gives it (`2 * input.length + 8`),
`Lexer::next` is exactly the unbounded loop (it never stops because the fuel ran out): it returns
a token, or an error, or `done` — and `done` only when the stream is genuinely exhausted (nothing
stashed, no input left, clean end, flush performed); never `more`.  More fuel changes nothing. -/
theorem lexer_progress (T : LexTables) (lx : Lexer) :
    Loop T lx (Lexer.next T lx.fuel lx) ∧
    ((∃ t lx', Lexer.next T lx.fuel lx = .tok t lx') ∨
     (∃ e lx', Lexer.next T lx.fuel lx = .err e lx') ∨
     (∃ lx', Lexer.next T lx.fuel lx = .done lx' ∧ lx'.stash = none ∧ lx'.input = [] ∧
        lx'.ending = .eof ∧ lx'.eof = true)) ∧
    (∀ lx', Lexer.next T lx.fuel lx ≠ .more lx') ∧
    (∀ f, lx.fuel ≤ f → Lexer.next T f lx = Lexer.next T lx.fuel lx) := by
  have hl := next_is_loop T lx.fuel lx (mu_lt_fuel lx)
  have hr := Loop_result hl
  refine ⟨hl, hr, ?_, ?_⟩
  · intro lx' h
    rcases hr with ⟨_, _, h'⟩ | ⟨_, _, h'⟩ | ⟨_, h', _⟩ <;> rw [h'] at h <;> cases h
  · intro f hf
    exact Loop_deterministic (next_is_loop T f lx (Nat.lt_of_lt_of_le (mu_lt_fuel lx) hf)) hl

/-! ### 3. the evaluator never runs out of recursion fuel -/

theorem divlike_ne_fuel (o : Option I32) (s : List I32) :
    (match o with | some v => Res.ok (v :: s) | none => Res.unsolved) ≠ Res.crash "fuel" := by
  cases o <;> simp

/-- The pure steps crash only at the sites `"pop"` and `"node"` (C04 shows compiled expressions
never reach them). -/
theorem pureStep_ne_fuel (n : Node) (st : List I32) : pureStep n st ≠ .crash "fuel" := by
  cases n <;> rcases st with _ | ⟨a, _ | ⟨b, _ | ⟨c, s⟩⟩⟩ <;>
    first
    | (intro h; cases h; done)
    | (intro h; injection h with h; exact absurd h (by decide))
    | exact divlike_ne_fuel (if a = 0 then none else some (b.sdiv a)) _
    | exact divlike_ne_fuel (if a = 0 then none else some (b.srem a)) _

theorem sizeOfStep_ne_crash (env : Env) (x : String) (s : String) : sizeOfStep env x ≠ .crash s := by
  unfold sizeOfStep
  (repeat' split) <;> simp

theorem labelStep_ne_fuel {lazy : List String → List Node → Res I32} {env : Env} {vis : List String}
    (hl : ∀ x e body, env.get x = some e → e.sym = .expr body → vis.contains x = false →
      lazy (x :: vis) body ≠ .crash "fuel") (x : String) :
    labelStep lazy env vis x ≠ .crash "fuel" := by
  unfold labelStep
  split
  · simp
  · rename_i e he
    split
    · simp
    · rename_i body hb
      split
      · simp
      · rename_i hc
        exact hl x e body he hb (by simpa using hc)

theorem evalList_ne_fuel {lazy : List String → List Node → Res I32} {env : Env} {vis : List String}
    (hl : ∀ x e body, env.get x = some e → e.sym = .expr body → vis.contains x = false →
      lazy (x :: vis) body ≠ .crash "fuel") :
    ∀ ns st, evalList lazy env vis ns st ≠ .crash "fuel" := by
  intro ns
  induction ns with
  | nil => intro st; cases st <;> simp [evalList]
  | cons n ns ih =>
    intro st
    simp only [evalList]
    split
    · rename_i x _
      have := labelStep_ne_fuel hl x
      split
      · exact ih _
      · simp
      · rename_i s hs; rw [hs] at this; exact this
    · rename_i x _
      split
      · exact ih _
      · simp
      · rename_i s hs; exact absurd hs (sizeOfStep_ne_crash env x s)
    · have := pureStep_ne_fuel n st
      split
      · exact ih _
      · simp
      · rename_i s hs; intro h; injection h with h; subst h; exact this hs

theorem get_isSome_mem_keys {env : Env} {x : String} (h : (env.get x).isSome = true) :
    x ∈ env.map (·.1) := by
  induction env with
  | nil => simp [Env.get] at h
  | cons kv r ih =>
    obtain ⟨k, e⟩ := kv
    unfold Env.get at h
    split at h
    · rename_i hk; subst hk; simp
    · simp only [List.map_cons, List.mem_cons]; exact Or.inr (ih h)

/-- Pigeonhole: a duplicate-free list of names that are all keys of `env` is no longer than `env`. -/
theorem visiting_length_le {env : Env} {vis : List String} (hn : vis.Nodup)
    (hk : ∀ x ∈ vis, (env.get x).isSome = true) : vis.length ≤ env.length := by
  have := List.Nodup.length_le_of_subset hn (l₂ := env.map (·.1)) (fun x hx => get_isSome_mem_keys (hk x hx))
  simpa using this

/-- General form: along the lazy-symbol recursion `visiting` is a duplicate-free list of names
found in the table, every level adds a new one, so `fuel + visiting.length ≥ env.length + 1`
keeps the fuel positive. -/
theorem evalAt_ne_fuel (env : Env) : ∀ (f : Nat) (vis : List String) (ns : List Node),
    vis.Nodup → (∀ x ∈ vis, (env.get x).isSome = true) → env.length + 1 ≤ f + vis.length →
    evalAt f env vis ns ≠ .crash "fuel" := by
  intro f
  induction f with
  | zero =>
    intro vis ns hn hk hb
    have := visiting_length_le hn hk
    omega
  | succ f ih =>
    intro vis ns hn hk hb
    show evalList (evalAt f env) env vis ns [] ≠ .crash "fuel"
    apply evalList_ne_fuel
    intro x e body he _ hc
    have hx : x ∉ vis := by simpa using hc
    apply ih
    · exact List.nodup_cons.mpr ⟨hx, hn⟩
    · intro y hy
      rcases List.mem_cons.mp hy with rfl | hy
      · rw [he]; rfl
      · exact hk y hy
    · simp only [List.length_cons]; omega

/-- **C13 (the evaluator never runs out of fuel).**  `evaluate env ns` is never `crash "fuel"`:
the fuel `env.length + 2` always covers the depth of lazy-symbol recursion, for every symbol
table (association list, duplicate keys allowed) and every node list. -/
theorem evaluate_no_fuel_crash (env : Env) (ns : List Node) : evaluate env ns ≠ .crash "fuel" := by
  unfold evaluate
  exact evalAt_ne_fuel env _ [] ns List.nodup_nil (fun _ h => by cases h) (by simp)

/-! ### non-vacuity -/

/-- `TableOk` is not trivially true: a table where `ShiftLeft` has a second spelling fails it. -/
example : ¬ TableOk { (lexTables .z80) with symbols := ("<", "ShiftLeft") :: Gen.symbolSpell } := by
  decide +kernel

/-- `>>` followed by something else is two-character shift, `>>>` the logical one. -/
example : (lexAll (lexTables .z80) 9 (Lexer.new 0 ['1', '>', '>', '2', '>', '>', '>', '3'])).1.map (·.tok) =
    [.num 1, .sym "ShiftRight", .num 2, .sym "ShiftRightLogical", .num 3, .newline] := by decide +kernel

/-- A cycle of lazy symbols is "could not be solved", not a crash. -/
example : evaluate [("a", ⟨.expr [.label "b"], []⟩), ("b", ⟨.expr [.label "a"], []⟩)] [.label "a"] =
    .unsolved := by decide +kernel

/-- A chain as deep as the table is evaluated. -/
example : evaluate [("a", ⟨.expr [.label "b"], []⟩), ("b", ⟨.expr [.label "c"], []⟩),
    ("c", ⟨.val 7, []⟩)] [.label "a"] = .ok 7 := by decide +kernel

end Az65.Thm.C13

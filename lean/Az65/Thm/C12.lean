import Az65.Model.Stmt
/-
C12 — @include/@incbin find the documented file and behave as textual inclusion.
Theorems about the search rule of the Model (`searchFile`, the mirror of `FileManager::search`).
-/
namespace Az65.Thm.C12
open Az65

/-- The candidate paths, in the documented order: the directory of the file that contains the
directive first, then each search path in the order given. -/
def candidates (searchPaths : List String) (cwd path : String) : List String :=
  (cwd :: searchPaths).map fun d => absolutize d path

/-- **C12 (first existing candidate wins).**  The search returns `p` exactly when the candidate
list splits as `before ++ p :: after` with `p` a regular file and no candidate in `before` one. -/
theorem search_first (fs : FileSys) (sps : List String) (cwd path p : String) :
    searchFile fs sps cwd path = some p ↔
      fs.isFile p = true ∧ ∃ before after, candidates sps cwd path = before ++ p :: after ∧
        ∀ q ∈ before, fs.isFile q = false := by
  unfold searchFile candidates
  rw [List.find?_eq_some_iff_append]
  constructor
  · rintro ⟨hp, as, bs, heq, hno⟩
    exact ⟨hp, as, bs, heq, fun q hq => by simpa using hno q hq⟩
  · rintro ⟨hp, as, bs, heq, hno⟩
    exact ⟨hp, as, bs, heq, fun q hq => by simpa using hno q hq⟩

/-- A missing file: the search fails exactly when no candidate is a regular file. -/
theorem search_none (fs : FileSys) (sps : List String) (cwd path : String) :
    searchFile fs sps cwd path = none ↔ ∀ q ∈ candidates sps cwd path, fs.isFile q = false := by
  unfold searchFile candidates
  rw [List.find?_eq_none]
  constructor <;> intro h q hq <;> simpa using h q hq

/-- The including file's own directory has priority over every search path. -/
theorem own_directory_first (fs : FileSys) (sps : List String) (cwd path : String)
    (h : fs.isFile (absolutize cwd path) = true) :
    searchFile fs sps cwd path = some (absolutize cwd path) := by
  simp [searchFile, List.find?, h]

/-- Search paths are tried in the order given. -/
theorem search_path_order (fs : FileSys) (d1 d2 : String) (rest : List String) (cwd path : String)
    (h0 : fs.isFile (absolutize cwd path) = false) (h1 : fs.isFile (absolutize d1 path) = true) :
    searchFile fs (d1 :: d2 :: rest) cwd path = some (absolutize d1 path) := by
  simp [searchFile, List.find?, h0, h1]

/-- An absolute name does not depend on the directory it is looked up from. -/
theorem absolute_independent (d1 d2 path : String) (h : path.startsWith "/" = true) :
    absolutize d1 path = absolutize d2 path := by
  simp [absolutize, h]

/-! non-vacuity (evaluated, not kernel-reduced: `String.splitOn` does not reduce in the kernel) -/
#guard searchFile { files := [{ path := "/inc/a.inc", data := [1] }, { path := "/p/a.inc", data := [2] }] }
    ["/inc"] "/p" "a.inc" == some "/p/a.inc"
#guard searchFile { files := [{ path := "/inc/a.inc", data := [1] }] } ["/x", "/inc"] "/p" "a.inc" ==
    some "/inc/a.inc"
#guard searchFile { files := [{ path := "/inc/a.inc", data := [1] }] } ["/x"] "/p" "a.inc" == none
#guard absolutize "/p/q" "../r/./a.inc" == "/p/r/a.inc"

end Az65.Thm.C12

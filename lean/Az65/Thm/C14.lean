import Az65.Model.Tables
import Az65.Lemmas.LexLemmas
/-
C14 — "Diagnostics point at the offending token's file, line and column."
-/
namespace Az65.Thm.C14
open Az65

/-! ### Spec: the position after `k` characters -/

/-- **Spec.**  Position after consuming the first `k` characters of `cs`:
line = 1 + number of `'\n'` among them, column = number of characters after the last `'\n'` among
them (0 right after a newline, and 0 at the very start). -/
def posOf (cs : List Char) (k : Nat) : Nat × Nat :=
  (1 + (cs.take k).count '\n', ((cs.take k).reverse.takeWhile (· != '\n')).length)

/-- The same thing said incrementally. -/
def advance (p : Nat × Nat) (c : Char) : Nat × Nat :=
  if c = '\n' then (p.1 + 1, 0) else (p.1, p.2 + 1)

theorem posOf_zero (cs : List Char) : posOf cs 0 = (1, 0) := by
  simp [posOf]

theorem posOf_succ {cs : List Char} {k : Nat} {c : Char} (h : cs[k]? = some c) :
    posOf cs (k + 1) = advance (posOf cs k) c := by
  unfold posOf advance
  rw [List.take_add_one, h]
  by_cases hc : c = '\n'
  · subst hc; simp [List.count_append]; omega
  · simp [List.count_append, hc]

theorem posOf_append_left {cs : List Char} (t : List Char) {k : Nat} (h : k ≤ cs.length) :
    posOf (cs ++ t) k = posOf cs k := by
  unfold posOf; rw [List.take_append_of_le_length h]


theorem stepLoc_pos (l : Loc) (c : Char) :
    ((stepLoc l c).line, (stepLoc l c).col) = advance (l.line, l.col) c ∧
    (stepLoc l c).file = l.file := by
  unfold stepLoc advance
  by_cases h : c = '\n'
  · subst h; exact ⟨rfl, rfl⟩
  · have h' : (c == '\n') = false := by simpa using h
    simp [h, h']

theorem drop_cons {cs : List Char} {k : Nat} {c : Char} {rest : List Char}
    (h : cs.drop k = c :: rest) :
    k < cs.length ∧ cs[k]? = some c ∧ rest = cs.drop (k + 1) := by
  refine ⟨?_, ?_, ?_⟩
  · rcases Nat.lt_or_ge k cs.length with hk | hk
    · exact hk
    · rw [List.drop_of_length_le hk] at h; cases h
  · have := congrArg (·[0]?) h
    simpa using this
  · have := congrArg List.tail h
    simpa using this.symm

/-! ### 1. `loc` is the Spec position of the last character consumed -/

/-- The location invariant: `k` characters of `cs` have been consumed, the rest is still to be
read, and `loc` is exactly the Spec position after `k` characters, in the right file. -/
def Inv (cs : List Char) (file : Nat) (lx : Lexer) : Prop :=
  ∃ k, k ≤ cs.length ∧ lx.input = cs.drop k ∧ (lx.loc.line, lx.loc.col) = posOf cs k ∧
    lx.loc.file = file

theorem Inv_new (file : Nat) (cs : List Char) (e : StreamEnd) : Inv cs file (Lexer.new file cs e) :=
  ⟨0, Nat.zero_le _, rfl, (posOf_zero cs).symm, rfl⟩

/-- **C14 (location invariant, one fetch).**  Whatever the state of the machine (comment, string,
escape, backslash-newline continuation inside a string, number, symbol, identifier, directive) and
whatever the outcome of the iteration (token, error, `continue`), as long as a character is
available (stashed or unread) the invariant is preserved: `loc` stays the Spec position of the
last character consumed. -/
theorem Inv_lexStep (T : LexTables) {cs : List Char} {file : Nat} {lx : Lexer}
    (h : Inv cs file lx) (hne : lx.stash ≠ none ∨ lx.input ≠ []) :
    Inv cs file (lexStep T lx).lx := by
  obtain ⟨k, hk, hin, hpos, hfile⟩ := h
  cases hs : lx.stash with
  | some c =>
    rw [lexStep_stash hs]
    obtain ⟨h1, h2, _, _⟩ := lexChar_frame T { lx with stash := none } c
    exact ⟨k, hk, by rw [h1]; exact hin, by rw [h2]; exact hpos, by rw [h2]; exact hfile⟩
  | none =>
    cases hi : lx.input with
    | nil =>
      rcases hne with h | h
      · exact absurd hs h
      · exact absurd hi h
    | cons c rest =>
      rw [lexStep_cons hs hi]
      obtain ⟨h1, h2, _, _⟩ := lexChar_frame T { lx with input := rest, loc := stepLoc lx.loc c } c
      rw [hi] at hin
      obtain ⟨hlt, hget, hrest⟩ := drop_cons hin.symm
      obtain ⟨hp, hf⟩ := stepLoc_pos lx.loc c
      refine ⟨k + 1, hlt, by rw [h1]; exact hrest, ?_, by rw [h2]; exact hf.trans hfile⟩
      rw [h2, posOf_succ hget, ← hpos]; exact hp

/-- The three outcomes, spelled out. -/
theorem Inv_lexStep_outcomes (T : LexTables) {cs : List Char} {file : Nat} {lx : Lexer}
    (h : Inv cs file lx) (hne : lx.stash ≠ none ∨ lx.input ≠ []) :
    (∀ t lx', lexStep T lx = .tok t lx' → Inv cs file lx') ∧
    (∀ lx', lexStep T lx = .more lx' → Inv cs file lx') ∧
    (∀ e lx', lexStep T lx = .err e lx' → Inv cs file lx') := by
  have := Inv_lexStep T h hne
  refine ⟨?_, ?_, ?_⟩ <;> intros <;> simp_all [LexOut.lx]

/-- **C14 (end-of-input flush).**  When the input is exhausted (nothing stashed, clean end of
stream, flush not done yet) the lexer pretends one more `'\n'`: `loc` becomes (line + 1, 0). -/
theorem flush_loc (T : LexTables) {lx : Lexer}
    (hs : lx.stash = none) (hi : lx.input = []) (he : lx.ending = .eof) (hf : lx.eof = false) :
    (lexStep T lx).lx.loc = { lx.loc with line := lx.loc.line + 1, col := 0 } ∧
    (lexStep T lx).lx.eof = true ∧ (lexStep T lx).lx.input = [] := by
  rw [lexStep_flush hs hi he hf]
  obtain ⟨h1, h2, _, h4⟩ := lexChar_frame T
    { lx with eof := true, loc := { lx.loc with line := lx.loc.line + 1, col := 0 } } '\n'
  exact ⟨h2, h4, h1.trans hi⟩


/-! ### 2. `tokLoc` is the position of the token's first character -/

/-- Which character can be the first character of a token of each kind. -/
def tokStart (T : LexTables) : Tok → Char → Bool
  | .comment, c => c == ';'
  | .newline, c => c == '\n'
  | .str _, c => c == '"'
  | .num _, c => c == '\'' || c == '%' || ('0' ≤ c && c ≤ '9') || c == '$'
  | .sym _, c => c == '%' || T.symbolStarts.contains c.toNat
  | .dir _, c => c == '@'
  | .op _, c => isIdentChar c
  | .reg _, c => isIdentChar c
  | .flag _, c => isIdentChar c
  | .label _ _, c => isIdentChar c

/-- **C14 (`tokLoc` is frozen while a token is being built).**  One iteration from any of the
16 non-initial states, in every branch, leaves `tokLoc` as it was; and the machine either returns
to `initial` or stays within the states of the same token kind (so the recorded first character
still explains the state). -/
theorem lexChar_tokLoc_noninit (T : LexTables) (lx : Lexer) (c : Char) (hs : lx.state ≠ .initial) :
    (lexChar T lx c).lx.tokLoc = lx.tokLoc ∧
    ((lexChar T lx c).lx.state = .initial ∨
      ∀ c0, startsToken T lx.state c0 = true → startsToken T (lexChar T lx c).lx.state c0 = true) := by
  obtain ⟨input, ending, loc, tokLoc, stash, state, buf, eof⟩ := lx
  cases state
  · exact absurd rfl hs
  all_goals (unfold lexChar; dsimp only; (repeat' split) <;>
    first | exact ⟨rfl, Or.inl rfl⟩ | exact ⟨rfl, Or.inr fun _ h => h⟩)

/-- **C14 (`tokLoc` is set when the token starts).**  One iteration from `initial` either leaves
`tokLoc` and the state alone (newline token, white space, illegal character), or enters a
token-building state `s` on a character that is a legal first character for `s`, recording the
current `loc` (the position of that character) as `tokLoc`. -/
theorem lexChar_tokLoc_init (T : LexTables) (lx : Lexer) (c : Char) (hs : lx.state = .initial) :
    ((lexChar T lx c).lx.tokLoc = lx.tokLoc ∧ (lexChar T lx c).lx.state = .initial) ∨
    ((lexChar T lx c).lx.tokLoc = lx.loc ∧ (lexChar T lx c).lx.state ≠ .initial ∧
      startsToken T (lexChar T lx c).lx.state c = true) := by
  rcases lexChar_initial T lx c hs with ⟨_, h⟩ | h | ⟨s, b, h1, _, h2, h⟩ | h <;> rw [h]
  · exact Or.inl ⟨rfl, hs⟩
  · exact Or.inl ⟨rfl, hs⟩
  · exact Or.inr ⟨rfl, h1, h2⟩
  · exact Or.inl ⟨rfl, hs⟩

/-- **C14 (tokens carry `tokLoc`).**  A token produced from a non-initial state carries the
`tokLoc` recorded when its first character was consumed (however many characters and lines the
token spans), and its kind agrees with that first character. -/
theorem lexChar_tok_noninit (T : LexTables) (lx : Lexer) (c : Char) (hs : lx.state ≠ .initial) :
    (lexChar T lx c).TokP fun t => t.loc = lx.tokLoc ∧ t.tok ≠ .newline ∧
      ∀ c0, startsToken T lx.state c0 = true → tokStart T t.tok c0 = true := by
  obtain ⟨input, ending, loc, tokLoc, stash, state, buf, eof⟩ := lx
  cases state
  · exact absurd rfl hs
  all_goals (unfold lexChar; dsimp only; (repeat' split) <;>
    first
    | trivial
    | exact ⟨rfl, by simp, fun c0 h => by simp only [startsToken] at h; simp_all [tokStart]⟩
    | (obtain ⟨h1, k, s, h2⟩ := labelOf_ok ‹labelOf _ _ = .ok _›
       exact ⟨h1, by rw [h2]; simp, fun c0 h => by rw [h2]; exact h⟩))

/-- **C14 (newline tokens).**  The only token produced directly from `initial` is `newline`, on
the character `'\n'`, and it carries the current `loc` — the position after that `'\n'`, i.e.
(line + 1, 0). -/
theorem lexChar_tok_init (T : LexTables) (lx : Lexer) (c : Char) (hs : lx.state = .initial) :
    (lexChar T lx c).TokP fun t => t = ⟨.newline, lx.loc⟩ ∧ c = '\n' := by
  rcases lexChar_initial T lx c hs with ⟨hc, h⟩ | h | ⟨s, b, h1, _, h2, h⟩ | h <;> rw [h]
  · exact ⟨rfl, hc⟩
  all_goals trivial

/-! ### 3. which location each error carries -/

/-- The errors each state can produce, with the location they carry (`loc` = position of the
character just read, `tokLoc` = position of the token's first character). -/
def ErrRule (lx : Lexer) (e : LexErr) : Prop :=
  match lx.state with
  | .initial => e = ⟨.input, lx.loc⟩
  | .inComment => False
  | .inString => e = ⟨.lineBreak, lx.loc⟩
  | .inStringEscape => e = ⟨.escape, lx.loc⟩
  | .inHexStringEscape1 => e = ⟨.lineBreak, lx.loc⟩ ∨ e = ⟨.escape, lx.loc⟩
  | .inHexStringEscape2 => e = ⟨.lineBreak, lx.loc⟩ ∨ e = ⟨.escape, lx.tokLoc⟩
  | .inChar => e = ⟨.lineBreak, lx.loc⟩ ∨ e = ⟨.charLit, lx.tokLoc⟩
  | .inCharEscape => e = ⟨.escape, lx.loc⟩
  | .inHexCharEscape1 => e = ⟨.lineBreak, lx.loc⟩ ∨ e = ⟨.escape, lx.loc⟩
  | .inHexCharEscape2 => e = ⟨.lineBreak, lx.loc⟩ ∨ e = ⟨.escape, lx.tokLoc⟩
  | .inNumber2 => e = ⟨.bin, lx.tokLoc⟩
  | .inNumber10 => e = ⟨.dec, lx.tokLoc⟩
  | .inNumber16 => e = ⟨.hex, lx.tokLoc⟩
  | .inSymbol => e = ⟨.input, lx.tokLoc⟩
  | .inShiftSymbol => e = ⟨.crash "lexer.rs InShiftSymbol unwrap", lx.tokLoc⟩
  | .inDirective => e = ⟨.directive, lx.tokLoc⟩
  | .inIdentifier => e = ⟨.label, lx.tokLoc⟩

/-- **C14 (error locations, state by state).**  Every error produced by one iteration is one of
the errors listed for the current state in `ErrRule`, with the location listed there. -/
theorem lexChar_err_rule (T : LexTables) (lx : Lexer) (c : Char) :
    (lexChar T lx c).ErrP (ErrRule lx) := by
  by_cases hs : lx.state = .initial
  · rcases lexChar_initial T lx c hs with ⟨hc, h⟩ | h | ⟨s, b, h1, _, h2, h⟩ | h <;> rw [h]
    · trivial
    · trivial
    · trivial
    · show ErrRule lx _
      unfold ErrRule; rw [hs]
  · obtain ⟨input, ending, loc, tokLoc, stash, state, buf, eof⟩ := lx
    cases state
    · exact absurd rfl hs
    all_goals (unfold lexChar; dsimp only; (repeat' split) <;>
      first
      | trivial
      | exact rfl
      | exact Or.inl rfl
      | exact Or.inr rfl
      | exact labelOf_err ‹labelOf _ _ = .error _›)


theorem ErrRule_loc {lx : Lexer} {e : LexErr} (h : ErrRule lx e) :
    e.loc = lx.loc ∨ (lx.state ≠ .initial ∧ e.loc = lx.tokLoc) := by
  obtain ⟨input, ending, loc, tokLoc, stash, state, buf, eof⟩ := lx
  cases state <;> simp only [ErrRule] at h <;>
    first
    | (subst h; first | exact Or.inl rfl | exact Or.inr ⟨by simp, rfl⟩)
    | (rcases h with h | h <;> subst h <;> first | exact Or.inl rfl | exact Or.inr ⟨by simp, rfl⟩)

/-- **C14 (error locations, by error class).**  An error produced by one iteration carries
either the current `loc` — `lineBreak`; `escape` right after the backslash or at the first hex
digit; `input` for an illegal character met in `initial` — or the `tokLoc` of the token being
built — `bin`, `dec`, `hex`, `directive`, `label`, `charLit`; `escape` at the second hex digit;
`input` for an unknown symbol; (the `InShiftSymbol` panic site, excluded by C13). -/
theorem error_loc (T : LexTables) (lx : Lexer) (c : Char) (e : LexErr) (lx' : Lexer)
    (h : lexChar T lx c = .err e lx') :
    (e.loc = lx.loc ∧
      (e.kind = .lineBreak ∨
       (e.kind = .escape ∧ (lx.state = .inStringEscape ∨ lx.state = .inHexStringEscape1 ∨
          lx.state = .inCharEscape ∨ lx.state = .inHexCharEscape1)) ∨
       (e.kind = .input ∧ lx.state = .initial))) ∨
    (e.loc = lx.tokLoc ∧ lx.state ≠ .initial ∧
      (e.kind = .bin ∨ e.kind = .dec ∨ e.kind = .hex ∨ e.kind = .directive ∨ e.kind = .label ∨
       e.kind = .charLit ∨
       (e.kind = .escape ∧ (lx.state = .inHexStringEscape2 ∨ lx.state = .inHexCharEscape2)) ∨
       (e.kind = .input ∧ lx.state = .inSymbol) ∨
       (∃ s, e.kind = .crash s ∧ lx.state = .inShiftSymbol))) := by
  have hr : ErrRule lx e := LexOut.ErrP_of_eq (lexChar_err_rule T lx c) h
  clear h
  obtain ⟨input, ending, loc, tokLoc, stash, state, buf, eof⟩ := lx
  cases state <;> simp only [ErrRule] at hr <;>
    first | (subst hr; simp) | (rcases hr with hr | hr <;> subst hr <;> simp)

/-! ### the ghost-instrumented invariant -/

/-- A token's location is the Spec position of a character of the text (extended by the one
pretended final `'\n'`) that is a legal first character for that kind of token; right file. -/
def TokAt (T : LexTables) (cs : List Char) (file : Nat) (t : LTok) : Prop :=
  t.loc.file = file ∧ ∃ j c0, (cs ++ ['\n'])[j]? = some c0 ∧
    (t.loc.line, t.loc.col) = posOf (cs ++ ['\n']) (j + 1) ∧ tokStart T t.tok c0 = true

/-- An error's location is a Spec position of the text, in the right file. -/
def ErrAt (cs : List Char) (file : Nat) (e : LexErr) : Prop :=
  e.loc.file = file ∧ ∃ k, k ≤ cs.length + 1 ∧ (e.loc.line, e.loc.col) = posOf (cs ++ ['\n']) k

/-- Ghost-instrumented invariant, `k` = number of characters consumed (the pretended final
`'\n'` counts as character number `cs.length`): location, the stashed character is the last one
consumed, and — the `Pending` clause — while a token is being built, `tokLoc` is the Spec
position of an earlier character that is a legal first character for the current state. -/
structure GAt (T : LexTables) (cs : List Char) (file : Nat) (lx : Lexer) (k : Nat) : Prop where
  hinput : lx.input = cs.drop k
  hbound : (lx.eof = false ∧ k ≤ cs.length) ∨ (lx.eof = true ∧ k = cs.length + 1)
  hpos : (lx.loc.line, lx.loc.col) = posOf (cs ++ ['\n']) k
  hfile : lx.loc.file = file
  htfile : lx.tokLoc.file = file
  hstash : ∀ c, lx.stash = some c → ∃ j, k = j + 1 ∧ (cs ++ ['\n'])[j]? = some c
  hpending : lx.state ≠ .initial → ∃ j c0, j < k ∧ (cs ++ ['\n'])[j]? = some c0 ∧
    (lx.tokLoc.line, lx.tokLoc.col) = posOf (cs ++ ['\n']) (j + 1) ∧ startsToken T lx.state c0 = true

def G (T : LexTables) (cs : List Char) (file : Nat) (lx : Lexer) : Prop := ∃ k, GAt T cs file lx k

theorem G_new (T : LexTables) (file : Nat) (cs : List Char) (e : StreamEnd) :
    G T cs file (Lexer.new file cs e) :=
  ⟨0, rfl, Or.inl ⟨rfl, Nat.zero_le _⟩, (posOf_zero _).symm, rfl, rfl,
    fun _ h => (by cases h), fun h => absurd rfl h⟩

theorem LexOut.TokP_mono {P Q : LTok → Prop} {o : LexOut} (h : o.TokP P) (hpq : ∀ t, P t → Q t) :
    o.TokP Q := by
  cases o <;> first | exact hpq _ h | trivial

theorem LexOut.ErrP_mono {P Q : LexErr → Prop} {o : LexOut} (h : o.ErrP P) (hpq : ∀ t, P t → Q t) :
    o.ErrP Q := by
  cases o <;> first | exact hpq _ h | trivial

/-- One iteration on the character with index `j` preserves the ghost invariant, and its token
or error has a Spec position. -/
theorem GAt_lexChar (T : LexTables) {cs : List Char} {file : Nat} {l : Lexer} {j : Nat} {c : Char}
    (hg : GAt T cs file l (j + 1)) (hst : l.stash = none) (hc : (cs ++ ['\n'])[j]? = some c) :
    GAt T cs file (lexChar T l c).lx (j + 1) ∧ (lexChar T l c).TokP (TokAt T cs file) ∧
    (lexChar T l c).ErrP (ErrAt cs file) := by
  obtain ⟨f1, f2, f3, f4⟩ := lexChar_frame T l c
  have hk : j + 1 ≤ cs.length + 1 := by rcases hg.hbound with ⟨_, h⟩ | ⟨_, h⟩ <;> omega
  have herr : (lexChar T l c).ErrP (ErrAt cs file) := by
    refine LexOut.ErrP_mono (lexChar_err_rule T l c) fun e he => ?_
    rcases ErrRule_loc he with h | ⟨hne, h⟩
    · exact ⟨by rw [h]; exact hg.hfile, j + 1, hk, by rw [h]; exact hg.hpos⟩
    · obtain ⟨j', c0, hj', _, hp, _⟩ := hg.hpending hne
      exact ⟨by rw [h]; exact hg.htfile, j' + 1, by omega, by rw [h]; exact hp⟩
  have hstash : ∀ c', (lexChar T l c).lx.stash = some c' →
      ∃ j', j + 1 = j' + 1 ∧ (cs ++ ['\n'])[j']? = some c' := by
    intro c' hc'
    rcases lexChar_stash T l c hst with h | h <;> rw [h] at hc' <;> cases hc'
    exact ⟨j, rfl, hc⟩
  refine ⟨?_, ?_, herr⟩
  · by_cases hs : l.state = .initial
    · have hi := lexChar_tokLoc_init T l c hs
      refine ⟨f1.trans hg.hinput, by rw [f4]; exact hg.hbound, by rw [f2]; exact hg.hpos,
        by rw [f2]; exact hg.hfile, ?_, hstash, ?_⟩
      · rcases hi with ⟨h, _⟩ | ⟨h, _, _⟩ <;> rw [h]
        · exact hg.htfile
        · exact hg.hfile
      · intro hne
        rcases hi with ⟨_, h⟩ | ⟨h1, _, h3⟩
        · exact absurd h hne
        · exact ⟨j, c, Nat.lt_succ_self j, hc, by rw [h1]; exact hg.hpos, h3⟩
    · obtain ⟨h1, h2⟩ := lexChar_tokLoc_noninit T l c hs
      refine ⟨f1.trans hg.hinput, by rw [f4]; exact hg.hbound, by rw [f2]; exact hg.hpos,
        by rw [f2]; exact hg.hfile, by rw [h1]; exact hg.htfile, hstash, ?_⟩
      intro hne
      rcases h2 with h2 | h2
      · exact absurd h2 hne
      · obtain ⟨j', c0, hj', hc0, hp, hst0⟩ := hg.hpending hs
        exact ⟨j', c0, hj', hc0, by rw [h1]; exact hp, h2 c0 hst0⟩
  · by_cases hs : l.state = .initial
    · refine LexOut.TokP_mono (lexChar_tok_init T l c hs) fun t ⟨ht, hc'⟩ => ?_
      subst ht; subst hc'
      exact ⟨hg.hfile, j, '\n', hc, hg.hpos, rfl⟩
    · refine LexOut.TokP_mono (lexChar_tok_noninit T l c hs) fun t ⟨ht, _, hc'⟩ => ?_
      obtain ⟨j', c0, hj', hc0, hp, hst0⟩ := hg.hpending hs
      exact ⟨by rw [ht]; exact hg.htfile, j', c0, hc0, by rw [ht]; exact hp, hc' c0 hst0⟩

/-- One fetch-and-iterate step preserves the ghost invariant; its token or error has a Spec
position. -/
theorem G_lexStep (T : LexTables) {cs : List Char} {file : Nat} {lx : Lexer} (hg : G T cs file lx) :
    G T cs file (lexStep T lx).lx ∧ (lexStep T lx).TokP (TokAt T cs file) ∧
    (lexStep T lx).ErrP (ErrAt cs file) := by
  obtain ⟨k, hg⟩ := hg
  have hk : k ≤ cs.length + 1 := by rcases hg.hbound with ⟨_, h⟩ | ⟨_, h⟩ <;> omega
  cases hs : lx.stash with
  | some c =>
    obtain ⟨j, hkj, hc⟩ := hg.hstash c hs
    subst hkj
    rw [lexStep_stash hs]
    have hg' : GAt T cs file { lx with stash := none } (j + 1) :=
      ⟨hg.hinput, hg.hbound, hg.hpos, hg.hfile, hg.htfile, fun _ h => (by cases h), hg.hpending⟩
    obtain ⟨h1, h2, h3⟩ := GAt_lexChar T hg' rfl hc
    exact ⟨⟨_, h1⟩, h2, h3⟩
  | none =>
    cases hi : lx.input with
    | cons c rest =>
      rw [lexStep_cons hs hi]
      have hin := hg.hinput
      rw [hi] at hin
      obtain ⟨hlt, hget, hrest⟩ := drop_cons hin.symm
      have hc : (cs ++ ['\n'])[k]? = some c := by rw [List.getElem?_append_left hlt]; exact hget
      obtain ⟨hp, hf⟩ := stepLoc_pos lx.loc c
      have heof : lx.eof = false := by
        rcases hg.hbound with ⟨h, _⟩ | ⟨_, h⟩
        · exact h
        · omega
      have hg' : GAt T cs file { lx with input := rest, loc := stepLoc lx.loc c } (k + 1) :=
        ⟨hrest, Or.inl ⟨heof, hlt⟩, by rw [posOf_succ hc, ← hg.hpos]; exact hp, hf.trans hg.hfile,
          hg.htfile, fun c' h => (by rw [hs] at h; cases h),
          fun hne => by
            obtain ⟨j, c0, hj, h⟩ := hg.hpending hne
            exact ⟨j, c0, Nat.lt_succ_of_lt hj, h⟩⟩
      obtain ⟨h1, h2, h3⟩ := GAt_lexChar T hg' hs hc
      exact ⟨⟨_, h1⟩, h2, h3⟩
    | nil =>
      cases he : lx.ending with
      | utf8 =>
        rw [lexStep_utf8 hs hi he]
        exact ⟨⟨k, hg⟩, trivial, hg.hfile, k, hk, hg.hpos⟩
      | io =>
        rw [lexStep_io hs hi he]
        exact ⟨⟨k, hg⟩, trivial, hg.hfile, k, hk, hg.hpos⟩
      | eof =>
        cases hf : lx.eof with
        | true =>
          rw [lexStep_done hs hi he hf]
          exact ⟨⟨k, hg⟩, trivial, trivial⟩
        | false =>
          rw [lexStep_flush hs hi he hf]
          have hin := hg.hinput
          rw [hi] at hin
          have hkl : cs.length ≤ k := List.drop_eq_nil_iff.mp hin.symm
          have hkeq : k = cs.length := by
            rcases hg.hbound with ⟨_, h⟩ | ⟨h, _⟩
            · omega
            · rw [hf] at h; cases h
          subst hkeq
          have hc : (cs ++ ['\n'])[cs.length]? = some '\n' := by simp
          have hg' : GAt T cs file
              { lx with eof := true, loc := { lx.loc with line := lx.loc.line + 1, col := 0 } }
              (cs.length + 1) :=
            ⟨by rw [hi]; exact (List.drop_eq_nil_iff.mpr (Nat.le_succ _)).symm, Or.inr ⟨rfl, rfl⟩,
              by rw [posOf_succ hc, ← hg.hpos]; simp [advance], hg.hfile, hg.htfile,
              fun c' h => (by rw [hs] at h; cases h),
              fun hne => by
                obtain ⟨j, c0, hj, h⟩ := hg.hpending hne
                exact ⟨j, c0, Nat.lt_succ_of_lt hj, h⟩⟩
          obtain ⟨h1, h2, h3⟩ := GAt_lexChar T hg' hs hc
          exact ⟨⟨_, h1⟩, h2, h3⟩


/-- `Lexer::next` (any fuel) preserves the ghost invariant; its token or error has a Spec
position. -/
theorem G_next (T : LexTables) {cs : List Char} {file : Nat} (f : Nat) :
    ∀ lx, G T cs file lx →
      G T cs file (Lexer.next T f lx).lx ∧ (Lexer.next T f lx).TokP (TokAt T cs file) ∧
      (Lexer.next T f lx).ErrP (ErrAt cs file) := by
  induction f with
  | zero => intro lx hg; exact ⟨hg, trivial, trivial⟩
  | succ f ih =>
    intro lx hg
    have hstep := G_lexStep T hg
    cases h : lexStep T lx with
    | more lx' =>
      rw [Lexer.next_more f h]
      rw [h] at hstep
      exact ih lx' hstep.1
    | tok t lx' => rw [Lexer.next_stop f (by rw [h]; intro _ hh; cases hh)]; exact hstep
    | err e lx' => rw [Lexer.next_stop f (by rw [h]; intro _ hh; cases hh)]; exact hstep
    | done lx' => rw [Lexer.next_stop f (by rw [h]; intro _ hh; cases hh)]; exact hstep

/-- Every token and the error of a whole run have Spec positions. -/
theorem G_lexAll (T : LexTables) {cs : List Char} {file : Nat} (f : Nat) :
    ∀ lx, G T cs file lx →
      (∀ t ∈ (lexAll T f lx).1, TokAt T cs file t) ∧
      (∀ e, (lexAll T f lx).2 = some e → ErrAt cs file e) := by
  induction f with
  | zero => intro lx _; simp [lexAll]
  | succ f ih =>
    intro lx hg
    obtain ⟨h1, h2, h3⟩ := G_next T lx.fuel lx hg
    cases h : Lexer.next T lx.fuel lx with
    | tok t lx' =>
      rw [h] at h1 h2
      obtain ⟨i1, i2⟩ := ih lx' h1
      simp only [lexAll, h]
      refine ⟨?_, i2⟩
      intro t' ht'
      rcases List.mem_cons.mp ht' with rfl | ht'
      · exact h2
      · exact i1 t' ht'
    | err e lx' =>
      rw [h] at h3
      simp only [lexAll, h]
      refine ⟨by simp, ?_⟩
      intro e' he'
      cases he'
      exact h3
    | done lx' => simp [lexAll, h]
    | more lx' => simp [lexAll, h]

/-! ### the property theorems -/

/-- Lexer states reachable from `lx0` by fetch-and-iterate steps. -/
inductive Reach (T : LexTables) (lx0 : Lexer) : Lexer → Prop
  | refl : Reach T lx0 lx0
  | step {lx : Lexer} : Reach T lx0 lx → Reach T lx0 (lexStep T lx).lx

theorem Reach_next (T : LexTables) {lx0 : Lexer} (f : Nat) :
    ∀ lx, Reach T lx0 lx → Reach T lx0 (Lexer.next T f lx).lx := by
  induction f with
  | zero => intro lx h; exact h
  | succ f ih =>
    intro lx hr
    have hstep := Reach.step hr
    cases h : lexStep T lx with
    | more lx' => rw [Lexer.next_more f h]; rw [h] at hstep; exact ih lx' hstep
    | tok t lx' => rw [Lexer.next_stop f (by rw [h]; intro _ hh; cases hh)]; exact hstep
    | err e lx' => rw [Lexer.next_stop f (by rw [h]; intro _ hh; cases hh)]; exact hstep
    | done lx' => rw [Lexer.next_stop f (by rw [h]; intro _ hh; cases hh)]; exact hstep

theorem G_reach (T : LexTables) {cs : List Char} {file : Nat} {lx0 lx : Lexer}
    (h0 : G T cs file lx0) (h : Reach T lx0 lx) : G T cs file lx := by
  induction h with
  | refl => exact h0
  | step _ ih => exact (G_lexStep T ih).1

theorem posOf_flush (cs : List Char) :
    posOf (cs ++ ['\n']) (cs.length + 1) = ((posOf cs cs.length).1 + 1, 0) := by
  have hc : (cs ++ ['\n'])[cs.length]? = some '\n' := by simp
  rw [posOf_succ hc, posOf_append_left _ (Nat.le_refl _)]
  simp [advance]

/-- **C14 (location invariant).**  In every state the lexer reaches from `Lexer.new file cs ending`
— across comments, blank lines, strings, backslash-newline continuations inside strings, numbers,
symbols, identifiers; after tokens and after errors — `loc` names the file `file` and:
before the end-of-input flush, `loc` is exactly the Spec position `posOf cs k` of the last of the
`k` characters consumed, the rest `cs.drop k` being still unread (`Inv`);
after the flush (one pretended `'\n'`), `loc` is (number of lines + 1, 0). -/
theorem lexer_loc_invariant (T : LexTables) (file : Nat) (cs : List Char) (ending : StreamEnd)
    (lx : Lexer) (h : Reach T (Lexer.new file cs ending) lx) :
    lx.loc.file = file ∧ lx.tokLoc.file = file ∧
    (lx.eof = false → Inv cs file lx) ∧
    (lx.eof = true → lx.input = [] ∧
      (lx.loc.line, lx.loc.col) = ((posOf cs cs.length).1 + 1, 0)) := by
  obtain ⟨k, hg⟩ := G_reach T (G_new T file cs ending) h
  refine ⟨hg.hfile, hg.htfile, ?_, ?_⟩
  · intro he
    rcases hg.hbound with ⟨_, hk⟩ | ⟨h', _⟩
    · exact ⟨k, hk, hg.hinput, by rw [← posOf_append_left ['\n'] hk]; exact hg.hpos, hg.hfile⟩
    · rw [he] at h'; cases h'
  · intro he
    rcases hg.hbound with ⟨h', _⟩ | ⟨_, hk⟩
    · rw [he] at h'; cases h'
    · subst hk
      exact ⟨by rw [hg.hinput]; exact List.drop_eq_nil_iff.mpr (Nat.le_succ _),
        by rw [← posOf_flush]; exact hg.hpos⟩

/-- `Lexer::next` stays inside the reachable states (so the invariant holds between tokens). -/
theorem lexer_loc_invariant_next (T : LexTables) (file : Nat) (cs : List Char) (ending : StreamEnd)
    (lx : Lexer) (h : Reach T (Lexer.new file cs ending) lx) (f : Nat) :
    Reach T (Lexer.new file cs ending) (Lexer.next T f lx).lx :=
  Reach_next T f lx h

/-- **C14 (a token reports the position of its first character).**  Every token of a run of the
lexer over the text `cs` of file `file` names `file`, and its (line, column) is the Spec position
`posOf cs (k+1)` of a character `cs[k]` that is a legal FIRST character for that kind of token
(`;` comment, `"` string, `'`/`%`/digit/`$` number, symbol-start symbol, `@` directive, identifier
character for operation/register/flag/label names, `'\n'` for NewLine — whose position is by
convention (line + 1, 0)) — however many characters and lines the token spans; or it is a token
started by the single `'\n'` pretended at the end of the input, at (number of lines + 1, 0). -/
theorem token_loc (T : LexTables) (file : Nat) (cs : List Char) (ending : StreamEnd) (fuel : Nat) :
    ∀ t ∈ (lexAll T fuel (Lexer.new file cs ending)).1,
      t.loc.file = file ∧
      ((∃ k c, cs[k]? = some c ∧ (t.loc.line, t.loc.col) = posOf cs (k + 1) ∧
          tokStart T t.tok c = true) ∨
       ((t.loc.line, t.loc.col) = ((posOf cs cs.length).1 + 1, 0) ∧
          tokStart T t.tok '\n' = true)) := by
  intro t ht
  obtain ⟨hf, j, c0, hc0, hp, hs⟩ := (G_lexAll T fuel _ (G_new T file cs ending)).1 t ht
  refine ⟨hf, ?_⟩
  rcases Nat.lt_trichotomy j cs.length with hj | hj | hj
  · rw [List.getElem?_append_left hj] at hc0
    rw [posOf_append_left _ (Nat.succ_le_of_lt hj)] at hp
    exact Or.inl ⟨j, c0, hc0, hp, hs⟩
  · subst hj
    rw [posOf_flush] at hp
    have : c0 = '\n' := by simpa using hc0.symm
    subst this
    exact Or.inr ⟨hp, hs⟩
  · have : (cs ++ ['\n'])[j]? = none := by
      apply List.getElem?_eq_none; simp; omega
    rw [this] at hc0; cases hc0

/-- **C14 (an error reports a position of the text).**  The error that ends a run names `file`
and its (line, column) is the Spec position after some number `k` of characters of the text
(`error_loc` says which: the character just read, or the first character of the token). -/
theorem lexAll_error_loc (T : LexTables) (file : Nat) (cs : List Char) (ending : StreamEnd)
    (fuel : Nat) (e : LexErr) (h : (lexAll T fuel (Lexer.new file cs ending)).2 = some e) :
    e.loc.file = file ∧
    ((∃ k, k ≤ cs.length ∧ (e.loc.line, e.loc.col) = posOf cs k) ∨
     (e.loc.line, e.loc.col) = ((posOf cs cs.length).1 + 1, 0)) := by
  obtain ⟨hf, k, hk, hp⟩ := (G_lexAll T fuel _ (G_new T file cs ending)).2 e h
  refine ⟨hf, ?_⟩
  rcases Nat.lt_or_ge k (cs.length + 1) with hlt | hge
  · exact Or.inl ⟨k, Nat.le_of_lt_succ hlt, by rw [← posOf_append_left ['\n'] (Nat.le_of_lt_succ hlt)]; exact hp⟩
  · have : k = cs.length + 1 := Nat.le_antisymm hk hge
    subst this
    exact Or.inr (by rw [← posOf_flush]; exact hp)


/-- **C14 (`tokLoc` is the start of the token).**  From `initial`, entering a token-building
state records the current `loc` (the Spec position of the character that opens the token) as
`tokLoc`; from each of the 16 non-initial states, every branch leaves `tokLoc` untouched. -/
theorem tokLoc_is_start (T : LexTables) (lx : Lexer) (c : Char) :
    (lx.state = .initial →
      ((lexChar T lx c).lx.tokLoc = lx.tokLoc ∧ (lexChar T lx c).lx.state = .initial) ∨
      ((lexChar T lx c).lx.tokLoc = lx.loc ∧ (lexChar T lx c).lx.state ≠ .initial ∧
        startsToken T (lexChar T lx c).lx.state c = true)) ∧
    (lx.state ≠ .initial → (lexChar T lx c).lx.tokLoc = lx.tokLoc) :=
  ⟨lexChar_tokLoc_init T lx c, fun h => (lexChar_tokLoc_noninit T lx c h).1⟩

/-- **C14 (pending token).**  In every reachable state before the end-of-input flush, while a
token is being built (`state ≠ initial`), `tokLoc` is the Spec position `posOf cs (k+1)` of an
already consumed character `cs[k]` which is a legal first character for the current state. -/
theorem pending_invariant (T : LexTables) (file : Nat) (cs : List Char) (ending : StreamEnd)
    (lx : Lexer) (h : Reach T (Lexer.new file cs ending) lx) (he : lx.eof = false)
    (hs : lx.state ≠ .initial) :
    ∃ k c0, cs[k]? = some c0 ∧ (lx.tokLoc.line, lx.tokLoc.col) = posOf cs (k + 1) ∧
      startsToken T lx.state c0 = true := by
  obtain ⟨k, hg⟩ := G_reach T (G_new T file cs ending) h
  obtain ⟨j, c0, hj, hc0, hp, hst⟩ := hg.hpending hs
  have hk : k ≤ cs.length := by
    rcases hg.hbound with ⟨_, hk⟩ | ⟨h', _⟩
    · exact hk
    · rw [he] at h'; cases h'
  have hjl : j < cs.length := Nat.lt_of_lt_of_le hj hk
  rw [List.getElem?_append_left hjl] at hc0
  rw [posOf_append_left _ (Nat.succ_le_of_lt hjl)] at hp
  exact ⟨j, c0, hc0, hp, hst⟩

/-- **C14 (one `next`).**  From any reachable state, the token returned by `Lexer::next` carries
the file and the Spec position of a character that is a legal first character for its kind (in the
text extended by the pretended final newline), and an error carries a Spec position. -/
theorem next_token_loc (T : LexTables) (file : Nat) (cs : List Char) (ending : StreamEnd)
    (lx : Lexer) (h : Reach T (Lexer.new file cs ending) lx) (f : Nat) :
    (∀ t lx', Lexer.next T f lx = .tok t lx' → TokAt T cs file t) ∧
    (∀ e lx', Lexer.next T f lx = .err e lx' → ErrAt cs file e) := by
  obtain ⟨_, h2, h3⟩ := G_next T f lx (G_reach T (G_new T file cs ending) h)
  exact ⟨fun t lx' e => LexOut.TokP_of_eq h2 e, fun x lx' e => LexOut.ErrP_of_eq h3 e⟩

/-! ### non-vacuity: concrete runs (kernel-checked) -/

/-- `ld a, 5⏎  "x\⏎y" q` — a string continued over a line break with a backslash. -/
def ex1 : List Char :=
  ['l','d',' ','a',',',' ','5','\n',' ',' ','"','x','\\','\n','y','"',' ','q']

example : lexAll (lexTables .z80) 20 (Lexer.new 7 ex1) =
    ([⟨.op "Ld", ⟨7, 1, 1⟩⟩, ⟨.reg "A", ⟨7, 1, 4⟩⟩, ⟨.sym "Comma", ⟨7, 1, 5⟩⟩, ⟨.num 5, ⟨7, 1, 7⟩⟩,
      ⟨.newline, ⟨7, 2, 0⟩⟩,
      -- the string starts at line 2 column 3 and ends on line 3: it reports its first character
      ⟨.str "xy", ⟨7, 2, 3⟩⟩,
      -- `q` is on line 3 (the continued line counts), column 4
      ⟨.label .global "q", ⟨7, 3, 4⟩⟩,
      -- the pretended final newline
      ⟨.newline, ⟨7, 4, 0⟩⟩], none) := by decide +kernel

example : posOf ex1 11 = (2, 3) ∧ ex1[10]? = some '"' ∧ posOf ex1 18 = (3, 4) ∧ ex1[17]? = some 'q' ∧
    posOf ex1 8 = (2, 0) ∧ ex1[7]? = some '\n' := by decide +kernel

/-- `; c⏎⏎ nop $1G` — comment, blank line, then a bad hex number: the error names the `$`. -/
def ex2 : List Char := [';',' ','c','\n','\n',' ','n','o','p',' ','$','1','G']

example : lexAll (lexTables .mos6502) 20 (Lexer.new 3 ex2) =
    ([⟨.comment, ⟨3, 1, 1⟩⟩, ⟨.newline, ⟨3, 2, 0⟩⟩, ⟨.newline, ⟨3, 3, 0⟩⟩, ⟨.op "Nop", ⟨3, 3, 2⟩⟩],
     some ⟨.hex, ⟨3, 3, 6⟩⟩) := by decide +kernel

/-- `"ab⏎` — a line break inside a string: the error names the line break (current `loc`). -/
example : lexAll (lexTables .sm83) 20 (Lexer.new 0 ['"','a','b','\n']) =
    ([], some ⟨.lineBreak, ⟨0, 2, 0⟩⟩) := by decide +kernel

/-- An illegal character met in `initial` is reported at its own position. -/
example : lexAll (lexTables .z80) 20 (Lexer.new 0 ['a',' ','`']) =
    ([⟨.reg "A", ⟨0, 1, 1⟩⟩], some ⟨.input, ⟨0, 1, 3⟩⟩) := by decide +kernel

/-- The invariant's hypotheses are met by the initial lexer. -/
example : Inv ex1 7 (Lexer.new 7 ex1) := Inv_new 7 ex1 .eof

end Az65.Thm.C14

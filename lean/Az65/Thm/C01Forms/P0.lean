import Az65.Thm.C01Forms.Defs
namespace Az65.Thm.C01
theorem forms_slice_0 : formsAgreeOn (slice 0) = true := by decide +kernel
end Az65.Thm.C01

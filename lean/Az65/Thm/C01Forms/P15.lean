import Az65.Thm.C01Forms.Defs
namespace Az65.Thm.C01
theorem forms_slice_15 : formsAgreeOn (slice 15) = true := by decide +kernel
end Az65.Thm.C01

import Az65.Thm.C01Forms.Defs
namespace Az65.Thm.C01
theorem forms_slice_13 : formsAgreeOn (slice 13) = true := by decide +kernel
end Az65.Thm.C01

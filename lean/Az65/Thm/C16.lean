import Az65.Model.Abs
import Az65.Lemmas.ExprBridge
import Az65.Thm.C08
/-
C16 — struct fields are prefix sums of declared sizes; `@sizeof` returns the declared size.
-/
namespace Az65.Thm.C16
open Az65 Az65.Abs
open Az65.Thm.C08 (resolve_symtab resolve_ns resolve_fields resolve_label resolve_sizeOf
  get_set_same get_set_other insertWithMeta_get_same insertWithMeta_get_other touch_fields)

/-! ## Spec: layout of a struct whose member sizes are known integers -/

/-- A struct member with its size / padding / alignment already a known integer. -/
inductive M where
  | field (name : String) (size : Int)
  | pad (n : Int)
  | align (a : Int)
  deriving Repr

/-- 32-bit two's-complement wrap (`i32::wrapping_add`). -/
abbrev wrap (x : Int) : Int := Spec.wrap x

/-- Distance from `s` up to the next multiple of `a` (`0` if `s` is one). -/
def gap (s a : Int) : Int := (a - s % a) % a

/-- The running size after one member. -/
def stepM (s : Int) : M → Int
  | .field _ sz => wrap (s + sz)
  | .pad p => wrap (s + p)
  | .align a => wrap (s + gap s a)

/-- Total size: the running size after all members. -/
def total : List M → Int → Int
  | [], s => s
  | m :: r, s => total r (stepM s m)

/-- Each field with its offset (the running size when it is reached) and its declared size. -/
def fields : List M → Int → List (String × Int × Int)
  | [], _ => []
  | .field n sz :: r, s => (n, s, sz) :: fields r (wrap (s + sz))
  | m :: r, s => fields r (stepM s m)

/-- Field offsets and the total size, starting from the running size `s` (0 for a struct). -/
def layout (ms : List M) (s : Int) : List (String × Int) × Int :=
  ((fields ms s).map fun x => (x.1, x.2.1), total ms s)

theorem total_append (a b : List M) : ∀ s, total (a ++ b) s = total b (total a s) := by
  induction a with
  | nil => intro s; rfl
  | cons m r ih => intro s; simp only [List.cons_append, total]; exact ih _

theorem fields_cons (m : M) (r : List M) (s : Int) :
    fields (m :: r) s = (match m with | .field n sz => [(n, s, sz)] | _ => []) ++ fields r (stepM s m) := by
  cases m <;> simp [fields, stepM]

theorem fields_append (a b : List M) : ∀ s, fields (a ++ b) s = fields a s ++ fields b (total a s) := by
  induction a with
  | nil => intro s; rfl
  | cons m r ih =>
    intro s
    rw [List.cons_append, fields_cons, fields_cons, ih, List.append_assoc]; rfl

/-- **Prefix sums.** The offset of a field is the total size of the members that precede it. -/
theorem field_offset_is_prefix_total (pre post : List M) (n : String) (sz s : Int) :
    (n, total pre s, sz) ∈ fields (pre ++ .field n sz :: post) s := by
  rw [fields_append]; simp [fields]

/-! ## `@align` inside a struct -/

theorem gap_nonneg (s a : Int) (ha : 0 < a) : 0 ≤ gap s a :=
  Int.emod_nonneg _ (Int.ne_of_gt ha)

theorem gap_lt (s a : Int) (ha : 0 < a) : gap s a < a := Int.emod_lt_of_pos _ ha

/-- After the gap the size is a multiple of the alignment. -/
theorem add_gap_emod (s a : Int) : (s + gap s a) % a = 0 := by
  unfold gap
  rw [Int.add_emod_emod]
  have h : s + (a - s % a) = a + a * (s / a) := by
    rw [Int.emod_def]; generalize a * (s / a) = t; omega
  rw [h, Int.add_mul_emod_self_left, Int.emod_self]

/-- The gap is 0 exactly when the size is already aligned. -/
theorem gap_eq_zero_of_aligned (s a : Int) (h : s % a = 0) : gap s a = 0 := by
  unfold gap; rw [h, Int.sub_zero, Int.emod_self]

/-- `Eff.structPadding` is the Spec gap (for an alignment the model accepts, i.e. `≥ 2`). -/
theorem structPadding_spec (size al : I32) (h : 2 ≤ al.toInt) :
    (Eff.structPadding size al).toInt = gap size.toInt al.toInt := by
  have ha := Bridge.inR_toInt al
  have h0 := gap_nonneg size.toInt al.toInt (by omega)
  have h1 := gap_lt size.toInt al.toInt (by omega)
  unfold Eff.structPadding
  show (BitVec.ofInt 32 (gap size.toInt al.toInt)).toInt = _
  apply Bridge.toInt_ofInt_of_inR
  unfold Bridge.InR at *; omega

/-- The size after a struct `@align` is a multiple of the alignment (when it does not wrap). -/
theorem structPadding_aligned (size al : I32) (h : 2 ≤ al.toInt)
    (hw : size.toInt + gap size.toInt al.toInt < 2147483648) :
    (size + Eff.structPadding size al).toInt % al.toInt = 0 := by
  have hs := Bridge.inR_toInt size
  have h0 := gap_nonneg size.toInt al.toInt (by omega)
  rw [BitVec.toInt_add, structPadding_spec size al h]
  have : (size.toInt + gap size.toInt al.toInt).bmod (2 ^ 32) = size.toInt + gap size.toInt al.toInt := by
    unfold Bridge.InR at hs
    rw [Int.bmod_def, Bridge.cast_two_pow]; split <;> omega
  rw [this]; exact add_gap_emod _ _

/-! ## One member of the model against one Spec member -/

/-- The value a member's operand has where it is written (evaluated in the state reached after
the members before it), if it can be computed there. -/
def valOf (c : CoreSt) (e : List Node) : Option I32 :=
  match ev (resolve c e).1 (resolve c e).2 with
  | .ok (some v) => some v
  | _ => none

/-- The Spec member a model member denotes in state `c`. -/
def mval (c : CoreSt) : Member → M
  | .field n e => .field n ((valOf c e).getD 0).toInt
  | .pad e => .pad ((valOf c e).getD 0).toInt
  | .align e => .align ((valOf c e).getD 0).toInt

/-- The Spec member list a model member list denotes: each operand evaluated in the state that
the members before it produce. -/
def denote (sname : String) : CoreSt → I32 → List Member → List M
  | _, _, [] => []
  | c, size, m :: r =>
    match member sname c size m with
    | .error _ => []
    | .ok (c', size') => mval c m :: denote sname c' size' r

/-- The table key of field `f` of struct `sname`. -/
abbrev key (sname f : String) : String := sname ++ "." ++ f

theorem member_field_ok {sname : String} {c c' : CoreSt} {size size' : I32} {n : String}
    {e : List Node} (h : member sname c size (.field n e) = .ok (c', size')) :
    ∃ fs, valOf c e = some fs ∧ c.symtab.get (key sname n) = none ∧
      c' = (resolve c e).1.insertWithMeta (key sname n) (.val size) [("@SIZEOF", toString fs.toInt)] ∧
      size' = size + fs := by
  simp only [member] at h
  unfold valOf
  cases hev : ev (resolve c e).1 (resolve c e).2 with
  | error er => rw [hev] at h; simp at h
  | ok o =>
    rw [hev] at h
    cases o with
    | none => simp at h
    | some fs =>
      simp only at h
      refine ⟨fs, rfl, ?_⟩
      cases hg : (resolve c e).1.symtab.get (key sname n) with
      | some en => simp [Eff.structField, hg] at h
      | none =>
        simp [Eff.structField, hg] at h
        rw [resolve_symtab] at hg
        exact ⟨hg, h.1.symm, h.2.symm⟩

theorem member_pad_ok {sname : String} {c c' : CoreSt} {size size' : I32} {e : List Node}
    (h : member sname c size (.pad e) = .ok (c', size')) :
    ∃ p, valOf c e = some p ∧ c' = (resolve c e).1 ∧ size' = size + p := by
  simp only [member] at h
  unfold valOf
  cases hev : ev (resolve c e).1 (resolve c e).2 with
  | error er => rw [hev] at h; simp at h
  | ok o =>
    rw [hev] at h
    cases o with
    | none => simp at h
    | some p => simp at h; exact ⟨p, rfl, h.1.symm, h.2.symm⟩

theorem member_align_ok {sname : String} {c c' : CoreSt} {size size' : I32} {e : List Node}
    (h : member sname c size (.align e) = .ok (c', size')) :
    ∃ a, valOf c e = some a ∧ 2 ≤ a.toInt ∧ c' = (resolve c e).1 ∧
      size' = size + Eff.structPadding size a := by
  simp only [member] at h
  unfold valOf
  cases hev : ev (resolve c e).1 (resolve c e).2 with
  | error er => rw [hev] at h; simp at h
  | ok o =>
    rw [hev] at h
    cases o with
    | none => simp at h
    | some a =>
      simp only at h
      split at h
      · simp at h
      · rename_i ha
        simp at h; exact ⟨a, rfl, by omega, h.1.symm, h.2.symm⟩

/-- One member advances the running size as the Spec says. -/
theorem member_size {sname : String} {c c' : CoreSt} {size size' : I32} {m : Member}
    (h : member sname c size m = .ok (c', size')) : size'.toInt = stepM size.toInt (mval c m) := by
  cases m with
  | field n e =>
    obtain ⟨fs, hv, _, _, rfl⟩ := member_field_ok h
    simp only [mval, hv, Option.getD_some, stepM]
    exact BitVec.toInt_add ..
  | pad e =>
    obtain ⟨p, hv, _, rfl⟩ := member_pad_ok h
    simp only [mval, hv, Option.getD_some, stepM]
    exact BitVec.toInt_add ..
  | align e =>
    obtain ⟨a, hv, ha, _, rfl⟩ := member_align_ok h
    simp only [mval, hv, Option.getD_some, stepM]
    rw [BitVec.toInt_add, structPadding_spec size a ha]; rfl

/-- One member never disturbs a name that is already defined. -/
theorem member_mono {sname : String} {c c' : CoreSt} {size size' : I32} {m : Member}
    (h : member sname c size m = .ok (c', size')) (k : String) (en : Entry)
    (hk : c.symtab.get k = some en) : c'.symtab.get k = some en := by
  cases m with
  | field n e =>
    obtain ⟨fs, _, hnone, rfl, _⟩ := member_field_ok h
    have hne : k ≠ key sname n := by intro heq; rw [heq, hnone] at hk; cases hk
    rw [insertWithMeta_get_other _ _ _ _ _ hne, resolve_symtab]; exact hk
  | pad e =>
    obtain ⟨p, _, rfl, _⟩ := member_pad_ok h
    rw [resolve_symtab]; exact hk
  | align e =>
    obtain ⟨a, _, _, rfl, _⟩ := member_align_ok h
    rw [resolve_symtab]; exact hk

/-- One member leaves every name other than its own field key alone. -/
theorem member_frame {sname : String} {c c' : CoreSt} {size size' : I32} {m : Member}
    (h : member sname c size m = .ok (c', size')) (k : String)
    (hk : ∀ n e, m = .field n e → k ≠ key sname n) : c'.symtab.get k = c.symtab.get k := by
  cases m with
  | field n e =>
    obtain ⟨fs, _, _, rfl, _⟩ := member_field_ok h
    rw [insertWithMeta_get_other _ _ _ _ _ (hk n e rfl), resolve_symtab]
  | pad e =>
    obtain ⟨p, _, rfl, _⟩ := member_pad_ok h
    rw [resolve_symtab]
  | align e =>
    obtain ⟨a, _, _, rfl, _⟩ := member_align_ok h
    rw [resolve_symtab]

theorem member_ns {sname : String} {c c' : CoreSt} {size size' : I32} {m : Member}
    (h : member sname c size m = .ok (c', size')) : c'.ns = c.ns := by
  cases m with
  | field n e =>
    obtain ⟨fs, _, _, rfl, _⟩ := member_field_ok h
    simp [CoreSt.insertWithMeta, resolve_ns]
  | pad e =>
    obtain ⟨p, _, rfl, _⟩ := member_pad_ok h
    rw [resolve_ns]
  | align e =>
    obtain ⟨a, _, _, rfl, _⟩ := member_align_ok h
    rw [resolve_ns]

/-! ## The member list -/

theorem members_cons_ok {sname : String} {c c' : CoreSt} {size size' : I32} {m : Member}
    {r : List Member} (h : members sname c size (m :: r) = .ok (c', size')) :
    ∃ c1 s1, member sname c size m = .ok (c1, s1) ∧ members sname c1 s1 r = .ok (c', size') := by
  simp only [members] at h
  split at h
  · simp at h
  · rename_i c1 s1 hm; exact ⟨c1, s1, hm, h⟩

theorem members_append (sname : String) (a b : List Member) : ∀ (c : CoreSt) (size : I32),
    members sname c size (a ++ b) = match members sname c size a with
      | .error e => .error e
      | .ok (c1, s1) => members sname c1 s1 b := by
  induction a with
  | nil => intro c size; rfl
  | cons m r ih =>
    intro c size
    simp only [List.cons_append, members]
    cases member sname c size m with
    | error e => rfl
    | ok p => exact ih p.1 p.2

theorem members_mono {sname : String} : ∀ (ms : List Member) {c c' : CoreSt} {size size' : I32},
    members sname c size ms = .ok (c', size') → ∀ k en, c.symtab.get k = some en →
    c'.symtab.get k = some en := by
  intro ms
  induction ms with
  | nil => intro c c' size size' h k en hk; simp [members] at h; rw [← h.1]; exact hk
  | cons m r ih =>
    intro c c' size size' h k en hk
    obtain ⟨c1, s1, hm, hr⟩ := members_cons_ok h
    exact ih hr k en (member_mono hm k en hk)

theorem members_ns {sname : String} : ∀ (ms : List Member) {c c' : CoreSt} {size size' : I32},
    members sname c size ms = .ok (c', size') → c'.ns = c.ns := by
  intro ms
  induction ms with
  | nil => intro c c' size size' h; simp [members] at h; rw [← h.1]
  | cons m r ih =>
    intro c c' size size' h
    obtain ⟨c1, s1, hm, hr⟩ := members_cons_ok h
    rw [ih hr, member_ns hm]

/-- The field names of a member list. -/
def fieldNames : List Member → List String
  | [] => []
  | .field n _ :: r => n :: fieldNames r
  | _ :: r => fieldNames r

/-- A struct body only defines its own field keys. -/
theorem members_frame {sname : String} : ∀ (ms : List Member) {c c' : CoreSt} {size size' : I32},
    members sname c size ms = .ok (c', size') → ∀ k, (∀ n ∈ fieldNames ms, k ≠ key sname n) →
    c'.symtab.get k = c.symtab.get k := by
  intro ms
  induction ms with
  | nil => intro c c' size size' h k _; simp [members] at h; rw [← h.1]
  | cons m r ih =>
    intro c c' size size' h k hk
    obtain ⟨c1, s1, hm, hr⟩ := members_cons_ok h
    have h1 : c1.symtab.get k = c.symtab.get k := by
      apply member_frame hm
      intro n e hme; subst hme; exact hk n (by simp [fieldNames])
    rw [← h1]
    apply ih hr
    intro n hn
    apply hk
    cases m <;> simp [fieldNames, hn]

/-- **Struct layout.** If the body of a struct is accepted, then - with `vs` the integer values
its size / padding / alignment operands have where they are written - the final running size is
the Spec total of `vs`, and every field `f` is in the table as `sname.f` with the Spec offset (the
prefix sum of what precedes it) as its value and its declared size as its `@SIZEOF` entry. -/
theorem members_layout (sname : String) : ∀ (ms : List Member) (c c' : CoreSt) (size size' : I32),
    members sname c size ms = .ok (c', size') →
    size'.toInt = total (denote sname c size ms) size.toInt ∧
    ∀ f off d, (f, off, d) ∈ fields (denote sname c size ms) size.toInt →
      c'.symtab.get (key sname f) =
        some ⟨.val (BitVec.ofInt 32 off), [("@SIZEOF", toString d)]⟩ := by
  intro ms
  induction ms with
  | nil =>
    intro c c' size size' h
    simp [members] at h
    simp [denote, total, fields, h.2]
  | cons m r ih =>
    intro c c' size size' h
    obtain ⟨c1, s1, hm, hr⟩ := members_cons_ok h
    obtain ⟨iht, ihf⟩ := ih c1 c' s1 size' hr
    have hs1 := member_size hm
    have hden : denote sname c size (m :: r) = mval c m :: denote sname c1 s1 r := by
      simp only [denote, hm]
    rw [hden]
    refine ⟨by simp only [total]; rw [← hs1]; exact iht, ?_⟩
    intro f off d hmem
    rw [fields_cons, List.mem_append] at hmem
    rcases hmem with hmem | hmem
    · cases m with
      | field n e =>
        obtain ⟨fs, hv, _, hc1, _⟩ := member_field_ok hm
        simp only [mval, hv, Option.getD_some, List.mem_singleton, Prod.mk.injEq] at hmem
        obtain ⟨rfl, rfl, rfl⟩ := hmem
        apply members_mono r hr
        rw [hc1, insertWithMeta_get_same]
        simp
      | pad e => simp [mval] at hmem
      | align e => simp [mval] at hmem
    · rw [← hs1] at hmem; exact ihf f off d hmem

/-- The same with the task's `layout`: the offsets listed by `layout` are the values stored. -/
theorem members_layout' (sname : String) (ms : List Member) (c c' : CoreSt) (size size' : I32)
    (h : members sname c size ms = .ok (c', size')) :
    size'.toInt = (layout (denote sname c size ms) size.toInt).2 ∧
    ∀ f off, (f, off) ∈ (layout (denote sname c size ms) size.toInt).1 →
      ∃ d : Int, c'.symtab.get (key sname f) =
        some ⟨.val (BitVec.ofInt 32 off), [("@SIZEOF", toString d)]⟩ := by
  obtain ⟨h1, h2⟩ := members_layout sname ms c c' size size' h
  refine ⟨h1, ?_⟩
  intro f off hmem
  simp only [layout, List.mem_map] at hmem
  obtain ⟨⟨f', off', d⟩, hx, heq⟩ := hmem
  simp only [Prod.mk.injEq] at heq
  obtain ⟨rfl, rfl⟩ := heq
  exact ⟨d, h2 _ _ _ hx⟩

/-! ### constant operands -/

/-- A Spec member as a model member with literal operands. -/
def ofM : M → Member
  | .field n sz => .field n [.val (BitVec.ofInt 32 sz)]
  | .pad p => .pad [.val (BitVec.ofInt 32 p)]
  | .align a => .align [.val (BitVec.ofInt 32 a)]

/-- All the integers of a Spec member are 32-bit values. -/
def M.InR : M → Prop
  | .field _ sz => Bridge.InR sz
  | .pad p => Bridge.InR p
  | .align a => Bridge.InR a

theorem valOf_val (c : CoreSt) (v : I32) : valOf c [.val v] = some v := by
  have : resolve c [.val v] = (c, [.val v]) := by simp [resolve]
  unfold valOf
  rw [this]
  simp [ev, evalOpt, CoreSt.eval, C08.evaluate_val]

theorem mval_ofM (c : CoreSt) (x : M) (h : x.InR) : mval c (ofM x) = x := by
  cases x <;> simp only [ofM, mval, valOf_val, Option.getD_some] <;>
    rw [Bridge.toInt_ofInt_of_inR h]

theorem denote_const (sname : String) : ∀ (vs : List M) (c c' : CoreSt) (size size' : I32),
    (∀ x ∈ vs, x.InR) → members sname c size (vs.map ofM) = .ok (c', size') →
    denote sname c size (vs.map ofM) = vs := by
  intro vs
  induction vs with
  | nil => intros; rfl
  | cons x r ih =>
    intro c c' size size' hin h
    rw [List.map_cons] at h ⊢
    obtain ⟨c1, s1, hm, hr⟩ := members_cons_ok h
    simp only [denote, hm]
    rw [mval_ofM c x (hin x (List.mem_cons_self ..)),
      ih c1 c' s1 size' (fun y hy => hin y (List.mem_cons_of_mem _ hy)) hr]

/-- **Struct layout, literal operands.** For a struct body whose operands are the literals of the
Spec member list `vs`, the stored offsets and the final size are exactly `layout vs`. -/
theorem members_layout_const (sname : String) (vs : List M) (c c' : CoreSt) (size size' : I32)
    (hin : ∀ x ∈ vs, x.InR) (h : members sname c size (vs.map ofM) = .ok (c', size')) :
    size'.toInt = total vs size.toInt ∧
    ∀ f off d, (f, off, d) ∈ fields vs size.toInt →
      c'.symtab.get (key sname f) =
        some ⟨.val (BitVec.ofInt 32 off), [("@SIZEOF", toString d)]⟩ := by
  have := members_layout sname (vs.map ofM) c c' size size' h
  rw [denote_const sname vs c c' size size' hin h] at this
  exact this

/-! ### duplicate fields -/

/-- A field whose key is already in the table makes the body fail. -/
theorem members_field_exists_rejected (sname f : String) (e : List Node) (post : List Member)
    (c : CoreSt) (size : I32) (en : Entry) (h : c.symtab.get (key sname f) = some en) :
    ∃ er, members sname c size (.field f e :: post) = .error er := by
  obtain ⟨er, her⟩ := C08.member_field_rejected sname f c size e en h
  exact ⟨er, by simp only [members, her]⟩

/-- **Duplicate field rejected.** A struct body that declares the same field name twice is never
accepted (whatever else it contains). -/
theorem duplicate_field_rejected (sname f : String) (e1 e2 : List Node)
    (pre mid post : List Member) (c : CoreSt) (size : I32) :
    ∃ er, members sname c size (pre ++ .field f e1 :: (mid ++ .field f e2 :: post)) = .error er := by
  rw [members_append]
  cases hpre : members sname c size pre with
  | error er => exact ⟨er, rfl⟩
  | ok p =>
    obtain ⟨c1, s1⟩ := p
    simp only
    cases hf : member sname c1 s1 (.field f e1) with
    | error er => exact ⟨er, by simp only [members, hf]⟩
    | ok p2 =>
      obtain ⟨c2, s2⟩ := p2
      simp only [members, hf]
      obtain ⟨fs, _, _, hc2, _⟩ := member_field_ok hf
      have hk : c2.symtab.get (key sname f) = some ⟨.val s1, [("@SIZEOF", toString fs.toInt)]⟩ := by
        rw [hc2, insertWithMeta_get_same]
      rw [members_append]
      cases hmid : members sname c2 s2 mid with
      | error er => exact ⟨er, rfl⟩
      | ok p3 =>
        obtain ⟨c3, s3⟩ := p3
        simp only
        exact members_field_exists_rejected sname f e2 post c3 s3 _ (members_mono mid hmid _ _ hk)

/-! ## The `@struct` statement -/

theorem key_ne_name (sname f : String) : key sname f ≠ sname := by
  intro h
  have := congrArg String.length h
  simp only [key, String.length_append] at this
  have h1 : ".".length = 1 := by decide
  omega

theorem exec_struct_ok {s s' : State} {name : String} {ms : List Member}
    (h : exec s (.struct name ms) = .ok s') :
    s.core.symtab.get name = none ∧
    ∃ c1 size, members name { s.core with ns := some name } 0 ms = .ok (c1, size) ∧
      s' = { s with core := ({ c1 with ns := s.core.ns }).insertWithMeta name (.val size) [] } := by
  simp only [exec] at h
  split at h
  · simp at h
  · rename_i hn
    refine ⟨by simpa using hn, ?_⟩
    split at h
    · simp at h
    · rename_i c1 size hm
      simp at h
      exact ⟨c1, size, hm, h.symm⟩

/-- **Struct total.** An accepted `@struct` stores the struct's own name with the Spec total of
its members as value (and no metadata), and every field with its Spec offset and declared size;
the total of an empty struct is 0. -/
theorem struct_total {s s' : State} {name : String} {ms : List Member}
    (h : exec s (.struct name ms) = .ok s') :
    let vs := denote name { s.core with ns := some name } 0 ms
    (∃ size : I32, s'.core.symtab.get name = some ⟨.val size, []⟩ ∧ size.toInt = total vs 0) ∧
    (∀ f off d, (f, off, d) ∈ fields vs 0 →
      s'.core.symtab.get (key name f) =
        some ⟨.val (BitVec.ofInt 32 off), [("@SIZEOF", toString d)]⟩) := by
  intro vs
  obtain ⟨_, c1, size, hm, rfl⟩ := exec_struct_ok h
  obtain ⟨h1, h2⟩ := members_layout name ms _ c1 0 size hm
  have z : (0 : I32).toInt = 0 := by decide
  rw [z] at h1 h2
  refine ⟨⟨size, ?_, h1⟩, ?_⟩
  · simp [insertWithMeta_get_same]
  · intro f off d hmem
    show (CoreSt.insertWithMeta _ name _ _).symtab.get (key name f) = _
    rw [insertWithMeta_get_other _ _ _ _ _ (key_ne_name name f)]
    exact h2 f off d hmem

/-- **Scope restored.** The label scope in force before `@struct` is back after `@endstruct`
(inside the body the scope is the struct's name), and the segment kind is untouched. -/
theorem scope_restored {s s' : State} {name : String} {ms : List Member}
    (h : exec s (.struct name ms) = .ok s') : s'.core.ns = s.core.ns ∧ s'.code = s.code := by
  obtain ⟨_, c1, size, hm, rfl⟩ := exec_struct_ok h
  exact ⟨rfl, rfl⟩

/-- Inside the body the scope is the struct's own name. -/
theorem scope_inside {s s' : State} {name : String} {ms : List Member}
    (h : exec s (.struct name ms) = .ok s') :
    ∃ c1 size, members name { s.core with ns := some name } 0 ms = .ok (c1, size) ∧
      c1.ns = some name := by
  obtain ⟨_, c1, size, hm, _⟩ := exec_struct_ok h
  exact ⟨c1, size, hm, by rw [members_ns ms hm]⟩

/-- **Empty struct.** `@struct S @endstruct` is accepted when `S` is new and defines `S = 0`. -/
theorem empty_struct (s : State) (name : String) (hn : s.core.symtab.get name = none) :
    ∃ s', exec s (.struct name []) = .ok s' ∧ s'.core.symtab.get name = some ⟨.val 0, []⟩ := by
  refine ⟨{ s with core := ({ s.core with ns := s.core.ns }).insertWithMeta name (.val 0) [] }, ?_, ?_⟩
  · simp [exec, hn, members]
  · simp [insertWithMeta_get_same]

/-- An accepted struct leaves every name other than its own and its fields' alone. -/
theorem struct_frame {s s' : State} {name : String} {ms : List Member}
    (h : exec s (.struct name ms) = .ok s') (k : String) (hk : k ≠ name)
    (hf : ∀ n ∈ fieldNames ms, k ≠ key name n) : s'.core.symtab.get k = s.core.symtab.get k := by
  obtain ⟨_, c1, size, hm, rfl⟩ := exec_struct_ok h
  show (CoreSt.insertWithMeta _ name _ _).symtab.get k = _
  rw [insertWithMeta_get_other _ _ _ _ _ hk]
  exact members_frame ms hm k hf

/-! ## `@sizeof` -/

theorem isDigit_le (c : Char) (h : c.isDigit = true) : '0' ≤ c ∧ c ≤ '9' := by
  simp only [Char.isDigit, Bool.and_eq_true, decide_eq_true_eq] at h
  exact ⟨Char.le_def.mpr h.1, Char.le_def.mpr h.2⟩

/-- On a digit string the model's digit loop is the core library's `Nat.ofDigitChars`. -/
theorem parseDigits_eq : ∀ (l : List Char), (∀ c ∈ l, c.isDigit = true) → ∀ acc : Nat,
    parseI32Digits l acc = some (Nat.ofDigitChars 10 l acc) := by
  intro l
  induction l with
  | nil => intro _ acc; simp [parseI32Digits]
  | cons c r ih =>
    intro h acc
    have hc := isDigit_le c (h c (List.mem_cons_self ..))
    simp only [parseI32Digits, hc, and_self, if_true]
    rw [ih (fun d hd => h d (List.mem_cons_of_mem _ hd)), Nat.ofDigitChars_cons]
    have : acc * 10 + (c.toNat - 48) = 10 * acc + (c.toNat - '0'.toNat) := by
      have : '0'.toNat = 48 := by decide
      omega
    rw [this]

theorem toDigits_digits (n : Nat) : ∀ c ∈ Nat.toDigits 10 n, c.isDigit = true :=
  fun _ hc => Nat.isDigit_of_mem_toDigits (by decide) (by decide) hc

theorem parseDigits_toDigits (n : Nat) : parseI32Digits (Nat.toDigits 10 n) 0 = some n := by
  rw [parseDigits_eq _ (toDigits_digits n), Nat.ofDigitChars_ten_toDigits]

/-- Decimal text of a natural number below `2^31` parses back to it. -/
theorem parseI32_nat (n : Nat) (h : n < 2147483648) :
    parseI32 (toString n) = some (BitVec.ofNat 32 n) := by
  unfold parseI32
  rw [Nat.toString_eq_repr, Nat.toList_repr]
  have hp := parseDigits_toDigits n
  have hd := toDigits_digits n
  cases hl : Nat.toDigits 10 n with
  | nil => exact absurd hl Nat.toDigits_ne_nil
  | cons c r =>
    rw [hl] at hp hd
    have hc : c.isDigit = true := hd c (List.mem_cons_self ..)
    split
    · rename_i heq; cases heq
    · rename_i r' heq
      cases heq; exact absurd hc (by decide)
    · rename_i r' heq
      cases heq; exact absurd hc (by decide)
    · rw [hp]; simp [h]

/-- Decimal text of a negative integer down to `-2^31` parses back to it. -/
theorem parseI32_neg (n : Nat) (h0 : 0 < n) (h : n ≤ 2147483648) :
    parseI32 (toString (-(n : Int))) = some (BitVec.ofInt 32 (-(n : Int))) := by
  have hs : toString (-(n : Int)) = "-" ++ n.repr := by
    have : ¬ (0 : Int) ≤ -(n : Int) := by omega
    rw [Int.toString_eq_repr, Int.repr_eq_if, if_neg this, Int.neg_neg, Int.toNat_natCast]
  unfold parseI32
  rw [hs, String.toList_append, Nat.toList_repr]
  have h1 : "-".toList = ['-'] := by decide
  rw [h1]
  simp only [List.cons_append, List.nil_append]
  have hne : (Nat.toDigits 10 n).isEmpty = false := by
    cases hl : Nat.toDigits 10 n with
    | nil => exact absurd hl Nat.toDigits_ne_nil
    | cons => rfl
  simp only [hne, parseDigits_toDigits]
  simp [h]

/-- **Round trip.** The decimal text of any 32-bit signed value parses back to that value. -/
theorem parseI32_toString (n : Int) (h : Bridge.InR n) :
    parseI32 (toString n) = some (BitVec.ofInt 32 n) := by
  unfold Bridge.InR at h
  by_cases hn : 0 ≤ n
  · have e : n = (n.toNat : Int) := (Int.toNat_of_nonneg hn).symm
    have hs : toString n = toString n.toNat := by
      rw [Int.toString_eq_repr, Int.repr_eq_if]; simp [hn]
    rw [hs, parseI32_nat n.toNat (by omega)]
    congr 1
    rw [e, Int.toNat_natCast, BitVec.ofInt_natCast]
  · have e : n = -((-n).toNat : Int) := by omega
    rw [e]
    exact parseI32_neg (-n).toNat (by omega) (by omega)

/-- **`@sizeof` value.** On an entry whose `@SIZEOF` metadata is the decimal text of `n`,
`@sizeof` evaluates to `n`. -/
theorem sizeof_value (env : Env) (x : String) (sym : Sym) (n : Int) (h : Bridge.InR n)
    (hg : env.get x = some ⟨sym, [("@SIZEOF", toString n)]⟩) :
    sizeOfStep env x = .ok (BitVec.ofInt 32 n) := by
  unfold sizeOfStep
  rw [hg]
  have hp := parseI32_toString n h
  rw [Int.toString_eq_repr] at hp
  simp [List.find?, hp]

/-- The `@db` / `@dw` cases. -/
example : parseI32 "1" = some 1 := by decide
example : parseI32 "2" = some 2 := by decide
example : parseI32 (toString (-2147483648 : Int)) = some (BitVec.ofInt 32 (-2147483648)) :=
  parseI32_toString _ (by unfold Bridge.InR; omega)

theorem evaluate_sizeOf (env : Env) (x : String) : evaluate env [.sizeOf x] = sizeOfStep env x := by
  rw [C08.evaluate_eq]
  simp only [evalList, Node.access]
  cases sizeOfStep env x <;> rfl

/-- `@sizeof S.f` after the struct is declared is the value of the size expression written for
`f` (as a 32-bit integer). -/
theorem sizeof_field {sname : String} {c c' : CoreSt} {size size' : I32} {f : String} {e : List Node}
    (h : member sname c size (.field f e) = .ok (c', size')) :
    ∃ fs, valOf c e = some fs ∧ evaluate c'.symtab [.sizeOf (key sname f)] = .ok fs := by
  obtain ⟨fs, hv, _, hc, _⟩ := member_field_ok h
  refine ⟨fs, hv, ?_⟩
  rw [evaluate_sizeOf, sizeof_value c'.symtab (key sname f) (.val size) fs.toInt (Bridge.inR_toInt fs)
    (by rw [hc, insertWithMeta_get_same])]
  simp

/-- **`@sizeof` before or after.** `@sizeof x` is never folded when the expression is read
(`resolve` keeps the node), and its value depends on the table only through the entry of `x`: so
whether it is evaluated at once (struct already declared) or by the link step (struct declared
later), it yields the declared size found in the entry of `x` in the table it is evaluated in. -/
theorem sizeof_before_or_after (c : CoreSt) (x : String) (env1 env2 : Env)
    (h : env1.get x = env2.get x) :
    (resolve c [.sizeOf x]).2 = [.sizeOf x] ∧
    evaluate env1 [.sizeOf x] = evaluate env2 [.sizeOf x] := by
  refine ⟨by rw [resolve_sizeOf]; rfl, ?_⟩
  rw [evaluate_sizeOf, evaluate_sizeOf]
  unfold sizeOfStep; rw [h]

/-! ## Field size expressions may use earlier fields -/

theorem key_ne_here (sname f : String) : key sname f ≠ "@here" := by
  intro h
  have h1 : '.' ∈ (key sname f).toList := by simp [key, String.toList_append]
  rw [h] at h1
  revert h1; decide

theorem valOf_label {c : CoreSt} {k : String} {v : I32} {m : List (String × String)}
    (hk : k ≠ "@here") (h : c.symtab.get k = some ⟨.val v, m⟩) : valOf c [.label k] = some v := by
  unfold valOf
  rw [resolve_label c k [] hk, C08.labelNode_val c k v m h]
  simp [resolve, ev, evalOpt, CoreSt.eval, C08.evaluate_val]

theorem valOf_sizeOf {c : CoreSt} {k : String} {sym : Sym} {fs : I32}
    (h : c.symtab.get k = some ⟨sym, [("@SIZEOF", toString fs.toInt)]⟩) :
    valOf c [.sizeOf k] = some fs := by
  unfold valOf
  rw [resolve_sizeOf]
  have hs : (resolve (c.touch k {}) []).1.symtab = c.symtab := by
    rw [resolve_symtab, touch_fields]
  have : evaluate (resolve (c.touch k {}) []).1.symtab [.sizeOf k] = .ok fs := by
    rw [hs, evaluate_sizeOf, sizeof_value c.symtab k sym fs.toInt (Bridge.inR_toInt fs) h]; simp
  simp [resolve, ev, evalOpt, CoreSt.eval] at this ⊢
  rw [this]

/-- **Earlier fields are visible.** The operand of a member is read and evaluated in the state
that the members before it produced (`members_cons_ok`); in that state an earlier field `f`
already has its offset as value and its declared size as `@sizeof`, and keeps them for all the
remaining members. -/
theorem field_refs_earlier {sname : String} {c c1 c2 : CoreSt} {size s1 s2 : I32} {f : String}
    {e : List Node} {mid : List Member}
    (h : member sname c size (.field f e) = .ok (c1, s1))
    (hmid : members sname c1 s1 mid = .ok (c2, s2)) :
    ∃ fs, valOf c e = some fs ∧
      valOf c2 [.label (key sname f)] = some size ∧
      valOf c2 [.sizeOf (key sname f)] = some fs := by
  obtain ⟨fs, hv, _, hc, _⟩ := member_field_ok h
  have hk : c2.symtab.get (key sname f) = some ⟨.val size, [("@SIZEOF", toString fs.toInt)]⟩ :=
    members_mono mid hmid _ _ (by rw [hc, insertWithMeta_get_same])
  exact ⟨fs, hv, valOf_label (key_ne_here sname f) hk, valOf_sizeOf hk⟩

/-! ## non-vacuity -/

/-- The Spec on the example of the task: `a` (1 byte), align 4, `b` (2 bytes). -/
example : layout [.field "a" 1, .align 4, .field "b" 2] 0 = ([("a", 0), ("b", 4)], 6) := by decide

/-- The model on the same struct: `S.a = 0`, `S.b = 4`, `S = 6`, `@sizeof S.b = 2`, `@SIZEOF` text of
`S.a` is "1", and the scope is restored. -/
example :
    ((exec {} (.struct "S" [.field "a" [.val 1], .align [.val 4], .field "b" [.val 2]])).toOption.map
      fun s => ((s.core.symtab.get "S.a").map (·.metas), labelNode s.core "S.a",
        labelNode s.core "S.b", labelNode s.core "S", evaluate s.core.symtab [.sizeOf "S.b"],
        s.core.ns)) =
    some (some [("@SIZEOF", "1")], .val 0, .val 4, .val 6, .ok 2, none) := by rfl

/-- A field size that uses an earlier field (`b` is as large as `a`), and `@sizeof` of a struct
field used before the struct is declared: the emitted byte is the declared size. -/
example : (assembleAbs [.dbVal [.sizeOf "S.b"],
    .struct "S" [.field "a" [.val 3], .field "b" [.sizeOf "S.a"]],
    .dbVal [.label "S"], .dbVal [.sizeOf "S.b"]]).toOption = some [3, 6, 3] := by decide

/-- A duplicate field and a struct whose name exists are rejected. -/
example : (assembleAbs [.struct "S" [.field "a" [.val 1], .field "a" [.val 1]]]).toOption = none := by
  decide
example : (assembleAbs [.label "S", .struct "S" []]).toOption = none := by decide

end Az65.Thm.C16

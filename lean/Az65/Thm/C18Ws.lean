import Az65.Model.Tables
import Az65.Lemmas.WsLemmas
import Az65.Thm.C13
import Az65.Thm.C14
/-
C18 (white-space part) — "the output is unchanged by … extra spaces or tabs between tokens".

1. `loc_irrelevant*` — locations never steer the lexer: `lexChar`, `lexStep`, `Lexer.next`, `lexAll`
   map states that are equal except for `loc` / `tokLoc` to results that are equal except for
   locations (same `Tok`s, same error kind).
2. `blank_initial` — in state `initial` with nothing stashed, a blank is consumed as a no-op.
3. `ws_insensitive` / `ws_run` — inserting blanks at a point where the machine is in state
   `initial` with nothing stashed does not change the `Tok` list nor the error kind of `lexAll`,
   for EVERY fuel (same fuel on both sides); `ws_insensitive_fuel` / `ws_run_fuel` — each side with
   its own fuel ≥ length + 2 (`lexAll_fuel_stable`: such fuel never cuts a run short).

Scope of (3), as asked: the insertion point must be a point where the machine is in `initial` with
nothing stashed (`CleanAfter`) — the start of the text, after a line feed, next to an existing
blank, after the closing quote of a string / character literal, after a two- or three-character
symbol.  A blank typed directly after an identifier, a number, a directive or a one-character
symbol is NOT covered (there the blank is what terminates the token: the state is not `initial`).
-/
namespace Az65.Thm.C18Ws
open Az65

/-! ### 1. locations never steer the lexer -/

/-- Two lexer states that are equal except for `loc` and `tokLoc`. -/
def LocEq (a b : Lexer) : Prop := Sim a b ∧ a.input = b.input

theorem LocEq.refl (a : Lexer) : LocEq a a := ⟨Sim.rfl' a, rfl⟩

theorem LocEq.symm {a b : Lexer} (h : LocEq a b) : LocEq b a := ⟨h.1.symm, h.2.symm⟩

theorem LocEq.trans {a b c : Lexer} (h : LocEq a b) (h' : LocEq b c) : LocEq a c :=
  ⟨h.1.trans h'.1, h.2.trans h'.2⟩

/-- `LocEq` says exactly: same fields, except the two locations. -/
theorem LocEq_iff (a b : Lexer) :
    LocEq a b ↔ b = { a with loc := b.loc, tokLoc := b.tokLoc } := by
  constructor
  · rintro ⟨⟨h1, h2, h3, h4, h5⟩, h6⟩
    obtain ⟨i1, en1, l1, tl1, st1, s1, bf1, eo1⟩ := a
    obtain ⟨i2, en2, l2, tl2, st2, s2, bf2, eo2⟩ := b
    dsimp only at h1 h2 h3 h4 h5 h6
    subst h1 h2 h3 h4 h5 h6
    rfl
  · intro h
    rw [h]
    exact ⟨⟨rfl, rfl, rfl, rfl, rfl⟩, rfl⟩

theorem LocEq.toExt {a b : Lexer} (h : LocEq a b) : Ext [] a b :=
  ⟨h.1, by rw [List.append_nil]; exact h.2.symm⟩

theorem LocEq.ofExt {a b : Lexer} (h : Ext [] a b) : LocEq a b :=
  ⟨h.1, by have := h.2; rw [List.append_nil] at this; exact this.symm⟩

/-- What is left of a run of `lexAll` when locations are forgotten: the `Tok`s and the error kind. -/
def eraseLoc (r : List LTok × Option LexErr) : List Tok × Option LexErrKind :=
  (r.1.map (·.tok), r.2.map (·.kind))

/-- **Locations never steer one iteration** (`lexChar`). -/
theorem loc_irrelevant_lexChar (T : LexTables) {a b : Lexer} (c : Char) (h : LocEq a b) :
    OutRel LocEq (lexChar T a c) (lexChar T b c) :=
  (lexChar_ext T c h.toExt).mono LocEq.ofExt

/-- **Locations never steer the character fetch** (`lexStep`). -/
theorem loc_irrelevant_lexStep (T : LexTables) {a b : Lexer} (h : LocEq a b) :
    OutRel LocEq (lexStep T a) (lexStep T b) :=
  (lexStep_ext T h.toExt (Or.inr (Or.inr rfl))).mono LocEq.ofExt

/-- **Locations never steer `Lexer::next`** (any fuel). -/
theorem loc_irrelevant_next (T : LexTables) (f : Nat) :
    ∀ a b, LocEq a b → OutRel LocEq (Lexer.next T f a) (Lexer.next T f b) := by
  induction f with
  | zero => intro a b h; exact h
  | succ f ih =>
    intro a b h
    have hs := loc_irrelevant_lexStep T h
    have hs0 := hs
    cases ha : lexStep T a with
    | more a' =>
      rw [ha] at hs
      obtain ⟨b', hb, hr⟩ := hs.more_inv
      rw [Lexer.next_more f ha, Lexer.next_more f hb]
      exact ih a' b' hr
    | tok t a' =>
      rw [ha] at hs
      obtain ⟨t', b', hb, _, _⟩ := hs.tok_inv
      rw [Lexer.next_stop f (by rw [ha]; intro _ hh; cases hh),
        Lexer.next_stop f (by rw [hb]; intro _ hh; cases hh)]
      exact hs0
    | err e a' =>
      rw [ha] at hs
      obtain ⟨e', b', hb, _, _⟩ := hs.err_inv
      rw [Lexer.next_stop f (by rw [ha]; intro _ hh; cases hh),
        Lexer.next_stop f (by rw [hb]; intro _ hh; cases hh)]
      exact hs0
    | done a' =>
      rw [ha] at hs
      obtain ⟨b', hb, _⟩ := hs.done_inv
      rw [Lexer.next_stop f (by rw [ha]; intro _ hh; cases hh),
        Lexer.next_stop f (by rw [hb]; intro _ hh; cases hh)]
      exact hs0

/-! equation lemmas for `lexAll` (never unfold it again) -/

theorem lexAll_zero (T : LexTables) (lx : Lexer) : lexAll T 0 lx = ([], none) := rfl

theorem lexAll_next_tok {T : LexTables} {lx lx' : Lexer} {t : LTok} (f : Nat)
    (h : Lexer.next T lx.fuel lx = .tok t lx') :
    lexAll T (f + 1) lx = (t :: (lexAll T f lx').1, (lexAll T f lx').2) := by
  simp only [lexAll, h]

theorem lexAll_next_err {T : LexTables} {lx lx' : Lexer} {e : LexErr} (f : Nat)
    (h : Lexer.next T lx.fuel lx = .err e lx') : lexAll T (f + 1) lx = ([], some e) := by
  simp only [lexAll, h]

theorem lexAll_next_done {T : LexTables} {lx lx' : Lexer} (f : Nat)
    (h : Lexer.next T lx.fuel lx = .done lx') : lexAll T (f + 1) lx = ([], none) := by
  simp only [lexAll, h]

theorem lexAll_next_more {T : LexTables} {lx lx' : Lexer} (f : Nat)
    (h : Lexer.next T lx.fuel lx = .more lx') : lexAll T (f + 1) lx = ([], none) := by
  simp only [lexAll, h]

theorem eraseLoc_cons (t : LTok) (r : List LTok × Option LexErr) :
    eraseLoc (t :: r.1, r.2) = (t.tok :: (eraseLoc r).1, (eraseLoc r).2) := rfl

/-- **`loc_irrelevant` (C18).**  Locations never steer the lexer: from two states that are equal
except for `loc` and `tokLoc`, a whole run returns the same `Tok`s and the same error kind (or
both no error), for every table and every fuel. -/
theorem loc_irrelevant (T : LexTables) (f : Nat) :
    ∀ a b, LocEq a b → eraseLoc (lexAll T f a) = eraseLoc (lexAll T f b) := by
  induction f with
  | zero => intro a b _; rfl
  | succ f ih =>
    intro a b h
    have hf : b.fuel = a.fuel := by unfold Lexer.fuel; rw [h.2]
    have hn := loc_irrelevant_next T a.fuel a b h
    rw [← hf] at hn
    cases ha : Lexer.next T a.fuel a with
    | tok t a' =>
      rw [hf, ha] at hn
      obtain ⟨t', b', hb, ht, hr⟩ := hn.tok_inv
      rw [← hf] at hb
      rw [lexAll_next_tok f ha, lexAll_next_tok f hb, eraseLoc_cons, eraseLoc_cons, ih a' b' hr, ht]
    | err e a' =>
      rw [hf, ha] at hn
      obtain ⟨e', b', hb, he, _⟩ := hn.err_inv
      rw [← hf] at hb
      rw [lexAll_next_err f ha, lexAll_next_err f hb]
      show (([] : List LTok).map (·.tok), some e.kind) = (([] : List LTok).map (·.tok), some e'.kind)
      rw [he]
    | done a' =>
      rw [hf, ha] at hn
      obtain ⟨b', hb, _⟩ := hn.done_inv
      rw [← hf] at hb
      rw [lexAll_next_done f ha, lexAll_next_done f hb]
    | more a' =>
      rw [hf, ha] at hn
      obtain ⟨b', hb, _⟩ := hn.more_inv
      rw [← hf] at hb
      rw [lexAll_next_more f ha, lexAll_next_more f hb]

/-- Instance: neither the file number nor the starting line / column matter. -/
theorem loc_irrelevant_new (T : LexTables) (f : Nat) (file file' : Nat) (cs : List Char)
    (ending : StreamEnd) (l tl : Loc) :
    eraseLoc (lexAll T f (Lexer.new file cs ending)) =
      eraseLoc (lexAll T f { Lexer.new file' cs ending with loc := l, tokLoc := tl }) :=
  loc_irrelevant T f _ _ ⟨⟨rfl, rfl, rfl, rfl, rfl⟩, rfl⟩

/-! ### 2. a blank in the initial state is a no-op -/

/-- The characters the Model skips in state `initial`: every Unicode white-space character (Rust
`char::is_whitespace`) except the line feed — in particular the space and the tab, but also `\r`,
vertical tab, form feed, NBSP, … -/
def isBlank (c : Char) : Bool := isWs c && c != '\n'

theorem isBlank_space : isBlank ' ' = true := by decide
theorem isBlank_tab : isBlank '\t' = true := by decide
theorem isBlank_newline : isBlank '\n' = false := by decide
theorem isBlank_letter : isBlank 'a' = false := by decide

theorem isBlank_iff (c : Char) : isBlank c = true ↔ isWs c = true ∧ c ≠ '\n' := by
  simp [isBlank]

/-- **`blank_initial` (one iteration).**  In state `initial` a blank gives `continue` and leaves
the whole state — `buf` included, whatever it holds — unchanged. -/
theorem blank_initial_lexChar (T : LexTables) (lx : Lexer) (c : Char)
    (hst : lx.state = .initial) (hb : isBlank c = true) : lexChar T lx c = .more lx := by
  obtain ⟨hw, hn⟩ := (isBlank_iff c).mp hb
  obtain ⟨input, ending, loc, tokLoc, stash, state, buf, eof⟩ := lx
  dsimp only at hst; subst hst
  have h1 : ¬ (c == '\n') = true := by simpa using hn
  unfold lexChar; dsimp only
  rw [if_neg h1, if_pos hw]

/-- **`blank_initial` (C18).**  In state `initial` with nothing stashed, fetching a blank `c` from
the input returns `continue` (no token, no error) and changes nothing but the consumed input and
`loc` (one column further): `state`, `stash`, `buf`, `tokLoc`, `eof`, `ending` are as before.
(The Model does not guarantee an empty `buf` in `initial` — a two-character symbol leaves its
spelling there — but `initial` never reads it and the blank leaves it alone.) -/
theorem blank_initial (T : LexTables) (lx : Lexer) (c : Char) (rest : List Char)
    (hst : lx.state = .initial) (hs : lx.stash = none) (hi : lx.input = c :: rest)
    (hb : isBlank c = true) :
    lexStep T lx = .more { lx with input := rest, loc := { lx.loc with col := lx.loc.col + 1 } } := by
  have hn : (c == '\n') = false := by
    have := ((isBlank_iff c).mp hb).2; simpa using this
  rw [lexStep_cons hs hi,
    blank_initial_lexChar T { lx with input := rest, loc := stepLoc lx.loc c } c hst hb]
  simp only [stepLoc, hn]
  rfl

/-! ### 3. extra blanks between tokens -/

open Az65.Thm.C13 in
/-- A `continue` step does not change what `Lexer::next` returns. -/
theorem next_fuel_step_more {T : LexTables} {lx lx' : Lexer} (h : lexStep T lx = .more lx') :
    Lexer.next T lx.fuel lx = Lexer.next T lx'.fuel lx' := by
  have hk : lx.fuel = (2 * lx.input.length + 7) + 1 := rfl
  have hd := lexStep_more_decreases h
  have hm := mu_lt_fuel lx
  rw [hk, Lexer.next_more _ h]
  exact Loop_deterministic (next_is_loop T _ lx' (by omega)) (next_is_loop T _ lx' (mu_lt_fuel lx'))

theorem next_fuel_step_stop {T : LexTables} {lx : Lexer} (h : ∀ lx', lexStep T lx ≠ .more lx') :
    Lexer.next T lx.fuel lx = lexStep T lx := by
  have hk : lx.fuel = (2 * lx.input.length + 7) + 1 := rfl
  rw [hk, Lexer.next_stop _ h]

/-- `lexAll` in terms of single steps: a `continue` step is invisible. -/
theorem lexAll_step_more {T : LexTables} {lx lx' : Lexer} (f : Nat) (h : lexStep T lx = .more lx') :
    lexAll T (f + 1) lx = lexAll T (f + 1) lx' := by
  simp only [lexAll, next_fuel_step_more h]

/-- `lexAll` in terms of single steps: a token step emits the token and spends one unit of fuel. -/
theorem lexAll_step_tok {T : LexTables} {lx lx' : Lexer} {t : LTok} (f : Nat)
    (h : lexStep T lx = .tok t lx') :
    lexAll T (f + 1) lx = (t :: (lexAll T f lx').1, (lexAll T f lx').2) :=
  lexAll_next_tok f (by rw [next_fuel_step_stop (by rw [h]; intro _ hh; cases hh), h])

/-- `n` fetch-and-iterate steps, none of which ends the run (`none` on an error or on the end of
the stream); tokens produced on the way are dropped — only the state reached matters here. -/
def stepsN (T : LexTables) : Nat → Lexer → Option Lexer
  | 0, lx => some lx
  | n + 1, lx =>
    match lexStep T lx with
    | .more lx' => stepsN T n lx'
    | .tok _ lx' => stepsN T n lx'
    | _ => none

theorem stepsN_more {T : LexTables} {lx lx' : Lexer} (n : Nat) (h : lexStep T lx = .more lx') :
    stepsN T (n + 1) lx = stepsN T n lx' := by simp only [stepsN, h]

theorem stepsN_tok {T : LexTables} {lx lx' : Lexer} {t : LTok} (n : Nat)
    (h : lexStep T lx = .tok t lx') : stepsN T (n + 1) lx = stepsN T n lx' := by
  simp only [stepsN, h]

theorem stepsN_err {T : LexTables} {lx lx' : Lexer} {e : LexErr} (n : Nat)
    (h : lexStep T lx = .err e lx') : stepsN T (n + 1) lx = none := by simp only [stepsN, h]

theorem stepsN_done {T : LexTables} {lx lx' : Lexer} (n : Nat)
    (h : lexStep T lx = .done lx') : stepsN T (n + 1) lx = none := by simp only [stepsN, h]

theorem stepsN_eof_mono (T : LexTables) (n : Nat) :
    ∀ lx lx', stepsN T n lx = some lx' → lx.eof = true → lx'.eof = true := by
  induction n with
  | zero => intro lx lx' h he; cases h; exact he
  | succ n ih =>
    intro lx lx' h he
    have hm := lexStep_eof_mono T he
    cases hs : lexStep T lx with
    | more l => rw [stepsN_more n hs] at h; rw [hs] at hm; exact ih l lx' h hm
    | tok t l => rw [stepsN_tok n hs] at h; rw [hs] at hm; exact ih l lx' h hm
    | err e l => rw [stepsN_err n hs] at h; cases h
    | done l => rw [stepsN_done n hs] at h; cases h

/-- **The hypothesis of `ws_insensitive`.**  Running the lexer from `Lexer.new file pre ending`,
after some number of steps the machine has consumed exactly `pre` (nothing unread, the
end-of-input flush not performed) without an error, and is in state `initial` with nothing stashed:
the point between `pre` and what follows is a point *between tokens*. -/
def CleanAfter (T : LexTables) (file : Nat) (ending : StreamEnd) (pre : List Char) : Prop :=
  ∃ n lx, stepsN T n (Lexer.new file pre ending) = some lx ∧
    lx.input = [] ∧ lx.eof = false ∧ lx.stash = none ∧ lx.state = .initial

/-- The state `CleanAfter` talks about is a state the lexer reaches (in the sense of C14). -/
theorem stepsN_reach (T : LexTables) (lx0 : Lexer) (n : Nat) :
    ∀ a lx, C14.Reach T lx0 a → stepsN T n a = some lx → C14.Reach T lx0 lx := by
  induction n with
  | zero => intro a lx hr h; cases h; exact hr
  | succ n ih =>
    intro a lx hr h
    have hstep := C14.Reach.step (T := T) hr
    cases hs : lexStep T a with
    | more l => rw [stepsN_more n hs] at h; rw [hs] at hstep; exact ih l lx hstep h
    | tok t l => rw [stepsN_tok n hs] at h; rw [hs] at hstep; exact ih l lx hstep h
    | err e l => rw [stepsN_err n hs] at h; cases h
    | done l => rw [stepsN_done n hs] at h; cases h

theorem CleanAfter_reach {T : LexTables} {file : Nat} {ending : StreamEnd} {pre : List Char}
    (h : CleanAfter T file ending pre) :
    ∃ lx, C14.Reach T (Lexer.new file pre ending) lx ∧
      lx.input = [] ∧ lx.eof = false ∧ lx.stash = none ∧ lx.state = .initial := by
  obtain ⟨n, lx, hn, h'⟩ := h
  exact ⟨lx, stepsN_reach T _ n _ lx C14.Reach.refl hn, h'⟩

/-- Executable form of `CleanAfter` with the number of steps given. -/
def cleanAt (T : LexTables) (n : Nat) (lx0 : Lexer) : Bool :=
  match stepsN T n lx0 with
  | some lx => lx.input.isEmpty && !lx.eof && lx.stash.isNone && lx.state == .initial
  | none => false

theorem CleanAfter_of_cleanAt {T : LexTables} {file : Nat} {ending : StreamEnd} {pre : List Char}
    (n : Nat) (h : cleanAt T n (Lexer.new file pre ending) = true) : CleanAfter T file ending pre := by
  unfold cleanAt at h
  split at h
  · rename_i lx hlx
    simp only [Bool.and_eq_true, List.isEmpty_iff, Bool.not_eq_true', Option.isNone_iff_eq_none,
      beq_iff_eq] at h
    exact ⟨n, lx, hlx, h.1.1.1, h.1.1.2, h.1.2, h.2⟩
  · cases h

/-- Core of `ws_insensitive`: three runs in lock step — `p` on the prefix alone (the schedule),
`a` on prefix ++ blank ++ `post`, `b` on prefix ++ `post`. -/
theorem ws_core (T : LexTables) {c : Char} (hc : isBlank c = true) (post : List Char) (n : Nat) :
    ∀ p p', stepsN T n p = some p' →
      p'.input = [] → p'.eof = false → p'.stash = none → p'.state = .initial →
      ∀ a b, Ext (c :: post) p a → Ext post p b →
      ∀ f, eraseLoc (lexAll T f a) = eraseLoc (lexAll T f b) := by
  induction n with
  | zero =>
    intro p p' h hi he hs hst a b ha hb f
    cases h
    have hai : a.input = c :: post := by rw [ha.2, hi]; rfl
    have hbi : b.input = post := by rw [hb.2, hi]; rfl
    have hstep := blank_initial T a c post (ha.1.state ▸ hst) (ha.1.stash ▸ hs) hai hc
    cases f with
    | zero => rfl
    | succ f =>
      rw [lexAll_step_more f hstep]
      have hab : Sim a b := ha.1.symm.trans hb.1
      exact loc_irrelevant T (f + 1) _ b
        ⟨⟨hab.ending, hab.stash, hab.state, hab.buf, hab.eof⟩, hbi.symm⟩
  | succ n ih =>
    intro p p' h hi he hs hst a b ha hb f
    -- the step of `p` is not taken at the end of its input
    have hne : p.stash ≠ none ∨ p.input ≠ [] := by
      by_cases h1 : p.stash = none
      · by_cases h2 : p.input = []
        · exfalso
          rcases lexStep_at_end T h1 h2 with ⟨e, l, hx⟩ | ⟨l, hx⟩ | hx
          · rw [stepsN_err n hx] at h; cases h
          · rw [stepsN_done n hx] at h; cases h
          · cases hp : lexStep T p with
            | more l =>
              rw [stepsN_more n hp] at h; rw [hp] at hx
              have := stepsN_eof_mono T n l p' h hx
              rw [he] at this; cases this
            | tok t l =>
              rw [stepsN_tok n hp] at h; rw [hp] at hx
              have := stepsN_eof_mono T n l p' h hx
              rw [he] at this; cases this
            | err e l => rw [stepsN_err n hp] at h; cases h
            | done l => rw [stepsN_done n hp] at h; cases h
        · exact Or.inr h2
      · exact Or.inl h1
    have hne' : ∀ q : List Char, p.stash ≠ none ∨ p.input ≠ [] ∨ q = [] := fun q => by
      rcases hne with h | h
      · exact Or.inl h
      · exact Or.inr (Or.inl h)
    have hsa := lexStep_ext T ha (hne' _)
    have hsb := lexStep_ext T hb (hne' _)
    cases hp : lexStep T p with
    | more p1 =>
      rw [stepsN_more n hp] at h
      rw [hp] at hsa hsb
      obtain ⟨a1, ha1, ra⟩ := hsa.more_inv
      obtain ⟨b1, hb1, rb⟩ := hsb.more_inv
      cases f with
      | zero => rfl
      | succ f =>
        rw [lexAll_step_more f ha1, lexAll_step_more f hb1]
        exact ih p1 p' h hi he hs hst a1 b1 ra rb (f + 1)
    | tok t p1 =>
      rw [stepsN_tok n hp] at h
      rw [hp] at hsa hsb
      obtain ⟨ta, a1, ha1, hta, ra⟩ := hsa.tok_inv
      obtain ⟨tb, b1, hb1, htb, rb⟩ := hsb.tok_inv
      cases f with
      | zero => rfl
      | succ f =>
        rw [lexAll_step_tok f ha1, lexAll_step_tok f hb1, eraseLoc_cons, eraseLoc_cons,
          ih p1 p' h hi he hs hst a1 b1 ra rb f, ← hta, ← htb]
    | err e p1 => rw [stepsN_err n hp] at h; cases h
    | done p1 => rw [stepsN_done n hp] at h; cases h

/-- **`ws_insensitive` (C18: extra spaces or tabs between tokens).**  For every name table, file
number, stream end, text `pre ++ post` and blank character `b` (space, tab, any white space but
the line feed): if the point after `pre` is a point between tokens (`CleanAfter`: having consumed
exactly `pre`, the machine is in state `initial` with nothing stashed), then the runs on
`pre ++ b :: post` and on `pre ++ post` return the same `Tok`s and the same error kind (or both no
error).  No fuel hypothesis is needed: the blank costs no `next` call, so the two runs agree for
EVERY value of the fuel (the number of `next` calls allowed), sufficient or not. -/
theorem ws_insensitive (T : LexTables) (file : Nat) (ending : StreamEnd) (pre post : List Char)
    (b : Char) (hb : isBlank b = true) (h : CleanAfter T file ending pre) (fuel : Nat) :
    eraseLoc (lexAll T fuel (Lexer.new file (pre ++ b :: post) ending)) =
      eraseLoc (lexAll T fuel (Lexer.new file (pre ++ post) ending)) := by
  obtain ⟨n, lx, hn, hi, he, hs, hst⟩ := h
  exact ws_core T hb post n (Lexer.new file pre ending) lx hn hi he hs hst
    (Lexer.new file (pre ++ b :: post) ending) (Lexer.new file (pre ++ post) ending)
    ⟨⟨rfl, rfl, rfl, rfl, rfl⟩, rfl⟩ ⟨⟨rfl, rfl, rfl, rfl, rfl⟩, rfl⟩ fuel

/-- **`ws_run`.**  The same for inserting any run of blanks. -/
theorem ws_run (T : LexTables) (file : Nat) (ending : StreamEnd) (pre post : List Char)
    (bs : List Char) (hbs : ∀ b ∈ bs, isBlank b = true) (h : CleanAfter T file ending pre)
    (fuel : Nat) :
    eraseLoc (lexAll T fuel (Lexer.new file (pre ++ bs ++ post) ending)) =
      eraseLoc (lexAll T fuel (Lexer.new file (pre ++ post) ending)) := by
  induction bs with
  | nil => rw [List.append_nil]
  | cons b bs ih =>
    have h1 := ws_insensitive T file ending pre (bs ++ post) b (hbs b List.mem_cons_self) h fuel
    have h2 := ih (fun x hx => hbs x (List.mem_cons_of_mem _ hx))
    rw [List.append_assoc] at h2 ⊢
    exact h1.trans h2

/-! ### 4. the fuel of `lexAll` (number of `next` calls): `length + 2` always suffices

`ws_insensitive` compares the two runs with the same fuel.  A caller computes the fuel from the
length of the text (the driver passes `length + 4`), and the two texts differ in length — so: the
result of `lexAll` does not depend on the fuel once it exceeds `length + 1`. -/

/-- A character is kept in the stash only while the machine is in `initial`. -/
def StashInit (lx : Lexer) : Prop := lx.stash = none ∨ lx.state = .initial

theorem lexChar_stashInit (T : LexTables) (lx : Lexer) (c : Char) (h0 : lx.stash = none) :
    StashInit (lexChar T lx c).lx := by
  by_cases hs : lx.state = .initial
  · rcases lexChar_initial T lx c hs with ⟨_, h⟩ | h | ⟨s, b, _, _, _, h⟩ | h <;> rw [h] <;>
      exact Or.inl h0
  · obtain ⟨input, ending, loc, tokLoc, stash, state, buf, eof⟩ := lx
    dsimp only at h0; subst h0
    cases state
    · exact absurd rfl hs
    all_goals (unfold lexChar; dsimp only; (repeat' split) <;> first | exact Or.inl rfl | exact Or.inr rfl)

/-- A token produced from `initial` (a `newline`) leaves the state as it is. -/
theorem lexChar_tok_initial (T : LexTables) (lx : Lexer) (c : Char) (hs : lx.state = .initial)
    {t : LTok} {lx' : Lexer} (h : lexChar T lx c = .tok t lx') : lx' = lx := by
  rcases lexChar_initial T lx c hs with ⟨_, h'⟩ | h' | ⟨s, b, _, _, _, h'⟩ | h' <;>
    rw [h'] at h <;> cases h
  rfl

/-- 1 while a token is pending (being built, or its terminating character stashed), else 0. -/
def pend (lx : Lexer) : Nat := if lx.stash = none ∧ lx.state = .initial then 0 else 1

/-- Upper bound on the number of tokens still to come (before the last call of `next`). -/
def nu (lx : Lexer) : Nat := lx.input.length + (if lx.eof then 0 else 1) + pend lx

theorem pend_le (lx : Lexer) : pend lx ≤ 1 := by unfold pend; split <;> omega

theorem nu_new (file : Nat) (cs : List Char) (ending : StreamEnd) :
    nu (Lexer.new file cs ending) = cs.length + 1 := rfl

/-- One iteration on a character just fetched (`l` = the state after the fetch, `m` = what the
fetch took off the measure). -/
theorem lexChar_nu (T : LexTables) (l : Lexer) (c : Char) (h0 : l.stash = none) :
    StashInit (lexChar T l c).lx ∧
    (lexChar T l c).lx.input = l.input ∧ (lexChar T l c).lx.eof = l.eof ∧
    (∀ t l', lexChar T l c = .tok t l' → l.state = .initial → pend l' = 0) := by
  obtain ⟨f1, _, _, f4⟩ := lexChar_frame T l c
  refine ⟨lexChar_stashInit T l c h0, f1, f4, ?_⟩
  intro t l' h hs
  rw [lexChar_tok_initial T l c hs h]
  unfold pend; rw [if_pos ⟨h0, hs⟩]

/-- Every step keeps `StashInit`; `continue` never increases `nu`; a token decreases it. -/
theorem lexStep_nu (T : LexTables) (lx : Lexer) (hinv : StashInit lx) :
    StashInit (lexStep T lx).lx ∧
    (∀ lx', lexStep T lx = .more lx' → nu lx' ≤ nu lx) ∧
    (∀ t lx', lexStep T lx = .tok t lx' → nu lx' < nu lx) := by
  cases hs : lx.stash with
  | some c =>
    have hst : lx.state = .initial := by
      rcases hinv with h | h
      · rw [hs] at h; cases h
      · exact h
    rw [lexStep_stash hs]
    obtain ⟨h1, h2, h3, h4⟩ := lexChar_nu T { lx with stash := none } c rfl
    have hp : pend lx = 1 := by unfold pend; rw [hs]; simp
    refine ⟨h1, ?_, ?_⟩
    · intro lx' h
      rw [h] at h2 h3; simp only [LexOut.lx] at h2 h3
      have := pend_le lx'
      unfold nu; rw [h2, h3, hp]; omega
    · intro t lx' h
      have h5 := h4 t lx' h hst
      rw [h] at h2 h3; simp only [LexOut.lx] at h2 h3
      unfold nu; rw [h2, h3, hp, h5]; omega
  | none =>
    cases hi : lx.input with
    | cons c rest =>
      rw [lexStep_cons hs hi]
      obtain ⟨h1, h2, h3, h4⟩ :=
        lexChar_nu T { lx with input := rest, loc := stepLoc lx.loc c } c hs
      refine ⟨h1, ?_, ?_⟩
      · intro lx' h
        rw [h] at h2 h3; simp only [LexOut.lx] at h2 h3
        have := pend_le lx'
        unfold nu; rw [h2, h3, hi]; simp only [List.length_cons]; omega
      · intro t lx' h
        rw [h] at h2 h3; simp only [LexOut.lx] at h2 h3
        by_cases hst : lx.state = .initial
        · have h5 := h4 t lx' h hst
          unfold nu; rw [h2, h3, hi, h5]; simp only [List.length_cons]; omega
        · have hp : pend lx = 1 := by unfold pend; rw [if_neg (fun hh => hst hh.2)]
          have := pend_le lx'
          unfold nu; rw [h2, h3, hi, hp]; simp only [List.length_cons]; omega
    | nil =>
      cases he : lx.ending with
      | utf8 =>
        rw [lexStep_utf8 hs hi he]
        exact ⟨hinv, fun _ h => (by cases h), fun _ _ h => (by cases h)⟩
      | io =>
        rw [lexStep_io hs hi he]
        exact ⟨hinv, fun _ h => (by cases h), fun _ _ h => (by cases h)⟩
      | eof =>
        cases hf : lx.eof with
        | true =>
          rw [lexStep_done hs hi he hf]
          exact ⟨hinv, fun _ h => (by cases h), fun _ _ h => (by cases h)⟩
        | false =>
          rw [lexStep_flush hs hi he hf]
          obtain ⟨h1, h2, h3, h4⟩ := lexChar_nu T
            { lx with eof := true, loc := { lx.loc with line := lx.loc.line + 1, col := 0 } } '\n' hs
          refine ⟨h1, ?_, ?_⟩
          · intro lx' h
            rw [h] at h2 h3; simp only [LexOut.lx] at h2 h3
            have := pend_le lx'
            unfold nu; rw [h2, h3, hi, hf]; simp; omega
          · intro t lx' h
            rw [h] at h2 h3; simp only [LexOut.lx] at h2 h3
            by_cases hst : lx.state = .initial
            · have h5 := h4 t lx' h hst
              unfold nu; rw [h2, h3, hi, hf, h5]; simp; omega
            · have hp : pend lx = 1 := by unfold pend; rw [if_neg (fun hh => hst hh.2)]
              have := pend_le lx'
              unfold nu; rw [h2, h3, hi, hf, hp]; simp; omega

open Az65.Thm.C13 in
/-- One whole `Lexer::next`: a returned token strictly decreases `nu`. -/
theorem Loop_nu {T : LexTables} {lx : Lexer} {o : LexOut} (h : Loop T lx o) :
    StashInit lx → StashInit o.lx ∧ ∀ t lx', o = .tok t lx' → nu lx' < nu lx := by
  induction h with
  | @stop lx o e _ =>
    intro hinv
    obtain ⟨h1, _, h3⟩ := lexStep_nu T lx hinv
    rw [e] at h1 h3
    exact ⟨h1, fun t lx' ho => h3 t lx' ho⟩
  | @more lx lx1 o e _ ih =>
    intro hinv
    obtain ⟨h1, h2, _⟩ := lexStep_nu T lx hinv
    rw [e] at h1
    obtain ⟨i1, i2⟩ := ih h1
    exact ⟨i1, fun t lx' ho => Nat.lt_of_lt_of_le (i2 t lx' ho) (h2 lx1 e)⟩

open Az65.Thm.C13 in
/-- **The fuel of `lexAll` is immaterial once it exceeds `nu`** (for `Lexer.new`: the length of the
text + 1): the run is never cut short, more fuel changes nothing. -/
theorem lexAll_fuel_stable (T : LexTables) (f : Nat) :
    ∀ lx g, StashInit lx → nu lx < f → nu lx < g → lexAll T f lx = lexAll T g lx := by
  induction f with
  | zero => intro lx g _ h; omega
  | succ f ih =>
    intro lx g hinv hf hg
    cases g with
    | zero => omega
    | succ g =>
      obtain ⟨h1, h2⟩ := Loop_nu (lexer_progress T lx).1 hinv
      cases hn : Lexer.next T lx.fuel lx with
      | tok t lx' =>
        rw [hn] at h1
        have := h2 t lx' hn
        rw [lexAll_next_tok f hn, lexAll_next_tok g hn, ih lx' g h1 (by omega) (by omega)]
      | err e lx' => rw [lexAll_next_err f hn, lexAll_next_err g hn]
      | done lx' => rw [lexAll_next_done f hn, lexAll_next_done g hn]
      | more lx' => rw [lexAll_next_more f hn, lexAll_next_more g hn]

/-- Instance for a fresh lexer: any two fuels of at least `length + 2` give the same run. -/
theorem lexAll_fuel_new (T : LexTables) (file : Nat) (cs : List Char) (ending : StreamEnd)
    (f g : Nat) (hf : cs.length + 2 ≤ f) (hg : cs.length + 2 ≤ g) :
    lexAll T f (Lexer.new file cs ending) = lexAll T g (Lexer.new file cs ending) :=
  lexAll_fuel_stable T f _ g (Or.inl rfl) (by rw [nu_new]; omega) (by rw [nu_new]; omega)

/-- **`ws_insensitive` with independent, sufficient fuels.**  As `ws_insensitive`, each run with
its own fuel, both at least (length of its text) + 2 — e.g. the driver's `length + 4`. -/
theorem ws_insensitive_fuel (T : LexTables) (file : Nat) (ending : StreamEnd) (pre post : List Char)
    (b : Char) (hb : isBlank b = true) (h : CleanAfter T file ending pre) (f1 f2 : Nat)
    (h1 : (pre ++ b :: post).length + 2 ≤ f1) (h2 : (pre ++ post).length + 2 ≤ f2) :
    eraseLoc (lexAll T f1 (Lexer.new file (pre ++ b :: post) ending)) =
      eraseLoc (lexAll T f2 (Lexer.new file (pre ++ post) ending)) := by
  have hlen : (pre ++ post).length + 2 ≤ f1 := by
    simp only [List.length_append, List.length_cons] at h1 ⊢; omega
  rw [lexAll_fuel_new T file (pre ++ post) ending f2 f1 h2 hlen]
  exact ws_insensitive T file ending pre post b hb h f1

/-- **`ws_run` with independent, sufficient fuels.** -/
theorem ws_run_fuel (T : LexTables) (file : Nat) (ending : StreamEnd) (pre post : List Char)
    (bs : List Char) (hbs : ∀ b ∈ bs, isBlank b = true) (h : CleanAfter T file ending pre)
    (f1 f2 : Nat) (h1 : (pre ++ bs ++ post).length + 2 ≤ f1) (h2 : (pre ++ post).length + 2 ≤ f2) :
    eraseLoc (lexAll T f1 (Lexer.new file (pre ++ bs ++ post) ending)) =
      eraseLoc (lexAll T f2 (Lexer.new file (pre ++ post) ending)) := by
  have hlen : (pre ++ post).length + 2 ≤ f1 := by
    simp only [List.length_append] at h1 ⊢; omega
  rw [lexAll_fuel_new T file (pre ++ post) ending f2 f1 h2 hlen]
  exact ws_run T file ending pre post bs hbs h f1

/-! ### non-vacuity (kernel-checked) -/

/-- `lda #1` and `lda  \t #1` (6502 tables): same tokens. -/
example : eraseLoc (lexAll (lexTables .mos6502) 12 (Lexer.new 0 "lda #1".toList)) =
    ([.op "Lda", .sym "Hash", .num 1, .newline], none) := by decide +kernel

example : eraseLoc (lexAll (lexTables .mos6502) 12 (Lexer.new 0 "lda  \t #1".toList)) =
    ([.op "Lda", .sym "Hash", .num 1, .newline], none) := by decide +kernel

/-- The hypothesis of `ws_insensitive` holds after `lda␠` (5 steps: three letters, the blank that
ends the identifier, the same blank again from the stash) … -/
theorem clean_lda : CleanAfter (lexTables .mos6502) 0 .eof "lda ".toList :=
  CleanAfter_of_cleanAt 5 (by decide +kernel)

/-- … so the theorem applies (here: instead of running the lexer). -/
example (fuel : Nat) :
    eraseLoc (lexAll (lexTables .mos6502) fuel (Lexer.new 0 ("lda ".toList ++ " \t ".toList ++ "#1".toList))) =
      eraseLoc (lexAll (lexTables .mos6502) fuel (Lexer.new 0 ("lda ".toList ++ "#1".toList))) :=
  ws_run _ 0 .eof _ _ _ (by decide) clean_lda fuel

/-- At the very start of a text the hypothesis holds trivially (0 steps). -/
theorem clean_nil (T : LexTables) (file : Nat) (ending : StreamEnd) : CleanAfter T file ending [] :=
  ⟨0, _, rfl, rfl, rfl, rfl, rfl⟩

/-- After a complete string literal too (the closing quote returns to `initial`, nothing stashed). -/
example : CleanAfter (lexTables .mos6502) 0 .eof "\"a b\"".toList :=
  CleanAfter_of_cleanAt 5 (by decide +kernel)

/-- NEGATIVE: the hypothesis matters.  A blank inserted inside a string literal changes the string
token … -/
theorem string_blank_differs :
    eraseLoc (lexAll (lexTables .mos6502) 12 (Lexer.new 0 ("\"a ".toList ++ ' ' :: "b\"".toList))) ≠
      eraseLoc (lexAll (lexTables .mos6502) 12 (Lexer.new 0 ("\"a ".toList ++ "b\"".toList))) := by
  decide +kernel

example : eraseLoc (lexAll (lexTables .mos6502) 12 (Lexer.new 0 "\"a  b\"".toList)) =
    ([.str "a  b", .newline], none) := by decide +kernel

example : eraseLoc (lexAll (lexTables .mos6502) 12 (Lexer.new 0 "\"a b\"".toList)) =
    ([.str "a b", .newline], none) := by decide +kernel

/-- … and indeed the point after `"a␠` is not between tokens: the reached state is `inString`
(for no number of steps is it `initial`). -/
theorem not_clean_in_string : ¬ CleanAfter (lexTables .mos6502) 0 .eof "\"a ".toList :=
  fun h => string_blank_differs (ws_insensitive _ 0 .eof _ _ ' ' (by decide) h 12)

example : (stepsN (lexTables .mos6502) 3 (Lexer.new 0 "\"a ".toList)).map (fun l => (l.state, l.input)) =
    some (.inString, []) := by decide +kernel

/-- NEGATIVE: a line feed is not a blank — it is a token. -/
example : eraseLoc (lexAll (lexTables .mos6502) 12 (Lexer.new 0 "lda \n#1".toList)) =
    ([.op "Lda", .newline, .sym "Hash", .num 1, .newline], none) := by decide +kernel

/-- NEGATIVE: a blank inside an identifier splits it (the state after `ld` is `inIdentifier`). -/
example : eraseLoc (lexAll (lexTables .mos6502) 12 (Lexer.new 0 "ld a".toList)) =
    ([.label .global "ld", .reg "A", .newline], none) := by decide +kernel

/-- With the fuels a caller derives from the two lengths (the driver's `length + 4`). -/
example :
    eraseLoc (lexAll (lexTables .mos6502) (("lda ".toList ++ " \t ".toList ++ "#1".toList).length + 4)
        (Lexer.new 0 ("lda ".toList ++ " \t ".toList ++ "#1".toList))) =
      eraseLoc (lexAll (lexTables .mos6502) (("lda ".toList ++ "#1".toList).length + 4)
        (Lexer.new 0 ("lda ".toList ++ "#1".toList))) :=
  ws_run_fuel _ 0 .eof _ _ _ (by decide) clean_lda _ _ (by omega) (by omega)

/-- The bound `length + 2` is needed for some texts: `a⏎` has 3 tokens, fuel 2 cuts the run. -/
example : (lexAll (lexTables .mos6502) 2 (Lexer.new 0 "a\n".toList)).1.length = 2 ∧
    (lexAll (lexTables .mos6502) 3 (Lexer.new 0 "a\n".toList)).1.length = 3 ∧
    (lexAll (lexTables .mos6502) 4 (Lexer.new 0 "a\n".toList)).1.length = 3 := by decide +kernel

end Az65.Thm.C18Ws

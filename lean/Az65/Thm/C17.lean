import Az65.Model.CharReader
/-
C17 — source is decoded as UTF-8 however reads are chunked; read faults fail the run.
-/
namespace Az65.Thm.C17
open Az65.Spec.Utf8 Az65.Model.CR

/-! ### facts about the Spec decoder (prefix stability) -/

theorem seqLen_le (b : Nat) : seqLen b ≤ 4 := by
  unfold seqLen; repeat (first | omega | split)

theorem scan_done_append (b0 : Nat) : ∀ (k i : Nat) (w r : List Nat), scan b0 k i w = .done →
    scan b0 k i (w ++ r) = .done ∧ k ≤ w.length := by
  intro k
  induction k with
  | zero => intro i w r _; simp [scan]
  | succ k ih =>
    intro i w r h
    cases w with
    | nil => simp [scan] at h
    | cons b t =>
      simp only [scan, List.cons_append] at h ⊢
      split at h
      · rename_i hs; simp only [hs, if_true]; have := ih (i+1) t r h; simp; exact ⟨this.1, this.2⟩
      · simp at h

theorem scan_bad_append (b0 : Nat) : ∀ (k i : Nat) (w r : List Nat), scan b0 k i w = .bad →
    scan b0 k i (w ++ r) = .bad := by
  intro k
  induction k with
  | zero => intro i w r h; simp [scan] at h
  | succ k ih =>
    intro i w r h
    cases w with
    | nil => simp [scan] at h
    | cons b t =>
      simp only [scan, List.cons_append] at h ⊢
      split at h
      · rename_i hs; simp only [hs, if_true]; exact ih (i+1) t r h
      · rename_i hs; simp [hs]

theorem scan_short_len (b0 : Nat) : ∀ (k i : Nat) (w : List Nat), scan b0 k i w = .short →
    w.length < k := by
  intro k
  induction k with
  | zero => intro i w h; simp [scan] at h
  | succ k ih =>
    intro i w h
    cases w with
    | nil => simp
    | cons b t =>
      simp only [scan] at h
      split at h
      · have := ih (i+1) t h; simp; omega
      · simp at h

theorem df_empty {w : List Nat} (h : decodeFirst w = .empty) : w = [] := by
  cases w with
  | nil => rfl
  | cons b r =>
    simp only [decodeFirst] at h
    split at h
    · simp at h
    · split at h <;> simp at h

/-- A complete first character is decided by its own bytes: more input does not change it. -/
theorem df_ok_append {w : List Nat} (r : List Nat) {c n : Nat} (h : decodeFirst w = .ok c n) :
    decodeFirst (w ++ r) = .ok c n ∧ n ≤ w.length ∧ 0 < n := by
  cases w with
  | nil => simp [decodeFirst] at h
  | cons b t =>
    simp only [decodeFirst, List.cons_append] at h ⊢
    split at h
    · simp at h
    · rename_i hz
      simp only [hz, if_false]
      cases hs : scan b (seqLen b - 1) 1 t with
      | done =>
        simp only [hs] at h
        have ⟨h1, h2⟩ := scan_done_append b _ 1 t r hs
        simp only [h1]
        have hn : seqLen b = n := by simpa using congrArg (fun x => match x with | First.ok _ l => l | _ => 0) h
        have hlen : seqLen b ≤ (b :: t).length := by simp; omega
        refine ⟨?_, by rw [← hn]; exact hlen, by omega⟩
        have : ((b :: (t ++ r)).take (seqLen b)) = ((b :: t).take (seqLen b)) := by
          rw [← List.cons_append, List.take_append_of_le_length hlen]
        rw [this]; exact h
      | short => simp [hs] at h
      | bad => simp [hs] at h

theorem df_invalid_append {w : List Nat} (r : List Nat) (h : decodeFirst w = .invalid) :
    decodeFirst (w ++ r) = .invalid := by
  cases w with
  | nil => simp [decodeFirst] at h
  | cons b t =>
    simp only [decodeFirst, List.cons_append] at h ⊢
    split at h
    · rename_i hz; simp [hz]
    · rename_i hz
      simp only [hz, if_false]
      cases hs : scan b (seqLen b - 1) 1 t with
      | done => simp [hs] at h
      | short => simp [hs] at h
      | bad => simp [scan_bad_append b _ 1 t r hs]

/-- Four bytes always decide the first character. -/
theorem df_incomplete_len {w : List Nat} (h : decodeFirst w = .incomplete) : w.length < 4 := by
  cases w with
  | nil => simp
  | cons b t =>
    simp only [decodeFirst] at h
    split at h
    · simp at h
    · cases hs : scan b (seqLen b - 1) 1 t with
      | done => simp [hs] at h
      | bad => simp [hs] at h
      | short =>
        have := scan_short_len b _ 1 t hs
        have := seqLen_le b
        simp; omega

/-! ### the reader without faults -/

theorem want_pos (s : Src) {space : Nat} (h : 0 < space) : 0 < s.want space := by
  unfold Src.want; split <;> omega

theorem want_le (s : Src) (space : Nat) : s.want space ≤ space := by
  unfold Src.want; split <;> omega

/-- A `read` without fault moves a non-empty prefix of the unread bytes (or reports end of input
exactly when nothing is unread). -/
theorem read_nofault (s : Src) (space : Nat) (hs : 0 < space) (hf : s.failAfter = none) :
    ∃ bs s', s.read space = .bytes bs s' ∧ bs ++ s'.unread = s.unread ∧ s'.failAfter = none ∧
      (bs = [] → s.unread = []) ∧ bs.length ≤ space := by
  unfold Src.read
  simp only [hf]
  refine ⟨_, _, rfl, by simp, rfl, ?_, ?_⟩
  · intro h
    have hp := want_pos s hs
    cases hu : s.unread with
    | nil => rfl
    | cons a t =>
      rw [hu] at h
      rw [List.take_eq_nil_iff] at h
      rcases h with h | h
      · omega
      · simp at h
  · have := want_le s space
    simp only [List.length_take]; omega

/-- Any `read` returns at most `space` bytes. -/
theorem read_len (s : Src) (space : Nat) (bs : List Nat) (s' : Src)
    (h : s.read space = .bytes bs s') : bs.length ≤ space := by
  have hw := want_le s space
  unfold Src.read at h
  split at h
  · simp at h
  · simp only [ReadRes.bytes.injEq] at h
    rw [← h.1]; simp only [List.length_take]; omega
  · simp only [ReadRes.bytes.injEq] at h
    rw [← h.1]; simp only [List.length_take]; omega

/-- The window never exceeds four bytes. -/
theorem fill_win_le : ∀ (f : Nat) (st st' : St), st.win.length ≤ 4 → fill f st = .ok st' →
    st'.win.length ≤ 4 := by
  intro f
  induction f with
  | zero => intro st st' h hf; simp only [fill, Fill.ok.injEq] at hf; rw [← hf]; exact h
  | succ f ih =>
    intro st st' h hf
    unfold fill at hf
    split at hf
    · simp only [Fill.ok.injEq] at hf; rw [← hf]; exact h
    · rename_i hd
      simp only [Bool.or_eq_true, decide_eq_true_eq, not_or] at hd
      cases hr : st.src.read (4 - st.win.length) with
      | fail => rw [hr] at hf; simp at hf
      | bytes bs s =>
        rw [hr] at hf
        have hle := read_len _ _ _ _ hr
        cases bs with
        | nil => simp only [Fill.ok.injEq] at hf; rw [← hf]; exact h
        | cons b t =>
          simp only [] at hf
          exact ih _ st' (by simp at hle ⊢; omega) hf

/-- `fill` without fault keeps the byte stream intact and ends with a window that decides its
first character, or with all remaining input inside an undecided window. -/
theorem fill_nofault : ∀ (f : Nat) (st : St), st.src.failAfter = none → 4 ≤ f + st.win.length →
    ∃ st', fill f st = .ok st' ∧ st'.win ++ st'.src.unread = st.win ++ st.src.unread ∧
      st'.src.failAfter = none ∧
      (decided st'.win = true ∨ 4 ≤ st'.win.length ∨ st'.src.unread = []) := by
  intro f
  induction f with
  | zero =>
    intro st hf hl
    exact ⟨st, rfl, rfl, hf, Or.inr (Or.inl (by omega))⟩
  | succ f ih =>
    intro st hf hl
    unfold fill
    by_cases hd : (decided st.win || decide (st.win.length ≥ 4)) = true
    · simp only [hd, if_true]
      refine ⟨st, rfl, rfl, hf, ?_⟩
      simp only [Bool.or_eq_true, decide_eq_true_eq] at hd
      rcases hd with hd | hd
      · exact Or.inl hd
      · exact Or.inr (Or.inl hd)
    · simp only [hd]
      simp only [Bool.or_eq_true, decide_eq_true_eq, not_or] at hd
      have hsp : 0 < 4 - st.win.length := by omega
      obtain ⟨bs, s', hr, hcat, hf', hnil, hle⟩ := read_nofault st.src _ hsp hf
      rw [hr]
      cases bs with
      | nil =>
        refine ⟨{ st with src := s' }, rfl, ?_, hf', Or.inr (Or.inr ?_)⟩
        · simp at hcat; simp [hcat]
        · have := hnil rfl; simp at hcat; rw [hcat]; exact this
      | cons b t =>
        have := ih { win := st.win ++ (b :: t), src := s' } hf' (by simp; omega)
        obtain ⟨st', h1, h2, h3, h4⟩ := this
        refine ⟨st', h1, ?_, h3, h4⟩
        rw [h2]; simp only [List.append_assoc]; rw [hcat]

theorem next_of_fill {st st' : St} (h : fill 4 st = .ok st') :
    next st = match decodeFirst st'.win with
      | .empty => .eof
      | .ok cp len => .char cp { st' with win := st'.win.drop len }
      | .incomplete => .utf8
      | .invalid => .utf8 := by
  unfold next; simp only [h]; rfl

/-- One `next` without fault = one step of the Spec decoder on the remaining byte stream. -/
theorem next_nofault (st : St) (hf : st.src.failAfter = none) (hw : st.win.length ≤ 4) :
    match decodeFirst (st.win ++ st.src.unread) with
    | .empty => next st = .eof
    | .ok cp len => ∃ st', next st = .char cp st' ∧ st'.src.failAfter = none ∧ st'.win.length ≤ 4 ∧
        st'.win ++ st'.src.unread = (st.win ++ st.src.unread).drop len
    | .incomplete => next st = .utf8
    | .invalid => next st = .utf8 := by
  obtain ⟨st', hfill, hcat, hf', hstop⟩ := fill_nofault 4 st hf (by omega)
  have hw' := fill_win_le 4 st st' hw hfill
  rw [next_of_fill hfill, ← hcat]
  cases hd : decodeFirst st'.win with
  | ok cp len =>
    obtain ⟨h1, h2, h3⟩ := df_ok_append st'.src.unread hd
    rw [h1]
    refine ⟨_, rfl, hf', ?_, ?_⟩
    · simp only [List.length_drop]; omega
    · simp only []; rw [List.drop_append_of_le_length h2]
  | empty =>
    have hnil := df_empty hd
    rcases hstop with h | h | h
    · simp [decided, hd] at h
    · rw [hnil] at h; simp at h
    · rw [hnil, h]; simp [decodeFirst]
  | incomplete =>
    have hlt := df_incomplete_len hd
    rcases hstop with h | h | h
    · simp [decided, hd] at h
    · omega
    · rw [h, List.append_nil, hd]
  | invalid =>
    rw [df_invalid_append _ hd]

/-- **C17 (chunking).**  For every byte string, every way of splitting it into reads (any script
of chunk sizes) and every fuel, the characters produced by the reader Model, and the way the
stream ends, are exactly the UTF-8 decoding of the bytes. -/
theorem run_eq_decodeAll : ∀ (f : Nat) (st : St), st.src.failAfter = none → st.win.length ≤ 4 →
    run f st = decodeAll f (st.win ++ st.src.unread) := by
  intro f
  induction f with
  | zero => intro st _ _; rfl
  | succ f ih =>
    intro st hf hw
    have h := next_nofault st hf hw
    unfold run decodeAll
    cases hd : decodeFirst (st.win ++ st.src.unread) with
    | empty => rw [hd] at h; simp [h]
    | incomplete => rw [hd] at h; simp [h]
    | invalid => rw [hd] at h; simp [h]
    | ok cp len =>
      rw [hd] at h
      obtain ⟨st', h1, h2, h3, h4⟩ := h
      simp only [h1]
      rw [ih st' h2 h3, h4]

theorem chars_eq_decode (bytes script : List Nat) (f : Nat) :
    run f (init bytes script none) = decodeAll f bytes := by
  have := run_eq_decodeAll f (init bytes script none) rfl (by simp [init])
  simpa [init] using this

/-! ### read faults -/

/-- A pending fault that lies within the input (`k ≤ unread.length`) is never lost: `read`
delivers a non-empty chunk and keeps the fault pending, or fails. -/
theorem read_fault (s : Src) (space k : Nat) (hs : 0 < space) (hf : s.failAfter = some k)
    (hk : k ≤ s.unread.length) :
    s.read space = .fail ∨
    ∃ bs s' k', s.read space = .bytes bs s' ∧ bs ≠ [] ∧ s'.failAfter = some k' ∧
      k' ≤ s'.unread.length := by
  unfold Src.read
  simp only [hf]
  cases k with
  | zero => exact Or.inl rfl
  | succ k =>
    right
    refine ⟨_, _, _, rfl, ?_, rfl, ?_⟩
    · have := want_pos s hs
      intro h
      rw [List.take_eq_nil_iff] at h
      rcases h with h | h
      · omega
      · rw [h] at hk; simp at hk
    · simp only [List.length_drop]; omega

theorem fill_fault : ∀ (f : Nat) (st : St) (k : Nat), st.src.failAfter = some k →
    k ≤ st.src.unread.length →
    fill f st = .fail ∨ ∃ st' k', fill f st = .ok st' ∧ st'.src.failAfter = some k' ∧
      k' ≤ st'.src.unread.length ∧ (st'.win = [] → st.win = [] ∧ f = 0) := by
  intro f
  induction f with
  | zero => intro st k hf hk; exact Or.inr ⟨st, k, rfl, hf, hk, fun h => ⟨h, rfl⟩⟩
  | succ f ih =>
    intro st k hf hk
    unfold fill
    split
    · rename_i hd
      refine Or.inr ⟨st, k, rfl, hf, hk, ?_⟩
      intro hw
      simp only [Bool.or_eq_true, decide_eq_true_eq] at hd
      rw [hw] at hd
      rcases hd with hd | hd
      · simp [decided, decodeFirst] at hd
      · simp at hd
    · rename_i hd
      simp only [Bool.or_eq_true, decide_eq_true_eq, not_or] at hd
      rcases read_fault st.src (4 - st.win.length) k (by omega) hf hk with h | ⟨bs, s', k', h, hne, hf', hk'⟩
      · rw [h]; exact Or.inl rfl
      · rw [h]
        cases bs with
        | nil => exact absurd rfl hne
        | cons b t =>
          rcases ih { win := st.win ++ (b :: t), src := s' } k' hf' hk' with h2 | ⟨st2, k2, h2, h3, h4, h5⟩
          · exact Or.inl h2
          · refine Or.inr ⟨st2, k2, h2, h3, h4, ?_⟩
            intro hw
            have := (h5 hw).1
            simp at this

/-- **C17 (faults).**  If a read fault is pending within the input, the run never ends as a
successful end of input: it ends with the I/O error or, earlier, with a UTF-8 diagnostic. -/
theorem fault_never_eof : ∀ (f : Nat) (st : St) (k : Nat), st.src.failAfter = some k →
    k ≤ st.src.unread.length → (run f st).2 ≠ .eof := by
  intro f
  induction f with
  | zero => intro st k _ _; simp [run]
  | succ f ih =>
    intro st k hf hk
    unfold run
    rcases fill_fault 4 st k hf hk with h | ⟨st', k', h, h2, h3, h4⟩
    · have : next st = .io := by unfold next; simp only [h]
      rw [this]; simp
    · rw [next_of_fill h]
      cases hd : decodeFirst st'.win with
      | empty =>
        have := df_empty hd
        have := (h4 this).2
        omega
      | incomplete => simp
      | invalid => simp
      | ok cp len =>
        simp only []
        exact ih { st' with win := st'.win.drop len } k' h2 h3

theorem fault_fails (bytes script : List Nat) (k f : Nat) (hk : k ≤ bytes.length) :
    (run f (init bytes script (some k))).2 ≠ .eof :=
  fault_never_eof f _ k rfl (by simpa [init] using hk)

/-! ### non-vacuity -/
example : run 10 (init [0x61, 0x62, 0xC3, 0xA9] [4] none) = ([0x61, 0x62, 0xE9], .eof) := by decide
example : run 10 (init [0x61, 0x62, 0xC3, 0xA9] [1, 2, 1] none) = ([0x61, 0x62, 0xE9], .eof) := by decide
example : run 10 (init [0xC3, 0xA9, 0xF0, 0x9F, 0xA4, 0xA0, 0x31] [3, 1, 1] none) =
    ([0xE9, 0x1F920, 0x31], .eof) := by decide
example : (run 10 (init [0x61, 0x62, 0x63] [] (some 2))).2 = .io := by decide
example : decodeAll 10 [0x61, 0xFF] = ([0x61], .utf8) := by decide

end Az65.Thm.C17

import Az65.Lemmas.ExprBridge
/-
C04 — expressions evaluate as C expressions over wrapping 32-bit signed integers.

Property theorems only (helper lemmas: `Az65/Lemmas/ExprBridge.lean`).
-/
namespace Az65.Thm.C04
open Az65 Az65.Spec Az65.Bridge

/-- How a spec-level value (or its absence) appears as an evaluator outcome. -/
def resOf : Option Int → Res I32
  | some v => .ok (BitVec.ofInt 32 v)
  | none => .unsolved

/-- The valuation `σ` describes what the table accesses of the evaluator return. -/
structure Agrees (lazy : List String → List Node → Res I32) (env : Env) (vis : List String)
    (σ : Valuation) : Prop where
  val : ∀ x, labelStep lazy env vis x = resOf (σ.val x)
  size : ∀ x, sizeOfStep env x = resOf (σ.size x)
  valR : ∀ x v, σ.val x = some v → InR v
  sizeR : ∀ x v, σ.size x = some v → InR v

/-! ### step equations of the evaluator -/

private theorem step_val (lazy env vis v ns st) :
    evalList lazy env vis (.val v :: ns) st = evalList lazy env vis ns (v :: st) := rfl

private theorem step_label (lazy env vis x ns st) :
    evalList lazy env vis (.label x :: ns) st =
      match labelStep lazy env vis x with
      | .ok v => evalList lazy env vis ns (v :: st)
      | .unsolved => .unsolved
      | .crash s => .crash s := rfl

private theorem step_sizeOf (lazy env vis x ns st) :
    evalList lazy env vis (.sizeOf x :: ns) st =
      match sizeOfStep env x with
      | .ok v => evalList lazy env vis ns (v :: st)
      | .unsolved => .unsolved
      | .crash s => .crash s := rfl

private theorem step_tern (lazy env vis ns r l c st) :
    evalList lazy env vis (.ternary :: ns) (r :: l :: c :: st) =
      evalList lazy env vis ns ((if c != 0 then l else r) :: st) := rfl

private theorem step_un (lazy env vis) (o : UnOp) (n : Node) (h : o.node = some n) (ns v st) :
    ∃ f, un1 n = some f ∧
      evalList lazy env vis (n :: ns) (v :: st) = evalList lazy env vis ns (f v :: st) := by
  cases o <;> simp only [UnOp.node, Option.some.injEq] at h <;> first | subst h | cases h
  all_goals exact ⟨_, rfl, rfl⟩

private theorem step_bin (lazy env vis) (o : BinOp) (ns r l st) :
    ∃ f, bin2 o.node = some f ∧
      evalList lazy env vis (o.node :: ns) (r :: l :: st) =
        match (match f l r with
               | some v => Res.ok (v :: st)
               | none => Res.unsolved) with
        | .ok st' => evalList lazy env vis ns st'
        | .unsolved => .unsolved
        | .crash s => .crash s := by
  cases o <;> exact ⟨_, rfl, rfl⟩

/-! ### values stay in range -/

theorem unSem_inR (o : UnOp) {a : Int} (h : InR a) : InR (unSem o a) := by
  cases o <;> simp only [unSem]
  · exact wrap_inR _
  · exact h
  · unfold ofBool InR; split <;> omega
  · unfold InR at *; omega
  · unfold InR at *; omega
  · unfold InR at *; omega

theorem binSem_inR (o : BinOp) {a b v : Int} (ha : InR a) (hb : InR b)
    (h : binSem o a b = some v) : InR v := by
  have := bin_bridge o (BitVec.ofInt 32 a) (BitVec.ofInt 32 b)
  rw [toInt_ofInt_of_inR ha, toInt_ofInt_of_inR hb, h] at this
  cases hf : bin2 o.node with
  | none => simp [hf] at this
  | some f =>
    simp [hf] at this
    cases hv : f (BitVec.ofInt 32 a) (BitVec.ofInt 32 b) with
    | none => simp [hv] at this
    | some w => simp [hv] at this; rw [← this]; exact inR_toInt _

theorem denote_inR (σ : Valuation)
    (valR : ∀ x v, σ.val x = some v → InR v) (sizeR : ∀ x v, σ.size x = some v → InR v) :
    ∀ (t : CExpr) (v : Int), denote σ t = some v → InR v := by
  intro t
  induction t with
  | num n => intro v h; simp [denote] at h; rw [← h]; exact wrap_inR _
  | sym x => intro v h; exact valR x v h
  | sizeOf x => intro v h; exact sizeR x v h
  | un o e ih =>
    intro v h
    simp only [denote] at h
    cases he : denote σ e with
    | none => simp [he] at h
    | some a => simp [he] at h; rw [← h]; exact unSem_inR o (ih a he)
  | bin o l r ihl ihr =>
    intro v h
    simp only [denote] at h
    cases hl : denote σ l with
    | none => simp [hl] at h
    | some a =>
      cases hr : denote σ r with
      | none => simp [hl, hr] at h
      | some b => simp [hl, hr] at h; exact binSem_inR o (ihl a hl) (ihr b hr) h
  | tern c a b ihc iha ihb =>
    intro v h
    simp only [denote] at h
    cases hc : denote σ c with
    | none => simp [hc] at h
    | some vc =>
      cases ha : denote σ a with
      | none => simp [hc, ha] at h
      | some va =>
        cases hb : denote σ b with
        | none => simp [hc, ha, hb] at h
        | some vb =>
          simp [hc, ha, hb] at h
          rw [← h]; split <;> first | exact iha va ha | exact ihb vb hb

/-! ### the main theorem -/

/-- **C04 (evaluator).**  For every expression tree `t`, evaluating its postfix compilation
pushes exactly the value C gives `t` over wrapping 32-bit integers, and is "could not be solved"
exactly when C04 allows a diagnostic (a zero divisor or an unsolvable name); it never crashes.
Holds for every tree, every valuation and every continuation `rest` / stack `st`. -/
theorem evalList_compile {lazy env vis σ} (H : Agrees lazy env vis σ) :
    ∀ (t : CExpr) (rest : List Node) (st : List I32),
      evalList lazy env vis (compile t ++ rest) st =
        match denote σ t with
        | some r => evalList lazy env vis rest (BitVec.ofInt 32 r :: st)
        | none => .unsolved := by
  have inR := denote_inR σ H.valR H.sizeR
  intro t
  induction t with
  | num v =>
    intro rest st
    simp only [compile, denote, List.singleton_append, step_val, ofInt_wrap]
  | sym x =>
    intro rest st
    simp only [compile, denote, List.singleton_append, step_label, H.val x]
    cases σ.val x <;> simp [resOf]
  | sizeOf x =>
    intro rest st
    simp only [compile, denote, List.singleton_append, step_sizeOf, H.size x]
    cases σ.size x <;> simp [resOf]
  | un o e ih =>
    intro rest st
    simp only [compile, denote, List.append_assoc, ih]
    cases he : denote σ e with
    | none => simp
    | some a =>
      have ha := inR e a he
      simp only [Option.map]
      have hb := un_bridge o (BitVec.ofInt 32 a)
      rw [toInt_ofInt_of_inR ha] at hb
      cases hn : o.node with
      | none =>
        simp only [hn] at hb
        simp only [List.nil_append]
        have : unSem o a = a := by simpa using hb.symm
        rw [this]
      | some n =>
        obtain ⟨f, hf, hstep⟩ := step_un lazy env vis o n hn rest (BitVec.ofInt 32 a) st
        simp only [List.singleton_append, hstep]
        simp only [hn, hf, Option.map] at hb
        have : f (BitVec.ofInt 32 a) = BitVec.ofInt 32 (unSem o a) := by
          apply BitVec.eq_of_toInt_eq
          rw [toInt_ofInt_of_inR (unSem_inR o ha)]
          simpa using hb
        rw [this]
  | bin o l r ihl ihr =>
    intro rest st
    simp only [compile, denote, List.append_assoc, ihl]
    cases hl : denote σ l with
    | none => simp
    | some a =>
      simp only [ihr]
      cases hr : denote σ r with
      | none => simp
      | some b =>
        have ha := inR l a hl
        have hb := inR r b hr
        obtain ⟨f, hf, hstep⟩ :=
          step_bin lazy env vis o rest (BitVec.ofInt 32 b) (BitVec.ofInt 32 a) st
        simp only [List.singleton_append, hstep]
        have hbr := bin_bridge o (BitVec.ofInt 32 a) (BitVec.ofInt 32 b)
        rw [toInt_ofInt_of_inR ha, toInt_ofInt_of_inR hb] at hbr
        simp only [hf, Option.map] at hbr
        cases hv : f (BitVec.ofInt 32 a) (BitVec.ofInt 32 b) with
        | none =>
          simp only [hv] at hbr
          have : binSem o a b = none := by simpa using hbr.symm
          simp [this]
        | some w =>
          simp only [hv] at hbr
          have hw : binSem o a b = some w.toInt := by simpa using hbr.symm
          simp only [hw, ofInt_toInt]
  | tern c a b ihc iha ihb =>
    intro rest st
    simp only [compile, denote, List.append_assoc, ihc]
    cases hc : denote σ c with
    | none => simp
    | some vc =>
      simp only [iha]
      cases ha : denote σ a with
      | none => simp
      | some va =>
        simp only [ihb]
        cases hb : denote σ b with
        | none => simp
        | some vb =>
          simp only [List.singleton_append, step_tern]
          have hcr := inR c vc hc
          have : (BitVec.ofInt 32 vc != 0) = decide (vc ≠ 0) := by
            rw [bne_eq, toInt_ofInt_of_inR hcr]; simp
          rw [this]
          by_cases h0 : vc = 0 <;> simp [h0]

/-- Top-level corollary: the whole expression evaluates to C's value, or is unsolvable exactly when
C04 allows a diagnostic.  In particular the outcome is never a crash. -/
theorem eval_compile {lazy env vis σ} (H : Agrees lazy env vis σ) (t : CExpr) :
    evalList lazy env vis (compile t) [] = resOf (denote σ t) := by
  have := evalList_compile H t [] []
  rw [List.append_nil] at this
  rw [this]
  cases denote σ t <;> simp [resOf, evalList]

/-- Totality: evaluation of a compiled tree never panics (no empty-stack pop, no division
trap, no negation overflow). -/
theorem eval_total {lazy env vis σ} (H : Agrees lazy env vis σ) (t : CExpr) :
    (evalList lazy env vis (compile t) []).isCrash = false := by
  rw [eval_compile H]; cases denote σ t <;> rfl

/-! ### non-vacuity: a concrete environment satisfying `Agrees`, and degenerate operands -/

/-- A table holding only plain values agrees with the valuation that reads them. -/
theorem agrees_values (lazy) (env : Env) (vis)
    (hv : ∀ x e, env.get x = some e → ∃ v, e.sym = .val v)
    (hs : ∀ x e, env.get x = some e → e.metas = []) :
    Agrees lazy env vis
      { val := fun x => (env.get x).bind fun e =>
          match e.sym with | .val v => some v.toInt | .expr _ => none,
        size := fun _ => none } := by
  refine ⟨?_, ?_, ?_, ?_⟩
  · intro x
    simp only [labelStep]
    cases h : env.get x with
    | none => simp [resOf]
    | some e =>
      obtain ⟨v, hv'⟩ := hv x e h
      simp [hv', resOf]
  · intro x
    simp only [sizeOfStep]
    cases h : env.get x with
    | none => simp [resOf]
    | some e => simp [hs x e h, resOf]
  · intro x v h
    cases hg : env.get x with
    | none => simp [hg] at h
    | some e =>
      obtain ⟨w, hw⟩ := hv x e hg
      simp [hg, hw] at h; rw [← h]; exact inR_toInt _
  · intro x v h; simp at h

example : denote ⟨fun _ => none, fun _ => none⟩ (.bin .bxor (.num 5) (.num 3)) = some 6 := by decide
example : denote ⟨fun _ => none, fun _ => none⟩ (.bin .div (.num 1) (.num 0)) = none := by decide
example : denote ⟨fun _ => none, fun _ => none⟩ (.un .neg (.num (-2147483648))) = some (-2147483648) := by
  decide
example : denote ⟨fun _ => none, fun _ => none⟩
    (.bin .div (.num (-2147483648)) (.num (-1))) = some (-2147483648) := by decide

end Az65.Thm.C04

import Az65.Lemmas.ParseLemmas
import Az65.Thm.C04
/-
C04 (front half) — the expression ladder parses every minimally parenthesised spelling of an
expression tree to that tree's postfix code.

`render k t` is the token spelling of the tree `t` in a context that requires precedence level
`k`, with parentheses exactly where the grammar needs them.  `parse_render`: on any token list
spelling `render k t` (arbitrary locations), followed by any input `rest` that does not continue
an expression at level `k`, `parsePrec … k` consumes exactly the spelling and appends `compile t`
to the node list.  Together with `C04.evalList_compile` (evaluating `compile t` gives the C
value) this ties the text of an expression to its value.
-/
namespace Az65.Thm.C04Parse
open Az65 Az65.Spec Az65.ParseLemmas

/-! ### spelling of operators -/

/-- `SymbolName` variant of a binary operator. -/
def binSym : BinOp → String
  | .lor => "DoublePipe" | .land => "DoubleAmpersand" | .bor => "Pipe" | .bxor => "Caret"
  | .band => "Ampersand" | .eq => "Equal" | .ne => "NotEqual"
  | .lt => "LessThan" | .le => "LessEqual" | .gt => "GreaterThan" | .ge => "GreaterEqual"
  | .shl => "ShiftLeft" | .shll => "ShiftLeftLogical" | .shr => "ShiftRight"
  | .shrl => "ShiftRightLogical"
  | .add => "Plus" | .sub => "Minus" | .mul => "Star" | .div => "Div" | .rem => "Mod"

/-- Ladder level (`expr_prec_k`) of a binary operator: 1 binds loosest, 10 tightest. -/
def binLevel : BinOp → Nat
  | .lor => 1 | .land => 2 | .bor => 3 | .bxor => 4 | .band => 5
  | .eq => 6 | .ne => 6
  | .lt => 7 | .le => 7 | .gt => 7 | .ge => 7
  | .shl => 8 | .shll => 8 | .shr => 8 | .shrl => 8
  | .add => 9 | .sub => 9
  | .mul => 10 | .div => 10 | .rem => 10

/-- `SymbolName` variant of a prefix operator. -/
def unSym : UnOp → String
  | .neg => "Minus" | .pos => "Plus" | .lnot => "Bang" | .bnot => "Tilde"
  | .lo => "LessThan" | .hi => "GreaterThan"

theorem lookup_bin (o : BinOp) : lookupOp (levelOps (binLevel o)) (binSym o) = some o.node := by
  cases o <;> decide

theorem lookup_un (o : UnOp) : lookupOp unaryOps (unSym o) = some o.node := by
  cases o <;> decide

theorem binLevel_pos (o : BinOp) : 1 ≤ binLevel o := by cases o <;> decide
theorem binLevel_le (o : BinOp) : binLevel o ≤ 10 := by cases o <;> decide

/-- A binary operator symbol belongs to one level only. -/
theorem lookup_bin_other (o : BinOp) (j : Nat) (h : j ≠ binLevel o) :
    lookupOp (levelOps j) (binSym o) = none := by
  cases o <;> (unfold levelOps; split <;> simp [lookupOp, binSym, binLevel] at h ⊢)

theorem lookup_question (j : Nat) : lookupOp (levelOps j) "Question" = none := by
  unfold levelOps; split <;> simp [lookupOp]

theorem lookup_colon (j : Nat) : lookupOp (levelOps j) "Colon" = none := by
  unfold levelOps; split <;> simp [lookupOp]

theorem lookup_parenClose (j : Nat) : lookupOp (levelOps j) "ParenClose" = none := by
  unfold levelOps; split <;> simp [lookupOp]

/-! ### rendering -/

/-- Level of the outermost construct of a tree: what it can stand in without parentheses. -/
def prec : CExpr → Nat
  | .tern _ _ _ => 0
  | .bin o _ _ => binLevel o
  | _ => 11

def paren (b : Bool) (body : List Tok) : List Tok :=
  if b then .sym "ParenOpen" :: body ++ [.sym "ParenClose"] else body

/-- The minimally parenthesised token spelling of `t` in a context requiring level `k`. -/
def render : Nat → CExpr → List Tok
  | k, .num v => paren (decide (11 < k)) [.num v.toNat]
  | k, .sym n => paren (decide (11 < k)) [.label .global n]
  | k, .sizeOf n => paren (decide (11 < k)) [.dir "SizeOf", .label .global n]
  | k, .un o e => paren (decide (11 < k)) (.sym (unSym o) :: render 11 e)
  | k, .bin o l r => paren (decide (binLevel o < k))
      (render (binLevel o) l ++ [.sym (binSym o)] ++ render (binLevel o + 1) r)
  | k, .tern c a b => paren (decide (0 < k))
      (render 1 c ++ [.sym "Question"] ++ render 1 a ++ [.sym "Colon"] ++ render 1 b)

/-- The spelling of a tree without outer parentheses. -/
def body : CExpr → List Tok
  | .num v => [.num v.toNat]
  | .sym n => [.label .global n]
  | .sizeOf n => [.dir "SizeOf", .label .global n]
  | .un o e => .sym (unSym o) :: render 11 e
  | .bin o l r => render (binLevel o) l ++ [.sym (binSym o)] ++ render (binLevel o + 1) r
  | .tern c a b => render 1 c ++ [.sym "Question"] ++ render 1 a ++ [.sym "Colon"] ++ render 1 b

/-- The defining property of `render` (the form given in the task statement). -/
theorem render_eq (k : Nat) (t : CExpr) :
    render k t =
      if prec t < k then .sym "ParenOpen" :: render 0 t ++ [.sym "ParenClose"] else body t := by
  cases t <;> simp [render, paren, prec, body]

theorem prec_le (t : CExpr) : prec t ≤ 11 := by
  cases t <;> simp [prec]
  exact Nat.le_trans (binLevel_le _) (by decide)

theorem render_of_le {k : Nat} {t : CExpr} (h : k ≤ prec t) : render k t = body t := by
  rw [render_eq, if_neg (by omega)]

theorem render_of_lt {k : Nat} {t : CExpr} (h : prec t < k) :
    render k t = .sym "ParenOpen" :: render 0 t ++ [.sym "ParenClose"] := by
  rw [render_eq, if_pos h]

theorem render_succ {m : Nat} {t : CExpr} (h : prec t ≠ m) : render m t = render (m + 1) t := by
  rw [render_eq, render_eq (m + 1)]
  by_cases h' : prec t < m
  · rw [if_pos h', if_pos (by omega)]
  · rw [if_neg h', if_neg (by omega)]

/-! ### side conditions -/

/-- Number literals fit a number token (a `u32`); negative constants use the prefix minus. -/
def WF : CExpr → Prop
  | .num v => 0 ≤ v ∧ v < 2 ^ 32
  | .sym _ => True
  | .sizeOf _ => True
  | .un _ e => WF e
  | .bin _ l r => WF l ∧ WF r
  | .tern c a b => WF c ∧ WF a ∧ WF b

/-- No plain name of the tree is defined in the table yet (so the parser emits a `label` node
for it rather than folding the definition in). -/
def Fresh (E : Env) : CExpr → Prop
  | .num _ => True
  | .sym n => E.get n = none
  | .sizeOf _ => True
  | .un _ e => Fresh E e
  | .bin _ l r => Fresh E l ∧ Fresh E r
  | .tern c a b => Fresh E c ∧ Fresh E a ∧ Fresh E b

/-- The input `rest` does not continue an expression at level `k`: its first token is not a
binary operator of a level the ladder is inside of (levels `max k 1 … 10`), nor, at level 0, `?`.
End of input, a newline, a comma, a closing parenthesis, `:` stop every level. -/
def Stops (k : Nat) (rest : List LTok) : Prop :=
  ∀ s, headSym rest = some s →
    (∀ j, max k 1 ≤ j → j ≤ 10 → lookupOp (levelOps j) s = none) ∧ (k = 0 → s ≠ "Question")

theorem stops_nil (k : Nat) : Stops k [] := by intro s h; simp [headSym] at h

theorem stops_of_not_sym (k : Nat) (t : LTok) (r : List LTok) (h : ∀ s, t.tok ≠ .sym s) :
    Stops k (t :: r) := by
  intro s hs
  obtain ⟨tok, l⟩ := t
  cases tok <;> simp [headSym] at hs
  exact absurd rfl (h _)

theorem stops_mono {k k' : Nat} {rest : List LTok} (h : Stops k rest) (hk : k ≤ k') :
    Stops k' rest := by
  intro s hs
  refine ⟨fun j h1 h2 => (h s hs).1 j (by omega) h2, fun h0 => (h s hs).2 (by omega)⟩

theorem stops_eleven (k : Nat) (hk : 11 ≤ k) (rest : List LTok) : Stops k rest := by
  intro s _
  exact ⟨fun j h1 h2 => by omega, fun h0 => by omega⟩

/-! ### fuel -/

def baseFuel : CExpr → Nat
  | .num _ => 1
  | .sym _ => 1
  | .sizeOf _ => 1
  | .un _ e => baseFuel e + 23
  | .bin _ l r => baseFuel l + baseFuel r + 46
  | .tern c a b => baseFuel c + baseFuel a + baseFuel b + 23

/-- Number of ladder steps between level `k` and the level that handles `t`'s outermost
construct (through level 11 and the parentheses when `t` has to be parenthesised). -/
def lvl (t : CExpr) (k : Nat) : Nat :=
  if k ≤ prec t then prec t - k else 23 - min k 11

/-- Fuel that suffices to parse `render k t` at level `k`; linear in the size of the tree
(`fuelNeeded_le`). -/
def fuelNeeded (t : CExpr) (k : Nat) : Nat := baseFuel t + lvl t k

/-- Number of constructors of a tree. -/
def size : CExpr → Nat
  | .num _ => 1
  | .sym _ => 1
  | .sizeOf _ => 1
  | .un _ e => size e + 1
  | .bin _ l r => size l + size r + 1
  | .tern c a b => size c + size a + size b + 1

theorem baseFuel_pos (t : CExpr) : 1 ≤ baseFuel t := by cases t <;> simp [baseFuel]

theorem lvl_le (t : CExpr) (k : Nat) : lvl t k ≤ 22 := by
  have := prec_le t
  unfold lvl; split <;> omega

theorem baseFuel_le (t : CExpr) : baseFuel t + 45 ≤ 46 * size t := by
  induction t <;> simp only [baseFuel, size] <;> omega

theorem fuelNeeded_le (t : CExpr) (k : Nat) : fuelNeeded t k ≤ 46 * size t := by
  have := baseFuel_le t
  have := lvl_le t k
  unfold fuelNeeded; omega

/-! ### token lists with locations -/

theorem map_eq_cons {toks : List LTok} {x : Tok} {xs : List Tok}
    (h : toks.map (·.tok) = x :: xs) : ∃ l r, toks = ⟨x, l⟩ :: r ∧ r.map (·.tok) = xs := by
  cases toks with
  | nil => simp at h
  | cons t r =>
    obtain ⟨tok, l⟩ := t
    simp at h
    exact ⟨l, r, by rw [h.1], h.2⟩

theorem map_eq_append {toks : List LTok} {xs ys : List Tok}
    (h : toks.map (·.tok) = xs ++ ys) :
    ∃ a b, toks = a ++ b ∧ a.map (·.tok) = xs ∧ b.map (·.tok) = ys :=
  List.map_eq_append_iff.mp h

theorem map_eq_nil {toks : List LTok} (h : toks.map (·.tok) = []) : toks = [] := by
  simpa using h

/-! ### the induction -/

/-- The parse succeeded, consumed everything before `rest`, produced `out`, and left the symbol
table and the active scope as they were (`E`, `N`). -/
def Done (E : Env) (N : Option String) (out : List Node) (rest : List LTok)
    (r : R PlainSt (Loc × List Node)) : Prop :=
  ∃ loc core' cur', r = .ok ((loc, out), ⟨rest, core', cur'⟩) ∧ core'.symtab = E ∧ core'.ns = N

/-- `parsePrec … k` on a spelling of `render k t`. -/
def PStmt (E : Env) (N : Option String) (t : CExpr) (k : Nat) : Prop :=
  ∀ (rest toks : List LTok) (nodes : List Node) (core : CoreSt) (cur : Loc) (f : Nat),
    Stops k rest → toks.map (·.tok) = render k t → core.symtab = E → core.ns = N →
    fuelNeeded t k ≤ f →
    Done E N (nodes ++ compile t) rest (parsePrec plainOps f k nodes ⟨toks ++ rest, core, cur⟩)

/-- Loop invariant of a binary level `m`: `parsePrec … m` on a spelling of `render m t` followed
by anything that no tighter level continues with behaves like the loop of level `m` entered with
`compile t` on the node list — whether or not a level-`m` operator follows. -/
def SStmt (E : Env) (N : Option String) (t : CExpr) (m : Nat) : Prop :=
  ∀ (rest toks : List LTok) (nodes : List Node) (core : CoreSt) (cur : Loc) (f g : Nat),
    Stops (m + 1) rest → toks.map (·.tok) = render m t → core.symtab = E → core.ns = N →
    fuelNeeded t m + g ≤ f →
    ∃ loc core' cur' f', g + 1 ≤ f' ∧ core'.symtab = E ∧ core'.ns = N ∧
      parsePrec plainOps f m nodes ⟨toks ++ rest, core, cur⟩ =
        parseLoop plainOps f' m loc (nodes ++ compile t) ⟨rest, core', cur'⟩

variable {E : Env} {N : Option String}

/-- The loop of level `m` ends at input that stops level `m`. -/
theorem p_of_s {t : CExpr} {m : Nat} (h1 : 1 ≤ m) (h10 : m ≤ 10) (hS : SStmt E N t m) :
    PStmt E N t m := by
  intro rest toks nodes core cur f hstop htoks hE hN hf
  obtain ⟨loc, core', cur', f', hf', hE', hN', heq⟩ :=
    hS rest toks nodes core cur f 0 (stops_mono hstop (by omega)) htoks hE hN (by omega)
  obtain ⟨f'', rfl⟩ : ∃ f'', f' = f'' + 1 := ⟨f' - 1, by omega⟩
  obtain ⟨cur'', hl⟩ := pl_stop f'' m loc (nodes ++ compile t) rest core' cur'
    (fun s hs => (hstop s hs).1 m (by omega) h10)
  exact ⟨loc, core', cur'', by rw [heq, hl], hE', hN'⟩

/-- A level that does not handle `t`'s outermost construct passes it to the next level. -/
theorem s_of_p_succ {t : CExpr} {m : Nat} (h1 : 1 ≤ m) (h10 : m ≤ 10) (hp : prec t ≠ m)
    (hP : PStmt E N t (m + 1)) : SStmt E N t m := by
  intro rest toks nodes core cur f g hstop htoks hE hN hf
  have hb := baseFuel_pos t
  have hl : lvl t m = lvl t (m + 1) + 1 := by
    have := prec_le t
    unfold lvl; split <;> split <;> omega
  obtain ⟨f0, rfl⟩ : ∃ f0, f = f0 + 1 := ⟨f - 1, by unfold fuelNeeded at hf; omega⟩
  obtain ⟨loc, core', cur', h, hE', hN'⟩ :=
    hP rest toks nodes core cur f0 hstop (by rw [htoks, render_succ hp]) hE hN
      (by unfold fuelNeeded at hf ⊢; omega)
  exact ⟨loc, core', cur', f0, by unfold fuelNeeded at hf; omega, hE', hN',
    pp_bin f0 m nodes _ h1 h10 h⟩

/-- Level 0 passes everything but a conditional to level 1. -/
theorem p_zero_of_one {t : CExpr} (hp : prec t ≠ 0) (hP : PStmt E N t 1) : PStmt E N t 0 := by
  intro rest toks nodes core cur f hstop htoks hE hN hf
  have hl : lvl t 0 = lvl t 1 + 1 := by
    unfold lvl; split <;> split <;> omega
  obtain ⟨f0, rfl⟩ : ∃ f0, f = f0 + 1 := ⟨f - 1, by unfold fuelNeeded at hf; omega⟩
  obtain ⟨loc, core', cur', h, hE', hN'⟩ :=
    hP rest toks nodes core cur f0 (stops_mono hstop (by omega))
      (by rw [htoks, render_succ hp]) hE hN (by unfold fuelNeeded at hf ⊢; omega)
  obtain ⟨cur'', h'⟩ := pp_zero_stop f0 nodes _ h
    (fun hh => (hstop _ hh).2 rfl rfl)
  exact ⟨loc, core', cur'', h', hE', hN'⟩

/-- A tree that needs parentheses at level `k` is parsed by the parenthesis case of level 11. -/
theorem p_paren {t : CExpr} {k : Nat} (hk : 11 ≤ k) (hp : prec t < k) (hP : PStmt E N t 0) :
    PStmt E N t k := by
  intro rest toks nodes core cur f hstop htoks hE hN hf
  have hpl := prec_le t
  have hl : lvl t k = 12 := by unfold lvl; split <;> omega
  have hl0 : lvl t 0 = prec t := by unfold lvl; split <;> omega
  obtain ⟨f0, rfl⟩ : ∃ f0, f = f0 + 1 := ⟨f - 1, by unfold fuelNeeded at hf; omega⟩
  rw [render_of_lt hp] at htoks
  obtain ⟨lo, r1, rfl, h1⟩ := map_eq_cons htoks
  obtain ⟨mid, last, rfl, hmid, hlast⟩ := map_eq_append h1
  obtain ⟨lc, r2, rfl, h2⟩ := map_eq_cons hlast
  have := map_eq_nil h2; subst this
  have hst : Stops 0 (⟨.sym "ParenClose", lc⟩ :: rest) := by
    intro s hs
    simp [headSym] at hs; subst hs
    exact ⟨fun j _ _ => lookup_parenClose j, fun _ => by decide⟩
  obtain ⟨loc, core', cur', h, hE', hN'⟩ :=
    hP (⟨.sym "ParenClose", lc⟩ :: rest) mid nodes core lo f0 hst hmid hE hN
      (by unfold fuelNeeded at hf ⊢; omega)
  refine ⟨lo, core', lc, ?_, hE', hN'⟩
  have := pp_paren f0 k nodes lo (mid ++ ⟨.sym "ParenClose", lc⟩ :: rest) core cur hk h
  simpa using this

/-- All levels of one tree, from the level that handles its outermost construct. -/
theorem ladder (t : CExpr)
    (hb11 : prec t = 11 → PStmt E N t 11)
    (hbm : ∀ m, 1 ≤ m → m ≤ 10 → prec t = m → SStmt E N t m)
    (hb0 : prec t = 0 → PStmt E N t 0) :
    ∀ n k, lvl t k = n → PStmt E N t k ∧ (1 ≤ k → k ≤ 10 → SStmt E N t k) := by
  have hpl := prec_le t
  intro n
  induction n using Nat.strongRecOn with
  | _ n ih =>
    intro k hk
    by_cases hk0 : k = 0
    · subst hk0
      refine ⟨?_, fun h => by omega⟩
      by_cases hp : prec t = 0
      · exact hb0 hp
      · exact p_zero_of_one hp (ih (lvl t 1) (by rw [← hk]; unfold lvl; split <;> split <;> omega)
          1 rfl).1
    · by_cases hk10 : k ≤ 10
      · have hS : SStmt E N t k := by
          by_cases hp : prec t = k
          · exact hbm k (by omega) hk10 hp
          · exact s_of_p_succ (by omega) hk10 hp
              (ih (lvl t (k + 1)) (by rw [← hk]; unfold lvl; split <;> split <;> omega)
                (k + 1) rfl).1
        exact ⟨p_of_s (by omega) hk10 hS, fun _ _ => hS⟩
      · refine ⟨?_, fun _ h => by omega⟩
        by_cases hp : prec t < k
        · exact p_paren (by omega) hp
            (ih (lvl t 0) (by rw [← hk]; unfold lvl; split <;> split <;> omega) 0 rfl).1
        · have : k = 11 := by omega
          subst this
          exact hb11 (by omega)

/-! ### the constructors -/

theorem p_num (v : Int) (hwf : WF (.num v)) : PStmt E N (.num v) 11 := by
  intro rest toks nodes core cur f _ htoks hE hN hf
  obtain ⟨f0, rfl⟩ : ∃ f0, f = f0 + 1 := ⟨f - 1, by simp [fuelNeeded, baseFuel] at hf; omega⟩
  rw [render_of_le (by simp [prec])] at htoks
  obtain ⟨l, r, rfl, h1⟩ := map_eq_cons htoks
  have := map_eq_nil h1; subst this
  refine ⟨l, core, l, ?_, hE, hN⟩
  have hv : BitVec.ofInt 32 v = i32OfNat v.toNat := by
    have : v = (v.toNat : Int) := (Int.toNat_of_nonneg hwf.1).symm
    rw [i32OfNat]; conv => lhs; rw [this]
    exact BitVec.ofInt_natCast ..
  simp only [List.cons_append, List.nil_append, compile, hv]
  exact pp_num f0 11 nodes _ l rest core cur (by omega)

theorem p_sym (n : String) (hfr : Fresh E (.sym n)) : PStmt E N (.sym n) 11 := by
  intro rest toks nodes core cur f _ htoks hE hN hf
  obtain ⟨f0, rfl⟩ : ∃ f0, f = f0 + 1 := ⟨f - 1, by simp [fuelNeeded, baseFuel] at hf; omega⟩
  rw [render_of_le (by simp [prec])] at htoks
  obtain ⟨l, r, rfl, h1⟩ := map_eq_cons htoks
  have := map_eq_nil h1; subst this
  have hn : labelNode core n = .label n := by
    simp only [Fresh] at hfr
    simp [labelNode, hE, hfr]
  refine ⟨l, core.touch n l, l, ?_, ?_, ?_⟩
  · simp only [List.cons_append, List.nil_append, compile, ← hn]
    exact pp_label f0 11 nodes n l rest core cur (by omega)
  · rw [← hE]; unfold CoreSt.touch; split <;> rfl
  · rw [← hN]; unfold CoreSt.touch; split <;> rfl

theorem p_sizeOf (n : String) : PStmt E N (.sizeOf n) 11 := by
  intro rest toks nodes core cur f _ htoks hE hN hf
  obtain ⟨f0, rfl⟩ : ∃ f0, f = f0 + 1 := ⟨f - 1, by simp [fuelNeeded, baseFuel] at hf; omega⟩
  rw [render_of_le (by simp [prec])] at htoks
  obtain ⟨l, r, rfl, h1⟩ := map_eq_cons htoks
  obtain ⟨l2, r2, rfl, h2⟩ := map_eq_cons h1
  have := map_eq_nil h2; subst this
  refine ⟨l2, core.touch n l2, l2, ?_, ?_, ?_⟩
  · simp only [List.cons_append, List.nil_append, compile]
    exact pp_sizeOf f0 11 nodes n l l2 rest core cur (by omega)
  · rw [← hE]; unfold CoreSt.touch; split <;> rfl
  · rw [← hN]; unfold CoreSt.touch; split <;> rfl

theorem p_un (o : UnOp) (e : CExpr) (hP : PStmt E N e 11) : PStmt E N (.un o e) 11 := by
  intro rest toks nodes core cur f hstop htoks hE hN hf
  obtain ⟨f0, rfl⟩ : ∃ f0, f = f0 + 1 := ⟨f - 1, by simp [fuelNeeded, baseFuel] at hf; omega⟩
  rw [render_of_le (by simp [prec])] at htoks
  obtain ⟨l, r, rfl, h1⟩ := map_eq_cons htoks
  have hle := lvl_le e 11
  obtain ⟨loc, core', cur', h, hE', hN'⟩ :=
    hP rest r nodes core l f0 hstop h1 hE hN
      (by simp [fuelNeeded, baseFuel] at hf ⊢; omega)
  refine ⟨l, core', cur', ?_, hE', hN'⟩
  have := pp_un f0 11 nodes (unSym o) o.node l (r ++ rest) core cur (by omega) (lookup_un o) h
  rw [List.cons_append, this]
  cases hn : o.node <;> simp [compile, hn]

theorem s_bin (o : BinOp) (l r : CExpr) (hS : SStmt E N l (binLevel o))
    (hP : PStmt E N r (binLevel o + 1)) : SStmt E N (.bin o l r) (binLevel o) := by
  intro rest toks nodes core cur f g hstop htoks hE hN hf
  rw [render_of_le (by simp [prec])] at htoks
  simp only [body, List.append_assoc, List.singleton_append] at htoks
  obtain ⟨tl, t2, rfl, htl, h2⟩ := map_eq_append htoks
  obtain ⟨ol, tr, rfl, htr⟩ := map_eq_cons h2
  have hll := lvl_le l (binLevel o)
  have hlr := lvl_le r (binLevel o + 1)
  have hlt : lvl (.bin o l r) (binLevel o) = 0 := by simp [lvl, prec]
  simp only [fuelNeeded, baseFuel, hlt] at hf
  have hst1 : Stops (binLevel o + 1) (⟨.sym (binSym o), ol⟩ :: (tr ++ rest)) := by
    intro s hs
    simp [headSym] at hs; subst hs
    exact ⟨fun j h1 _ => lookup_bin_other o j (by omega), fun h0 => by omega⟩
  obtain ⟨loc, c1, cur1, f1, hf1, hE1, hN1, h1⟩ :=
    hS (⟨.sym (binSym o), ol⟩ :: (tr ++ rest)) tl nodes core cur f
      (fuelNeeded r (binLevel o + 1) + 1 + g) hst1 htl hE hN
      (by unfold fuelNeeded; omega)
  obtain ⟨f2, rfl⟩ : ∃ f2, f1 = f2 + 1 := ⟨f1 - 1, by omega⟩
  obtain ⟨loc2, c2, cur2, h2, hE2, hN2⟩ :=
    hP rest tr (nodes ++ compile l) c1 ol f2 hstop htr hE1 hN1 (by omega)
  refine ⟨loc, c2, cur2, f2, by omega, hE2, hN2, ?_⟩
  have h3 := pl_op f2 (binLevel o) loc (nodes ++ compile l) (binSym o) o.node ol (tr ++ rest)
    c1 cur1 (lookup_bin o) h2
  simp only [List.append_assoc, List.cons_append] at h1 ⊢
  rw [h1, h3]
  simp [compile]

theorem p_tern (c a b : CExpr) (hc : PStmt E N c 1) (ha : PStmt E N a 1) (hb : PStmt E N b 1) :
    PStmt E N (.tern c a b) 0 := by
  intro rest toks nodes core cur f hstop htoks hE hN hf
  rw [render_of_le (by simp [prec])] at htoks
  simp only [body, List.append_assoc, List.singleton_append] at htoks
  obtain ⟨tc, t2, rfl, htc, h2⟩ := map_eq_append htoks
  obtain ⟨ql, t3, rfl, h3⟩ := map_eq_cons h2
  obtain ⟨ta, t4, rfl, hta, h4⟩ := map_eq_append h3
  obtain ⟨cl, tb, rfl, htb⟩ := map_eq_cons h4
  have hlc := lvl_le c 1
  have hla := lvl_le a 1
  have hlb := lvl_le b 1
  have hlt : lvl (.tern c a b) 0 = 0 := by simp [lvl, prec]
  simp only [fuelNeeded, baseFuel, hlt] at hf
  obtain ⟨f0, rfl⟩ : ∃ f0, f = f0 + 1 := ⟨f - 1, by omega⟩
  have hstq : ∀ r', Stops 1 (⟨.sym "Question", ql⟩ :: r') := by
    intro r' s hs
    simp [headSym] at hs; subst hs
    exact ⟨fun j _ _ => lookup_question j, fun h0 => by omega⟩
  have hstc : ∀ r', Stops 1 (⟨.sym "Colon", cl⟩ :: r') := by
    intro r' s hs
    simp [headSym] at hs; subst hs
    exact ⟨fun j _ _ => lookup_colon j, fun h0 => by omega⟩
  obtain ⟨loc, c1, cur1, h1, hE1, hN1⟩ :=
    hc (⟨.sym "Question", ql⟩ :: (ta ++ ⟨.sym "Colon", cl⟩ :: tb ++ rest)) tc nodes core cur f0
      (hstq _) htc hE hN (by unfold fuelNeeded; omega)
  obtain ⟨loc2, c2, cur2, h2, hE2, hN2⟩ :=
    ha (⟨.sym "Colon", cl⟩ :: (tb ++ rest)) ta (nodes ++ compile c) c1 ql f0
      (hstc _) hta hE1 hN1 (by unfold fuelNeeded; omega)
  obtain ⟨loc3, c3, cur3, h3, hE3, hN3⟩ :=
    hb rest tb (nodes ++ compile c ++ compile a) c2 cl f0
      (stops_mono hstop (by omega)) htb hE2 hN2 (by unfold fuelNeeded; omega)
  refine ⟨loc, c3, cur3, ?_, hE3, hN3⟩
  simp only [List.append_assoc, List.cons_append] at h1 h2 h3 ⊢
  have := pp_zero_tern f0 nodes _ h1 h2 h3
  rw [this]
  simp [compile]

/-- Every level, every tree. -/
theorem all_levels (t : CExpr) (hwf : WF t) (hfr : Fresh E t) :
    ∀ k, PStmt E N t k ∧ (1 ≤ k → k ≤ 10 → SStmt E N t k) := by
  induction t with
  | num v =>
    intro k
    exact ladder (.num v) (fun _ => p_num v hwf) (fun m h1 h10 hp => by simp [prec] at hp; omega)
      (fun hp => by simp [prec] at hp) _ k rfl
  | sym n =>
    intro k
    exact ladder (.sym n) (fun _ => p_sym n hfr) (fun m h1 h10 hp => by simp [prec] at hp; omega)
      (fun hp => by simp [prec] at hp) _ k rfl
  | sizeOf n =>
    intro k
    exact ladder (.sizeOf n) (fun _ => p_sizeOf n)
      (fun m h1 h10 hp => by simp [prec] at hp; omega) (fun hp => by simp [prec] at hp) _ k rfl
  | un o e ih =>
    intro k
    exact ladder (.un o e) (fun _ => p_un o e (ih hwf hfr 11).1)
      (fun m h1 h10 hp => by simp [prec] at hp; omega) (fun hp => by simp [prec] at hp) _ k rfl
  | bin o l r ihl ihr =>
    intro k
    have h1 := binLevel_pos o
    have h10 := binLevel_le o
    refine ladder (.bin o l r) (fun hp => by simp [prec] at hp; omega) ?_
      (fun hp => by simp [prec] at hp; omega) _ k rfl
    intro m _ _ hp
    simp only [prec] at hp; subst hp
    exact s_bin o l r ((ihl hwf.1 hfr.1 _).2 h1 h10) (ihr hwf.2 hfr.2 _).1
  | tern c a b ihc iha ihb =>
    intro k
    exact ladder (.tern c a b) (fun hp => by simp [prec] at hp)
      (fun m h1 h10 hp => by simp [prec] at hp; omega)
      (fun _ => p_tern c a b (ihc hwf.1 hfr.1 1).1 (iha hwf.2.1 hfr.2.1 1).1
        (ihb hwf.2.2 hfr.2.2 1).1) _ k rfl

/-! ### the theorems -/

/-- **C04 (parser).**  For every well-formed tree `t` and level `k`: on any token list spelling
the minimally parenthesised rendering `render k t` (arbitrary locations), followed by any `rest`
that does not continue an expression at level `k`, the ladder entered at level `k` consumes
exactly the spelling and appends the postfix code `compile t`; the symbol table and the active
scope are unchanged (only first-reference `hits` are recorded). -/
theorem parse_render (t : CExpr) (hwf : WF t) (k : Nat) (rest : List LTok) (hstop : Stops k rest)
    (toks : List LTok) (htoks : toks.map (·.tok) = render k t)
    (nodes : List Node) (core : CoreSt) (cur : Loc) (hsym : Fresh core.symtab t)
    (fuel : Nat) (hfuel : fuelNeeded t k ≤ fuel) :
    ∃ loc core' cur', parsePrec plainOps fuel k nodes ⟨toks ++ rest, core, cur⟩
        = .ok ((loc, nodes ++ compile t), ⟨rest, core', cur'⟩) ∧
      core'.symtab = core.symtab ∧ core'.ns = core.ns :=
  (all_levels t hwf hsym k).1 rest toks nodes core cur fuel hstop htoks rfl rfl hfuel

/-- Nothing defined implies `Fresh`. -/
theorem fresh_of_empty {E : Env} (h : ∀ n, E.get n = none) (t : CExpr) : Fresh E t := by
  induction t with
  | num v => trivial
  | sym n => exact h n
  | sizeOf n => trivial
  | un o e ih => exact ih
  | bin o l r ihl ihr => exact ⟨ihl, ihr⟩
  | tern c a b ihc iha ihb => exact ⟨ihc, iha, ihb⟩

/-- `parse_render` under the blunter hypothesis that the symbol table defines nothing. -/
theorem parse_render_empty (t : CExpr) (hwf : WF t) (k : Nat) (rest : List LTok)
    (hstop : Stops k rest) (toks : List LTok) (htoks : toks.map (·.tok) = render k t)
    (nodes : List Node) (core : CoreSt) (cur : Loc) (hsym : ∀ n, core.symtab.get n = none)
    (fuel : Nat) (hfuel : 46 * size t ≤ fuel) :
    ∃ loc core' cur', parsePrec plainOps fuel k nodes ⟨toks ++ rest, core, cur⟩
        = .ok ((loc, nodes ++ compile t), ⟨rest, core', cur'⟩) ∧
      core'.symtab = core.symtab ∧ core'.ns = core.ns :=
  parse_render t hwf k rest hstop toks htoks nodes core cur (fresh_of_empty hsym t) fuel
    (Nat.le_trans (fuelNeeded_le t k) hfuel)

/-- The loop invariant of a binary level, for reference (`1 ≤ m ≤ 10`). -/
theorem parse_render_loop (t : CExpr) (hwf : WF t) (m : Nat) (h1 : 1 ≤ m) (h10 : m ≤ 10)
    (rest : List LTok) (hstop : Stops (m + 1) rest)
    (toks : List LTok) (htoks : toks.map (·.tok) = render m t)
    (nodes : List Node) (core : CoreSt) (cur : Loc) (hsym : Fresh core.symtab t)
    (fuel g : Nat) (hfuel : fuelNeeded t m + g ≤ fuel) :
    ∃ loc core' cur' fuel', g + 1 ≤ fuel' ∧ core'.symtab = core.symtab ∧ core'.ns = core.ns ∧
      parsePrec plainOps fuel m nodes ⟨toks ++ rest, core, cur⟩ =
        parseLoop plainOps fuel' m loc (nodes ++ compile t) ⟨rest, core', cur'⟩ :=
  (all_levels t hwf hsym m).2 h1 h10 rest toks nodes core cur fuel g hstop htoks rfl rfl hfuel

/-- Entry point `Assembler::expr`. -/
theorem parseExpr_render (t : CExpr) (hwf : WF t) (rest : List LTok) (hstop : Stops 0 rest)
    (toks : List LTok) (htoks : toks.map (·.tok) = render 0 t)
    (core : CoreSt) (cur : Loc) (hsym : Fresh core.symtab t)
    (fuel : Nat) (hfuel : fuelNeeded t 0 ≤ fuel) :
    ∃ loc core' cur', parseExpr plainOps fuel ⟨toks ++ rest, core, cur⟩
        = .ok ((loc, compile t), ⟨rest, core', cur'⟩) ∧
      core'.symtab = core.symtab ∧ core'.ns = core.ns := by
  have := parse_render t hwf 0 rest hstop toks htoks [] core cur hsym fuel hfuel
  simpa [parseExpr] using this

/-- Text to value: the parsed node list of a rendered tree evaluates to the C value of the tree
(`C04.eval_compile`), or is unsolvable exactly when C04 allows a diagnostic. -/
theorem parseExpr_eval {lazy env vis σ} (H : C04.Agrees lazy env vis σ)
    (t : CExpr) (hwf : WF t) (rest : List LTok) (hstop : Stops 0 rest)
    (toks : List LTok) (htoks : toks.map (·.tok) = render 0 t)
    (core : CoreSt) (cur : Loc) (hsym : Fresh core.symtab t)
    (fuel : Nat) (hfuel : fuelNeeded t 0 ≤ fuel) :
    ∃ loc nodes core' cur', parseExpr plainOps fuel ⟨toks ++ rest, core, cur⟩
        = .ok ((loc, nodes), ⟨rest, core', cur'⟩) ∧
      evalList lazy env vis nodes [] = C04.resOf (denote σ t) := by
  obtain ⟨loc, core', cur', h, _, _⟩ :=
    parseExpr_render t hwf rest hstop toks htoks core cur hsym fuel hfuel
  exact ⟨loc, compile t, core', cur', h, C04.eval_compile H t⟩

/-! ### non-vacuity: concrete trees, their renderings and the parser run on them -/

section Examples

private def n (v : Int) : CExpr := .num v
private def nt (v : Nat) : Tok := .num v
private def sy (s : String) : Tok := .sym s

/-- Run `Assembler::expr` on a token list (all locations default) followed by a newline. -/
private def run (ts : List Tok) : Option (List Node × List Tok) :=
  match parseExpr plainOps 200 ⟨(ts ++ [Tok.newline]).map (⟨·, {}⟩), {}, {}⟩ with
  | .ok ((_, ns), s) => some (ns, s.toks.map (·.tok))
  | .error _ => none

/-- `1 + 2 * 3` -/
private def t1 : CExpr := .bin .add (n 1) (.bin .mul (n 2) (n 3))
/-- `(1 + 2) * 3` -/
private def t2 : CExpr := .bin .mul (.bin .add (n 1) (n 2)) (n 3)
/-- `- (4 - 5) - 6` -/
private def t3 : CExpr := .bin .sub (.un .neg (.bin .sub (n 4) (n 5))) (n 6)
/-- `4 - (5 - 6)`: a right operand of the same level keeps its parentheses -/
private def t4 : CExpr := .bin .sub (n 4) (.bin .sub (n 5) (n 6))
/-- `4 - 5 - 6`: a left operand of the same level needs none -/
private def t5 : CExpr := .bin .sub (.bin .sub (n 4) (n 5)) (n 6)
/-- `1 < 2 ? 3 : 4 | 5` -/
private def t6 : CExpr := .tern (.bin .lt (n 1) (n 2)) (n 3) (.bin .bor (n 4) (n 5))
/-- `(1 ? 2 : 3) ? <x : @sizeof y` -/
private def t7 : CExpr := .tern (.tern (n 1) (n 2) (n 3)) (.un .lo (.sym "x")) (.sizeOf "y")

example : render 0 t1 = [nt 1, sy "Plus", nt 2, sy "Star", nt 3] := by decide
example : render 0 t2 =
    [sy "ParenOpen", nt 1, sy "Plus", nt 2, sy "ParenClose", sy "Star", nt 3] := by decide
example : render 0 t3 =
    [sy "Minus", sy "ParenOpen", nt 4, sy "Minus", nt 5, sy "ParenClose", sy "Minus", nt 6] := by
  decide
example : render 0 t4 =
    [nt 4, sy "Minus", sy "ParenOpen", nt 5, sy "Minus", nt 6, sy "ParenClose"] := by decide
example : render 0 t5 = [nt 4, sy "Minus", nt 5, sy "Minus", nt 6] := by decide
example : render 0 t6 =
    [nt 1, sy "LessThan", nt 2, sy "Question", nt 3, sy "Colon", nt 4, sy "Pipe", nt 5] := by
  decide
example : render 0 t7 =
    [sy "ParenOpen", nt 1, sy "Question", nt 2, sy "Colon", nt 3, sy "ParenClose", sy "Question",
     sy "LessThan", .label .global "x", sy "Colon", .dir "SizeOf", .label .global "y"] := by
  decide

example : run (render 0 t1) = some (compile t1, [.newline]) := by decide +kernel
example : run (render 0 t2) = some (compile t2, [.newline]) := by decide +kernel
example : run (render 0 t3) = some (compile t3, [.newline]) := by decide +kernel
example : run (render 0 t4) = some (compile t4, [.newline]) := by decide +kernel
example : run (render 0 t5) = some (compile t5, [.newline]) := by decide +kernel
example : run (render 0 t6) = some (compile t6, [.newline]) := by decide +kernel
example : run (render 0 t7) = some (compile t7, [.newline]) := by decide +kernel

/-- The parentheses matter: without them `4 - 5 - 6` is the other tree. -/
example : compile t4 ≠ compile t5 := by decide

example : WF t3 ∧ Fresh [] t7 ∧ Stops 0 [⟨.newline, {}⟩] :=
  ⟨by simp [WF, t3, n], by simp [Fresh, t7, n, Env.get], stops_of_not_sym _ _ _ (by simp)⟩

/-- The theorem applied: its hypotheses are satisfiable (fuel 200 ≥ `fuelNeeded t6 0` = 120). -/
example : ∃ loc core' cur',
    parseExpr plainOps 200 ⟨(render 0 t6).map (⟨·, {}⟩) ++ [⟨.newline, {}⟩], {}, {}⟩
      = .ok ((loc, compile t6), ⟨[⟨.newline, {}⟩], core', cur'⟩) ∧
    core'.symtab = [] ∧ core'.ns = none :=
  parseExpr_render t6 (by simp [WF, t6, n]) _ (stops_of_not_sym _ _ _ (by simp)) _
    (by simp [Function.comp_def]) {} {} (by simp [Fresh, t6, n]) 200 (by decide)

end Examples

#print axioms parse_render
#print axioms parse_render_empty
#print axioms parse_render_loop
#print axioms parseExpr_render
#print axioms parseExpr_eval
#print axioms render_eq
#print axioms lookup_bin
#print axioms lookup_un

end Az65.Thm.C04Parse

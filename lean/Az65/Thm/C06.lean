import Az65.Model.Abs
import Az65.Lemmas.AbsFrame
/-
C06 — labels / `@here` = origin + bytes emitted; output = the emitted bytes in order.

"At every point of a program the current address equals the last @org value plus the number of
bytes placed since (instructions, @db items including string bytes, @dw words, @ds space, @align
padding, @incbin contents), every label and @here observe exactly that address, and the output
file is exactly the concatenation of the placed bytes in source order.  Statements inside an ADDR
segment advance the address identically but contribute no bytes to the output."

The image is `CoreSt.data` (oldest byte first).  Section 1 gives, for each effect function of
`Az65.Eff` (shared by the token-level and the statement-level model), exactly which bytes it
appends and how far it moves the address; section 2 lifts this to `Abs.exec`, statement kind by
statement kind; section 3 to `Abs.run`.  Helper lemmas: `Az65/Lemmas/AbsFrame.lean`.
-/
namespace Az65.Thm.C06
open Az65 Az65.Abs Az65.AbsFrame

/-! ## 0. the image as a list -/

theorem data_push (c : CoreSt) (b : Nat) : (c.push b).data = c.data ++ [b] := by
  simp [CoreSt.data, CoreSt.push]

theorem data_pushAll (c : CoreSt) (bs : List Nat) : (c.pushAll bs).data = c.data ++ bs := by
  simp [CoreSt.data, CoreSt.pushAll]

theorem data_addLink (c : CoreSt) (l : Link) : (c.addLink l).data = c.data := rfl

theorem dataLen_eq (c : CoreSt) : c.dataLen = c.data.length := by
  simp [CoreSt.dataLen, CoreSt.data]

/-- the byte an `@db` item places: its value's low byte, or a 0 placeholder when deferred -/
def byteOf : Option I32 → Nat
  | some v => lowByte v
  | none => 0

/-- the two bytes an `@dw` item places: little-endian value, or two 0 placeholders when deferred -/
def wordOf : Option I32 → List Nat
  | some v => [u32 v % 256, u32 v / 256 % 256]
  | none => [0, 0]

/-- the byte an `@ds` fills with: the fill's low byte, or 0 when there is no fill operand or it is
deferred -/
def fillByte : Option (Option I32) → Nat
  | some (some v) => lowByte v
  | _ => 0

/-- `@align` padding from address `h` to a multiple of `a` -/
def padTo (h a : Nat) : Nat := (a - h % a) % a

theorem padTo_aligned (h a : Nat) (ha : 0 < a) : (h + padTo h a) % a = 0 := by
  unfold padTo
  have hr : h % a < a := Nat.mod_lt _ ha
  by_cases h0 : h % a = 0
  · rw [h0, Nat.sub_zero, Nat.mod_self, Nat.add_zero]; exact h0
  · have h1 : (a - h % a) % a = a - h % a := Nat.mod_eq_of_lt (by omega)
    rw [h1]
    have hd := Nat.div_add_mod h a
    have h2 : h + (a - h % a) = a * (h / a) + a := by omega
    rw [h2, Nat.add_mod_right, Nat.mul_mod_right]

theorem padTo_lt (h a : Nat) (ha : 0 < a) : padTo h a < a := Nat.mod_lt _ ha

theorem two_le_u32 {al : I32} (h : ¬ al.toInt < 2) : 2 ≤ u32 al := by
  unfold u32
  rw [BitVec.toInt_eq_toNat_cond] at h
  have := al.isLt
  split at h <;> omega

/-! ## 1. what each effect appends and how far it moves the address -/

theorem eff_label_acct {c c' : CoreSt} {d : String} {loc : Loc} (h : Eff.label c d loc = .ok c') :
    c'.data = c.data ∧ c'.here = c.here := by
  unfold Eff.label at h
  split at h
  · cases h
  · cases h; exact ⟨rfl, rfl⟩

theorem eff_org_acct {c c' : CoreSt} {v : Option I32} {loc : Loc} (h : Eff.org c v loc = .ok c') :
    ∃ x, v = some x ∧ u32 x ≤ 65535 ∧ c'.here = u32 x ∧ c'.data = c.data := by
  unfold Eff.org at h
  split at h
  · cases h
  · next x =>
    split at h
    · cases h
    · next hx => cases h; exact ⟨x, rfl, by omega, rfl, rfl⟩

theorem eff_dbStr_acct {c c' : CoreSt} {bytes : List Nat} {loc : Loc}
    (h : Eff.dbStr c bytes loc = .ok c') :
    c'.data = c.data ++ bytes ∧ c'.here = c.here + bytes.length := by
  unfold Eff.dbStr at h
  split at h
  · cases h
  · cases h; exact ⟨data_pushAll c bytes, rfl⟩

theorem eff_dbVal_acct {c c' : CoreSt} {v : Option I32} {ns : List Node} {loc : Loc}
    (h : Eff.dbVal c v ns loc = .ok c') :
    c'.data = c.data ++ [byteOf v] ∧ c'.here = c.here + 1 := by
  cases v with
  | some v =>
    simp only [Eff.dbVal] at h
    split at h
    · cases h
    · split at h
      · cases h
      · cases h; exact ⟨data_push c _, rfl⟩
  | none =>
    simp only [Eff.dbVal] at h
    split at h
    · cases h
    · cases h; exact ⟨data_push _ 0, rfl⟩

theorem eff_dwVal_acct {c c' : CoreSt} {v : Option I32} {ns : List Node} {loc : Loc}
    (h : Eff.dwVal c v ns loc = .ok c') :
    c'.data = c.data ++ wordOf v ∧ c'.here = c.here + 2 := by
  cases v with
  | some v =>
    simp only [Eff.dwVal] at h
    split at h
    · cases h
    · split at h
      · cases h
      · cases h
        refine ⟨?_, rfl⟩
        show ((c.push _).push _).data = _
        rw [data_push, data_push, List.append_assoc]; rfl
  | none =>
    simp only [Eff.dwVal] at h
    split at h
    · cases h
    · cases h
      refine ⟨?_, rfl⟩
      show ((CoreSt.push _ 0).push 0).data = _
      rw [data_push, data_push, List.append_assoc]; rfl

theorem eff_skip_acct {c c' : CoreSt} {n : Nat} {loc : Loc} (h : Eff.skip c n loc = .ok c') :
    c'.data = c.data ∧ c'.here = c.here + n := by
  unfold Eff.skip at h
  split at h
  · cases h
  · cases h; exact ⟨rfl, rfl⟩

theorem eff_dsSize_acct {c c' : CoreSt} {v : Option I32} {n : Nat} {loc : Loc}
    (h : Eff.dsSize c v loc = .ok (c', n)) :
    ∃ sz, v = some sz ∧ n = u32 sz ∧ n ≤ 65535 ∧ c'.data = c.data ∧ c'.here = c.here + n ∧
      c'.symtab = c.symtab := by
  unfold Eff.dsSize at h
  split at h
  · cases h
  · next sz =>
    split at h
    · cases h
    · split at h
      · cases h
      · cases h; exact ⟨sz, rfl, rfl, by omega, rfl, rfl, rfl⟩

theorem eff_dsFill_acct {c c' : CoreSt} {n : Nat} {fill : Option (Option I32)} {ns : List Node}
    {loc : Loc} (h : Eff.dsFill c n fill ns loc = .ok c') :
    c'.data = c.data ++ List.replicate n (fillByte fill) ∧ c'.here = c.here := by
  unfold Eff.dsFill at h
  split at h
  · cases h; exact ⟨data_pushAll c _, rfl⟩
  · split at h
    · cases h
    · cases h; exact ⟨data_pushAll c _, rfl⟩
  · cases h; exact ⟨data_pushAll _ _, rfl⟩

theorem eff_align_acct {c c' : CoreSt} {code : Bool} {v : Option I32} {loc : Loc}
    (h : Eff.align c code v loc = .ok c') :
    ∃ al, v = some al ∧ 2 ≤ u32 al ∧ c'.here = c.here + padTo c.here (u32 al) ∧
      c'.here % u32 al = 0 ∧
      c'.data = c.data ++ (if code then List.replicate (padTo c.here (u32 al)) 0 else []) := by
  unfold Eff.align at h
  split at h
  · cases h
  · next al =>
    split at h
    · cases h
    · next hal =>
      have h2 := two_le_u32 hal
      simp only at h
      split at h
      · cases h
      · split at h
        · cases h
        · split at h
          · next hc =>
            cases h
            refine ⟨al, rfl, h2, rfl, padTo_aligned _ _ (by omega), ?_⟩
            rw [if_pos hc]; exact data_pushAll c _
          · next hc =>
            cases h
            refine ⟨al, rfl, h2, rfl, padTo_aligned _ _ (by omega), ?_⟩
            rw [if_neg hc, List.append_nil]; rfl

theorem eff_incbin_acct {c c' : CoreSt} {loc : Loc} {bytes : List Nat}
    (h : Eff.incbin c loc bytes = .ok c') :
    c'.data = c.data ++ bytes ∧ c'.here = c.here + bytes.length := by
  induction bytes generalizing c with
  | nil => simp only [Eff.incbin] at h; cases h; simp
  | cons b r ih =>
    simp only [Eff.incbin] at h
    split at h
    · cases h
    · obtain ⟨hd, hh⟩ := ih (c := { c.push b with here := c.here + 1 }) h
      refine ⟨?_, ?_⟩
      · rw [hd]; show (c.push b).data ++ r = _; rw [data_push, List.append_assoc]; rfl
      · rw [hh]; show c.here + 1 + r.length = c.here + (r.length + 1); omega

theorem eff_instrTail_acct {c c' : CoreSt} {oldLen : Nat} {loc : Loc}
    (h : Eff.instrTail c oldLen loc = .ok c') :
    c'.data = c.data ∧ c'.here = c.here + (c.dataLen - oldLen) := by
  unfold Eff.instrTail at h
  simp only at h
  split at h
  · cases h
  · cases h; exact ⟨rfl, rfl⟩

theorem eff_assert_acct {c c' : CoreSt} {v : Option I32} {ns : List Node} {msg : Option String}
    {loc : Loc} (h : Eff.assert c v ns msg loc = .ok c') : c'.data = c.data ∧ c'.here = c.here := by
  unfold Eff.assert at h
  split at h
  · split at h
    · cases h
    · cases h; exact ⟨rfl, rfl⟩
  · cases h; exact ⟨rfl, rfl⟩

theorem eff_define_acct {c c' : CoreSt} {keep : Bool} {d : String} {ns : List Node} {loc : Loc}
    (h : Eff.define c keep d ns loc = .ok c') : c'.data = c.data ∧ c'.here = c.here := by
  unfold Eff.define at h
  split at h
  · cases h
  · split at h
    · cases h; exact ⟨rfl, rfl⟩
    · cases h; exact ⟨rfl, rfl⟩

theorem eff_redefine_acct (c : CoreSt) (keep : Bool) (d : String) (ns : List Node) :
    (Eff.redefine c keep d ns).data = c.data ∧ (Eff.redefine c keep d ns).here = c.here := by
  unfold Eff.redefine; split <;> exact ⟨rfl, rfl⟩

/-- the number of bytes an instruction field occupies -/
def pieceSize : Piece → Nat
  | .lit _ => 1
  | .byte _ => 1
  | .word _ => 2
  | .rel _ => 1

/-- One instruction field appends exactly its size in bytes (a placeholder of the same size when
the operand is deferred) and does not move the address. -/
theorem piece_acct {c c' : CoreSt} {p : Piece} (h : piece c p = .ok c') :
    (∃ bs, bs.length = pieceSize p ∧ c'.data = c.data ++ bs) ∧ c'.here = c.here := by
  refine ⟨?_, piece_inv frame_here h⟩
  cases p with
  | lit b => simp only [piece] at h; cases h; exact ⟨[b], rfl, data_push c b⟩
  | byte e =>
    simp only [piece] at h
    have hd := resolve_data c e
    generalize resolve c e = r at h hd
    obtain ⟨c1, e1⟩ := r
    simp only at h hd
    rw [← hd]
    split at h
    · cases h
    · split at h
      · cases h
      · cases h; exact ⟨[_], rfl, data_push c1 _⟩
    · cases h; exact ⟨[0], rfl, data_push _ 0⟩
  | word e =>
    simp only [piece] at h
    have hd := resolve_data c e
    generalize resolve c e = r at h hd
    obtain ⟨c1, e1⟩ := r
    simp only at h hd
    rw [← hd]
    split at h
    · cases h
    · split at h
      · cases h
      · cases h
        exact ⟨[_, _], rfl, by rw [data_push, data_push, List.append_assoc]; rfl⟩
    · cases h
      exact ⟨[0, 0], rfl, by rw [data_push, data_push, List.append_assoc]; rfl⟩
  | rel e =>
    simp only [piece] at h
    have hd := resolve_data c e
    generalize resolve c e = r at h hd
    obtain ⟨c1, e1⟩ := r
    simp only at h hd
    rw [← hd]
    split at h
    · cases h
    · split at h
      · cases h
      · cases h; exact ⟨[_], rfl, data_push c1 _⟩
    · cases h; exact ⟨[0], rfl, data_push _ 0⟩

/-- The fields of an instruction are appended in order; their total size is the sum of the field
sizes. -/
theorem pieces_acct {c c' : CoreSt} {ps : List Piece} (h : pieces c ps = .ok c') :
    (∃ bs, bs.length = (ps.map pieceSize).sum ∧ c'.data = c.data ++ bs) ∧ c'.here = c.here := by
  refine ⟨?_, pieces_inv frame_here h⟩
  induction ps generalizing c with
  | nil => simp only [pieces] at h; cases h; exact ⟨[], rfl, by simp⟩
  | cons p r ih =>
    obtain ⟨c1, hp, hr⟩ := pieces_cons h
    obtain ⟨⟨b1, hl1, hd1⟩, _⟩ := piece_acct hp
    obtain ⟨b2, hl2, hd2⟩ := ih hr
    refine ⟨b1 ++ b2, ?_, ?_⟩
    · simp only [List.length_append, List.map_cons, List.sum_cons, hl1, hl2]
    · rw [hd2, hd1, List.append_assoc]

/-- Struct members place nothing and do not move the address. -/
theorem members_acct {sname : String} {c c' : CoreSt} {size size' : I32} {ms : List Member}
    (h : members sname c size ms = .ok (c', size')) : c'.data = c.data ∧ c'.here = c.here :=
  ⟨members_inv (f := (·.data)) (fun _ _ => rfl) (fun _ _ => rfl) h,
   members_inv (f := (·.here)) (fun _ _ => rfl) (fun _ _ => rfl) h⟩

/-! ## 2. one statement -/

/-- `@db "…"` in a CODE segment: exactly the string's bytes, the address moves by their number. -/
theorem dbStr_size {s s' : State} {bytes : List Nat} (hc : s.code = true)
    (h : exec s (.dbStr bytes) = .ok s') :
    s'.core.data = s.core.data ++ bytes ∧ s'.core.here = s.core.here + bytes.length := by
  rcases exec_dbStr h with ⟨_, c', he, rfl⟩ | ⟨hf, _⟩
  · exact eff_dbStr_acct he
  · rw [hc] at hf; cases hf

/-- In an ADDR segment `@db` takes no operands and reserves one byte (the statement-level model
writes this as a `dbStr`/`dbVal` statement in an ADDR segment): the address moves by 1, nothing is
placed. -/
theorem dbStr_addr {s s' : State} {bytes : List Nat} (hc : s.code = false)
    (h : exec s (.dbStr bytes) = .ok s') :
    s'.core.data = s.core.data ∧ s'.core.here = s.core.here + 1 := by
  rcases exec_dbStr h with ⟨ht, _⟩ | ⟨_, c', he, rfl⟩
  · rw [hc] at ht; cases ht
  · exact eff_skip_acct he

/-- One `@db` expression item: one byte (value known now: its low byte; deferred: a placeholder),
the address moves by 1 — in both segment kinds; in an ADDR segment no byte is placed. -/
theorem dbVal_size {s s' : State} {e : List Node} (h : exec s (.dbVal e) = .ok s') :
    s'.core.here = s.core.here + 1 ∧
    (s.code = true → ∃ v, ev (resolve s.core e).1 (resolve s.core e).2 = .ok v ∧
        s'.core.data = s.core.data ++ [byteOf v]) ∧
    (s.code = false → s'.core.data = s.core.data) := by
  rcases exec_dbVal h with ⟨hc, v, c', hv, he, rfl⟩ | ⟨hc, c', he, rfl⟩
  · obtain ⟨hd, hh⟩ := eff_dbVal_acct he
    rw [resolve_here] at hh; rw [resolve_data] at hd
    exact ⟨hh, fun _ => ⟨v, hv, hd⟩, fun hf => (by rw [hc] at hf; cases hf)⟩
  · obtain ⟨hd, hh⟩ := eff_skip_acct he
    exact ⟨hh, fun ht => (by rw [hc] at ht; cases ht), fun _ => hd⟩

/-- One `@dw` item: two bytes, little-endian (deferred: two placeholders), the address moves by 2
— in both segment kinds; in an ADDR segment no byte is placed. -/
theorem dwVal_size {s s' : State} {e : List Node} (h : exec s (.dwVal e) = .ok s') :
    s'.core.here = s.core.here + 2 ∧
    (s.code = true → ∃ v, ev (resolve s.core e).1 (resolve s.core e).2 = .ok v ∧
        s'.core.data = s.core.data ++ wordOf v) ∧
    (s.code = false → s'.core.data = s.core.data) := by
  rcases exec_dwVal h with ⟨hc, v, c', hv, he, rfl⟩ | ⟨hc, c', he, rfl⟩
  · obtain ⟨hd, hh⟩ := eff_dwVal_acct he
    rw [resolve_here] at hh; rw [resolve_data] at hd
    exact ⟨hh, fun _ => ⟨v, hv, hd⟩, fun hf => (by rw [hc] at hf; cases hf)⟩
  · obtain ⟨hd, hh⟩ := eff_skip_acct he
    exact ⟨hh, fun ht => (by rw [hc] at ht; cases ht), fun _ => hd⟩

/-- `@ds size[, fill]`: the size operand `v` is solved now and at most $FFFF; the address moves by
`u32 v` in both segment kinds; in a CODE segment exactly `u32 v` equal bytes `b` are placed, in an
ADDR segment none.  `b` is 0 without a fill operand; with one, it is the low byte of the fill's
value, or 0 when the fill is deferred — the fill being read after the address has moved. -/
theorem ds_size {s s' : State} {size : List Node} {fill : Option (List Node)}
    (h : exec s (.ds size fill) = .ok s') :
    ∃ v b, ev (resolve s.core size).1 (resolve s.core size).2 = .ok (some v) ∧ u32 v ≤ 65535 ∧
      s'.core.here = s.core.here + u32 v ∧
      (s.code = true → s'.core.data = s.core.data ++ List.replicate (u32 v) b) ∧
      (s.code = false → s'.core.data = s.core.data) ∧
      (fill = none → b = 0) ∧
      (s.code = true → ∀ fe, fill = some fe → ∃ c1 fv, c1.here = s.core.here + u32 v ∧
          c1.symtab = s.core.symtab ∧ ev (resolve c1 fe).1 (resolve c1 fe).2 = .ok fv ∧
          b = fillByte (some fv)) := by
  obtain ⟨ov, c1, n, hv, hsz, hrest⟩ := exec_ds h
  obtain ⟨v, rfl, rfl, hle, hd1, hh1, hs1⟩ := eff_dsSize_acct hsz
  rw [resolve_data] at hd1; rw [resolve_here] at hh1; rw [resolve_symtab] at hs1
  rcases hrest with ⟨hc, rfl⟩ | ⟨hc, rfl, c', he, rfl⟩ | ⟨hc, fe, fv, c', rfl, hfv, he, rfl⟩
  · refine ⟨v, 0, hv, hle, hh1, fun ht => (by rw [hc] at ht; cases ht), fun _ => hd1, fun _ => rfl,
      fun ht => (by rw [hc] at ht; cases ht)⟩
  · obtain ⟨hd, hh⟩ := eff_dsFill_acct he
    refine ⟨v, 0, hv, hle, hh.trans hh1, fun _ => (by rw [hd, hd1]; rfl),
      fun hf => (by rw [hc] at hf; cases hf), fun _ => rfl, fun _ fe hfe => (by cases hfe)⟩
  · obtain ⟨hd, hh⟩ := eff_dsFill_acct he
    rw [resolve_data] at hd; rw [resolve_here] at hh
    refine ⟨v, fillByte (some fv), hv, hle, hh.trans hh1, fun _ => (by rw [hd, hd1]),
      fun hf => (by rw [hc] at hf; cases hf), fun hn => (by cases hn), fun _ fe' hfe => ?_⟩
    cases hfe
    exact ⟨c1, fv, hh1, hs1, hfv, rfl⟩

/-- `@align a`: `a` is solved now and at least 2; the address moves by the padding
`(a - here % a) % a` in both segment kinds and is afterwards a multiple of `a`; in a CODE segment
exactly that many zero bytes are placed, in an ADDR segment none. -/
theorem align_size {s s' : State} {e : List Node} (h : exec s (.align e) = .ok s') :
    ∃ al, ev (resolve s.core e).1 (resolve s.core e).2 = .ok (some al) ∧ 2 ≤ u32 al ∧
      s'.core.here = s.core.here + (u32 al - s.core.here % u32 al) % u32 al ∧
      s'.core.here % u32 al = 0 ∧
      (s.code = true → s'.core.data = s.core.data ++
          List.replicate ((u32 al - s.core.here % u32 al) % u32 al) 0) ∧
      (s.code = false → s'.core.data = s.core.data) := by
  obtain ⟨ov, c', hv, he, rfl⟩ := exec_align h
  obtain ⟨al, rfl, h2, hh, hm, hd⟩ := eff_align_acct he
  rw [resolve_here] at hh; rw [resolve_here, resolve_data] at hd
  refine ⟨al, hv, h2, hh, hm, fun ht => ?_, fun hf => ?_⟩
  · rw [hd, ht]; rfl
  · rw [hd, hf]; simp

/-- `@incbin`: exactly the file's bytes, in order; the address moves by the file's length. -/
theorem incbin_size {s s' : State} {bytes : List Nat} (h : exec s (.incbin bytes) = .ok s') :
    s.code = true ∧ s'.core.data = s.core.data ++ bytes ∧
      s'.core.here = s.core.here + bytes.length := by
  obtain ⟨hc, c', he, rfl⟩ := exec_incbin h
  exact ⟨hc, eff_incbin_acct he⟩

/-- An instruction: its fields' bytes in order (`Σ pieceSize` of them), and the address moves by
exactly the number of bytes the image grew by. -/
theorem instr_size {s s' : State} {ps : List Piece} (h : exec s (.instr ps) = .ok s') :
    s.code = true ∧
    ∃ bs, bs.length = (ps.map pieceSize).sum ∧ s'.core.data = s.core.data ++ bs ∧
      s'.core.here = s.core.here + bs.length ∧
      s'.core.here = s.core.here + (s'.core.dataLen - s.core.dataLen) := by
  obtain ⟨hc, c1, c', hp, he, rfl⟩ := exec_instr h
  obtain ⟨⟨bs, hl, hd⟩, hh⟩ := pieces_acct hp
  obtain ⟨hd', hh'⟩ := eff_instrTail_acct he
  have hlen : c1.dataLen - s.core.dataLen = bs.length := by
    rw [dataLen_eq, dataLen_eq, hd, List.length_append]; omega
  refine ⟨hc, bs, hl, hd'.trans hd, ?_, ?_⟩
  · show c'.here = _; rw [hh', hh, hlen]
  · show c'.here = s.core.here + (c'.dataLen - s.core.dataLen)
    rw [hh', hh, dataLen_eq c', hd', ← dataLen_eq c1]

/-- `@org e`: `e` is solved now, at most $FFFF, and becomes the address; nothing is placed. -/
theorem org_sets_here {s s' : State} {e : List Node} (h : exec s (.org e) = .ok s') :
    ∃ v, ev (resolve s.core e).1 (resolve s.core e).2 = .ok (some v) ∧ u32 v ≤ 65535 ∧
      s'.core.here = u32 v ∧ s'.core.data = s.core.data ∧ s'.code = s.code := by
  obtain ⟨ov, c', hv, he, rfl⟩ := exec_org h
  obtain ⟨v, rfl, hle, hh, hd⟩ := eff_org_acct he
  rw [resolve_data] at hd
  exact ⟨v, hv, hle, hh, hd, rfl⟩

/-- A label is entered into the table as the plain value of the current address (with the
metadata in force); the address and the image are unchanged. -/
theorem label_sees_here {s s' : State} {d : String} (h : exec s (.label d) = .ok s') :
    s'.core.symtab.get d = some ⟨.val (i32OfNat s.core.here), s.core.curMeta⟩ ∧
      s'.core.here = s.core.here ∧ s'.core.data = s.core.data := by
  obtain ⟨c', he, rfl⟩ := exec_label h
  obtain ⟨hd, hh⟩ := eff_label_acct he
  refine ⟨?_, hh, hd⟩
  unfold Eff.label at he
  split at he
  · cases he
  · cases he; exact get_set_self _ _ _

/-- `@here` in an expression is replaced, while the expression is read, by the current address
— at every position of the expression. -/
theorem here_directive (c : CoreSt) (e : List Node) (i : Nat)
    (h : e[i]? = some (.label "@here")) : (resolve c e).2[i]? = some (.val (i32OfNat c.here)) := by
  induction e generalizing c i with
  | nil => simp at h
  | cons x r ih =>
    cases i with
    | zero =>
      simp only [List.getElem?_cons_zero, Option.some.injEq] at h
      subst h
      simp [resolve]
    | succ j =>
      simp only [List.getElem?_cons_succ] at h
      have hh : ∀ n loc, (c.touch n loc).here = c.here :=
        fun n loc => touch_inv (·.here) (fun _ _ => rfl) c n loc
      cases x <;> simp only [resolve]
      all_goals first
        | (simp only [List.getElem?_cons_succ]; exact ih c j h)
        | (simp only [List.getElem?_cons_succ]; rw [← hh]; exact ih _ j h)
        | (split
           · simp only [List.getElem?_cons_succ]; exact ih c j h
           · simp only [List.getElem?_cons_succ]; rw [← hh]; exact ih _ j h)

/-- … and the head case as an equation. -/
theorem here_directive_head (c : CoreSt) (r : List Node) :
    (resolve c (.label "@here" :: r)).2 = .val (i32OfNat c.here) :: (resolve c r).2 := by
  simp [resolve]

/-- No `@here` survives the reading of an expression. -/
theorem here_directive_gone (c : CoreSt) (e : List Node) :
    Node.label "@here" ∉ (resolve c e).2 := by
  induction e generalizing c with
  | nil => simp [resolve]
  | cons x r ih =>
    have hl : ∀ n, n ≠ "@here" → labelNode c n ≠ .label "@here" := by
      intro n hn
      unfold labelNode
      repeat' split
      all_goals simp [hn]
    cases x <;> simp only [resolve]
    all_goals first
      | (simp only [List.mem_cons, not_or]; exact ⟨by simp, ih _⟩)
      | (split
         · simp only [List.mem_cons, not_or]; exact ⟨by simp, ih _⟩
         · next hn => simp only [List.mem_cons, not_or]; exact ⟨fun he => hl _ hn he.symm, ih _⟩)

/-- The statements that place nothing and do not move the address. -/
theorem quiet_stmts {s s' : State} {st : Stmt} (h : exec s st = .ok s')
    (hq : match st with
      | .label _ | .assert _ | .define .. | .redefine .. | .undef _ | .segment _ | .struct .. => True
      | _ => False) :
    s'.core.data = s.core.data ∧ s'.core.here = s.core.here := by
  cases st <;> simp only at hq
  case label d => exact ⟨(label_sees_here h).2.2, (label_sees_here h).2.1⟩
  case assert e =>
    obtain ⟨v, c', _, he, rfl⟩ := exec_assert h
    obtain ⟨hd, hh⟩ := eff_assert_acct he
    rw [resolve_data] at hd; rw [resolve_here] at hh
    exact ⟨hd, hh⟩
  case define keep d e =>
    obtain ⟨_, c', he, rfl⟩ := exec_define h
    obtain ⟨hd, hh⟩ := eff_define_acct he
    rw [resolve_data] at hd; rw [resolve_here] at hh
    exact ⟨hd, hh⟩
  case redefine keep d e =>
    rw [exec_redefine h]
    obtain ⟨hd, hh⟩ := eff_redefine_acct (resolve s.core e).1 keep d (resolve s.core e).2
    rw [resolve_data] at hd; rw [resolve_here] at hh
    exact ⟨hd, hh⟩
  case undef d => rw [exec_undef h]; exact ⟨rfl, rfl⟩
  case segment code => rw [exec_segment h]; exact ⟨rfl, rfl⟩
  case struct name ms =>
    obtain ⟨_, c, size, hm, rfl⟩ := exec_struct h
    have hm' := members_acct hm
    exact ⟨hm'.1, hm'.2⟩

/-- **C06 (one statement, summary).** Every accepted statement only appends to the image — some
byte list `bs`, nothing already placed changes —, appends nothing in an ADDR segment, and, unless
it is an `@org`, in a CODE segment moves the address by exactly `bs.length`. -/
theorem exec_acct {s s' : State} {st : Stmt} (h : exec s st = .ok s') :
    ∃ bs, s'.core.data = s.core.data ++ bs ∧ (s.code = false → bs = []) ∧
      ((∀ e, st ≠ .org e) → s.code = true → s'.core.here = s.core.here + bs.length) := by
  have quiet : s'.core.data = s.core.data ∧ s'.core.here = s.core.here →
      ∃ bs, s'.core.data = s.core.data ++ bs ∧ (s.code = false → bs = []) ∧
        ((∀ e, st ≠ .org e) → s.code = true → s'.core.here = s.core.here + bs.length) :=
    fun ⟨hd, hh⟩ => ⟨[], by rw [hd, List.append_nil], fun _ => rfl, fun _ _ => by rw [hh]; rfl⟩
  cases st with
  | label d => exact quiet (quiet_stmts h trivial)
  | assert e => exact quiet (quiet_stmts h trivial)
  | define keep d e => exact quiet (quiet_stmts h trivial)
  | redefine keep d e => exact quiet (quiet_stmts h trivial)
  | undef d => exact quiet (quiet_stmts h trivial)
  | segment code => exact quiet (quiet_stmts h trivial)
  | struct name ms => exact quiet (quiet_stmts h trivial)
  | org e =>
    obtain ⟨v, _, _, _, hd, _⟩ := org_sets_here h
    exact ⟨[], by rw [hd, List.append_nil], fun _ => rfl, fun hne _ => absurd rfl (hne e)⟩
  | dbStr bytes =>
    rcases exec_dbStr h with ⟨hc, c', he, rfl⟩ | ⟨hc, c', he, rfl⟩
    · obtain ⟨hd, hh⟩ := eff_dbStr_acct he
      exact ⟨bytes, hd, fun hf => (by rw [hc] at hf; cases hf), fun _ _ => hh⟩
    · obtain ⟨hd, hh⟩ := eff_skip_acct he
      exact ⟨[], (by rw [List.append_nil]; exact hd), fun _ => rfl,
        fun _ ht => (by rw [hc] at ht; cases ht)⟩
  | dbVal e =>
    obtain ⟨hh, ht, hf⟩ := dbVal_size h
    cases hc : s.code with
    | true =>
      obtain ⟨v, _, hd⟩ := ht hc
      exact ⟨[byteOf v], hd, fun hf => (by cases hf), fun _ _ => hh⟩
    | false =>
      exact ⟨[], (by rw [hf hc, List.append_nil]), fun _ => rfl, fun _ ht => (by cases ht)⟩
  | dwVal e =>
    obtain ⟨hh, ht, hf⟩ := dwVal_size h
    cases hc : s.code with
    | true =>
      obtain ⟨v, _, hd⟩ := ht hc
      refine ⟨wordOf v, hd, fun hf => (by cases hf), fun _ _ => ?_⟩
      rw [hh]; cases v <;> rfl
    | false =>
      exact ⟨[], (by rw [hf hc, List.append_nil]), fun _ => rfl, fun _ ht => (by cases ht)⟩
  | ds size fill =>
    obtain ⟨v, b, _, _, hh, ht, hf, _, _⟩ := ds_size h
    cases hc : s.code with
    | true =>
      exact ⟨List.replicate (u32 v) b, ht hc, fun hf => (by cases hf),
        fun _ _ => (by rw [hh, List.length_replicate])⟩
    | false =>
      exact ⟨[], (by rw [hf hc, List.append_nil]), fun _ => rfl, fun _ ht => (by cases ht)⟩
  | align e =>
    obtain ⟨al, _, _, hh, _, ht, hf⟩ := align_size h
    cases hc : s.code with
    | true =>
      exact ⟨_, ht hc, fun hf => (by cases hf), fun _ _ => (by rw [hh, List.length_replicate])⟩
    | false =>
      exact ⟨[], (by rw [hf hc, List.append_nil]), fun _ => rfl, fun _ ht => (by cases ht)⟩
  | incbin bytes =>
    obtain ⟨hc, hd, hh⟩ := incbin_size h
    exact ⟨bytes, hd, fun hf => (by rw [hc] at hf; cases hf), fun _ _ => hh⟩
  | instr ps =>
    obtain ⟨hc, bs, _, hd, hh, _⟩ := instr_size h
    exact ⟨bs, hd, fun hf => (by rw [hc] at hf; cases hf), fun _ _ => hh⟩

/-- **C06 (the image only grows at its end).** A statement never changes a byte that is already
placed: the image afterwards is the image before followed by the statement's bytes. -/
theorem exec_data_append {s s' : State} {st : Stmt} (h : exec s st = .ok s') :
    ∃ bs, s'.core.data = s.core.data ++ bs := by
  obtain ⟨bs, hd, _⟩ := exec_acct h
  exact ⟨bs, hd⟩

/-- **C06 (address = bytes placed).** In a CODE segment every statement other than `@org` moves the
address by exactly the number of bytes by which the image grew. -/
theorem exec_here_data {s s' : State} {st : Stmt} (hc : s.code = true) (hno : ∀ e, st ≠ .org e)
    (h : exec s st = .ok s') :
    s'.core.here = s.core.here + (s'.core.dataLen - s.core.dataLen) := by
  obtain ⟨bs, hd, _, hh⟩ := exec_acct h
  rw [hh hno hc, dataLen_eq, dataLen_eq, hd, List.length_append]
  omega

/-- **C06 (ADDR segments place nothing).** In an ADDR segment every accepted statement leaves the
image exactly as it was … -/
theorem addr_segment_no_bytes {s s' : State} {st : Stmt} (hc : s.code = false)
    (h : exec s st = .ok s') : s'.core.data = s.core.data := by
  obtain ⟨bs, hd, hnil, _⟩ := exec_acct h
  rw [hd, hnil hc, List.append_nil]

/-- … `@incbin` and instructions are not accepted there at all … -/
theorem addr_segment_rejects_incbin {s : State} {bytes : List Nat} (hc : s.code = false) :
    exec s (.incbin bytes) = .error ⟨.unexpected, {}⟩ := by
  simp [exec, hc]

theorem addr_segment_rejects_instr {s : State} {ps : List Piece} (hc : s.code = false) :
    exec s (.instr ps) = .error ⟨.unexpected, {}⟩ := by
  simp [exec, hc]

/-- … and `@db` value items, `@dw`, `@ds`, `@align` move the address by the same amount as they
do in a CODE segment: 1, 2, the size, the padding. -/
theorem addr_segment_same_advance {s s' : State} :
    (∀ e, exec s (.dbVal e) = .ok s' → s'.core.here = s.core.here + 1) ∧
    (∀ e, exec s (.dwVal e) = .ok s' → s'.core.here = s.core.here + 2) ∧
    (∀ size fill, exec s (.ds size fill) = .ok s' →
        ∃ v, ev (resolve s.core size).1 (resolve s.core size).2 = .ok (some v) ∧
          s'.core.here = s.core.here + u32 v) ∧
    (∀ e, exec s (.align e) = .ok s' →
        ∃ al, ev (resolve s.core e).1 (resolve s.core e).2 = .ok (some al) ∧
          s'.core.here = s.core.here + (u32 al - s.core.here % u32 al) % u32 al) := by
  refine ⟨fun e h => (dbVal_size h).1, fun e h => (dwVal_size h).1, fun size fill h => ?_,
    fun e h => ?_⟩
  · obtain ⟨v, _, hv, _, hh, _⟩ := ds_size h
    exact ⟨v, hv, hh⟩
  · obtain ⟨al, hv, _, hh, _⟩ := align_size h
    exact ⟨al, hv, hh⟩

/-- Only `@segment` statements change the segment kind. -/
theorem exec_code {s s' : State} {st : Stmt} (hns : ∀ b, st ≠ .segment b)
    (h : exec s st = .ok s') : s'.code = s.code := by
  cases st with
  | label d => obtain ⟨_, _, rfl⟩ := exec_label h; rfl
  | org e => obtain ⟨_, _, _, _, rfl⟩ := exec_org h; rfl
  | dbStr bytes => rcases exec_dbStr h with ⟨_, _, _, rfl⟩ | ⟨_, _, _, rfl⟩ <;> rfl
  | dbVal e => rcases exec_dbVal h with ⟨_, _, _, _, _, rfl⟩ | ⟨_, _, _, rfl⟩ <;> rfl
  | dwVal e => rcases exec_dwVal h with ⟨_, _, _, _, _, rfl⟩ | ⟨_, _, _, rfl⟩ <;> rfl
  | ds size fill =>
    obtain ⟨_, _, _, _, _, hrest⟩ := exec_ds h
    rcases hrest with ⟨_, rfl⟩ | ⟨_, _, _, _, rfl⟩ | ⟨_, _, _, _, _, _, _, rfl⟩ <;> rfl
  | align e => obtain ⟨_, _, _, _, rfl⟩ := exec_align h; rfl
  | incbin bytes => obtain ⟨_, _, _, rfl⟩ := exec_incbin h; rfl
  | instr ps => obtain ⟨_, _, _, _, _, rfl⟩ := exec_instr h; rfl
  | assert e => obtain ⟨_, _, _, _, rfl⟩ := exec_assert h; rfl
  | define keep d e => obtain ⟨_, _, _, rfl⟩ := exec_define h; rfl
  | redefine keep d e => rw [exec_redefine h]
  | undef d => rw [exec_undef h]
  | segment b => exact absurd rfl (hns b)
  | struct name ms => obtain ⟨_, _, _, _, rfl⟩ := exec_struct h; rfl

/-! ## 3. programs -/

/-- **C06 (output = the placed bytes in source order).** After any accepted statement list the
image is the image before followed by some bytes; by `exec_acct` these are the statements' bytes,
first statement first. -/
theorem run_data_prefix {s s' : State} {prog : List Stmt} (h : run s prog = .ok s') :
    ∃ bs, s'.core.data = s.core.data ++ bs := by
  induction prog generalizing s with
  | nil => rw [run_nil h]; exact ⟨[], by simp⟩
  | cons st r ih =>
    obtain ⟨s1, hs, hr⟩ := run_cons h
    obtain ⟨b1, h1⟩ := exec_data_append hs
    obtain ⟨b2, h2⟩ := ih hr
    exact ⟨b1 ++ b2, by rw [h2, h1, List.append_assoc]⟩

/-- The image of a two-part program is the image of the first part followed by what the second
part places: the concatenation is in source order. -/
theorem run_append_data {s s'' : State} {p q : List Stmt} (h : run s (p ++ q) = .ok s'') :
    ∃ s' bp bq, run s p = .ok s' ∧ run s' q = .ok s'' ∧ s'.core.data = s.core.data ++ bp ∧
      s''.core.data = s.core.data ++ bp ++ bq := by
  obtain ⟨s', hp, hq⟩ := run_append h
  obtain ⟨bp, h1⟩ := run_data_prefix hp
  obtain ⟨bq, h2⟩ := run_data_prefix hq
  exact ⟨s', bp, bq, hp, hq, h1, by rw [h2, h1]⟩

/-- statements that neither reset the address nor switch the segment kind -/
def plain : Stmt → Bool
  | .org _ => false
  | .segment _ => false
  | _ => true

theorem plain_not_org {st : Stmt} (h : plain st = true) : ∀ e, st ≠ .org e := by
  intro e he; subst he; cases h

theorem plain_not_segment {st : Stmt} (h : plain st = true) : ∀ b, st ≠ .segment b := by
  intro e he; subst he; cases h

/-- In a CODE segment, a stretch of statements without `@org`/`@segment` places some bytes `bs`
and moves the address by exactly `bs.length`. -/
theorem run_here_bytes {s s' : State} {prog : List Stmt} (hc : s.code = true)
    (hp : ∀ st ∈ prog, plain st = true) (h : run s prog = .ok s') :
    ∃ bs, s'.core.data = s.core.data ++ bs ∧ s'.core.here = s.core.here + bs.length ∧
      s'.code = true := by
  induction prog generalizing s with
  | nil => rw [run_nil h]; exact ⟨[], by simp, rfl, hc⟩
  | cons st r ih =>
    obtain ⟨s1, hs, hr⟩ := run_cons h
    have hpl := hp st List.mem_cons_self
    obtain ⟨b1, hd1, _, hh1⟩ := exec_acct hs
    have hc1 : s1.code = true := (exec_code (plain_not_segment hpl) hs).trans hc
    obtain ⟨b2, hd2, hh2, hc2⟩ := ih hc1 (fun st' hm => hp st' (List.mem_cons_of_mem _ hm)) hr
    refine ⟨b1 ++ b2, by rw [hd2, hd1, List.append_assoc], ?_, hc2⟩
    rw [hh2, hh1 (plain_not_org hpl) hc, List.length_append]; omega

/-- **C06 (address accounting).** In a CODE segment, over a stretch of statements without
`@org`/`@segment`, the address moves by exactly the number of bytes the image grew by. -/
theorem run_here_accounting {s s' : State} {prog : List Stmt} (hc : s.code = true)
    (hp : ∀ st ∈ prog, plain st = true) (h : run s prog = .ok s') :
    s'.core.here = s.core.here + (s'.core.dataLen - s.core.dataLen) := by
  obtain ⟨bs, hd, hh, _⟩ := run_here_bytes hc hp h
  rw [hh, dataLen_eq, dataLen_eq, hd, List.length_append]
  omega

/-- **C06 (address = last `@org` + bytes placed since).** After `@org e` followed by a stretch of
statements without `@org`/`@segment` in a CODE segment, the address is the `@org` value plus the
number of bytes placed since the `@org`. -/
theorem run_here_since_org {s s' : State} {e : List Node} {prog : List Stmt} (hc : s.code = true)
    (hp : ∀ st ∈ prog, plain st = true) (h : run s (.org e :: prog) = .ok s') :
    ∃ v bs, ev (resolve s.core e).1 (resolve s.core e).2 = .ok (some v) ∧ u32 v ≤ 65535 ∧
      s'.core.data = s.core.data ++ bs ∧ s'.core.here = u32 v + bs.length := by
  obtain ⟨s1, hs, hr⟩ := run_cons h
  obtain ⟨v, hv, hle, hh, hd, hcode⟩ := org_sets_here hs
  obtain ⟨bs, hd2, hh2, _⟩ := run_here_bytes (hcode.trans hc) hp hr
  exact ⟨v, bs, hv, hle, by rw [hd2, hd], by rw [hh2, hh]⟩

/-- Every label in such a stretch observes `@org` value + bytes placed before it. -/
theorem label_after_org {s s' : State} {e : List Node} {pre : List Stmt} {d : String}
    (hc : s.code = true) (hp : ∀ st ∈ pre, plain st = true)
    (h : run s (.org e :: pre ++ [.label d]) = .ok s') :
    ∃ v bs, ev (resolve s.core e).1 (resolve s.core e).2 = .ok (some v) ∧
      s'.core.data = s.core.data ++ bs ∧
      ∃ m, s'.core.symtab.get d = some ⟨.val (i32OfNat (u32 v + bs.length)), m⟩ := by
  obtain ⟨s1, h1, h2⟩ := run_append (p := .org e :: pre) (q := [.label d]) (by simpa using h)
  obtain ⟨v, bs, hv, _, hd, hh⟩ := run_here_since_org hc hp h1
  obtain ⟨s2, hl, hn⟩ := run_cons h2
  rw [run_nil hn]
  obtain ⟨hg, _, hd2⟩ := label_sees_here hl
  exact ⟨v, bs, hv, by rw [hd2, hd], _, by rw [hg, hh]⟩

/-- In an ADDR segment a stretch of statements without `@segment` leaves the image untouched. -/
theorem run_addr_no_bytes {s s' : State} {prog : List Stmt} (hc : s.code = false)
    (hp : ∀ st ∈ prog, ∀ b, st ≠ .segment b) (h : run s prog = .ok s') :
    s'.core.data = s.core.data := by
  induction prog generalizing s with
  | nil => rw [run_nil h]
  | cons st r ih =>
    obtain ⟨s1, hs, hr⟩ := run_cons h
    have hc1 : s1.code = false := (exec_code (hp st List.mem_cons_self) hs).trans hc
    rw [ih hc1 (fun st' hm => hp st' (List.mem_cons_of_mem _ hm)) hr]
    exact addr_segment_no_bytes hc hs

/-! ## non-vacuity: concrete programs -/

/-- what we look at in a final state: image, address, segment kind -/
def view (r : Except Err State) : Option (List Nat × Nat × Bool) :=
  match r with
  | .ok s => some (s.core.data, s.core.here, s.code)
  | .error _ => none

example : view (run {} [.dbVal [.val 5], .label "x"]) = some ([5], 1, true) := by decide
example : view (run {} [.org [.val 0x8000], .dbStr [72, 105], .dwVal [.val 0x1234], .label "x"]) =
    some ([72, 105, 0x34, 0x12], 0x8006 - 2, true) := by decide
example : (match run {} [.org [.val 0x8000], .dbStr [72, 105], .label "x"] with
    | .ok s => (s.core.symtab.get "x").map (fun e => match e.sym with | .val v => v.toNat | _ => 0)
    | .error _ => none) = some 0x8002 := by decide
/-- `@here` is the address of the statement it appears in; deferred `@dw` places two placeholders -/
example : view (run {} [.org [.val 0x100], .dbVal [.val 1], .dwVal [.label "@here"],
    .dwVal [.label "later"]]) = some ([1, 0x01, 0x01, 0, 0], 0x105, true) := by decide
/-- `@ds` with and without fill, `@align`, `@incbin`, an instruction with a deferred operand -/
example : view (run {} [.dbVal [.val 9], .ds [.val 3] (some [.val 0xAA]), .ds [.val 2] none,
    .align [.val 4], .incbin [1, 2, 3], .instr [.lit 0xC3, .word [.label "f"]]]) =
    some ([9, 0xAA, 0xAA, 0xAA, 0, 0, 0, 0, 1, 2, 3, 0xC3, 0, 0], 14, true) := by decide
/-- an ADDR segment advances identically and places nothing -/
example : view (run {} [.segment false, .org [.val 0xC000], .dbVal [.val 1], .dwVal [.val 2],
    .ds [.val 5] none, .align [.val 16], .label "v"]) = some ([], 0xC010, false) := by decide
example : exec { code := false } (.incbin [1]) = .error ⟨.unexpected, {}⟩ :=
  addr_segment_rejects_incbin rfl
/-- the hypotheses of `run_here_since_org` / `label_after_org` are satisfiable -/
example : ∃ s', run {} (.org [.val 0x8000] :: [.dbStr [1, 2, 3]] ++ [.label "x"]) = .ok s' := by
  exact ⟨_, rfl⟩

end Az65.Thm.C06

/-
Property C01, Spec side: the Z80 oracle of `Az65/Spec/Z80.lean` is self-consistent.

* `decode_enc`  — decoding the bytes of a well-formed instruction gives back exactly that instruction
                  (with its operand values) and the untouched rest;
* `enc_inj` / `enc_prefix_free` — hence two well-formed instructions never share an encoding;
* `read_write`  — every existing instruction form can be written in source and is read back as itself;
* `enc_bytes`   — every emitted byte is a byte.
-/
import Az65.Spec.Z80

namespace Az65.Thm.IsaZ80
open Az65.Spec Az65.Spec.Z80

/-! ## Operand fields -/

theorem byte_rt {n : Int} (h : fits8 n = true) : (n.toNat : Int) = n := by
  simp [fits8] at h; omega

theorem byte_rt' {n : Int} (h : fits8 n = true) : max n 0 = n := by
  simp [fits8] at h; omega

theorem byte_lt {n : Int} (h : fits8 n = true) : n.toNat < 256 := by
  simp [fits8] at h; omega

theorem word_rt {nn : Int} (h : fits16 nn = true) : wordI (nn.toNat % 256) (nn.toNat / 256) = nn := by
  simp [fits16] at h; simp only [wordI]; omega

theorem word_hi_lt {nn : Int} (h : fits16 nn = true) : nn.toNat / 256 < 256 := by
  simp [fits16] at h; omega

theorem rel_rt {pc : Nat} {t : Int} (h : fitsRel pc t = true) : relTarget pc (relByte pc t) = t := by
  simp [fitsRel] at h
  by_cases hc : relByte pc t < 128 <;> simp only [relTarget, hc, ↓reduceIte] <;>
    simp only [relByte] at * <;> omega

theorem rel_lt (pc : Nat) (t : Int) : relByte pc t < 256 := by
  simp only [relByte]; omega

theorem fits3_cases {b : Int} (h : fits3 b = true) :
    b = 0 ∨ b = 1 ∨ b = 2 ∨ b = 3 ∨ b = 4 ∨ b = 5 ∨ b = 6 ∨ b = 7 := by
  simp [fits3] at h; omega

theorem fitsRst_cases {t : Int} (h : fitsRst t = true) :
    t = 0 ∨ t = 8 ∨ t = 16 ∨ t = 24 ∨ t = 32 ∨ t = 40 ∨ t = 48 ∨ t = 56 := by
  simp [fitsRst] at h; omega

theorem fitsIm_cases {m : Int} (h : fitsIm m = true) : m = 0 ∨ m = 1 ∨ m = 2 := by
  simpa [fitsIm, or_assoc] using h

/-! ## Round trip, group by group -/

-- the encoder, the decoder and all index tables unfold by `simp` in this file
attribute [local simp] enc decode decodeMain decodeX0 decodeX3 decodeCB decodeED decodeEDword decodeIdx
  decodeIdxCB decodeIdxX0 decodeIdxX1 decodeIdxX2 decodeIdxX3 take1 take2 takeRel takeDisp
  takeDispN opc word pfxBytes prefixByte imY
  R8.idx R8.pfx R8.ofIdx R8.ofIdxX Loc8.idx Loc8.pfx Loc8.disp Loc8.ofIdx
  R16.p R16.pfx R16.ofIdx R16.ofIdxX R16.ofIdxReg Q16.p Q16.pfx Q16.ofIdx Q16.ofIdxReg
  HX.pfx HX.ofIdxReg BD.p Cond.idx Cond.ofIdx Alu.idx Alu.ofIdx Rot.idx Rot.ofIdx BitOp.x
  AccOp.idx AccOp.ofIdx BlkOp.y BlkOp.z BlkOp.ofYZ byte_rt byte_rt' word_rt rel_rt

-- `rt [h]`: evaluate encoder and decoder on a concrete form, using the operand hypotheses `h`
open Lean.Parser.Tactic in
local macro "rt" "[" ts:simpLemma,* "]" : tactic => `(tactic| simp [$ts,*])

/-- unfold well-formedness in a hypothesis -/
local macro "wfs" "at" h:ident : tactic =>
  `(tactic| simp [wf, documented, valuesOk, Loc8.fits, Loc8.isHalf, R8.isHalf, R8.plain, R8.isHL, R16.plain,
      Cond.short, ld8Ok, R8.compat, R8.pfx] at $h:ident)

section
variable {pc : Nat} {rest : List Nat}

theorem rt_rel1 {t : Int} (h : fitsRel pc t = true) :
    decode pc (enc pc (.djnz t) ++ rest) = some (.djnz t, rest)
    ∧ decode pc (enc pc (.jr t) ++ rest) = some (.jr t, rest) := by
  constructor <;> rt [h]

theorem rt_jrcc {cc : Cond} {t : Int} (h : wf pc (.jrcc cc t) = true) :
    decode pc (enc pc (.jrcc cc t) ++ rest) = some (.jrcc cc t, rest) := by
  cases cc <;> wfs at h <;> rt [h]

theorem rt_ld16 {rp : R16} {nn : Int} (h : fits16 nn = true) :
    decode pc (enc pc (.ld16 rp nn) ++ rest) = some (.ld16 rp nn, rest) := by
  cases rp <;> rt [h]

theorem rt_add16 {d s : R16} (h : wf pc (.add16 d s) = true) :
    decode pc (enc pc (.add16 d s) ++ rest) = some (.add16 d s, rest) := by
  cases d <;> cases s <;> wfs at h <;> rt []

theorem rt_ldMemRR {rp : R16} {nn : Int} (h : fits16 nn = true) :
    decode pc (enc pc (.ldMemRR nn rp) ++ rest) = some (.ldMemRR nn rp, rest) := by
  cases rp <;> rt [h]

theorem rt_ldRRMem {rp : R16} {nn : Int} (h : fits16 nn = true) :
    decode pc (enc pc (.ldRRMem rp nn) ++ rest) = some (.ldRRMem rp nn, rest) := by
  cases rp <;> rt [h]

theorem rt_incdec16 {rp : R16} :
    decode pc (enc pc (.inc16 rp) ++ rest) = some (.inc16 rp, rest)
    ∧ decode pc (enc pc (.dec16 rp) ++ rest) = some (.dec16 rp, rest) := by
  cases rp <;> constructor <;> rt []

theorem rt_inc8 {l : Loc8} (h : l.fits = true) :
    decode pc (enc pc (.inc8 l) ++ rest) = some (.inc8 l, rest) := by
  rcases l with r | _ | ⟨i, d⟩
  · cases r <;> rt []
  · rt []
  · cases i <;> rt [show fits8 d = true from h]

theorem rt_dec8 {l : Loc8} (h : l.fits = true) :
    decode pc (enc pc (.dec8 l) ++ rest) = some (.dec8 l, rest) := by
  rcases l with r | _ | ⟨i, d⟩
  · cases r <;> rt []
  · rt []
  · cases i <;> rt [show fits8 d = true from h]

theorem rt_ld8n {l : Loc8} {n : Int} (h : l.fits = true) (hn : fits8 n = true) :
    decode pc (enc pc (.ld8n l n) ++ rest) = some (.ld8n l n, rest) := by
  rcases l with r | _ | ⟨i, d⟩
  · cases r <;> rt [hn]
  · rt [hn]
  · cases i <;> rt [hn, show fits8 d = true from h]

theorem rt_alu {op : Alu} {l : Loc8} (h : l.fits = true) :
    decode pc (enc pc (.alu op l) ++ rest) = some (.alu op l, rest) := by
  rcases l with r | _ | ⟨i, d⟩
  · cases op <;> cases r <;> rt []
  · cases op <;> rt []
  · cases op <;> cases i <;> rt [show fits8 d = true from h]

theorem rt_alun {op : Alu} {n : Int} (h : fits8 n = true) :
    decode pc (enc pc (.alun op n) ++ rest) = some (.alun op n, rest) := by
  cases op <;> rt [h]

theorem rt_cc {cc : Cond} {nn : Int} (h : fits16 nn = true) :
    decode pc (enc pc (.retcc cc) ++ rest) = some (.retcc cc, rest)
    ∧ decode pc (enc pc (.jpcc cc nn) ++ rest) = some (.jpcc cc nn, rest)
    ∧ decode pc (enc pc (.callcc cc nn) ++ rest) = some (.callcc cc nn, rest) := by
  cases cc <;> refine ⟨?_, ?_, ?_⟩ <;> rt [h]

theorem rt_retcc {cc : Cond} : decode pc (enc pc (.retcc cc) ++ rest) = some (.retcc cc, rest) := by
  cases cc <;> rt []

theorem rt_pushpop {q : Q16} :
    decode pc (enc pc (.pop q) ++ rest) = some (.pop q, rest)
    ∧ decode pc (enc pc (.push q) ++ rest) = some (.push q, rest) := by
  cases q <;> constructor <;> rt []

theorem rt_hx {r : HX} :
    decode pc (enc pc (.jpInd r) ++ rest) = some (.jpInd r, rest)
    ∧ decode pc (enc pc (.ldSP r) ++ rest) = some (.ldSP r, rest)
    ∧ decode pc (enc pc (.exSP r) ++ rest) = some (.exSP r, rest) := by
  cases r <;> refine ⟨?_, ?_, ?_⟩ <;> rt []

theorem rt_rst {t : Int} (h : fitsRst t = true) :
    decode pc (enc pc (.rst t) ++ rest) = some (.rst t, rest) := by
  rcases fitsRst_cases h with rfl | rfl | rfl | rfl | rfl | rfl | rfl | rfl <;> rt []

theorem rt_im {m : Int} (h : fitsIm m = true) :
    decode pc (enc pc (.im m) ++ rest) = some (.im m, rest) := by
  rcases fitsIm_cases h with rfl | rfl | rfl <;> rt []

theorem rt_inout {r : R8} (h : r.plain = true) :
    decode pc (enc pc (.inC r) ++ rest) = some (.inC r, rest)
    ∧ decode pc (enc pc (.outC r) ++ rest) = some (.outC r, rest) := by
  cases r <;> simp [R8.plain, R8.isHalf] at h <;> constructor <;> rt []

theorem rt_wide {rp : R16} (h : rp.plain = true) :
    decode pc (enc pc (.sbc16 rp) ++ rest) = some (.sbc16 rp, rest)
    ∧ decode pc (enc pc (.adc16 rp) ++ rest) = some (.adc16 rp, rest) := by
  cases rp <;> simp [R16.plain] at h <;> constructor <;> rt []

theorem rt_blk {op : BlkOp} : decode pc (enc pc (.blk op) ++ rest) = some (.blk op, rest) := by
  cases op <;> rt []

theorem rt_acc {op : AccOp} : decode pc (enc pc (.acc op) ++ rest) = some (.acc op, rest) := by
  cases op <;> rt []

theorem rt_bd {p : BD} :
    decode pc (enc pc (.ldIndA p) ++ rest) = some (.ldIndA p, rest)
    ∧ decode pc (enc pc (.ldAInd p) ++ rest) = some (.ldAInd p, rest) := by
  cases p <;> constructor <;> rt []

theorem rt_ld8_rr {x y : R8} (h : wf pc (.ld8 (.reg x) (.reg y)) = true) :
    decode pc (enc pc (.ld8 (.reg x) (.reg y)) ++ rest) = some (.ld8 (.reg x) (.reg y), rest) := by
  cases x <;> cases y <;> wfs at h <;> rt []

theorem rt_ld8 {d s : Loc8} (h : wf pc (.ld8 d s) = true) :
    decode pc (enc pc (.ld8 d s) ++ rest) = some (.ld8 d s, rest) := by
  rcases d with x | _ | ⟨i, dd⟩ <;> rcases s with y | _ | ⟨j, ds⟩
  · exact rt_ld8_rr h
  · cases x <;> wfs at h <;> rt []
  · cases x <;> cases j <;> wfs at h <;> rt [h]
  · cases y <;> wfs at h <;> rt []
  · wfs at h
  · wfs at h
  · cases y <;> cases i <;> wfs at h <;> rt [h]
  · wfs at h
  · wfs at h

theorem rt_rot {op : Rot} {l : Loc8} (h : wf pc (.rot op l) = true) :
    decode pc (enc pc (.rot op l) ++ rest) = some (.rot op l, rest) := by
  rcases l with x | _ | ⟨i, d⟩
  · cases x <;> wfs at h <;> cases op <;> rt []
  · cases op <;> rt []
  · wfs at h; cases op <;> cases i <;> rt [h]

theorem rt_bitop {op : BitOp} {b : Int} {l : Loc8} (h : wf pc (.bitop op b l) = true) :
    decode pc (enc pc (.bitop op b l) ++ rest) = some (.bitop op b l, rest) := by
  have hb : fits3 b = true := by wfs at h; exact h.2.1
  rcases l with x | _ | ⟨i, d⟩
  · cases x <;> wfs at h <;> cases op <;>
      rcases fits3_cases hb with rfl | rfl | rfl | rfl | rfl | rfl | rfl | rfl <;> rt []
  · cases op <;> rcases fits3_cases hb with rfl | rfl | rfl | rfl | rfl | rfl | rfl | rfl <;> rt []
  · have hd : fits8 d = true := by wfs at h; exact h.2
    cases op <;> cases i <;>
      rcases fits3_cases hb with rfl | rfl | rfl | rfl | rfl | rfl | rfl | rfl <;> rt [hd]

end

/-! ## C01, Spec side -/

/-- Decoding the bytes of a well-formed instruction (followed by anything) yields exactly that instruction,
operand values included, and the untouched remainder. -/
theorem decode_enc {pc : Nat} {i : Instr} {rest : List Nat} (h : wf pc i = true) :
    decode pc (enc pc i ++ rest) = some (i, rest) := by
  cases i with
  | nop | exAF | halt | ret | exx | exDEHL | di | ei | neg | retn | reti | ldIA | ldRA | ldAI | ldAR
  | rrd | rld => rt []
  | djnz t => wfs at h; exact (rt_rel1 h).1
  | jr t => wfs at h; exact (rt_rel1 h).2
  | jrcc cc t => exact rt_jrcc h
  | ld16 rp nn => wfs at h; exact rt_ld16 h
  | add16 d s => exact rt_add16 h
  | ldIndA p => exact rt_bd.1
  | ldAInd p => exact rt_bd.2
  | ldMemRR nn rp => wfs at h; exact rt_ldMemRR h
  | ldRRMem rp nn => wfs at h; exact rt_ldRRMem h
  | ldMemA nn => wfs at h; rt [h]
  | ldAMem nn => wfs at h; rt [h]
  | inc16 rp => exact rt_incdec16.1
  | dec16 rp => exact rt_incdec16.2
  | inc8 l => exact rt_inc8 (by simpa [wf, documented, valuesOk] using h)
  | dec8 l => exact rt_dec8 (by simpa [wf, documented, valuesOk] using h)
  | ld8n l n =>
    have h' : l.fits = true ∧ fits8 n = true := by simpa [wf, documented, valuesOk] using h
    exact rt_ld8n h'.1 h'.2
  | acc op => exact rt_acc
  | ld8 d s => exact rt_ld8 h
  | alu op s => exact rt_alu (by simpa [wf, documented, valuesOk] using h)
  | alun op n => exact rt_alun (by simpa [wf, documented, valuesOk] using h)
  | retcc cc => exact rt_retcc
  | pop q => exact rt_pushpop.1
  | push q => exact rt_pushpop.2
  | jpInd r => exact rt_hx.1
  | ldSP r => exact rt_hx.2.1
  | exSP r => exact rt_hx.2.2
  | jpcc cc nn => exact (rt_cc (by simpa [wf, documented, valuesOk] using h)).2.1
  | callcc cc nn => exact (rt_cc (by simpa [wf, documented, valuesOk] using h)).2.2
  | jp nn => wfs at h; rt [h]
  | call nn => wfs at h; rt [h]
  | outNA n => wfs at h; rt [h]
  | inAN n => wfs at h; rt [h]
  | rst t => exact rt_rst (by simpa [wf, documented, valuesOk] using h)
  | rot op l => exact rt_rot h
  | bitop op b l => exact rt_bitop h
  | inC r => exact (rt_inout (by simpa [wf, documented, valuesOk] using h)).1
  | outC r => exact (rt_inout (by simpa [wf, documented, valuesOk] using h)).2
  | sbc16 rp => exact (rt_wide (by simpa [wf, documented, valuesOk] using h)).1
  | adc16 rp => exact (rt_wide (by simpa [wf, documented, valuesOk] using h)).2
  | im m => exact rt_im (by simpa [wf, documented, valuesOk] using h)
  | blk op => exact rt_blk

/-- "Only to it": two well-formed instructions with the same bytes are the same instruction. -/
theorem enc_inj {pc : Nat} {i j : Instr} (hi : wf pc i = true) (hj : wf pc j = true)
    (h : enc pc i = enc pc j) : i = j := by
  have h1 := decode_enc (rest := []) hi
  have h2 := decode_enc (rest := []) hj
  rw [h] at h1
  rw [h1] at h2
  exact (Prod.mk.inj (Option.some.inj h2)).1

/-- No encoding is a proper prefix of another: a byte stream splits into instructions in one way only. -/
theorem enc_prefix_free {pc : Nat} {i j : Instr} {r s : List Nat} (hi : wf pc i = true)
    (hj : wf pc j = true) (h : enc pc i ++ r = enc pc j ++ s) : i = j ∧ r = s := by
  have h1 := decode_enc (rest := r) hi
  have h2 := decode_enc (rest := s) hj
  rw [h] at h1
  rw [h1] at h2
  have := Prod.mk.inj (Option.some.inj h2)
  exact ⟨this.1, this.2⟩


-- `eb`: unfold the encoder on a concrete form and bound every byte
local macro "eb" : tactic =>
  `(tactic| ((simp [relByte, valuesOk, Loc8.fits, fits8, fits16, fits3, fitsRst, fitsIm] at *) <;> (try omega)))

section
variable {pc : Nat}

theorem eb_loc {l : Loc8} {n : Int} (h : l.fits = true) (hn : fits8 n = true) :
    (∀ b ∈ enc pc (.inc8 l), b < 256) ∧ (∀ b ∈ enc pc (.dec8 l), b < 256)
    ∧ (∀ b ∈ enc pc (.ld8n l n), b < 256) := by
  rcases l with x | _ | ⟨i, d⟩
  · cases x <;> eb
  · eb
  · cases i <;> eb

theorem eb_ld8_rr {x y : R8} : ∀ b ∈ enc pc (.ld8 (.reg x) (.reg y)), b < 256 := by
  cases x <;> cases y <;> eb

theorem eb_ld8 {d s : Loc8} (hd : d.fits = true) (hs : s.fits = true) :
    ∀ b ∈ enc pc (.ld8 d s), b < 256 := by
  rcases d with x | _ | ⟨i, dd⟩ <;> rcases s with y | _ | ⟨j, ds⟩
  · exact eb_ld8_rr
  · cases x <;> eb
  · cases x <;> cases j <;> eb
  · cases y <;> eb
  · eb
  · cases j <;> eb
  · cases y <;> cases i <;> eb
  · cases i <;> eb
  · cases i <;> cases j <;> eb

theorem eb_alu {op : Alu} {l : Loc8} (h : l.fits = true) : ∀ b ∈ enc pc (.alu op l), b < 256 := by
  rcases l with x | _ | ⟨i, d⟩
  · cases op <;> cases x <;> eb
  · cases op <;> eb
  · cases op <;> cases i <;> eb

theorem eb_rot {op : Rot} {l : Loc8} (h : l.fits = true) : ∀ b ∈ enc pc (.rot op l), b < 256 := by
  rcases l with x | _ | ⟨i, d⟩
  · cases op <;> cases x <;> eb
  · cases op <;> eb
  · cases op <;> cases i <;> eb

theorem eb_bitop {op : BitOp} {n : Int} {l : Loc8} (hn : fits3 n = true) (h : l.fits = true) :
    ∀ b ∈ enc pc (.bitop op n l), b < 256 := by
  rcases l with x | _ | ⟨i, d⟩
  · cases op <;> cases x <;> eb
  · cases op <;> eb
  · cases op <;> cases i <;> eb

theorem eb_im {m : Int} (h : fitsIm m = true) : ∀ b ∈ enc pc (.im m), b < 256 := by
  rcases fitsIm_cases h with rfl | rfl | rfl <;> eb

end

/-- Every byte of the encoding of a well-formed instruction is below 256. -/
theorem enc_bytes {pc : Nat} {i : Instr} (h : wf pc i = true) : ∀ b ∈ enc pc i, b < 256 := by
  have hv : valuesOk pc i = true := by
    simp only [wf, Bool.and_eq_true] at h; exact h.2
  clear h
  cases i with
  | nop | exAF | halt | ret | exx | exDEHL | di | ei | neg | retn | reti | ldIA | ldRA | ldAI | ldAR
  | rrd | rld => eb
  | djnz t | jr t | ldMemA nn | ldAMem nn | jp nn | call nn | outNA n | inAN n => eb
  | jrcc cc t | retcc cc | jpcc cc nn | callcc cc nn => cases cc <;> eb
  | ld16 rp nn | ldMemRR nn rp | ldRRMem rp nn | inc16 rp | dec16 rp | sbc16 rp | adc16 rp => cases rp <;> eb
  | add16 d s => cases d <;> cases s <;> eb
  | ldIndA p | ldAInd p => cases p <;> eb
  | inc8 l => exact (eb_loc (n := 0) (by simpa [valuesOk] using hv) rfl).1
  | dec8 l => exact (eb_loc (n := 0) (by simpa [valuesOk] using hv) rfl).2.1
  | ld8n l n =>
    have h' : l.fits = true ∧ fits8 n = true := by simpa [valuesOk] using hv
    exact (eb_loc h'.1 h'.2).2.2
  | acc op => cases op <;> eb
  | ld8 d s =>
    have h' : d.fits = true ∧ s.fits = true := by simpa [valuesOk] using hv
    exact eb_ld8 h'.1 h'.2
  | alu op l => exact eb_alu (by simpa [valuesOk] using hv)
  | alun op n => cases op <;> eb
  | pop q | push q => cases q <;> eb
  | jpInd r | ldSP r | exSP r => cases r <;> eb
  | rst t => eb
  | rot op l => exact eb_rot (by simpa [valuesOk] using hv)
  | bitop op b l =>
    have h' : fits3 b = true ∧ l.fits = true := by simpa [valuesOk] using hv
    exact eb_bitop h'.1 h'.2
  | inC r | outC r => cases r <;> eb
  | im m => exact eb_im (by simpa [valuesOk] using hv)
  | blk op => cases op <;> eb

/-! ## Source syntax -/

theorem readRaw_write_ld8 (d s : Loc8) :
    readRaw (write (.ld8 d s)).1 (write (.ld8 d s)).2 = some (.ld8 d s) := by
  rcases d with x | _ | ⟨i, dd⟩ <;> rcases s with y | _ | ⟨j, ds⟩ <;> (try cases x) <;> (try cases y) <;>
    (try cases i) <;> (try cases j) <;> rfl

theorem readRaw_write_alu (op : Alu) (l : Loc8) :
    readRaw (write (.alu op l)).1 (write (.alu op l)).2 = some (.alu op l) := by
  rcases l with x | _ | ⟨i, d⟩
  · cases op <;> cases x <;> rfl
  · cases op <;> rfl
  · cases op <;> cases i <;> rfl

theorem readRaw_write_rot (op : Rot) (l : Loc8) :
    readRaw (write (.rot op l)).1 (write (.rot op l)).2 = some (.rot op l) := by
  rcases l with x | _ | ⟨i, d⟩
  · cases op <;> cases x <;> rfl
  · cases op <;> rfl
  · cases op <;> cases i <;> rfl

theorem readRaw_write_bitop (op : BitOp) (b : Int) (l : Loc8) :
    readRaw (write (.bitop op b l)).1 (write (.bitop op b l)).2 = some (.bitop op b l) := by
  rcases l with x | _ | ⟨i, d⟩
  · cases op <;> cases x <;> rfl
  · cases op <;> rfl
  · cases op <;> cases i <;> rfl

/-- The canonical spelling of any instruction value is read back, syntactically, as that value. -/
theorem readRaw_write (i : Instr) : readRaw (write i).1 (write i).2 = some i := by
  cases i with
  | nop | exAF | halt | ret | exx | exDEHL | di | ei | neg | retn | reti | ldIA | ldRA | ldAI | ldAR
  | rrd | rld => rfl
  | djnz t | jr t | ldMemA nn | ldAMem nn | jp nn | call nn | outNA n | inAN n | rst t | im m => rfl
  | jrcc cc t | retcc cc | jpcc cc nn | callcc cc nn => cases cc <;> rfl
  | ld16 rp nn | ldMemRR nn rp | ldRRMem rp nn | inc16 rp | dec16 rp | sbc16 rp | adc16 rp => cases rp <;> rfl
  | add16 d s => cases d <;> cases s <;> rfl
  | ldIndA p | ldAInd p => cases p <;> rfl
  | inc8 l | dec8 l | ld8n l n =>
    rcases l with x | _ | ⟨i, d⟩
    · cases x <;> rfl
    · rfl
    · cases i <;> rfl
  | acc op => cases op <;> rfl
  | ld8 d s => exact readRaw_write_ld8 d s
  | alu op l => exact readRaw_write_alu op l
  | alun op n => cases op <;> rfl
  | pop q | push q => cases q <;> rfl
  | jpInd r | ldSP r | exSP r => cases r <;> rfl
  | rot op l => exact readRaw_write_rot op l
  | bitop op b l => exact readRaw_write_bitop op b l
  | inC r | outC r => cases r <;> rfl
  | blk op => cases op <;> rfl

/-- Every existing instruction form is writable: its canonical spelling reads back as itself. -/
theorem read_write {i : Instr} (h : documented i = true) : Z80.read (write i).1 (write i).2 = some i := by
  simp only [Z80.read, readRaw_write, Option.filter, h, ↓reduceIte]

/-- `read` only produces instruction forms that exist. -/
theorem read_documented {m : String} {ops : List Opnd} {i : Instr} (h : Z80.read m ops = some i) :
    documented i = true := by
  simp only [Z80.read, Option.filter_eq_some_iff] at h
  exact h.2

/-- What an assembler has to emit for the canonical spelling of a well-formed instruction is its encoding. -/
theorem expected_write {pc : Nat} {i : Instr} (h : wf pc i = true) :
    expected pc (write i).1 (write i).2 = some (enc pc i) := by
  have hd : documented i = true := by
    simp only [wf, Bool.and_eq_true] at h; exact h.1
  simp only [expected, read_write hd, Option.bind_some, h, ↓reduceIte]

/-- Whatever `expected` prescribes decodes back to the instruction that was read. -/
theorem expected_decodes {pc : Nat} {m : String} {ops : List Opnd} {bytes rest : List Nat}
    (h : expected pc m ops = some bytes) :
    ∃ i, Z80.read m ops = some i ∧ wf pc i = true ∧ decode pc (bytes ++ rest) = some (i, rest) := by
  unfold expected at h
  cases hr : Z80.read m ops with
  | none => rw [hr] at h; cases h
  | some i =>
    rw [hr] at h
    simp only [Option.bind_some] at h
    by_cases hw : wf pc i = true
    · rw [if_pos hw] at h; cases h; exact ⟨i, rfl, hw, decode_enc hw⟩
    · rw [if_neg hw] at h; cases h

/-- All representatives are well-formed at address 0. -/
theorem allShapes_wf : ∀ i ∈ allShapes, wf 0 i = true := by decide +kernel

theorem allShapes_length : allShapes.length = 798 := by decide +kernel

/-! ## Examples -/

example : enc 0 (.ld8n (.reg .b) 0x42) = [0x06, 0x42] := by decide
example : enc 0 (.bitop .bit 7 (.midx .iy 5)) = [0xFD, 0xCB, 0x05, 0x7E] := by decide
example : decode 0 [0xFD, 0xCB, 0x05, 0x7E, 0x00] = some (.bitop .bit 7 (.midx .iy 5), [0x00]) := by decide
example : expected 0x100 "jr" [.imm 0x100] = some [0x18, 0xFE] := by decide
example : expected 0 "jr" [.imm 129] = some [0x18, 0x7F] := by decide
example : expected 0 "jr" [.imm 130] = none := by decide
example : expected 0 "jr" [.imm (-126)] = some [0x18, 0x80] := by decide
example : expected 0 "jr" [.imm (-127)] = none := by decide
example : expected 0 "jr" [.flag "po", .imm 5] = none := by decide
example : expected 0 "ld" [.reg "a", .imm 255] = some [0x3E, 0xFF] := by decide
example : expected 0 "ld" [.reg "a", .imm 256] = none := by decide
example : expected 0 "ld" [.reg "a", .imm (-1)] = none := by decide
example : expected 0 "ld" [.reg "bc", .imm 65536] = none := by decide
example : expected 0 "ld" [.reg "ix", .imm 0x1234] = some [0xDD, 0x21, 0x34, 0x12] := by decide
example : expected 0 "ld" [.mem 0x1234, .reg "sp"] = some [0xED, 0x73, 0x34, 0x12] := by decide
example : expected 0 "ld" [.mem 0x1234, .reg "hl"] = some [0x22, 0x34, 0x12] := by decide
example : expected 0 "ld" [.idx "ix" 255, .reg "a"] = some [0xDD, 0x77, 0xFF] := by decide
example : expected 0 "ld" [.idx "ix" 256, .reg "a"] = none := by decide
example : expected 0 "ld" [.idx "ix" 1, .reg "h"] = some [0xDD, 0x74, 0x01] := by decide
example : expected 0 "ld" [.idx "ix" 1, .reg "ixh"] = none := by decide
example : expected 0 "ld" [.reg "ixh", .reg "h"] = none := by decide
example : expected 0 "ld" [.reg "ixh", .reg "iyl"] = none := by decide
example : expected 0 "ld" [.reg "iyh", .reg "iyl"] = some [0xFD, 0x65] := by decide
example : expected 0 "ld" [.ind "hl", .ind "hl"] = none := by decide
example : expected 0 "halt" [] = some [0x76] := by decide
example : expected 0 "bit" [.imm 7, .idx "iy" 5] = some [0xFD, 0xCB, 0x05, 0x7E] := by decide
example : expected 0 "bit" [.imm 8, .reg "a"] = none := by decide
example : expected 0 "sll" [.reg "a"] = some [0xCB, 0x37] := by decide
example : expected 0 "rlc" [.reg "ixh"] = none := by decide
example : expected 0 "rst" [.imm 0x38] = some [0xFF] := by decide
example : expected 0 "rst" [.imm 1] = none := by decide
example : expected 0 "im" [.imm 2] = some [0xED, 0x5E] := by decide
example : expected 0 "im" [.imm 3] = none := by decide
example : expected 0 "adc" [.reg "a", .mem 5] = some [0xCE, 0x05] := by decide
example : expected 0 "adc" [.reg "a", .imm 5] = some [0xCE, 0x05] := by decide
example : expected 0 "cp" [.mem 5] = some [0xFE, 0x05] := by decide
example : expected 0 "and" [.mem 5] = none := by decide
example : expected 0 "sub" [.reg "a", .reg "b"] = none := by decide
example : expected 0 "sub" [.reg "b"] = some [0x90] := by decide
example : expected 0 "jp" [.reg "c", .imm 5] = some [0xDA, 0x05, 0x00] := by decide
example : expected 0 "jp" [.ind "ix"] = some [0xDD, 0xE9] := by decide
example : expected 0 "ret" [.reg "c"] = some [0xD8] := by decide
example : expected 0 "out" [.ind "c", .reg "a"] = some [0xED, 0x79] := by decide
example : expected 0 "in" [.reg "a", .mem 0x42] = some [0xDB, 0x42] := by decide
example : expected 0 "ex" [.reg "af", .reg "af'"] = some [0x08] := by decide
example : expected 0 "add" [.reg "ix", .reg "ix"] = some [0xDD, 0x29] := by decide
example : expected 0 "add" [.reg "ix", .reg "hl"] = none := by decide
example : expected 0 "ld" [.reg "a", .reg "i"] = some [0xED, 0x57] := by decide
example : expected 0 "ld" [.reg "sp", .reg "iy"] = some [0xFD, 0xF9] := by decide
example : expected 0 "otdr" [] = some [0xED, 0xBB] := by decide
example : expected 0 "LD" [.reg "a", .imm 1] = none := by decide

end Az65.Thm.IsaZ80

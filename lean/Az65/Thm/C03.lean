import Az65.Thm.IsaMos6502
import Az65.Thm.C03Forms.P0
import Az65.Thm.C03Forms.P1
import Az65.Thm.C03Forms.P2
import Az65.Thm.C03Forms.P3
import Az65.Thm.C03Forms.P4
import Az65.Thm.C03Forms.P5
import Az65.Thm.C03Forms.P6
import Az65.Thm.C03Forms.P7
/-
C03 — 6502 instructions assemble to the MOS encoding with the right addressing mode.

ISA-level theorems (for all operand values) are in `Az65/Thm/IsaMos6502.lean`; they are
re-exported here together with the tie between the *generated* decision tree
(`Az65/Gen/TreeMos6502.lean`, regenerated from src/mos6502/mod.rs on every run) and the Spec.
-/
namespace Az65.Thm.C03
open Az65 Az65.Spec Az65.Spec.Mos6502

def formsAgree : Bool := formsAgreeOn Mn.all

theorem slices_cover : Mn.all = slice 0 ++ slice 1 ++ slice 2 ++ slice 3 ++ slice 4 ++ slice 5 ++ slice 6 ++ slice 7 := by
  decide

theorem formsAgreeOn_append (a b : List Mn) : formsAgreeOn (a ++ b) = (formsAgreeOn a && formsAgreeOn b) := by
  simp [formsAgreeOn, List.all_append]

/-- **C03 (generated tree = Spec on every form).**  For every mnemonic, every operand spelling
(legal or not for that mnemonic), every boundary value and both "known now" / "defined later",
the decision tree regenerated from the current source — run by the model interpreter and the model
linker — produces exactly the bytes the MOS Spec prescribes, and rejects exactly what the Spec
rejects.  Checked by kernel evaluation over the whole finite table (13 104 runs, in 8 slices). -/
theorem tree_agrees_spec_on_forms : formsAgree = true := by
  unfold formsAgree
  rw [slices_cover]
  simp only [formsAgreeOn_append, forms_slice_0, forms_slice_1, forms_slice_2, forms_slice_3,
    forms_slice_4, forms_slice_5, forms_slice_6, forms_slice_7, Bool.and_self]

theorem tree_agrees_spec (mn : Mn) (v : Int) (md : Mode) (known : Bool)
    (hmn : mn ∈ Mn.all) (hv : v ∈ sampleValues) (hmd : md ∈ spellings v) :
    asmMode 0x1000 mn.name md known = Mos6502.expected 0x1000 mn.name md known := by
  have h := tree_agrees_spec_on_forms
  simp only [formsAgree, formsAgreeOn, List.all_eq_true] at h
  have := h mn hmn v hv md hmd known (by cases known <;> simp)
  simpa using this

/-- All 151 legal opcodes come out of the generated tree (witness: the Spec's own spelling of
each row, at a representative operand value). -/
def reachAll : Bool :=
  legal.all fun row =>
    let v : Int := match row.2.1 with
      | .relative => 0x1010
      | .zeroPage | .zeroPageX | .zeroPageY | .immediate | .indirectX | .indirectY => 0x42
      | .implied | .accumulator => 0
      | _ => 0x1234
    let i : Instr := ⟨row.1, row.2.1, v⟩
    let w := write i
    (asmMode 0x1000 w.1 w.2 true).bind List.head? == some row.2.2

theorem all_151_opcodes_reachable : reachAll = true := by decide +kernel

/-! Re-exported ISA-level theorems (all operand values): -/
export Az65.Thm.IsaMos6502 (decode_enc zero_page_rule absolute_rule branch_rule only_legal
  all_legal_reachable unknown_selects_absolute direct_out_of_range_rejected)

/-! non-vacuity -/
example : asmMode 0 "lda" (.direct 0x10) true = some [0xA5, 0x10] := by decide +kernel
example : asmMode 0 "lda" (.direct 0x10) false = some [0xAD, 0x10, 0x00] := by decide +kernel
example : asmMode 0 "lda" (.direct 0x10000) false = none := by decide +kernel
example : asmMode 0x10 "bne" (.direct 0x10) true = some [0xD0, 0xFE] := by decide +kernel

end Az65.Thm.C03

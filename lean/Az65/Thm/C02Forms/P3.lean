import Az65.Thm.C02Forms.Defs
namespace Az65.Thm.C02
theorem forms_slice_3 : formsAgreeOn (slice 3) = true := by decide +kernel
end Az65.Thm.C02

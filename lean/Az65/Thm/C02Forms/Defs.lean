import Az65.Model.One
import Az65.Spec.Sm83
/- Shared definitions of the C02 form table (see `Az65/Thm/C02.lean`). -/
namespace Az65.Thm.C02
open Az65 Az65.Spec

/-- Boundary values substituted into each value-carrying operand of a form. -/
def edgeValues : List Int := [0x42, 0xFF, 0x100, 0xFFFF, 0x10000, -1]

def setValue (v : Int) : Opnd → Opnd
  | .idx r _ => .idx r v | .regPlus r _ => .regPlus r v | .mem _ => .mem v | .imm _ => .imm v
  | o => o

/-- The operand list as written, plus one variant per edge value for each value operand. -/
def variants : List Opnd → List (List Opnd)
  | [] => [[]]
  | o :: r =>
    let rest := variants r
    match opndValue o with
    | none => rest.map (o :: ·)
    | some _ => (rest.map (o :: ·)) ++ edgeValues.map fun v => setValue v o :: r

/-- Mnemonics whose selector operand must be solvable immediately. -/
def needsNow (m : String) : Bool := m = "bit" || m = "res" || m = "set" || m = "rst" || m = "im"

def hasValue (ops : List Opnd) : Bool := ops.any fun o => (opndValue o).isSome

/-- Does the generated tree agree with the Spec on this source form (known now and, where the
form has a value operand, defined later)? -/
def formOk (pc : Nat) (m : String) (ops : List Opnd) : Bool :=
  let want := Sm83.expected pc m ops
  asmOpnds .sm83 pc m ops true == want &&
  (!hasValue ops || asmOpnds .sm83 pc m ops false == (if needsNow m then none else want))

/-- Source forms recorded as known findings (excluded from the table; see known_findings.json). -/
def knownDefect (m : String) (ops : List Opnd) : Bool := m = "cp" && (match ops with | [.reg _] => true | [.ind "hl"] => true | _ => false)

def instrOk (i : Sm83.Instr) : Bool :=
  let w := Sm83.write i
  knownDefect w.1 w.2 || (variants w.2).all fun ops => formOk 0x4000 w.1 ops

def formsAgreeOn (l : List Sm83.Instr) : Bool := l.all instrOk

def slice (k : Nat) : List Sm83.Instr := ((Sm83.allOpcodes).drop (63 * k)).take 63

end Az65.Thm.C02

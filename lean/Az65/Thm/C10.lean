import Az65.Model.Asm
import Az65.Model.Plain
/-
C10 — invoking a macro is equivalent to substituting its arguments into its body.

1. `replay_eq_subst`: the index-triple replay loop (`macroNext`, the mirror of the Rust
   `TokenSource::next` for macros), drained until it reports the end, yields exactly the body
   with every slot replaced by the tokens of the corresponding argument (`flatSubst`).
   Key step `macroNext_flat`: one call of `macroNext` pops exactly the head of the remaining
   output `flat`.
2. `record_slots_*`: which body tokens become slots when a macro is recorded (`slotOf`).
3. `oneArg_single`, `oneArg_braces`: the shape of one argument (a single token, or the tokens
   inside one pair of braces, balanced inner braces kept, line breaks / comments dropped).
-/
namespace Az65.Thm.C10
open Az65

/-! ## 1. replay = substitution -/

/-- What one recorded body token stands for at replay time.  An argument is a list of *tokens*
(`List LTok`), the result is a list of tokens: a spliced argument is never looked at again by
`slotOf`, i.e. arguments are expanded once and never re-scanned for parameter names — this holds
by typing (`MTok` slots exist only in a recorded body, never in an argument). -/
def substTok (args : List (List LTok)) (ent : String) : MTok → List LTok
  | .tok t => [t]
  | .arg i => args.getD i []
  | .entropy loc => [⟨.str ent, loc⟩]

/-- The macro body with each parameter slot replaced by the corresponding argument's tokens. -/
def flatSubst (body : List MTok) (args : List (List LTok)) (ent : String) : List LTok :=
  body.flatMap (substTok args ent)

/-- The tokens an index-form replay state has still to deliver. -/
def flat (m : Macro) (st : MacroState) : List LTok :=
  match st.expandingArg with
  | some a => (st.args.getD a []).drop st.argOff ++
      flatSubst (m.toks.drop (st.macroOff + 1)) st.args st.entropy
  | none => flatSubst (m.toks.drop st.macroOff) st.args st.entropy

/-- Invariant of the replay loop: an argument is being spliced only at a valid body index. -/
def WF (m : Macro) (st : MacroState) : Prop :=
  st.expandingArg.isSome → st.macroOff < m.toks.length

/-- Number of loop iterations `macroNext` may need before it returns. -/
def mu (m : Macro) (st : MacroState) : Nat :=
  2 * (m.toks.length - st.macroOff) + (if st.expandingArg.isSome then 0 else 1)

theorem mu_le (m : Macro) (st : MacroState) : mu m st ≤ 2 * m.toks.length + 1 := by
  unfold mu; split <;> omega

theorem getD_of_lt {α : Type} (l : List α) (i : Nat) (d : α) (h : i < l.length) :
    l.getD i d = l[i] := by
  rw [List.getD_eq_getElem?_getD, List.getElem?_eq_getElem h, Option.getD_some]

theorem macroNext_spec (m : Macro) : ∀ f st, WF m st → mu m st ≤ f →
    match macroNext m f st with
    | (some t, st') => flat m st = t :: flat m st' ∧ WF m st' ∧
        st'.args = st.args ∧ st'.entropy = st.entropy
    | (none, _) => flat m st = [] := by
  intro f
  induction f with
  | zero =>
    intro st hwf hmu
    rcases st with ⟨name, args, off, ea, aoff, loc, inc, ent⟩
    cases ea with
    | none => simp [mu] at hmu
    | some a =>
      have := hwf rfl
      simp [mu] at hmu this; omega
  | succ f ih =>
    intro st hwf hmu
    rcases st with ⟨name, args, off, ea, aoff, loc, inc, ent⟩
    unfold macroNext
    by_cases hoff : off ≥ m.toks.length
    · cases ea with
      | some a => have := hwf rfl; simp at this; omega
      | none =>
        simp only [hoff, if_true]
        simp [flat, flatSubst, List.drop_eq_nil_of_le hoff]
    · simp only [hoff, if_false]
      have hlt : off < m.toks.length := by omega
      cases ea with
      | some a =>
        simp only
        by_cases ha : aoff ≥ (args.getD a []).length
        · rw [if_pos ha]
          have h1 := ih ⟨name, args, off + 1, none, aoff, loc, inc, ent⟩ (by simp [WF])
            (by simp [mu] at hmu ⊢; omega)
          revert h1
          cases macroNext m f ⟨name, args, off + 1, none, aoff, loc, inc, ent⟩ with
          | mk o st' =>
            cases o with
            | none =>
              intro h1; simp only at h1 ⊢
              simp only [flat] at h1 ⊢
              rw [List.drop_eq_nil_of_le ha, List.nil_append]; exact h1
            | some t =>
              intro h1; simp only at h1 ⊢
              simp only [flat] at h1 ⊢
              rw [List.drop_eq_nil_of_le ha, List.nil_append]; exact h1
        · rw [if_neg ha]
          have ha' : aoff < (args.getD a []).length := by omega
          refine ⟨?_, ?_, rfl, rfl⟩
          · simp only [flat]
            rw [List.drop_eq_getElem_cons ha', getD_of_lt _ _ _ ha']
            rfl
          · intro _; exact hlt
      | none =>
        simp only
        rw [getD_of_lt _ _ _ hlt]
        have hdrop : m.toks.drop off = m.toks[off] :: m.toks.drop (off + 1) :=
          List.drop_eq_getElem_cons hlt
        cases hm : m.toks[off] with
        | tok t =>
          simp only
          refine ⟨?_, by simp [WF], by simp, by simp⟩
          simp [flat, flatSubst, hdrop, hm, substTok]
        | entropy l =>
          simp only
          refine ⟨?_, by simp [WF], by simp, by simp⟩
          simp [flat, flatSubst, hdrop, hm, substTok]
        | arg i =>
          simp only
          have h1 := ih ⟨name, args, off, some i, 0, loc, inc, ent⟩ (by intro _; exact hlt)
            (by simp [mu] at hmu ⊢; omega)
          revert h1
          cases macroNext m f ⟨name, args, off, some i, 0, loc, inc, ent⟩ with
          | mk o st' =>
            cases o with
            | none =>
              intro h1; simp only at h1 ⊢
              simp only [flat, List.drop_zero] at h1 ⊢
              rw [hdrop, hm]; simpa [flatSubst, substTok] using h1
            | some t =>
              intro h1; simp only at h1 ⊢
              simp only [flat, List.drop_zero] at h1 ⊢
              rw [hdrop, hm]; simpa [flatSubst, substTok] using h1

/-- One call of the replay loop delivers exactly the head of the remaining substituted output,
keeps the invariant and leaves the arguments and the entropy string alone; it reports the end
only when nothing remains. -/
theorem macroNext_flat (m : Macro) (f : Nat) (st : MacroState) (hwf : WF m st)
    (hf : 2 * (m.toks.length - st.macroOff) + 1 ≤ f) :
    (∀ t st', macroNext m f st = (some t, st') →
      flat m st = t :: flat m st' ∧ WF m st' ∧ st'.args = st.args ∧ st'.entropy = st.entropy) ∧
    (∀ st', macroNext m f st = (none, st') → flat m st = []) := by
  have h := macroNext_spec m f st hwf (by unfold mu; split <;> omega)
  constructor
  · intro t st' e; rw [e] at h; exact h
  · intro st' e; rw [e] at h; exact h

/-- Pull tokens from a replay state until it reports the end (what the pump does with the
source on top of its stack); the fuel per call is the one `sourceNext` uses. -/
def drain (m : Macro) : Nat → MacroState → List LTok
  | 0, _ => []
  | n + 1, st =>
    match macroNext m (2 * m.toks.length + 2) st with
    | (some t, st') => t :: drain m n st'
    | (none, _) => []

theorem drain_eq_flat (m : Macro) : ∀ n st, WF m st → (flat m st).length < n →
    drain m n st = flat m st := by
  intro n
  induction n with
  | zero => intro st _ h; omega
  | succ n ih =>
    intro st hwf h
    have hn := macroNext_spec m (2 * m.toks.length + 2) st hwf (by have := mu_le m st; omega)
    simp only [drain]
    revert hn
    cases macroNext m (2 * m.toks.length + 2) st with
    | mk o st' =>
      cases o with
      | none => intro hn; simp only at hn ⊢; rw [hn]
      | some t =>
        intro hn
        simp only at hn ⊢
        rw [hn.1, ih st' hn.2.1 (by rw [hn.1] at h; simp at h; omega)]

/-- The state a macro invocation pushes (`macroInvokeF`, `countF`, `eachF`, …). -/
def initState (name : String) (args : List (List LTok)) (loc : Loc) (inc : Option Loc)
    (ent : String) : MacroState :=
  { name := name, args := args, macroOff := 0, expandingArg := none, argOff := 0,
    loc := loc, includedFrom := inc, entropy := ent }

/-- **C10, replay = substitution.**  Draining the state pushed by an invocation yields exactly
the macro body with each parameter slot replaced by the tokens of the corresponding argument
(and each `@entropy` by the string of this expansion), in order — for any number of parameters
and any number of uses of each.  The arguments are token lists spliced as they are: they are
never re-scanned for parameter names (by typing, see `substTok`). -/
theorem replay_eq_subst (m : Macro) (name : String) (args : List (List LTok)) (loc : Loc)
    (inc : Option Loc) (ent : String) (n : Nat) (hn : (flatSubst m.toks args ent).length < n) :
    drain m n (initState name args loc inc ent) = flatSubst m.toks args ent := by
  have h := drain_eq_flat m n (initState name args loc inc ent) (by simp [WF, initState])
    (by simpa [flat, initState] using hn)
  simpa [flat, initState] using h

/-- A body without slots replays to itself. -/
theorem flatSubst_toks (l : List LTok) (args : List (List LTok)) (ent : String) :
    flatSubst (l.map MTok.tok) args ent = l := by
  induction l with
  | nil => rfl
  | cons t r ih => simp only [flatSubst, List.map_cons, List.flatMap_cons] at ih ⊢; rw [ih]; rfl

/-- A parameter that is not used contributes nothing; one that is used `k` times contributes its
tokens `k` times (substitution is a `flatMap`, so this is immediate): -/
theorem flatSubst_append (b1 b2 : List MTok) (args : List (List LTok)) (ent : String) :
    flatSubst (b1 ++ b2) args ent = flatSubst b1 args ent ++ flatSubst b2 args ent := by
  simp [flatSubst]

/-! ## 2. which body tokens are slots -/

/-- A recorded token is the slot of parameter `i` exactly when it is a *global* label whose name
is a parameter name first occurring at position `i`. -/
theorem record_slots_arg (params : List String) (t : LTok) (i : Nat) :
    slotOf params t = .arg i ↔ ∃ v, t.tok = .label .global v ∧ params.idxOf? v = some i := by
  rcases t with ⟨tok, loc⟩
  unfold slotOf
  split
  · rename_i heq; cases heq; simp
  · rename_i v l heq
    cases heq
    cases h : params.idxOf? v with
    | none => simp [h]
    | some j => simp [h]
  · rename_i h1 h2
    constructor
    · intro h; cases h
    · rintro ⟨v, hv, _⟩
      simp only at hv; subst hv
      exact absurd rfl (h2 v loc)

/-- A recorded token is the entropy slot exactly when it is the `@entropy` directive. -/
theorem record_slots_entropy (params : List String) (t : LTok) (loc : Loc) :
    slotOf params t = .entropy loc ↔ t = ⟨.dir "Entropy", loc⟩ := by
  rcases t with ⟨tok, l⟩
  unfold slotOf
  split
  · rename_i l' heq; cases heq; simp
  · rename_i v l' heq
    cases heq
    cases h : params.idxOf? v <;> simp
  · rename_i h1 h2
    constructor
    · intro h; cases h
    · intro h; cases h; exact absurd rfl (h1 loc)

/-- Every other token is recorded as itself. -/
theorem record_slots_tok (params : List String) (t : LTok)
    (h1 : t.tok ≠ .dir "Entropy")
    (h2 : ∀ v, t.tok = .label .global v → params.idxOf? v = none) :
    slotOf params t = .tok t := by
  rcases t with ⟨tok, l⟩
  unfold slotOf
  split
  · rename_i l' heq; cases heq; exact absurd rfl h1
  · rename_i v l' heq
    cases heq
    rw [h2 v rfl]
  · rfl

/-- A token recorded as a plain token is recorded unchanged. -/
theorem record_slots_tok_same (params : List String) (t t' : LTok)
    (h : slotOf params t = .tok t') : t' = t := by
  rcases t with ⟨tok, l⟩
  unfold slotOf at h
  split at h
  · cases h
  · rename_i v l' heq
    cases heq
    cases h' : params.idxOf? v with
    | none => rw [h'] at h; simp only at h; cases h; rfl
    | some j => rw [h'] at h; cases h
  · cases h; rfl

/-- Local labels, direct (dotted) labels, strings, numbers, mnemonics, registers, symbols … are
never parameter slots, whatever the parameter names. -/
theorem record_slots_not_global (params : List String) (t : LTok)
    (h : ∀ v, t.tok ≠ .label .global v) (i : Nat) : slotOf params t ≠ .arg i := by
  intro e
  obtain ⟨v, hv, _⟩ := (record_slots_arg params t i).1 e
  exact h v hv

theorem record_slots_local (params : List String) (v : String) (loc : Loc) :
    slotOf params ⟨.label .loc v, loc⟩ = .tok ⟨.label .loc v, loc⟩ := rfl
theorem record_slots_direct (params : List String) (v : String) (loc : Loc) :
    slotOf params ⟨.label .direct v, loc⟩ = .tok ⟨.label .direct v, loc⟩ := rfl
theorem record_slots_str (params : List String) (v : String) (loc : Loc) :
    slotOf params ⟨.str v, loc⟩ = .tok ⟨.str v, loc⟩ := rfl
theorem record_slots_num (params : List String) (v : Nat) (loc : Loc) :
    slotOf params ⟨.num v, loc⟩ = .tok ⟨.num v, loc⟩ := rfl

/-- The slot index is the *first* position of the name in the parameter list. -/
theorem idxOf_first (params : List String) (v : String) (i : Nat)
    (h : params.idxOf? v = some i) :
    params[i]? = some v ∧ ∀ j, j < i → params[j]? ≠ some v := by
  rw [List.idxOf?_eq_some_iff] at h
  obtain ⟨hi, hv, hj⟩ := h
  refine ⟨by rw [List.getElem?_eq_getElem hi, hv], ?_⟩
  intro j hji
  rw [List.getElem?_eq_getElem (by omega)]
  intro e; exact hj j hji (Option.some.inj e)

/-- A global label that is not a parameter name stays a token. -/
theorem record_slots_other_label (params : List String) (v : String) (loc : Loc)
    (h : v ∉ params) : slotOf params ⟨.label .global v, loc⟩ = .tok ⟨.label .global v, loc⟩ := by
  apply record_slots_tok
  · simp
  · intro v' hv'
    simp only [Tok.label.injEq, true_and] at hv'
    subst hv'
    cases h' : params.idxOf? v with
    | none => rfl
    | some i =>
      exfalso
      have := (idxOf_first params v i h').1
      exact h (List.mem_of_getElem? this)

/-! ## 3. the shape of one argument -/

/-! Step lemmas of `oneArgG` (generic in the token supply). -/
section steps
variable {σ : Type} (ops : TokOps σ)

theorem oneArg_newline {s s' : σ} {t : LTok} (f d : Nat) (acc : List LTok)
    (h : ops.next s = .ok (some t, s')) (ht : t.tok = .newline) :
    oneArgG ops (f + 1) d acc s = oneArgG ops f d acc s' := by
  rcases t with ⟨tok, l⟩; simp only at ht; subst ht
  simp only [oneArgG, h]

theorem oneArg_comment {s s' : σ} {t : LTok} (f d : Nat) (acc : List LTok)
    (h : ops.next s = .ok (some t, s')) (ht : t.tok = .comment) :
    oneArgG ops (f + 1) d acc s = oneArgG ops f d acc s' := by
  rcases t with ⟨tok, l⟩; simp only at ht; subst ht
  simp only [oneArgG, h]

theorem oneArg_open {s s' : σ} {t : LTok} (f d : Nat) (acc : List LTok)
    (h : ops.next s = .ok (some t, s')) (ht : t.tok = .sym "BraceOpen") :
    oneArgG ops (f + 1) d acc s =
      oneArgG ops f (d + 1) (if d > 0 then acc ++ [t] else acc) s' := by
  rcases t with ⟨tok, l⟩; simp only at ht; subst ht
  simp only [oneArgG, h]

theorem oneArg_close {s s' : σ} {t : LTok} (f d : Nat) (acc : List LTok)
    (h : ops.next s = .ok (some t, s')) (ht : t.tok = .sym "BraceClose") :
    oneArgG ops (f + 1) d acc s =
      if d = 0 then .error ⟨.unexpected, t.loc⟩
      else if d = 1 then .ok (acc, s')
      else oneArgG ops f (d - 1) (acc ++ [t]) s' := by
  rcases t with ⟨tok, l⟩; simp only at ht; subst ht
  simp only [oneArgG, h]

theorem oneArg_other {s s' : σ} {t : LTok} (f d : Nat) (acc : List LTok)
    (h : ops.next s = .ok (some t, s'))
    (h1 : t.tok ≠ .newline) (h2 : t.tok ≠ .comment)
    (h3 : t.tok ≠ .sym "BraceOpen") (h4 : t.tok ≠ .sym "BraceClose") :
    oneArgG ops (f + 1) d acc s =
      if d = 0 then .ok (acc ++ [t], s') else oneArgG ops f d (acc ++ [t]) s' := by
  rcases t with ⟨tok, l⟩
  conv => lhs; unfold oneArgG
  rw [h]
  split
  · rename_i heq; cases heq
  · rename_i heq; cases heq
  · rename_i heq; cases heq; exact absurd rfl h1
  · rename_i heq; cases heq; exact absurd rfl h2
  · rename_i heq; cases heq; exact absurd rfl h3
  · rename_i heq; cases heq; exact absurd rfl h4
  · rename_i heq; cases heq; rfl

theorem oneArg_eoi {s s' : σ} (f d : Nat) (acc : List LTok)
    (h : ops.next s = .ok (none, s')) :
    oneArgG ops (f + 1) d acc s = .error ⟨.eoi, ops.loc s'⟩ := by
  simp only [oneArgG, h]
end steps

theorem plain_next (t : LTok) (r : List LTok) (core : CoreSt) (c : Loc) :
    plainOps.next ⟨t :: r, core, c⟩ = .ok (some t, ⟨r, core, t.loc⟩) := rfl

theorem plain_next_nil (core : CoreSt) (c : Loc) :
    plainOps.next ⟨[], core, c⟩ = .ok (none, ⟨[], core, c⟩) := rfl

/-- A token that can stand alone as an argument. -/
def Single (t : LTok) : Prop :=
  t.tok ≠ .newline ∧ t.tok ≠ .comment ∧ t.tok ≠ .sym "BraceOpen" ∧ t.tok ≠ .sym "BraceClose"

instance : DecidablePred Single := fun t => by unfold Single; infer_instance

/-- **Argument shape, single token.**  An argument that starts with a token other than a line
break, a comment or a brace is that single token; the rest of the line is left in place. -/
theorem oneArg_single (t : LTok) (rest : List LTok) (core : CoreSt) (c : Loc) (f : Nat)
    (ht : Single t) :
    oneArgG plainOps (f + 1) 0 [] ⟨t :: rest, core, c⟩ = .ok ([t], ⟨rest, core, t.loc⟩) := by
  rw [oneArg_other plainOps f 0 [] (plain_next t rest core c) ht.1 ht.2.1 ht.2.2.1 ht.2.2.2]
  rfl

/-- Line breaks and comments before the argument are skipped. -/
theorem oneArg_skip_blank (t : LTok) (rest : List LTok) (core : CoreSt) (c : Loc) (f : Nat)
    (ht : t.tok = .newline ∨ t.tok = .comment) :
    oneArgG plainOps (f + 1) 0 [] ⟨t :: rest, core, c⟩ =
      oneArgG plainOps f 0 [] ⟨rest, core, t.loc⟩ := by
  rcases ht with ht | ht
  · exact oneArg_newline plainOps f 0 [] (plain_next t rest core c) ht
  · exact oneArg_comment plainOps f 0 [] (plain_next t rest core c) ht

/-- A stray `}` where an argument is expected is an error. -/
theorem oneArg_stray_close (t : LTok) (rest : List LTok) (core : CoreSt) (c : Loc) (f : Nat)
    (ht : t.tok = .sym "BraceClose") :
    oneArgG plainOps (f + 1) 0 [] ⟨t :: rest, core, c⟩ = .error ⟨.unexpected, t.loc⟩ := by
  rw [oneArg_close plainOps f 0 [] (plain_next t rest core c) ht]; rfl

/-- End of input where an argument is expected (or inside an open brace group) is an error. -/
theorem oneArg_eoi_plain (core : CoreSt) (c : Loc) (f d : Nat) (acc : List LTok) :
    oneArgG plainOps (f + 1) d acc ⟨[], core, c⟩ = .error ⟨.eoi, c⟩ :=
  oneArg_eoi plainOps f d acc (plain_next_nil core c)

/-- Token lists with balanced braces. -/
inductive Bal : List LTok → Prop
  | nil : Bal []
  | tok (t : LTok) (xs : List LTok) :
      t.tok ≠ .sym "BraceOpen" → t.tok ≠ .sym "BraceClose" → Bal xs → Bal (t :: xs)
  | grp (lb rb : LTok) (xs ys : List LTok) :
      lb.tok = .sym "BraceOpen" → rb.tok = .sym "BraceClose" → Bal xs → Bal ys →
      Bal (lb :: xs ++ rb :: ys)

/-- Line breaks and comments are dropped from an argument. -/
def keep (t : LTok) : Bool := t.tok != .newline && t.tok != .comment

/-- The location reported after consuming `body`. -/
def lastLoc (c : Loc) (body : List LTok) : Loc := body.foldl (fun _ t => t.loc) c

theorem lastLoc_append (c : Loc) (xs ys : List LTok) :
    lastLoc c (xs ++ ys) = lastLoc (lastLoc c xs) ys := by
  simp [lastLoc, List.foldl_append]

/-- Inside a brace group (depth ≥ 1) a balanced stretch of tokens is appended to the argument
(without line breaks and comments, inner braces kept) and the depth is unchanged. -/
theorem oneArg_bal (body : List LTok) (hb : Bal body) :
    ∀ (f d : Nat) (acc rest : List LTok) (core : CoreSt) (c : Loc), d ≥ 1 →
    oneArgG plainOps (body.length + f) d acc ⟨body ++ rest, core, c⟩ =
      oneArgG plainOps f d (acc ++ body.filter keep) ⟨rest, core, lastLoc c body⟩ := by
  induction hb with
  | nil => intro f d acc rest core c _; simp [lastLoc]
  | tok t xs h3 h4 _ ih =>
    intro f d acc rest core c hd
    have hlen : (t :: xs).length + f = (xs.length + f) + 1 := by simp; omega
    have hd0 : d ≠ 0 := by omega
    rw [hlen, List.cons_append]
    by_cases h1 : t.tok = .newline
    · have hk : keep t = false := by simp [keep, h1]
      rw [oneArg_newline plainOps _ d acc (plain_next t _ core c) h1, ih f d acc rest core _ hd]
      simp [hk, lastLoc]
    · by_cases h2 : t.tok = .comment
      · have hk : keep t = false := by simp [keep, h2]
        rw [oneArg_comment plainOps _ d acc (plain_next t _ core c) h2, ih f d acc rest core _ hd]
        simp [hk, lastLoc]
      · rw [oneArg_other plainOps _ d acc (plain_next t _ core c) h1 h2 h3 h4, if_neg hd0,
          ih f d (acc ++ [t]) rest core _ hd]
        have hk : keep t = true := by simp [keep, h1, h2]
        simp [hk, lastLoc]
  | grp lb rb xs ys hl hr _ _ ihx ihy =>
    intro f d acc rest core c hd
    have hlen : (lb :: xs ++ rb :: ys).length + f = (xs.length + ((ys.length + f) + 1)) + 1 := by
      simp; omega
    have hd0 : d > 0 := by omega
    have hkl : keep lb = true := by simp [keep, hl]
    have hkr : keep rb = true := by simp [keep, hr]
    rw [hlen, List.cons_append, List.cons_append, List.append_assoc]
    rw [oneArg_open plainOps _ d acc (plain_next lb _ core c) hl, if_pos hd0]
    rw [ihx _ (d + 1) (acc ++ [lb]) _ core _ (by omega), List.cons_append]
    rw [oneArg_close plainOps _ (d + 1) _ (plain_next rb _ core _) hr,
      if_neg (by omega), if_neg (by omega), Nat.add_sub_cancel]
    rw [ihy f d _ rest core _ hd]
    simp [List.filter_append, hkl, hkr, lastLoc, List.foldl_append]

/-- **Argument shape, brace group (balanced nesting).**  `{ body }` with `body` balanced in
braces is one argument: its tokens are those of `body` (inner braces kept, line breaks and
comments dropped), the outer braces are not part of it, and what follows `}` is left in place. -/
theorem oneArg_braces_nested (lb rb : LTok) (body rest : List LTok) (core : CoreSt) (c : Loc)
    (f : Nat) (hl : lb.tok = .sym "BraceOpen") (hr : rb.tok = .sym "BraceClose")
    (hb : Bal body) (hf : f ≥ body.length + 2) :
    oneArgG plainOps f 0 [] ⟨lb :: body ++ rb :: rest, core, c⟩ =
      .ok (body.filter keep, ⟨rest, core, rb.loc⟩) := by
  obtain ⟨k, rfl⟩ : ∃ k, f = (body.length + (k + 1)) + 1 := ⟨f - body.length - 2, by omega⟩
  rw [List.cons_append, oneArg_open plainOps _ 0 [] (plain_next lb _ core c) hl]
  simp only [Nat.lt_irrefl, gt_iff_lt, if_false, Nat.zero_add]
  rw [oneArg_bal body hb (k + 1) 1 [] (rb :: rest) core _ (Nat.le_refl 1)]
  rw [oneArg_close plainOps _ 1 _ (plain_next rb _ core _) hr]
  simp

/-- A body without braces is balanced. -/
theorem bal_of_no_brace (body : List LTok)
    (h : ∀ t ∈ body, t.tok ≠ .sym "BraceOpen" ∧ t.tok ≠ .sym "BraceClose") : Bal body := by
  induction body with
  | nil => exact .nil
  | cons t xs ih =>
    exact .tok t xs (h t (by simp)).1 (h t (by simp)).2
      (ih fun u hu => h u (List.mem_cons_of_mem _ hu))

/-- **Argument shape, brace group (the common case).**  `{ body }` where `body` holds no brace,
line break or comment is one argument consisting of exactly the tokens of `body`. -/
theorem oneArg_braces (lb rb : LTok) (body rest : List LTok) (core : CoreSt) (c : Loc)
    (f : Nat) (hl : lb.tok = .sym "BraceOpen") (hr : rb.tok = .sym "BraceClose")
    (hb : ∀ t ∈ body, Single t) (hf : f > body.length + 2) :
    oneArgG plainOps f 0 [] ⟨lb :: body ++ rb :: rest, core, c⟩ =
      .ok (body, ⟨rest, core, rb.loc⟩) := by
  rw [oneArg_braces_nested lb rb body rest core c f hl hr
    (bal_of_no_brace body fun t ht => ⟨(hb t ht).2.2.1, (hb t ht).2.2.2⟩) (by omega)]
  have : body.filter keep = body := by
    rw [List.filter_eq_self]
    intro t ht
    have := hb t ht
    simp [keep, this.1, this.2.1]
  rw [this]

/-! ## non-vacuity -/

section examples
def l0 : Loc := {}
def P : LTok := ⟨.label .global "P", l0⟩
def comma : LTok := ⟨.sym "Comma", l0⟩
def db : LTok := ⟨.dir "Db", l0⟩
def n5 : LTok := ⟨.num 5, l0⟩
def n6 : LTok := ⟨.num 6, l0⟩
def plus : LTok := ⟨.sym "Plus", l0⟩
def lbr : LTok := ⟨.sym "BraceOpen", l0⟩
def rbr : LTok := ⟨.sym "BraceClose", l0⟩

/-- the macro `@macro M, P` with body `@db P, P` as recorded by `slotOf ["P"]` -/
def mM : Macro := { args := ["P"], toks := [db, P, comma, P].map (slotOf ["P"]) }

example : mM.toks = [.tok db, .arg 0, .tok comma, .arg 0] := rfl

/-- `M {5 + 6}` replays to `@db 5 + 6 , 5 + 6`. -/
example : drain mM 20 (initState "M" [[n5, plus, n6]] l0 none "__0") =
    [db, n5, plus, n6, comma, n5, plus, n6] := by decide

example : flatSubst mM.toks [[n5, plus, n6]] "__0" = [db, n5, plus, n6, comma, n5, plus, n6] := by
  decide

/-- the argument `{5 + 6}` is read as the three tokens `5 + 6` -/
example : oneArgG plainOps 10 0 [] ⟨[lbr, n5, plus, n6, rbr, comma], {}, l0⟩ =
    .ok ([n5, plus, n6], ⟨[comma], {}, l0⟩) :=
  oneArg_braces lbr rbr [n5, plus, n6] [comma] {} l0 10 rfl rfl (by decide) (by decide)

/-- nested braces are kept: `{ {5} 6 }` is the argument `{5} 6` -/
example : oneArgG plainOps 10 0 [] ⟨[lbr, lbr, n5, rbr, n6, rbr], {}, l0⟩ =
    .ok ([lbr, n5, rbr, n6], ⟨[], {}, l0⟩) :=
  oneArg_braces_nested lbr rbr [lbr, n5, rbr, n6] [] {} l0 10 rfl rfl
    (.grp lbr rbr [n5] [n6] rfl rfl (.tok n5 [] (by decide) (by decide) .nil)
      (.tok n6 [] (by decide) (by decide) .nil)) (by decide)

/-- a zero-parameter macro and an unused parameter -/
example : flatSubst [.tok db, .tok n5] [] "__1" = [db, n5] := by decide
example : flatSubst [.tok db, .tok n5] [[n6]] "__1" = [db, n5] := by decide
end examples

end Az65.Thm.C10

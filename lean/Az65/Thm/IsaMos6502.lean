import Az65.Spec.Mos6502
/-
C03 — theorems about the MOS 6502 Spec (`Az65/Spec/Mos6502.lean`): the encoding is uniquely
decodable, every one of the 151 legal opcodes is reachable from source, only legal instructions are
ever produced, and the zero-page / absolute selection rule.
-/
namespace Az65.Thm.IsaMos6502
open Az65.Spec Az65.Spec.Mos6502

/-! ### enumerations are complete -/

theorem mn_mem_all (mn : Mn) : mn ∈ Mn.all := by cases mn <;> decide

theorem amode_mem_all (md : AMode) : md ∈ AMode.all := by cases md <;> decide

theorem mn_count : Mn.all.length = 56 := by decide

theorem amode_count : AMode.all.length = 13 := by decide

/-- `legal` is exactly the graph of `opcode`. -/
theorem mem_legal_iff (mn : Mn) (md : AMode) (op : Nat) :
    (mn, md, op) ∈ legal ↔ opcode mn md = some op := by
  simp only [legal, List.mem_flatMap, List.mem_filterMap, Option.map_eq_some_iff]
  constructor
  · rintro ⟨mn', _, md', _, op', h, heq⟩
    simp only [Prod.mk.injEq] at heq
    obtain ⟨rfl, rfl, rfl⟩ := heq
    exact h
  · intro h
    exact ⟨mn, mn_mem_all mn, md, amode_mem_all md, op, h, rfl⟩

/-! ### decode ∘ enc -/

private theorem lookup_rows :
    ∀ row ∈ legal, lookup row.2.2 = some (row.1, row.2.1) := by decide +kernel

theorem lookup_opcode {mn : Mn} {md : AMode} {op : Nat} (h : opcode mn md = some op) :
    lookup op = some (mn, md) :=
  lookup_rows (mn, md, op) ((mem_legal_iff mn md op).2 h)

/-- Decoding the encoding of a well-formed legal instruction gives the instruction back and
consumes exactly its bytes. -/
theorem decode_enc (pc : Nat) (i : Instr) (rest : List Nat)
    (hwf : wf pc i = true) (hlegal : opcode i.mn i.mode ≠ none) :
    decode pc (enc pc i ++ rest) = some (i, rest) := by
  obtain ⟨mn, mode, v⟩ := i
  simp only at hlegal
  obtain ⟨op, hop⟩ := Option.ne_none_iff_exists'.1 hlegal
  have hl := lookup_opcode hop
  cases mode <;>
    simp [wf, opSize] at hwf <;>
    simp [enc, hop, operandBytes, opSize, decode, hl] <;>
    omega

/-! ### reachability of all 151 opcodes -/

theorem parse_name (mn : Mn) : Mn.parse mn.name = some mn := by
  cases mn <;> decide +kernel

/-- A sample operand value for each addressing mode. -/
def sampleValue : AMode → Int
  | .implied | .accumulator => 0
  | .immediate | .zeroPage | .zeroPageX | .zeroPageY | .indirectX | .indirectY => 0x42
  | .absolute | .absoluteX | .absoluteY | .indirect | .relative => 0x1234

private theorem reach_rows :
    ∀ row ∈ legal,
      expectedMode row.1 (write ⟨row.1, row.2.1, sampleValue row.2.1⟩).2 true = some row.2.1 := by
  decide +kernel

/-- Every legal (mnemonic, mode) pair — hence every one of the 151 opcodes — is produced by some
source line. -/
theorem all_legal_reachable :
    ∀ row ∈ legal, ∃ m md known,
      (read m md known).map (fun i => (i.mn, i.mode)) = some (row.1, row.2.1) := by
  intro row hrow
  refine ⟨row.1.name, (write ⟨row.1, row.2.1, sampleValue row.2.1⟩).2, true, ?_⟩
  simp [Mos6502.read, parse_name, reach_rows row hrow]

/-- … and the bytes expected for that line start with the row's opcode. -/
theorem all_opcodes_reachable :
    ∀ row ∈ legal, ∃ pc m md known bs, expected pc m md known = some (row.2.2 :: bs) := by
  intro row hrow
  obtain ⟨mn, mode, op⟩ := row
  have hop : opcode mn mode = some op := (mem_legal_iff mn mode op).1 hrow
  have hr := reach_rows _ hrow
  simp only at hr
  refine ⟨0x1200, mn.name, (write ⟨mn, mode, sampleValue mode⟩).2, true,
    operandBytes 0x1200 mode (sampleValue mode), ?_⟩
  have hv : modeValue (write ⟨mn, mode, sampleValue mode⟩).2 = sampleValue mode := by
    cases mode <;> rfl
  have hw : wf 0x1200 ⟨mn, mode, sampleValue mode⟩ = true := by
    cases mode <;> simp [wf, opSize, sampleValue]
  simp [expected, Mos6502.read, parse_name, hr, hv, hw, enc, hop]

/-! ### only legal instructions -/

theorem expectedMode_legal {mn : Mn} {md : Mode} {known : Bool} {mode : AMode}
    (h : expectedMode mn md known = some mode) : opcode mn mode ≠ none := by
  unfold expectedMode at h
  simp only at h
  split at h
  · rename_i hs
    cases h
    intro hn
    simp [hn] at hs
  · cases h

theorem read_some {m : String} {md : Mode} {known : Bool} {i : Instr}
    (h : Mos6502.read m md known = some i) :
    ∃ mn, Mn.parse m = some mn ∧ i.mn = mn ∧ expectedMode mn md known = some i.mode ∧
      i.v = modeValue md := by
  unfold Mos6502.read at h
  cases hp : Mn.parse m with
  | none => simp [hp] at h
  | some mn =>
    cases he : expectedMode mn md known with
    | none => simp [hp, he] at h
    | some mode =>
      simp [hp, he] at h
      subst h
      exact ⟨mn, rfl, rfl, he, rfl⟩

/-- Whatever a source line reads as is a legal 6502 instruction. -/
theorem only_legal {m : String} {md : Mode} {known : Bool} {i : Instr}
    (h : Mos6502.read m md known = some i) : opcode i.mn i.mode ≠ none := by
  obtain ⟨mn, _, hmn, he, _⟩ := read_some h
  rw [hmn]
  exact expectedMode_legal he

/-- The expected bytes are the opcode of the selected (mnemonic, mode) followed by the operand,
low byte first, and the operand is in range. -/
theorem expected_shape {pc : Nat} {m : String} {md : Mode} {known : Bool} {bs : List Nat}
    (h : expected pc m md known = some bs) :
    ∃ i op, read m md known = some i ∧ wf pc i = true ∧ opcode i.mn i.mode = some op ∧
      bs = op :: operandBytes pc i.mode i.v := by
  unfold expected at h
  cases hr : read m md known with
  | none => simp [hr] at h
  | some i =>
    simp only [hr, Option.bind_some] at h
    split at h
    · rename_i hw
      obtain ⟨op, hop⟩ := Option.ne_none_iff_exists'.1 (only_legal hr)
      refine ⟨i, op, rfl, hw, hop, ?_⟩
      simp only [Option.some.injEq] at h
      simp [← h, enc, hop]
    · cases h

/-! ### the zero-page rule -/

def isZeroPage : AMode → Bool
  | .zeroPage | .zeroPageX | .zeroPageY => true
  | _ => false

def isAbsolute : AMode → Bool
  | .absolute | .absoluteX | .absoluteY => true
  | _ => false

/-- The value of a direct spelling `E`, `E, x`, `E, y`. -/
def directValue : Mode → Option Int
  | .direct v | .directX v | .directY v => some v
  | _ => none

private theorem normalize_direct {mn : Mn} {md : Mode} {v : Int} (hd : directValue md = some v) :
    normalize mn md = md := by
  unfold normalize
  split
  · rfl
  · cases md <;> simp_all [directValue]

private theorem hasZeroPage_not_branch {mn : Mn} (h : hasZeroPage mn = true) :
    isBranch mn = false := by
  cases mn <;> first | rfl | (revert h; decide)

private theorem candidate_direct {mn : Mn} {md : Mode} {known : Bool} {v : Int}
    (hd : directValue md = some v) (hz : hasZeroPage mn = true) :
    isZeroPage (candidate mn md known) = short known v ∧
      isAbsolute (candidate mn md known) = !short known v := by
  have hb := hasZeroPage_not_branch hz
  cases md <;> simp [directValue] at hd <;> subst hd <;>
    simp only [candidate, hz, hb, Bool.true_and, Bool.false_eq_true, if_false] <;>
    cases short known _ <;> simp [isZeroPage, isAbsolute]

private theorem short_iff {known : Bool} {v : Int} :
    short known v = true ↔ (known = true ∧ 0 ≤ v ∧ v ≤ 255) := by
  simp [short]

private theorem read_direct {m : String} {md : Mode} {known : Bool} {i : Instr} {v : Int}
    (h : Mos6502.read m md known = some i) (hd : directValue md = some v) :
    i.mode = candidate i.mn md known := by
  obtain ⟨mn, _, hmn, he, _⟩ := read_some h
  subst hmn
  unfold expectedMode at he
  rw [normalize_direct hd] at he
  simp only at he
  split at he
  · simp only [Option.some.injEq] at he
    exact he.symm
  · cases he

/-- For a mnemonic that has zero-page addressing, a direct spelling is assembled in a zero-page
mode exactly when the operand is known now and lies in `0..$FF`. -/
theorem zero_page_rule {m : String} {md : Mode} {known : Bool} {i : Instr} {v : Int}
    (h : Mos6502.read m md known = some i) (hd : directValue md = some v)
    (hz : hasZeroPage i.mn = true) :
    isZeroPage i.mode = true ↔ (known = true ∧ 0 ≤ v ∧ v ≤ 255) := by
  rw [read_direct h hd, (candidate_direct hd hz).1, short_iff]

/-- … and in the corresponding absolute mode in every other case. -/
theorem absolute_rule {m : String} {md : Mode} {known : Bool} {i : Instr} {v : Int}
    (h : Mos6502.read m md known = some i) (hd : directValue md = some v)
    (hz : hasZeroPage i.mn = true) :
    isAbsolute i.mode = true ↔ ¬ (known = true ∧ 0 ≤ v ∧ v ≤ 255) := by
  rw [read_direct h hd, (candidate_direct hd hz).2, ← short_iff]
  cases short known v <;> simp

/-- An operand not yet known selects the absolute form (for every mnemonic that is not a branch). -/
theorem unknown_selects_absolute {m : String} {md : Mode} {i : Instr} {v : Int}
    (h : Mos6502.read m md false = some i) (hd : directValue md = some v)
    (hb : isBranch i.mn = false) : isAbsolute i.mode = true := by
  rw [read_direct h hd]
  cases md <;> simp [directValue] at hd <;> simp [candidate, hb, short, isAbsolute]

/-- `jmp` / `jsr` (direct operand, no zero-page addressing): always the absolute form. -/
theorem no_zero_page_absolute {m : String} {known : Bool} {i : Instr} {v : Int}
    (h : Mos6502.read m (.direct v) known = some i)
    (hz : hasZeroPage i.mn = false) (hb : isBranch i.mn = false) : i.mode = .absolute := by
  rw [read_direct (v := v) h rfl]
  simp [candidate, hb, hz]

private theorem branch_noIndirect {mn : Mn} : isBranch mn = true → hasIndirect mn = false := by
  cases mn <;> decide

private theorem branch_relative {mn : Mn} :
    isBranch mn = true → (opcode mn .relative).isSome = true := by
  cases mn <;> decide

/-- A branch mnemonic with a direct operand is relative; the line is accepted exactly when the
target is within -128..+127 of the next instruction, and then the operand byte is the
two's-complement displacement. -/
theorem branch_rule {pc : Nat} {mn : Mn} {known : Bool} {v : Int} (hb : isBranch mn = true) :
    expected pc mn.name (.direct v) known =
      if -128 ≤ v - ((pc : Int) + 2) ∧ v - ((pc : Int) + 2) ≤ 127 then
        (opcode mn .relative).map fun op => [op, ((v - ((pc : Int) + 2)) % 256).toNat]
      else none := by
  have hm : expectedMode mn (.direct v) known = some .relative := by
    simp [expectedMode, normalize, branch_noIndirect hb, candidate, hb, branch_relative hb]
  have hrel := branch_relative hb
  cases hop : opcode mn .relative with
  | none => simp [hop] at hrel
  | some op =>
    by_cases hr : (-128 ≤ v - ((pc : Int) + 2) ∧ v - ((pc : Int) + 2) ≤ 127) <;>
      simp [expected, Mos6502.read, parse_name, hm, modeValue, wf, opSize, enc, operandBytes, hop, hr]

/-- Out-of-range operands are rejected: a known value outside `0..$FFFF` (or an unknown one that
turns out so) never assembles in a direct mode. -/
theorem direct_out_of_range_rejected {pc : Nat} {m : String} {md : Mode} {known : Bool} {v : Int}
    (hd : directValue md = some v) (hv : v < 0 ∨ 65535 < v)
    (hnb : ∀ mn, Mn.parse m = some mn → isBranch mn = false) :
    expected pc m md known = none := by
  cases hex : expected pc m md known with
  | none => rfl
  | some bs =>
    exfalso
    obtain ⟨i, op, hr, hw, _, _⟩ := expected_shape hex
    obtain ⟨mn, hp, hmn, he, hval⟩ := read_some hr
    have hb := hnb mn hp
    subst hmn
    unfold expectedMode at he
    rw [normalize_direct hd] at he
    simp only at he
    split at he
    · simp only [Option.some.injEq] at he
      obtain ⟨imn, imode, iv⟩ := i
      simp only at he hval hb hw
      subst he
      cases md <;> simp [directValue] at hd <;> subst hd <;>
        simp only [modeValue] at hval <;> subst hval <;>
        simp only [candidate, hb, Bool.false_eq_true, if_false] at hw <;>
        (split at hw <;> rename_i hc <;>
          simp [wf, opSize, short] at hw hc <;> omega)
    · cases he

/-! ### examples -/

example : expected 0 "lda" (.direct 0x10) true = some [0xA5, 0x10] := by decide +kernel
example : expected 0 "lda" (.direct 0x10) false = some [0xAD, 0x10, 0x00] := by decide +kernel
example : expected 0 "lda" (.direct 0x100) true = some [0xAD, 0x00, 0x01] := by decide +kernel
example : expected 0x10 "bne" (.direct 0x10) true = some [0xD0, 0xFE] := by decide +kernel
example : expected 0 "adc" (.directY 0x10) true = none := by decide +kernel
example : expected 0 "adc" (.directY 0x110) true = some [0x79, 0x10, 0x01] := by decide +kernel
example : expected 0 "jmp" (.direct 0x10) true = some [0x4C, 0x10, 0x00] := by decide +kernel
example : expected 0 "jmp" (.indirect 0xCAFE) true = some [0x6C, 0xFE, 0xCA] := by decide +kernel
example : expected 0 "asl" .acc true = some [0x0A] := by decide +kernel
example : expected 0 "asl" .implied true = none := by decide +kernel
example : expected 0 "stx" (.directY 0x1234) true = none := by decide +kernel
example : expected 0 "lda" (.immediate 256) true = none := by decide +kernel
example : expected 0 "lda" (.direct 0x10000) true = none := by decide +kernel
example : expected 0 "bne" (.direct 0x82) true = none := by decide +kernel
example : expected 0 "bne" (.direct 0x81) true = some [0xD0, 0x7F] := by decide +kernel
example : expected 0 "LDX" (.indirectY 0x10) true = some [0xB6, 0x10] := by decide +kernel

end Az65.Thm.IsaMos6502

import Az65.Model.Tables
/-
C18 — case, spacing and comments never change output; literals mean what the docs say.
Theorems over the name tables REGENERATED from the source on every run (`Az65/Gen/Names.lean`), and
over the literal / escape functions of the lexer Model.
-/
namespace Az65.Thm.C18
open Az65

def upperOf (s : String) : List Char := s.toList.map Char.toUpper
def lowerOf (s : String) : List Char := s.toList.map Char.toLower

/-- Every row's spelling is all lower case or all upper case, and the table also holds the
other-case spelling of the same name. -/
def casePairs (tbl : List (String × String)) : Bool :=
  tbl.all fun (sp, v) =>
    (sp.toList == lowerOf sp || sp.toList == upperOf sp) &&
    tbl.any (fun (sp2, v2) => v2 == v && sp2.toList == upperOf sp) &&
    tbl.any (fun (sp2, v2) => v2 == v && sp2.toList == lowerOf sp)

/-- **C18 (names in both cases).**  Every operation, register, flag and directive name of the
three CPUs is recognised written entirely in lower case and entirely in upper case, as the same
name — checked over the tables as they are in the source now. -/
theorem names_case_pairs :
    casePairs Gen.directiveSpell = true ∧
    casePairs Gen.z80OpSpell = true ∧ casePairs Gen.z80RegSpell = true ∧ casePairs Gen.z80FlagSpell = true ∧
    casePairs Gen.sm83OpSpell = true ∧ casePairs Gen.sm83RegSpell = true ∧ casePairs Gen.sm83FlagSpell = true ∧
    casePairs Gen.mos6502OpSpell = true ∧ casePairs Gen.mos6502RegSpell = true := by
  refine ⟨?_, ?_, ?_, ?_, ?_, ?_, ?_, ?_, ?_⟩ <;> decide +kernel

/-- A spelling never names two different things (the tables are functions). -/
def functional (tbl : List (String × String)) : Bool :=
  tbl.all fun (sp, v) => tbl.all fun (sp2, v2) => sp2 != sp || v2 == v

theorem names_functional :
    functional Gen.directiveSpell = true ∧ functional Gen.symbolSpell = true ∧
    functional Gen.z80OpSpell = true ∧ functional Gen.z80RegSpell = true ∧ functional Gen.z80FlagSpell = true ∧
    functional Gen.sm83OpSpell = true ∧ functional Gen.sm83RegSpell = true ∧ functional Gen.sm83FlagSpell = true ∧
    functional Gen.mos6502OpSpell = true ∧ functional Gen.mos6502RegSpell = true := by
  refine ⟨?_, ?_, ?_, ?_, ?_, ?_, ?_, ?_, ?_, ?_⟩ <;> decide +kernel

/-- The single-character escapes name the characters the documentation says. -/
theorem escape_values :
    escapeChar 'n' = some (Char.ofNat 10) ∧ escapeChar 'r' = some (Char.ofNat 13) ∧
    escapeChar 't' = some (Char.ofNat 9) ∧ escapeChar '\\' = some (Char.ofNat 92) ∧
    escapeChar '0' = some (Char.ofNat 0) ∧ escapeChar '"' = some (Char.ofNat 34) := by decide

/-- `\$hh` contributes exactly the byte `hh` — proved for `hh < $80`.  (Full statement: for all
`hh < 256`.  It is FALSE for `hh ≥ $80`, see `escape_high_defect`: strings are Rust `String`s end
to end, the byte is pushed as a `char` and encoded as two UTF-8 bytes — a recorded known finding.) -/
theorem escape_bytes_partial (hh : Nat) (h : hh < 128) : utf8EncodeChar hh = [hh] := by
  simp [utf8EncodeChar, h]

theorem escape_high_defect (hh : Nat) (h1 : 128 ≤ hh) (h2 : hh < 256) :
    utf8EncodeChar hh = [0xC0 + hh / 64, 0x80 + hh % 64] := by
  have : ¬ hh < 128 := by omega
  have : hh < 2048 := by omega
  simp [utf8EncodeChar, *]

/-- Hex digit values, either case. -/
theorem hex_digit_values :
    ("0123456789abcdef".toList.map digitVal) = List.range 16 ∧
    ("ABCDEF".toList.map digitVal) = [10, 11, 12, 13, 14, 15] := by decide

/-- A number literal's value is the positional value of its digits (any base), and a literal that
does not fit 32 bits is rejected, never wrapped. -/
theorem literal_value (radix : Nat) (digits : List Char) (v : Nat)
    (h : parseU32 radix digits = some v) :
    v = digits.foldl (fun acc c => acc * radix + digitVal c) 0 ∧ v < 4294967296 := by
  unfold parseU32 at h
  split at h
  · simp at h
  · simp only [] at h
    split at h
    · simp at h; exact ⟨h.symm, by omega⟩
    · simp at h

/-- A character literal is the little-endian value of its (at most four) UTF-8 bytes. -/
theorem char_literal_ascii (c : Nat) (h : c < 128) : leU32 (utf8EncodeChar c) = c := by
  simp [utf8EncodeChar, h, leU32]

end Az65.Thm.C18

import Az65.Model.Abs
import Az65.Lemmas.AbsFrame
/-
C07 — nothing is ever placed above address $FFFF.

"The current address never exceeds $10000: any statement that would place a byte at an address
above $FFFF - whether an instruction, @db, @dw, @ds, @align padding or @incbin data, and whether
its value is known immediately or only at link time - is rejected with a diagnostic, and a
statement that ends exactly at $10000 is accepted.  Consequently every label value lies in
0..=$10000."

The theorems are about the pure effect functions (`Az65.Eff`, shared by the token-level and the
statement-level model) and about `Abs.exec` / `Abs.run`.  Helper lemmas (frames, inversion of
`exec`): `Az65/Lemmas/AbsFrame.lean`.
-/
namespace Az65.Thm.C07
open Az65 Az65.Abs Az65.AbsFrame

/-! ## 1. every effect keeps `here ≤ TOP` -/

theorem eff_label_here_le {c c' : CoreSt} {d : String} {loc : Loc} (h0 : c.here ≤ TOP)
    (h : Eff.label c d loc = .ok c') : c'.here ≤ TOP := by
  unfold Eff.label at h
  split at h
  · cases h
  · cases h; exact h0

/-- `@org` accepts only values up to $FFFF, so the new address is below `TOP` whatever it was. -/
theorem eff_org_here_le {c c' : CoreSt} {v : Option I32} {loc : Loc}
    (h : Eff.org c v loc = .ok c') : c'.here ≤ TOP := by
  unfold Eff.org at h
  split at h
  · cases h
  · split at h
    · cases h
    · next hv => cases h; show u32 _ ≤ TOP; simp only [TOP]; omega

theorem eff_dbStr_here_le {c c' : CoreSt} {bytes : List Nat} {loc : Loc}
    (h : Eff.dbStr c bytes loc = .ok c') : c'.here ≤ TOP := by
  unfold Eff.dbStr at h
  split at h
  · cases h
  · next hv => cases h; show c.here + bytes.length ≤ TOP; omega

theorem eff_dbVal_here_le {c c' : CoreSt} {v : Option I32} {ns : List Node} {loc : Loc}
    (h : Eff.dbVal c v ns loc = .ok c') : c'.here ≤ TOP := by
  unfold Eff.dbVal at h
  split at h
  · split at h
    · cases h
    · split at h
      · cases h
      · next hv => cases h; show c.here + 1 ≤ TOP; omega
  · split at h
    · cases h
    · next hv => cases h; show c.here + 1 ≤ TOP; omega

theorem eff_dwVal_here_le {c c' : CoreSt} {v : Option I32} {ns : List Node} {loc : Loc}
    (h : Eff.dwVal c v ns loc = .ok c') : c'.here ≤ TOP := by
  unfold Eff.dwVal at h
  split at h
  · split at h
    · cases h
    · split at h
      · cases h
      · next hv => cases h; show c.here + 2 ≤ TOP; omega
  · split at h
    · cases h
    · next hv => cases h; show c.here + 2 ≤ TOP; omega

theorem eff_skip_here_le {c c' : CoreSt} {n : Nat} {loc : Loc}
    (h : Eff.skip c n loc = .ok c') : c'.here ≤ TOP := by
  unfold Eff.skip at h
  split at h
  · cases h
  · next hv => cases h; show c.here + n ≤ TOP; omega

theorem eff_dsSize_here_le {c c' : CoreSt} {v : Option I32} {n : Nat} {loc : Loc}
    (h : Eff.dsSize c v loc = .ok (c', n)) : c'.here ≤ TOP := by
  unfold Eff.dsSize at h
  split at h
  · cases h
  · split at h
    · cases h
    · split at h
      · cases h
      · next sz _ hv => cases h; show c.here + u32 sz ≤ TOP; omega

/-- The fill of `@ds` does not move the address (the size operand already did). -/
theorem eff_dsFill_here {c c' : CoreSt} {n : Nat} {fill : Option (Option I32)} {ns : List Node}
    {loc : Loc} (h : Eff.dsFill c n fill ns loc = .ok c') : c'.here = c.here := by
  unfold Eff.dsFill at h
  split at h
  · cases h; rfl
  · split at h
    · cases h
    · cases h; rfl
  · cases h; rfl

theorem eff_dsFill_here_le {c c' : CoreSt} {n : Nat} {fill : Option (Option I32)} {ns : List Node}
    {loc : Loc} (h0 : c.here ≤ TOP) (h : Eff.dsFill c n fill ns loc = .ok c') : c'.here ≤ TOP := by
  rw [eff_dsFill_here h]; exact h0

theorem eff_align_here_le {c c' : CoreSt} {code : Bool} {v : Option I32} {loc : Loc}
    (h : Eff.align c code v loc = .ok c') : c'.here ≤ TOP := by
  unfold Eff.align at h
  split at h
  · cases h
  · split at h
    · cases h
    · simp only at h
      split at h
      · cases h
      · split at h
        · cases h
        · next hv =>
          split at h
          · cases h; exact Nat.le_of_not_gt hv
          · cases h; exact Nat.le_of_not_gt hv

theorem eff_incbin_here_le {c c' : CoreSt} {loc : Loc} {bytes : List Nat} (h0 : c.here ≤ TOP)
    (h : Eff.incbin c loc bytes = .ok c') : c'.here ≤ TOP := by
  induction bytes generalizing c with
  | nil => simp only [Eff.incbin] at h; cases h; exact h0
  | cons b r ih =>
    simp only [Eff.incbin] at h
    split at h
    · cases h
    · next hv => exact ih (c := { c.push b with here := c.here + 1 }) (Nat.le_of_not_gt hv) h

theorem eff_instrTail_here_le {c c' : CoreSt} {oldLen : Nat} {loc : Loc}
    (h : Eff.instrTail c oldLen loc = .ok c') : c'.here ≤ TOP := by
  unfold Eff.instrTail at h
  simp only at h
  split at h
  · cases h
  · next hv => cases h; exact Nat.le_of_not_gt hv

theorem eff_assert_here {c c' : CoreSt} {v : Option I32} {ns : List Node} {msg : Option String}
    {loc : Loc} (h : Eff.assert c v ns msg loc = .ok c') : c'.here = c.here := by
  unfold Eff.assert at h
  split at h
  · split at h
    · cases h
    · cases h; rfl
  · cases h; rfl

theorem eff_assert_here_le {c c' : CoreSt} {v : Option I32} {ns : List Node} {msg : Option String}
    {loc : Loc} (h0 : c.here ≤ TOP) (h : Eff.assert c v ns msg loc = .ok c') : c'.here ≤ TOP := by
  rw [eff_assert_here h]; exact h0

theorem eff_define_here {c c' : CoreSt} {keep : Bool} {d : String} {ns : List Node} {loc : Loc}
    (h : Eff.define c keep d ns loc = .ok c') : c'.here = c.here := by
  unfold Eff.define at h
  split at h
  · cases h
  · split at h
    · cases h; rfl
    · cases h; rfl

theorem eff_define_here_le {c c' : CoreSt} {keep : Bool} {d : String} {ns : List Node} {loc : Loc}
    (h0 : c.here ≤ TOP) (h : Eff.define c keep d ns loc = .ok c') : c'.here ≤ TOP := by
  rw [eff_define_here h]; exact h0

theorem eff_redefine_here (c : CoreSt) (keep : Bool) (d : String) (ns : List Node) :
    (Eff.redefine c keep d ns).here = c.here := by
  unfold Eff.redefine; split <;> rfl

theorem eff_redefine_here_le {c : CoreSt} {keep : Bool} {d : String} {ns : List Node}
    (h0 : c.here ≤ TOP) : (Eff.redefine c keep d ns).here ≤ TOP := by
  rw [eff_redefine_here]; exact h0

theorem eff_undef_here_le {c : CoreSt} {d : String} (h0 : c.here ≤ TOP) :
    (Eff.undef c d).here ≤ TOP := h0

theorem eff_structField_here_le {c c' : CoreSt} {d : String} {size fs sz' : I32} {txt : String}
    {loc : Loc} (h0 : c.here ≤ TOP) (h : Eff.structField c d size fs txt loc = .ok (c', sz')) :
    c'.here ≤ TOP := by
  unfold Eff.structField at h
  split at h
  · cases h
  · cases h; exact h0

/-! ## 2. every statement, every program keeps `here ≤ TOP` -/

/-- Reading an expression does not move the address. -/
theorem resolve_here_frame (c : CoreSt) (e : List Node) : (resolve c e).1.here = c.here :=
  resolve_here c e

/-- Emitting one instruction field does not move the address (the statement tail does). -/
theorem piece_here_frame {c c' : CoreSt} {p : Piece} (h : piece c p = .ok c') : c'.here = c.here :=
  piece_inv frame_here h

theorem pieces_here_frame {c c' : CoreSt} {ps : List Piece} (h : pieces c ps = .ok c') :
    c'.here = c.here :=
  pieces_inv frame_here h

/-- Struct members never move the address. -/
theorem members_here_frame {sname : String} {c c' : CoreSt} {size size' : I32} {ms : List Member}
    (h : members sname c size ms = .ok (c', size')) : c'.here = c.here :=
  members_inv (f := (·.here)) (fun _ _ => rfl) (fun _ _ => rfl) h

/-- **C07 (one statement).** Whatever the statement — label, `@org`, `@db` string or value,
`@dw`, `@ds`, `@align`, `@incbin`, an instruction of any shape, `@assert`, a definition, a segment
switch, a struct — if it is accepted from a state whose address is at most $10000, the address
afterwards is at most $10000. -/
theorem exec_here_le {s s' : State} {st : Stmt} (h0 : s.core.here ≤ TOP)
    (h : exec s st = .ok s') : s'.core.here ≤ TOP := by
  cases st with
  | label d =>
    obtain ⟨c', hc, rfl⟩ := exec_label h
    exact eff_label_here_le h0 hc
  | org e =>
    obtain ⟨v, c', _, hc, rfl⟩ := exec_org h
    exact eff_org_here_le hc
  | dbStr bytes =>
    rcases exec_dbStr h with ⟨_, c', hc, rfl⟩ | ⟨_, c', hc, rfl⟩
    · exact eff_dbStr_here_le hc
    · exact eff_skip_here_le hc
  | dbVal e =>
    rcases exec_dbVal h with ⟨_, v, c', _, hc, rfl⟩ | ⟨_, c', hc, rfl⟩
    · exact eff_dbVal_here_le hc
    · exact eff_skip_here_le hc
  | dwVal e =>
    rcases exec_dwVal h with ⟨_, v, c', _, hc, rfl⟩ | ⟨_, c', hc, rfl⟩
    · exact eff_dwVal_here_le hc
    · exact eff_skip_here_le hc
  | ds size fill =>
    obtain ⟨v, c1, n, _, hsz, hrest⟩ := exec_ds h
    have h1 : c1.here ≤ TOP := eff_dsSize_here_le hsz
    rcases hrest with ⟨_, rfl⟩ | ⟨_, _, c', hc, rfl⟩ | ⟨_, fe, fv, c', _, _, hc, rfl⟩
    · exact h1
    · exact eff_dsFill_here_le h1 hc
    · exact eff_dsFill_here_le (by rw [resolve_here]; exact h1) hc
  | align e =>
    obtain ⟨v, c', _, hc, rfl⟩ := exec_align h
    exact eff_align_here_le hc
  | incbin bytes =>
    obtain ⟨_, c', hc, rfl⟩ := exec_incbin h
    exact eff_incbin_here_le h0 hc
  | instr ps =>
    obtain ⟨_, c1, c', _, hc, rfl⟩ := exec_instr h
    exact eff_instrTail_here_le hc
  | assert e =>
    obtain ⟨v, c', _, hc, rfl⟩ := exec_assert h
    exact eff_assert_here_le (by rw [resolve_here]; exact h0) hc
  | define keep d e =>
    obtain ⟨_, c', hc, rfl⟩ := exec_define h
    exact eff_define_here_le (by rw [resolve_here]; exact h0) hc
  | redefine keep d e =>
    rw [exec_redefine h]
    exact eff_redefine_here_le (by rw [resolve_here]; exact h0)
  | undef d => rw [exec_undef h]; exact h0
  | segment code => rw [exec_segment h]; exact h0
  | struct name ms =>
    obtain ⟨_, c, size, hm, rfl⟩ := exec_struct h
    show c.here ≤ TOP
    rw [members_here_frame hm]; exact h0

/-- **C07 (programs).** Along any accepted statement list the address stays at most $10000. -/
theorem run_here_le {s s' : State} {prog : List Stmt} (h0 : s.core.here ≤ TOP)
    (h : run s prog = .ok s') : s'.core.here ≤ TOP := by
  induction prog generalizing s with
  | nil => rw [run_nil h]; exact h0
  | cons st r ih =>
    obtain ⟨s1, hs, hr⟩ := run_cons h
    exact ih (exec_here_le h0 hs) hr

/-- From the initial state (address 0) every accepted program ends with an address ≤ $10000. -/
theorem run_from_init_here_le {s' : State} {prog : List Stmt} (h : run {} prog = .ok s') :
    s'.core.here ≤ TOP :=
  run_here_le (by decide) h

/-- … and so does every intermediate state: after any prefix of an accepted program. -/
theorem run_prefix_here_le {s'' : State} {p q : List Stmt} (h : run {} (p ++ q) = .ok s'') :
    ∃ s', run {} p = .ok s' ∧ run s' q = .ok s'' ∧ s'.core.here ≤ TOP := by
  obtain ⟨s', hp, hq⟩ := run_append h
  exact ⟨s', hp, hq, run_from_init_here_le hp⟩

/-! ## 3. label values -/

/-- **C07 (labels, one step).** A label defined while the address is at most $10000 is stored as
the plain value `here`, which lies in 0..=$10000 (and is not wrapped by the 32-bit representation). -/
theorem label_value_le_top {c c' : CoreSt} {d : String} {loc : Loc} (h0 : c.here ≤ TOP)
    (h : Eff.label c d loc = .ok c') :
    c'.symtab.get d = some ⟨.val (i32OfNat c.here), c.curMeta⟩ ∧ c.here ≤ 65536 ∧
      (i32OfNat c.here).toNat = c.here := by
  unfold Eff.label at h
  split at h
  · cases h
  · cases h
    refine ⟨get_set_self _ _ _, h0, ?_⟩
    simp only [i32OfNat, BitVec.toNat_ofNat]
    simp only [TOP] at h0
    omega

/-- `d` holds a plain value in 0..=$10000. -/
def LabelVal (c : CoreSt) (d : String) : Prop :=
  ∃ e v, c.symtab.get d = some e ∧ e.sym = .val v ∧ v.toNat ≤ 65536

/-- The statements that may replace or delete an existing symbol `d`. -/
def overwrites (d : String) : Stmt → Bool
  | .redefine _ d' _ => d' == d
  | .undef d' => d' == d
  | _ => false

theorem exec_label_labelVal {s s' : State} {d : String} (h0 : s.core.here ≤ TOP)
    (h : exec s (.label d) = .ok s') : LabelVal s'.core d := by
  obtain ⟨c', hc, rfl⟩ := exec_label h
  obtain ⟨hg, hle, hn⟩ := label_value_le_top h0 hc
  exact ⟨_, _, hg, rfl, by rw [hn]; exact hle⟩

/-! Only `@redefl`/`@redefn`/`@undef` touch an existing entry; every other insertion is guarded by
an "already defined" test. -/

/-- A struct member leaves the table alone or adds a name that was absent. -/
theorem member_symtab {sname : String} {c c' : CoreSt} {size size' : I32} {m : Member}
    (h : member sname c size m = .ok (c', size')) :
    c'.symtab = c.symtab ∨
      ∃ n e, (c.symtab.get n).isSome = false ∧ c'.symtab = c.symtab.set n e := by
  cases m with
  | field name sz =>
    simp only [member] at h
    have hs := resolve_symtab c sz
    generalize resolve c sz = r at h hs
    obtain ⟨c1, e1⟩ := r
    simp only at h hs
    split at h
    · cases h
    · cases h
    · next fs _ =>
      simp only [Eff.structField] at h
      split at h
      · cases h
      · next habs =>
        cases h
        rw [hs] at habs
        refine .inr ⟨sname ++ "." ++ name, ⟨.val size, [("@SIZEOF", toString fs.toInt)]⟩,
          by simpa using habs, ?_⟩
        show Env.set c1.symtab _ _ = _
        rw [hs]
  | pad sz =>
    simp only [member] at h
    have hs := resolve_symtab c sz
    generalize resolve c sz = r at h hs
    obtain ⟨c1, e1⟩ := r
    simp only at h hs
    split at h
    · cases h
    · cases h
    · cases h; exact .inl hs
  | align al =>
    simp only [member] at h
    have hs := resolve_symtab c al
    generalize resolve c al = r at h hs
    obtain ⟨c1, e1⟩ := r
    simp only at h hs
    split at h
    · cases h
    · cases h
    · split at h
      · cases h
      · cases h; exact .inl hs

theorem members_entry {sname : String} {c c' : CoreSt} {size size' : I32} {ms : List Member}
    {d : String} {x : Entry} (h : members sname c size ms = .ok (c', size'))
    (hx : c.symtab.get d = some x) : c'.symtab.get d = some x := by
  induction ms generalizing c size with
  | nil => simp only [members] at h; cases h; exact hx
  | cons m r ih =>
    obtain ⟨c1, s1, hm, hr⟩ := members_cons h
    refine ih hr ?_
    rcases member_symtab hm with h1 | ⟨n, e, habs, h1⟩
    · rw [h1]; exact hx
    · rw [h1]; exact get_set_of_absent _ _ _ _ _ habs hx

theorem eff_incbin_symtab {c c' : CoreSt} {loc : Loc} {bytes : List Nat}
    (h : Eff.incbin c loc bytes = .ok c') : c'.symtab = c.symtab := by
  induction bytes generalizing c with
  | nil => simp only [Eff.incbin] at h; cases h; rfl
  | cons b r ih =>
    simp only [Eff.incbin] at h
    split at h
    · cases h
    · exact ih (c := { c.push b with here := c.here + 1 }) h

/-- A statement other than a `@redef*`/`@undef` of `d` keeps the entry of `d`. -/
theorem exec_preserves_entry {s s' : State} {st : Stmt} {d : String} {x : Entry}
    (h : exec s st = .ok s') (hno : overwrites d st = false)
    (hx : s.core.symtab.get d = some x) : s'.core.symtab.get d = some x := by
  cases st with
  | label d' =>
    obtain ⟨c', hc, rfl⟩ := exec_label h
    unfold Eff.label at hc
    split at hc
    · cases hc
    · next habs => cases hc; exact get_set_of_absent _ _ _ _ _ (by simpa using habs) hx
  | org e =>
    obtain ⟨v, c', _, hc, rfl⟩ := exec_org h
    have : c'.symtab = s.core.symtab := by
      rw [← resolve_symtab s.core e]
      simp only [Eff.org] at hc
      repeat' split at hc
      all_goals first | (cases hc; done) | (cases hc; rfl)
    show c'.symtab.get d = some x
    rw [this]; exact hx
  | dbStr bytes =>
    have : s'.core.symtab = s.core.symtab := by
      rcases exec_dbStr h with ⟨_, c', hc, rfl⟩ | ⟨_, c', hc, rfl⟩
      · simp only [Eff.dbStr] at hc
        repeat' split at hc
        all_goals first | (cases hc; done) | (cases hc; rfl)
      · simp only [Eff.skip] at hc
        repeat' split at hc
        all_goals first | (cases hc; done) | (cases hc; rfl)
    rw [this]; exact hx
  | dbVal e =>
    have : s'.core.symtab = s.core.symtab := by
      rcases exec_dbVal h with ⟨_, v, c', _, hc, rfl⟩ | ⟨_, c', hc, rfl⟩
      · rw [← resolve_symtab s.core e]
        simp only [Eff.dbVal] at hc
        repeat' split at hc
        all_goals first | (cases hc; done) | (cases hc; rfl)
      · simp only [Eff.skip] at hc
        repeat' split at hc
        all_goals first | (cases hc; done) | (cases hc; rfl)
    rw [this]; exact hx
  | dwVal e =>
    have : s'.core.symtab = s.core.symtab := by
      rcases exec_dwVal h with ⟨_, v, c', _, hc, rfl⟩ | ⟨_, c', hc, rfl⟩
      · rw [← resolve_symtab s.core e]
        simp only [Eff.dwVal] at hc
        repeat' split at hc
        all_goals first | (cases hc; done) | (cases hc; rfl)
      · simp only [Eff.skip] at hc
        repeat' split at hc
        all_goals first | (cases hc; done) | (cases hc; rfl)
    rw [this]; exact hx
  | ds size fill =>
    have : s'.core.symtab = s.core.symtab := by
      obtain ⟨v, c1, n, _, hsz, hrest⟩ := exec_ds h
      have h1 : c1.symtab = s.core.symtab := by
        rw [← resolve_symtab s.core size]
        simp only [Eff.dsSize] at hsz
        repeat' split at hsz
        all_goals first | (cases hsz; done) | (cases hsz; rfl)
      rcases hrest with ⟨_, rfl⟩ | ⟨_, _, c', hc, rfl⟩ | ⟨_, fe, fv, c', _, _, hc, rfl⟩
      · exact h1
      · rw [← h1]
        simp only [Eff.dsFill] at hc
        cases hc; rfl
      · rw [← h1, ← resolve_symtab c1 fe]
        simp only [Eff.dsFill] at hc
        repeat' split at hc
        all_goals first | (cases hc; done) | (cases hc; rfl)
    rw [this]; exact hx
  | align e =>
    have : s'.core.symtab = s.core.symtab := by
      obtain ⟨v, c', _, hc, rfl⟩ := exec_align h
      rw [← resolve_symtab s.core e]
      simp only [Eff.align] at hc
      repeat' split at hc
      all_goals first | (cases hc; done) | (cases hc; rfl)
    rw [this]; exact hx
  | incbin bytes =>
    obtain ⟨_, c', hc, rfl⟩ := exec_incbin h
    show c'.symtab.get d = some x
    rw [eff_incbin_symtab hc]; exact hx
  | instr ps =>
    have : s'.core.symtab = s.core.symtab := by
      obtain ⟨_, c1, c', hp, hc, rfl⟩ := exec_instr h
      rw [← pieces_inv frame_symtab hp]
      simp only [Eff.instrTail] at hc
      repeat' split at hc
      all_goals first | (cases hc; done) | (cases hc; rfl)
    rw [this]; exact hx
  | assert e =>
    have : s'.core.symtab = s.core.symtab := by
      obtain ⟨v, c', _, hc, rfl⟩ := exec_assert h
      rw [← resolve_symtab s.core e]
      simp only [Eff.assert] at hc
      repeat' split at hc
      all_goals first | (cases hc; done) | (cases hc; rfl)
    rw [this]; exact hx
  | define keep d' e =>
    obtain ⟨habs, c', hc, rfl⟩ := exec_define h
    have hs := resolve_symtab s.core e
    simp only [Eff.define] at hc
    split at hc
    · cases hc
    · split at hc
      · cases hc
        show Env.get (Env.set _ _ _) d = some x
        rw [hs]; exact get_set_of_absent _ _ _ _ _ habs hx
      · cases hc
        show Env.get (Env.set _ _ _) d = some x
        rw [hs]; exact get_set_of_absent _ _ _ _ _ habs hx
  | redefine keep d' e =>
    rw [exec_redefine h]
    have hne : d' ≠ d := by simpa [overwrites] using hno
    have hs := resolve_symtab s.core e
    simp only [Eff.redefine]
    split
    · show Env.get (Env.set _ _ _) d = some x
      rw [hs, get_set_of_ne _ _ _ _ hne]; exact hx
    · show Env.get (Env.set _ _ _) d = some x
      rw [hs, get_set_of_ne _ _ _ _ hne]; exact hx
  | undef d' =>
    rw [exec_undef h]
    have hne : d' ≠ d := by simpa [overwrites] using hno
    show Env.get (Env.remove _ _) d = some x
    rw [get_remove_of_ne _ _ _ hne]; exact hx
  | segment code => rw [exec_segment h]; exact hx
  | struct name ms =>
    obtain ⟨habs, c, size, hm, rfl⟩ := exec_struct h
    have hne : name ≠ d := by
      intro he; subst he; rw [hx] at habs; cases habs
    show Env.get (Env.set c.symtab _ _) d = some x
    rw [get_set_of_ne _ _ _ _ hne]
    exact members_entry hm hx

theorem run_preserves_entry {s s' : State} {prog : List Stmt} {d : String} {x : Entry}
    (h : run s prog = .ok s') (hno : ∀ st ∈ prog, overwrites d st = false)
    (hx : s.core.symtab.get d = some x) : s'.core.symtab.get d = some x := by
  induction prog generalizing s with
  | nil => rw [run_nil h]; exact hx
  | cons st r ih =>
    obtain ⟨s1, hs, hr⟩ := run_cons h
    exact ih hr (fun st' hm => hno st' (List.mem_cons_of_mem _ hm))
      (exec_preserves_entry hs (hno st List.mem_cons_self) hx)

/-- **C07 (labels, whole programs).** In an accepted program every label `d` (that is not later
replaced by `@redefl`/`@redefn` or deleted by `@undef`) ends up holding a plain value in
0..=$10000. -/
theorem run_all_labels_le {s s' : State} {prog : List Stmt} (h0 : s.core.here ≤ TOP)
    (h : run s prog = .ok s') (d : String) (hd : Stmt.label d ∈ prog)
    (hno : ∀ st ∈ prog, overwrites d st = false) : LabelVal s'.core d := by
  induction prog generalizing s with
  | nil => cases hd
  | cons st r ih =>
    obtain ⟨s1, hs, hr⟩ := run_cons h
    have hno' : ∀ st' ∈ r, overwrites d st' = false := fun st' hm => hno st' (List.mem_cons_of_mem _ hm)
    rcases List.mem_cons.mp hd with rfl | hd'
    · obtain ⟨e, v, hg, hv, hle⟩ := exec_label_labelVal h0 hs
      exact ⟨e, v, run_preserves_entry hr hno' hg, hv, hle⟩
    · exact ih (exec_here_le h0 hs) hr hd' hno'

/-! ## 4. a statement that would end above $10000 is rejected -/

theorem past_top_rejected_dbStr {c : CoreSt} {bytes : List Nat} {loc : Loc}
    (h : c.here + bytes.length > TOP) : Eff.dbStr c bytes loc = .error ⟨.addrOverflow, loc⟩ := by
  simp only [Eff.dbStr, h, if_true]

/-- `@db` item whose value is known now. -/
theorem past_top_rejected_dbVal_now {c : CoreSt} {v : I32} {ns : List Node} {loc : Loc}
    (hv : u32 v ≤ 255) (h : c.here + 1 > TOP) :
    Eff.dbVal c (some v) ns loc = .error ⟨.addrOverflow, loc⟩ := by
  simp only [Eff.dbVal, Nat.not_lt.mpr hv, h, if_true, if_false]

/-- `@db` item whose value is only known at link time. -/
theorem past_top_rejected_dbVal_deferred {c : CoreSt} {ns : List Node} {loc : Loc}
    (h : c.here + 1 > TOP) : Eff.dbVal c none ns loc = .error ⟨.addrOverflow, loc⟩ := by
  simp only [Eff.dbVal, h, if_true]

theorem past_top_rejected_dwVal_now {c : CoreSt} {v : I32} {ns : List Node} {loc : Loc}
    (hv : u32 v ≤ 65535) (h : c.here + 2 > TOP) :
    Eff.dwVal c (some v) ns loc = .error ⟨.addrOverflow, loc⟩ := by
  simp only [Eff.dwVal, Nat.not_lt.mpr hv, h, if_true, if_false]

theorem past_top_rejected_dwVal_deferred {c : CoreSt} {ns : List Node} {loc : Loc}
    (h : c.here + 2 > TOP) : Eff.dwVal c none ns loc = .error ⟨.addrOverflow, loc⟩ := by
  simp only [Eff.dwVal, h, if_true]

/-- `@db`/`@dw` in an ADDR segment. -/
theorem past_top_rejected_skip {c : CoreSt} {n : Nat} {loc : Loc} (h : c.here + n > TOP) :
    Eff.skip c n loc = .error ⟨.addrOverflow, loc⟩ := by
  simp only [Eff.skip, h, if_true]

theorem past_top_rejected_dsSize {c : CoreSt} {sz : I32} {loc : Loc}
    (hv : u32 sz ≤ 65535) (h : c.here + u32 sz > TOP) :
    Eff.dsSize c (some sz) loc = .error ⟨.addrOverflow, loc⟩ := by
  simp only [Eff.dsSize, Nat.not_lt.mpr hv, h, if_true, if_false]

/-- `@align` (both segment kinds): the padding is what would be placed. -/
theorem past_top_rejected_align {c : CoreSt} {code : Bool} {al : I32} {loc : Loc}
    (hal : ¬ al.toInt < 2) (hp : (u32 al - c.here % u32 al) % u32 al ≤ 65535)
    (h : c.here + (u32 al - c.here % u32 al) % u32 al > TOP) :
    Eff.align c code (some al) loc = .error ⟨.addrOverflow, loc⟩ := by
  simp only [Eff.align, hal, Nat.not_lt.mpr hp, h, if_true, if_false]

/-- `@incbin`: the file is placed byte by byte; the first byte that does not fit stops it. -/
theorem past_top_rejected_incbin {c : CoreSt} {loc : Loc} {bytes : List Nat} (h0 : c.here ≤ TOP)
    (h : c.here + bytes.length > TOP) :
    Eff.incbin c loc bytes = .error ⟨.addrOverflow, loc⟩ := by
  induction bytes generalizing c with
  | nil => simp only [List.length_nil] at h; omega
  | cons b r ih =>
    simp only [Eff.incbin]
    split
    · rfl
    · next hn =>
      apply ih
      · show c.here + 1 ≤ TOP; omega
      · show c.here + 1 + r.length > TOP
        simp only [List.length_cons] at h; omega

/-- An instruction (of any shape) whose bytes would end above $10000. -/
theorem past_top_rejected_instrTail {c : CoreSt} {oldLen : Nat} {loc : Loc}
    (h : c.here + (c.dataLen - oldLen) > TOP) :
    Eff.instrTail c oldLen loc = .error ⟨.addrOverflow, loc⟩ := by
  simp only [Eff.instrTail, h, if_true]

/-- Statement level: an instruction that emits `k` bytes from address `here` with
`here + k > $10000` is rejected with the address-overflow diagnostic. -/
theorem past_top_rejected_instr {s : State} {ps : List Piece} {c1 : CoreSt} (hc : s.code = true)
    (hp : pieces s.core ps = .ok c1)
    (h : s.core.here + (c1.dataLen - s.core.dataLen) > TOP) :
    exec s (.instr ps) = .error ⟨.addrOverflow, {}⟩ := by
  have hh := pieces_here_frame hp
  simp only [exec, hc, hp, if_true]
  rw [past_top_rejected_instrTail (by rw [hh]; exact h)]
  rfl

/-! ## 5. a statement that ends exactly at $10000 is accepted -/

theorem ends_at_top_accepted_dbStr {c : CoreSt} {bytes : List Nat} {loc : Loc}
    (h : c.here + bytes.length = TOP) :
    ∃ c', Eff.dbStr c bytes loc = .ok c' ∧ c'.here = TOP := by
  have hn : ¬ c.here + bytes.length > TOP := by omega
  exact ⟨_, by rw [Eff.dbStr, if_neg hn], h⟩

theorem ends_at_top_accepted_dbVal_now {c : CoreSt} {v : I32} {ns : List Node} {loc : Loc}
    (hv : u32 v ≤ 255) (h : c.here + 1 = TOP) :
    ∃ c', Eff.dbVal c (some v) ns loc = .ok c' ∧ c'.here = TOP := by
  have hn : ¬ c.here + 1 > TOP := by omega
  have hv' : ¬ u32 v > 255 := by omega
  exact ⟨_, by simp only [Eff.dbVal]; rw [if_neg hv', if_neg hn], h⟩

theorem ends_at_top_accepted_dbVal_deferred {c : CoreSt} {ns : List Node} {loc : Loc}
    (h : c.here + 1 = TOP) :
    ∃ c', Eff.dbVal c none ns loc = .ok c' ∧ c'.here = TOP := by
  have hn : ¬ c.here + 1 > TOP := by omega
  exact ⟨_, by simp only [Eff.dbVal]; rw [if_neg hn], h⟩

theorem ends_at_top_accepted_dwVal_now {c : CoreSt} {v : I32} {ns : List Node} {loc : Loc}
    (hv : u32 v ≤ 65535) (h : c.here + 2 = TOP) :
    ∃ c', Eff.dwVal c (some v) ns loc = .ok c' ∧ c'.here = TOP := by
  have hn : ¬ c.here + 2 > TOP := by omega
  have hv' : ¬ u32 v > 65535 := by omega
  exact ⟨_, by simp only [Eff.dwVal]; rw [if_neg hv', if_neg hn], h⟩

theorem ends_at_top_accepted_dwVal_deferred {c : CoreSt} {ns : List Node} {loc : Loc}
    (h : c.here + 2 = TOP) :
    ∃ c', Eff.dwVal c none ns loc = .ok c' ∧ c'.here = TOP := by
  have hn : ¬ c.here + 2 > TOP := by omega
  exact ⟨_, by simp only [Eff.dwVal]; rw [if_neg hn], h⟩

theorem ends_at_top_accepted_skip {c : CoreSt} {n : Nat} {loc : Loc} (h : c.here + n = TOP) :
    ∃ c', Eff.skip c n loc = .ok c' ∧ c'.here = TOP := by
  have hn : ¬ c.here + n > TOP := by omega
  exact ⟨_, by rw [Eff.skip, if_neg hn], h⟩

theorem ends_at_top_accepted_dsSize {c : CoreSt} {sz : I32} {loc : Loc}
    (hv : u32 sz ≤ 65535) (h : c.here + u32 sz = TOP) :
    ∃ c', Eff.dsSize c (some sz) loc = .ok (c', u32 sz) ∧ c'.here = TOP := by
  have hn : ¬ c.here + u32 sz > TOP := by omega
  have hv' : ¬ u32 sz > 65535 := by omega
  exact ⟨_, by simp only [Eff.dsSize]; rw [if_neg hv', if_neg hn], h⟩

/-- The fill of `@ds` never fails for address reasons (and a solved fill only for its range). -/
theorem ends_at_top_accepted_dsFill {c : CoreSt} {n : Nat} {fill : Option (Option I32)}
    {ns : List Node} {loc : Loc} (hf : ∀ v, fill = some (some v) → u32 v ≤ 255) :
    ∃ c', Eff.dsFill c n fill ns loc = .ok c' ∧ c'.here = c.here := by
  cases fill with
  | none => exact ⟨_, rfl, rfl⟩
  | some o =>
    cases o with
    | none => exact ⟨_, rfl, rfl⟩
    | some v =>
      have := hf v rfl
      have hv' : ¬ u32 v > 255 := by omega
      exact ⟨c.pushAll (List.replicate n (lowByte v)), by simp only [Eff.dsFill]; rw [if_neg hv'], rfl⟩

theorem ends_at_top_accepted_align {c : CoreSt} {code : Bool} {al : I32} {loc : Loc}
    (hal : ¬ al.toInt < 2) (hp : (u32 al - c.here % u32 al) % u32 al ≤ 65535)
    (h : c.here + (u32 al - c.here % u32 al) % u32 al = TOP) :
    ∃ c', Eff.align c code (some al) loc = .ok c' ∧ c'.here = TOP := by
  have hn : ¬ c.here + (u32 al - c.here % u32 al) % u32 al > TOP := by omega
  have hp' : ¬ (u32 al - c.here % u32 al) % u32 al > 65535 := by omega
  cases code
  · exact ⟨_, by simp only [Eff.align]; rw [if_neg hal, if_neg hp', if_neg hn]; rfl, h⟩
  · exact ⟨_, by simp only [Eff.align]; rw [if_neg hal, if_neg hp', if_neg hn]; rfl, h⟩

/-- `@incbin` data that fits is accepted and advances the address by its length. -/
theorem incbin_fits {c : CoreSt} {loc : Loc} {bytes : List Nat} (h : c.here + bytes.length ≤ TOP) :
    ∃ c', Eff.incbin c loc bytes = .ok c' ∧ c'.here = c.here + bytes.length := by
  induction bytes generalizing c with
  | nil => exact ⟨c, rfl, rfl⟩
  | cons b r ih =>
    simp only [List.length_cons] at h
    have h1 : ¬ c.here + 1 > TOP := by omega
    obtain ⟨c', hc, hh⟩ := ih (c := { c.push b with here := c.here + 1 })
      (by show c.here + 1 + r.length ≤ TOP; omega)
    refine ⟨c', by simp only [Eff.incbin, h1, if_false]; exact hc, ?_⟩
    rw [hh]; show c.here + 1 + r.length = c.here + (r.length + 1); omega

theorem ends_at_top_accepted_incbin {c : CoreSt} {loc : Loc} {bytes : List Nat}
    (h : c.here + bytes.length = TOP) :
    ∃ c', Eff.incbin c loc bytes = .ok c' ∧ c'.here = TOP := by
  obtain ⟨c', hc, hh⟩ := incbin_fits (c := c) (loc := loc) (bytes := bytes) (Nat.le_of_eq h)
  exact ⟨c', hc, hh.trans h⟩

theorem ends_at_top_accepted_instrTail {c : CoreSt} {oldLen : Nat} {loc : Loc}
    (h : c.here + (c.dataLen - oldLen) = TOP) :
    ∃ c', Eff.instrTail c oldLen loc = .ok c' ∧ c'.here = TOP := by
  have hn : ¬ c.here + (c.dataLen - oldLen) > TOP := by omega
  exact ⟨_, by simp only [Eff.instrTail]; rw [if_neg hn], h⟩

/-- Statement level: an instruction whose last byte lands on $FFFF is accepted. -/
theorem ends_at_top_accepted_instr {s : State} {ps : List Piece} {c1 : CoreSt} (hc : s.code = true)
    (hp : pieces s.core ps = .ok c1)
    (h : s.core.here + (c1.dataLen - s.core.dataLen) = TOP) :
    ∃ s', exec s (.instr ps) = .ok s' ∧ s'.core.here = TOP := by
  have hh := pieces_here_frame hp
  obtain ⟨c', hc', hh'⟩ := ends_at_top_accepted_instrTail (c := c1) (oldLen := s.core.dataLen)
    (loc := {}) (by rw [hh]; exact h)
  refine ⟨{ s with core := c' }, ?_, hh'⟩
  simp only [exec, hc, hp, if_true, hc']
  rfl

/-! ## non-vacuity: the hypotheses above are satisfiable, on concrete states -/

/-- a state whose address is $FFFF -/
def atFFFF : CoreSt := { here := 65535 }

example : ∃ c', Eff.dbVal atFFFF (some 7#32) [] {} = .ok c' ∧ c'.here = TOP :=
  ends_at_top_accepted_dbVal_now (by decide) rfl
example : ∃ c', Eff.dbVal atFFFF none [.label "later"] {} = .ok c' ∧ c'.here = TOP :=
  ends_at_top_accepted_dbVal_deferred rfl
example : Eff.dwVal atFFFF (some 7#32) [] {} = .error ⟨.addrOverflow, {}⟩ :=
  past_top_rejected_dwVal_now (by decide) (by decide)
example : Eff.dwVal atFFFF none [.label "later"] {} = .error ⟨.addrOverflow, {}⟩ :=
  past_top_rejected_dwVal_deferred (by decide)
example : ∃ c', Eff.dwVal { here := 65534 } (some 0x1234#32) [] {} = .ok c' ∧ c'.here = TOP :=
  ends_at_top_accepted_dwVal_now (by decide) rfl
example : Eff.dbVal { here := 65536 } (some 7#32) [] {} = .error ⟨.addrOverflow, {}⟩ :=
  past_top_rejected_dbVal_now (by decide) (by decide)
example : Eff.dbStr atFFFF [65, 66] {} = .error ⟨.addrOverflow, {}⟩ :=
  past_top_rejected_dbStr (by decide)
example : ∃ c', Eff.dbStr { here := 65534 } [65, 66] {} = .ok c' ∧ c'.here = TOP :=
  ends_at_top_accepted_dbStr rfl
example : ∃ c', Eff.dsSize { here := 65520 } (some 16#32) {} = .ok (c', u32 16#32) ∧ c'.here = TOP :=
  ends_at_top_accepted_dsSize (by decide) (by decide)
example : Eff.dsSize { here := 65520 } (some 17#32) {} = .error ⟨.addrOverflow, {}⟩ :=
  past_top_rejected_dsSize (by decide) (by decide)
example : ∃ c', Eff.align { here := 65533 } true (some 4#32) {} = .ok c' ∧ c'.here = TOP :=
  ends_at_top_accepted_align (by decide) (by decide) (by decide)
example : Eff.align { here := 65536 } false (some 3#32) {} = .error ⟨.addrOverflow, {}⟩ :=
  past_top_rejected_align (by decide) (by decide) (by decide)
example : Eff.incbin atFFFF {} [1, 2] = .error ⟨.addrOverflow, {}⟩ :=
  past_top_rejected_incbin (by decide) (by decide)
example : ∃ c', Eff.incbin atFFFF {} [1] = .ok c' ∧ c'.here = TOP :=
  ends_at_top_accepted_incbin rfl
/-- a two-byte instruction (`lit`, `lit`) at $FFFE is accepted, at $FFFF rejected -/
example : ∃ s', exec { core := { here := 65534 } } (.instr [.lit 0xA9, .lit 1]) = .ok s' ∧
    s'.core.here = TOP :=
  ends_at_top_accepted_instr (c1 := (({ here := 65534 } : CoreSt).push 0xA9).push 1) rfl rfl rfl
example : exec { core := atFFFF } (.instr [.lit 0xA9, .lit 1]) = .error ⟨.addrOverflow, {}⟩ :=
  past_top_rejected_instr (c1 := ((atFFFF).push 0xA9).push 1) rfl rfl (by decide)
/-- a label at the very top gets the value $10000 -/
example : ∃ c', Eff.label { here := 65536 } "end" {} = .ok c' ∧
    c'.symtab.get "end" = some ⟨.val (i32OfNat 65536), []⟩ := by
  refine ⟨_, rfl, ?_⟩
  exact (label_value_le_top (c := { here := 65536 }) (d := "end") (loc := {}) (by decide) rfl).1

end Az65.Thm.C07

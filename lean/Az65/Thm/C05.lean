import Az65.Model.Abs
import Az65.Lemmas.LinkLemmas
/-
C05 — a symbol defined later gives the same result as one defined earlier.

1. `LinksWf`: patch ranges lie inside the image, are ordered/pairwise disjoint and still hold zero
   placeholders — an invariant of every reachable state (`run_linksWf`, `run_init_linksWf`).
2. patch = immediate, per link kind (`byte_…`, `word_…`, `space_…`, `rel_…`, `assert_…`).
3. a referenced name that is never defined fails the link (`undefined_fails`), and `resolve`
   records every name it meets (`resolve_records_label`, `resolve_records_sizeOf`).
4. constructs that need their value now reject an unsolved value (`needs_now_*`).
5. an expression that is still unsolved at link time is an error (`unsolved_at_link_fails`).
-/
namespace Az65.Thm.C05
open Az65 Az65.LinkLemmas

/-! ## 1. the invariant -/

/-- Patch ranges (a) lie inside the image, (b) are ordered and pairwise disjoint, (c) still hold
their zero placeholders.  Assertion links carry no range. -/
structure LinksWf (c : CoreSt) : Prop where
  inside : ∀ l ∈ c.links, l.kind ≠ .assert → l.offset + l.len ≤ c.dataLen
  disjoint : c.links.Pairwise
    (fun l1 l2 => l1.kind = .assert ∨ l2.kind = .assert ∨ l1.offset + l1.len ≤ l2.offset)
  zero : ∀ l ∈ c.links, l.kind ≠ .assert → ∀ i < l.len, c.data[l.offset + i]? = some 0

theorem linksWf_iff (c : CoreSt) : LinksWf c ↔ Wf c.links c.data := by
  constructor
  · intro h; exact ⟨by simpa [dataLen_eq] using h.inside, h.disjoint, h.zero⟩
  · intro h; exact ⟨by simpa [dataLen_eq] using h.inside, h.disjoint, h.zero⟩

/-- The empty state satisfies the invariant. -/
theorem linksWf_init : LinksWf {} :=
  ⟨by simp, by simp, by simp⟩

/-- A step that leaves links and data alone. -/
theorem LinksWf.same {c c' : CoreSt} (h : LinksWf c) (hl : c'.links = c.links)
    (hd : c'.dataRev = c.dataRev) : LinksWf c' := by
  rw [linksWf_iff] at h ⊢
  rw [hl, CoreSt.data, hd]; exact h

/-- A step that only appends bytes. -/
theorem LinksWf.append {c c' : CoreSt} (h : LinksWf c) (bs : List Nat) (hl : c'.links = c.links)
    (hd : c'.dataRev = bs.reverse ++ c.dataRev) : LinksWf c' := by
  rw [linksWf_iff] at h ⊢
  have : c'.data = c.data ++ bs := by simp [CoreSt.data, hd]
  rw [hl, this]; exact h.append_data bs

/-- A step that registers a link at the end of the data and pushes its zero placeholder. -/
theorem LinksWf.link {c c' : CoreSt} (h : LinksWf c) (l : Link) (hoff : l.offset = c.dataLen)
    (hl : c'.links = c.links ++ [l])
    (hd : c'.dataRev = (List.replicate l.len 0).reverse ++ c.dataRev) : LinksWf c' := by
  rw [linksWf_iff] at h ⊢
  have : c'.data = c.data ++ List.replicate l.len 0 := by simp [CoreSt.data, hd]
  rw [hl, this]; exact h.add_link l (by rw [hoff, dataLen_eq])

/-- A step that registers an assertion. -/
theorem LinksWf.assertLink {c c' : CoreSt} (h : LinksWf c) (l : Link) (hk : l.kind = .assert)
    (hl : c'.links = c.links ++ [l]) (hd : c'.dataRev = c.dataRev) : LinksWf c' := by
  rw [linksWf_iff] at h ⊢
  rw [hl, CoreSt.data, hd]; exact h.add_assert l hk

/-! ### every effect preserves the invariant -/

theorem label_linksWf {c c' : CoreSt} {d : String} {loc : Loc} (hw : LinksWf c)
    (h : Eff.label c d loc = .ok c') : LinksWf c' := by
  unfold Eff.label at h
  split at h <;> simp at h
  subst h; exact hw.same rfl rfl

theorem org_linksWf {c c' : CoreSt} {v : Option I32} {loc : Loc} (hw : LinksWf c)
    (h : Eff.org c v loc = .ok c') : LinksWf c' := by
  unfold Eff.org at h
  split at h
  · simp at h
  · split at h <;> simp at h
    subst h; exact hw.same rfl rfl

theorem dbStr_linksWf {c c' : CoreSt} {bytes : List Nat} {loc : Loc} (hw : LinksWf c)
    (h : Eff.dbStr c bytes loc = .ok c') : LinksWf c' := by
  unfold Eff.dbStr at h
  split at h <;> simp at h
  subst h; exact hw.append bytes rfl rfl

theorem dbVal_linksWf {c c' : CoreSt} {v : Option I32} {ns : List Node} {loc : Loc}
    (hw : LinksWf c) (h : Eff.dbVal c v ns loc = .ok c') : LinksWf c' := by
  unfold Eff.dbVal at h
  split at h
  · split at h
    · simp at h
    · split at h <;> simp at h
      subst h; exact hw.append [_] rfl rfl
  · split at h <;> simp at h
    subst h; exact hw.link ⟨.byte, loc, c.dataLen, 1, ns, none⟩ rfl rfl rfl

theorem dwVal_linksWf {c c' : CoreSt} {v : Option I32} {ns : List Node} {loc : Loc}
    (hw : LinksWf c) (h : Eff.dwVal c v ns loc = .ok c') : LinksWf c' := by
  unfold Eff.dwVal at h
  split at h
  · split at h
    · simp at h
    · split at h <;> simp at h
      subst h; exact hw.append [_, _] rfl rfl
  · split at h <;> simp at h
    subst h; exact hw.link ⟨.word, loc, c.dataLen, 2, ns, none⟩ rfl rfl rfl

theorem skip_linksWf {c c' : CoreSt} {n : Nat} {loc : Loc} (hw : LinksWf c)
    (h : Eff.skip c n loc = .ok c') : LinksWf c' := by
  unfold Eff.skip at h
  split at h <;> simp at h
  subst h; exact hw.same rfl rfl

theorem dsSize_linksWf {c c' : CoreSt} {v : Option I32} {n : Nat} {loc : Loc} (hw : LinksWf c)
    (h : Eff.dsSize c v loc = .ok (c', n)) : LinksWf c' := by
  unfold Eff.dsSize at h
  split at h
  · simp at h
  · split at h
    · simp at h
    · split at h <;> simp at h
      obtain ⟨h, _⟩ := h
      subst h; exact hw.same rfl rfl

theorem dsFill_linksWf {c c' : CoreSt} {size : Nat} {fill : Option (Option I32)} {ns : List Node}
    {loc : Loc} (hw : LinksWf c) (h : Eff.dsFill c size fill ns loc = .ok c') : LinksWf c' := by
  unfold Eff.dsFill at h
  split at h
  · simp at h; subst h; exact hw.append _ rfl rfl
  · split at h <;> simp at h
    subst h; exact hw.append _ rfl rfl
  · simp at h; subst h
    exact hw.link ⟨.space, loc, c.dataLen, size, ns, none⟩ rfl rfl rfl

theorem align_linksWf {c c' : CoreSt} {code : Bool} {v : Option I32} {loc : Loc} (hw : LinksWf c)
    (h : Eff.align c code v loc = .ok c') : LinksWf c' := by
  unfold Eff.align at h
  split at h
  · simp at h
  · split at h
    · simp at h
    · simp only at h
      split at h
      · simp at h
      · split at h
        · simp at h
        · split at h <;> simp at h
          · subst h; exact hw.append _ rfl rfl
          · subst h; exact hw.same rfl rfl

theorem incbin_linksWf {loc : Loc} : ∀ (bs : List Nat) {c c' : CoreSt}, LinksWf c →
    Eff.incbin c loc bs = .ok c' → LinksWf c'
  | [], c, c', hw, h => by
    simp [Eff.incbin] at h; subst h; exact hw
  | b :: r, c, c', hw, h => by
    simp only [Eff.incbin] at h
    split at h
    · simp at h
    · exact incbin_linksWf r (c := { c.push b with here := c.here + 1 }) (hw.append [b] rfl rfl) h

theorem instrTail_linksWf {c c' : CoreSt} {oldLen : Nat} {loc : Loc} (hw : LinksWf c)
    (h : Eff.instrTail c oldLen loc = .ok c') : LinksWf c' := by
  unfold Eff.instrTail at h
  simp only at h
  split at h <;> simp at h
  subst h; exact hw.same rfl rfl

theorem assert_linksWf {c c' : CoreSt} {v : Option I32} {ns : List Node} {msg : Option String}
    {loc : Loc} (hw : LinksWf c) (h : Eff.assert c v ns msg loc = .ok c') : LinksWf c' := by
  unfold Eff.assert at h
  split at h
  · split at h <;> simp at h
    subst h; exact hw
  · simp at h; subst h
    exact hw.assertLink ⟨.assert, loc, 0, 0, ns, msg⟩ rfl rfl rfl

theorem define_linksWf {c c' : CoreSt} {keep : Bool} {d : String} {ns : List Node} {loc : Loc}
    (hw : LinksWf c) (h : Eff.define c keep d ns loc = .ok c') : LinksWf c' := by
  unfold Eff.define at h
  split at h
  · simp at h
  · split at h <;> simp at h <;> (subst h; exact hw.same rfl rfl)

theorem redefine_linksWf {c : CoreSt} {keep : Bool} {d : String} {ns : List Node}
    (hw : LinksWf c) : LinksWf (Eff.redefine c keep d ns) := by
  unfold Eff.redefine
  split <;> exact hw.same rfl rfl

theorem undef_linksWf {c : CoreSt} {d : String} (hw : LinksWf c) : LinksWf (Eff.undef c d) :=
  hw.same rfl rfl

theorem structField_linksWf {c c' : CoreSt} {d : String} {size fs sz' : I32} {txt : String}
    {loc : Loc} (hw : LinksWf c) (h : Eff.structField c d size fs txt loc = .ok (c', sz')) :
    LinksWf c' := by
  unfold Eff.structField at h
  split at h <;> simp at h
  obtain ⟨h, _⟩ := h
  subst h; exact hw.same rfl rfl

/-! ### the statement-level model -/

theorem resolve_linksWf (c : CoreSt) (e : List Node) (hw : LinksWf c) :
    LinksWf (Abs.resolve c e).1 :=
  hw.same (resolve_same c e).links (resolve_same c e).dataRev

theorem piece_linksWf {c c' : CoreSt} {p : Abs.Piece} (hw : LinksWf c)
    (h : Abs.piece c p = .ok c') : LinksWf c' := by
  cases p with
  | lit b =>
    simp [Abs.piece] at h; subst h; exact hw.append [b] rfl rfl
  | byte e =>
    simp only [Abs.piece] at h
    have hr := resolve_linksWf c e hw
    generalize Abs.resolve c e = p at h hr
    obtain ⟨c1, e1⟩ := p
    simp only at h hr
    split at h
    · simp at h
    · split at h <;> simp at h
      subst h; exact hr.append [_] rfl rfl
    · simp at h; subst h
      exact hr.link ⟨.byte, {}, c1.dataLen, 1, e1, none⟩ rfl rfl rfl
  | word e =>
    simp only [Abs.piece] at h
    have hr := resolve_linksWf c e hw
    generalize Abs.resolve c e = p at h hr
    obtain ⟨c1, e1⟩ := p
    simp only at h hr
    split at h
    · simp at h
    · split at h <;> simp at h
      subst h; exact hr.append [_, _] rfl rfl
    · simp at h; subst h
      exact hr.link ⟨.word, {}, c1.dataLen, 2, e1, none⟩ rfl rfl rfl
  | rel e =>
    simp only [Abs.piece] at h
    have hr := resolve_linksWf c e hw
    generalize Abs.resolve c e = p at h hr
    obtain ⟨c1, e1⟩ := p
    simp only at h hr
    split at h
    · simp at h
    · split at h <;> simp at h
      subst h; exact hr.append [_] rfl rfl
    · simp at h; subst h
      exact hr.link ⟨.signedByte, {}, c1.dataLen, 1, _, none⟩ rfl rfl rfl

theorem pieces_linksWf : ∀ (ps : List Abs.Piece) {c c' : CoreSt}, LinksWf c →
    Abs.pieces c ps = .ok c' → LinksWf c'
  | [], c, c', hw, h => by simp [Abs.pieces] at h; subst h; exact hw
  | p :: r, c, c', hw, h => by
    simp only [Abs.pieces] at h
    split at h
    · simp at h
    · rename_i c1 hp
      exact pieces_linksWf r (piece_linksWf hw hp) h

theorem member_linksWf {sname : String} {c c' : CoreSt} {size size' : I32} {m : Abs.Member}
    (hw : LinksWf c) (h : Abs.member sname c size m = .ok (c', size')) : LinksWf c' := by
  cases m with
  | field name sz =>
    simp only [Abs.member] at h
    have hr := resolve_linksWf c sz hw
    generalize Abs.resolve c sz = p at h hr
    obtain ⟨c1, e1⟩ := p
    simp only at h hr
    split at h
    · simp at h
    · simp at h
    · exact structField_linksWf hr h
  | pad sz =>
    simp only [Abs.member] at h
    have hr := resolve_linksWf c sz hw
    generalize Abs.resolve c sz = p at h hr
    obtain ⟨c1, e1⟩ := p
    simp only at h hr
    split at h
    · simp at h
    · simp at h
    · simp at h; obtain ⟨h, _⟩ := h; subst h; exact hr
  | align al =>
    simp only [Abs.member] at h
    have hr := resolve_linksWf c al hw
    generalize Abs.resolve c al = p at h hr
    obtain ⟨c1, e1⟩ := p
    simp only at h hr
    split at h
    · simp at h
    · simp at h
    · split at h <;> simp at h
      obtain ⟨h, _⟩ := h; subst h; exact hr

theorem members_linksWf {sname : String} : ∀ (ms : List Abs.Member) {c c' : CoreSt}
    {size size' : I32}, LinksWf c → Abs.members sname c size ms = .ok (c', size') → LinksWf c'
  | [], c, c', _, _, hw, h => by
    simp [Abs.members] at h; obtain ⟨h, _⟩ := h; subst h; exact hw
  | m :: r, c, c', _, _, hw, h => by
    simp only [Abs.members] at h
    split at h
    · simp at h
    · rename_i c1 s1 hm
      exact members_linksWf r (member_linksWf hw hm) h

private theorem map_ok {s' : Abs.State} {f : CoreSt → Abs.State} {x : Except Err CoreSt}
    (h : x.map f = .ok s') : ∃ c, x = .ok c ∧ s' = f c := by
  cases x with
  | error e => simp [Except.map] at h
  | ok c => simp [Except.map] at h; exact ⟨c, rfl, h.symm⟩

/-- **C05 (invariant, one statement).**  Every statement kind that succeeds keeps the patch
ranges inside the image, disjoint and zero-filled. -/
theorem exec_linksWf {s s' : Abs.State} {st : Abs.Stmt} (hw : LinksWf s.core)
    (h : Abs.exec s st = .ok s') : LinksWf s'.core := by
  cases st with
  | label d =>
    simp only [Abs.exec] at h
    obtain ⟨c, hc, rfl⟩ := map_ok h
    exact label_linksWf hw hc
  | org e =>
    simp only [Abs.exec] at h
    have hr := resolve_linksWf s.core e hw
    generalize Abs.resolve s.core e = p at h hr
    obtain ⟨c1, e1⟩ := p
    simp only at h hr
    split at h
    · simp at h
    · obtain ⟨c, hc, rfl⟩ := map_ok h
      exact org_linksWf hr hc
  | dbStr bytes =>
    simp only [Abs.exec] at h
    split at h
    · obtain ⟨c, hc, rfl⟩ := map_ok h; exact dbStr_linksWf hw hc
    · obtain ⟨c, hc, rfl⟩ := map_ok h; exact skip_linksWf hw hc
  | dbVal e =>
    simp only [Abs.exec] at h
    split at h
    · have hr := resolve_linksWf s.core e hw
      generalize Abs.resolve s.core e = p at h hr
      obtain ⟨c1, e1⟩ := p
      simp only at h hr
      split at h
      · simp at h
      · obtain ⟨c, hc, rfl⟩ := map_ok h
        exact dbVal_linksWf hr hc
    · obtain ⟨c, hc, rfl⟩ := map_ok h; exact skip_linksWf hw hc
  | dwVal e =>
    simp only [Abs.exec] at h
    split at h
    · have hr := resolve_linksWf s.core e hw
      generalize Abs.resolve s.core e = p at h hr
      obtain ⟨c1, e1⟩ := p
      simp only at h hr
      split at h
      · simp at h
      · obtain ⟨c, hc, rfl⟩ := map_ok h
        exact dwVal_linksWf hr hc
    · obtain ⟨c, hc, rfl⟩ := map_ok h; exact skip_linksWf hw hc
  | ds size fill =>
    simp only [Abs.exec] at h
    have hr := resolve_linksWf s.core size hw
    generalize Abs.resolve s.core size = p at h hr
    obtain ⟨c1, e1⟩ := p
    simp only at h hr
    split at h
    · simp at h
    · split at h
      · simp at h
      · rename_i c2 n hs
        have h2 := dsSize_linksWf hr hs
        split at h
        · split at h
          · obtain ⟨c, hc, rfl⟩ := map_ok h; exact dsFill_linksWf h2 hc
          · rename_i fe
            have hr3 := resolve_linksWf c2 fe h2
            generalize Abs.resolve c2 fe = q at h hr3
            obtain ⟨c3, e3⟩ := q
            simp only at h hr3
            split at h
            · simp at h
            · obtain ⟨c, hc, rfl⟩ := map_ok h; exact dsFill_linksWf hr3 hc
        · simp at h; subst h; exact h2
  | align e =>
    simp only [Abs.exec] at h
    have hr := resolve_linksWf s.core e hw
    generalize Abs.resolve s.core e = p at h hr
    obtain ⟨c1, e1⟩ := p
    simp only at h hr
    split at h
    · simp at h
    · obtain ⟨c, hc, rfl⟩ := map_ok h
      exact align_linksWf hr hc
  | incbin bytes =>
    simp only [Abs.exec] at h
    split at h
    · obtain ⟨c, hc, rfl⟩ := map_ok h; exact incbin_linksWf bytes hw hc
    · simp at h
  | instr ps =>
    simp only [Abs.exec] at h
    split at h
    · split at h
      · simp at h
      · rename_i c1 hp
        obtain ⟨c, hc, rfl⟩ := map_ok h
        exact instrTail_linksWf (pieces_linksWf ps hw hp) hc
    · simp at h
  | assert e =>
    simp only [Abs.exec] at h
    have hr := resolve_linksWf s.core e hw
    generalize Abs.resolve s.core e = p at h hr
    obtain ⟨c1, e1⟩ := p
    simp only at h hr
    split at h
    · simp at h
    · obtain ⟨c, hc, rfl⟩ := map_ok h
      exact assert_linksWf hr hc
  | define keep d e =>
    simp only [Abs.exec] at h
    split at h
    · simp at h
    · have hr := resolve_linksWf s.core e hw
      generalize Abs.resolve s.core e = p at h hr
      obtain ⟨c1, e1⟩ := p
      simp only at h hr
      obtain ⟨c, hc, rfl⟩ := map_ok h
      exact define_linksWf hr hc
  | redefine keep d e =>
    simp only [Abs.exec] at h
    have hr := resolve_linksWf s.core e hw
    generalize Abs.resolve s.core e = p at h hr
    obtain ⟨c1, e1⟩ := p
    simp at h; subst h
    exact redefine_linksWf hr
  | undef d =>
    simp [Abs.exec] at h; subst h; exact undef_linksWf hw
  | segment code =>
    simp [Abs.exec] at h; subst h; exact hw
  | struct name ms =>
    simp only [Abs.exec] at h
    split at h
    · simp at h
    · split at h
      · simp at h
      · rename_i c1 sz hm
        simp at h; subst h
        have h0 : LinksWf { s.core with ns := some name } := hw.same rfl rfl
        have h1 := members_linksWf ms h0 hm
        exact h1.same rfl rfl

/-- **C05 (invariant, whole program).**  Whatever was assembled so far, the registered patch
ranges lie inside the image, are ordered and pairwise disjoint, and still hold zero placeholders
— so each one is patched exactly once into bytes nobody else wrote. -/
theorem run_linksWf : ∀ (prog : List Abs.Stmt) {s s' : Abs.State}, LinksWf s.core →
    Abs.run s prog = .ok s' → LinksWf s'.core
  | [], s, s', hw, h => by simp [Abs.run] at h; subst h; exact hw
  | st :: r, s, s', hw, h => by
    simp only [Abs.run] at h
    split at h
    · simp at h
    · rename_i s1 he
      exact run_linksWf r (exec_linksWf hw he) h

/-- **C05 (observation).**  After assembling any program from the empty state the patch ranges
lie inside the image, are pairwise disjoint and still hold zero placeholders before link. -/
theorem run_init_linksWf {prog : List Abs.Stmt} {s' : Abs.State}
    (h : Abs.run {} prog = .ok s') : LinksWf s'.core :=
  run_linksWf prog linksWf_init h

/-! ## 2. patch = immediate, per link kind -/

/-- Reading off "accepted iff in range, and then these bytes" from an `if bad then error else ok`. -/
theorem ite_ok_iff {α : Type} {b : Prop} [Decidable b] {e : Err} {x : α} {r : Except Err α}
    (h : r = if b then .error e else .ok x) :
    ((∃ d, r = .ok d) ↔ ¬ b) ∧ ∀ d, r = .ok d → d = x := by
  subst h
  by_cases hb : b
  · simp [hb]
  · simp only [hb, if_false]
    exact ⟨⟨fun _ => not_false, fun _ => ⟨x, rfl⟩⟩, fun d hd => by cases hd; rfl⟩

/-- Link-time resolution of a `byte` placeholder sitting at `xs.length`. -/
theorem applyLink_byte (c' : CoreSt) (xs ys : List Nat) (l : Link) (v : I32)
    (st' : Env) (hk : l.kind = .byte) (hoff : l.offset = xs.length)
    (hs : c'.symtab = st') (hv : evaluate st' l.expr = .ok v) :
    applyLink c' (xs ++ [0] ++ ys) l =
      if u32 v > 255 then .error ⟨.range, l.loc⟩ else .ok (xs ++ [lowByte v] ++ ys) := by
  subst hs
  unfold applyLink
  simp only [hv, hk]
  split
  · rfl
  · rw [if_pos (by simp [hoff])]
    have : patchAt (xs ++ [0] ++ ys) xs.length [lowByte v] = xs ++ [lowByte v] ++ ys :=
      patchAt_mid xs ys [lowByte v] 1 rfl
    rw [hoff, this]

/-- Link-time resolution of a `signedByte` placeholder sitting at `xs.length`. -/
theorem applyLink_signedByte (c' : CoreSt) (xs ys : List Nat) (l : Link) (v : I32)
    (st' : Env) (hk : l.kind = .signedByte) (hoff : l.offset = xs.length)
    (hs : c'.symtab = st') (hv : evaluate st' l.expr = .ok v) :
    applyLink c' (xs ++ [0] ++ ys) l =
      if v.toInt < -128 ∨ v.toInt > 127 then .error ⟨.range, l.loc⟩
      else .ok (xs ++ [lowByte v] ++ ys) := by
  subst hs
  unfold applyLink
  simp only [hv, hk]
  split
  · rfl
  · rw [if_pos (by simp [hoff])]
    have : patchAt (xs ++ [0] ++ ys) xs.length [lowByte v] = xs ++ [lowByte v] ++ ys :=
      patchAt_mid xs ys [lowByte v] 1 rfl
    rw [hoff, this]

/-- Link-time resolution of a `word` placeholder sitting at `xs.length`. -/
theorem applyLink_word (c' : CoreSt) (xs ys : List Nat) (l : Link) (v : I32)
    (st' : Env) (hk : l.kind = .word) (hoff : l.offset = xs.length)
    (hs : c'.symtab = st') (hv : evaluate st' l.expr = .ok v) :
    applyLink c' (xs ++ [0, 0] ++ ys) l =
      if u32 v > 65535 then .error ⟨.range, l.loc⟩
      else .ok (xs ++ [u32 v % 256, u32 v / 256 % 256] ++ ys) := by
  subst hs
  unfold applyLink
  simp only [hv, hk]
  split
  · rfl
  · rw [if_pos (by simp [hoff])]
    have : patchAt (xs ++ [0, 0] ++ ys) xs.length [u32 v % 256, u32 v / 256 % 256] =
        xs ++ [u32 v % 256, u32 v / 256 % 256] ++ ys :=
      patchAt_mid xs ys [u32 v % 256, u32 v / 256 % 256] 2 rfl
    rw [hoff, this]

/-- Link-time resolution of a `space` placeholder of `l.len` bytes sitting at `xs.length`. -/
theorem applyLink_space (c' : CoreSt) (xs ys : List Nat) (l : Link) (v : I32)
    (st' : Env) (hk : l.kind = .space) (hoff : l.offset = xs.length)
    (hs : c'.symtab = st') (hv : evaluate st' l.expr = .ok v) :
    applyLink c' (xs ++ List.replicate l.len 0 ++ ys) l =
      if u32 v > 255 then .error ⟨.range, l.loc⟩
      else .ok (xs ++ List.replicate l.len (lowByte v) ++ ys) := by
  subst hs
  unfold applyLink
  simp only [hv, hk]
  split
  · rfl
  · rw [if_pos (by simp [hoff])]
    rw [hoff, patchAt_mid xs ys (List.replicate l.len (lowByte v)) l.len (by simp)]

/-- Link-time resolution of an assertion: false fails the build, true leaves the image alone. -/
theorem applyLink_assert (c' : CoreSt) (d : List Nat) (l : Link) (v : I32)
    (hk : l.kind = .assert) (hv : evaluate c'.symtab l.expr = .ok v) :
    applyLink c' d l = if v = 0 then .error ⟨.assertFail, l.loc⟩ else .ok d := by
  unfold applyLink
  simp only [hv, hk]

/-- **C05 (`@db` item, patch = immediate).**  With room for one byte: the immediate path accepts
`v` iff `v ≤ 255` (as `u32`) and writes `lowByte v`; the deferred path writes a zero placeholder and
registers a `byte` link at that offset; when a later definition makes the expression evaluate to
`v`, resolving that link (in the final image `c2.data ++ later`) is accepted iff `v ≤ 255` and
yields exactly the bytes of the immediate path, at the same offset. -/
theorem byte_deferred_eq_immediate (c : CoreSt) (v : I32) (ns : List Node) (loc : Loc)
    (hh : c.here + 1 ≤ TOP) :
    ((∃ c1, Eff.dbVal c (some v) ns loc = .ok c1) ↔ u32 v ≤ 255) ∧
    (∀ c1, Eff.dbVal c (some v) ns loc = .ok c1 → c1.data = c.data ++ [lowByte v]) ∧
    ∃ c2, Eff.dbVal c none ns loc = .ok c2 ∧ c2.data = c.data ++ [0] ∧
      c2.links = c.links ++ [⟨.byte, loc, c.dataLen, 1, ns, none⟩] ∧
      ∀ (st' : Env) (later : List Nat), evaluate st' ns = .ok v →
        ((∃ d, applyLink { c2 with symtab := st' } (c2.data ++ later)
            ⟨.byte, loc, c.dataLen, 1, ns, none⟩ = .ok d) ↔ u32 v ≤ 255) ∧
        ∀ d, applyLink { c2 with symtab := st' } (c2.data ++ later)
            ⟨.byte, loc, c.dataLen, 1, ns, none⟩ = .ok d → d = c.data ++ [lowByte v] ++ later := by
  have hh' : ¬ c.here + 1 > TOP := by omega
  have himm : Eff.dbVal c (some v) ns loc =
      if u32 v > 255 then .error ⟨.range, loc⟩
      else .ok { c.push (lowByte v) with here := c.here + 1 } := by
    simp only [Eff.dbVal, hh', if_false]
  obtain ⟨h1, h2⟩ := ite_ok_iff himm
  refine ⟨h1.trans Nat.not_lt, ?_, ?_⟩
  · intro c1 hc1; rw [h2 c1 hc1]; simp [CoreSt.data, CoreSt.push]
  · refine ⟨{ (c.addLink ⟨.byte, loc, c.dataLen, 1, ns, none⟩).push 0 with here := c.here + 1 },
      by simp only [Eff.dbVal, hh', if_false], ?_, rfl, ?_⟩
    · simp [CoreSt.data, CoreSt.push, CoreSt.addLink]
    · intro st' later hv
      have hd : CoreSt.data { (c.addLink ⟨.byte, loc, c.dataLen, 1, ns, none⟩).push 0 with
          here := c.here + 1 } = c.data ++ [0] := by
        simp [CoreSt.data, CoreSt.push, CoreSt.addLink]
      rw [hd]
      have key := fun (c' : CoreSt) (hs : c'.symtab = st') => ite_ok_iff (applyLink_byte c' c.data later
        ⟨.byte, loc, c.dataLen, 1, ns, none⟩ v st' rfl (dataLen_eq c) hs hv)
      exact ⟨(key _ rfl).1.trans Nat.not_lt, (key _ rfl).2⟩

/-- **C05 (`@dw` item, patch = immediate).**  As for `@db`, with two little-endian bytes and the
test `v ≤ 65535`. -/
theorem word_deferred_eq_immediate (c : CoreSt) (v : I32) (ns : List Node) (loc : Loc)
    (hh : c.here + 2 ≤ TOP) :
    ((∃ c1, Eff.dwVal c (some v) ns loc = .ok c1) ↔ u32 v ≤ 65535) ∧
    (∀ c1, Eff.dwVal c (some v) ns loc = .ok c1 →
      c1.data = c.data ++ [u32 v % 256, u32 v / 256 % 256]) ∧
    ∃ c2, Eff.dwVal c none ns loc = .ok c2 ∧ c2.data = c.data ++ [0, 0] ∧
      c2.links = c.links ++ [⟨.word, loc, c.dataLen, 2, ns, none⟩] ∧
      ∀ (st' : Env) (later : List Nat), evaluate st' ns = .ok v →
        ((∃ d, applyLink { c2 with symtab := st' } (c2.data ++ later)
            ⟨.word, loc, c.dataLen, 2, ns, none⟩ = .ok d) ↔ u32 v ≤ 65535) ∧
        ∀ d, applyLink { c2 with symtab := st' } (c2.data ++ later)
            ⟨.word, loc, c.dataLen, 2, ns, none⟩ = .ok d →
          d = c.data ++ [u32 v % 256, u32 v / 256 % 256] ++ later := by
  have hh' : ¬ c.here + 2 > TOP := by omega
  have himm : Eff.dwVal c (some v) ns loc =
      if u32 v > 65535 then .error ⟨.range, loc⟩
      else .ok { (c.push (u32 v % 256)).push (u32 v / 256 % 256) with here := c.here + 2 } := by
    simp only [Eff.dwVal, hh', if_false]
  obtain ⟨h1, h2⟩ := ite_ok_iff himm
  refine ⟨h1.trans Nat.not_lt, ?_, ?_⟩
  · intro c1 hc1; rw [h2 c1 hc1]; simp [CoreSt.data, CoreSt.push]
  · refine ⟨{ ((c.addLink ⟨.word, loc, c.dataLen, 2, ns, none⟩).push 0).push 0 with
        here := c.here + 2 }, by simp only [Eff.dwVal, hh', if_false], ?_, rfl, ?_⟩
    · simp [CoreSt.data, CoreSt.push, CoreSt.addLink]
    · intro st' later hv
      have hd : CoreSt.data { ((c.addLink ⟨.word, loc, c.dataLen, 2, ns, none⟩).push 0).push 0 with
          here := c.here + 2 } = c.data ++ [0, 0] := by
        simp [CoreSt.data, CoreSt.push, CoreSt.addLink]
      rw [hd]
      have key := fun (c' : CoreSt) (hs : c'.symtab = st') => ite_ok_iff (applyLink_word c' c.data later
        ⟨.word, loc, c.dataLen, 2, ns, none⟩ v st' rfl (dataLen_eq c) hs hv)
      exact ⟨(key _ rfl).1.trans Nat.not_lt, (key _ rfl).2⟩

/-- **C05 (`@ds` fill, patch = immediate).**  A solved fill `v` is accepted iff `v ≤ 255` and
writes `size` copies of `lowByte v`; an unsolved fill writes `size` zeros and registers a `space`
link over exactly that range; resolving it with final value `v` is accepted iff `v ≤ 255` and
yields the same `size` copies at the same offset. -/
theorem space_deferred_eq_immediate (c : CoreSt) (size : Nat) (v : I32) (ns : List Node) (loc : Loc) :
    ((∃ c1, Eff.dsFill c size (some (some v)) ns loc = .ok c1) ↔ u32 v ≤ 255) ∧
    (∀ c1, Eff.dsFill c size (some (some v)) ns loc = .ok c1 →
      c1.data = c.data ++ List.replicate size (lowByte v)) ∧
    ∃ c2, Eff.dsFill c size (some none) ns loc = .ok c2 ∧
      c2.data = c.data ++ List.replicate size 0 ∧
      c2.links = c.links ++ [⟨.space, loc, c.dataLen, size, ns, none⟩] ∧
      ∀ (st' : Env) (later : List Nat), evaluate st' ns = .ok v →
        ((∃ d, applyLink { c2 with symtab := st' } (c2.data ++ later)
            ⟨.space, loc, c.dataLen, size, ns, none⟩ = .ok d) ↔ u32 v ≤ 255) ∧
        ∀ d, applyLink { c2 with symtab := st' } (c2.data ++ later)
            ⟨.space, loc, c.dataLen, size, ns, none⟩ = .ok d →
          d = c.data ++ List.replicate size (lowByte v) ++ later := by
  have himm : Eff.dsFill c size (some (some v)) ns loc =
      if u32 v > 255 then .error ⟨.range, loc⟩
      else .ok (c.pushAll (List.replicate size (lowByte v))) := by
    simp only [Eff.dsFill]
  obtain ⟨h1, h2⟩ := ite_ok_iff himm
  refine ⟨h1.trans Nat.not_lt, ?_, ?_⟩
  · intro c1 hc1; rw [h2 c1 hc1]; simp
  · refine ⟨(c.addLink ⟨.space, loc, c.dataLen, size, ns, none⟩).pushAll (List.replicate size 0),
      by simp only [Eff.dsFill], ?_, rfl, ?_⟩
    · simp
    · intro st' later hv
      have hd : CoreSt.data ((c.addLink ⟨.space, loc, c.dataLen, size, ns, none⟩).pushAll
          (List.replicate size 0)) = c.data ++ List.replicate size 0 := by simp
      rw [hd]
      have key := fun (c' : CoreSt) (hs : c'.symtab = st') => ite_ok_iff (applyLink_space c' c.data later
        ⟨.space, loc, c.dataLen, size, ns, none⟩ v st' rfl (dataLen_eq c) hs hv)
      exact ⟨(key _ rfl).1.trans Nat.not_lt, (key _ rfl).2⟩

/-- The node list a relative-branch operand is evaluated as: the (resolved) target expression
minus the address after the two-byte instruction. -/
def relNodes (c : CoreSt) (e : List Node) : List Node :=
  (Abs.resolve c e).2 ++ [.val (i32OfNat ((c.here + 2) % 4294967296)), .sub]

/-- `Abs.piece c (.rel e)` spelled out over the symbol table of `c`. -/
theorem piece_rel_eq (c : CoreSt) (e : List Node) :
    Abs.piece c (.rel e) =
      match evaluate c.symtab (relNodes c e) with
      | .crash s => .error ⟨.crash s, {}⟩
      | .ok v =>
        if v.toInt < -128 ∨ v.toInt > 127 then .error ⟨.range, {}⟩
        else .ok ((Abs.resolve c e).1.push (lowByte v))
      | .unsolved =>
        .ok (((Abs.resolve c e).1.addLink
          ⟨.signedByte, {}, c.dataLen, 1, relNodes c e, none⟩).push 0) := by
  have ho := resolve_onlyHits e c
  simp only [Abs.piece, relNodes, Abs.ev, evalOpt, CoreSt.eval]
  generalize Abs.resolve c e = p at ho
  obtain ⟨c0, e0⟩ := p
  simp only at ho ⊢
  have hlen : c0.dataLen = c.dataLen := by simp [CoreSt.dataLen, ho.dataRev]
  rw [ho.here, ho.symtab, hlen]
  cases evaluate c.symtab (e0 ++ [.val (i32OfNat ((c.here + 2) % 4294967296)), .sub]) <;> rfl

/-- **C05 (relative branch, patch = immediate).**  The displacement `target − (here+2)`: if it can
be computed now it is accepted iff `−128 ≤ v ≤ 127` and its low byte is written; otherwise a zero
placeholder and a `signedByte` link over the same expression are registered, and resolving the
link with final value `v` is accepted iff `−128 ≤ v ≤ 127` and yields the same byte at the same
offset. -/
theorem rel_deferred_eq_immediate (c : CoreSt) (e : List Node) :
    (∀ v, evaluate c.symtab (relNodes c e) = .ok v →
      ((∃ c1, Abs.piece c (.rel e) = .ok c1) ↔ (-128 ≤ v.toInt ∧ v.toInt ≤ 127)) ∧
      ∀ c1, Abs.piece c (.rel e) = .ok c1 → c1.data = c.data ++ [lowByte v]) ∧
    (evaluate c.symtab (relNodes c e) = .unsolved →
      ∃ c2, Abs.piece c (.rel e) = .ok c2 ∧ c2.data = c.data ++ [0] ∧
        c2.links = c.links ++ [⟨.signedByte, {}, c.dataLen, 1, relNodes c e, none⟩] ∧
        ∀ (st' : Env) (later : List Nat) (v : I32), evaluate st' (relNodes c e) = .ok v →
          ((∃ d, applyLink { c2 with symtab := st' } (c2.data ++ later)
              ⟨.signedByte, {}, c.dataLen, 1, relNodes c e, none⟩ = .ok d) ↔
            (-128 ≤ v.toInt ∧ v.toInt ≤ 127)) ∧
          ∀ d, applyLink { c2 with symtab := st' } (c2.data ++ later)
              ⟨.signedByte, {}, c.dataLen, 1, relNodes c e, none⟩ = .ok d →
            d = c.data ++ [lowByte v] ++ later) := by
  have hs := resolve_same c e
  have hrange : ∀ v : I32, ¬ (v.toInt < -128 ∨ v.toInt > 127) ↔ (-128 ≤ v.toInt ∧ v.toInt ≤ 127) := by
    intro v; omega
  constructor
  · intro v hv
    have himm := piece_rel_eq c e
    rw [hv] at himm
    simp only at himm
    obtain ⟨h1, h2⟩ := ite_ok_iff himm
    refine ⟨h1.trans (hrange v), ?_⟩
    intro c1 hc1; rw [h2 c1 hc1]; simp [hs.data]
  · intro hv
    have hdef := piece_rel_eq c e
    rw [hv] at hdef
    simp only at hdef
    refine ⟨_, hdef, ?_, ?_, ?_⟩
    · simp [hs.data]
    · simp [hs.links]
    · intro st' later v hv'
      have hd : CoreSt.data (((Abs.resolve c e).1.addLink
          ⟨.signedByte, {}, c.dataLen, 1, relNodes c e, none⟩).push 0) = c.data ++ [0] := by
        simp [hs.data]
      rw [hd]
      have key := fun (c' : CoreSt) (hs : c'.symtab = st') => ite_ok_iff (applyLink_signedByte c'
        c.data later ⟨.signedByte, {}, c.dataLen, 1, relNodes c e, none⟩ v st' rfl (dataLen_eq c) hs hv')
      exact ⟨(key _ rfl).1.trans (hrange v), (key _ rfl).2⟩

/-- **C05 (`@assert`, patch = immediate).**  A solved assertion fails the build iff its value is 0
and otherwise changes nothing; an unsolved one registers an `assert` link (no bytes), and at link
time a final value 0 fails the build with the same diagnostic class while a non-zero value leaves
the image unchanged. -/
theorem assert_deferred_eq_immediate (c : CoreSt) (v : I32) (ns : List Node) (msg : Option String)
    (loc : Loc) :
    (Eff.assert c (some v) ns msg loc =
      if v = 0 then .error ⟨.assertFail, loc⟩ else .ok c) ∧
    ∃ c2, Eff.assert c none ns msg loc = .ok c2 ∧ c2.data = c.data ∧
      c2.links = c.links ++ [⟨.assert, loc, 0, 0, ns, msg⟩] ∧
      ∀ (st' : Env) (d : List Nat), evaluate st' ns = .ok v →
        applyLink { c2 with symtab := st' } d ⟨.assert, loc, 0, 0, ns, msg⟩ =
          if v = 0 then .error ⟨.assertFail, loc⟩ else .ok d := by
  refine ⟨rfl, _, rfl, rfl, rfl, ?_⟩
  intro st' d hv
  exact applyLink_assert _ d ⟨.assert, loc, 0, 0, ns, msg⟩ v rfl hv

/-- Number of bytes a link of each kind writes at link time. -/
def patchLen (l : Link) : Nat :=
  match l.kind with
  | .byte => 1 | .signedByte => 1 | .word => 2 | .space => l.len | .assert => 0

/-- **C05 (a patch writes only its own range).**  Resolving one link keeps the image length and
every byte outside `[offset, offset + patchLen)`: with the disjointness part of `LinksWf`, no
patch disturbs another patch's placeholder or any byte assembled directly. -/
theorem applyLink_frame (c : CoreSt) (d d' : List Nat) (l : Link) (h : applyLink c d l = .ok d') :
    d'.length = d.length ∧
    ∀ i, i < l.offset ∨ l.offset + patchLen l ≤ i → d'[i]? = d[i]? := by
  unfold applyLink at h
  split at h
  · simp at h
  · simp at h
  · rename_i v hv
    cases hk : l.kind <;> simp only [hk] at h
    case byte =>
      split at h
      · simp at h
      · split at h
        · simp at h; subst h
          have hb : l.offset + [lowByte v].length ≤ d.length := by simp; omega
          exact ⟨patchAt_length _ _ _ hb, fun i hi =>
            patchAt_getElem?_outside _ _ _ _ hb (by simpa [patchLen, hk] using hi)⟩
        · simp at h
    case signedByte =>
      split at h
      · simp at h
      · split at h
        · simp at h; subst h
          have hb : l.offset + [lowByte v].length ≤ d.length := by simp; omega
          exact ⟨patchAt_length _ _ _ hb, fun i hi =>
            patchAt_getElem?_outside _ _ _ _ hb (by simpa [patchLen, hk] using hi)⟩
        · simp at h
    case word =>
      split at h
      · simp at h
      · split at h
        · simp at h; subst h
          have hb : l.offset + [u32 v % 256, u32 v / 256 % 256].length ≤ d.length := by simp; omega
          exact ⟨patchAt_length _ _ _ hb, fun i hi =>
            patchAt_getElem?_outside _ _ _ _ hb (by simpa [patchLen, hk] using hi)⟩
        · simp at h
    case space =>
      split at h
      · simp at h
      · split at h
        · simp at h; subst h
          have hb : l.offset + (List.replicate l.len (lowByte v)).length ≤ d.length := by simpa
          exact ⟨patchAt_length _ _ _ hb, fun i hi =>
            patchAt_getElem?_outside _ _ _ _ hb (by simpa [patchLen, hk] using hi)⟩
        · simp at h
    case assert =>
      split at h
      · simp at h
      · simp at h; subst h; exact ⟨rfl, fun _ _ => rfl⟩

/-! ## 3. a name that is never defined fails the build -/

theorem checkRefs_undefined (c : CoreSt) : ∀ (hs : List (String × Loc)) (n : String) (loc : Loc),
    (n, loc) ∈ hs → c.symtab.get n = none →
    ∃ e, checkRefs c hs = .error e ∧ (e.kind = .undefined ∨ ∃ s, e.kind = .crash s)
  | [], _, _, h, _ => by simp at h
  | (m, l) :: r, n, loc, h, hn => by
    have hrec : c.symtab.get m ≠ none → ∃ e, checkRefs c r = .error e ∧
        (e.kind = .undefined ∨ ∃ s, e.kind = .crash s) := by
      intro hm
      rcases List.mem_cons.mp h with heq | hin
      · cases heq; exact absurd hn hm
      · exact checkRefs_undefined c r n loc hin hn
    unfold checkRefs
    cases hm : c.symtab.get m with
    | none => exact ⟨_, rfl, Or.inl rfl⟩
    | some en =>
      have hr := hrec (by rw [hm]; simp)
      simp only
      cases en.sym with
      | val _ => exact hr
      | expr body =>
        simp only
        cases evaluate c.symtab body with
        | ok _ => exact hr
        | unsolved => exact ⟨_, rfl, Or.inl rfl⟩
        | crash s => exact ⟨_, rfl, Or.inr ⟨s, rfl⟩⟩

/-- The undefined-symbol check reports `undefined` at the first reference of the first name of the
first-reference table that has no definition, when everything before it is a plain value. -/
theorem checkRefs_first_undefined (c : CoreSt) : ∀ (pre : List (String × Loc)) (n : String)
    (loc : Loc) (post : List (String × Loc)),
    (∀ p ∈ pre, ∃ en v, c.symtab.get p.1 = some en ∧ en.sym = .val v) →
    c.symtab.get n = none →
    checkRefs c (pre ++ (n, loc) :: post) = .error ⟨.undefined, loc⟩
  | [], n, loc, post, _, hn => by simp [checkRefs, hn]
  | (m, l) :: r, n, loc, post, hpre, hn => by
    obtain ⟨en, v, hm, hv⟩ := hpre (m, l) (by simp)
    simp only [List.cons_append, checkRefs, hm, hv]
    exact checkRefs_first_undefined c r n loc post (fun p hp => hpre p (by simp [hp])) hn

/-- **C05 (undefined reference).**  A name that was referenced (it is in the first-reference
table) and has no definition when assembly ends makes the link fail: it is never assembled as
zero. -/
theorem undefined_fails (c : CoreSt) (n : String) (loc : Loc) (hh : (n, loc) ∈ c.hits)
    (hn : c.symtab.get n = none) : ∃ e, link c = .error e := by
  obtain ⟨e, he, _⟩ := checkRefs_undefined c c.hits n loc hh hn
  exact ⟨e, by simp [link, he]⟩

/-- The failure of `undefined_fails` is a diagnostic of class `undefined` (or the model-crash
class, which no legal run produces), never a successful image. -/
theorem undefined_fails_kind (c : CoreSt) (n : String) (loc : Loc) (hh : (n, loc) ∈ c.hits)
    (hn : c.symtab.get n = none) :
    ∃ e, link c = .error e ∧ (e.kind = .undefined ∨ ∃ s, e.kind = .crash s) := by
  obtain ⟨e, he, hk⟩ := checkRefs_undefined c c.hits n loc hh hn
  exact ⟨e, by simp [link, he], hk⟩

/-- Whole-program form: if assembly ends with a referenced, undefined name, the build fails. -/
theorem undefined_fails_assemble (prog : List Abs.Stmt) (s : Abs.State) (n : String) (loc : Loc)
    (hr : Abs.run {} prog = .ok s) (hh : (n, loc) ∈ s.core.hits)
    (hn : s.core.symtab.get n = none) : ∃ e, Abs.assembleAbs prog = .error e := by
  obtain ⟨e, he⟩ := undefined_fails s.core n loc hh hn
  exact ⟨e, by simp [Abs.assembleAbs, hr, he]⟩

/-- **C05 (every label reference is recorded).**  Reading an expression records every label it
mentions (other than `@here`) in the first-reference table. -/
theorem resolve_records_label : ∀ (e : List Node) (c : CoreSt) (n : String),
    Node.label n ∈ e → n ≠ "@here" → n ∈ (Abs.resolve c e).1.hits.map (·.1)
  | [], _, _, h, _ => by simp at h
  | x :: r, c, n, h, hn => by
    rcases List.mem_cons.mp h with heq | hin
    · subst heq
      simp only [Abs.resolve, hn, if_false]
      exact resolve_mono r _ n (touch_mem c n {})
    · cases x <;> simp only [Abs.resolve]
      case label y =>
        split
        · exact resolve_records_label r c n hin hn
        · exact resolve_records_label r _ n hin hn
      case sizeOf y => exact resolve_records_label r _ n hin hn
      all_goals exact resolve_records_label r c n hin hn

/-- **C05 (every `@sizeof` reference is recorded).** -/
theorem resolve_records_sizeOf : ∀ (e : List Node) (c : CoreSt) (n : String),
    Node.sizeOf n ∈ e → n ∈ (Abs.resolve c e).1.hits.map (·.1)
  | [], _, _, h => by simp at h
  | x :: r, c, n, h => by
    rcases List.mem_cons.mp h with heq | hin
    · subst heq
      simp only [Abs.resolve]
      exact resolve_mono r _ n (touch_mem c n {})
    · cases x <;> simp only [Abs.resolve]
      case label y =>
        split
        · exact resolve_records_sizeOf r c n hin
        · exact resolve_records_sizeOf r _ n hin
      case sizeOf y => exact resolve_records_sizeOf r _ n hin
      all_goals exact resolve_records_sizeOf r c n hin

/-! ## 4. constructs that need their value now -/

/-- `@org` with a not-yet-defined operand is rejected ("must be immediately solvable"). -/
theorem needs_now_org (c : CoreSt) (loc : Loc) : Eff.org c none loc = .error ⟨.needsNow, loc⟩ := rfl

/-- `@ds` with a not-yet-defined size is rejected. -/
theorem needs_now_dsSize (c : CoreSt) (loc : Loc) :
    Eff.dsSize c none loc = .error ⟨.needsNow, loc⟩ := rfl

/-- `@align` with a not-yet-defined operand is rejected. -/
theorem needs_now_align (c : CoreSt) (code : Bool) (loc : Loc) :
    Eff.align c code none loc = .error ⟨.needsNow, loc⟩ := rfl

/-- A struct member whose size / padding / alignment cannot be solved now is rejected. -/
theorem needs_now_member (sname name : String) (c : CoreSt) (size : I32) (m : Abs.Member)
    (e : List Node) (hm : m = .field name e ∨ m = .pad e ∨ m = .align e)
    (hu : Abs.ev (Abs.resolve c e).1 (Abs.resolve c e).2 = .ok none) :
    Abs.member sname c size m = .error ⟨.needsNow, {}⟩ := by
  rcases hm with rfl | rfl | rfl <;> simp only [Abs.member] <;>
    (generalize Abs.resolve c e = p at hu; obtain ⟨c0, e0⟩ := p; simp only at hu ⊢; rw [hu])

/-- Statement level: `@org`, `@ds`, `@align` whose operand is unsolved when the statement is read
fail with `needsNow`. -/
theorem needs_now_exec (s : Abs.State) (e : List Node) (fill : Option (List Node))
    (hu : Abs.ev (Abs.resolve s.core e).1 (Abs.resolve s.core e).2 = .ok none) :
    Abs.exec s (.org e) = .error ⟨.needsNow, {}⟩ ∧
    Abs.exec s (.ds e fill) = .error ⟨.needsNow, {}⟩ ∧
    Abs.exec s (.align e) = .error ⟨.needsNow, {}⟩ := by
  simp only [Abs.exec]
  generalize Abs.resolve s.core e = p at hu
  obtain ⟨c0, e0⟩ := p
  simp only at hu ⊢
  rw [hu]
  exact ⟨rfl, rfl, rfl⟩

/-! ## 5. still unsolved at link time -/

/-- **C05 (unsolved at link).**  A patch whose expression still cannot be solved at link time is
an error of class `unsolved`, never a silent zero. -/
theorem unsolved_at_link_fails (c : CoreSt) (d : List Nat) (l : Link)
    (h : evaluate c.symtab l.expr = .unsolved) : applyLink c d l = .error ⟨.unsolved, l.loc⟩ := by
  simp only [applyLink, h]

theorem applyLinks_unsolved (c : CoreSt) : ∀ (ls : List Link) (d : List Nat) (l : Link), l ∈ ls →
    evaluate c.symtab l.expr = .unsolved → ∃ e, applyLinks c d ls = .error e
  | [], _, _, h, _ => by simp at h
  | m :: r, d, l, h, hu => by
    simp only [applyLinks]
    cases hm : applyLink c d m with
    | error e => exact ⟨e, rfl⟩
    | ok d' =>
      rcases List.mem_cons.mp h with heq | hin
      · subst heq; rw [unsolved_at_link_fails c d l hu] at hm; cases hm
      · exact applyLinks_unsolved c r d' l hin hu

/-- Whole-link form: any registered patch that is still unsolved makes the link fail. -/
theorem unsolved_link_fails (c : CoreSt) (l : Link) (hl : l ∈ c.links)
    (hu : evaluate c.symtab l.expr = .unsolved) : ∃ e, link c = .error e := by
  unfold link
  cases checkRefs c c.hits with
  | error e => exact ⟨e, rfl⟩
  | ok _ => exact applyLinks_unsolved c c.links c.data l hl hu

/-! ## non-vacuity -/

section Examples
open Abs

/-- the state after `@db x` with `x` not yet defined … -/
private def cDeferred : CoreSt :=
  { (({} : CoreSt).addLink ⟨.byte, {}, 0, 1, [.label "x"], none⟩).push 0 with here := 1 }

example : Eff.dbVal {} none [.label "x"] {} = .ok cDeferred := rfl
example : LinksWf cDeferred := dbVal_linksWf linksWf_init (rfl : Eff.dbVal {} none [.label "x"] {} = .ok cDeferred)

/-- … then `x` defined as 5: the link yields the byte of the immediate path. -/
example : link (cDeferred.insert "x" (.val 5)) = .ok [5] := by rfl
example : (Eff.dbVal {} (some 5) [.label "x"] {}).map (·.data) = .ok [5] := by rfl

/-- With 256 both paths reject with a range error. -/
example : link (cDeferred.insert "x" (.val 256)) = .error ⟨.range, {}⟩ := by rfl
example : Eff.dbVal {} (some 256) [.label "x"] {} = .error ⟨.range, {}⟩ := by rfl

/-- Whole programs: definition after use = definition before use. -/
example : assembleAbs [.dbVal [.label "x"], .define true "x" [.val 5]] = .ok [5] := by rfl
example : assembleAbs [.define true "x" [.val 5], .dbVal [.label "x"]] = .ok [5] := by rfl
example : assembleAbs [.dbVal [.label "x"], .define true "x" [.val 256]] = .error ⟨.range, {}⟩ := by rfl
example : assembleAbs [.define true "x" [.val 256], .dbVal [.label "x"]] = .error ⟨.range, {}⟩ := by rfl
/-- never defined: rejected, not zero -/
example : assembleAbs [.dbVal [.label "x"]] = .error ⟨.undefined, {}⟩ := by rfl
/-- a deferred false assertion still fails the build -/
example : assembleAbs [.assert [.label "x"], .define true "x" [.val 0]] = .error ⟨.assertFail, {}⟩ := by rfl
/-- needs its value now -/
example : exec {} (.org [.label "x"]) = .error ⟨.needsNow, {}⟩ := by rfl

end Examples

end Az65.Thm.C05

import Az65.Thm.C10
import Std.Data.String.ToNat
/-
C11 — the built-in generators are exact.

1. `count_eq`, `count_replay`: `@count N` generates the number tokens `0 1 … N-1`.
2. `hex_roundtrip`, `bin_roundtrip`: the digits `@hex` / `@bin` produce parse back to the value.
3. `each_eq`: `@each X, {t1 … tn} body @endeach` replays `body[X:=t1] … body[X:=tn]` in order.
4. `if_skips`, `if_skips_nested`: a false `@if` skips up to the matching `@endif`.
5. `entropy_injective`, `entropy_same`: `@entropy` strings.
6. `labelKindOf_*`, `stringify_*`: pieces of `@string` / `@label`.
-/
namespace Az65.Thm.C11
open Az65 Az65.Thm.C10

/-! ## 1. `@count` -/

/-- **`@count N`** records exactly the number tokens `0, 1, …, N-1` (at the location of the
directive). -/
theorem count_eq (n : Nat) (loc : Loc) :
    countToks n loc none = (List.range n).map (fun i => MTok.tok ⟨.num i, loc⟩) := by
  simp [countToks]

theorem count_length (n : Nat) (loc : Loc) : (countToks n loc none).length = n := by
  simp [countToks]

theorem count_zero (loc : Loc) : countToks 0 loc none = [] := by
  simp [countToks]

/-- With a look-ahead token already read, that token is re-queued *after* the generated ones. -/
theorem count_stash (n : Nat) (loc : Loc) (t : LTok) :
    countToks n loc (some t) = countToks n loc none ++ [.tok t] := by
  simp [countToks]

theorem countToks_eq_map (n : Nat) (loc : Loc) :
    countToks n loc none = ((List.range n).map (fun i => (⟨.num i, loc⟩ : LTok))).map MTok.tok := by
  simp [countToks]

/-- **`@count N` replays as `0 1 … N-1`.**  Draining the invocation `countF` pushes (a macro with
no parameters whose body is `countToks`) yields the tokens `0 1 … N-1` in order. -/
theorem count_replay (n : Nat) (loc : Loc) (name : String) (inc : Option Loc) (ent : String)
    (k : Nat) (hk : n < k) :
    drain { args := [], toks := countToks n loc none } k (initState name [] loc inc ent) =
      (List.range n).map (fun i => (⟨.num i, loc⟩ : LTok)) := by
  have h := replay_eq_subst { args := [], toks := countToks n loc none } name [] loc inc ent k
  simp only [countToks_eq_map, flatSubst_toks] at h ⊢
  exact h (by simpa using hk)

/-- … and with a stashed look-ahead token `t`: `0 1 … N-1 t`. -/
theorem count_replay_stash (n : Nat) (loc : Loc) (t : LTok) (name : String) (inc : Option Loc)
    (ent : String) (k : Nat) (hk : n + 1 < k) :
    drain { args := [], toks := countToks n loc (some t) } k (initState name [] loc inc ent) =
      (List.range n).map (fun i => (⟨.num i, loc⟩ : LTok)) ++ [t] := by
  have e : countToks n loc (some t) =
      ((List.range n).map (fun i => (⟨.num i, loc⟩ : LTok)) ++ [t]).map MTok.tok := by
    simp [countToks]
  have h := replay_eq_subst { args := [], toks := countToks n loc (some t) } name [] loc inc ent k
  simp only [e, flatSubst_toks] at h ⊢
  exact h (by simpa using hk)

/-! ## 2. `@hex` / `@bin` -/

theorem digitVal_digit : ∀ d : Fin 16,
    digitVal (if d.val < 10 then Char.ofNat (48 + d.val) else Char.ofNat (87 + d.val)) = d.val := by
  decide

/-- Value of a digit list, least significant digit first. -/
def valRev (b : Nat) (l : List Char) : Nat := l.foldr (fun c acc => acc * b + digitVal c) 0

/-- The digits produced for `n` (least significant first) denote `n`. -/
theorem digitsRev_val (b : Nat) (hb2 : 2 ≤ b) (hb16 : b ≤ 16) :
    ∀ f n, n < f → valRev b (digitsRev b f n) = n := by
  intro f
  induction f with
  | zero => intro n h; omega
  | succ f ih =>
    intro n h
    have hd : n % b < 16 := Nat.lt_of_lt_of_le (Nat.mod_lt n (by omega)) hb16
    have hc := digitVal_digit ⟨n % b, hd⟩
    simp only at hc
    simp only [digitsRev]
    split
    · rename_i hlt
      simp only [valRev, List.foldr_cons, List.foldr_nil, hc]
      rw [Nat.mod_eq_of_lt hlt]; omega
    · rename_i hge
      have hdiv : n / b < f := by
        have : n / b < n := Nat.div_lt_self (by omega) (by omega)
        omega
      have := ih (n / b) hdiv
      simp only [valRev, List.foldr_cons, hc] at this ⊢
      rw [this]
      have := Nat.div_add_mod n b
      rw [Nat.mul_comm] at this; exact this

/-- Every produced character is a digit of the base. -/
theorem digitsRev_digits (b : Nat) (hb2 : 2 ≤ b) (hb16 : b ≤ 16) :
    ∀ f n, ∀ c ∈ digitsRev b f n, digitVal c < b ∧ c ∈ "0123456789abcdef".toList := by
  have hall : ∀ d : Fin 16,
      (if d.val < 10 then Char.ofNat (48 + d.val) else Char.ofNat (87 + d.val)) ∈
        "0123456789abcdef".toList := by decide
  intro f
  induction f with
  | zero => intro n c hc; simp [digitsRev] at hc
  | succ f ih =>
    intro n c hc
    have hd : n % b < 16 := Nat.lt_of_lt_of_le (Nat.mod_lt n (by omega)) hb16
    have hv := digitVal_digit ⟨n % b, hd⟩
    have hm := hall ⟨n % b, hd⟩
    simp only at hv hm
    simp only [digitsRev] at hc
    have hmod : n % b < b := Nat.mod_lt n (by omega)
    split at hc
    · simp only [List.mem_singleton] at hc; subst hc
      exact ⟨by rw [hv]; exact hmod, hm⟩
    · simp only [List.mem_cons] at hc
      rcases hc with hc | hc
      · subst hc; exact ⟨by rw [hv]; exact hmod, hm⟩
      · exact ih _ c hc

theorem digitsRev_ne_nil (b f n : Nat) : digitsRev b (f + 1) n ≠ [] := by
  simp only [digitsRev]; split <;> simp

theorem digitsOf_ne_nil (b n : Nat) : digitsOf b n ≠ [] := by
  simp only [digitsOf, ne_eq, List.reverse_eq_nil_iff]; exact digitsRev_ne_nil b n n

/-- Reading the digits of `n` back (most significant first, as the lexer does) gives `n`. -/
theorem digitsOf_value (b : Nat) (hb2 : 2 ≤ b) (hb16 : b ≤ 16) (n : Nat) :
    (digitsOf b n).foldl (fun acc c => acc * b + digitVal c) 0 = n := by
  rw [digitsOf, List.foldl_reverse]
  exact digitsRev_val b hb2 hb16 (n + 1) n (by omega)

theorem parse_digitsOf (b : Nat) (hb2 : 2 ≤ b) (hb16 : b ≤ 16) (v : Nat) (hv : v < 2 ^ 32) :
    parseU32 b (digitsOf b v) = some v := by
  have hne := digitsOf_ne_nil b v
  have hval := digitsOf_value b hb2 hb16 v
  unfold parseU32
  have : (digitsOf b v).isEmpty = false := by
    cases h : digitsOf b v with
    | nil => exact absurd h hne
    | cons _ _ => rfl
  simp only [this, hval]
  have hv' : v < 4294967296 := by simpa using hv
  simp [hv']

/-- **`@hex` round trip.**  The digits `@hex` produces for a 32-bit value parse back (as the lexer
parses the digits of a `$…` literal) to that value. -/
theorem hex_roundtrip (v : Nat) (hv : v < 2 ^ 32) : parseU32 16 (digitsOf 16 v) = some v :=
  parse_digitsOf 16 (by omega) (by omega) v hv

/-- **`@bin` round trip** (the digits of a `%…` literal). -/
theorem bin_roundtrip (v : Nat) (hv : v < 2 ^ 32) : parseU32 2 (digitsOf 2 v) = some v :=
  parse_digitsOf 2 (by omega) (by omega) v hv

/-- For the value the directive actually prints — the two's complement `x.toNat` of the `i32`
expression value (a negative value is printed as `ffff…`) — both round trips hold. -/
theorem hex_roundtrip_i32 (x : BitVec 32) : parseU32 16 (digitsOf 16 x.toNat) = some x.toNat :=
  hex_roundtrip x.toNat x.isLt

theorem bin_roundtrip_i32 (x : BitVec 32) : parseU32 2 (digitsOf 2 x.toNat) = some x.toNat :=
  bin_roundtrip x.toNat x.isLt

/-- The strings pushed by `numberDirF`. -/
theorem hexDigits_roundtrip (x : BitVec 32) :
    parseU32 16 (hexDigits x.toNat).toList = some x.toNat := by
  simp only [hexDigits, String.toList_ofList]; exact hex_roundtrip_i32 x

theorem binDigits_roundtrip (x : BitVec 32) :
    parseU32 2 (binDigits x.toNat).toList = some x.toNat := by
  simp only [binDigits, String.toList_ofList]; exact bin_roundtrip_i32 x

/-- Hex digits are lower case hex digits, binary digits are `0` / `1`. -/
theorem hex_digits_valid (v : Nat) : ∀ c ∈ digitsOf 16 v, c ∈ "0123456789abcdef".toList := by
  intro c hc
  rw [digitsOf, List.mem_reverse] at hc
  exact (digitsRev_digits 16 (by omega) (by omega) _ _ c hc).2

theorem bin_digits_valid (v : Nat) : ∀ c ∈ digitsOf 2 v, digitVal c < 2 := by
  intro c hc
  rw [digitsOf, List.mem_reverse] at hc
  exact (digitsRev_digits 2 (by omega) (by omega) _ _ c hc).1

/-! ## 3. `@each` -/

/-- The replay states `eachF` returns: one per item, the item being the single argument. -/
def eachStates (name : String) (items : List LTok) (loc : Loc) (ent : String) : List MacroState :=
  items.map fun t =>
    { name := name, args := [[t]], loc := loc, includedFrom := some loc, entropy := ent }

theorem substTok_single_length (t : LTok) (ent : String) (x : MTok) :
    (substTok [[t]] ent x).length ≤ 1 := by
  cases x with
  | tok u => simp [substTok]
  | entropy l => simp [substTok]
  | arg i => cases i <;> simp [substTok]

theorem flatSubst_single_length (body : List MTok) (t : LTok) (ent : String) :
    (flatSubst body [[t]] ent).length ≤ body.length := by
  induction body with
  | nil => simp [flatSubst]
  | cons x xs ih =>
    have := substTok_single_length t ent x
    simp only [flatSubst, List.flatMap_cons, List.length_append, List.length_cons] at ih ⊢
    omega

/-- **`@each X, {t1 … tn} body @endeach` = `body[X:=t1] … body[X:=tn]`.**  The states `eachF`
returns are put on the source stack in this order, top first (`peekF`, `.dir "Each"`), so the
pump drains them in list order; the concatenation of their replays is the body with the slot of
`X` replaced by `t1`, then by `t2`, …, in that order.  Each item is a single token. -/
theorem each_eq (X name : String) (body : List MTok) (items : List LTok) (loc : Loc)
    (ent : String) (n : Nat) (hn : body.length < n) :
    (eachStates name items loc ent).flatMap (drain { args := [X], toks := body } n) =
      items.flatMap (fun t => flatSubst body [[t]] ent) := by
  simp only [eachStates, List.flatMap_map]
  congr 1
  funext t
  exact replay_eq_subst { args := [X], toks := body } name [[t]] loc (some loc) ent n
    (Nat.lt_of_le_of_lt (flatSubst_single_length body t ent) hn)

/-- No items, no tokens. -/
theorem each_nil (X name : String) (body : List MTok) (loc : Loc) (ent : String) (n : Nat) :
    (eachStates name [] loc ent).flatMap (drain { args := [X], toks := body } n) = [] := rfl

/-- The body of `@each X` is recorded with `slotOf [X]`: exactly the *global* labels named `X`
become the slot. -/
theorem each_slot (X : String) (t : LTok) (i : Nat) :
    slotOf [X] t = .arg i ↔ i = 0 ∧ t.tok = .label .global X := by
  rw [record_slots_arg]
  constructor
  · rintro ⟨v, hv, hi⟩
    have := idxOf_first [X] v i hi
    cases i with
    | zero => simp at this; rw [hv, ← this]; exact ⟨rfl, rfl⟩
    | succ j => simp at this
  · rintro ⟨rfl, ht⟩
    exact ⟨X, ht, by simp [List.idxOf?]⟩

/-- Substituting into the recorded body replaces the label `X` by the item. -/
theorem each_subst_X (X : String) (l : Loc) (t : LTok) (ent : String) :
    substTok [[t]] ent (slotOf [X] ⟨.label .global X, l⟩) = [t] := by
  have : slotOf [X] ⟨.label .global X, l⟩ = .arg 0 := (each_slot X _ 0).2 ⟨rfl, rfl⟩
  rw [this]; rfl

/-! ## 4. `@if` skipping -/

section steps
variable {σ : Type} (ops : TokOps σ)

theorem skip_if {s s' : σ} {t : LTok} (f level : Nat)
    (h : ops.next s = .ok (some t, s')) (ht : t.tok = .dir "If") :
    skipIfG ops (f + 1) level s = skipIfG ops f (level + 1) s' := by
  rcases t with ⟨tok, l⟩; simp only at ht; subst ht
  simp only [skipIfG, h]

theorem skip_endif {s s' : σ} {t : LTok} (f level : Nat)
    (h : ops.next s = .ok (some t, s')) (ht : t.tok = .dir "EndIf") :
    skipIfG ops (f + 1) level s =
      if level = 1 then .ok ((), s') else skipIfG ops f (level - 1) s' := by
  rcases t with ⟨tok, l⟩; simp only at ht; subst ht
  simp only [skipIfG, h]

theorem skip_other {s s' : σ} {t : LTok} (f level : Nat)
    (h : ops.next s = .ok (some t, s'))
    (h1 : t.tok ≠ .dir "If") (h2 : t.tok ≠ .dir "EndIf") :
    skipIfG ops (f + 1) level s = skipIfG ops f level s' := by
  rcases t with ⟨tok, l⟩
  conv => lhs; unfold skipIfG
  rw [h]
  split
  · rename_i heq; cases heq
  · rename_i heq; cases heq
  · rename_i heq; cases heq; exact absurd rfl h1
  · rename_i heq; cases heq; exact absurd rfl h2
  · rename_i heq; cases heq; rfl

theorem skip_eoi {s s' : σ} (f level : Nat) (h : ops.next s = .ok (none, s')) :
    skipIfG ops (f + 1) level s = .error ⟨.eoi, ops.loc s'⟩ := by
  simp only [skipIfG, h]
end steps

/-- Token lists in which `@if` / `@endif` are properly nested. -/
inductive BalIf : List LTok → Prop
  | nil : BalIf []
  | tok (t : LTok) (xs : List LTok) :
      t.tok ≠ .dir "If" → t.tok ≠ .dir "EndIf" → BalIf xs → BalIf (t :: xs)
  | grp (i e : LTok) (xs ys : List LTok) :
      i.tok = .dir "If" → e.tok = .dir "EndIf" → BalIf xs → BalIf ys →
      BalIf (i :: xs ++ e :: ys)

/-- A properly nested stretch is skipped as a whole, the nesting level is unchanged. -/
theorem skip_bal (body : List LTok) (hb : BalIf body) :
    ∀ (f level : Nat) (rest : List LTok) (core : CoreSt) (c : Loc), level ≥ 1 →
    skipIfG plainOps (body.length + f) level ⟨body ++ rest, core, c⟩ =
      skipIfG plainOps f level ⟨rest, core, lastLoc c body⟩ := by
  induction hb with
  | nil => intro f level rest core c _; simp [lastLoc]
  | tok t xs h1 h2 _ ih =>
    intro f level rest core c hl
    have hlen : (t :: xs).length + f = (xs.length + f) + 1 := by simp; omega
    rw [hlen, List.cons_append, skip_other plainOps _ level (plain_next t _ core c) h1 h2,
      ih f level rest core _ hl]
    simp [lastLoc]
  | grp i e xs ys hi he _ _ ihx ihy =>
    intro f level rest core c hl
    have hlen : (i :: xs ++ e :: ys).length + f = (xs.length + ((ys.length + f) + 1)) + 1 := by
      simp; omega
    rw [hlen, List.cons_append, List.cons_append, List.append_assoc]
    rw [skip_if plainOps _ level (plain_next i _ core c) hi]
    rw [ihx _ (level + 1) _ core _ (by omega), List.cons_append]
    rw [skip_endif plainOps _ (level + 1) (plain_next e _ core _) he,
      if_neg (by omega), Nat.add_sub_cancel]
    rw [ihy f level rest core _ hl]
    simp [lastLoc, List.foldl_append]

/-- **A false `@if` skips to the MATCHING `@endif`.**  After `@if E` with `E = 0` the pump calls
`skipIfG … 1`.  If the tokens up to some `@endif` are properly nested in `@if … @endif` (so that
this `@endif` is the matching one), everything up to and including it is consumed and nothing of
it is contributed: the next token read is the first one of `rest`. -/
theorem if_skips_nested (body rest : List LTok) (endif : LTok) (core : CoreSt) (c : Loc) (f : Nat)
    (he : endif.tok = .dir "EndIf") (hb : BalIf body) (hf : f ≥ body.length + 1) :
    skipIfG plainOps f 1 ⟨body ++ endif :: rest, core, c⟩ = .ok ((), ⟨rest, core, endif.loc⟩) := by
  obtain ⟨k, rfl⟩ : ∃ k, f = body.length + (k + 1) := ⟨f - body.length - 1, by omega⟩
  rw [skip_bal body hb (k + 1) 1 (endif :: rest) core c (Nat.le_refl 1)]
  rw [skip_endif plainOps k 1 (plain_next endif rest core _) he]
  simp

theorem balIf_of_flat (body : List LTok)
    (h : ∀ t ∈ body, t.tok ≠ .dir "If" ∧ t.tok ≠ .dir "EndIf") : BalIf body := by
  induction body with
  | nil => exact .nil
  | cons t xs ih =>
    exact .tok t xs (h t (by simp)).1 (h t (by simp)).2
      (ih fun u hu => h u (List.mem_cons_of_mem _ hu))

/-- **A false `@if` contributes nothing** (no inner `@if`): the body up to the first `@endif` is
consumed. -/
theorem if_skips (body rest : List LTok) (endif : LTok) (core : CoreSt) (c : Loc) (f : Nat)
    (he : endif.tok = .dir "EndIf")
    (hb : ∀ t ∈ body, t.tok ≠ .dir "If" ∧ t.tok ≠ .dir "EndIf") (hf : f > body.length) :
    skipIfG plainOps f 1 ⟨body ++ endif :: rest, core, c⟩ = .ok ((), ⟨rest, core, endif.loc⟩) :=
  if_skips_nested body rest endif core c f he (balIf_of_flat body hb) (by omega)

/-- End of input inside the skipped region (`@endif` missing) is an error — at any nesting
level. -/
theorem if_skip_eoi (body : List LTok) (core : CoreSt) (c : Loc) (f level : Nat)
    (hb : BalIf body) (hl : level ≥ 1) (hf : f > body.length) :
    skipIfG plainOps f level ⟨body, core, c⟩ = .error ⟨.eoi, lastLoc c body⟩ := by
  obtain ⟨k, rfl⟩ : ∃ k, f = body.length + (k + 1) := ⟨f - body.length - 1, by omega⟩
  have := skip_bal body hb (k + 1) level [] core c hl
  rw [List.append_nil] at this
  rw [this]
  exact skip_eoi plainOps k level (plain_next_nil core _)

/-- An unmatched inner `@if` also runs into the end of input: the `@endif` that follows closes
the inner one, not the skipped one. -/
theorem if_skip_inner_unclosed (i endif : LTok) (xs : List LTok) (core : CoreSt) (c : Loc)
    (f : Nat) (hi : i.tok = .dir "If") (he : endif.tok = .dir "EndIf") (hx : BalIf xs)
    (hf : f > xs.length + 2) :
    skipIfG plainOps f 1 ⟨i :: xs ++ [endif], core, c⟩ = .error ⟨.eoi, endif.loc⟩ := by
  have hb : BalIf (i :: xs ++ endif :: []) := .grp i endif xs [] hi he hx .nil
  have := if_skip_eoi (i :: xs ++ [endif]) core c f 1 hb (Nat.le_refl 1) (by simp; omega)
  rw [this]; simp [lastLoc, List.foldl_append]

/-- With enough fuel the skip loop never fails for another reason than the end of input. -/
theorem if_skip_total (toks : List LTok) :
    ∀ (core : CoreSt) (c : Loc) (f level : Nat), f > toks.length →
    (∃ s', skipIfG plainOps f level ⟨toks, core, c⟩ = .ok ((), s')) ∨
    (∃ l, skipIfG plainOps f level ⟨toks, core, c⟩ = .error ⟨.eoi, l⟩) := by
  induction toks with
  | nil =>
    intro core c f level hf
    obtain ⟨k, rfl⟩ : ∃ k, f = k + 1 := ⟨f - 1, by simp at hf; omega⟩
    exact .inr ⟨c, skip_eoi plainOps k level (plain_next_nil core c)⟩
  | cons t xs ih =>
    intro core c f level hf
    obtain ⟨k, rfl⟩ : ∃ k, f = k + 1 := ⟨f - 1, by simp at hf; omega⟩
    have hk : k > xs.length := by simp at hf; omega
    by_cases h1 : t.tok = .dir "If"
    · rw [skip_if plainOps k level (plain_next t xs core c) h1]; exact ih _ _ _ _ hk
    · by_cases h2 : t.tok = .dir "EndIf"
      · rw [skip_endif plainOps k level (plain_next t xs core c) h2]
        split
        · exact .inl ⟨_, rfl⟩
        · exact ih _ _ _ _ hk
      · rw [skip_other plainOps k level (plain_next t xs core c) h1 h2]; exact ih _ _ _ _ hk

/-! ## 5. `@entropy` -/

/-- The string of expansion number `n` (`macroInvokeF`, `countF`, `eachF`, …). -/
def entropyOf (n : Nat) : String := "__" ++ toString n

/-- **Distinct expansions get distinct `@entropy` strings**: the string is `"__"` followed by the
decimal expansion counter, which every expansion increments. -/
theorem entropy_injective (a b : Nat) (h : "__" ++ toString a = "__" ++ toString b) : a = b := by
  rw [String.append_right_inj] at h
  exact Nat.repr_injective h

theorem entropyOf_ne (a b : Nat) (h : a ≠ b) : entropyOf a ≠ entropyOf b :=
  fun e => h (entropy_injective a b e)

/-- **Within one expansion every `@entropy` is the same string**: each entropy slot of the body
is replaced by the (single) string of the expansion. -/
theorem entropy_same (args : List (List LTok)) (ent : String) (loc : Loc) :
    substTok args ent (.entropy loc) = [⟨.str ent, loc⟩] := rfl

theorem entropy_same_all (locs : List Loc) (args : List (List LTok)) (ent : String) :
    flatSubst (locs.map MTok.entropy) args ent = locs.map (fun l => (⟨.str ent, l⟩ : LTok)) := by
  induction locs with
  | nil => rfl
  | cons l r ih => simp only [flatSubst, List.map_cons, List.flatMap_cons] at ih ⊢; rw [ih]; rfl

/-- … and the replay loop never changes the string (see also `macroNext_flat`). -/
theorem entropy_kept (m : Macro) (f : Nat) (st st' : MacroState) (t : LTok) (hwf : WF m st)
    (hf : 2 * (m.toks.length - st.macroOff) + 1 ≤ f) (h : macroNext m f st = (some t, st')) :
    st'.entropy = st.entropy :=
  ((macroNext_flat m f st hwf hf).1 t st' h).2.2.2

/-! ## 6. `@string` / `@label` -/

theorem dotCount (cs : List Char) : (cs.filter (· == '.')).length = cs.count '.' := by
  rw [List.count_eq_length_filter]

theorem startsWith_dot (cs : List Char) :
    (String.ofList cs).startsWith "." = true ↔ cs.head? = some '.' := by
  rw [String.startsWith_string_iff, String.toList_ofList]
  cases cs <;> simp [List.cons_prefix_cons, eq_comm]

/-- **`@label` classification**: no dot — a global label. -/
theorem labelKindOf_global (cs : List Char) (h : cs.count '.' = 0) :
    labelKindOf (String.ofList cs) = some .global := by
  simp only [labelKindOf, String.toList_ofList, dotCount, h]

/-- One dot, in front — a local label. -/
theorem labelKindOf_loc (cs : List Char) (h : cs.count '.' = 1) (hd : cs.head? = some '.') :
    labelKindOf (String.ofList cs) = some .loc := by
  simp only [labelKindOf, String.toList_ofList, dotCount, h, (startsWith_dot cs).2 hd, if_true]

/-- One dot, not in front — a direct (`global.local`) label. -/
theorem labelKindOf_direct (cs : List Char) (h : cs.count '.' = 1) (hd : cs.head? ≠ some '.') :
    labelKindOf (String.ofList cs) = some .direct := by
  have : (String.ofList cs).startsWith "." = false := by
    cases hs : (String.ofList cs).startsWith "." with
    | false => rfl
    | true => exact absurd ((startsWith_dot cs).1 hs) hd
  simp only [labelKindOf, String.toList_ofList, dotCount, h, this]
  simp

/-- Two or more dots — not a label (the directive reports an error). -/
theorem labelKindOf_none (cs : List Char) (h : cs.count '.' ≥ 2) :
    labelKindOf (String.ofList cs) = none := by
  obtain ⟨k, hk⟩ : ∃ k, cs.count '.' = k + 2 := ⟨cs.count '.' - 2, by omega⟩
  simp only [labelKindOf, String.toList_ofList, dotCount, hk]

/-- The same four statements for an arbitrary string. -/
theorem labelKindOf_string (s : String) :
    labelKindOf s =
      (if s.toList.count '.' = 0 then some .global
       else if s.toList.count '.' = 1 then
         (if s.toList.head? = some '.' then some .loc else some .direct)
       else none) := by
  have hs : s = String.ofList s.toList := by simp
  by_cases h0 : s.toList.count '.' = 0
  · rw [if_pos h0, hs]; exact labelKindOf_global _ h0
  · rw [if_neg h0]
    by_cases h1 : s.toList.count '.' = 1
    · rw [if_pos h1]
      by_cases hd : s.toList.head? = some '.'
      · rw [if_pos hd, hs]; exact labelKindOf_loc _ h1 hd
      · rw [if_neg hd, hs]; exact labelKindOf_direct _ h1 hd
    · rw [if_neg h1, hs]; exact labelKindOf_none _ (by omega)

/-- **Pieces of `@string` / `@label`**: a string or label token contributes its text, a number its
lower-case hexadecimal digits (no prefix). -/
theorem stringify_str (a : Arch) (s : String) : stringify a (.str s) = some s := rfl
theorem stringify_label (a : Arch) (k : LabelKind) (s : String) :
    stringify a (.label k s) = some s := rfl
theorem stringify_num (a : Arch) (v : Nat) :
    stringify a (.num v) = some (String.ofList (digitsOf 16 v)) := rfl
theorem stringify_num_hex (a : Arch) (v : Nat) : stringify a (.num v) = some (hexDigits v) := rfl
/-- line breaks, comments, directives and flags cannot be pieces -/
theorem stringify_none (a : Arch) :
    stringify a .newline = none ∧ stringify a .comment = none ∧
    (∀ n, stringify a (.dir n) = none) ∧ (∀ n, stringify a (.flag n) = none) :=
  ⟨rfl, rfl, fun _ => rfl, fun _ => rfl⟩

/-! ## non-vacuity -/

section examples
def l1 : Loc := { file := 0, line := 3, col := 7 }
def X : LTok := ⟨.label .global "X", l0⟩
def ifT : LTok := ⟨.dir "If", l0⟩
def endifT : LTok := ⟨.dir "EndIf", l0⟩

example : countToks 3 l1 none = [.tok ⟨.num 0, l1⟩, .tok ⟨.num 1, l1⟩, .tok ⟨.num 2, l1⟩] := rfl
example : drain { args := [], toks := countToks 3 l1 none } 10 (initState "c" [] l1 none "__0") =
    [⟨.num 0, l1⟩, ⟨.num 1, l1⟩, ⟨.num 2, l1⟩] := by decide

example : digitsOf 16 48879 = "beef".toList := by decide
example : digitsOf 2 5 = "101".toList := by decide
example : digitsOf 16 0 = ['0'] := by decide
example : parseU32 16 (digitsOf 16 48879) = some 48879 := hex_roundtrip _ (by decide)
example : digitsOf 16 (BitVec.toNat (-1#32)) = "ffffffff".toList := by decide

/-- `@each X, {5 6} @db X @endeach` replays `@db 5 @db 6`. -/
example : (eachStates "e" [n5, n6] l0 "__0").flatMap
      (drain { args := ["X"], toks := [db, X].map (slotOf ["X"]) } 5) = [db, n5, db, n6] := by
  decide
example : [n5, n6].flatMap (fun t => flatSubst ([db, X].map (slotOf ["X"])) [[t]] "__0") =
    [db, n5, db, n6] := by decide

/-- `5 @if 6 @endif 5 @endif 6` (inner pair kept together, the skip ends at the second `@endif`) -/
example : skipIfG plainOps 10 1 ⟨[n5, ifT, n6, endifT, n5, endifT, n6], {}, l0⟩ =
    .ok ((), ⟨[n6], {}, l0⟩) :=
  if_skips_nested [n5, ifT, n6, endifT, n5] [n6] endifT {} l0 10 rfl
    (.tok n5 _ (by decide) (by decide)
      (.grp ifT endifT [n6] [n5] rfl rfl (.tok n6 [] (by decide) (by decide) .nil)
        (.tok n5 [] (by decide) (by decide) .nil))) (by decide)

example : skipIfG plainOps 10 1 ⟨[n5, n6], {}, l0⟩ = .error ⟨.eoi, l0⟩ := rfl

example : entropyOf 3 ≠ entropyOf 4 := entropyOf_ne 3 4 (by decide)

example : labelKindOf (String.ofList "abc".toList) = some .global :=
  labelKindOf_global _ (by decide)
example : labelKindOf (String.ofList ".abc".toList) = some .loc :=
  labelKindOf_loc _ (by decide) (by decide)
example : labelKindOf (String.ofList "a.bc".toList) = some .direct :=
  labelKindOf_direct _ (by decide) (by decide)
example : labelKindOf (String.ofList "a.b.c".toList) = none :=
  labelKindOf_none _ (by decide)
example : stringify .z80 (.num 255) = some "ff" := by decide
end examples

end Az65.Thm.C11

import Az65.Model.Export
/-
C15 — the command line reports failure as failure and never leaves partial output.
Theorems about `Cli.main`, the mirror of `main` in src/bin/az65.rs (phases are parameters: the
option grammar, process exit codes and file creation are clap / OS behaviour tied by the
correspondence run of the real binary).
-/
namespace Az65.Thm.C15
open Az65 Az65.Cli

def allTrue : List Bool → Bool
  | [] => true
  | b :: r => b && allTrue r

/-- Every phase that was asked for succeeded. -/
def allOk (toFile : Bool) (p : Phases) : Prop :=
  (toFile = true → p.outputOpens = true) ∧ (toFile = true → p.outputWrites = true) ∧
  p.searchPathsOk = true ∧ p.assemble = true ∧ p.link.isSome = true ∧ allTrue p.exports = true

theorem takeWhile_lt (l : List Bool) : (l.takeWhile id).length < l.length ↔ allTrue l = false := by
  induction l with
  | nil => simp [allTrue]
  | cons b r ih =>
    cases b
    · simp [List.takeWhile, allTrue]
    · simp only [List.takeWhile, id, List.length_cons, allTrue, Bool.true_and]
      rw [← ih]; omega

/-- **C15 (exit status).**  The exit status is 0 exactly when opening (and writing) the output, every search
path, assembling, linking and every requested export succeeded. -/
theorem exit_zero_iff (toFile : Bool) (p : Phases) : (main toFile p).exit = 0 ↔ allOk toFile p := by
  unfold main allOk
  by_cases hd : (p.exports.takeWhile id).length < p.exports.length
  · have := (takeWhile_lt _).1 hd
    cases toFile <;> cases p.outputOpens <;> cases p.outputWrites <;> cases p.searchPathsOk <;> cases p.assemble <;>
      cases p.link <;> simp [hd, this]
  · have : allTrue p.exports = true := by
      cases hh : allTrue p.exports
      · exact absurd ((takeWhile_lt _).2 hh) hd
      · rfl
    cases toFile <;> cases p.outputOpens <;> cases p.outputWrites <;> cases p.searchPathsOk <;> cases p.assemble <;>
      cases p.link <;> simp [hd, this]

/-- A message is printed on standard error exactly when the run fails. -/
theorem message_iff_failure (toFile : Bool) (p : Phases) :
    (main toFile p).message = true ↔ (main toFile p).exit ≠ 0 := by
  unfold main
  cases toFile <;> cases p.outputOpens <;> cases p.outputWrites <;> cases p.searchPathsOk <;> cases p.assemble <;>
    cases p.link <;> simp <;> split <;> simp

/-- **C15 (no partial output).**  If assembling or linking fails, nothing at all is written to
standard output, the `-o` file (if it was created) holds no bytes, and no export file is produced. -/
theorem no_partial_output (toFile : Bool) (p : Phases) (h : p.assemble = false ∨ p.link = none) :
    (main toFile p).stdout = [] ∧ ((main toFile p).ofile = none ∨ (main toFile p).ofile = some []) ∧
    (main toFile p).exportsWritten = 0 := by
  unfold main
  rcases h with h | h
  · cases toFile <;> cases p.outputOpens <;> cases p.outputWrites <;> cases p.searchPathsOk <;> simp [h]
  · cases toFile <;> cases p.outputOpens <;> cases p.outputWrites <;> cases p.searchPathsOk <;> cases p.assemble <;> simp [h]

/-- **C15 (-o equals stdout).**  On success the bytes written with `-o FILE` are identical to
those written to standard output without it. -/
theorem o_equals_stdout (p : Phases) (h : allOk true p) :
    (main true p).ofile = some (main false p).stdout := by
  obtain ⟨h1, hw, h2, h3, h4, h5⟩ := h
  unfold main
  cases hl : p.link with
  | none => simp [hl] at h4
  | some img =>
    have hn : ¬ (p.exports.takeWhile id).length < p.exports.length := by
      intro hh; have := (takeWhile_lt _).1 hh; simp [this] at h5
    simp [h1 rfl, hw rfl, h2, h3, hn]

/-- With `-o`, standard output stays empty whatever happens. -/
theorem o_keeps_stdout_empty (p : Phases) : (main true p).stdout = [] := by
  unfold main
  cases p.outputOpens <;> cases p.outputWrites <;> cases p.searchPathsOk <;> cases p.assemble <;>
    cases p.link <;> simp <;> split <;> simp

theorem takeWhile_le (l : List Bool) : (l.takeWhile id).length ≤ l.length := by
  induction l with
  | nil => simp
  | cons b r ih => cases b <;> simp [List.takeWhile] <;> omega

/-- An export that fails stops the later ones; the ones before it were written. -/
theorem exports_prefix (toFile : Bool) (p : Phases) :
    (main toFile p).exportsWritten ≤ p.exports.length := by
  have := takeWhile_le p.exports
  unfold main
  cases toFile <;> cases p.outputOpens <;> cases p.outputWrites <;> cases p.searchPathsOk <;> cases p.assemble <;>
    cases p.link <;> simp <;> split <;> simp <;> omega

/-! non-vacuity -/
example : main false { assemble := true, link := some [1, 2], exports := [true] } = ⟨0, [1, 2], none, false, 1⟩ := by decide
example : main true { assemble := true, link := none } = ⟨1, [], some [], true, 0⟩ := by decide
example : main true { assemble := true, link := some [7], exports := [true, false, true] } = ⟨1, [], some [7], true, 1⟩ := by decide

example : main true { outputWrites := false, assemble := true, link := some [7], exports := [true] } = ⟨1, [], some [], true, 0⟩ := by decide

end Az65.Thm.C15


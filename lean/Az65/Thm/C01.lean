import Az65.Thm.IsaZ80
import Az65.Thm.C01Forms.P0
import Az65.Thm.C01Forms.P1
import Az65.Thm.C01Forms.P2
import Az65.Thm.C01Forms.P3
import Az65.Thm.C01Forms.P4
import Az65.Thm.C01Forms.P5
import Az65.Thm.C01Forms.P6
import Az65.Thm.C01Forms.P7
import Az65.Thm.C01Forms.P8
import Az65.Thm.C01Forms.P9
import Az65.Thm.C01Forms.P10
import Az65.Thm.C01Forms.P11
import Az65.Thm.C01Forms.P12
import Az65.Thm.C01Forms.P13
import Az65.Thm.C01Forms.P14
import Az65.Thm.C01Forms.P15
/-
C01 — Z80 instructions assemble to their Zilog encoding, and only to it.

ISA-level theorems (all operand values: `decode_enc`, `enc_inj`, `enc_prefix_free`, `read_write`,
`expected_decodes`, …) are in `Az65/Thm/IsaZ80.lean`.  This file ties the decision tree
*regenerated from src/z80/mod.rs on every run* to the Spec.
-/
namespace Az65.Thm.C01
open Az65 Az65.Spec

theorem slices_cover : Z80.allCandidates =
    slice 0 ++ slice 1 ++ slice 2 ++ slice 3 ++ slice 4 ++ slice 5 ++ slice 6 ++ slice 7 ++
    slice 8 ++ slice 9 ++ slice 10 ++ slice 11 ++ slice 12 ++ slice 13 ++ slice 14 ++ slice 15 := by
  decide +kernel

theorem formsAgreeOn_append (a b : List Z80.Instr) :
    formsAgreeOn (a ++ b) = (formsAgreeOn a && formsAgreeOn b) := by
  simp [formsAgreeOn, List.all_append]

/-- **C01 (generated tree = Spec on every form).**  For each of the 1023 candidate instruction
forms (the 798 documented ones and 225 junk register combinations the datatype can express), written
in its canonical spelling, with each value operand also replaced by every edge value
(`$42 $FF $100 $FFFF $10000 -1`), both known now and defined later: the decision tree regenerated
from the current source, run by the model interpreter and linker, yields exactly
`Spec.Z80.expected` — the Zilog encoding when the form is documented and every value fits its field,
a rejection otherwise (and a rejection when `bit/res/set/rst/im` get a not-yet-defined selector). -/
theorem tree_agrees_spec_on_forms : formsAgreeOn Z80.allCandidates = true := by
  rw [slices_cover]
  simp only [formsAgreeOn_append, forms_slice_0, forms_slice_1, forms_slice_2, forms_slice_3,
    forms_slice_4, forms_slice_5, forms_slice_6, forms_slice_7, forms_slice_8, forms_slice_9,
    forms_slice_10, forms_slice_11, forms_slice_12, forms_slice_13, forms_slice_14, forms_slice_15,
    Bool.and_self]

theorem tree_agrees_spec (i : Z80.Instr) (hi : i ∈ Z80.allCandidates) (ops : List Opnd)
    (ho : ops ∈ variants (Z80.write i).2) :
    asmOpnds .z80 0x4000 (Z80.write i).1 ops true = Z80.expected 0x4000 (Z80.write i).1 ops := by
  have h := tree_agrees_spec_on_forms
  simp only [formsAgreeOn, List.all_eq_true] at h
  have h2 := h i hi
  simp only [instrOk, knownDefect, Bool.false_or, List.all_eq_true] at h2
  have h3 := h2 ops ho
  simp only [formOk, Bool.and_eq_true, beq_iff_eq] at h3
  exact h3.1

/-- Every documented form (all 798, plus nothing else) is accepted by the generated tree with its
standard encoding: the "can be written in source" half of C01, at the forms' own operand values. -/
theorem all_documented_forms_writable :
    (Z80.allShapes.all fun i =>
      asmOpnds .z80 0 (Z80.write i).1 (Z80.write i).2 true == some (Z80.enc 0 i)) = true := by
  decide +kernel

export Az65.Thm.IsaZ80 (decode_enc enc_inj enc_prefix_free enc_bytes read_write expected_decodes
  expected_write allShapes_length)

/-! non-vacuity -/
example : asmOpnds .z80 0 "bit" [.imm 7, .idx "iy" 5] true = some [0xFD, 0xCB, 0x05, 0x7E] := by decide +kernel
example : asmOpnds .z80 0 "adc" [.reg "a", .mem 5] true = some [0xCE, 0x05] := by decide +kernel
example : asmOpnds .z80 0 "ld" [.reg "a", .imm 256] true = none := by decide +kernel
example : asmOpnds .z80 0x100 "jr" [.imm 0x100] false = some [0x18, 0xFE] := by decide +kernel

end Az65.Thm.C01

import Az65.Spec.Sm83
/-
C02 — SM83 ISA: properties of the Spec (`Az65/Spec/Sm83.lean`).
-/
set_option linter.constructorNameAsVariable false

namespace Az65.Thm.IsaSm83
open Az65.Spec Az65.Spec.Sm83

/-! ### operand fields -/

theorem getByte_byteOf {n : Int} (h : isByte n = true) (rest : List Nat) :
    getByte (byteOf n :: rest) = some (n, rest) := by
  simp only [isByte, Bool.and_eq_true, decide_eq_true_eq] at h
  have h1 : n.toNat < 256 := by omega
  have h2 : (n.toNat : Int) = n := by omega
  simp [getByte, byteOf, h1, h2]

theorem getByte_high {n : Int} (h : isHigh n = true) (rest : List Nat) :
    getByte (byteOf n % 256 :: rest) = some (n % 256, rest) := by
  simp only [isHigh, isByte, Bool.and_eq_true, Bool.or_eq_true, decide_eq_true_eq] at h
  have h1 : n.toNat % 256 < 256 := by omega
  have h2 : ((n.toNat % 256 : Nat) : Int) = n % 256 := by omega
  simp only [getByte, byteOf, h1, if_true, h2]

theorem getWord_word {n : Int} (h : isWord n = true) (rest : List Nat) :
    getWord (loOf n :: hiOf n :: rest) = some (n, rest) := by
  simp only [isWord, Bool.and_eq_true, decide_eq_true_eq] at h
  have h1 : n.toNat % 256 < 256 ∧ n.toNat / 256 < 256 := by omega
  have h2 : ((n.toNat % 256 + 256 * (n.toNat / 256) : Nat) : Int) = n := by omega
  simp only [getWord, loOf, hiOf, h1, and_self, if_true, h2]

theorem getRel_rel {pc : Nat} {t : Int} (h : isRel pc t = true) (rest : List Nat) :
    getRel pc (relOf pc t :: rest) = some (t, rest) := by
  have hd : -128 ≤ jrDist pc t ∧ jrDist pc t ≤ 127 := by simpa [isRel] using h
  have hb : relOf pc t = (jrDist pc t % 256).toNat := rfl
  have hj : jrDist pc t = t - ((pc : Int) + 2) := rfl
  generalize relOf pc t = b at hb
  generalize jrDist pc t = d at hd hb hj
  have h1 : b < 256 := by omega
  by_cases hc : b < 128
  · simp only [getRel, h1, hc, if_true, Option.some.injEq, Prod.mk.injEq, and_true]; omega
  · simp only [getRel, h1, hc, if_true, if_false, Option.some.injEq, Prod.mk.injEq, and_true]; omega

/-! ### round trip -/

/-- Unfold encoder and decoder on a concrete opcode. -/
local macro "dec_simp" : tactic => `(tactic|
  simp [enc, decode, decodeUn, decodeX0, decodeX3, decodeCB, withByte, withWord, withRel, withPad,
    getPad, norm,
    R8.idx, R8.ofIdx, R16.idx, R16.ofIdx, R16s.idx, R16s.ofIdx, IndA.idx, IndA.ofIdx,
    Cond.idx, Cond.ofIdx, Alu.idx, Alu.ofIdx, Rot.idx, Rot.ofIdx,
    getByte_byteOf, getWord_word, getRel_rel, getByte_high, *])

/-- The same with the bit-number / restart-vector field evaluated. -/
local macro "dec_simp_lit" : tactic => `(tactic| (simp only [enc, byteOf, Int.toNat_zero, Int.reduceToNat]; dec_simp))

theorem isBit_cases {b : Int} (h : isBit b = true) :
    b = 0 ∨ b = 1 ∨ b = 2 ∨ b = 3 ∨ b = 4 ∨ b = 5 ∨ b = 6 ∨ b = 7 := by
  simp only [isBit, Bool.and_eq_true, decide_eq_true_eq] at h; omega

theorem isRst_cases {t : Int} (h : isRst t = true) :
    t = 0 ∨ t = 8 ∨ t = 16 ∨ t = 24 ∨ t = 32 ∨ t = 40 ∨ t = 48 ∨ t = 56 := by
  simp only [isRst, Bool.and_eq_true, decide_eq_true_eq] at h; omega

/-- Decoding the encoding of a well-formed instruction gives the instruction back (with the
`ldh` operand in low-byte form) and consumes exactly its bytes. -/
theorem decode_enc (pc : Nat) (i : Instr) (rest : List Nat) (h : wf pc i = true) :
    decode pc (enc pc i ++ rest) = some (norm i, rest) := by
  cases i <;> simp only [wf] at h
  case nop | stop | halt | rlca | rrca | rla | rra | daa | cpl | scf | ccf | ret | reti | jpHl
     | ldSpHl | ldCA | ldAC | di | ei => dec_simp
  case ldNNSp nn | jr t | ldNNA nn | ldANN nn | jp nn | call nn | ldhNA n | ldhAN n | addSp e
     | ldHlSp e => dec_simp
  case jrCc c t => cases c <;> dec_simp
  case ldRpNN rp nn => cases rp <;> dec_simp
  case addHl rp => cases rp <;> dec_simp
  case ldIndA p => cases p <;> dec_simp
  case ldAInd p => cases p <;> dec_simp
  case incRp rp => cases rp <;> dec_simp
  case decRp rp => cases rp <;> dec_simp
  case inc r => cases r <;> dec_simp
  case dec r => cases r <;> dec_simp
  case ldRN r n => cases r <;> dec_simp
  case ldRR d s => cases d <;> cases s <;> first | (simp at h; done) | dec_simp
  case alu op r => cases op <;> cases r <;> dec_simp
  case retCc c => cases c <;> dec_simp
  case pop q => cases q <;> dec_simp
  case jpCc c nn => cases c <;> dec_simp
  case callCc c nn => cases c <;> dec_simp
  case push q => cases q <;> dec_simp
  case aluN op n => cases op <;> dec_simp
  case rst t => rcases isRst_cases h with h | h | h | h | h | h | h | h <;> subst h <;> dec_simp_lit
  case rot op r => cases op <;> cases r <;> dec_simp
  case bit b r =>
    rcases isBit_cases h with h | h | h | h | h | h | h | h <;> subst h <;> cases r <;> dec_simp_lit
  case res b r =>
    rcases isBit_cases h with h | h | h | h | h | h | h | h <;> subst h <;> cases r <;> dec_simp_lit
  case set b r =>
    rcases isBit_cases h with h | h | h | h | h | h | h | h <;> subst h <;> cases r <;> dec_simp_lit

/-! ### source syntax round trip -/

theorem Mn.ofName_name (m : Mn) : Mn.ofName m.name = some m := by cases m <;> decide
theorem R8.ofOpnd_opnd (r : R8) : R8.ofOpnd r.opnd = some r := by cases r <;> decide
theorem R16.ofOpnd_opnd (r : R16) : R16.ofOpnd r.opnd = some r := by cases r <;> decide
theorem R16s.ofOpnd_opnd (r : R16s) : R16s.ofOpnd r.opnd = some r := by cases r <;> decide
theorem IndA.ofOpnd_opnd (r : IndA) : IndA.ofOpnd r.opnd = some r := by cases r <;> decide
theorem Cond.ofOpnd_opnd (r : Cond) : Cond.ofOpnd r.opnd = some r := by cases r <;> decide


/-- Reading the canonical spelling of an instruction gives the instruction back (`ld (hl),(hl)`
is not an instruction and has no spelling). -/
theorem read_write (i : Instr) (h : i ≠ .ldRR .hlInd .hlInd) :
    read (write i).1 (write i).2 = some i := by
  cases i
  case ldRR d s => cases d <;> cases s <;> first | exact absurd rfl h | decide
  case alu op r => cases op <;> cases r <;> decide
  case rot op r => cases op <;> cases r <;> decide
  case nop | stop | halt | rlca | rrca | rla | rra | daa | cpl | scf | ccf | ret | reti | jpHl
     | ldSpHl | ldCA | ldAC | di | ei => decide
  case addHl rp => cases rp <;> decide
  case ldIndA p => cases p <;> decide
  case ldAInd p => cases p <;> decide
  case incRp rp => cases rp <;> decide
  case decRp rp => cases rp <;> decide
  case inc r => cases r <;> decide
  case dec r => cases r <;> decide
  case retCc c => cases c <;> decide
  case pop q => cases q <;> decide
  case push q => cases q <;> decide
  case ldNNSp nn | jr t | ldNNA nn | ldANN nn | jp nn | call nn | ldhNA n | ldhAN n | addSp e
     | ldHlSp e | rst t => rfl
  case jrCc c t => cases c <;> rfl
  case jpCc c t => cases c <;> rfl
  case callCc c t => cases c <;> rfl
  case ldRpNN rp nn => cases rp <;> rfl
  case ldRN r n => cases r <;> rfl
  case aluN op n => cases op <;> rfl
  case bit b r => cases r <;> rfl
  case res b r => cases r <;> rfl
  case set b r => cases r <;> rfl


/-! ### every emitted value is a byte -/

theorem idx_lt_R8 (r : R8) : r.idx < 8 := by cases r <;> decide
theorem idx_lt_R16 (r : R16) : r.idx < 4 := by cases r <;> decide
theorem idx_lt_R16s (r : R16s) : r.idx < 4 := by cases r <;> decide
theorem idx_lt_IndA (r : IndA) : r.idx < 4 := by cases r <;> decide
theorem idx_lt_Cond (r : Cond) : r.idx < 4 := by cases r <;> decide
theorem idx_lt_Alu (r : Alu) : r.idx < 8 := by cases r <;> decide
theorem idx_lt_Rot (r : Rot) : r.idx < 8 := by cases r <;> decide

theorem byteOf_lt {n : Int} (h : isByte n = true) : byteOf n < 256 := by
  simp only [isByte, Bool.and_eq_true, decide_eq_true_eq] at h; simp only [byteOf]; omega
theorem bitOf_lt {n : Int} (h : isBit n = true) : byteOf n < 8 := by
  simp only [isBit, Bool.and_eq_true, decide_eq_true_eq] at h; simp only [byteOf]; omega
theorem rstOf_lt {n : Int} (h : isRst n = true) : byteOf n < 57 := by
  simp only [isRst, Bool.and_eq_true, decide_eq_true_eq] at h; simp only [byteOf]; omega
theorem loOf_lt (n : Int) : loOf n < 256 := by simp only [loOf]; omega
theorem hiOf_lt {n : Int} (h : isWord n = true) : hiOf n < 256 := by
  simp only [isWord, Bool.and_eq_true, decide_eq_true_eq] at h; simp only [hiOf]; omega
theorem relOf_lt (pc : Nat) (t : Int) : relOf pc t < 256 := by simp only [relOf]; omega

/-- The encoding of a well-formed instruction consists of bytes. -/
theorem enc_bytes (pc : Nat) (i : Instr) (h : wf pc i = true) : ∀ b ∈ enc pc i, b < 256 := by
  cases i <;> simp only [wf] at h <;>
    simp only [enc, List.mem_cons, List.not_mem_nil, or_false, forall_eq_or_imp, forall_eq]
  case nop | stop | halt | rlca | rrca | rla | rra | daa | cpl | scf | ccf | ret | reti | jpHl
     | ldSpHl | ldCA | ldAC | di | ei => decide
  case ldNNSp nn | ldNNA nn | ldANN nn | jp nn | call nn =>
    have := loOf_lt nn; have := hiOf_lt h; omega
  case jr t => have := relOf_lt pc t; omega
  case ldhNA n | ldhAN n => omega
  case addSp e | ldHlSp e => have := byteOf_lt h; omega
  case jrCc c t => have := idx_lt_Cond c; have := relOf_lt pc t; omega
  case ldRpNN rp nn => have := idx_lt_R16 rp; have := loOf_lt nn; have := hiOf_lt h; omega
  case addHl rp | incRp rp | decRp rp => have := idx_lt_R16 rp; omega
  case ldIndA p | ldAInd p => have := idx_lt_IndA p; omega
  case inc r | dec r => have := idx_lt_R8 r; omega
  case ldRN r n => have := idx_lt_R8 r; have := byteOf_lt h; omega
  case ldRR d s => have := idx_lt_R8 d; have := idx_lt_R8 s; omega
  case alu op r => have := idx_lt_Alu op; have := idx_lt_R8 r; omega
  case retCc c => have := idx_lt_Cond c; omega
  case pop q | push q => have := idx_lt_R16s q; omega
  case jpCc c nn | callCc c nn => have := idx_lt_Cond c; have := loOf_lt nn; have := hiOf_lt h; omega
  case aluN op n => have := idx_lt_Alu op; have := byteOf_lt h; omega
  case rst t => have := rstOf_lt h; omega
  case rot op r => have := idx_lt_Rot op; have := idx_lt_R8 r; omega
  case bit b r | res b r | set b r => have := bitOf_lt h; have := idx_lt_R8 r; omega


/-! ### normal form -/

theorem norm_norm (i : Instr) : norm (norm i) = norm i := by
  cases i <;> simp only [norm] <;> congr 1 <;> omega

/-- Normalising keeps well-formedness and the bytes. -/
theorem norm_wf_enc (pc : Nat) (i : Instr) (h : wf pc i = true) :
    wf pc (norm i) = true ∧ enc pc (norm i) = enc pc i := by
  cases i <;> try exact ⟨h, rfl⟩
  all_goals
    simp only [wf, isHigh, isByte, Bool.and_eq_true, Bool.or_eq_true, decide_eq_true_eq] at h
    simp only [norm, wf, isHigh, isByte, enc, byteOf, Bool.and_eq_true, Bool.or_eq_true,
      decide_eq_true_eq, List.cons.injEq, and_true, true_and]
    omega

/-- What `expected` promises: the bytes are bytes and decode to the instruction that was read. -/
theorem expected_decode (pc : Nat) (m : String) (ops : List Opnd) (bs rest : List Nat)
    (h : expected pc m ops = some bs) :
    ∃ i, read m ops = some i ∧ wf pc i = true ∧ bs = enc pc i ∧
      decode pc (bs ++ rest) = some (norm i, rest) ∧ ∀ b ∈ bs, b < 256 := by
  simp only [expected] at h
  cases hr : read m ops with
  | none => simp [hr] at h
  | some i =>
    simp only [hr, Option.bind_some] at h
    by_cases hw : wf pc i = true
    · simp only [hw, if_true, Option.some.injEq] at h
      subst h
      exact ⟨i, rfl, hw, rfl, decode_enc pc i rest hw, enc_bytes pc i hw⟩
    · simp [hw] at h

/-! ### the `cp` row -/

/-- `cp r` / `cp (hl)` occupy `B8..BF` of the LR35902 map (the assembler emits `C8..CF` today). -/
theorem cp_is_B8 (pc : Nat) :
    enc pc (.alu .cp .b) = [0xB8] ∧ enc pc (.alu .cp .c) = [0xB9] ∧ enc pc (.alu .cp .d) = [0xBA] ∧
    enc pc (.alu .cp .e) = [0xBB] ∧ enc pc (.alu .cp .h) = [0xBC] ∧ enc pc (.alu .cp .l) = [0xBD] ∧
    enc pc (.alu .cp .hlInd) = [0xBE] ∧ enc pc (.alu .cp .a) = [0xBF] := by
  refine ⟨rfl, rfl, rfl, rfl, rfl, rfl, rfl, rfl⟩

/-- The same through the source syntax: `cp b` … `cp a` must assemble to `B8` … `BF`. -/
theorem cp_expected (pc : Nat) :
    expected pc "cp" [.reg "b"] = some [0xB8] ∧ expected pc "cp" [.reg "c"] = some [0xB9] ∧
    expected pc "cp" [.reg "d"] = some [0xBA] ∧ expected pc "cp" [.reg "e"] = some [0xBB] ∧
    expected pc "cp" [.reg "h"] = some [0xBC] ∧ expected pc "cp" [.reg "l"] = some [0xBD] ∧
    expected pc "cp" [.ind "hl"] = some [0xBE] ∧ expected pc "cp" [.reg "a"] = some [0xBF] := by
  refine ⟨rfl, rfl, rfl, rfl, rfl, rfl, rfl, rfl⟩

/-- `C8..CF` are other instructions: `ret z`, `ret`, `jp z,nn`, the CB prefix, `call z,nn`,
`call nn`, `adc a,n`, `rst $08`. -/
theorem C8_is_ret_z : decode 0 [0xC8] = some (.retCc .z, []) := by decide
theorem C9_is_ret : decode 0 [0xC9] = some (.ret, []) := by decide
theorem CA_is_jp_z : decode 0 [0xCA, 0x34, 0x12] = some (.jpCc .z 0x1234, []) := by decide
theorem CB_is_prefix : decode 0 [0xCB, 0x37] = some (.rot .swap .a, []) := by decide
theorem CC_is_call_z : decode 0 [0xCC, 0x34, 0x12] = some (.callCc .z 0x1234, []) := by decide
theorem CD_is_call : decode 0 [0xCD, 0x34, 0x12] = some (.call 0x1234, []) := by decide
theorem CE_is_adc_n : decode 0 [0xCE, 0x42] = some (.aluN .adc 0x42, []) := by decide
theorem CF_is_rst_08 : decode 0 [0xCF] = some (.rst 8, []) := by decide

/-! ### examples -/

example : expected 0 "ldh" [.reg "a", .mem 0xFF10] = some [0xF0, 0x10] := by decide
example : expected 0 "ldh" [.reg "a", .mem 0x10] = some [0xF0, 0x10] := by decide
example : expected 0 "ldh" [.reg "a", .mem 0x100] = none := by decide
example : expected 0 "ldh" [.reg "a", .mem 0xFEFF] = none := by decide
example : expected 0 "ldh" [.reg "a", .mem 0x10000] = none := by decide
example : expected 0 "ldh" [.reg "a", .mem (-1)] = none := by decide
example : expected 0 "ldh" [.mem 0xFFFF, .reg "a"] = some [0xE0, 0xFF] := by decide
example : expected 0 "halt" [] = some [0x76, 0x00] := by decide
example : expected 0 "stop" [] = some [0x10, 0x00] := by decide
example : expected 0 "ld" [.ind "hl", .ind "hl"] = none := by decide
example : expected 0 "ld" [.mem 0x1234, .reg "sp"] = some [0x08, 0x34, 0x12] := by decide
example : expected 0 "ld" [.reg "a", .indInc "hl"] = some [0x2A] := by decide
example : expected 0 "ld" [.indDec "hl", .reg "a"] = some [0x32] := by decide
example : expected 0 "ld" [.reg "a", .mem 0x42] = some [0xFA, 0x42, 0x00] := by decide
example : expected 0 "ld" [.reg "b", .mem 0x42] = some [0x06, 0x42] := by decide
example : expected 0 "ld" [.reg "b", .imm 256] = none := by decide
example : expected 0 "ld" [.reg "b", .imm (-1)] = none := by decide
example : expected 0 "ld" [.reg "bc", .imm 65536] = none := by decide
example : expected 0 "ld" [.reg "hl", .regPlus "sp" 255] = some [0xF8, 0xFF] := by decide
example : expected 0 "ld" [.reg "hl", .regPlus "sp" (-1)] = none := by decide
example : expected 0 "add" [.reg "sp", .imm 256] = none := by decide
example : expected 0 "sub" [.mem 0x42] = some [0xD6, 0x42] := by decide
example : expected 0 "sub" [.reg "a", .reg "b"] = none := by decide
example : expected 0 "add" [.reg "a", .reg "b"] = some [0x80] := by decide
example : expected 0 "ld" [.ind "c", .reg "a"] = some [0xE2] := by decide
example : expected 0 "jp" [.reg "c", .imm 0x1234] = some [0xDA, 0x34, 0x12] := by decide
example : expected 0 "jp" [.reg "hl"] = some [0xE9] := by decide
example : expected 0 "reti" [] = some [0xD9] := by decide
example : expected 0 "swap" [.ind "hl"] = some [0xCB, 0x36] := by decide
example : expected 0 "bit" [.imm 7, .ind "hl"] = some [0xCB, 0x7E] := by decide
example : expected 0 "bit" [.imm 8, .reg "a"] = none := by decide
example : expected 0 "rst" [.imm 0x38] = some [0xFF] := by decide
example : expected 0 "rst" [.imm 7] = none := by decide
example : expected 0 "rst" [.imm 0x40] = none := by decide
example : expected 0 "jr" [.imm 0x10] = some [0x18, 0x0E] := by decide
example : expected 0 "jr" [.imm 0x81] = some [0x18, 0x7F] := by decide
example : expected 0 "jr" [.imm 0x82] = none := by decide
example : expected 0 "jr" [.imm (-126)] = some [0x18, 0x80] := by decide
example : expected 0 "jr" [.imm (-127)] = none := by decide
example : expected 0x150 "jr" [.flag "nz", .imm 0x150] = some [0x20, 0xFE] := by decide
example : decode 0x150 [0x20, 0xFE, 0x00] = some (.jrCc .nz 0x150, [0x00]) := by decide
example : decode 0 [0xD3] = none := by decide
example : decode 0 [0xFD, 0x21] = none := by decide
example : decode 0 [0x76, 0x00, 0x3C] = some (.halt, [0x3C]) := by decide

/-! ### the opcode table is complete -/

/-- `keyMask ks = some m`: `ks` has no duplicates and `m` has exactly the bits `ks`. -/
theorem keyMask_spec :
    ∀ ks m, keyMask ks = some m → ks.Nodup ∧ ∀ k, m.testBit k = true ↔ k ∈ ks := by
  intro ks
  induction ks with
  | nil => intro m h; simp [keyMask] at h; subst h; simp
  | cons k ks ih =>
    intro m h
    simp only [keyMask] at h
    cases hm : keyMask ks with
    | none => simp [hm] at h
    | some m' =>
      obtain ⟨hn, hmem⟩ := ih m' hm
      simp only [hm, Option.bind_some] at h
      split at h
      · cases h
      · rename_i hb
        simp only [Option.some.injEq] at h
        subst h
        have hk : k ∉ ks := fun hin => hb ((hmem k).2 hin)
        refine ⟨List.nodup_cons.2 ⟨hk, hn⟩, fun j => ?_⟩
        simp only [Nat.testBit_or, Nat.one_shiftLeft, Nat.testBit_two_pow, Bool.or_eq_true, hmem,
          decide_eq_true_eq, List.mem_cons]
        constructor
        · rintro (h | h)
          · exact Or.inr h
          · exact Or.inl h.symm
        · rintro (h | h)
          · exact Or.inr h.symm
          · exact Or.inl h

/-- No two members of `allOpcodes` have the same opcode (first byte, or CB + second byte). -/
theorem allOpcodes_nodup : (allOpcodes.map fun i => opKey (enc 0 i)).Nodup := by
  obtain ⟨h1, _⟩ := allOpcodes_keys
  obtain ⟨m, hm⟩ := Option.isSome_iff_exists.1 h1
  exact (keyMask_spec _ m hm).1

/-- The opcodes of `allOpcodes` are exactly the defined ones: every unprefixed byte other than
`CB` and the 11 holes, and every CB-prefixed second byte. -/
theorem allOpcodes_cover (k : Nat) :
    (∃ i ∈ allOpcodes, opKey (enc 0 i) = k) ↔ k < 512 ∧ k ≠ 0xCB ∧ k ∉ holes := by
  obtain ⟨h1, h2⟩ := allOpcodes_keys
  obtain ⟨m, hm⟩ := Option.isSome_iff_exists.1 h1
  have ha := (keyMask_spec _ m hm).2 k
  have hd := (keyMask_spec _ m (h2 ▸ hm)).2 k
  have : k ∈ allKeys ↔ k ∈ definedKeys := ha.symm.trans hd
  simp only [allKeys, List.mem_map] at this
  rw [this]
  simp [definedKeys]

/-- In particular no member of `allOpcodes` sits on a hole. -/
theorem allOpcodes_avoid_holes : ∀ i ∈ allOpcodes, opKey (enc 0 i) ∉ holes := fun i hi =>
  ((allOpcodes_cover _).1 ⟨i, hi, rfl⟩).2.2

/-- The decoder accepts exactly the 244 defined unprefixed first bytes and `CB`: applied to
`op 00 00` it fails precisely on the 11 holes. -/
theorem decode_defined :
    (List.range 256).filter (fun op => (decode 0 [op, 0, 0]).isNone) = holes := by
  decide +kernel

/-- Every CB-prefixed second byte decodes. -/
theorem decodeCB_defined :
    (List.range 256).all (fun op => (decode 0 [0xCB, op]).isSome) = true := by
  decide +kernel

end Az65.Thm.IsaSm83

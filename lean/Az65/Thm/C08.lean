import Az65.Model.Abs
/-
C08 — definitions are immutable unless redefined; each use sees a well-defined value.
-/
namespace Az65.Thm.C08
open Az65 Az65.Abs

/-! ## 1. The symbol table refines a finite map -/

/-- Spec view of the symbol table: a partial map from names to entries. -/
abbrev SymMap := String → Option Entry

/-- Abstraction function: the association list read through `Env.get`. -/
def abs (env : Env) : SymMap := fun n => env.get n

theorem get_nil (n : String) : Env.get [] n = none := rfl

theorem get_set_same (env : Env) (n : String) (e : Entry) : (env.set n e).get n = some e := by
  induction env with
  | nil => simp [Env.set, Env.get]
  | cons p r ih =>
    obtain ⟨k, v⟩ := p
    simp only [Env.set]
    split
    · rename_i hk; simp [Env.get, hk]
    · rename_i hk; simp [Env.get, hk, ih]

theorem get_set_other (env : Env) (n m : String) (e : Entry) (h : m ≠ n) :
    (env.set n e).get m = env.get m := by
  induction env with
  | nil => simp [Env.set, Env.get, Ne.symm h]
  | cons p r ih =>
    obtain ⟨k, v⟩ := p
    simp only [Env.set]
    split
    · rename_i hk; subst hk; simp [Env.get, Ne.symm h]
    · simp only [Env.get, ih]

theorem remove_cons (k : String) (v : Entry) (r : Env) (n : String) :
    Env.remove ((k, v) :: r) n = if k = n then Env.remove r n else (k, v) :: Env.remove r n := by
  unfold Env.remove
  rw [List.filter_cons]
  by_cases hk : k = n <;> simp [hk]

theorem get_remove_same (env : Env) (n : String) : (env.remove n).get n = none := by
  induction env with
  | nil => rfl
  | cons p r ih =>
    obtain ⟨k, v⟩ := p
    rw [remove_cons]
    by_cases hk : k = n
    · simp [hk, ih]
    · simp [hk, Env.get, ih]

theorem get_remove_other (env : Env) (n m : String) (h : m ≠ n) :
    (env.remove n).get m = env.get m := by
  induction env with
  | nil => rfl
  | cons p r ih =>
    obtain ⟨k, v⟩ := p
    rw [remove_cons]
    by_cases hk : k = n
    · subst hk; simp [Env.get, Ne.symm h, ih]
    · simp [hk, Env.get, ih]

/-- `Env.set` is map update. -/
theorem abs_set (env : Env) (n : String) (e : Entry) :
    abs (env.set n e) = fun m => if m = n then some e else abs env m := by
  funext m
  by_cases h : m = n
  · subst h; simp [abs, get_set_same]
  · simp [abs, h, get_set_other]

/-- `Env.remove` is map deletion. -/
theorem abs_remove (env : Env) (n : String) :
    abs (env.remove n) = fun m => if m = n then none else abs env m := by
  funext m
  by_cases h : m = n
  · subst h; simp [abs, get_remove_same]
  · simp [abs, h, get_remove_other]

/-- The empty table is the empty map. -/
theorem abs_nil : abs [] = fun _ => none := rfl

theorem insert_get_same (c : CoreSt) (n : String) (s : Sym) :
    (c.insert n s).symtab.get n = some ⟨s, c.curMeta⟩ := by
  simp [CoreSt.insert, get_set_same]

theorem insert_get_other (c : CoreSt) (n m : String) (s : Sym) (h : m ≠ n) :
    (c.insert n s).symtab.get m = c.symtab.get m := by
  simp [CoreSt.insert, get_set_other _ _ _ _ h]

theorem insertWithMeta_get_same (c : CoreSt) (n : String) (s : Sym) (ms : List (String × String)) :
    (c.insertWithMeta n s ms).symtab.get n = some ⟨s, ms⟩ := by
  simp [CoreSt.insertWithMeta, get_set_same]

theorem insertWithMeta_get_other (c : CoreSt) (n m : String) (s : Sym) (ms : List (String × String))
    (h : m ≠ n) : (c.insertWithMeta n s ms).symtab.get m = c.symtab.get m := by
  simp [CoreSt.insertWithMeta, get_set_other _ _ _ _ h]

/-! ## helpers: `touch`, `resolve`, `Except.map` -/

theorem map_ok {ε α β} {f : α → β} {x : Except ε α} {b : β} (h : x.map f = .ok b) :
    ∃ a, x = .ok a ∧ f a = b := by
  cases x with
  | error e => simp [Except.map] at h
  | ok a => exact ⟨a, rfl, by simpa [Except.map] using h⟩

theorem map_error {ε α β} {f : α → β} {x : Except ε α} {e : ε} (h : x = .error e) :
    x.map f = .error e := by subst h; rfl

theorem touch_fields (c : CoreSt) (n : String) (loc : Loc) :
    c.touch n loc = { c with hits := (c.touch n loc).hits } := by
  unfold CoreSt.touch; split <;> rfl

theorem resolve_nil (c : CoreSt) : resolve c [] = (c, []) := rfl

theorem resolve_here (c : CoreSt) (r : List Node) :
    resolve c (.label "@here" :: r) = ((resolve c r).1, .val (i32OfNat c.here) :: (resolve c r).2) := by
  simp only [resolve, if_true]

theorem resolve_label (c : CoreSt) (n : String) (r : List Node) (h : n ≠ "@here") :
    resolve c (.label n :: r) =
      ((resolve (c.touch n {}) r).1, labelNode c n :: (resolve (c.touch n {}) r).2) := by
  simp only [resolve, h, if_false]

theorem resolve_sizeOf (c : CoreSt) (n : String) (r : List Node) :
    resolve c (.sizeOf n :: r) = ((resolve (c.touch n {}) r).1, .sizeOf n :: (resolve (c.touch n {}) r).2) := by
  simp only [resolve]

theorem resolve_other (c : CoreSt) (x : Node) (r : List Node) (h : x.access = .none) :
    resolve c (x :: r) = ((resolve c r).1, x :: (resolve c r).2) := by
  cases x <;> first | (simp [Node.access] at h; done) | simp only [resolve]

/-- Reading an expression only records first references: every other component of the state is
unchanged. -/
theorem resolve_fields (e : List Node) : ∀ c : CoreSt,
    (resolve c e).1 = { c with hits := (resolve c e).1.hits } := by
  induction e with
  | nil => intro c; rfl
  | cons x r ih =>
    intro c
    cases x with
    | label n =>
      by_cases hn : n = "@here"
      · subst hn; rw [resolve_here]; exact ih c
      · rw [resolve_label c n r hn]
        show (resolve (c.touch n {}) r).1 = _
        rw [ih (c.touch n {}), touch_fields c n {}]
    | sizeOf n =>
      rw [resolve_sizeOf]
      show (resolve (c.touch n {}) r).1 = _
      rw [ih (c.touch n {}), touch_fields c n {}]
    | _ => rw [resolve_other _ _ _ rfl]; exact ih c

theorem resolve_symtab (c : CoreSt) (e : List Node) : (resolve c e).1.symtab = c.symtab := by
  rw [resolve_fields]
theorem resolve_dataRev (c : CoreSt) (e : List Node) : (resolve c e).1.dataRev = c.dataRev := by
  rw [resolve_fields]
theorem resolve_curMeta (c : CoreSt) (e : List Node) : (resolve c e).1.curMeta = c.curMeta := by
  rw [resolve_fields]
theorem resolve_ns (c : CoreSt) (e : List Node) : (resolve c e).1.ns = c.ns := by
  rw [resolve_fields]
theorem resolve_here_eq (c : CoreSt) (e : List Node) : (resolve c e).1.here = c.here := by
  rw [resolve_fields]

/-! ## 2. A second plain definition is rejected -/

/-- A label whose name is already in the table (however it got there) is rejected. -/
theorem label_rejected (c : CoreSt) (d : String) (loc : Loc) (e : Entry)
    (h : c.symtab.get d = some e) : Eff.label c d loc = .error ⟨.alreadyDefined, loc⟩ := by
  simp [Eff.label, h]

/-- `@defl` / `@defn` of an existing name is rejected. -/
theorem define_rejected (c : CoreSt) (keep : Bool) (d : String) (ns : List Node) (loc : Loc)
    (e : Entry) (h : c.symtab.get d = some e) :
    Eff.define c keep d ns loc = .error ⟨.alreadyDefined, loc⟩ := by
  simp [Eff.define, h]

/-- A struct field whose qualified name already exists is rejected. -/
theorem structField_rejected (c : CoreSt) (d : String) (size fs : I32) (txt : String) (loc : Loc)
    (e : Entry) (h : c.symtab.get d = some e) :
    Eff.structField c d size fs txt loc = .error ⟨.alreadyDefined, loc⟩ := by
  simp [Eff.structField, h]

/-- **Second definition rejected** (statement level): whatever kind of definition put `d` in the
table, a label, a `@defl`/`@defn` and a `@struct` of that name are all rejected. -/
theorem second_definition_rejected (s : State) (d : String) (e : Entry)
    (h : s.core.symtab.get d = some e) :
    exec s (.label d) = .error ⟨.alreadyDefined, {}⟩ ∧
    (∀ keep ns, exec s (.define keep d ns) = .error ⟨.alreadyDefined, {}⟩) ∧
    (∀ ms, exec s (.struct d ms) = .error ⟨.alreadyDefined, {}⟩) := by
  refine ⟨?_, ?_, ?_⟩
  · simp only [exec]; exact map_error (label_rejected _ _ _ _ h)
  · intro keep ns; simp [exec, h]
  · intro ms; simp [exec, h]

/-- A struct field `S.f` that already exists makes the struct member fail (provided its size
expression can be computed at all - otherwise it fails earlier with another diagnostic). -/
theorem member_field_rejected (sname f : String) (c : CoreSt) (size : I32) (sz : List Node)
    (e : Entry) (h : c.symtab.get (sname ++ "." ++ f) = some e) :
    ∃ er, member sname c size (.field f sz) = .error er := by
  simp only [member]
  cases hev : ev (resolve c sz).1 (resolve c sz).2 with
  | error er => exact ⟨er, rfl⟩
  | ok o =>
    cases o with
    | none => exact ⟨_, rfl⟩
    | some fs =>
      refine ⟨⟨.alreadyDefined, {}⟩, ?_⟩
      have h' : (resolve c sz).1.symtab.get (sname ++ "." ++ f) = some e := by
        rw [resolve_symtab]; exact h
      simp [Eff.structField, h']

/-! ## 3. `@redefl`/`@redefn` replace, `@undef` removes, `@isdef` is exact -/

/-- The metadata a `@defl`/`@redefl` (keep) or `@defn`/`@redefn` (drop) attaches. -/
def metaOf (c : CoreSt) (keep : Bool) : List (String × String) := if keep then c.curMeta else []

/-- `@redefl`/`@redefn` store the new expression whatever was there before. -/
theorem redef_replaces (c : CoreSt) (keep : Bool) (d : String) (ns : List Node) :
    (Eff.redefine c keep d ns).symtab.get d = some ⟨.expr ns, metaOf c keep⟩ := by
  cases keep <;> simp [Eff.redefine, metaOf, insert_get_same, insertWithMeta_get_same]

theorem redef_other (c : CoreSt) (keep : Bool) (d m : String) (ns : List Node) (h : m ≠ d) :
    (Eff.redefine c keep d ns).symtab.get m = c.symtab.get m := by
  cases keep <;> simp [Eff.redefine, insert_get_other _ _ _ _ h, insertWithMeta_get_other _ _ _ _ _ h]

/-- A successful plain definition stores the expression … -/
theorem define_ok (c : CoreSt) (keep : Bool) (d : String) (ns : List Node) (loc : Loc)
    (h : c.symtab.get d = none) :
    ∃ c', Eff.define c keep d ns loc = .ok c' ∧
      c'.symtab.get d = some ⟨.expr ns, metaOf c keep⟩ ∧
      ∀ m, m ≠ d → c'.symtab.get m = c.symtab.get m := by
  cases keep
  · exact ⟨c.insertWithMeta d (.expr ns) [], by simp [Eff.define, h],
      by simp [metaOf, insertWithMeta_get_same], fun m hm => insertWithMeta_get_other _ _ _ _ _ hm⟩
  · exact ⟨c.insert d (.expr ns), by simp [Eff.define, h], by simp [metaOf, insert_get_same],
      fun m hm => insert_get_other _ _ _ _ hm⟩

/-- … and a successful label stores the current address. -/
theorem label_ok (c : CoreSt) (d : String) (loc : Loc) (h : c.symtab.get d = none) :
    ∃ c', Eff.label c d loc = .ok c' ∧
      c'.symtab.get d = some ⟨.val (i32OfNat c.here), c.curMeta⟩ ∧
      ∀ m, m ≠ d → c'.symtab.get m = c.symtab.get m :=
  ⟨c.insert d (.val (i32OfNat c.here)), by simp [Eff.label, h], insert_get_same _ _ _,
    fun m hm => insert_get_other _ _ _ _ hm⟩

/-- Definitions succeed exactly when the name is absent. -/
theorem define_ok_iff (c : CoreSt) (keep : Bool) (d : String) (ns : List Node) (loc : Loc) :
    (∃ c', Eff.define c keep d ns loc = .ok c') ↔ c.symtab.get d = none := by
  constructor
  · intro ⟨c', h⟩
    cases hg : c.symtab.get d with
    | none => rfl
    | some e => rw [define_rejected c keep d ns loc e hg] at h; cases h
  · intro h; obtain ⟨c', h1, _⟩ := define_ok c keep d ns loc h; exact ⟨c', h1⟩

theorem label_ok_iff (c : CoreSt) (d : String) (loc : Loc) :
    (∃ c', Eff.label c d loc = .ok c') ↔ c.symtab.get d = none := by
  constructor
  · intro ⟨c', h⟩
    cases hg : c.symtab.get d with
    | none => rfl
    | some e => rw [label_rejected c d loc e hg] at h; cases h
  · intro h; obtain ⟨c', h1, _⟩ := label_ok c d loc h; exact ⟨c', h1⟩

/-- `@undef` removes the name and nothing else. -/
theorem undef_get_same (c : CoreSt) (d : String) : (Eff.undef c d).symtab.get d = none :=
  get_remove_same _ _

theorem undef_get_other (c : CoreSt) (d m : String) (h : m ≠ d) :
    (Eff.undef c d).symtab.get m = c.symtab.get m := get_remove_other _ _ _ h

/-- After `@undef` the name may be defined anew: a label, `@defl`/`@defn` succeed again (and so
does a struct field, see `structField_ok`). -/
theorem undef_then_define (c : CoreSt) (keep : Bool) (d : String) (ns : List Node) (loc : Loc) :
    (∃ c', Eff.define (Eff.undef c d) keep d ns loc = .ok c' ∧
        c'.symtab.get d = some ⟨.expr ns, metaOf c keep⟩) ∧
    (∃ c', Eff.label (Eff.undef c d) d loc = .ok c' ∧
        c'.symtab.get d = some ⟨.val (i32OfNat c.here), c.curMeta⟩) := by
  constructor
  · obtain ⟨c', h1, h2, _⟩ := define_ok (Eff.undef c d) keep d ns loc (undef_get_same c d)
    exact ⟨c', h1, h2⟩
  · obtain ⟨c', h1, h2, _⟩ := label_ok (Eff.undef c d) d loc (undef_get_same c d)
    exact ⟨c', h1, h2⟩

theorem structField_ok (c : CoreSt) (d : String) (size fs : I32) (txt : String) (loc : Loc)
    (h : c.symtab.get d = none) :
    Eff.structField c d size fs txt loc =
      .ok (c.insertWithMeta d (.val size) [("@SIZEOF", txt)], size + fs) := by
  simp [Eff.structField, h]

/-- `@isdef name` as the token-level model computes it (`Model/Asm.lean`, `peekF`): 1 iff the
qualified name is in the table. -/
def isdef (c : CoreSt) (d : String) : Bool := (c.symtab.get d).isSome

/-- `@isdef` reports exactly whether the name is currently defined. -/
theorem isdef_exact (c : CoreSt) (d : String) : isdef c d = true ↔ ∃ e, c.symtab.get d = some e := by
  unfold isdef; cases c.symtab.get d <;> simp

theorem isdef_false_iff (c : CoreSt) (d : String) : isdef c d = false ↔ c.symtab.get d = none := by
  unfold isdef; cases c.symtab.get d <;> simp

/-- `@isdef` is true after every successful definition of the name … -/
theorem isdef_after_definition (c c' : CoreSt) (d : String) (loc : Loc) :
    (Eff.label c d loc = .ok c' → isdef c' d = true) ∧
    (∀ keep ns, Eff.define c keep d ns loc = .ok c' → isdef c' d = true) ∧
    (∀ keep ns, isdef (Eff.redefine c keep d ns) d = true) ∧
    (∀ size fs txt sz', Eff.structField c d size fs txt loc = .ok (c', sz') → isdef c' d = true) := by
  refine ⟨?_, ?_, ?_, ?_⟩
  · intro h
    have hn : c.symtab.get d = none := (label_ok_iff c d loc).mp ⟨c', h⟩
    obtain ⟨c2, h1, h2, _⟩ := label_ok c d loc hn
    rw [h] at h1; cases h1; simp [isdef, h2]
  · intro keep ns h
    have hn : c.symtab.get d = none := (define_ok_iff c keep d ns loc).mp ⟨c', h⟩
    obtain ⟨c2, h1, h2, _⟩ := define_ok c keep d ns loc hn
    rw [h] at h1; cases h1; simp [isdef, h2]
  · intro keep ns; simp [isdef, redef_replaces]
  · intro size fs txt sz' h
    cases hg : c.symtab.get d with
    | some e => rw [structField_rejected c d size fs txt loc e hg] at h; cases h
    | none =>
      rw [structField_ok c d size fs txt loc hg] at h
      cases h; simp [isdef, insertWithMeta_get_same]

/-- … false after `@undef` … -/
theorem isdef_after_undef (c : CoreSt) (d : String) : isdef (Eff.undef c d) d = false := by
  simp [isdef, undef_get_same]

/-- … and a definition, redefinition or removal of `d` does not change `@isdef` of another name. -/
theorem isdef_frame (c c' : CoreSt) (d m : String) (loc : Loc) (hm : m ≠ d) :
    (Eff.label c d loc = .ok c' → isdef c' m = isdef c m) ∧
    (∀ keep ns, Eff.define c keep d ns loc = .ok c' → isdef c' m = isdef c m) ∧
    (∀ keep ns, isdef (Eff.redefine c keep d ns) m = isdef c m) ∧
    (isdef (Eff.undef c d) m = isdef c m) := by
  refine ⟨?_, ?_, ?_, ?_⟩
  · intro h
    have hn : c.symtab.get d = none := (label_ok_iff c d loc).mp ⟨c', h⟩
    obtain ⟨c2, h1, _, h3⟩ := label_ok c d loc hn
    rw [h] at h1; cases h1; simp [isdef, h3 m hm]
  · intro keep ns h
    have hn : c.symtab.get d = none := (define_ok_iff c keep d ns loc).mp ⟨c', h⟩
    obtain ⟨c2, h1, _, h3⟩ := define_ok c keep d ns loc hn
    rw [h] at h1; cases h1; simp [isdef, h3 m hm]
  · intro keep ns; simp [isdef, redef_other _ _ _ _ _ hm]
  · simp [isdef, undef_get_other _ _ _ hm]

/-! ## 4a. Bytes already produced never change -/

/-- `c'` extends the output of `c`: the bytes of `c` are a prefix of the bytes of `c'`
(a suffix on the newest-first representation). -/
def DP (c c' : CoreSt) : Prop := c.dataRev <:+ c'.dataRev

theorem DP.refl (c : CoreSt) : DP c c := List.suffix_refl _
theorem DP.trans {a b c : CoreSt} (h1 : DP a b) (h2 : DP b c) : DP a c := List.IsSuffix.trans h1 h2
theorem DP.of_eq {c c' : CoreSt} (h : c'.dataRev = c.dataRev) : DP c c' := by
  unfold DP; rw [h]; exact List.suffix_refl _

theorem DP.data {c c' : CoreSt} (h : DP c c') : ∃ bs, c'.data = c.data ++ bs := by
  obtain ⟨t, ht⟩ := h
  exact ⟨t.reverse, by simp [CoreSt.data, ← ht]⟩

theorem dp_resolve (c : CoreSt) (e : List Node) : DP c (resolve c e).1 :=
  DP.of_eq (resolve_dataRev c e)

section eff
variable {c c' : CoreSt} {loc : Loc}

theorem dp_label {d} (h : Eff.label c d loc = .ok c') : DP c c' := by
  unfold Eff.label at h; split at h <;> simp at h; subst h; exact DP.refl _

theorem dp_org {v} (h : Eff.org c v loc = .ok c') : DP c c' := by
  unfold Eff.org at h; (repeat' split at h) <;> simp at h; subst h; exact DP.refl _

theorem dp_dbStr {bs} (h : Eff.dbStr c bs loc = .ok c') : DP c c' := by
  unfold Eff.dbStr at h; split at h <;> simp at h; subst h
  simp [DP, CoreSt.pushAll]

theorem dp_dbVal {v ns} (h : Eff.dbVal c v ns loc = .ok c') : DP c c' := by
  unfold Eff.dbVal at h; (repeat' split at h) <;> simp at h <;> subst h <;>
    simp [DP, CoreSt.push, CoreSt.addLink]

theorem dp_dwVal {v ns} (h : Eff.dwVal c v ns loc = .ok c') : DP c c' := by
  unfold Eff.dwVal at h; (repeat' split at h) <;> simp at h <;> subst h <;>
    simp [DP, CoreSt.push, CoreSt.addLink, List.suffix_cons_iff]

theorem dp_skip {n} (h : Eff.skip c n loc = .ok c') : DP c c' := by
  unfold Eff.skip at h; split at h <;> simp at h; subst h; exact DP.refl _

theorem dp_dsSize {v n} (h : Eff.dsSize c v loc = .ok (c', n)) : DP c c' := by
  unfold Eff.dsSize at h; (repeat' split at h) <;> simp at h; obtain ⟨h, _⟩ := h; subst h
  exact DP.refl _

theorem dp_dsFill {n fill ns} (h : Eff.dsFill c n fill ns loc = .ok c') : DP c c' := by
  unfold Eff.dsFill at h; (repeat' split at h) <;> simp at h <;> subst h <;>
    simp [DP, CoreSt.pushAll, CoreSt.addLink]

theorem dp_align {code v} (h : Eff.align c code v loc = .ok c') : DP c c' := by
  unfold Eff.align at h
  cases v with
  | none => simp at h
  | some al =>
    simp only at h
    split at h
    · simp at h
    split at h
    · simp at h
    split at h
    · simp at h
    split at h <;> simp at h <;> subst h <;> simp [DP, CoreSt.pushAll]

theorem dp_incbin : ∀ (bs : List Nat) {c c' : CoreSt}, Eff.incbin c loc bs = .ok c' → DP c c' := by
  intro bs
  induction bs with
  | nil => intro c c' h; simp [Eff.incbin] at h; subst h; exact DP.refl _
  | cons b r ih =>
    intro c c' h
    simp only [Eff.incbin] at h
    split at h
    · simp at h
    · exact DP.trans (by simp [DP, CoreSt.push]) (ih h)

theorem dp_instrTail {n} (h : Eff.instrTail c n loc = .ok c') : DP c c' := by
  unfold Eff.instrTail at h; simp only at h; split at h <;> simp at h; subst h; exact DP.refl _

theorem dp_assert {v ns msg} (h : Eff.assert c v ns msg loc = .ok c') : DP c c' := by
  unfold Eff.assert at h; (repeat' split at h) <;> simp at h <;> subst h <;>
    simp [DP, CoreSt.addLink]

theorem dp_define {keep d ns} (h : Eff.define c keep d ns loc = .ok c') : DP c c' := by
  unfold Eff.define at h; (repeat' split at h) <;> simp at h <;> subst h <;>
    simp [DP, CoreSt.insert, CoreSt.insertWithMeta]

theorem dp_redefine (c : CoreSt) (keep d ns) : DP c (Eff.redefine c keep d ns) := by
  unfold Eff.redefine; split <;> simp [DP, CoreSt.insert, CoreSt.insertWithMeta]

theorem dp_undef (c : CoreSt) (d) : DP c (Eff.undef c d) := DP.refl _

theorem dp_structField {d size fs txt sz'} (h : Eff.structField c d size fs txt loc = .ok (c', sz')) :
    DP c c' := by
  unfold Eff.structField at h; split at h <;> simp at h; obtain ⟨h, _⟩ := h; subst h
  simp [DP, CoreSt.insertWithMeta]

end eff

theorem dp_piece {c c' : CoreSt} {p : Piece} (h : piece c p = .ok c') : DP c c' := by
  cases p with
  | lit b => simp [piece] at h; subst h; simp [DP, CoreSt.push]
  | byte e =>
    simp only [piece] at h
    refine DP.trans (dp_resolve c e) ?_
    (repeat' split at h) <;> simp at h <;> subst h <;> simp [DP, CoreSt.push, CoreSt.addLink]
  | word e =>
    simp only [piece] at h
    refine DP.trans (dp_resolve c e) ?_
    (repeat' split at h) <;> simp at h <;> subst h <;>
      simp [DP, CoreSt.push, CoreSt.addLink, List.suffix_cons_iff]
  | rel e =>
    simp only [piece] at h
    refine DP.trans (dp_resolve c e) ?_
    (repeat' split at h) <;> simp at h <;> subst h <;> simp [DP, CoreSt.push, CoreSt.addLink]

theorem dp_pieces : ∀ (ps : List Piece) {c c' : CoreSt}, pieces c ps = .ok c' → DP c c' := by
  intro ps
  induction ps with
  | nil => intro c c' h; simp [pieces] at h; subst h; exact DP.refl _
  | cons p r ih =>
    intro c c' h
    simp only [pieces] at h
    split at h
    · simp at h
    · rename_i c1 hp; exact DP.trans (dp_piece hp) (ih h)

theorem dp_member {sname : String} {c c' : CoreSt} {size size' : I32} {m : Member}
    (h : member sname c size m = .ok (c', size')) : DP c c' := by
  cases m with
  | field name sz =>
    simp only [member] at h
    refine DP.trans (dp_resolve c sz) ?_
    (repeat' split at h) <;> first | (simp at h; done) | exact dp_structField h
  | pad sz =>
    simp only [member] at h
    refine DP.trans (dp_resolve c sz) ?_
    (repeat' split at h) <;> simp at h; obtain ⟨h, _⟩ := h; subst h; exact DP.refl _
  | align al =>
    simp only [member] at h
    refine DP.trans (dp_resolve c al) ?_
    (repeat' split at h) <;> simp at h; obtain ⟨h, _⟩ := h; subst h; exact DP.refl _

theorem dp_members {sname : String} : ∀ (ms : List Member) {c c' : CoreSt} {size size' : I32},
    members sname c size ms = .ok (c', size') → DP c c' := by
  intro ms
  induction ms with
  | nil => intro c c' size size' h; simp [members] at h; obtain ⟨h, _⟩ := h; subst h; exact DP.refl _
  | cons m r ih =>
    intro c c' size size' h
    simp only [members] at h
    split at h
    · simp at h
    · rename_i c1 s1 hm; exact DP.trans (dp_member hm) (ih h)

theorem exec_redefine (s : State) (keep : Bool) (d : String) (e : List Node) :
    exec s (.redefine keep d e) =
      .ok { s with core := Eff.redefine (resolve s.core e).1 keep d (resolve s.core e).2 } := by
  simp only [exec]

theorem exec_undef (s : State) (d : String) :
    exec s (.undef d) = .ok { s with core := Eff.undef s.core d } := by
  simp only [exec]

theorem dp_exec {s s' : State} {st : Stmt} (h : exec s st = .ok s') : DP s.core s'.core := by
  cases st with
  | label d =>
    simp only [exec] at h
    obtain ⟨c, hc, rfl⟩ := map_ok h; exact dp_label hc
  | org e =>
    simp only [exec] at h
    refine DP.trans (dp_resolve s.core e) ?_
    split at h
    · simp at h
    · obtain ⟨c, hc, rfl⟩ := map_ok h; exact dp_org hc
  | dbStr bytes =>
    simp only [exec] at h
    split at h
    · obtain ⟨c, hc, rfl⟩ := map_ok h; exact dp_dbStr hc
    · obtain ⟨c, hc, rfl⟩ := map_ok h; exact dp_skip hc
  | dbVal e =>
    simp only [exec] at h
    split at h
    · refine DP.trans (dp_resolve s.core e) ?_
      split at h
      · simp at h
      · obtain ⟨c, hc, rfl⟩ := map_ok h; exact dp_dbVal hc
    · obtain ⟨c, hc, rfl⟩ := map_ok h; exact dp_skip hc
  | dwVal e =>
    simp only [exec] at h
    split at h
    · refine DP.trans (dp_resolve s.core e) ?_
      split at h
      · simp at h
      · obtain ⟨c, hc, rfl⟩ := map_ok h; exact dp_dwVal hc
    · obtain ⟨c, hc, rfl⟩ := map_ok h; exact dp_skip hc
  | ds size fill =>
    simp only [exec] at h
    refine DP.trans (dp_resolve s.core size) ?_
    split at h
    · simp at h
    · split at h
      · simp at h
      · rename_i c1 n hds
        refine DP.trans (dp_dsSize hds) ?_
        split at h
        · cases fill with
          | none =>
            simp only at h
            obtain ⟨c, hc, rfl⟩ := map_ok h; exact dp_dsFill hc
          | some fe =>
            simp only at h
            refine DP.trans (dp_resolve c1 fe) ?_
            split at h
            · simp at h
            · obtain ⟨c, hc, rfl⟩ := map_ok h; exact dp_dsFill hc
        · simp at h; subst h; exact DP.refl _
  | align e =>
    simp only [exec] at h
    refine DP.trans (dp_resolve s.core e) ?_
    split at h
    · simp at h
    · obtain ⟨c, hc, rfl⟩ := map_ok h; exact dp_align hc
  | incbin bytes =>
    simp only [exec] at h
    split at h
    · obtain ⟨c, hc, rfl⟩ := map_ok h; exact dp_incbin _ hc
    · simp at h
  | instr ps =>
    simp only [exec] at h
    split at h
    · split at h
      · simp at h
      · rename_i c1 hp
        obtain ⟨c, hc, rfl⟩ := map_ok h
        exact DP.trans (dp_pieces _ hp) (dp_instrTail hc)
    · simp at h
  | assert e =>
    simp only [exec] at h
    refine DP.trans (dp_resolve s.core e) ?_
    split at h
    · simp at h
    · obtain ⟨c, hc, rfl⟩ := map_ok h; exact dp_assert hc
  | define keep d e =>
    simp only [exec] at h
    split at h
    · simp at h
    · refine DP.trans (dp_resolve s.core e) ?_
      obtain ⟨c, hc, rfl⟩ := map_ok h; exact dp_define hc
  | redefine keep d e =>
    simp only [exec] at h
    simp at h; subst h
    exact DP.trans (dp_resolve s.core e) (dp_redefine _ _ _ _)
  | undef d => simp [exec] at h; subst h; exact dp_undef _ _
  | segment code => simp [exec] at h; subst h; exact DP.refl _
  | struct name ms =>
    simp only [exec] at h
    split at h
    · simp at h
    · split at h
      · simp at h
      · rename_i c1 sz hm
        simp at h; subst h
        have := dp_members ms hm
        simpa [DP, CoreSt.insertWithMeta] using this

/-- **Snapshot, part (a).** Executing any statement only appends to the output: every byte
already placed keeps its position and value.  In particular no later `@redefl`/`@redefn`/`@undef`
can change a byte that an earlier use of the name produced. -/
theorem exec_data_prefix {s s' : State} {st : Stmt} (h : exec s st = .ok s') :
    ∃ bs, s'.core.data = s.core.data ++ bs := (dp_exec h).data

theorem dp_run : ∀ (prog : List Stmt) {s s' : State}, run s prog = .ok s' → DP s.core s'.core := by
  intro prog
  induction prog with
  | nil => intro s s' h; simp [run] at h; subst h; exact DP.refl _
  | cons st r ih =>
    intro s s' h
    simp only [run] at h
    split at h
    · simp at h
    · rename_i s1 h1; exact DP.trans (dp_exec h1) (ih h)

/-- The same for a whole statement list. -/
theorem run_data_prefix {s s' : State} {prog : List Stmt} (h : run s prog = .ok s') :
    ∃ bs, s'.core.data = s.core.data ++ bs := (dp_run prog h).data

theorem run_append (p q : List Stmt) : ∀ s : State,
    run s (p ++ q) = match run s p with
      | .error e => .error e
      | .ok s1 => run s1 q := by
  induction p with
  | nil => intro s; rfl
  | cons st r ih =>
    intro s
    simp only [List.cons_append, run]
    cases exec s st with
    | error e => rfl
    | ok s1 => exact ih s1

/-- Bytes placed by the first part of a program are a prefix of what the whole program places:
whatever follows (redefinitions included) leaves them alone. -/
theorem run_append_data_prefix {s s2 : State} {p q : List Stmt} (h : run s (p ++ q) = .ok s2) :
    ∃ s1, run s p = .ok s1 ∧ ∃ bs, s2.core.data = s1.core.data ++ bs := by
  rw [run_append] at h
  split at h
  · simp at h
  · rename_i s1 h1; exact ⟨s1, h1, run_data_prefix h⟩

/-- `@redefl`/`@redefn`/`@undef` themselves produce no bytes. -/
theorem redef_no_bytes (s : State) (keep : Bool) (d : String) (e : List Node) :
    (∃ s', exec s (.redefine keep d e) = .ok s' ∧ s'.core.data = s.core.data) ∧
    (∃ s', exec s (.undef d) = .ok s' ∧ s'.core.data = s.core.data) := by
  refine ⟨⟨_, exec_redefine s keep d e, ?_⟩, ⟨_, exec_undef s d, rfl⟩⟩
  show (Eff.redefine (resolve s.core e).1 keep d (resolve s.core e).2).data = _
  unfold Eff.redefine CoreSt.data
  split <;> simp [CoreSt.insert, CoreSt.insertWithMeta, resolve_dataRev]

/-! ## 3b. Only definitions, redefinitions and `@undef` change the table -/

/-- `c'` has the same symbol table as `c`. -/
def SS (c c' : CoreSt) : Prop := c'.symtab = c.symtab

theorem SS.trans {a b c : CoreSt} (h1 : SS a b) (h2 : SS b c) : SS a c := by
  unfold SS at *; rw [h2, h1]

theorem ss_resolve (c : CoreSt) (e : List Node) : SS c (resolve c e).1 := resolve_symtab c e

section eff
variable {c c' : CoreSt} {loc : Loc}

theorem ss_org {v} (h : Eff.org c v loc = .ok c') : SS c c' := by
  unfold Eff.org at h; (repeat' split at h) <;> simp at h; subst h; rfl
theorem ss_dbStr {bs} (h : Eff.dbStr c bs loc = .ok c') : SS c c' := by
  unfold Eff.dbStr at h; split at h <;> simp at h; subst h; rfl
theorem ss_dbVal {v ns} (h : Eff.dbVal c v ns loc = .ok c') : SS c c' := by
  unfold Eff.dbVal at h; (repeat' split at h) <;> simp at h <;> subst h <;> rfl
theorem ss_dwVal {v ns} (h : Eff.dwVal c v ns loc = .ok c') : SS c c' := by
  unfold Eff.dwVal at h; (repeat' split at h) <;> simp at h <;> subst h <;> rfl
theorem ss_skip {n} (h : Eff.skip c n loc = .ok c') : SS c c' := by
  unfold Eff.skip at h; split at h <;> simp at h; subst h; rfl
theorem ss_dsSize {v n} (h : Eff.dsSize c v loc = .ok (c', n)) : SS c c' := by
  unfold Eff.dsSize at h; (repeat' split at h) <;> simp at h; obtain ⟨h, _⟩ := h; subst h; rfl
theorem ss_dsFill {n fill ns} (h : Eff.dsFill c n fill ns loc = .ok c') : SS c c' := by
  unfold Eff.dsFill at h; (repeat' split at h) <;> simp at h <;> subst h <;> rfl
theorem ss_align {code v} (h : Eff.align c code v loc = .ok c') : SS c c' := by
  unfold Eff.align at h
  cases v with
  | none => simp at h
  | some al =>
    simp only at h
    split at h
    · simp at h
    split at h
    · simp at h
    split at h
    · simp at h
    split at h <;> simp at h <;> subst h <;> rfl
theorem ss_incbin : ∀ (bs : List Nat) {c c' : CoreSt}, Eff.incbin c loc bs = .ok c' → SS c c' := by
  intro bs
  induction bs with
  | nil => intro c c' h; simp [Eff.incbin] at h; subst h; rfl
  | cons b r ih =>
    intro c c' h
    simp only [Eff.incbin] at h
    split at h
    · simp at h
    · exact SS.trans (by rfl) (ih h)
theorem ss_instrTail {n} (h : Eff.instrTail c n loc = .ok c') : SS c c' := by
  unfold Eff.instrTail at h; simp only at h; split at h <;> simp at h; subst h; rfl
theorem ss_assert {v ns msg} (h : Eff.assert c v ns msg loc = .ok c') : SS c c' := by
  unfold Eff.assert at h; (repeat' split at h) <;> simp at h <;> subst h <;> rfl
end eff

theorem ss_piece {c c' : CoreSt} {p : Piece} (h : piece c p = .ok c') : SS c c' := by
  cases p with
  | lit b => simp [piece] at h; subst h; rfl
  | byte e =>
    simp only [piece] at h
    refine SS.trans (ss_resolve c e) ?_
    (repeat' split at h) <;> simp at h <;> subst h <;> rfl
  | word e =>
    simp only [piece] at h
    refine SS.trans (ss_resolve c e) ?_
    (repeat' split at h) <;> simp at h <;> subst h <;> rfl
  | rel e =>
    simp only [piece] at h
    refine SS.trans (ss_resolve c e) ?_
    (repeat' split at h) <;> simp at h <;> subst h <;> rfl

theorem ss_pieces : ∀ (ps : List Piece) {c c' : CoreSt}, pieces c ps = .ok c' → SS c c' := by
  intro ps
  induction ps with
  | nil => intro c c' h; simp [pieces] at h; subst h; rfl
  | cons p r ih =>
    intro c c' h
    simp only [pieces] at h
    split at h
    · simp at h
    · rename_i c1 hp; exact SS.trans (ss_piece hp) (ih h)

/-- A statement that defines, redefines or removes a name. -/
def defines : Stmt → Bool
  | .label _ | .define .. | .redefine .. | .undef _ | .struct .. => true
  | _ => false

/-- **`@isdef` changes only by definitions.** Every statement kind other than a label, `@defl`/
`@defn`, `@redefl`/`@redefn`, `@undef` and `@struct` leaves the symbol table - hence the answer of
every `@isdef` and the value of every name - unchanged. -/
theorem exec_symtab_frame {s s' : State} {st : Stmt} (hd : defines st = false)
    (h : exec s st = .ok s') : s'.core.symtab = s.core.symtab := by
  show SS s.core s'.core
  cases st with
  | label d => simp [defines] at hd
  | define keep d e => simp [defines] at hd
  | redefine keep d e => simp [defines] at hd
  | undef d => simp [defines] at hd
  | struct name ms => simp [defines] at hd
  | org e =>
    simp only [exec] at h
    refine SS.trans (ss_resolve s.core e) ?_
    split at h
    · simp at h
    · obtain ⟨c, hc, rfl⟩ := map_ok h; exact ss_org hc
  | dbStr bytes =>
    simp only [exec] at h
    split at h
    · obtain ⟨c, hc, rfl⟩ := map_ok h; exact ss_dbStr hc
    · obtain ⟨c, hc, rfl⟩ := map_ok h; exact ss_skip hc
  | dbVal e =>
    simp only [exec] at h
    split at h
    · refine SS.trans (ss_resolve s.core e) ?_
      split at h
      · simp at h
      · obtain ⟨c, hc, rfl⟩ := map_ok h; exact ss_dbVal hc
    · obtain ⟨c, hc, rfl⟩ := map_ok h; exact ss_skip hc
  | dwVal e =>
    simp only [exec] at h
    split at h
    · refine SS.trans (ss_resolve s.core e) ?_
      split at h
      · simp at h
      · obtain ⟨c, hc, rfl⟩ := map_ok h; exact ss_dwVal hc
    · obtain ⟨c, hc, rfl⟩ := map_ok h; exact ss_skip hc
  | ds size fill =>
    simp only [exec] at h
    refine SS.trans (ss_resolve s.core size) ?_
    split at h
    · simp at h
    · split at h
      · simp at h
      · rename_i c1 n hds
        refine SS.trans (ss_dsSize hds) ?_
        split at h
        · cases fill with
          | none =>
            simp only at h
            obtain ⟨c, hc, rfl⟩ := map_ok h; exact ss_dsFill hc
          | some fe =>
            simp only at h
            refine SS.trans (ss_resolve c1 fe) ?_
            split at h
            · simp at h
            · obtain ⟨c, hc, rfl⟩ := map_ok h; exact ss_dsFill hc
        · simp at h; subst h; rfl
  | align e =>
    simp only [exec] at h
    refine SS.trans (ss_resolve s.core e) ?_
    split at h
    · simp at h
    · obtain ⟨c, hc, rfl⟩ := map_ok h; exact ss_align hc
  | incbin bytes =>
    simp only [exec] at h
    split at h
    · obtain ⟨c, hc, rfl⟩ := map_ok h; exact ss_incbin _ hc
    · simp at h
  | instr ps =>
    simp only [exec] at h
    split at h
    · split at h
      · simp at h
      · rename_i c1 hp
        obtain ⟨c, hc, rfl⟩ := map_ok h
        exact SS.trans (ss_pieces _ hp) (ss_instrTail hc)
    · simp at h
  | assert e =>
    simp only [exec] at h
    refine SS.trans (ss_resolve s.core e) ?_
    split at h
    · simp at h
    · obtain ⟨c, hc, rfl⟩ := map_ok h; exact ss_assert hc
  | segment code => simp [exec] at h; subst h; rfl

/-! ## 4b. An immediate use is a snapshot (parse-time inlining) -/

/-- A name with a plain value is replaced by that value when the expression is read. -/
theorem labelNode_val (c : CoreSt) (n : String) (v : I32) (m : List (String × String))
    (h : c.symtab.get n = some ⟨.val v, m⟩) : labelNode c n = .val v := by
  simp [labelNode, h]

/-- A name with a lazy definition that can be computed now is replaced by its current value. -/
theorem labelNode_expr (c : CoreSt) (n : String) (body : List Node) (v : I32)
    (m : List (String × String)) (h : c.symtab.get n = some ⟨.expr body, m⟩)
    (hv : evaluate c.symtab body = .ok v) : labelNode c n = .val v := by
  simp [labelNode, h, hv]

/-- The value a name has "now": a plain value, or the value of its lazy definition. -/
def valueNow (c : CoreSt) (n : String) (v : I32) : Prop :=
  ∃ m, c.symtab.get n = some ⟨.val v, m⟩ ∨
    ∃ body, c.symtab.get n = some ⟨.expr body, m⟩ ∧ evaluate c.symtab body = .ok v

theorem labelNode_valueNow {c : CoreSt} {n : String} {v : I32} (h : valueNow c n v) :
    labelNode c n = .val v := by
  obtain ⟨m, h | ⟨body, h, hv⟩⟩ := h
  · exact labelNode_val c n v m h
  · exact labelNode_expr c n body v m h hv

/-- `labelNode` only ever produces the current value or the name itself. -/
theorem labelNode_cases (c : CoreSt) (n : String) :
    (∃ v, labelNode c n = .val v) ∨ labelNode c n = .label n := by
  unfold labelNode
  (repeat' split) <;> simp

theorem labelNode_congr {c1 c2 : CoreSt} (h : c1.symtab = c2.symtab) (n : String) :
    labelNode c1 n = labelNode c2 n := by unfold labelNode; rw [h]

theorem evaluate_eq (env : Env) (ns : List Node) :
    evaluate env ns = evalList (evalAt (env.length + 1) env) env [] ns [] := rfl

theorem pureStep_val (v : I32) (st : List I32) : pureStep (.val v) st = .ok (v :: st) := rfl
theorem pureStep_add (a b : I32) (st : List I32) :
    pureStep .add (b :: a :: st) = .ok ((a + b) :: st) := rfl

theorem evaluate_val (env : Env) (v : I32) : evaluate env [.val v] = .ok v := by
  rw [evaluate_eq]; simp only [evalList, Node.access, pureStep_val]

/-- **Snapshot, part (b).** A use of `n` at a point where its value `v` can be computed is kept
as the constant `v`: the expression recorded for the use no longer mentions `n`, so evaluating it
in ANY table - in particular the final one, after any redefinition or removal of `n` - gives `v`. -/
theorem snapshot (c : CoreSt) (n : String) (v : I32) (hn : n ≠ "@here") (h : valueNow c n v) :
    (resolve c [.label n]).2 = [.val v] ∧ ∀ env : Env, evaluate env (resolve c [.label n]).2 = .ok v := by
  have : (resolve c [.label n]).2 = [.val v] := by
    rw [resolve_label c n [] hn, labelNode_valueNow h]; rfl
  exact ⟨this, fun env => by rw [this]; exact evaluate_val env v⟩

/-- A node list without table accesses. -/
def Closed (e : List Node) : Prop := ∀ x ∈ e, x.access = .none

theorem evalList_closed (lz1 lz2 : List String → List Node → Res I32) (env1 env2 : Env)
    (vis1 vis2 : List String) : ∀ (e : List Node) (st : List I32), Closed e →
    evalList lz1 env1 vis1 e st = evalList lz2 env2 vis2 e st := by
  intro e
  induction e with
  | nil => intro st _; simp [evalList]
  | cons x r ih =>
    intro st hc
    have hx : x.access = .none := hc x (List.mem_cons_self ..)
    have hr : Closed r := fun y hy => hc y (List.mem_cons_of_mem _ hy)
    simp only [evalList, hx]
    cases pureStep x st with
    | ok st' => exact ih st' hr
    | unsolved => rfl
    | crash s => rfl

/-- A closed expression has the same value in every table. -/
theorem evaluate_closed (env1 env2 : Env) (e : List Node) (h : Closed e) :
    evaluate env1 e = evaluate env2 e := by
  rw [evaluate_eq, evaluate_eq]
  exact evalList_closed _ _ _ _ _ _ e [] h

/-- Every name of `e` (other than `@here`) has a value that can be computed now, and `e` has no
`@sizeof`. -/
def AllNow (c : CoreSt) (e : List Node) : Prop :=
  ∀ x ∈ e, (∀ n, x = .label n → n ≠ "@here" → ∃ v, valueNow c n v) ∧ (∀ n, x ≠ .sizeOf n)

theorem resolve_closed : ∀ (e : List Node) (c : CoreSt), AllNow c e → Closed (resolve c e).2 := by
  intro e
  induction e with
  | nil => intro c _ x hx; simp [resolve] at hx
  | cons x r ih =>
    intro c h
    have hx := h x (List.mem_cons_self ..)
    have hr : ∀ c', c'.symtab = c.symtab → AllNow c' r := by
      intro c' hs y hy
      obtain ⟨h1, h2⟩ := h y (List.mem_cons_of_mem _ hy)
      refine ⟨fun n e1 e2 => ?_, h2⟩
      obtain ⟨v, hv⟩ := h1 n e1 e2
      exact ⟨v, by unfold valueNow at hv ⊢; rw [hs]; exact hv⟩
    cases x with
    | label n =>
      by_cases hn : n = "@here"
      · subst hn
        rw [resolve_here]
        intro y hy
        rcases List.mem_cons.mp hy with rfl | hy
        · rfl
        · exact ih c (hr c rfl) y hy
      · rw [resolve_label c n r hn]
        obtain ⟨v, hv⟩ := hx.1 n rfl hn
        rw [labelNode_valueNow hv]
        intro y hy
        rcases List.mem_cons.mp hy with rfl | hy
        · rfl
        · exact ih _ (hr _ (by rw [touch_fields])) y hy
    | sizeOf n => exact absurd rfl (hx.2 n)
    | _ =>
      rw [resolve_other _ _ _ rfl]
      intro y hy
      rcases List.mem_cons.mp hy with rfl | hy
      · rfl
      · exact ih c (hr c rfl) y hy

/-- **Snapshot, general form.** If every name used by an expression can be computed when the
expression is read, the expression kept for the use mentions no name at all, so its value is the
same in every table: nothing that happens to those names later can change it. -/
theorem snapshot_general (c : CoreSt) (e : List Node) (h : AllNow c e) (env1 env2 : Env) :
    evaluate env1 (resolve c e).2 = evaluate env2 (resolve c e).2 :=
  evaluate_closed env1 env2 _ (resolve_closed e c h)

/-! ## 5. A use that cannot be computed yet sees the final value -/

theorem labelNode_undefined (c : CoreSt) (n : String) (h : c.symtab.get n = none) :
    labelNode c n = .label n := by
  simp [labelNode, h]

/-- A use of a name that is not (yet) defined stays symbolic … -/
theorem deferred_stays_symbolic (c : CoreSt) (n : String) (hn : n ≠ "@here")
    (h : c.symtab.get n = none) : (resolve c [.label n]).2 = [.label n] := by
  rw [resolve_label c n [] hn, labelNode_undefined c n h]; rfl

/-- … also when it is defined lazily by something that cannot be computed yet. -/
theorem deferred_stays_symbolic_lazy (c : CoreSt) (n : String) (hn : n ≠ "@here")
    (body : List Node) (m : List (String × String)) (h : c.symtab.get n = some ⟨.expr body, m⟩)
    (hv : evaluate c.symtab body = .unsolved) : (resolve c [.label n]).2 = [.label n] := by
  rw [resolve_label c n [] hn]
  simp [labelNode, h, hv, resolve]

/-- … and the deferred patch is computed from the table of the state the link step is given: the
outcome of `applyLink` depends on the core state only through the value of the patch expression in
that state's table. -/
theorem applyLink_final (c1 c2 : CoreSt) (data : List Nat) (l : Link)
    (h : evaluate c1.symtab l.expr = evaluate c2.symtab l.expr) :
    applyLink c1 data l = applyLink c2 data l := by
  unfold applyLink; rw [h]

theorem applyLink_unsolved (c : CoreSt) (data : List Nat) (l : Link)
    (h : evaluate c.symtab l.expr = .unsolved) : applyLink c data l = .error ⟨.unsolved, l.loc⟩ := by
  unfold applyLink; rw [h]

/-- A byte patch writes the low byte of the value the expression has in the final table. -/
theorem applyLink_byte (c : CoreSt) (data : List Nat) (l : Link) (v : I32)
    (hk : l.kind = .byte) (h : evaluate c.symtab l.expr = .ok v) (hr : u32 v ≤ 255)
    (ho : l.offset < data.length) : applyLink c data l = .ok (patchAt data l.offset [lowByte v]) := by
  unfold applyLink; rw [h]; simp [hk, Nat.not_lt.mpr hr, ho]

/-- A word patch writes the value the expression has in the final table, little-endian. -/
theorem applyLink_word (c : CoreSt) (data : List Nat) (l : Link) (v : I32)
    (hk : l.kind = .word) (h : evaluate c.symtab l.expr = .ok v) (hr : u32 v ≤ 65535)
    (ho : l.offset + 1 < data.length) :
    applyLink c data l = .ok (patchAt data l.offset [u32 v % 256, u32 v / 256 % 256]) := by
  unfold applyLink; rw [h]; simp [hk, Nat.not_lt.mpr hr, ho]

/-- **Deferred uses see the final value.** The image is produced by linking the state at the END
of the run: every deferred patch is evaluated in the final symbol table. -/
theorem deferred_sees_final (prog : List Stmt) (img : List Nat) (h : assembleAbs prog = .ok img) :
    ∃ s, run {} prog = .ok s ∧ checkRefs s.core s.core.hits = .ok () ∧
      applyLinks s.core s.core.data s.core.links = .ok img := by
  unfold assembleAbs at h
  split at h
  · simp at h
  · rename_i s hs
    refine ⟨s, hs, ?_⟩
    unfold link at h
    split at h
    · simp at h
    · rename_i u hu; exact ⟨hu, h⟩

/-! ## 6. `@redefl X, X + 1` -/

theorem evaluate_add (env : Env) (a b : I32) : evaluate env [.val a, .val b, .add] = .ok (a + b) := by
  rw [evaluate_eq]; simp only [evalList, Node.access, pureStep_val, pureStep_add]

/-- **Self update.** Redefining `X` as `X + 1` when `X` currently has the value `v` stores the
expression `v 1 +` (no reference to `X` is left), whose value is `v + 1` in any table. -/
theorem self_update (s : State) (x : String) (keep : Bool) (v : I32) (hx : x ≠ "@here")
    (h : valueNow s.core x v) :
    ∃ s', exec s (.redefine keep x [.label x, .val 1, .add]) = .ok s' ∧
      s'.core.symtab.get x = some ⟨.expr [.val v, .val 1, .add], metaOf s.core keep⟩ ∧
      (∀ env : Env, evaluate env [.val v, .val 1, .add] = .ok (v + 1)) ∧
      (∀ m, m ≠ x → s'.core.symtab.get m = s.core.symtab.get m) := by
  refine ⟨_, exec_redefine _ _ _ _, ?_, fun env => evaluate_add env v 1, ?_⟩
  · show (Eff.redefine (resolve s.core _).1 keep x (resolve s.core _).2).symtab.get x = _
    rw [redef_replaces]
    have : (resolve s.core [.label x, .val 1, .add]).2 = [.val v, .val 1, .add] := by
      rw [resolve_label _ _ _ hx, labelNode_valueNow h]; rfl
    rw [this]
    simp [metaOf, resolve_curMeta]
  · intro m hm
    show (Eff.redefine (resolve s.core _).1 keep x (resolve s.core _).2).symtab.get m = _
    rw [redef_other _ _ _ _ _ hm, resolve_symtab]

/-- Applying the self update twice adds two (each step reads the value stored by the previous
one, by `labelNode_expr`). -/
theorem self_update_valueNow (s s' : State) (x : String) (keep : Bool) (v : I32) (hx : x ≠ "@here")
    (h : valueNow s.core x v)
    (he : exec s (.redefine keep x [.label x, .val 1, .add]) = .ok s') :
    valueNow s'.core x (v + 1) := by
  obtain ⟨s2, h1, h2, h3, _⟩ := self_update s x keep v hx h
  rw [he] at h1; cases h1
  exact ⟨_, Or.inr ⟨_, h2, h3 _⟩⟩

/-! ## non-vacuity -/

/-- A program that defines, uses, redefines and uses again: the first byte keeps the old value. -/
example : (assembleAbs [.define false "X" [.val 5], .dbVal [.label "X"],
    .redefine false "X" [.label "X", .val 1, .add], .dbVal [.label "X"]]).toOption = some [5, 6] := by
  decide

/-- A forward reference observes the value the name has when assembly ends. -/
example : (assembleAbs [.dbVal [.label "X"], .define false "X" [.val 5],
    .redefine false "X" [.val 9]]).toOption = some [9] := by
  decide

/-- A second plain definition is rejected, `@undef` allows a new one. -/
example : (assembleAbs [.label "X", .define false "X" [.val 5]]).toOption = none := by decide
example : (assembleAbs [.label "X", .undef "X", .define false "X" [.val 5],
    .dbVal [.label "X"]]).toOption = some [5] := by decide

/-- The hypotheses of `snapshot` / `self_update` are satisfiable. -/
example : valueNow ({ symtab := [("X", ⟨.val 7, []⟩)] } : CoreSt) "X" 7 := ⟨[], Or.inl rfl⟩

end Az65.Thm.C08

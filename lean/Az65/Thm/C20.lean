import Az65.Model.Export
import Az65.Model.Abs
import Az65.Thm.C08
/-
C20 — symbol metadata is exact and debug exports agree with the final symbol table.
-/
namespace Az65.Thm.C20
open Az65 Az65.Export

/-- A symbol defined while a `@meta` block is in force carries exactly those pairs. -/
theorem insert_carries_meta (c : CoreSt) (n : String) (s : Sym) :
    (c.insert n s).symtab.get n = some ⟨s, c.curMeta⟩ :=
  Az65.Thm.C08.insert_get_same c n s

/-- A label carries the metadata in force where it is defined. -/
theorem label_carries_meta (c c' : CoreSt) (d : String) (loc : Loc) (h : Eff.label c d loc = .ok c') :
    c'.symtab.get d = some ⟨.val (i32OfNat c.here), c.curMeta⟩ := by
  unfold Eff.label at h
  split at h
  · simp at h
  · simp only [Except.ok.injEq] at h; rw [← h]; exact insert_carries_meta c d _

/-- `@defl` keeps the metadata in force; `@defn` (constants) carries none. -/
theorem define_meta (c c' : CoreSt) (keep : Bool) (d : String) (ns : List Node) (loc : Loc)
    (h : Eff.define c keep d ns loc = .ok c') :
    c'.symtab.get d = some ⟨.expr ns, if keep then c.curMeta else []⟩ := by
  unfold Eff.define at h
  split at h
  · simp at h
  · cases keep
    · simp only [Bool.false_eq_true, if_false, Except.ok.injEq] at h ⊢
      rw [← h]; exact Az65.Thm.C08.insertWithMeta_get_same c d _ _
    · simp only [if_true, Except.ok.injEq] at h ⊢
      rw [← h]; exact insert_carries_meta c d _

/-- `@redefn` constants carry none, `@redefl` the metadata in force. -/
theorem redefine_meta (c : CoreSt) (keep : Bool) (d : String) (ns : List Node) :
    (Eff.redefine c keep d ns).symtab.get d = some ⟨.expr ns, if keep then c.curMeta else []⟩ := by
  unfold Eff.redefine
  cases keep
  · simp only [Bool.false_eq_true, if_false]; exact Az65.Thm.C08.insertWithMeta_get_same c d _ _
  · simp only [if_true]; exact insert_carries_meta c d _

/-- A struct field carries only its size. -/
theorem field_meta (c c' : CoreSt) (d : String) (size fs size' : I32) (t : String) (loc : Loc)
    (h : Eff.structField c d size fs t loc = .ok (c', size')) :
    c'.symtab.get d = some ⟨.val size, [("@SIZEOF", t)]⟩ := by
  unfold Eff.structField at h
  split at h
  · simp at h
  · simp only [Except.ok.injEq, Prod.mk.injEq] at h
    rw [← h.1]; exact Az65.Thm.C08.insertWithMeta_get_same c d _ _

/-- The rows every exporter starts from: one per symbol of the final table, in table order, each
with the symbol's entry and its final value. -/
theorem rowsOf_spec (c : CoreSt) : ∀ (tab : Env) (l : List (String × Entry × I32)), rowsOf c tab = .ok l →
    l.map (fun r => (r.1, r.2.1)) = tab ∧ ∀ r ∈ l, finalValue c r.2.1 = some r.2.2 := by
  intro tab
  induction tab with
  | nil => intro l h; simp [rowsOf] at h; subst h; simp
  | cons p r ih =>
    intro l h
    obtain ⟨n, e⟩ := p
    simp only [rowsOf] at h
    cases hv : finalValue c e with
    | none => simp [hv] at h
    | some v =>
      simp only [hv] at h
      cases hr : rowsOf c r with
      | error x => simp [hr] at h
      | ok l' =>
        simp only [hr, Except.ok.injEq] at h
        subst h
        obtain ⟨h1, h2⟩ := ih l' hr
        refine ⟨by simp [h1], ?_⟩
        intro x hx
        simp only [List.mem_cons] at hx
        rcases hx with rfl | hx
        · exact hv
        · exact h2 x hx

/-- **C20 (JSON lists every symbol exactly once).**  When the JSON export succeeds, its records
are, in table order, exactly the symbols of the final table — same names (each symbol once, the
table's keys being distinct), each with exactly its metadata and its final value. -/
theorem json_each_once (c : CoreSt) (l : List JsonSym) (h : json c = .ok l) :
    l.map (fun j => (j.name, j.metas)) = c.symtab.map (fun p => (p.1, p.2.metas)) ∧
    ∀ j ∈ l, ∃ e, (j.name, e) ∈ c.symtab ∧ j.metas = e.metas ∧ (finalValue c e).map BitVec.toInt = some j.value := by
  unfold json at h
  cases hr : rowsOf c c.symtab with
  | error x => simp [hr] at h
  | ok rows =>
    simp only [hr, Except.ok.injEq] at h
    subst h
    obtain ⟨h1, h2⟩ := rowsOf_spec c _ rows hr
    refine ⟨?_, ?_⟩
    · rw [← h1]; simp [List.map_map, Function.comp_def]
    · intro j hj
      simp only [List.mem_map] at hj
      obtain ⟨row, hrow, rfl⟩ := hj
      refine ⟨row.2.1, ?_, rfl, by simp [h2 row hrow]⟩
      rw [← h1]; simp only [List.mem_map]; exact ⟨row, hrow, rfl⟩

/-- The exporters report an unsolvable symbol instead of crashing. -/
theorem json_unsolved_is_error (c : CoreSt) (n : String) (e : Entry) (rest : Env)
    (h : c.symtab = (n, e) :: rest) (hv : finalValue c e = none) : json c = .error n := by
  unfold json
  rw [h]; simp [rowsOf, hv]

/-- `.sym` / `.nl` exports fail on exactly the same condition (an unsolvable symbol), never crash. -/
theorem sym_nl_error_iff_json (c : CoreSt) :
    ((sym c).toOption.isSome = (json c).toOption.isSome) ∧ ((nl c).toOption.isSome = (json c).toOption.isSome) := by
  unfold sym nl json
  cases rowsOf c c.symtab <;> simp [bind, Except.bind, pure, Except.pure, Except.toOption]

/-- Values in `.sym` / `.nl` lines are the low 16 bits of the final value. -/
theorem u16_lt (v : I32) : u16 v < 65536 := by unfold u16; omega

/-! non-vacuity -/
example : (({} : CoreSt).insert "x" (.val 5)).symtab.get "x" = some ⟨.val 5, []⟩ := insert_carries_meta {} "x" (.val 5)

end Az65.Thm.C20

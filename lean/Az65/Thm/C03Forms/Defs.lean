import Az65.Model.One
import Az65.Spec.Mos6502
/- Shared definitions of the C03 form table (see `Az65/Thm/C03.lean`). -/
namespace Az65.Thm.C03
open Az65 Az65.Spec Az65.Spec.Mos6502

/-- Every source spelling of an operand, with value `v`. -/
def spellings (v : Int) : List Mode :=
  [.implied, .acc, .immediate v, .direct v, .directX v, .directY v, .indirect v, .indirectX v, .indirectY v]

/-- Boundary operand values: byte / word edges, negative, and branch targets at the edges of
the -128..+127 window around `pc + 2` for `pc = 0x1000`. -/
def sampleValues : List Int :=
  [0, 0x42, 0xFF, 0x100, 0x1234, 0xFFFF, 0x10000, -1, 0x1000, 0x1002 - 128, 0x1002 + 127, 0x1002 + 128, 0x1002 - 129]

def formsAgreeOn (mns : List Mn) : Bool :=
  mns.all fun mn => sampleValues.all fun v => (spellings v).all fun md => [true, false].all fun known =>
    asmMode 0x1000 mn.name md known == Mos6502.expected 0x1000 mn.name md known

/-- slice `k` of the 56 mnemonics (8 slices of 7) -/
def slice (k : Nat) : List Mn := (Mn.all.drop (7 * k)).take 7

end Az65.Thm.C03

import Az65.Thm.C03Forms.Defs
namespace Az65.Thm.C03
theorem forms_slice_6 : formsAgreeOn (slice 6) = true := by decide +kernel
end Az65.Thm.C03

import Az65.Thm.C03Forms.Defs
namespace Az65.Thm.C03
theorem forms_slice_1 : formsAgreeOn (slice 1) = true := by decide +kernel
end Az65.Thm.C03

import Az65.Model.Abs
import Az65.Model.Stmt
/-
C09 — a local label `.name` is exactly shorthand for `Global.name`.

The model has ONE qualification function, `Az65.qualify`, used at every position where a label may
appear: `qualifyOrFail` (Model/Asm.lean) for the directives and label definitions, and directly in
`parsePrec` (Model/ExprParse.lean) for label operands and `@sizeof`.  So the property reduces to
facts about `qualify`.
-/
namespace Az65.Thm.C09
open Az65

/-! ### helper: right cancellation of string append -/

theorem string_append_right_cancel {a b s : String} (h : a ++ s = b ++ s) : a = b := by
  have h' := congrArg String.toList h
  rw [String.toList_append, String.toList_append] at h'
  exact String.toList_inj.mp (List.append_cancel_right h')

theorem string_append_left_cancel {g a b : String} (h : g ++ a = g ++ b) : a = b := by
  have h' := congrArg String.toList h
  rw [String.toList_append, String.toList_append] at h'
  exact String.toList_inj.mp (List.append_cancel_left h')

/-! ### the property -/

/-- Under the scope `g`, the local spelling `.name` (`LabelKind.loc`, text `s`) denotes exactly the
key that the fully-qualified (direct) spelling `g ++ s` denotes. -/
theorem qualify_local_eq_direct (g s : String) :
    qualify (some g) .loc s = qualify (some g) .direct (g ++ s) := rfl

/-- … and that key is the concatenation of the scope name and the local text. -/
theorem qualify_local (g s : String) : qualify (some g) .loc s = some (g ++ s) := rfl

/-- The same holds whatever scope is in force when the qualified spelling is read: a direct
spelling ignores the scope. -/
theorem qualify_local_eq_direct_any (g s : String) (ns : Option String) :
    qualify (some g) .loc s = qualify ns .direct (g ++ s) := rfl

/-- A global label ignores the scope. -/
theorem qualify_global (ns : Option String) (s : String) : qualify ns .global s = some s := rfl

/-- A direct (`Global.local`) label ignores the scope. -/
theorem qualify_direct (ns : Option String) (s : String) : qualify ns .direct s = some s := rfl

/-- A local label before any global label (no scope) has no qualified name: it is rejected. -/
theorem no_scope_rejected (s : String) : qualify none .loc s = none := rfl

/-- `qualify` fails only for a local label without a scope. -/
theorem qualify_none_iff (ns : Option String) (k : LabelKind) (s : String) :
    qualify ns k s = none ↔ (k = .loc ∧ ns = none) := by
  cases k <;> cases ns <;> simp [qualify]

/-- The same local name under two different global labels denotes two different keys, i.e. two
independent symbols. -/
theorem scopes_independent {g1 g2 s : String} (h : g1 ≠ g2) :
    qualify (some g1) .loc s ≠ qualify (some g2) .loc s := by
  intro e
  simp only [qualify, Option.map_some, Option.some.injEq] at e
  exact h (string_append_right_cancel e)

/-- Two different local names under the same global label denote different keys. -/
theorem locals_independent {g s1 s2 : String} (h : s1 ≠ s2) :
    qualify (some g) .loc s1 ≠ qualify (some g) .loc s2 := by
  intro e
  simp only [qualify, Option.map_some, Option.some.injEq] at e
  exact h (string_append_left_cancel e)

/-- Replacing a local spelling by its qualified spelling is invisible to everything downstream:
any function of the qualified key (table lookup, definition, `@sizeof`, `@isdef`, …) gets the
same argument. -/
theorem local_spelling_congr {α} (f : Option String → α) (g s : String) (ns : Option String) :
    f (qualify (some g) .loc s) = f (qualify ns .direct (g ++ s)) := rfl

/-- `qualifyOrFail` (the directive-side entry point) is `qualify` on the scope of the current
state: it returns the key without changing the state, or fails with "no scope". -/
theorem qualifyOrFail_eq (kind : LabelKind) (value : String) (loc : Loc) (st : Asm) :
    (qualifyOrFail kind value loc).run st =
      match qualify st.core.ns kind value with
      | some d => .ok (d, st)
      | none => .error ⟨.noScope, loc⟩ := by
  unfold qualifyOrFail
  cases h : qualify st.core.ns kind value <;>
    simp [h, StateT.run, bind, StateT.bind, get, getThe, MonadStateOf.get, StateT.get, pure,
      StateT.pure, Except.pure, Except.bind, fail, throw, throwThe, MonadExceptOf.throw,
      StateT.lift]

/-- With a scope in force, the local spelling and the qualified spelling make `qualifyOrFail`
return the same key and the same state. -/
theorem qualifyOrFail_local_eq_direct (g s : String) (loc : Loc) (st : Asm)
    (hns : st.core.ns = some g) :
    (qualifyOrFail .loc s loc).run st = (qualifyOrFail .direct (g ++ s) loc).run st := by
  rw [qualifyOrFail_eq, qualifyOrFail_eq, hns]; rfl

/-- Without a scope a local label is rejected with the "no scope" diagnostic. -/
theorem qualifyOrFail_no_scope (s : String) (loc : Loc) (st : Asm) (hns : st.core.ns = none) :
    (qualifyOrFail .loc s loc).run st = .error ⟨.noScope, loc⟩ := by
  rw [qualifyOrFail_eq, hns]; rfl

/-! ### non-vacuity -/

example : qualify (some "Main") .loc ".loop" = some ("Main" ++ ".loop") := rfl
example : qualify (some "A") .loc ".x" ≠ qualify (some "B") .loc ".x" :=
  scopes_independent (by decide)
example : qualify none .loc ".x" = none := rfl

end Az65.Thm.C09

import Az65.Model.Intern
/-
C19 — interned strings stay valid and distinct for the lifetime of the run.
-/
namespace Az65.Thm.C19
open Az65.Model.Intern

/-! ### capacity arithmetic -/

theorem nextPow2Aux_ge (n : Nat) : ∀ (f p : Nat), 0 < p → n ≤ p * 2 ^ f → n ≤ nextPow2Aux f p n := by
  intro f
  induction f with
  | zero => intro p _ h; simpa [nextPow2Aux] using h
  | succ f ih =>
    intro p hp h
    unfold nextPow2Aux
    split
    · assumption
    · apply ih (2 * p) (by omega)
      rw [Nat.pow_succ] at h
      calc n ≤ p * (2 ^ f * 2) := h
        _ = 2 * p * 2 ^ f := by rw [Nat.mul_comm (2 ^ f) 2, ← Nat.mul_assoc, Nat.mul_comm p 2]

theorem nextPow2_ge (n : Nat) : n ≤ nextPow2 n := by
  unfold nextPow2
  apply nextPow2Aux_ge n (n + 1) 1 (by omega)
  have := @Nat.lt_two_pow_self (n + 1)
  omega

/-! ### the no-reallocation invariant -/

/-- Every backing buffer's length is within its capacity: the one fact that stands between the
raw-pointer handles and a dangling reference (a `Vec` does not move while `len ≤ capacity`). -/
def CapOk (st : St) : Prop :=
  (∀ b ∈ st.old, b.data.length ≤ b.cap) ∧ st.cur.data.length ≤ st.cur.cap

theorem capOk_init : CapOk init := by simp [CapOk, init]

theorem capOk_buffer (st : St) (bytes : List Nat) (h : CapOk st) : CapOk (buffer st bytes).1 := by
  unfold buffer CapOk at *
  obtain ⟨h1, h2⟩ := h
  by_cases hc : st.cur.cap < st.cur.data.length + bytes.length
  · simp only [hc, if_true]
    refine ⟨?_, ?_⟩
    · intro b hb
      simp only [List.mem_append, List.mem_singleton] at hb
      rcases hb with hb | hb
      · exact h1 b hb
      · rw [hb]; exact h2
    · simp only [List.nil_append]
      have := nextPow2_ge (max st.cur.cap bytes.length + 1)
      omega
  · simp only [hc, if_false]
    refine ⟨h1, ?_⟩
    simp only [List.length_append]; omega

theorem capOk_intern (st : St) (bytes : List Nat) (h : CapOk st) : CapOk (intern st bytes).1 := by
  unfold intern
  split
  · exact h
  · have := capOk_buffer st bytes h
    simpa [CapOk] using this

/-- **C19 (no reallocation).**  After any history of intern operations every buffer is within
its capacity. -/
theorem no_realloc (ops : List (List Nat)) : CapOk (runOps init ops).1 := by
  suffices ∀ st, CapOk st → CapOk (runOps st ops).1 from this init capOk_init
  induction ops with
  | nil => intro st h; exact h
  | cons op ops ih => intro st h; exact ih _ (capOk_intern st op h)

/-! ### handles keep resolving to their text -/

theorem bufs_get (st : St) (i : Nat) :
    st.bufs[i]? = if i < st.old.length then st.old[i]? else if i = st.old.length then some st.cur else none := by
  unfold St.bufs
  by_cases h : i < st.old.length
  · simp [h, List.getElem?_append_left h]
  · simp only [h, if_false]
    rw [List.getElem?_append_right (by omega)]
    by_cases h2 : i = st.old.length
    · simp [h2]
    · simp only [h2, if_false]
      have : i - st.old.length ≠ 0 := by omega
      cases hk : i - st.old.length with
      | zero => omega
      | succ k => simp

theorem take_drop_append {α} (l r : List α) (s n : Nat) (h : s + n ≤ l.length) :
    ((l ++ r).drop s).take n = (l.drop s).take n := by
  rw [List.drop_append_of_le_length (by omega), List.take_append_of_le_length (by simp; omega)]

/-- Buffers are append-only: whatever a handle resolved to, it still resolves to. -/
theorem resolve_buffer (st : St) (bytes : List Nat) (h : Handle) (c : List Nat)
    (hr : resolve st h = some c) : resolve (buffer st bytes).1 h = some c := by
  unfold resolve at hr ⊢
  rw [bufs_get] at hr ⊢
  unfold buffer
  by_cases hc : st.cur.cap < st.cur.data.length + bytes.length
  · simp only [hc, if_true]
    by_cases h1 : h.buf < st.old.length
    · simp only [h1, if_true] at hr
      have h1' : h.buf < (st.old ++ [st.cur]).length := by simp; omega
      simp only [h1', if_true, List.getElem?_append_left h1]
      exact hr
    · simp only [h1, if_false] at hr
      by_cases h2 : h.buf = st.old.length
      · simp only [h2, if_true] at hr
        have h1' : h.buf < (st.old ++ [st.cur]).length := by simp; omega
        simp only [h1', if_true]
        rw [h2, List.getElem?_append_right (by omega)]
        simpa using hr
      · simp [h2] at hr
  · simp only [hc, if_false]
    by_cases h1 : h.buf < st.old.length
    · simp only [h1, if_true] at hr ⊢; exact hr
    · simp only [h1, if_false] at hr ⊢
      by_cases h2 : h.buf = st.old.length
      · simp only [h2, if_true] at hr ⊢
        split at hr
        · rename_i hle
          have : h.start + h.len ≤ (st.cur.data ++ bytes).length := by simp; omega
          simp only [this, if_true]
          rw [take_drop_append _ _ _ _ hle]; exact hr
        · simp at hr
      · simp [h2] at hr

/-- The handle returned by `buffer` resolves to the bytes just stored. -/
theorem resolve_new (st : St) (bytes : List Nat) :
    resolve (buffer st bytes).1 (buffer st bytes).2 = some bytes := by
  unfold resolve
  rw [bufs_get]
  unfold buffer
  by_cases hc : st.cur.cap < st.cur.data.length + bytes.length
  · simp [hc]
  · simp [hc]

theorem resolve_intern (st : St) (bytes : List Nat) (h : Handle) (c : List Nat)
    (hr : resolve st h = some c) : resolve (intern st bytes).1 h = some c := by
  unfold intern
  split
  · exact hr
  · have := resolve_buffer st bytes h c hr
    simpa [resolve, St.bufs] using this

/-- Set invariant: every recorded (content, handle) pair resolves to its content. -/
def MapOk (st : St) : Prop := ∀ c h, (c, h) ∈ st.map → resolve st h = some c

theorem lookup_some {m : List (List Nat × Handle)} {bytes : List Nat} {h : Handle}
    (hl : lookup m bytes = some h) : (bytes, h) ∈ m := by
  induction m with
  | nil => simp [lookup] at hl
  | cons p r ih =>
    obtain ⟨c, h'⟩ := p
    simp only [lookup] at hl
    split at hl
    · rename_i hc; simp at hl; simp [hc, hl]
    · simp [ih hl]

theorem lookup_none {m : List (List Nat × Handle)} {bytes : List Nat}
    (hl : lookup m bytes = none) : ∀ h, (bytes, h) ∉ m := by
  induction m with
  | nil => simp
  | cons p r ih =>
    obtain ⟨c, h'⟩ := p
    simp only [lookup] at hl
    split at hl
    · simp at hl
    · rename_i hc
      intro h hm
      simp only [List.mem_cons, Prod.mk.injEq] at hm
      rcases hm with hm | hm
      · exact hc hm.1.symm
      · exact ih hl h hm

theorem buffer_map (st : St) (bytes : List Nat) : (buffer st bytes).1.map = st.map := by
  unfold buffer; split <;> rfl

theorem mapOk_intern (st : St) (bytes : List Nat) (hm : MapOk st) : MapOk (intern st bytes).1 := by
  intro c h hin
  unfold intern at hin ⊢
  split at hin
  · rename_i h0 hl; simp only [hl]; exact hm c h hin
  · rename_i hl
    simp only [hl]
    simp only [List.mem_cons, Prod.mk.injEq] at hin
    rcases hin with ⟨rfl, rfl⟩ | hin
    · have := resolve_new st c
      simpa [resolve, St.bufs] using this
    · rw [buffer_map] at hin
      have := resolve_buffer st bytes h c (hm c h hin)
      simpa [resolve, St.bufs] using this

/-- The handle `intern` returns resolves to the text it was given. -/
theorem intern_resolves (st : St) (bytes : List Nat) (hm : MapOk st) :
    resolve (intern st bytes).1 (intern st bytes).2 = some bytes := by
  have hm' := mapOk_intern st bytes hm
  apply hm'
  unfold intern
  split
  · rename_i h hl; simp only [hl]; exact lookup_some hl
  · rename_i hl; simp [hl]

/-- **C19 (stability).**  Every handle returned anywhere in a history still resolves, at the end
of the history, to exactly the text it was created from. -/
theorem get_stable : ∀ (ops : List (List Nat)) (st : St), MapOk st →
    let r := runOps st ops
    MapOk r.1 ∧ r.2.length = ops.length ∧
      ∀ i (hi : i < ops.length) (hi' : i < r.2.length), resolve r.1 r.2[i] = some ops[i] := by
  intro ops
  induction ops with
  | nil => intro st hm; exact ⟨hm, rfl, by intro i hi; simp at hi⟩
  | cons op ops ih =>
    intro st hm
    have hm1 := mapOk_intern st op hm
    obtain ⟨h1, h2, h3⟩ := ih (intern st op).1 hm1
    refine ⟨h1, by simp [runOps, h2], ?_⟩
    intro i hi hi'
    cases i with
    | zero =>
      simp only [runOps, List.getElem_cons_zero]
      -- stability of the first handle through the rest of the history
      have h0 := intern_resolves st op hm
      exact stable_run ops _ _ _ h0
    | succ i =>
      simp only [runOps, List.getElem_cons_succ]
      exact h3 i (by simpa using hi) (by simpa [runOps] using hi')
where
  stable_run : ∀ (ops : List (List Nat)) (st : St) (h : Handle) (c : List Nat),
      resolve st h = some c → resolve (runOps st ops).1 h = some c := by
    intro ops
    induction ops with
    | nil => intro st h c hr; exact hr
    | cons op ops ih => intro st h c hr; exact ih _ h c (resolve_intern st op h c hr)

/-- Same text, same handle; and the state is unchanged the second time. -/
theorem intern_idempotent (st : St) (bytes : List Nat) :
    intern (intern st bytes).1 bytes = ((intern st bytes).1, (intern st bytes).2) := by
  unfold intern
  cases hl : lookup st.map bytes with
  | some h => simp [hl]
  | none => simp [hl, lookup]

/-- Different texts never share a handle (a handle resolves to one text). -/
theorem intern_injective (st : St) (hm : MapOk st) (a b : List Nat)
    (h : (intern (intern st a).1 b).2 = (intern st a).2) : a = b := by
  have hm1 := mapOk_intern st a hm
  have ha := intern_resolves st a hm
  have ha' := resolve_intern (intern st a).1 b _ _ ha
  have hb := intern_resolves (intern st a).1 b hm1
  rw [h, ha'] at hb
  exact Option.some.inj hb

/-! ### metadata sets -/

theorem pairLe_trans (a b c : Nat × Nat) : pairLe a b = true → pairLe b c = true → pairLe a c = true := by
  simp only [pairLe, Bool.or_eq_true, decide_eq_true_eq, Bool.and_eq_true, beq_iff_eq]
  omega

theorem pairLe_total (a b : Nat × Nat) : (pairLe a b || pairLe b a) = true := by
  simp only [pairLe, Bool.or_eq_true, decide_eq_true_eq, Bool.and_eq_true, beq_iff_eq]
  omega

theorem pairLe_antisymm (a b : Nat × Nat) (h1 : pairLe a b = true) (h2 : pairLe b a = true) : a = b := by
  simp only [pairLe, Bool.or_eq_true, decide_eq_true_eq, Bool.and_eq_true, beq_iff_eq] at h1 h2
  apply Prod.ext <;> omega

/-- **C19 (metadata).**  Two orderings of the same key/value pairs have the same canonical
form, hence intern to the same handle. -/
theorem meta_perm (st : St) (l1 l2 : List (Nat × Nat)) (h : l1.Perm l2) :
    internMeta st l1 = internMeta st l2 := by
  unfold internMeta canon
  have : l1.mergeSort pairLe = l2.mergeSort pairLe := by
    apply List.Perm.eq_of_pairwise (le := fun a b => pairLe a b = true)
    · intro a b _ _ h1 h2; exact pairLe_antisymm a b h1 h2
    · exact List.pairwise_mergeSort pairLe_trans pairLe_total l1
    · exact List.pairwise_mergeSort pairLe_trans pairLe_total l2
    · exact ((List.mergeSort_perm l1 pairLe).trans h).trans (List.mergeSort_perm l2 pairLe).symm
  rw [this]

/-! ### non-vacuity -/
example : (runOps init [[1,2,3], List.replicate 40 7, [1,2,3], [9]]).2 =
    [⟨0,0,3⟩, ⟨1,0,40⟩, ⟨0,0,3⟩, ⟨1,40,1⟩] := by decide
example : MapOk init := by intro c h hin; simp [init] at hin
example : internMeta init [(2,1),(1,5)] = internMeta init [(1,5),(2,1)] :=
  meta_perm _ _ _ (List.Perm.swap _ _ _)

end Az65.Thm.C19

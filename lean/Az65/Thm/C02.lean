import Az65.Thm.IsaSm83
import Az65.Thm.C02Forms.P0
import Az65.Thm.C02Forms.P1
import Az65.Thm.C02Forms.P2
import Az65.Thm.C02Forms.P3
import Az65.Thm.C02Forms.P4
import Az65.Thm.C02Forms.P5
import Az65.Thm.C02Forms.P6
import Az65.Thm.C02Forms.P7
/-
C02 — SM83 (Game Boy) instructions assemble to their LR35902 encoding, only to it.

ISA-level theorems (all operand values) are in `Az65/Thm/IsaSm83.lean`.  This file ties the
decision tree regenerated from src/sm83/mod.rs on every run to the Spec.  The eight `cp r` /
`cp (hl)` forms are a recorded known finding (the assembler emits C8..CF, pinned by the repository's
own test `sm83::tests::cp`); the table theorem is therefore `_partial`: it excludes exactly them.
-/
namespace Az65.Thm.C02
open Az65 Az65.Spec

theorem slices_cover : Sm83.allOpcodes =
    slice 0 ++ slice 1 ++ slice 2 ++ slice 3 ++ slice 4 ++ slice 5 ++ slice 6 ++ slice 7 := by
  decide +kernel

theorem formsAgreeOn_append (a b : List Sm83.Instr) :
    formsAgreeOn (a ++ b) = (formsAgreeOn a && formsAgreeOn b) := by
  simp [formsAgreeOn, List.all_append]

/-- **C02 (generated tree = Spec on every opcode), partial.**  For each of the 500 defined
opcodes except the eight recorded `cp r` / `cp (hl)` forms, written in its canonical spelling, with
each value operand also replaced by every edge value, known now and defined later: the decision
tree regenerated from the current source yields exactly `Spec.Sm83.expected`. -/
theorem tree_agrees_spec_on_opcodes_partial : formsAgreeOn Sm83.allOpcodes = true := by
  rw [slices_cover]
  simp only [formsAgreeOn_append, forms_slice_0, forms_slice_1, forms_slice_2, forms_slice_3,
    forms_slice_4, forms_slice_5, forms_slice_6, forms_slice_7, Bool.and_self]

/-- The recorded exclusion is exactly eight source forms. -/
theorem known_defect_forms :
    (Sm83.allOpcodes.filter fun i => knownDefect (Sm83.write i).1 (Sm83.write i).2).length = 8 := by
  decide +kernel

export Az65.Thm.IsaSm83 (decode_enc read_write enc_bytes cp_is_B8 C8_is_ret_z expected_decode
  allOpcodes_nodup allOpcodes_cover)

/-! non-vacuity -/
example : asmOpnds .sm83 0 "ldh" [.reg "a", .mem 0xFF10] true = some [0xF0, 0x10] := by decide +kernel
example : asmOpnds .sm83 0 "ldh" [.reg "a", .mem 0xFF10] false = some [0xF0, 0x10] := by decide +kernel
example : asmOpnds .sm83 0 "ldh" [.reg "a", .mem 0x100] false = none := by decide +kernel
example : asmOpnds .sm83 0 "halt" [] true = some [0x76, 0x00] := by decide +kernel

end Az65.Thm.C02

/-
Shared vocabulary of the az65 model.  Imports nothing, so that the driver links as a `lean_exe`.
-/
namespace Az65

/-- 32-bit value domain of az65 expressions (`i32` in the Rust). -/
abbrev I32 := BitVec 32

/-- Outcome of a computation that the Rust can (a) finish with a value, (b) decline
(`Option::None`, "could not be solved"), or (c) panic.  Every `unwrap`, index, `/`, unchecked
`-` of the Rust is an explicit `crash site`, never a default value. -/
inductive Res (α : Type) where
  | ok (a : α)
  | unsolved
  | crash (site : String)
  deriving Repr, DecidableEq

namespace Res
def bind {α β} : Res α → (α → Res β) → Res β
  | .ok a, f => f a
  | .unsolved, _ => .unsolved
  | .crash s, _ => .crash s
def isCrash {α} : Res α → Bool
  | .crash _ => true
  | _ => false
end Res

/-! ### small text helpers used by the line-protocol driver -/

def hexDigit (n : Nat) : Char :=
  if n < 10 then Char.ofNat (48 + n) else Char.ofNat (87 + n)

def hexByte (b : Nat) : String :=
  String.ofList [hexDigit ((b / 16) % 16), hexDigit (b % 16)]

def hexBytes (bs : List Nat) : String :=
  String.join (bs.map hexByte)

def hexVal (c : Char) : Option Nat :=
  if '0' ≤ c ∧ c ≤ '9' then some (c.toNat - 48)
  else if 'a' ≤ c ∧ c ≤ 'f' then some (c.toNat - 87)
  else if 'A' ≤ c ∧ c ≤ 'F' then some (c.toNat - 55)
  else none

def unhexAux : List Char → List Nat → Option (List Nat)
  | [], acc => some acc.reverse
  | [_], _ => none
  | a :: b :: r, acc =>
    match hexVal a, hexVal b with
    | some x, some y => unhexAux r ((16 * x + y) :: acc)
    | _, _ => none

/-- Decode a hex string ("0a ff" without spaces) to bytes. -/
def unhex (s : String) : Option (List Nat) := unhexAux s.toList []

/-- UTF-8 encode one scalar value (used only to carry text over the line protocol). -/
def utf8EncodeChar (c : Nat) : List Nat :=
  if c < 0x80 then [c]
  else if c < 0x800 then [0xC0 + c / 64, 0x80 + c % 64]
  else if c < 0x10000 then [0xE0 + c / 4096, 0x80 + (c / 64) % 64, 0x80 + c % 64]
  else [0xF0 + c / 262144, 0x80 + (c / 4096) % 64, 0x80 + (c / 64) % 64, 0x80 + c % 64]

end Az65

import Az65.Model.Intern
import Az65.Basic
/- Line-protocol driver for mode `intern` (C19). -/
namespace Az65.Drv
open Az65 Az65.Model.Intern

/-- Same generator as the harness (`gen_text`): a 64-bit LCG, letters a..z. -/
def genText (len : Nat) (seed : Nat) : List Nat :=
  let a : UInt64 := 6364136223846793005
  let c : UInt64 := 1442695040888963407
  let s0 : UInt64 := (UInt64.ofNat seed) * a + c
  let rec go : Nat → UInt64 → List Nat → List Nat
    | 0, _, acc => acc.reverse
    | n + 1, s, acc =>
      let s' := s * a + c
      go n s' ((97 + ((s' >>> 33) % 26).toNat) :: acc)
  go len s0 []

def showHandle (h : Handle) : String := s!"b:{h.buf}:{h.start}:{h.len}"

def parseOp (kind : String) (op : String) : Option (List Nat) :=
  if op.startsWith "g:" then
    match (op.drop 2).toString.splitOn ":" with
    | [l, s] => do let l' ← l.toNat?; let s' ← s.toNat?; some (genText l' s')
    | _ => none
  else if op.startsWith "h:" then unhex (op.drop 2).toString
  else if op.startsWith "m:" then
    let body := (op.drop 2).toString
    let pairs := ((body.splitOn ",").filter (· ≠ "")).filterMap fun p =>
      match p.splitOn "=" with
      | [k, v] => do let k' ← k.toNat?; let v' ← v.toNat?; some (k', v')
      | _ => none
    -- a `[StrRef; 2]` is 2 x (pointer, length) = 32 bytes; the pool strings are interned in index
    -- order, so sorting by index is sorting by address
    some ((pairs.mergeSort pairLe).flatMap fun p => List.replicate 16 p.1 ++ List.replicate 16 p.2)
  else
    let _ := kind
    none

def runIntern (args : List String) : String :=
  match args with
  | [kind, opsS] =>
    let ops := (opsS.splitOn ";").filter (· ≠ "")
    match ops.mapM (parseOp kind) with
    | none => "BADOPS"
    | some bs =>
      let (st, hs) := runOps init bs
      let hsS := " ".intercalate (hs.map showHandle)
      let bufsS := ",".intercalate (st.bufs.map fun b => s!"{b.cap}:{b.data.length}")
      s!"{hsS}\t{bufsS}"
  | _ => "BADARGS"

end Az65.Drv

import Az65.Thm.C01Forms.Defs
import Az65.Thm.C02Forms.Defs
import Az65.Thm.C03Forms.Defs
/- Line-protocol driver for mode `forms`: evaluates the form tables of C01–C03 with the compiled
code.  This is NOT a proof (the proofs are the kernel-checked `forms_slice_k` theorems); the checks
use it as a pre-flight, so that a table which no longer holds is reported in seconds with the first
failing form instead of by an expensive failing kernel evaluation. -/
namespace Az65.Drv
open Az65 Az65.Spec

def showOps (ops : List Opnd) : String := ", ".intercalate (ops.map fun o => reprStr o)

/-- args: arch, number of slices.  out: `k=1` / `k=0:<first failing form>` per slice, `;`-separated -/
def runForms (args : List String) : String :=
  match args with
  | [arch, nS] =>
    let n := nS.toNat!
    let one (k : Nat) : String :=
      if arch = "z80" then
        match (Thm.C01.slice k).find? (fun i => !Thm.C01.instrOk i) with
        | none => s!"{k}=1"
        | some i => let w := Z80.write i; s!"{k}=0:{w.1} {showOps w.2}"
      else if arch = "sm83" then
        match (Thm.C02.slice k).find? (fun i => !Thm.C02.instrOk i) with
        | none => s!"{k}=1"
        | some i => let w := Sm83.write i; s!"{k}=0:{w.1} {showOps w.2}"
      else
        match (Thm.C03.slice k).find? (fun mn => !Thm.C03.formsAgreeOn [mn]) with
        | none => s!"{k}=1"
        | some mn => s!"{k}=0:{mn.name}"
    ";".intercalate ((List.range n).map one)
  | _ => "BADARGS"

end Az65.Drv

import Az65.Model.Link
import Az65.Drv.Lex
/- Line-protocol driver for mode `asm`: whole assemble()+link() runs of the model. -/
namespace Az65.Drv
open Az65

def parseFiles (spec : String) : FileSys :=
  if spec = "-" then {} else
  ((spec.splitOn ";").filter (· ≠ "")).foldl (fun fs entry =>
    if entry.endsWith "/" then
      { fs with dirs := fs.dirs ++ [normPath entry] }
    else
      match entry.splitOn "=" with
      | [path, rest] =>
        let parts := rest.splitOn "@"
        let data := (unhex (parts.headD "")).getD []
        let failAt := (parts.tail.filterMap fun p =>
          if p.startsWith "f" then (p.drop 1).toString.toNat? else none).head?
        { fs with files := fs.files ++ [{ path := normPath path, data := data, failAt := failAt }] }
      | _ => fs) {}

def sortStrings (l : List String) : List String := l.mergeSort fun a b => a < b || a == b

def showSymbols (c : CoreSt) : String :=
  let entries := c.symtab.map fun (name, e) =>
    let v := match e.sym with
      | .val v => toString v.toInt
      | .expr body => match evaluate c.symtab body with
        | .ok v => toString v.toInt
        | _ => "?"
    let ms := sortStrings (e.metas.map fun kv => hexOfString kv.1 ++ ":" ++ hexOfString kv.2)
    hexOfString name ++ "=" ++ v ++ "=" ++ "+".intercalate ms
  ",".intercalate (sortStrings entries)

def showEKind : EKind → String
  | .eoi => "eoi" | .unexpected => "unexpected" | .range => "range" | .addrOverflow => "addr-overflow"
  | .needsNow => "needs-now" | .alreadyDefined => "already-defined" | .noScope => "no-scope"
  | .assertFail => "assert" | .die => "die" | .notFound => "not-found" | .fileOpen => "file-open"
  | .fileRead => "file-read" | .lex k => "lex-" ++ errClass k | .undefined => "undefined"
  | .unsolved => "unsolved" | .other s => "other:" ++ s | .crash s => "CRASH:" ++ s | .fuel => "FUEL"

def showLinks (c : CoreSt) : String :=
  let kindNo : LinkKind → Nat
    | .byte => 0 | .signedByte => 1 | .word => 2 | .space => 3 | .assert => 4
  ",".intercalate (c.links.map fun l => s!"{kindNo l.kind}:{l.offset}:{l.len}")

def runAsm (args : List String) : String :=
  match args with
  | archS :: cwd :: root :: sps :: files :: rest =>
    match Arch.ofString archS with
    | none => "BADARCH"
    | some a =>
      let fs := parseFiles files
      let searchPaths := if sps = "-" then [] else (sps.splitOn ";").filter (· ≠ "")
      let opts := (rest.headD "").splitOn ","
      match assemble a fs searchPaths cwd root 2000000 with
      | .error f => s!"ERR\t{showEKind f.err.kind}@{f.err.loc.file}:{f.err.loc.line}:{f.err.loc.col}"
      | .ok s =>
        let extra := if opts.contains "links" then s!"\tLINKS {showLinks s.core} PRE {hexBytes s.core.data}" else ""
        match link s.core with
        | .error e => s!"ERR\t{showEKind e.kind}@{e.loc.file}:{e.loc.line}:{e.loc.col}{extra}"
        | .ok bytes => s!"OK\t{hexBytes bytes}\t{showSymbols s.core}{extra}"
  | _ => "BADARGS"

end Az65.Drv

import Az65.Model.One
import Az65.Spec.Z80
import Az65.Spec.Sm83
import Az65.Spec.Mos6502
/- Line-protocol driver for mode `spec`: the ISA Specs' `expected` and the one-instruction model. -/
namespace Az65.Drv
open Az65 Az65.Spec

def parseOpnd (s : String) : Option Opnd :=
  match s.splitOn ":" with
  | ["reg", r] => some (.reg r)
  | ["flag", f] => some (.flag f)
  | ["ind", r] => some (.ind r)
  | ["idx", r, d] => d.toInt?.map (.idx r)
  | ["regPlus", r, d] => d.toInt?.map (.regPlus r)
  | ["indInc", r] => some (.indInc r)
  | ["indDec", r] => some (.indDec r)
  | ["mem", v] => v.toInt?.map .mem
  | ["imm", v] => v.toInt?.map .imm
  | _ => none

def parseMode (s : String) : Option Mode :=
  match s.splitOn ":" with
  | ["implied"] => some .implied
  | ["acc"] => some .acc
  | ["immediate", v] => v.toInt?.map .immediate
  | ["direct", v] => v.toInt?.map .direct
  | ["directX", v] => v.toInt?.map .directX
  | ["directY", v] => v.toInt?.map .directY
  | ["indirect", v] => v.toInt?.map .indirect
  | ["indirectX", v] => v.toInt?.map .indirectX
  | ["indirectY", v] => v.toInt?.map .indirectY
  | _ => none

def showBytes : Option (List Nat) → String
  | some bs => "OK\t" ++ hexBytes bs
  | none => "REJECT"

/-- args: arch, pc, mnemonic, operands (`,`-joined, `-` = none) or 6502 mode, known (0/1).
out: Spec.expected | one-instruction model over the generated tree -/
def runSpec (args : List String) : String :=
  match args with
  | [archS, pcS, m, opsS, knownS] =>
    match Arch.ofString archS, pcS.toNat? with
    | some a, some pc =>
      let known := knownS = "1"
      match a with
      | .mos6502 =>
        match parseMode opsS with
        | some md => s!"{showBytes (Mos6502.expected pc m md known)}\t|\t{showBytes (asmMode pc m md known)}"
        | none => "BADMODE"
      | _ =>
        let items := if opsS = "-" then [] else (opsS.splitOn ",").filter (· ≠ "")
        match items.mapM parseOpnd with
        | none => "BADOPND"
        | some ops =>
          let exp := fun (o : List Opnd) => if a = .z80 then Z80.expected pc m o else Sm83.expected pc m o
          -- `(E)` is a memory operand where the ISA has one in that position; elsewhere the
          -- parentheses are ordinary expression grouping and the operand is read as `E`
          let asImm := ops.map fun o => match o with | .mem v => Opnd.imm v | o => o
          let needsNow := m = "bit" || m = "res" || m = "set" || m = "rst" || m = "im"
          let gate := fun (x : Option (List Nat)) => if !known && needsNow then none else x
          let sp := gate (exp ops)
          -- optional reading: the implementation MAY accept `(E)` as plain grouping; if it does,
          -- the bytes must be those of `E`
          let alt := if asImm != ops then gate (exp asImm) else none
          let altS := match alt with | some b => "ALT\t" ++ hexBytes b | none => "ALT\t-"
          s!"{showBytes sp}\t|\t{showBytes (asmOpnds a pc m ops known)}\t|\t{altS}"
    | _, _ => "BADARGS"
  | _ => "BADARGS"

end Az65.Drv

import Az65.Spec.CExpr
/-
Line-protocol driver for mode `expr` (C04): model evaluator on the node list, Spec on the tree.
-/
namespace Az65.Drv
open Az65 Az65.Spec

def parseNode (t : String) : Option Node :=
  if t.startsWith "v:" then (t.drop 2).toString.toInt?.map fun i => Node.val (BitVec.ofInt 32 i)
  else if t.startsWith "l:" then some (.label (t.drop 2).toString)
  else if t.startsWith "s:" then some (.sizeOf (t.drop 2).toString)
  else match t with
    | "invert" => some .invert | "notLogical" => some .notLogical | "neg" => some .neg
    | "lo" => some .lo | "hi" => some .hi
    | "add" => some .add | "sub" => some .sub | "mul" => some .mul | "div" => some .div
    | "rem" => some .rem | "shl" => some .shl | "shr" => some .shr | "shll" => some .shll
    | "shrl" => some .shrl | "and" => some .and | "or" => some .or | "xor" => some .xor
    | "andLogical" => some .andLogical | "orLogical" => some .orLogical
    | "lt" => some .lt | "le" => some .le | "gt" => some .gt | "ge" => some .ge
    | "eq" => some .eq | "ne" => some .ne | "ternary" => some .ternary
    | _ => none

def parseNodes (s : String) : Option (List Node) :=
  (s.splitOn " ").filter (· ≠ "") |>.mapM parseNode

def parseEnv (s : String) : Option Env :=
  if s = "-" then some [] else
  ((s.splitOn "|").filter (· ≠ "")).mapM fun entry =>
    match entry.splitOn "~" with
    | [name, kind, body, m] => do
      let sym ← match kind with
        | "V" => body.toInt?.map fun i => Sym.val (BitVec.ofInt 32 i)
        | "E" => (parseNodes body).map Sym.expr
        | _ => none
      let metas ← if m = "-" then some [] else do
        let bs ← unhex m
        some [("@SIZEOF", String.ofList (bs.map Char.ofNat))]
      some (name, { sym := sym, metas := metas })
    | _ => none

def parseUn : String → Option UnOp
  | "neg" => some .neg | "pos" => some .pos | "lnot" => some .lnot | "bnot" => some .bnot
  | "lo" => some .lo | "hi" => some .hi | _ => none

def parseBin : String → Option BinOp
  | "lor" => some .lor | "land" => some .land | "bor" => some .bor | "bxor" => some .bxor
  | "band" => some .band | "eq" => some .eq | "ne" => some .ne | "lt" => some .lt
  | "le" => some .le | "gt" => some .gt | "ge" => some .ge | "shl" => some .shl
  | "shr" => some .shr | "shll" => some .shll | "shrl" => some .shrl | "add" => some .add
  | "sub" => some .sub | "mul" => some .mul | "div" => some .div | "rem" => some .rem
  | _ => none

/-- Prefix form: `num i | sym n | sz n | un op e | bin op l r | tern c a b`. -/
def parseTree : Nat → List String → Option (CExpr × List String)
  | 0, _ => none
  | f + 1, ts =>
    match ts with
    | "num" :: v :: r => v.toInt?.map fun i => (.num i, r)
    | "sym" :: n :: r => some (.sym n, r)
    | "sz" :: n :: r => some (.sizeOf n, r)
    | "un" :: o :: r => do
      let op ← parseUn o
      let (e, r') ← parseTree f r
      some (.un op e, r')
    | "bin" :: o :: r => do
      let op ← parseBin o
      let (l, r1) ← parseTree f r
      let (rr, r2) ← parseTree f r1
      some (.bin op l rr, r2)
    | "tern" :: r => do
      let (c, r1) ← parseTree f r
      let (a, r2) ← parseTree f r1
      let (b, r3) ← parseTree f r2
      some (.tern c a b, r3)
    | _ => none

def showRes : Res I32 → String
  | .ok v => s!"OK\t{v.toInt}"
  | .unsolved => "NONE"
  | .crash s => s!"CRASH\t{s}"

/-- Spec valuation read off a *value-only* environment (generator guarantees lazy symbols are
given as trees through `defs`, see below). -/
def specVal (fuel : Nat) (defs : List (String × CExpr)) (sizes : List (String × Int)) : Valuation :=
  match fuel with
  | 0 => ⟨fun _ => none, fun _ => none⟩
  | f + 1 =>
    ⟨fun x => (defs.lookup x).bind (denote (specVal f defs sizes)), fun x => sizes.lookup x⟩

/-- args: env, nodes, tree, defs.  `defs` = `name=tree` joined by `|` (Spec-side definitions of the
names, each a tree; acyclic), sizes are read from the env's `@SIZEOF` metadata by the generator:
`name#int` entries joined by `|` in the same field after a `!`. -/
def runExpr (args : List String) : String :=
  match args with
  | [envS, nodesS, treeS, defsS] =>
    match parseEnv envS, parseNodes nodesS with
    | some env, some nodes =>
      let m := showRes (evaluate env nodes)
      let toks := (treeS.splitOn " ").filter (· ≠ "")
      match parseTree (toks.length + 1) toks with
      | some (t, []) =>
        let (dS, zS) := match defsS.splitOn "!" with
          | [d, z] => (d, z)
          | [d] => (d, "")
          | _ => ("", "")
        let defs := ((dS.splitOn "|").filter (fun e => e ≠ "" ∧ e ≠ "-")).filterMap fun e =>
          match e.splitOn "=" with
          | [n, tr] =>
            let tk := (tr.splitOn " ").filter (· ≠ "")
            match parseTree (tk.length + 1) tk with
            | some (dt, []) => some (n, dt)
            | _ => none
          | _ => none
        let sizes := ((zS.splitOn "|").filter (· ≠ "")).filterMap fun e =>
          match e.splitOn "#" with
          | [n, v] => v.toInt?.map fun i => (n, i)
          | _ => none
        let σ := specVal (defs.length + 1) defs sizes
        let s := match denote σ t with
          | some v => s!"OK\t{v}"
          | none => "NONE"
        let c := if compile t == nodes then "compile-ok" else "compile-MISMATCH"
        s!"{m}\t|\t{s}\t|\t{c}"
      | _ => s!"{m}\t|\tBADTREE\t|\t-"
    | _, _ => "BADCASE"
  | _ => "BADARGS"

end Az65.Drv

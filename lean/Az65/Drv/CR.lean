import Az65.Model.CharReader
import Az65.Basic
/- Line-protocol driver for mode `cr` (C17). -/
namespace Az65.Drv
open Az65 Az65.Spec.Utf8 Az65.Model.CR

def showEnd : End → String
  | .eof => "END" | .utf8 => "UTF8" | .io => "IO"

def showRun (r : List Nat × End) : String :=
  ",".intercalate (r.1.map toString) ++ "\t" ++ showEnd r.2

def parseNatList (s : String) : List Nat :=
  if s = "-" then [] else (s.splitOn ",").filterMap (·.toNat?)

/-- args: hex data, chunk script (`-` = none), fail position (`-` = none).
out: model chars+end | spec chars+end (spec ignores chunking; with a fault it only says "not END") -/
def runCR (args : List String) : String :=
  match args with
  | [hex, chunks, failS] =>
    match unhex hex with
    | none => "BADHEX"
    | some bytes =>
      let script := parseNatList chunks
      let fail := if failS = "-" then none else failS.toNat?
      let fuel := bytes.length + 2
      let m := run fuel (init bytes script fail)
      let s := decodeAll fuel bytes
      s!"{showRun m}\t|\t{showRun s}"
  | _ => "BADARGS"

end Az65.Drv

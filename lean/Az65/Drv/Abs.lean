import Az65.Model.Abs
import Az65.Drv.Asm
import Az65.Drv.Expr
/- Line-protocol driver for mode `abs`: statement-level programs through `Abs.run` + `link`. -/
namespace Az65.Drv
open Az65 Az65.Abs

def nodesOf (s : String) : Option (List Node) := if s = "-" then some [] else parseNodes s

def parsePiece (s : String) : Option Piece :=
  if s.startsWith "l" then (s.drop 1).toString.toNat?.map Piece.lit
  else if s.startsWith "b" then (nodesOf (s.drop 1).toString).map Piece.byte
  else if s.startsWith "w" then (nodesOf (s.drop 1).toString).map Piece.word
  else if s.startsWith "r" then (nodesOf (s.drop 1).toString).map Piece.rel
  else none

def parseMember (s : String) : Option Member :=
  match s.splitOn "/" with
  | ["f", name, e] => (nodesOf e).map (Member.field name)
  | ["p", e] => (nodesOf e).map Member.pad
  | ["a", e] => (nodesOf e).map Member.align
  | _ => none

/-- one statement; fields separated by `:` (node lists use spaces, never `:` except inside
`v:`/`l:`/`s:` atoms, which is why operands come last and are re-joined) -/
def parseStmt (s : String) : Option Stmt :=
  match s.splitOn "|" with
  | ["L", n] => some (.label n)
  | ["O", e] => (nodesOf e).map .org
  | ["S", h] => (unhex h).map .dbStr
  | ["B", e] => (nodesOf e).map .dbVal
  | ["W", e] => (nodesOf e).map .dwVal
  | ["D", sz, fill] => do
    let z ← nodesOf sz
    if fill = "-" then some (.ds z none) else (nodesOf fill).map fun f => .ds z (some f)
  | ["A", e] => (nodesOf e).map .align
  | ["I", h] => (unhex h).map .incbin
  | ["X", ps] => ((ps.splitOn ",").filter (· ≠ "")).mapM parsePiece |>.map .instr
  | ["T", e] => (nodesOf e).map .assert
  | ["DF", keep, n, e] => (nodesOf e).map (.define (keep = "1") n)
  | ["RD", keep, n, e] => (nodesOf e).map (.redefine (keep = "1") n)
  | ["U", n] => some (.undef n)
  | ["G", c] => some (.segment (c = "1"))
  | ["ST", n, ms] => ((ms.splitOn ",").filter (· ≠ "")).mapM parseMember |>.map (.struct n)
  | _ => none

def runAbs (args : List String) : String :=
  match args with
  | [prog] =>
    match ((prog.splitOn ";").filter (· ≠ "")).mapM parseStmt with
    | none => "BADPROG"
    | some stmts =>
      match Abs.run {} stmts with
      | .error e => s!"ERR\t{showEKind e.kind}@0:0:0"
      | .ok s =>
        match link s.core with
        | .error e => s!"ERR\t{showEKind e.kind}@0:0:0"
        | .ok bytes => s!"OK\t{hexBytes bytes}\t{showSymbols s.core}"
  | _ => "BADARGS"

end Az65.Drv

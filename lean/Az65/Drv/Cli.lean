import Az65.Model.Export
import Az65.Drv.Asm
/- Line-protocol driver for mode `cli` (C15, C20): assemble + link + exports + `Cli.main`. -/
namespace Az65.Drv
open Az65

def showLine (l : Export.Line) : String :=
  match l.bank with
  | some b => s!"{b}:{l.value}:{hexOfString l.label}"
  | none => s!"-:{l.value}:{hexOfString l.label}"

def showJson (l : List Export.JsonSym) : String :=
  ",".intercalate (sortStrings (l.map fun j =>
    hexOfString j.name ++ "=" ++ toString j.value ++ "=" ++
      "+".intercalate (sortStrings (j.metas.map fun kv => hexOfString kv.1 ++ ":" ++ hexOfString kv.2))))

def pathExists (fs : FileSys) (p : String) : Bool := fs.isFile p || fs.dirs.contains p

/-- args: arch, cwd, root, search paths (`;`, `-`), files, toFile (0/1, `x` = the -o file cannot be created, `w` = it opens but cannot be written), exports (`nl,sym,json`, `-`; a trailing `!` = that export's file cannot be created)
out: exit \t stdout hex \t ofile hex or `-` \t message 0/1 \t exports written \t export contents… -/
def runCli (args : List String) : String :=
  match args with
  | [archS, cwd, root, sps, files, toFileS, exportsS] =>
    match Arch.ofString archS with
    | none => "BADARCH"
    | some a =>
      let fs := parseFiles files
      let searchPaths := if sps = "-" then [] else (sps.splitOn ";").filter (· ≠ "")
      let toFile := toFileS = "1" || toFileS = "x" || toFileS = "w"
      let kinds := if exportsS = "-" then [] else (exportsS.splitOn ",").filter (· ≠ "")
      let spOk := searchPaths.all fun p => pathExists fs (absolutize cwd p)
      let asmRes := if spOk then assemble a fs searchPaths cwd root 2000000 else .error default
      let (assembleOk, linkRes, core) := match asmRes with
        | .error _ => (false, none, ({} : CoreSt))
        | .ok s => match link s.core with
          | .ok img => (true, some img, s.core)
          | .error _ => (true, none, s.core)
      let exportRes : List (Bool × String) := kinds.map fun k =>
        match k with
        | "json!" => (false, "JSONERR-IO")       -- the export file cannot be created
        | "sym!" => (false, "SYMERR-IO")
        | "nl!" => (false, "NLERR-IO")
        | "json" => match Export.json core with
          | .ok l => (true, "JSON " ++ showJson l)
          | .error n => (false, "JSONERR " ++ hexOfString n)
        | "sym" => match Export.sym core with
          | .ok l => (true, "SYM " ++ ",".intercalate (sortStrings (l.map showLine)))
          | .error n => (false, "SYMERR " ++ hexOfString n)
        | "nl" => match Export.nl core with
          | .ok (ram, prg) => (true, "NL ram=" ++ ",".intercalate (sortStrings (ram.map showLine)) ++
              " prg=" ++ ",".intercalate (sortStrings (prg.map showLine)))
          | .error n => (false, "NLERR " ++ hexOfString n)
        | _ => (false, "BADKIND")
      let out := Cli.main toFile { outputOpens := toFileS ≠ "x", outputWrites := toFileS ≠ "w", searchPathsOk := spOk, assemble := assembleOk, link := linkRes,
                                   exports := exportRes.map (·.1) }
      let of := match out.ofile with | some b => (if b.isEmpty then "empty" else hexBytes b) | none => "-"
      let contents := "\t".intercalate ((exportRes.take out.exportsWritten).map (·.2))
      s!"{out.exit}\t{hexBytes out.stdout}\t{of}\t{if out.message then 1 else 0}\t{out.exportsWritten}\t{contents}"
  | _ => "BADARGS"

end Az65.Drv

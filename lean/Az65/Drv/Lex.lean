import Az65.Model.Tables
import Az65.Model.CharReader
/- Line-protocol driver for mode `lex` (C13, C14, C18): CharReader model + lexer model. -/
namespace Az65.Drv
open Az65

def hexOfString (s : String) : String := hexBytes (utf8OfChars s.toList)

def showTok (a : Arch) (t : LTok) : String :=
  let d := displayTables a
  let body := match t.tok with
    | .comment => "com"
    | .newline => "nl"
    | .str s => s!"str:{hexOfString s}"
    | .num v => s!"num:{v}"
    | .op n => s!"op:{display d.ops n}"
    | .dir n => s!"dir:{display Gen.directiveDisplay n}"
    | .reg n => s!"reg:{display d.regs n}"
    | .flag n => s!"flag:{display d.flags n}"
    | .sym n => s!"sym:{hexOfString (display Gen.symbolDisplay n)}"
    | .label k s =>
      let kk := match k with | .global => "G" | .loc => "L" | .direct => "D"
      s!"lab:{kk}:{hexOfString s}"
  s!"{body}@{t.loc.line}:{t.loc.col}"

def errClass : LexErrKind → String
  | .read true => "io" | .read false => "utf8" | .lineBreak => "linebreak" | .escape => "escape"
  | .charLit => "charlit" | .bin => "bin" | .dec => "dec" | .hex => "hex" | .input => "input"
  | .directive => "directive" | .label => "label" | .crash s => s!"crash:{s}"

/-- Decode bytes to characters with the CharReader model (chunk script irrelevant by C17). -/
def charsOf (bytes : List Nat) : List Char × StreamEnd :=
  let (cps, e) := Az65.Model.CR.run (bytes.length + 2) (Az65.Model.CR.init bytes [] none)
  (cps.map Char.ofNat, match e with | .eof => .eof | .utf8 => .utf8 | .io => .io)

def runLex (args : List String) : String :=
  match args with
  | archS :: hex :: _ =>
    match Arch.ofString archS, unhex hex with
    | some a, some bytes =>
      let (cs, e) := charsOf bytes
      let lx := Lexer.new 0 cs e
      let (toks, err) := lexAll (lexTables a) (cs.length + 4) lx
      let ts := " ".intercalate (toks.map (showTok a))
      match err with
      | none => s!"{ts}\tEND"
      | some er => s!"{ts}\tERR:{errClass er.kind}@{er.loc.line}:{er.loc.col}"
    | _, _ => "BADARGS"
  | _ => "BADARGS"

end Az65.Drv

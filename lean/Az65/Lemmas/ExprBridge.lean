import Az65.Spec.CExpr
/-
Bridge lemmas for C04: each `BitVec 32` operation used by the evaluator model equals the C
operation of `Spec.CExpr` on the `toInt` view.
-/
namespace Az65.Bridge
open Az65 Az65.Spec

theorem u32_toInt (x : I32) : u32 x.toInt = x.toNat := by
  unfold u32; rw [BitVec.toInt_eq_toNat_cond]; have := x.isLt; split <;> omega

theorem wrap_toNat (x : I32) : wrap (x.toNat : Int) = x.toInt := by
  unfold wrap; rw [BitVec.toInt_eq_toNat_cond, Int.bmod_def]; have := x.isLt; split <;> omega

theorem cast_two_pow : ((2 ^ 32 : Nat) : Int) = 4294967296 := by decide

theorem wrap_congr (a b : Int) (h : a % 4294967296 = b % 4294967296) : wrap a = wrap b := by
  unfold wrap; rw [Int.bmod_def, Int.bmod_def, cast_two_pow, h]

theorem toInt_emod (x : I32) : x.toInt % 4294967296 = (x.toNat : Int) % 4294967296 := by
  rw [BitVec.toInt_eq_toNat_cond]; have := x.isLt; split <;> omega

/-- A value is a 32-bit two's-complement integer. -/
def InR (a : Int) : Prop := -2147483648 ≤ a ∧ a < 2147483648

theorem inR_toInt (x : I32) : InR x.toInt := by
  unfold InR; rw [BitVec.toInt_eq_toNat_cond]; have := x.isLt; split <;> omega

theorem toInt_ofInt_of_inR {a : Int} (h : InR a) : (BitVec.ofInt 32 a).toInt = a := by
  unfold InR at h; rw [BitVec.toInt_ofInt, Int.bmod_def, cast_two_pow]; split <;> omega

theorem ofInt_toInt (x : I32) : BitVec.ofInt 32 x.toInt = x := by simp

theorem wrap_inR (a : Int) : InR (wrap a) := by
  unfold InR wrap; rw [Int.bmod_def, cast_two_pow]; split <;> omega

theorem ofInt_wrap (a : Int) : BitVec.ofInt 32 (wrap a) = BitVec.ofInt 32 a := by
  apply BitVec.eq_of_toInt_eq
  rw [BitVec.toInt_ofInt, BitVec.toInt_ofInt]
  show wrap (wrap a) = wrap a
  unfold wrap; simp

theorem shAmt_eq (r : I32) : shAmt r = shCount r.toInt := by
  simp [shAmt, shCount, u32_toInt]

theorem toInt_shl (x : I32) (k : Nat) : (x <<< k).toInt = wrap (x.toInt * 2 ^ k) := by
  rw [BitVec.toInt_shiftLeft, Nat.shiftLeft_eq]
  show wrap _ = _
  apply wrap_congr
  push_cast
  rw [Int.mul_emod, ← toInt_emod, ← Int.mul_emod]

theorem toInt_sshr (x : I32) (k : Nat) : (x.sshiftRight k).toInt = x.toInt / 2 ^ k := by
  rw [BitVec.toInt_sshiftRight, Int.shiftRight_eq_div_pow]; push_cast; rfl

theorem toInt_ushr (x : I32) (k : Nat) :
    (x >>> k).toInt = wrap ((u32 x.toInt / 2 ^ k : Nat) : Int) := by
  rw [u32_toInt, ← Nat.shiftRight_eq_div_pow, ← BitVec.toNat_ushiftRight, wrap_toNat]

theorem toInt_of_toNat_lt (z : I32) (h : z.toNat < 2147483648) : z.toInt = (z.toNat : Int) := by
  rw [BitVec.toInt_eq_toNat_cond]; split <;> omega

theorem toInt_lo (x : I32) : (x &&& 0xFF).toInt = x.toInt % 256 := by
  have h : (x &&& 0xFF).toNat = x.toNat % 256 := by
    rw [BitVec.toNat_and]; exact Nat.and_two_pow_sub_one_eq_mod x.toNat 8
  rw [toInt_of_toNat_lt _ (by rw [h]; omega), h, BitVec.toInt_eq_toNat_cond]
  have := x.isLt; split <;> omega

theorem toInt_hi (x : I32) : ((x >>> 8) &&& 0xFF).toInt = (x.toInt / 256) % 256 := by
  have h : ((x >>> 8) &&& 0xFF).toNat = (x.toNat / 256) % 256 := by
    rw [BitVec.toNat_and, BitVec.toNat_ushiftRight, Nat.shiftRight_eq_div_pow]
    exact Nat.and_two_pow_sub_one_eq_mod _ 8
  rw [toInt_of_toNat_lt _ (by rw [h]; omega), h, BitVec.toInt_eq_toNat_cond]
  have := x.isLt; split <;> omega

theorem beq_eq (x y : I32) : (x == y) = decide (x.toInt = y.toInt) := by
  rw [Bool.eq_iff_iff]; simp [BitVec.toInt_inj]

theorem bne_eq (x y : I32) : (x != y) = decide (x.toInt ≠ y.toInt) := by
  rw [Bool.eq_iff_iff]; simp [BitVec.toInt_inj]

theorem toInt_not (x : I32) : (~~~x).toInt = - x.toInt - 1 := by
  rw [BitVec.toInt_not, BitVec.toInt_eq_toNat_cond, Int.bmod_def]; have := x.isLt; split <;> omega

theorem toInt_and (x y : I32) :
    (x &&& y).toInt = wrap ((u32 x.toInt &&& u32 y.toInt : Nat) : Int) := by
  rw [u32_toInt, u32_toInt, ← BitVec.toNat_and, wrap_toNat]
theorem toInt_or (x y : I32) :
    (x ||| y).toInt = wrap ((u32 x.toInt ||| u32 y.toInt : Nat) : Int) := by
  rw [u32_toInt, u32_toInt, ← BitVec.toNat_or, wrap_toNat]
theorem toInt_xor (x y : I32) :
    (x ^^^ y).toInt = wrap ((u32 x.toInt ^^^ u32 y.toInt : Nat) : Int) := by
  rw [u32_toInt, u32_toInt, ← BitVec.toNat_xor, wrap_toNat]

theorem eq_zero_iff (x : I32) : x = 0#32 ↔ x.toInt = 0 := by
  rw [← BitVec.toInt_inj]; simp

theorem b2i_toInt (b : Bool) : (b2i b).toInt = ofBool b := by
  cases b <;> simp [b2i, ofBool] <;> decide

/-- Unary operators: model on `BitVec 32` = C on `Int`. -/
theorem un_bridge (o : UnOp) (x : I32) :
    (match o.node with
      | some n => (un1 n).map (fun f => (f x).toInt)
      | none => some x.toInt) = some (unSem o x.toInt) := by
  cases o <;> simp only [UnOp.node, un1, unSem, Option.map]
  · simp [wrap, BitVec.toInt_neg]
  · rw [b2i_toInt, beq_eq]; simp
  · rw [toInt_not]
  · rw [toInt_lo]
  · rw [toInt_hi]

/-- Binary operators: model on `BitVec 32` = C on `Int`, including which operands are
"could not be solved". -/
theorem bin_bridge (o : BinOp) (x y : I32) :
    (bin2 o.node).map (fun f => (f x y).map BitVec.toInt) = some (binSem o x.toInt y.toInt) := by
  cases o <;> simp only [BinOp.node, bin2, binSem, Option.map]
  · rw [b2i_toInt]; simp [ofBool, eq_zero_iff]
  · rw [b2i_toInt]; simp [ofBool, eq_zero_iff]
  · rw [toInt_or]
  · rw [toInt_xor]
  · rw [toInt_and]
  · rw [b2i_toInt, beq_eq]
  · rw [b2i_toInt, bne_eq]
  · rw [b2i_toInt, BitVec.slt_eq_decide]
  · rw [b2i_toInt, BitVec.sle_eq_decide]
  · rw [b2i_toInt, BitVec.slt_eq_decide]
  · rw [b2i_toInt, BitVec.sle_eq_decide]
  · rw [toInt_shl, shAmt_eq]
  · rw [toInt_sshr, shAmt_eq]
  · rw [toInt_shl, shAmt_eq]
  · rw [toInt_ushr, shAmt_eq]
  · simp [wrap]
  · simp [wrap]
  · simp [wrap]
  · by_cases h : y = 0
    · simp [h]
    · have h' : y.toInt ≠ 0 := fun e => h ((eq_zero_iff y).2 e)
      simp only [h, h', if_false]; rw [BitVec.toInt_sdiv]; rfl
  · by_cases h : y = 0
    · simp [h]
    · have h' : y.toInt ≠ 0 := fun e => h ((eq_zero_iff y).2 e)
      simp only [h, h', if_false]; rw [BitVec.toInt_srem]

end Az65.Bridge

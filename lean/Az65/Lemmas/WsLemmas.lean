import Az65.Lemmas.LexLemmas
/-
Lemmas for C18 (white-space insensitivity): the lexer's control flow never reads a location and
never looks at the unread input beyond the character it is given.

`Sim a b`   — the two lexer states agree on everything the state machine reads
              (`ending`, `stash`, `state`, `buf`, `eof`); `input`, `loc`, `tokLoc` are free.
`OutRel R`  — two outcomes have the same shape, the same `Tok` / the same error kind, and their
              successor states are related by `R`.
`lexChar_sim` — one iteration maps `Sim` states to `OutRel Sim` outcomes (17 states).
-/
namespace Az65

/-- Equal on every field the state machine reads; `input`, `loc`, `tokLoc` are unconstrained. -/
structure Sim (a b : Lexer) : Prop where
  ending : a.ending = b.ending
  stash : a.stash = b.stash
  state : a.state = b.state
  buf : a.buf = b.buf
  eof : a.eof = b.eof

theorem Sim.rfl' (a : Lexer) : Sim a a := ⟨rfl, rfl, rfl, rfl, rfl⟩

theorem Sim.symm {a b : Lexer} (h : Sim a b) : Sim b a :=
  ⟨h.ending.symm, h.stash.symm, h.state.symm, h.buf.symm, h.eof.symm⟩

theorem Sim.trans {a b c : Lexer} (h : Sim a b) (h' : Sim b c) : Sim a c :=
  ⟨h.ending.trans h'.ending, h.stash.trans h'.stash, h.state.trans h'.state, h.buf.trans h'.buf,
    h.eof.trans h'.eof⟩

/-- Same shape of outcome, same token (location forgotten), same error kind (location forgotten),
successor states related by `R`. -/
def OutRel (R : Lexer → Lexer → Prop) : LexOut → LexOut → Prop
  | .tok t l, .tok t' l' => t.tok = t'.tok ∧ R l l'
  | .err e l, .err e' l' => e.kind = e'.kind ∧ R l l'
  | .done l, .done l' => R l l'
  | .more l, .more l' => R l l'
  | _, _ => False

theorem OutRel.lx {R : Lexer → Lexer → Prop} {o o' : LexOut} (h : OutRel R o o') : R o.lx o'.lx := by
  cases o <;> cases o' <;> first | exact h.2 | exact h | exact h.elim

/-- Change the relation on the successor states. -/
theorem OutRel.mono {R R' : Lexer → Lexer → Prop} {o o' : LexOut} (h : OutRel R o o')
    (hr : R o.lx o'.lx → R' o.lx o'.lx) : OutRel R' o o' := by
  cases o <;> cases o' <;>
    first | exact ⟨h.1, hr h.2⟩ | exact hr h | exact h.elim

theorem OutRel.more_inv {R : Lexer → Lexer → Prop} {o' : LexOut} {l : Lexer}
    (h : OutRel R (.more l) o') : ∃ l', o' = .more l' ∧ R l l' := by
  cases o' <;> first | exact ⟨_, rfl, h⟩ | exact h.elim

theorem OutRel.tok_inv {R : Lexer → Lexer → Prop} {o' : LexOut} {t : LTok} {l : Lexer}
    (h : OutRel R (.tok t l) o') : ∃ t' l', o' = .tok t' l' ∧ t.tok = t'.tok ∧ R l l' := by
  cases o' <;> first | exact ⟨_, _, rfl, h.1, h.2⟩ | exact h.elim

theorem OutRel.err_inv {R : Lexer → Lexer → Prop} {o' : LexOut} {e : LexErr} {l : Lexer}
    (h : OutRel R (.err e l) o') : ∃ e' l', o' = .err e' l' ∧ e.kind = e'.kind ∧ R l l' := by
  cases o' <;> first | exact ⟨_, _, rfl, h.1, h.2⟩ | exact h.elim

theorem OutRel.done_inv {R : Lexer → Lexer → Prop} {o' : LexOut} {l : Lexer}
    (h : OutRel R (.done l) o') : ∃ l', o' = .done l' ∧ R l l' := by
  cases o' <;> first | exact ⟨_, rfl, h⟩ | exact h.elim

/-- `labelOf` uses the location only to stamp its result. -/
theorem labelOf_loc (buf : List Char) (l l' : Loc) :
    (∃ t t', labelOf buf l = .ok t ∧ labelOf buf l' = .ok t' ∧ t.tok = t'.tok) ∨
    (∃ e e', labelOf buf l = .error e ∧ labelOf buf l' = .error e' ∧ e.kind = e'.kind) := by
  unfold labelOf; dsimp only
  split
  · exact Or.inl ⟨_, _, rfl, rfl, rfl⟩
  · split
    · exact Or.inl ⟨_, _, rfl, rfl, rfl⟩
    · exact Or.inl ⟨_, _, rfl, rfl, rfl⟩
  · exact Or.inr ⟨_, _, rfl, rfl, rfl⟩

theorem labelOf_ok_ok {buf : List Char} {l l' : Loc} {t t' : LTok}
    (h : labelOf buf l = .ok t) (h' : labelOf buf l' = .ok t') : t.tok = t'.tok := by
  rcases labelOf_loc buf l l' with ⟨_, _, e1, e2, e3⟩ | ⟨_, _, e1, _, _⟩
  · rw [e1] at h; rw [e2] at h'; cases h; cases h'; exact e3
  · rw [e1] at h; cases h

theorem labelOf_err_err {buf : List Char} {l l' : Loc} {e e' : LexErr}
    (h : labelOf buf l = .error e) (h' : labelOf buf l' = .error e') : e.kind = e'.kind := by
  rcases labelOf_loc buf l l' with ⟨_, _, e1, _, _⟩ | ⟨_, _, e1, e2, e3⟩
  · rw [e1] at h; cases h
  · rw [e1] at h; rw [e2] at h'; cases h; cases h'; exact e3

theorem labelOf_ok_err {buf : List Char} {l l' : Loc} {t : LTok} {e : LexErr}
    (h : labelOf buf l = .ok t) (h' : labelOf buf l' = .error e) : False := by
  rcases labelOf_loc buf l l' with ⟨_, _, _, e2, _⟩ | ⟨_, _, e1, _, _⟩
  · rw [e2] at h'; cases h'
  · rw [e1] at h; cases h

/-- **Locations (and the unread input) never steer one iteration.**  From two states that agree on
`ending`, `stash`, `state`, `buf`, `eof`, the same character gives outcomes of the same shape, with
the same `Tok` / error kind, and successor states that again agree on those fields. -/
theorem lexChar_sim (T : LexTables) {a b : Lexer} (c : Char) (h : Sim a b) :
    OutRel Sim (lexChar T a c) (lexChar T b c) := by
  obtain ⟨i1, en1, l1, tl1, st1, s1, bf1, eo1⟩ := a
  obtain ⟨i2, en2, l2, tl2, st2, s2, bf2, eo2⟩ := b
  obtain ⟨h1, h2, h3, h4, h5⟩ := h
  dsimp only at h1 h2 h3 h4 h5
  subst h1 h2 h3 h4 h5
  cases s1
  case initial =>
    unfold lexChar; dsimp only
    by_cases c0 : (c == '\n') = true
    · rw [if_pos c0, if_pos c0]; exact ⟨rfl, rfl, rfl, rfl, rfl, rfl⟩
    rw [if_neg c0, if_neg c0]
    by_cases c1 : isWs c = true
    · rw [if_pos c1, if_pos c1]; exact ⟨rfl, rfl, rfl, rfl, rfl⟩
    rw [if_neg c1, if_neg c1]
    by_cases c2 : (c == ';') = true
    · rw [if_pos c2, if_pos c2]; exact ⟨rfl, rfl, rfl, rfl, rfl⟩
    rw [if_neg c2, if_neg c2]
    by_cases c3 : (c == '"') = true
    · rw [if_pos c3, if_pos c3]; exact ⟨rfl, rfl, rfl, rfl, rfl⟩
    rw [if_neg c3, if_neg c3]
    by_cases c4 : (c == '\'') = true
    · rw [if_pos c4, if_pos c4]; exact ⟨rfl, rfl, rfl, rfl, rfl⟩
    rw [if_neg c4, if_neg c4]
    by_cases c5 : (c == '%') = true
    · rw [if_pos c5, if_pos c5]; exact ⟨rfl, rfl, rfl, rfl, rfl⟩
    rw [if_neg c5, if_neg c5]
    by_cases c6 : ('0' ≤ c && c ≤ '9') = true
    · rw [if_pos c6, if_pos c6]; exact ⟨rfl, rfl, rfl, rfl, rfl⟩
    rw [if_neg c6, if_neg c6]
    by_cases c7 : (c == '$') = true
    · rw [if_pos c7, if_pos c7]; exact ⟨rfl, rfl, rfl, rfl, rfl⟩
    rw [if_neg c7, if_neg c7]
    by_cases c8 : T.symbolStarts.contains c.toNat = true
    · rw [if_pos c8, if_pos c8]; exact ⟨rfl, rfl, rfl, rfl, rfl⟩
    rw [if_neg c8, if_neg c8]
    by_cases c9 : (c == '@') = true
    · rw [if_pos c9, if_pos c9]; exact ⟨rfl, rfl, rfl, rfl, rfl⟩
    rw [if_neg c9, if_neg c9]
    by_cases c10 : isIdentChar c = true
    · rw [if_pos c10, if_pos c10]; exact ⟨rfl, rfl, rfl, rfl, rfl⟩
    rw [if_neg c10, if_neg c10]
    exact ⟨rfl, rfl, rfl, rfl, rfl, rfl⟩
  all_goals (unfold lexChar; dsimp only; (repeat' split) <;>
    first
    | exact ⟨rfl, rfl, rfl, rfl, rfl, rfl⟩
    | exact ⟨rfl, rfl, rfl, rfl, rfl⟩
    | exact ⟨labelOf_ok_ok ‹labelOf bf1 tl1 = .ok _› ‹labelOf bf1 tl2 = .ok _›, rfl, rfl, rfl, rfl, rfl⟩
    | exact ⟨labelOf_err_err ‹labelOf bf1 tl1 = .error _› ‹labelOf bf1 tl2 = .error _›, rfl, rfl, rfl, rfl, rfl⟩
    | exact (labelOf_ok_err ‹labelOf bf1 tl1 = .ok _› ‹labelOf bf1 tl2 = .error _›).elim
    | exact (labelOf_ok_err ‹labelOf bf1 tl2 = .ok _› ‹labelOf bf1 tl1 = .error _›).elim)

/-! ### lock-step runs on inputs that differ by a suffix -/

/-- `b` is `a` with `q` appended to the unread input (and arbitrary locations). -/
def Ext (q : List Char) (a b : Lexer) : Prop := Sim a b ∧ b.input = a.input ++ q

/-- One iteration, inputs carried along (`lexChar` never touches `input`). -/
theorem lexChar_ext (T : LexTables) {q : List Char} {a b : Lexer} (c : Char) (h : Ext q a b) :
    OutRel (Ext q) (lexChar T a c) (lexChar T b c) := by
  refine (lexChar_sim T c h.1).mono fun hs => ⟨hs, ?_⟩
  rw [(lexChar_frame T a c).1, (lexChar_frame T b c).1]; exact h.2

/-- **The character fetch in lock step.**  If `b` is `a` with more input appended, then as long as
`a` still has a character to process (stashed or unread) — or nothing was appended — one
fetch-and-iterate step gives outcomes of the same shape, same `Tok`, same error kind, and the
successor states are again related in the same way. -/
theorem lexStep_ext (T : LexTables) {q : List Char} {a b : Lexer} (h : Ext q a b)
    (hne : a.stash ≠ none ∨ a.input ≠ [] ∨ q = []) :
    OutRel (Ext q) (lexStep T a) (lexStep T b) := by
  obtain ⟨hs, hi⟩ := h
  cases hsa : a.stash with
  | some c =>
    have hsb : b.stash = some c := by rw [← hs.stash]; exact hsa
    rw [lexStep_stash hsa, lexStep_stash hsb]
    exact lexChar_ext T c ⟨⟨hs.ending, rfl, hs.state, hs.buf, hs.eof⟩, hi⟩
  | none =>
    have hsb : b.stash = none := by rw [← hs.stash]; exact hsa
    cases hia : a.input with
    | cons c rest =>
      have hib : b.input = c :: (rest ++ q) := by rw [hi, hia]; rfl
      rw [lexStep_cons hsa hia, lexStep_cons hsb hib]
      exact lexChar_ext T c ⟨⟨hs.ending, hs.stash, hs.state, hs.buf, hs.eof⟩, rfl⟩
    | nil =>
      have hq : q = [] := by
        rcases hne with h | h | h
        · exact absurd hsa h
        · exact absurd hia h
        · exact h
      subst hq
      have hib : b.input = [] := by rw [hi, hia]; rfl
      have hx : Ext [] a b := ⟨hs, hi⟩
      cases hea : a.ending with
      | utf8 =>
        rw [lexStep_utf8 hsa hia hea, lexStep_utf8 hsb hib (hs.ending ▸ hea)]
        exact ⟨rfl, hx⟩
      | io =>
        rw [lexStep_io hsa hia hea, lexStep_io hsb hib (hs.ending ▸ hea)]
        exact ⟨rfl, hx⟩
      | eof =>
        cases hfa : a.eof with
        | true =>
          rw [lexStep_done hsa hia hea hfa, lexStep_done hsb hib (hs.ending ▸ hea) (hs.eof ▸ hfa)]
          exact hx
        | false =>
          rw [lexStep_flush hsa hia hea hfa, lexStep_flush hsb hib (hs.ending ▸ hea) (hs.eof ▸ hfa)]
          exact lexChar_ext T _ ⟨⟨hs.ending, hs.stash, hs.state, hs.buf, rfl⟩, by
            show b.input = a.input ++ []; exact hi⟩

/-- Once the end-of-input flush has happened it stays recorded. -/
theorem lexStep_eof_mono (T : LexTables) {lx : Lexer} (h : lx.eof = true) :
    (lexStep T lx).lx.eof = true := by
  cases hs : lx.stash with
  | some c => rw [lexStep_stash hs, (lexChar_frame T _ c).2.2.2]; exact h
  | none =>
    cases hi : lx.input with
    | cons c rest => rw [lexStep_cons hs hi, (lexChar_frame T _ c).2.2.2]; exact h
    | nil =>
      cases he : lx.ending with
      | utf8 => rw [lexStep_utf8 hs hi he]; exact h
      | io => rw [lexStep_io hs hi he]; exact h
      | eof => rw [lexStep_done hs hi he h]; exact h

/-- With nothing stashed and nothing unread, a step that goes on (`more` / a token) has performed
the end-of-input flush. -/
theorem lexStep_at_end (T : LexTables) {lx : Lexer} (hs : lx.stash = none) (hi : lx.input = []) :
    (∃ e l, lexStep T lx = .err e l) ∨ (∃ l, lexStep T lx = .done l) ∨
    (lexStep T lx).lx.eof = true := by
  cases he : lx.ending with
  | utf8 => rw [lexStep_utf8 hs hi he]; exact Or.inl ⟨_, _, rfl⟩
  | io => rw [lexStep_io hs hi he]; exact Or.inl ⟨_, _, rfl⟩
  | eof =>
    cases hf : lx.eof with
    | true => rw [lexStep_done hs hi he hf]; exact Or.inr (Or.inl ⟨_, rfl⟩)
    | false => rw [lexStep_flush hs hi he hf, (lexChar_frame T _ _).2.2.2]; exact Or.inr (Or.inr rfl)

end Az65

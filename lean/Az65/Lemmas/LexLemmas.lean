import Az65.Model.Lexer
/-
Lemmas about one iteration of the lexer state machine (`lexChar`): what it can and cannot change.
Shared by `Az65.Thm.C13` and `Az65.Thm.C14`.
-/
namespace Az65

/-- The lexer state carried by any outcome. -/
def LexOut.lx : LexOut → Lexer
  | .tok _ l => l
  | .err _ l => l
  | .done l => l
  | .more l => l

/-- `P` holds of the token, if the outcome is a token. -/
def LexOut.TokP (P : LTok → Prop) : LexOut → Prop
  | .tok t _ => P t
  | _ => True

/-- `P` holds of the error, if the outcome is an error. -/
def LexOut.ErrP (P : LexErr → Prop) : LexOut → Prop
  | .err e _ => P e
  | _ => True

theorem LexOut.TokP_of_eq {P : LTok → Prop} {o : LexOut} {t lx'} (h : o.TokP P) (e : o = .tok t lx') : P t := by
  subst e; exact h

theorem LexOut.ErrP_of_eq {P : LexErr → Prop} {o : LexOut} {x lx'} (h : o.ErrP P) (e : o = .err x lx') : P x := by
  subst e; exact h

/-- Which character can have opened the token that is being built in state `s`. -/
def startsToken (T : LexTables) : LState → Char → Bool
  | .initial, _ => false
  | .inComment, c => c == ';'
  | .inString, c => c == '"'
  | .inStringEscape, c => c == '"'
  | .inHexStringEscape1, c => c == '"'
  | .inHexStringEscape2, c => c == '"'
  | .inChar, c => c == '\''
  | .inCharEscape, c => c == '\''
  | .inHexCharEscape1, c => c == '\''
  | .inHexCharEscape2, c => c == '\''
  | .inNumber2, c => c == '%'
  | .inNumber10, c => '0' ≤ c && c ≤ '9'
  | .inNumber16, c => c == '$'
  | .inSymbol, c => T.symbolStarts.contains c.toNat
  | .inShiftSymbol, c => T.symbolStarts.contains c.toNat
  | .inDirective, c => c == '@'
  | .inIdentifier, c => isIdentChar c

/-- Complete description of one iteration from the `initial` state. -/
theorem lexChar_initial (T : LexTables) (lx : Lexer) (c : Char) (h : lx.state = .initial) :
    (c = '\n' ∧ lexChar T lx c = .tok ⟨.newline, lx.loc⟩ lx) ∨
    (lexChar T lx c = .more lx) ∨
    (∃ s b, s ≠ .initial ∧ s ≠ .inShiftSymbol ∧ startsToken T s c = true ∧
      lexChar T lx c = .more { lx with state := s, tokLoc := lx.loc, buf := b }) ∨
    (lexChar T lx c = .err ⟨.input, lx.loc⟩ lx) := by
  obtain ⟨input, ending, loc, tokLoc, stash, state, buf, eof⟩ := lx
  dsimp only at h; subst h
  unfold lexChar; dsimp only
  by_cases h1 : (c == '\n') = true
  · rw [if_pos h1]; exact Or.inl ⟨by simpa using h1, rfl⟩
  rw [if_neg h1]
  by_cases h2 : isWs c = true
  · rw [if_pos h2]; exact Or.inr (Or.inl rfl)
  rw [if_neg h2]
  by_cases h3 : (c == ';') = true
  · rw [if_pos h3]; exact Or.inr (Or.inr (Or.inl ⟨.inComment, buf, by decide, by decide, h3, rfl⟩))
  rw [if_neg h3]
  by_cases h4 : (c == '"') = true
  · rw [if_pos h4]; exact Or.inr (Or.inr (Or.inl ⟨.inString, [], by decide, by decide, h4, rfl⟩))
  rw [if_neg h4]
  by_cases h5 : (c == '\'') = true
  · rw [if_pos h5]; exact Or.inr (Or.inr (Or.inl ⟨.inChar, [], by decide, by decide, h5, rfl⟩))
  rw [if_neg h5]
  by_cases h6 : (c == '%') = true
  · rw [if_pos h6]; exact Or.inr (Or.inr (Or.inl ⟨.inNumber2, [], by decide, by decide, h6, rfl⟩))
  rw [if_neg h6]
  by_cases h7 : ('0' ≤ c && c ≤ '9') = true
  · rw [if_pos h7]; exact Or.inr (Or.inr (Or.inl ⟨.inNumber10, [c], by decide, by decide, h7, rfl⟩))
  rw [if_neg h7]
  by_cases h8 : (c == '$') = true
  · rw [if_pos h8]; exact Or.inr (Or.inr (Or.inl ⟨.inNumber16, [], by decide, by decide, h8, rfl⟩))
  rw [if_neg h8]
  by_cases h9 : T.symbolStarts.contains c.toNat = true
  · rw [if_pos h9]; exact Or.inr (Or.inr (Or.inl ⟨.inSymbol, [c], by decide, by decide, h9, rfl⟩))
  rw [if_neg h9]
  by_cases h10 : (c == '@') = true
  · rw [if_pos h10]; exact Or.inr (Or.inr (Or.inl ⟨.inDirective, [c], by decide, by decide, h10, rfl⟩))
  rw [if_neg h10]
  by_cases h11 : isIdentChar c = true
  · rw [if_pos h11]; exact Or.inr (Or.inr (Or.inl ⟨.inIdentifier, [c], by decide, by decide, h11, rfl⟩))
  rw [if_neg h11]
  exact Or.inr (Or.inr (Or.inr rfl))

theorem labelOf_ok {buf : List Char} {loc : Loc} {t : LTok} (h : labelOf buf loc = .ok t) :
    t.loc = loc ∧ ∃ k s, t.tok = .label k s := by
  unfold labelOf at h; dsimp only at h
  split at h
  · cases h; exact ⟨rfl, _, _, rfl⟩
  · split at h <;> (cases h; exact ⟨rfl, _, _, rfl⟩)
  · cases h

theorem labelOf_err {buf : List Char} {loc : Loc} {e : LexErr} (h : labelOf buf loc = .error e) :
    e = ⟨.label, loc⟩ := by
  unfold labelOf at h; dsimp only at h
  split at h
  · cases h
  · split at h <;> cases h
  · cases h; rfl

/-- One iteration never touches the remaining input, the current location, the stream end or
the end-of-input flag (those belong to the character fetch, `lexStep`). -/
theorem lexChar_frame (T : LexTables) (lx : Lexer) (c : Char) :
    (lexChar T lx c).lx.input = lx.input ∧ (lexChar T lx c).lx.loc = lx.loc ∧
    (lexChar T lx c).lx.ending = lx.ending ∧ (lexChar T lx c).lx.eof = lx.eof := by
  by_cases hs : lx.state = .initial
  · rcases lexChar_initial T lx c hs with ⟨_, h⟩ | h | ⟨s, b, _, _, _, h⟩ | h <;> rw [h] <;>
      exact ⟨rfl, rfl, rfl, rfl⟩
  · obtain ⟨input, ending, loc, tokLoc, stash, state, buf, eof⟩ := lx
    cases state
    · exact absurd rfl hs
    all_goals (unfold lexChar; dsimp only; (repeat' split) <;> exact ⟨rfl, rfl, rfl, rfl⟩)

/-- One iteration leaves the stash alone, refills it with the character just processed, or (the
`af'` case) empties it. -/
theorem lexChar_stash (T : LexTables) (lx : Lexer) (c : Char) (h0 : lx.stash = none) :
    (lexChar T lx c).lx.stash = none ∨ (lexChar T lx c).lx.stash = some c := by
  by_cases hs : lx.state = .initial
  · rcases lexChar_initial T lx c hs with ⟨_, h⟩ | h | ⟨s, b, _, _, _, h⟩ | h <;> rw [h] <;>
      exact Or.inl h0
  · obtain ⟨input, ending, loc, tokLoc, stash, state, buf, eof⟩ := lx
    dsimp only at h0; subst h0
    cases state
    · exact absurd rfl hs
    all_goals (unfold lexChar; dsimp only; (repeat' split) <;> first | exact Or.inl rfl | exact Or.inr rfl)

end Az65

namespace Az65

/-! ### the character fetch (`lexStep`), case by case -/

/-- `loc` after fetching the character `c`. -/
def stepLoc (l : Loc) (c : Char) : Loc :=
  if c == '\n' then { l with line := l.line + 1, col := 0 } else { l with col := l.col + 1 }

theorem lexStep_stash {T : LexTables} {lx : Lexer} {c : Char} (h : lx.stash = some c) :
    lexStep T lx = lexChar T { lx with stash := none } c := by
  simp only [lexStep, h]

theorem lexStep_cons {T : LexTables} {lx : Lexer} {c : Char} {rest : List Char}
    (hs : lx.stash = none) (hi : lx.input = c :: rest) :
    lexStep T lx = lexChar T { lx with input := rest, loc := stepLoc lx.loc c } c := by
  simp only [lexStep, hs, hi, stepLoc]

theorem lexStep_flush {T : LexTables} {lx : Lexer}
    (hs : lx.stash = none) (hi : lx.input = []) (he : lx.ending = .eof) (hf : lx.eof = false) :
    lexStep T lx =
      lexChar T { lx with eof := true, loc := { lx.loc with line := lx.loc.line + 1, col := 0 } } '\n' := by
  simp [lexStep, hs, hi, he, hf]

theorem lexStep_done {T : LexTables} {lx : Lexer}
    (hs : lx.stash = none) (hi : lx.input = []) (he : lx.ending = .eof) (hf : lx.eof = true) :
    lexStep T lx = .done lx := by
  simp [lexStep, hs, hi, he, hf]

theorem lexStep_utf8 {T : LexTables} {lx : Lexer}
    (hs : lx.stash = none) (hi : lx.input = []) (he : lx.ending = .utf8) :
    lexStep T lx = .err ⟨.read false, lx.loc⟩ lx := by
  simp only [lexStep, hs, hi, he]

theorem lexStep_io {T : LexTables} {lx : Lexer}
    (hs : lx.stash = none) (hi : lx.input = []) (he : lx.ending = .io) :
    lexStep T lx = .err ⟨.read true, lx.loc⟩ lx := by
  simp only [lexStep, hs, hi, he]

theorem Lexer.next_zero (T : LexTables) (lx : Lexer) : Lexer.next T 0 lx = .done lx := rfl

theorem Lexer.next_more {T : LexTables} {lx lx' : Lexer} (f : Nat) (h : lexStep T lx = .more lx') :
    Lexer.next T (f + 1) lx = Lexer.next T f lx' := by
  simp only [Lexer.next, h]

theorem Lexer.next_stop {T : LexTables} {lx : Lexer} (f : Nat) (h : ∀ lx', lexStep T lx ≠ .more lx') :
    Lexer.next T (f + 1) lx = lexStep T lx := by
  unfold Lexer.next
  split
  · rename_i lx' h'; exact absurd h' (h lx')
  · rfl

end Az65

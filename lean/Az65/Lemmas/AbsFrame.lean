import Az65.Model.Abs
/-
Helper lemmas about the statement-level model (`Model/Abs.lean`) shared by the C06 and C07
property files:

* frame lemmas — which components of the core state `touch`, `resolve`, `piece`, `pieces`,
  `member`, `members` leave alone;
* inversion lemmas — for each statement kind, what a successful `exec` consists of (which effect
  function ran on which state with which value);
* `Env.get` after `Env.set`.
-/
namespace Az65.AbsFrame
open Az65 Az65.Abs

/-! ### the symbol table as an association list -/

theorem get_set_self (env : Env) (n : String) (e : Entry) : Env.get (Env.set env n e) n = some e := by
  induction env with
  | nil => simp [Env.set, Env.get]
  | cons kv r ih =>
    obtain ⟨k, v⟩ := kv
    simp only [Env.set]
    split
    · next hk => simp [Env.get, hk]
    · next hk => simp [Env.get, hk, ih]

theorem get_set_of_ne (env : Env) (n m : String) (e : Entry) (h : n ≠ m) :
    Env.get (Env.set env n e) m = Env.get env m := by
  induction env with
  | nil => simp [Env.set, Env.get, h]
  | cons kv r ih =>
    obtain ⟨k, v⟩ := kv
    simp only [Env.set]
    split
    · next hk => subst hk; simp [Env.get, h]
    · next hk => simp only [Env.get, ih]

theorem get_remove_of_ne (env : Env) (n m : String) (h : n ≠ m) :
    Env.get (Env.remove env n) m = Env.get env m := by
  induction env with
  | nil => rfl
  | cons kv r ih =>
    obtain ⟨k, v⟩ := kv
    unfold Env.remove at ih ⊢
    simp only [ne_eq, decide_not] at ih ⊢
    by_cases hk : k = n
    · subst hk; simp [Env.get, h, ih]
    · simp [hk, Env.get, ih]

/-- Adding a name that was absent does not disturb any entry that was present. -/
theorem get_set_of_absent (env : Env) (n m : String) (e x : Entry)
    (habs : (Env.get env n).isSome = false) (hm : Env.get env m = some x) :
    Env.get (Env.set env n e) m = some x := by
  by_cases h : n = m
  · subst h; rw [hm] at habs; cases habs
  · rw [get_set_of_ne env n m e h, hm]

/-! ### frame lemmas -/

theorem touch_inv {α} (f : CoreSt → α) (hf : ∀ (c : CoreSt) h, f { c with hits := h } = f c)
    (c : CoreSt) (n : String) (loc : Loc) : f (c.touch n loc) = f c := by
  unfold CoreSt.touch; split
  · rfl
  · exact hf c _

/-- `resolve` only records first references. -/
theorem resolve_inv {α} (f : CoreSt → α) (hf : ∀ (c : CoreSt) h, f { c with hits := h } = f c)
    (c : CoreSt) (e : List Node) : f (resolve c e).1 = f c := by
  induction e generalizing c with
  | nil => rfl
  | cons x r ih =>
    cases x <;> simp only [resolve]
    all_goals first
      | exact ih c
      | (rw [ih]; exact touch_inv f hf _ _ _)
      | (split
         · exact ih c
         · rw [ih]; exact touch_inv f hf _ _ _)

/-- A component of the core state that reference recording, byte emission and link recording
leave alone. -/
structure Frame {α} (f : CoreSt → α) : Prop where
  hits : ∀ (c : CoreSt) h, f { c with hits := h } = f c
  push : ∀ (c : CoreSt) b, f (c.push b) = f c
  link : ∀ (c : CoreSt) l, f (c.addLink l) = f c

theorem frame_here : Frame (·.here) := ⟨fun _ _ => rfl, fun _ _ => rfl, fun _ _ => rfl⟩
theorem frame_symtab : Frame (·.symtab) := ⟨fun _ _ => rfl, fun _ _ => rfl, fun _ _ => rfl⟩
theorem frame_ns : Frame (·.ns) := ⟨fun _ _ => rfl, fun _ _ => rfl, fun _ _ => rfl⟩
theorem frame_curMeta : Frame (·.curMeta) := ⟨fun _ _ => rfl, fun _ _ => rfl, fun _ _ => rfl⟩

theorem resolve_here (c : CoreSt) (e : List Node) : (resolve c e).1.here = c.here :=
  resolve_inv (·.here) (fun _ _ => rfl) c e
theorem resolve_dataRev (c : CoreSt) (e : List Node) : (resolve c e).1.dataRev = c.dataRev :=
  resolve_inv (·.dataRev) (fun _ _ => rfl) c e
theorem resolve_symtab (c : CoreSt) (e : List Node) : (resolve c e).1.symtab = c.symtab :=
  resolve_inv (·.symtab) (fun _ _ => rfl) c e
theorem resolve_links (c : CoreSt) (e : List Node) : (resolve c e).1.links = c.links :=
  resolve_inv (·.links) (fun _ _ => rfl) c e
theorem resolve_data (c : CoreSt) (e : List Node) : (resolve c e).1.data = c.data :=
  resolve_inv (·.data) (fun _ _ => rfl) c e
theorem resolve_dataLen (c : CoreSt) (e : List Node) : (resolve c e).1.dataLen = c.dataLen :=
  resolve_inv (·.dataLen) (fun _ _ => rfl) c e

theorem resolve_inv' {α} {f : CoreSt → α} (hf : ∀ (c : CoreSt) h, f { c with hits := h } = f c)
    {c : CoreSt} {e : List Node} {c1 e1} (hr : resolve c e = (c1, e1)) : f c1 = f c := by
  have := resolve_inv f hf c e
  rw [hr] at this; exact this

/-- The four ways a piece can succeed, with the state after `resolve` made explicit. -/
theorem piece_inv {α} {f : CoreSt → α} (hf : Frame f) {c c' : CoreSt} {p : Piece}
    (h : piece c p = .ok c') : f c' = f c := by
  cases p with
  | lit b => simp only [piece] at h; cases h; exact hf.push _ _
  | byte e =>
    simp only [piece] at h
    generalize hr : resolve c e = r at h
    obtain ⟨c1, e1⟩ := r
    have h1 := resolve_inv' hf.hits hr
    simp only at h
    split at h
    · cases h
    · split at h
      · cases h
      · cases h; rw [hf.push, h1]
    · cases h; rw [hf.push, hf.link, h1]
  | word e =>
    simp only [piece] at h
    generalize hr : resolve c e = r at h
    obtain ⟨c1, e1⟩ := r
    have h1 := resolve_inv' hf.hits hr
    simp only at h
    split at h
    · cases h
    · split at h
      · cases h
      · cases h; rw [hf.push, hf.push, h1]
    · cases h; rw [hf.push, hf.push, hf.link, h1]
  | rel e =>
    simp only [piece] at h
    generalize hr : resolve c e = r at h
    obtain ⟨c1, e1⟩ := r
    have h1 := resolve_inv' hf.hits hr
    simp only at h
    split at h
    · cases h
    · split at h
      · cases h
      · cases h; rw [hf.push, h1]
    · cases h; rw [hf.push, hf.link, h1]

theorem pieces_cons {c c' : CoreSt} {p : Piece} {r : List Piece} (h : pieces c (p :: r) = .ok c') :
    ∃ c1, piece c p = .ok c1 ∧ pieces c1 r = .ok c' := by
  simp only [pieces] at h
  split at h
  · cases h
  · next c1 hp => exact ⟨c1, hp, h⟩

theorem pieces_inv {α} {f : CoreSt → α} (hf : Frame f) {c c' : CoreSt} {ps : List Piece}
    (h : pieces c ps = .ok c') : f c' = f c := by
  induction ps generalizing c with
  | nil => simp only [pieces] at h; cases h; rfl
  | cons p r ih =>
    obtain ⟨c1, hp, hr⟩ := pieces_cons h
    rw [ih hr, piece_inv hf hp]

/-- Struct members only record references and add symbols. -/
theorem member_inv {α} {f : CoreSt → α} (hh : ∀ (c : CoreSt) h, f { c with hits := h } = f c)
    (hs : ∀ (c : CoreSt) t, f { c with symtab := t } = f c)
    {sname : String} {c c' : CoreSt} {size size' : I32} {m : Member}
    (h : member sname c size m = .ok (c', size')) : f c' = f c := by
  cases m with
  | field name sz =>
    simp only [member] at h
    generalize hr : resolve c sz = r at h
    obtain ⟨c1, e1⟩ := r
    have h1 := resolve_inv' hh hr
    simp only at h
    split at h
    · cases h
    · cases h
    · simp only [Eff.structField] at h
      split at h
      · cases h
      · cases h; rw [← h1]; exact hs _ _
  | pad sz =>
    simp only [member] at h
    generalize hr : resolve c sz = r at h
    obtain ⟨c1, e1⟩ := r
    have h1 := resolve_inv' hh hr
    simp only at h
    split at h
    · cases h
    · cases h
    · cases h; exact h1
  | align al =>
    simp only [member] at h
    generalize hr : resolve c al = r at h
    obtain ⟨c1, e1⟩ := r
    have h1 := resolve_inv' hh hr
    simp only at h
    split at h
    · cases h
    · cases h
    · split at h
      · cases h
      · cases h; exact h1

theorem members_cons {sname : String} {c c' : CoreSt} {size size' : I32} {m : Member}
    {r : List Member} (h : members sname c size (m :: r) = .ok (c', size')) :
    ∃ c1 size1, member sname c size m = .ok (c1, size1) ∧ members sname c1 size1 r = .ok (c', size') := by
  simp only [members] at h
  split at h
  · cases h
  · next c1 s1 hp => exact ⟨c1, s1, hp, h⟩

theorem members_inv {α} {f : CoreSt → α} (hh : ∀ (c : CoreSt) h, f { c with hits := h } = f c)
    (hs : ∀ (c : CoreSt) t, f { c with symtab := t } = f c)
    {sname : String} {c c' : CoreSt} {size size' : I32} {ms : List Member}
    (h : members sname c size ms = .ok (c', size')) : f c' = f c := by
  induction ms generalizing c size with
  | nil => simp only [members] at h; cases h; rfl
  | cons m r ih =>
    obtain ⟨c1, s1, hm, hr⟩ := members_cons h
    rw [ih hr, member_inv hh hs hm]

/-! ### inversion of `exec` -/

theorem map_ok {x : Except Err CoreSt} {s s' : State}
    (h : (x.map fun c => ({ s with core := c } : State)) = .ok s') :
    ∃ c, x = .ok c ∧ s' = { s with core := c } := by
  cases x with
  | error e => cases h
  | ok c => exact ⟨c, rfl, by cases h; rfl⟩

theorem exec_label {s s' : State} {d : String} (h : exec s (.label d) = .ok s') :
    ∃ c', Eff.label s.core d {} = .ok c' ∧ s' = { s with core := c' } := by
  simp only [exec] at h; exact map_ok h

theorem exec_org {s s' : State} {e : List Node} (h : exec s (.org e) = .ok s') :
    ∃ v c', ev (resolve s.core e).1 (resolve s.core e).2 = .ok v ∧
      Eff.org (resolve s.core e).1 v {} = .ok c' ∧ s' = { s with core := c' } := by
  simp only [exec] at h
  generalize resolve s.core e = r at h ⊢
  obtain ⟨c1, e1⟩ := r
  simp only at h ⊢
  split at h
  · cases h
  · next v hv => exact ⟨v, (map_ok h).choose, hv, (map_ok h).choose_spec⟩

theorem exec_dbStr {s s' : State} {bytes : List Nat} (h : exec s (.dbStr bytes) = .ok s') :
    (s.code = true ∧ ∃ c', Eff.dbStr s.core bytes {} = .ok c' ∧ s' = { s with core := c' }) ∨
    (s.code = false ∧ ∃ c', Eff.skip s.core 1 {} = .ok c' ∧ s' = { s with core := c' }) := by
  simp only [exec] at h
  split at h
  · next hc => exact .inl ⟨hc, map_ok h⟩
  · next hc => exact .inr ⟨by simpa using hc, map_ok h⟩

theorem exec_dbVal {s s' : State} {e : List Node} (h : exec s (.dbVal e) = .ok s') :
    (s.code = true ∧ ∃ v c', ev (resolve s.core e).1 (resolve s.core e).2 = .ok v ∧
      Eff.dbVal (resolve s.core e).1 v (resolve s.core e).2 {} = .ok c' ∧ s' = { s with core := c' }) ∨
    (s.code = false ∧ ∃ c', Eff.skip s.core 1 {} = .ok c' ∧ s' = { s with core := c' }) := by
  simp only [exec] at h
  split at h
  · next hc =>
    refine .inl ⟨hc, ?_⟩
    generalize resolve s.core e = r at h ⊢
    obtain ⟨c1, e1⟩ := r
    simp only at h ⊢
    split at h
    · cases h
    · next v hv => exact ⟨v, (map_ok h).choose, hv, (map_ok h).choose_spec⟩
  · next hc => exact .inr ⟨by simpa using hc, map_ok h⟩

theorem exec_dwVal {s s' : State} {e : List Node} (h : exec s (.dwVal e) = .ok s') :
    (s.code = true ∧ ∃ v c', ev (resolve s.core e).1 (resolve s.core e).2 = .ok v ∧
      Eff.dwVal (resolve s.core e).1 v (resolve s.core e).2 {} = .ok c' ∧ s' = { s with core := c' }) ∨
    (s.code = false ∧ ∃ c', Eff.skip s.core 2 {} = .ok c' ∧ s' = { s with core := c' }) := by
  simp only [exec] at h
  split at h
  · next hc =>
    refine .inl ⟨hc, ?_⟩
    generalize resolve s.core e = r at h ⊢
    obtain ⟨c1, e1⟩ := r
    simp only at h ⊢
    split at h
    · cases h
    · next v hv => exact ⟨v, (map_ok h).choose, hv, (map_ok h).choose_spec⟩
  · next hc => exact .inr ⟨by simpa using hc, map_ok h⟩

theorem exec_ds {s s' : State} {size : List Node} {fill : Option (List Node)}
    (h : exec s (.ds size fill) = .ok s') :
    ∃ v c1 n, ev (resolve s.core size).1 (resolve s.core size).2 = .ok v ∧
      Eff.dsSize (resolve s.core size).1 v {} = .ok (c1, n) ∧
      ((s.code = false ∧ s' = { s with core := c1 }) ∨
       (s.code = true ∧ fill = none ∧
          ∃ c', Eff.dsFill c1 n none [] {} = .ok c' ∧ s' = { s with core := c' }) ∨
       (s.code = true ∧ ∃ fe fv c', fill = some fe ∧
          ev (resolve c1 fe).1 (resolve c1 fe).2 = .ok fv ∧
          Eff.dsFill (resolve c1 fe).1 n (some fv) (resolve c1 fe).2 {} = .ok c' ∧
          s' = { s with core := c' })) := by
  simp only [exec] at h
  generalize resolve s.core size = r at h ⊢
  obtain ⟨c0, e0⟩ := r
  simp only at h ⊢
  split at h
  · cases h
  · next v hv =>
    split at h
    · cases h
    · next c1 n hsz =>
      refine ⟨v, c1, n, hv, hsz, ?_⟩
      split at h
      · next hc =>
        cases fill with
        | none =>
          simp only at h
          exact .inr (.inl ⟨hc, rfl, map_ok h⟩)
        | some fe =>
          simp only at h
          refine .inr (.inr ⟨hc, fe, ?_⟩)
          generalize resolve c1 fe = r2 at h ⊢
          obtain ⟨c2, e2⟩ := r2
          simp only at h ⊢
          split at h
          · cases h
          · next fv hfv => exact ⟨fv, (map_ok h).choose, trivial, hfv, (map_ok h).choose_spec⟩
      · next hc => cases h; exact .inl ⟨by simpa using hc, rfl⟩

theorem exec_align {s s' : State} {e : List Node} (h : exec s (.align e) = .ok s') :
    ∃ v c', ev (resolve s.core e).1 (resolve s.core e).2 = .ok v ∧
      Eff.align (resolve s.core e).1 s.code v {} = .ok c' ∧ s' = { s with core := c' } := by
  simp only [exec] at h
  generalize resolve s.core e = r at h ⊢
  obtain ⟨c1, e1⟩ := r
  simp only at h ⊢
  split at h
  · cases h
  · next v hv => exact ⟨v, (map_ok h).choose, hv, (map_ok h).choose_spec⟩

theorem exec_incbin {s s' : State} {bytes : List Nat} (h : exec s (.incbin bytes) = .ok s') :
    s.code = true ∧ ∃ c', Eff.incbin s.core {} bytes = .ok c' ∧ s' = { s with core := c' } := by
  simp only [exec] at h
  split at h
  · next hc => exact ⟨hc, map_ok h⟩
  · cases h

theorem exec_instr {s s' : State} {ps : List Piece} (h : exec s (.instr ps) = .ok s') :
    s.code = true ∧ ∃ c1 c', pieces s.core ps = .ok c1 ∧
      Eff.instrTail c1 s.core.dataLen {} = .ok c' ∧ s' = { s with core := c' } := by
  simp only [exec] at h
  split at h
  · next hc =>
    refine ⟨hc, ?_⟩
    split at h
    · cases h
    · next c1 hp => exact ⟨c1, (map_ok h).choose, hp, (map_ok h).choose_spec⟩
  · cases h

theorem exec_assert {s s' : State} {e : List Node} (h : exec s (.assert e) = .ok s') :
    ∃ v c', ev (resolve s.core e).1 (resolve s.core e).2 = .ok v ∧
      Eff.assert (resolve s.core e).1 v (resolve s.core e).2 none {} = .ok c' ∧
      s' = { s with core := c' } := by
  simp only [exec] at h
  generalize resolve s.core e = r at h ⊢
  obtain ⟨c1, e1⟩ := r
  simp only at h ⊢
  split at h
  · cases h
  · next v hv => exact ⟨v, (map_ok h).choose, hv, (map_ok h).choose_spec⟩

theorem exec_define {s s' : State} {keep : Bool} {d : String} {e : List Node}
    (h : exec s (.define keep d e) = .ok s') :
    (s.core.symtab.get d).isSome = false ∧
    ∃ c', Eff.define (resolve s.core e).1 keep d (resolve s.core e).2 {} = .ok c' ∧
      s' = { s with core := c' } := by
  simp only [exec] at h
  split at h
  · cases h
  · next hd =>
    refine ⟨by simpa using hd, ?_⟩
    generalize resolve s.core e = r at h ⊢
    obtain ⟨c1, e1⟩ := r
    simp only at h ⊢
    exact map_ok h

theorem exec_redefine {s s' : State} {keep : Bool} {d : String} {e : List Node}
    (h : exec s (.redefine keep d e) = .ok s') :
    s' = { s with core := Eff.redefine (resolve s.core e).1 keep d (resolve s.core e).2 } := by
  simp only [exec] at h
  generalize resolve s.core e = r at h ⊢
  obtain ⟨c1, e1⟩ := r
  simp only at h ⊢
  cases h; rfl

theorem exec_undef {s s' : State} {d : String} (h : exec s (.undef d) = .ok s') :
    s' = { s with core := Eff.undef s.core d } := by
  simp only [exec] at h; cases h; rfl

theorem exec_segment {s s' : State} {code : Bool} (h : exec s (.segment code) = .ok s') :
    s' = { s with code := code } := by
  simp only [exec] at h; cases h; rfl

theorem exec_struct {s s' : State} {name : String} {ms : List Member}
    (h : exec s (.struct name ms) = .ok s') :
    (s.core.symtab.get name).isSome = false ∧
    ∃ c size, members name { s.core with ns := some name } 0 ms = .ok (c, size) ∧
      s' = { s with core := ({ c with ns := s.core.ns }).insertWithMeta name (.val size) [] } := by
  simp only [exec] at h
  split at h
  · cases h
  · next hd =>
    refine ⟨by simpa using hd, ?_⟩
    split at h
    · cases h
    · next c size hm => cases h; exact ⟨c, size, hm, rfl⟩

theorem run_cons {s s' : State} {st : Stmt} {r : List Stmt} (h : run s (st :: r) = .ok s') :
    ∃ s1, exec s st = .ok s1 ∧ run s1 r = .ok s' := by
  simp only [run] at h
  split at h
  · cases h
  · next s1 hs => exact ⟨s1, hs, h⟩

theorem run_nil {s s' : State} (h : run s [] = .ok s') : s' = s := by
  simp only [run] at h; cases h; rfl

theorem run_append {s s'' : State} {p q : List Stmt} (h : run s (p ++ q) = .ok s'') :
    ∃ s', run s p = .ok s' ∧ run s' q = .ok s'' := by
  induction p generalizing s with
  | nil => exact ⟨s, rfl, h⟩
  | cons st r ih =>
    obtain ⟨s1, hs, hr⟩ := run_cons (by simpa using h)
    obtain ⟨s', hp, hq⟩ := ih hr
    exact ⟨s', by simp only [run, hs, hp], hq⟩

end Az65.AbsFrame

import Az65.Model.ExprParse
import Az65.Model.Plain
/-
Equation lemmas of the expression ladder (`parsePrec` / `parseLoop`) instantiated at the plain
token supply: one lemma per path the proof of `C04Parse.parse_render` walks.
-/
namespace Az65.ParseLemmas
open Az65

abbrev St := PlainSt

@[simp] theorem peek_cons (t : LTok) (r : List LTok) (core : CoreSt) (cur : Loc) :
    plainOps.peek ⟨t :: r, core, cur⟩ = .ok (some t, ⟨t :: r, core, t.loc⟩) := rfl
@[simp] theorem peek_nil (core : CoreSt) (cur : Loc) :
    plainOps.peek ⟨[], core, cur⟩ = .ok (none, ⟨[], core, cur⟩) := rfl
@[simp] theorem next_cons (t : LTok) (r : List LTok) (core : CoreSt) (cur : Loc) :
    plainOps.next ⟨t :: r, core, cur⟩ = .ok (some t, ⟨r, core, t.loc⟩) := rfl
@[simp] theorem next_nil (core : CoreSt) (cur : Loc) :
    plainOps.next ⟨[], core, cur⟩ = .ok (none, ⟨[], core, cur⟩) := rfl
@[simp] theorem getC_mk (toks : List LTok) (core : CoreSt) (cur : Loc) :
    plainOps.getC ⟨toks, core, cur⟩ = core := rfl
@[simp] theorem setC_mk (toks : List LTok) (core c : CoreSt) (cur : Loc) :
    plainOps.setC ⟨toks, core, cur⟩ c = ⟨toks, c, cur⟩ := rfl

theorem pp_bin (f k : Nat) (nodes : List Node) (s : St) (h1 : 1 ≤ k) (h2 : k ≤ 10)
    {loc nodes' s'} (h : parsePrec plainOps f (k + 1) nodes s = .ok ((loc, nodes'), s')) :
    parsePrec plainOps (f + 1) k nodes s = parseLoop plainOps f k loc nodes' s' := by
  have h0 : k ≠ 0 := by omega
  simp [parsePrec, h0, h2, h]

theorem pp_num (f k : Nat) (nodes : List Node) (v : Nat) (loc : Loc) (r : List LTok)
    (core : CoreSt) (cur : Loc) (hk : 11 ≤ k) :
    parsePrec plainOps (f + 1) k nodes ⟨⟨.num v, loc⟩ :: r, core, cur⟩ =
      .ok ((loc, nodes ++ [.val (i32OfNat v)]), ⟨r, core, loc⟩) := by
  have h0 : k ≠ 0 := by omega
  have h2 : ¬ k ≤ 10 := by omega
  simp [parsePrec, h0, h2]

theorem pp_label (f k : Nat) (nodes : List Node) (n : String) (loc : Loc) (r : List LTok)
    (core : CoreSt) (cur : Loc) (hk : 11 ≤ k) :
    parsePrec plainOps (f + 1) k nodes ⟨⟨.label .global n, loc⟩ :: r, core, cur⟩ =
      .ok ((loc, nodes ++ [labelNode core n]), ⟨r, core.touch n loc, loc⟩) := by
  have h0 : k ≠ 0 := by omega
  have h2 : ¬ k ≤ 10 := by omega
  simp [parsePrec, h0, h2, qualify]

theorem pp_sizeOf (f k : Nat) (nodes : List Node) (n : String) (loc lloc : Loc) (r : List LTok)
    (core : CoreSt) (cur : Loc) (hk : 11 ≤ k) :
    parsePrec plainOps (f + 1) k nodes
        ⟨⟨.dir "SizeOf", loc⟩ :: ⟨.label .global n, lloc⟩ :: r, core, cur⟩ =
      .ok ((lloc, nodes ++ [.sizeOf n]), ⟨r, core.touch n lloc, lloc⟩) := by
  have h0 : k ≠ 0 := by omega
  have h2 : ¬ k ≤ 10 := by omega
  simp [parsePrec, h0, h2, qualify]

theorem pp_un (f k : Nat) (nodes : List Node) (name : String) (node : Option Node) (loc : Loc)
    (r : List LTok) (core : CoreSt) (cur : Loc) (hk : 11 ≤ k)
    (hop : lookupOp unaryOps name = some node) {l' nodes' s'}
    (h : parsePrec plainOps f 11 nodes ⟨r, core, loc⟩ = .ok ((l', nodes'), s')) :
    parsePrec plainOps (f + 1) k nodes ⟨⟨.sym name, loc⟩ :: r, core, cur⟩ =
      .ok ((loc, nodes' ++ node.toList), s') := by
  have h0 : k ≠ 0 := by omega
  have h2 : ¬ k ≤ 10 := by omega
  simp [parsePrec, h0, h2, hop, h]
  cases node <;> simp

theorem pp_paren (f k : Nat) (nodes : List Node) (loc : Loc)
    (r : List LTok) (core : CoreSt) (cur : Loc) (hk : 11 ≤ k) {l' nodes' cl r' core' cur'}
    (h : parsePrec plainOps f 0 nodes ⟨r, core, loc⟩ =
      .ok ((l', nodes'), ⟨⟨.sym "ParenClose", cl⟩ :: r', core', cur'⟩)) :
    parsePrec plainOps (f + 1) k nodes ⟨⟨.sym "ParenOpen", loc⟩ :: r, core, cur⟩ =
      .ok ((loc, nodes'), ⟨r', core', cl⟩) := by
  have h0 : k ≠ 0 := by omega
  have h2 : ¬ k ≤ 10 := by omega
  have hop : lookupOp unaryOps "ParenOpen" = none := by decide
  simp [parsePrec, h0, h2, hop, h, peekedSymbol]

/-- Name of the symbol token at the head of the input, if the head is a symbol token. -/
def headSym : List LTok → Option String
  | ⟨.sym s, _⟩ :: _ => some s
  | _ => none

theorem pp_zero_stop (f : Nat) (nodes : List Node) (s : St) {loc nodes' rest core' cur'}
    (h : parsePrec plainOps f 1 nodes s = .ok ((loc, nodes'), ⟨rest, core', cur'⟩))
    (hq : headSym rest ≠ some "Question") :
    ∃ cur'', parsePrec plainOps (f + 1) 0 nodes s = .ok ((loc, nodes'), ⟨rest, core', cur''⟩) := by
  cases rest with
  | nil => exact ⟨cur', by simp [parsePrec, h]⟩
  | cons t r =>
    obtain ⟨tok, tl⟩ := t
    refine ⟨tl, ?_⟩
    cases tok <;> simp [parsePrec, h]
    rename_i n
    have hn : n ≠ "Question" := by intro hn; subst hn; simp [headSym] at hq
    split
    · rename_i heq; simp at heq
    · rename_i heq; simp at heq; exact absurd heq.1.1 hn
    · rename_i heq; simp at heq; simp [← heq.2]

theorem pp_zero_tern (f : Nat) (nodes : List Node) (s : St)
    {loc n1 ql r1 c1 cur1 l2 n2 cl r2 c2 cur2 l3 n3 s3}
    (h1 : parsePrec plainOps f 1 nodes s =
      .ok ((loc, n1), ⟨⟨.sym "Question", ql⟩ :: r1, c1, cur1⟩))
    (h2 : parsePrec plainOps f 1 n1 ⟨r1, c1, ql⟩ =
      .ok ((l2, n2), ⟨⟨.sym "Colon", cl⟩ :: r2, c2, cur2⟩))
    (h3 : parsePrec plainOps f 1 n2 ⟨r2, c2, cl⟩ = .ok ((l3, n3), s3)) :
    parsePrec plainOps (f + 1) 0 nodes s = .ok ((loc, n3 ++ [.ternary]), s3) := by
  simp [parsePrec, h1, h2, h3, peekedSymbol]

theorem pl_stop (f k : Nat) (loc : Loc) (nodes : List Node) (rest : List LTok) (core : CoreSt)
    (cur : Loc) (hs : ∀ s, headSym rest = some s → lookupOp (levelOps k) s = none) :
    ∃ cur', parseLoop plainOps (f + 1) k loc nodes ⟨rest, core, cur⟩ =
      .ok ((loc, nodes), ⟨rest, core, cur'⟩) := by
  cases rest with
  | nil => exact ⟨cur, by simp [parseLoop]⟩
  | cons t r =>
    obtain ⟨tok, tl⟩ := t
    refine ⟨tl, ?_⟩
    cases tok <;> simp [parseLoop]
    rename_i n
    simp [hs n (by simp [headSym])]

theorem pl_op (f k : Nat) (loc : Loc) (nodes : List Node) (name : String) (node : Node)
    (l : Loc) (r : List LTok) (core : CoreSt) (cur : Loc)
    (hop : lookupOp (levelOps k) name = some node) {l' nodes' s'}
    (h : parsePrec plainOps f (k + 1) nodes ⟨r, core, l⟩ = .ok ((l', nodes'), s')) :
    parseLoop plainOps (f + 1) k loc nodes ⟨⟨.sym name, l⟩ :: r, core, cur⟩ =
      parseLoop plainOps f k loc (nodes' ++ [node]) s' := by
  simp [parseLoop, hop, h]

end Az65.ParseLemmas

import Az65.Model.Abs
/-
Helper lemmas for C05 (deferred patches): the well-formedness predicate on a (links, data) pair,
its preservation by the two primitive moves (append bytes / register a link and push its zero
placeholder), `patchAt` in the middle of a list, and frame facts (`resolve`, `touch`, `insert`
never touch `links` or `data`).
-/
namespace Az65.LinkLemmas
open Az65

/-! ### `patchAt` -/

/-- Patching exactly the placeholder: `xs ++ 0…0 ++ ys` patched at `xs.length` with `bs`. -/
theorem patchAt_mid (xs ys bs : List Nat) (n : Nat) (h : bs.length = n) :
    patchAt (xs ++ List.replicate n 0 ++ ys) xs.length bs = xs ++ bs ++ ys := by
  subst h
  unfold patchAt
  have h1 : (xs ++ List.replicate bs.length 0 ++ ys).take xs.length = xs := by
    rw [List.append_assoc, List.take_left']; rfl
  have h2 : (xs ++ List.replicate bs.length 0 ++ ys).drop (xs.length + bs.length) = ys := by
    have : xs.length + bs.length = (xs ++ List.replicate bs.length 0).length := by simp
    rw [this, List.drop_left']; rfl
  rw [h1, h2]

/-- `patchAt` never changes the length when the patch lies inside. -/
theorem patchAt_length (d bs : List Nat) (off : Nat) (h : off + bs.length ≤ d.length) :
    (patchAt d off bs).length = d.length := by
  unfold patchAt
  simp only [List.length_append, List.length_take, List.length_drop]
  omega

/-- Bytes outside the patched range are untouched. -/
theorem patchAt_getElem?_outside (d bs : List Nat) (off i : Nat) (h : off + bs.length ≤ d.length)
    (hi : i < off ∨ off + bs.length ≤ i) : (patchAt d off bs)[i]? = d[i]? := by
  unfold patchAt
  rcases hi with hi | hi
  · rw [List.append_assoc, List.getElem?_append_left (by simp; omega), List.getElem?_take]
    simp [hi]
  · have hl : (List.take off d ++ bs).length = off + bs.length := by
      simp only [List.length_append, List.length_take]; omega
    rw [List.getElem?_append_right (by omega), hl, List.getElem?_drop]
    congr 1; omega

/-! ### the invariant on a (links, data) pair -/

/-- Patch ranges lie inside the image, are ordered and pairwise disjoint, and still hold zeros. -/
structure Wf (ls : List Link) (d : List Nat) : Prop where
  inside : ∀ l ∈ ls, l.kind ≠ .assert → l.offset + l.len ≤ d.length
  disjoint : ls.Pairwise (fun l1 l2 => l1.kind = .assert ∨ l2.kind = .assert ∨ l1.offset + l1.len ≤ l2.offset)
  zero : ∀ l ∈ ls, l.kind ≠ .assert → ∀ i < l.len, d[l.offset + i]? = some 0

theorem Wf.nil : Wf [] [] := ⟨by simp, by simp, by simp⟩

/-- Appending bytes keeps every earlier range and its contents. -/
theorem Wf.append_data {ls : List Link} {d : List Nat} (h : Wf ls d) (bs : List Nat) :
    Wf ls (d ++ bs) := by
  refine ⟨?_, h.disjoint, ?_⟩
  · intro l hl hk
    have := h.inside l hl hk
    simp only [List.length_append]; omega
  · intro l hl hk i hi
    have h1 := h.inside l hl hk
    rw [List.getElem?_append_left (by omega)]
    exact h.zero l hl hk i hi

/-- Registering a link at the end of the data and pushing exactly `len` zeros. -/
theorem Wf.add_link {ls : List Link} {d : List Nat} (h : Wf ls d) (l : Link)
    (hoff : l.offset = d.length) :
    Wf (ls ++ [l]) (d ++ List.replicate l.len 0) := by
  have h' := h.append_data (List.replicate l.len 0)
  refine ⟨?_, ?_, ?_⟩
  · intro m hm hk
    rcases List.mem_append.mp hm with hm | hm
    · exact h'.inside m hm hk
    · simp only [List.mem_singleton] at hm
      subst hm
      simp [hoff]
  · rw [List.pairwise_append]
    refine ⟨h.disjoint, by simp, ?_⟩
    intro a ha b hb
    simp only [List.mem_singleton] at hb
    subst hb
    by_cases hk : a.kind = .assert
    · exact Or.inl hk
    · right; right
      have := h.inside a ha hk
      omega
  · intro m hm hk i hi
    rcases List.mem_append.mp hm with hm | hm
    · exact h'.zero m hm hk i hi
    · simp only [List.mem_singleton] at hm
      subst hm
      rw [hoff, List.getElem?_append_right (by omega)]
      simp [hi]

/-- Registering an assertion link (no bytes). -/
theorem Wf.add_assert {ls : List Link} {d : List Nat} (h : Wf ls d) (l : Link)
    (hk : l.kind = .assert) : Wf (ls ++ [l]) d := by
  refine ⟨?_, ?_, ?_⟩
  · intro m hm hmk
    rcases List.mem_append.mp hm with hm | hm
    · exact h.inside m hm hmk
    · simp only [List.mem_singleton] at hm; subst hm; exact absurd hk hmk
  · rw [List.pairwise_append]
    refine ⟨h.disjoint, by simp, ?_⟩
    intro a _ b hb
    simp only [List.mem_singleton] at hb
    subst hb
    exact Or.inr (Or.inl hk)
  · intro m hm hmk i hi
    rcases List.mem_append.mp hm with hm | hm
    · exact h.zero m hm hmk i hi
    · simp only [List.mem_singleton] at hm; subst hm; exact absurd hk hmk

/-! ### data / links of the primitive state moves -/

@[simp] theorem data_push (c : CoreSt) (b : Nat) : (c.push b).data = c.data ++ [b] := by
  simp [CoreSt.push, CoreSt.data]

@[simp] theorem data_pushAll (c : CoreSt) (bs : List Nat) : (c.pushAll bs).data = c.data ++ bs := by
  simp [CoreSt.pushAll, CoreSt.data]

@[simp] theorem data_addLink (c : CoreSt) (l : Link) : (c.addLink l).data = c.data := rfl

@[simp] theorem links_push (c : CoreSt) (b : Nat) : (c.push b).links = c.links := rfl
@[simp] theorem links_pushAll (c : CoreSt) (bs : List Nat) : (c.pushAll bs).links = c.links := rfl
@[simp] theorem links_addLink (c : CoreSt) (l : Link) : (c.addLink l).links = c.links ++ [l] := rfl

theorem dataLen_eq (c : CoreSt) : c.dataLen = c.data.length := by
  simp [CoreSt.dataLen, CoreSt.data]

/-! ### frame: steps that touch neither `links` nor the data -/

/-- `c'` has the same links, data and address as `c`, and the same symbols. -/
structure SameOut (c c' : CoreSt) : Prop where
  links : c'.links = c.links
  dataRev : c'.dataRev = c.dataRev

theorem SameOut.refl (c : CoreSt) : SameOut c c := ⟨rfl, rfl⟩

theorem SameOut.trans {a b c : CoreSt} (h1 : SameOut a b) (h2 : SameOut b c) : SameOut a c :=
  ⟨h2.links.trans h1.links, h2.dataRev.trans h1.dataRev⟩

theorem SameOut.data {c c' : CoreSt} (h : SameOut c c') : c'.data = c.data := by
  simp [CoreSt.data, h.dataRev]

theorem SameOut.dataLen {c c' : CoreSt} (h : SameOut c c') : c'.dataLen = c.dataLen := by
  simp [CoreSt.dataLen, h.dataRev]

/-- `c'` differs from `c` at most in the first-reference table. -/
structure OnlyHits (c c' : CoreSt) : Prop where
  symtab : c'.symtab = c.symtab
  curMeta : c'.curMeta = c.curMeta
  dataRev : c'.dataRev = c.dataRev
  links : c'.links = c.links
  here : c'.here = c.here
  ns : c'.ns = c.ns

theorem OnlyHits.refl (c : CoreSt) : OnlyHits c c := ⟨rfl, rfl, rfl, rfl, rfl, rfl⟩

theorem OnlyHits.trans {a b c : CoreSt} (h1 : OnlyHits a b) (h2 : OnlyHits b c) : OnlyHits a c :=
  ⟨h2.symtab.trans h1.symtab, h2.curMeta.trans h1.curMeta, h2.dataRev.trans h1.dataRev,
   h2.links.trans h1.links, h2.here.trans h1.here, h2.ns.trans h1.ns⟩

/-- `touch` only changes the first-reference table. -/
theorem touch_onlyHits (c : CoreSt) (n : String) (loc : Loc) : OnlyHits c (c.touch n loc) := by
  unfold CoreSt.touch; split <;> exact ⟨rfl, rfl, rfl, rfl, rfl, rfl⟩

/-- `resolve` only changes the first-reference table. -/
theorem resolve_onlyHits : ∀ (e : List Node) (c : CoreSt), OnlyHits c (Abs.resolve c e).1
  | [], c => OnlyHits.refl c
  | n :: r, c => by
    cases n <;> simp only [Abs.resolve]
    case label x =>
      split
      · exact resolve_onlyHits r c
      · exact (touch_onlyHits c x {}).trans (resolve_onlyHits r _)
    case sizeOf x => exact (touch_onlyHits c x {}).trans (resolve_onlyHits r _)
    all_goals exact resolve_onlyHits r c

theorem resolve_same (c : CoreSt) (e : List Node) : SameOut c (Abs.resolve c e).1 :=
  ⟨(resolve_onlyHits e c).links, (resolve_onlyHits e c).dataRev⟩

theorem resolve_here (c : CoreSt) (e : List Node) : (Abs.resolve c e).1.here = c.here :=
  (resolve_onlyHits e c).here

theorem resolve_symtab (c : CoreSt) (e : List Node) : (Abs.resolve c e).1.symtab = c.symtab :=
  (resolve_onlyHits e c).symtab

/-! ### the first-reference table only grows -/

theorem touch_mem (c : CoreSt) (n : String) (loc : Loc) :
    n ∈ (c.touch n loc).hits.map (·.1) := by
  unfold CoreSt.touch
  split
  · rename_i h
    rw [List.any_eq_true] at h
    obtain ⟨x, hx, hx'⟩ := h
    simp only [beq_iff_eq] at hx'
    exact List.mem_map.mpr ⟨x, hx, hx'⟩
  · simp

theorem touch_mono (c : CoreSt) (n m : String) (loc : Loc) (h : m ∈ c.hits.map (·.1)) :
    m ∈ (c.touch n loc).hits.map (·.1) := by
  unfold CoreSt.touch
  split
  · exact h
  · simp only [List.map_append, List.mem_append]; exact Or.inl h

theorem resolve_mono : ∀ (e : List Node) (c : CoreSt) (m : String), m ∈ c.hits.map (·.1) →
    m ∈ (Abs.resolve c e).1.hits.map (·.1)
  | [], c, m, h => h
  | n :: r, c, m, h => by
    cases n <;> simp only [Abs.resolve]
    case label x =>
      split
      · exact resolve_mono r c m h
      · exact resolve_mono r _ m (touch_mono c x m {} h)
    case sizeOf x => exact resolve_mono r _ m (touch_mono c x m {} h)
    all_goals exact resolve_mono r c m h

end Az65.LinkLemmas

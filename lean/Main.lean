import Az65.Drv.Expr
import Az65.Drv.CR
import Az65.Drv.Intern
import Az65.Drv.Lex
import Az65.Drv.Asm
import Az65.Drv.Spec
import Az65.Drv.Abs
import Az65.Drv.Cli
import Az65.Drv.Forms
/-
`azmodel`: line-protocol driver.  Reads `id \t mode \t args…` lines on stdin, prints
`id \t <model/spec columns>` per line.  Imports only Model/Spec/Drv files (no Mathlib), so it
links as a native executable.
-/
open Az65 Az65.Drv

def dispatch (mode : String) (args : List String) : String :=
  match mode with
  | "expr" => runExpr args
  | "cr" => runCR args
  | "intern" => runIntern args
  | "lex" => runLex args
  | "asm" => runAsm args
  | "spec" => runSpec args
  | "abs" => runAbs args
  | "cli" => runCli args
  | "forms" => runForms args
  | _ => "BADMODE"

partial def loop (h : IO.FS.Stream) (out : IO.FS.Stream) : IO Unit := do
  let line ← h.getLine
  if line.isEmpty then return ()
  let l := (line.dropEndWhile (fun c => c == '\n' || c == '\r')).toString
  if l.isEmpty then loop h out else
  match l.splitOn "\t" with
  | id :: mode :: args =>
    out.putStrLn s!"{id}\t{dispatch mode args}"
    loop h out
  | _ =>
    out.putStrLn "?\tBADLINE"
    loop h out

def main : IO Unit := do
  let out ← IO.getStdout
  loop (← IO.getStdin) out
  out.flush

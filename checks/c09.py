"""C09 — a local label is exactly shorthand for Global.local."""
import random

from . import common as C
from . import core
from . import asmdiff as A

POSITIONS = ["define", "expr", "sizeof", "defl", "defn", "redefl", "redefn", "undef", "isdef", "getmeta"]


def gen_program(rng, counters):
    """returns (lines, where each name occurrence is a ('N', scope, local) tuple) — rendered twice"""
    items = []      # list of lists of str | ('N', scope, local)
    scope = None
    defined = []    # (scope, local)
    macros = False
    globals_ = ["first", "second", "third", "fourth"]
    gi = 0

    def N(sc, loc):
        return ("N", sc, loc)

    n_stmts = rng.randint(4, 24)
    # a macro whose body uses a local name: expanded under different globals
    if rng.random() < 0.5:
        items.append(["@macro PUT, 1, VAL"])
        items.append([("M", "body")])
        items.append(["@endmacro"])
        macros = True
    for _ in range(n_stmts):
        r = rng.random()
        if scope is None or r < 0.15:
            if gi < len(globals_):
                scope = globals_[gi]
                gi += 1
                items.append([f"{scope}:"])
            continue
        if r < 0.22:
            # a struct opens its own scope and restores the previous one
            sname = f"S{gi}{len(items)}"
            # field names come from the same pool as the local labels of the surrounding scope, and the
            # same local spelling is used just before, inside and just after the struct
            fa = rng.choice(["x", "y", "z"]) + str(rng.randint(0, 2))
            fb = rng.choice([n for n in ("x0", "y1", "z2", "fb") if n != fa])
            if rng.random() < 0.6:
                items.append(["@dw ", N(scope, fa), " + 1 & $ffff"])
            items.append([f"@struct {sname}"])
            items.append([f"  {fa} @db"])
            items.append([f"  {fb} ", N(sname, fa), " + 2"])
            counters["expr"] += 1
            # local names inside the operands of @ds / @align in the struct body resolve against the struct too
            if rng.random() < 0.5:
                items.append(["  @ds ", N(sname, fa), " + 1"])
                counters["struct_pad_expr"] = counters.get("struct_pad_expr", 0) + 1
            if rng.random() < 0.4:
                items.append(["  @align 2 + 0 * @sizeof ", N(sname, fa)])
                counters["struct_pad_expr"] = counters.get("struct_pad_expr", 0) + 1
            items.append(["  fz 1"])
            items.append(["@endstruct"])
            items.append([f"@db {sname}.fz, {sname}"])
            if rng.random() < 0.6:
                items.append(["@dw ", N(scope, fa), " + 2 & $ffff"])
            continue
        if 0.30 <= r < 0.36:
            # a constant with a GLOBAL name defined in the middle of the scope: not a label, the scope stays
            cn = f"KON{len(items)}"
            items.append([f"@{rng.choice(['defl', 'defn', 'redefl', 'redefn'])} {cn}, {rng.randint(0, 99)}"])
            counters["global_const_mid_scope"] = counters.get("global_const_mid_scope", 0) + 1
            continue
        if r < 0.30:
            # a label defined by its QUALIFIED spelling in both renderings (`Main.helper:`): it is
            # not a global label, so the local names after it still belong to the same scope
            hn = f"h{len(items)}"
            items.append([f"{scope}.{hn}:"])
            items.append(["  nop"])
            counters["direct_define"] = counters.get("direct_define", 0) + 1
            continue
        loc = rng.choice(["x", "y", "z"]) + str(rng.randint(0, 2))
        pos = rng.choice(POSITIONS)
        have = (scope, loc) in defined
        if pos == "define" and (not have or rng.random() < 0.1):
            # (one time in ten a name that already exists: both spellings must be rejected alike)
            items.append([N(scope, loc), ":"])
            if not have:
                defined.append((scope, loc))
        elif pos == "expr":
            items.append(["@dw ", N(scope, loc), " + 1 & $ffff"])
        elif pos == "sizeof":
            items.append(["@db 0 * @sizeof ", N(scope, loc)] if False else ["@assert 1 + 0 * ", N(scope, loc)])
            pos = "expr"
        elif pos in ("defl", "defn") and not have:
            # the value is a number, or an expression over a label defined only at the very end
            # (so the definition stays an unevaluated expression while it is being used)
            val = str(rng.randint(0, 200)) if rng.random() < 0.6 else f"zlast + {rng.randint(0, 9)}"
            items.append([f"@{pos} ", N(scope, loc), f", {val}"])
            defined.append((scope, loc))
        elif pos in ("redefl", "redefn"):
            items.append([f"@{pos} ", N(scope, loc), ", ", N(scope, loc), " + 1"] if have and rng.random() < 0.5 else [f"@{pos} ", N(scope, loc), f", {rng.randint(0, 200)}"])
            if not have:
                defined.append((scope, loc))
        elif pos == "undef" and have and rng.random() < 0.3:
            items.append(["@undef ", N(scope, loc)])
            defined.remove((scope, loc))
        elif pos == "isdef":
            items.append(["@db @isdef ", N(scope, loc)])
        elif pos == "getmeta":
            items.append(['@db @getmeta ', N(scope, loc), ', "K"'])
        else:
            continue
        counters[pos] += 1
        if macros and rng.random() < 0.2:
            items.append([("M", "call", scope)])
            counters["macro"] += 1
    # sizeof position: a struct field referenced by its local spelling inside the struct scope is
    # covered above; add an explicit @sizeof of a local-spelled struct field
    items.append(["@struct Tail"])
    items.append(["  ta 3"])
    items.append(["  tb @sizeof ", N("Tail", "ta")])
    items.append(["@endstruct"])
    counters["sizeof"] += 1
    items.append(["zlast:"])
    # make every referenced local exist somewhere at the end so that most programs link
    for sc, loc in sorted(set((i[1], i[2]) for it in items for i in it if isinstance(i, tuple) and i[0] == "N")):
        if (sc, loc) not in defined and not sc.startswith("S") and sc != "Tail":
            items.append([f"@defl {sc}.{loc}, 9"])
    return items


def render(items, qualified):
    out = []
    for it in items:
        line = ""
        for part in it:
            if isinstance(part, str):
                line += part
            elif part[0] == "N":
                line += f"{part[1]}.{part[2]}" if qualified else f".{part[2]}"
            elif part[0] == "M" and part[1] == "body":
                # inside the macro body the local name is scope dependent: in the qualified
                # rendering the macro is not used at all (its calls are expanded by hand)
                line += "@db VAL\n@redefl .m0, VAL" if not qualified else "@db VAL"
            elif part[0] == "M" and part[1] == "call":
                line += "PUT 5" if not qualified else f"@db 5\n@redefl {part[2]}.m0, 5"
        out.append(line)
    return "\n".join(out) + "\n"


def run(tier, seed):
    chk = C.Check("C09", tier, seed)
    C.std_setup(chk)
    rng = random.Random(seed)
    counters = {p: 0 for p in POSITIONS}
    counters["macro"] = 0
    counters["direct_define"] = 0
    counters["struct_pad_expr"] = 0
    counters["global_const_mid_scope"] = 0
    progs = []
    for _ in range(1500 if tier == "quick" else 20000):
        items = gen_program(rng, counters)
        progs.append((render(items, False), render(items, True)))
    # hand-written corner cases: local before any global; same local under two globals; struct scope restore
    corner = [
        (".x:\n", None),                                # local before any global: rejected
        ("@db .x\n", None),
        ("@defl .x, 1\n", None),
        ("@undef .x\n", None),
        ("@db @isdef .x\n", None),
        # a struct before the first global label must leave "no global label yet" in force
        ("@struct S\n f 1\n g 1\n@endstruct\n@db .g\n", None),
        ("@struct S\n f 1\n@endstruct\n.f:\n", None),
        ("@struct S\n f 1\n@endstruct\n@defl .f, 1\n", None),
        ("@struct S\n f 1\n@endstruct\n@db @isdef .f\n", None),
        ("@struct S\n f 1\n@endstruct\n@db @sizeof .f\n", None),
        ("@struct S\n f 1\n@endstruct\n@undef .f\n", None),
        ("@struct S\n f 1\n@endstruct\n@struct T\n h 1\n@endstruct\n@db .h\n", None),
        ("@macro M, 0\n@db .q\n@endmacro\nM\n", None),
        ("Main:\n jmp .end\nMain.helper:\n nop\n.end:\n rts\n", "Main:\n jmp Main.end\nMain.helper:\n nop\nMain.end:\n rts\n"),
        ("Main:\n@defl Main.k, 3\n@db .k\n@defn K2, 4\n.q:\n@dw .q\n", "Main:\n@defl Main.k, 3\n@db Main.k\n@defn K2, 4\nMain.q:\n@dw Main.q\n"),
        ("g:\n.x:\n@db 1\n@undef g\n@dw .x\n.y:\n@dw .y\n", "g:\ng.x:\n@db 1\n@undef g\n@dw g.x\ng.y:\n@dw g.y\n"),
        ("g:\n.lp:\n dex\n@defl COUNT, 3\n bne .lp\n@defn K2, 4\n bne .lp\n@redefl COUNT, 5\n bne .lp\n", "g:\ng.lp:\n dex\n@defl COUNT, 3\n bne g.lp\n@defn K2, 4\n bne g.lp\n@redefl COUNT, 5\n bne g.lp\n"),
        ("@db @isdef .x\ng:\n", None),
        ("@if ! @isdef .cfg\n@db 1\n@endif\ng:\n", None),
        ("g:\n.x:\n@db 1\n.x:\n", "g:\ng.x:\n@db 1\ng.x:\n"),
        ("g:\n@defn .x, 5\n.x:\n", "g:\n@defn g.x, 5\ng.x:\n"),
        ("g:\n.x:\ng.x:\n", "g:\ng.x:\ng.x:\n"),
        ("g:\n.len:\n lda #.len\n@struct H\n len 2\n body .len + 4\n@endstruct\n@db H, .len\n", "g:\ng.len:\n lda #g.len\n@struct H\n len 2\n body H.len + 4\n@endstruct\n@db H, g.len\n"),
        ("a1:\n.x:\n@db 1\nb1:\n.x:\n@db 2\n@dw a1.x, b1.x\n", "a1:\na1.x:\n@db 1\nb1:\nb1.x:\n@db 2\n@dw a1.x, b1.x\n"),
        ("g1:\n@struct S\n f @db\n@endstruct\n.x:\n@dw .x\n", "g1:\n@struct S\n f @db\n@endstruct\ng1.x:\n@dw g1.x\n"),
    ]
    lines = []
    for i, (loc, qual) in enumerate(progs + corner):
        lines.append(A.case_line(f"l{i}", "6502", {"/m.asm": loc}))
        if qual is not None:
            lines.append(A.case_line(f"q{i}", "6502", {"/m.asm": qual}))
    impl, model = A.run_both(lines)
    n_ok = 0
    for i, (loc, qual) in enumerate(progs + corner):
        il = A.parse_impl(impl.get(f"l{i}"))
        ml = A.parse_model(model.get(f"l{i}"))
        chk.evaluations += 1
        chk.distinct.add(loc)
        if not A.agree(il, ml):
            chk.disagreements.append({"src": loc[:500], "impl": str(il)[:160], "model": str(ml)[:160]})
        if qual is None:
            if il["kind"] != "ERR":          # (any diagnostic will do: the wording is not part of the property)
                chk.violation("no-scope:" + loc.strip()[:20], f"a local name before any global label was not rejected as such ({il['kind']} {il.get('cls')}):\n{loc}",
                              {"arch": "6502", "source": loc, "impl": {k: x for k, x in il.items() if k != 'msg'}})
            continue
        iq = A.parse_impl(impl.get(f"q{i}"))
        mq = A.parse_model(model.get(f"q{i}"))
        chk.evaluations += 1
        if not A.agree(iq, mq):
            chk.disagreements.append({"src": qual[:500], "impl": str(iq)[:160], "model": str(mq)[:160]})
        bad = None
        if "CRASH" in (il["kind"], iq["kind"]) or "ABORT" in (il["kind"], iq["kind"]):
            bad = "assembler crashed"
        elif il["kind"] != iq["kind"]:
            bad = f"local spelling: {il['kind']} {il.get('cls', '')}; qualified spelling: {iq['kind']} {iq.get('cls', '')}"
        elif il["kind"] == "OK" and (il["bytes"] != iq["bytes"] or il["syms"] != iq["syms"]):
            bad = f"outputs differ: {il['bytes']} vs {iq['bytes']}"
        if il["kind"] == "OK":
            n_ok += 1
        if bad:
            chk.violation("rewrite:" + bad[:30], f"{bad}\n--- local spelling ---\n{loc}\n--- qualified spelling ---\n{qual}",
                          {"arch": "6502", "source": loc, "source_qualified": qual, "impl": {k: x for k, x in il.items() if k != 'msg'},
                           "impl_qualified": {k: x for k, x in iq.items() if k != 'msg'}})
    chk.oblige("every syntactic position that accepts a label was exercised", all(v > 0 for v in counters.values()), str(counters))
    chk.oblige("correspondence: implementation = Model on both spellings", not chk.disagreements, str(chk.disagreements[:2])[:800])
    chk.samples += [{"local": progs[k][0][:400], "qualified": progs[k][1][:400]} for k in (2, len(progs) // 2)]
    chk.coverage.update({"position_counters": counters, "accepted": n_ok, "exhaustive": False})
    return chk.finish(
        checker_cmd="cd /verif/lean && lake build Az65.Thm.C09 && #print axioms audit",
        trusted_base=C.TRUSTED,
        rule="case = program placing local names in the ten positions under sequences of global labels, structs and macro expansions, run in local spelling and in its mechanical rewrite to qualified spelling; the implementation's two runs are compared with each other (no model involved); distinct = distinct programs")


replay = core.replay

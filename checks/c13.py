"""C13 — every input ends in a binary or a diagnostic, never a crash."""
import json
import random
import re

from . import common as C
from . import asmdiff as A
from . import proggen as G

NAMES = f"{C.LEAN}/Az65/Gen/Names.lean"

DEGENERATE = [
    "@defn X, X\n@db X\n", "@defn W, H+1\n@defn H, W+1\n@defn CELL, W\n@db CELL\n", "@defl A1, B1\n@defl B1, C1\n@defl C1, B1\n@defn D1, A1 + 1\n@dw D1\n", "@dw Q1\n@defl Q1, R1\n@defl R1, S1 + R1\n@defn S1, 1\n", "@defn A, B\n@defn B, A\n@db A\n", "@defl A, B + 1\n@defl B, C + 1\n@defl C, A + 1\n@dw A\n",
    "@db 1 / 0\n", "@db 1 % 0\n", "@db $80000000 % -1\n", "@db $80000000 % $ffffffff\n", "@dw (0 - $7fffffff - 1) % (0 - 1)\n", "@db X % Y\n@defn X, $80000000\n@defn Y, -1\n",
    "@db X / Y\n@defn X, $80000000\n@defn Y, -1\n", "@db $80000000 * -1\n", "@db -$80000000\n", "@db $7fffffff + 1\n", "@db 0 - $80000000\n", "@db 1 << 32\n", "@db 1 << -1\n", "@db 1 >> 99\n", "@db 1 >>> -5\n",
    '@segment "DATA"\n', '@segment "code "\n', "@segment 5\n", "@segment lab\n", '@segment ""\n', "@dw X / Y\n@defn X, 5\n@defn Y, 0\n", "@db -($80000000)\n", "@dw $80000000 / -1\n",
    "@db 1 = 2\n", "=\n", "@db 1 =\n", ":\n", ".:\n", "a.b.c:\n", ".\n", "@\n", "@db\n", "@db ,\n", "@db 1,\n",
    "@string }\n", "@label }\n", "@each T, }\n", "@macro M, 1, P\n@endmacro\nM }\n", "@db {\n", "@string {\n", "@each T, {\n", "}\n", "{\n",
    "@endmacro\n", "@endif\n", "@endeach\n", "@endstruct\n", "@endmeta\n", "@if 0\n", "@if 1\n", "@macro M, 0\n", "@struct S\n", "@each T, {1}\n",
    '@meta "@SIZEOF" "abc"\nfoo:\n@endmeta\n@db @sizeof foo\n', '@meta "@SIZEOF" ""\nfoo:\n@endmeta\n@db @sizeof foo\n',
    '@meta "@SIZEOF" "99999999999"\nfoo:\n@endmeta\n@db @sizeof foo\n',
    "@struct S\n@ds -1\n@align $7fffffff\n@endstruct\n", "@struct S\n f -1\n@align 2\n g $7fffffff\n@endstruct\n@dw S\n",
    "@align 0\n", "@align 1\n", "@align -5\n", "@align $7fffffff\n", "@org -1\n", "@org $10000\n", "@ds -1\n", "@ds $ffff\n@ds 2\n",
    "@count -1\n", "@db @hex\n", "@db @bin\n", "@parse\n", '@parse "@parse"\n', "@getmeta\n", "@getmeta x\n", "@getmeta x,\n", "@isdef\n", "@sizeof\n",
    "@include\n", '@include "nope"\n', '@incbin "nope"\n', "@segment\n", '@segment "X"\n', '@segment "ADDR"\n nop\n', '@segment "ADDR"\n@incbin "x"\n',
    "@macro 5\n", "@macro M\n", "@macro M,\n", "@macro M, x\n", "@macro M, 1\n", "@macro M, 1,\n", "@macro M, 1, .p\n@endmacro\n", "@struct 5\n", "@struct S\n 5\n",
    "lab: nop\n@defl foo, @sizeof lab\n", '"unterminated\n', "'ab\n", "''\n", "'abcde'\n", '"\\q"\n', '"\\$zz"\n', '"\\$4"\n', "$\n", "$zz\n", "%2\n", "99999999999\n",
    "\\\n", "\\ x\n", "@db 1 \\",
    # a continuation backslash as the very last character, after every kind of statement / directive operand
    "@count 3 \\", "@db @hex 3 \\", "@db @bin 5\\", "@each T, {1 2} \\", "@db @string {1} \\", "@label {a} \\", '@db @getmeta x, "k" \\', "@db @isdef x \\",
    "@macro M, 0\n@db 1\n@endmacro\nM \\", "@macro M, 1, P\n@db P\n@endmacro\nM 1 \\", '@incbin "m.asm" \\', "@if 1 \\", "@db @count 2 \\", "@parse \"@count 1\" \\", "nop \\", "lab: \\", "@org 5 \\", "@ds 2 \\", "@struct S \\", "a: a:\n", "@defl a, 1\n@defl a, 2\n", "@die\n", '@die "x"\n', "@die 5\n", "@echo\n", "@assert\n", "@assert 0\n", '@assert 0, "m"\n', "@assert 1,\n",
    "@db 1 ? 2\n", "@db ( 1\n", "@db )\n", "@db 1 +\n", "@db ~\n", "@db @here @here\n", "@dw <\n", "@db @db\n",
]


def vocabulary(arch):
    pre = {"6502": "mos6502", "z80": "z80", "sm83": "sm83"}[arch]
    text = open(NAMES).read()
    toks = []
    for tbl in (f"{pre}OpSpell", f"{pre}RegSpell", f"{pre}FlagSpell", "directiveSpell", "symbolSpell"):
        m = re.search(r"def " + tbl + r" : List \(String × String\) := \[(.*?)\n\]", text, re.S)
        if m:
            toks += [a.replace('\\"', '"').replace("\\\\", "\\") for a, b in re.findall(r'\("((?:[^"\\]|\\.)*)", "((?:[^"\\]|\\.)*)"\)', m.group(1))]
    toks = [t for t in toks if t not in ("@macro", "@MACRO", "@include", "@INCLUDE", "@incbin", "@INCBIN")]
    toks += ["0", "1", "2", "7", "255", "256", "4096", "$ff", "%101", '"s"', '""', "'c'", "lbl", ".loc", "g.l", "MAC0", "MAC1", "MAC2", "MAC2 3, {4 5}", "MAC1 {}", "MAC2 {}, {}", "{}", "{ }", "{{}}", "'é€'", '"é"', "\n", "\n", "\n", ";c\n", ",", ","]
    return toks


def mutate(rng, data):
    data = bytearray(data)
    for _ in range(rng.randint(1, 4)):
        r = rng.random()
        pos = rng.randrange(len(data) + 1)
        if r < 0.3 and data:
            data[min(pos, len(data) - 1)] = rng.choice(b"@{}()\",.:;$%\\'=+-*/<>!~&|?#\n\t 0123456789azAZ_\x00\x80\xff\xc3\xe2")
        elif r < 0.55:
            data[pos:pos] = bytes([rng.choice(b"@{}()\",.:;$%\\'=\n 09az\xf0\x9f")])
        elif r < 0.75 and data:
            del data[min(pos, len(data) - 1)]
        elif r < 0.9 and len(data) > 4:
            a, b = sorted(rng.sample(range(len(data)), 2))
            data[pos:pos] = data[a:b][:12]
        else:
            data[pos:pos] = rng.choice([b"@endif\n", b"}", b"{", b"@endmacro\n", b" \\\n", b"@if 0\n", b"\"", b"'"])
    return bytes(data)


def run(tier, seed):
    chk = C.Check("C13", tier, seed)
    C.std_setup(chk)
    rng = random.Random(seed)
    cases = []   # (arch, bytes, opts, family)
    for src in DEGENERATE:
        for arch in ("6502", "z80", "sm83"):
            cases.append((arch, src.encode(), "export=json", "degenerate"))
    corpus = [(a, s.encode()) for a, s in json.load(open(f"{C.VERIF}/corpus/suite_sources.json")) if a in ("6502", "z80", "sm83")]
    for _ in range(150):
        arch = rng.choice(["6502", "z80", "sm83"])
        g = G.Gen(rng, arch)
        stmts, src, files = g.program(rng.randint(3, 15))
        if not files:
            corpus.append((arch, src.encode()))
    n_mut = 12000 if tier == "quick" else 400000
    for _ in range(n_mut):
        arch, data = rng.choice(corpus)
        cases.append((arch, mutate(rng, data), "", "mutation"))
    header = "@macro MAC0, 0\n@db 1\n@endmacro\n@macro MAC1, 1, Q\n@dw Q\n@endmacro\n@macro MAC2, 2, Q, R\n@db Q\n R \n@endmacro\n"
    n_tok = 12000 if tier == "quick" else 400000
    vocab = {a: vocabulary(a) for a in ("6502", "z80", "sm83")}
    for _ in range(n_tok):
        arch = rng.choice(["6502", "z80", "sm83"])
        toks = [rng.choice(vocab[arch]) for _ in range(rng.randint(1, 30))]
        cases.append((arch, (header + " ".join(toks) + "\n").encode(), rng.choice(["", "export=json"]), "tokens"))
    # literal forms and macro arguments at their extremes (lengths in characters vs bytes, escapes,
    # empty and nested brace groups): all short combinations
    import itertools
    pieces = ["a", "é", "€", "😀", "\\$ff", "\\$41", "\\n", "\\\\", "\\'"]
    for n in range(0, 6):
        combos = list(itertools.product(pieces, repeat=n))
        if n > 3:
            combos = rng.sample(combos, 400 if tier == "quick" else 6000)
        for cmb in combos:
            body = "".join(cmb)
            arch = rng.choice(["6502", "z80", "sm83"])
            cases.append((arch, f"@db '{body}'\n".encode(), "", "literals"))
            if n <= 3 or rng.random() < 0.3:
                cases.append((arch, ('@db "' + body.replace("\\'", '\\"') + '"\n').encode(), "", "literals"))
    argp = ["{}", "{ }", "{{}}", "{{ }}", "{,}", "5", "{5}", "{5 6}", "{{5}}", '"s"', "{@db 1}", "{\n}", "", "{", "}", "MAC0", "{MAC0}", "{MAC1 {}}"]
    for a in argp:
        for arch in ("6502", "z80", "sm83"):
            cases.append((arch, (header + f"MAC1 {a}\n@db 9\n").encode(), "", "macro-args"))
            for b in argp:
                cases.append((arch, (header + f"MAC2 {a}, {b}\n@db 9\n").encode(), "", "macro-args"))
    for a in argp:
        cases.append(("6502", (header + f"@each T, {a}\n@db T\n@endeach\n@string {a}\n@label {a}\n").encode(), "", "macro-args"))
    # selector operands (bit index, restart vector, interrupt mode) at and beyond their edges
    sel_vals = ["-$80000000", "-129", "-128", "-64", "-9", "-8", "-1", "0", "1", "7", "8", "9", "$38", "$39", "$40", "255", "256", "65536", "$7fffffff", "$ffffffff", "1-2", "later"]
    for arch, forms in (("z80", ["bit {0}, a", "res {0}, (hl)", "set {0}, (ix+1)", "rst {0}", "im {0}", "bit {0}, (iy+{0})", "res {0}, (ix+1), b"]),
                        ("sm83", ["bit {0}, a", "res {0}, a", "set {0}, (hl)", "rst {0}", "res {0}, (hl)", "stop {0}", "ldh a, ({0})", "add sp, {0}", "ld hl, sp+{0}"]),
                        ("6502", ["lda #{0}", "lda {0}", "lda ({0}), y", "lda ({0}, x)", "jmp ({0})", "bne {0}", "asl {0}, x", "ldx {0}, y"])):
        for f in forms:
            for v in sel_vals:
                cases.append((arch, (f"  {f.format(v)}\n@defl later, -1\n").encode(), "", "selectors"))
    # every directive form inside an ADDR segment, with and without operands / forward references
    addr_forms = ["@db", "@db 1", "@db fwd", '@db "s"', "@dw", "@dw 1", "@dw fwd", "@ds 2", "@ds 2, 1", "@ds 2, fwd", "@ds fwd", "@ds 0, fwd", "@align 4", "@align fwd",
                  "@org fwd", "@org $10", '@incbin "m.asm"', "@assert fwd", "@assert fwd == 5", "lab:", "@defl q, fwd", "@meta \"A\" \"B\"", "@struct S\n f 1\n@endstruct", "nop"]
    for a in addr_forms:
        for b in addr_forms:
            cases.append(("6502", f'@segment "ADDR"\n{a}\n{b}\n@segment "CODE"\n@db 1\n@defl fwd, 5\n'.encode(), "", "addr-segment"))
    # a deferred operand as the very last byte(s) of the image, for every operand form
    for arch in ("6502", "z80", "sm83"):
        for tmpl, pieces in G.INSTRS[arch]:
            nops = 1 + max([p[1] for p in pieces if not isinstance(p, int)], default=-1)
            if nops == 0:
                continue
            cases.append((arch, ("  nop\n  " + tmpl.format(*(["lastfwd"] * nops)) + "\n@defn lastfwd, 5\n").encode(), "", "deferred-last"))
    for f in ("ldh (lastfwd), a", "ldh a, (lastfwd)", "ld (lastfwd), a", "ld a, (lastfwd)", "jr lastfwd", "ld hl, lastfwd", "add sp, lastfwd"):
        cases.append(("sm83", (f"  nop\n  {f}\n@defn lastfwd, $ff05\n").encode(), "", "deferred-last"))
    faults = ["@endif\n", "@endmacro\n", "@endeach\n", "@endstruct\n", "}\n", "{\n", "@if 0\n", "@defn Z, Z\n", "@db 1/0\n", "Q: Q:\n", '@meta "@SIZEOF" "x"\n', "@each T, {\n", "@struct\n", "\\\n"]
    for _ in range(3000 if tier == "quick" else 60000):
        arch = rng.choice(["6502", "z80", "sm83"])
        g = G.Gen(rng, arch)
        stmts, src, files = g.program(rng.randint(2, 12))
        if files:
            continue
        lines = src.split("\n")
        for _ in range(rng.randint(1, 3)):
            lines.insert(rng.randrange(len(lines) + 1), rng.choice(faults).rstrip("\n"))
        cases.append((arch, "\n".join(lines).encode(), rng.choice(["", "export=json"]), "grammar+fault"))
    lines = []
    for i, (arch, data, opts, fam) in enumerate(cases):
        l = f"k{i}\tasm\t{arch}\t/\t/m.asm\t-\t/m.asm={data.hex()}"
        if opts:
            l += "\t" + opts
        lines.append(l)
    impl = C.run_guarded(C.AZH, lines)
    model = C.run_guarded(C.AZMODEL, [l.split("\texport=")[0] for l in lines], timeout=120)
    fam_hist, out_hist = {}, {}
    hangs = 0
    for i, (arch, data, opts, fam) in enumerate(cases):
        im = impl.get(f"k{i}", ["MISSING"])
        mo = model.get(f"k{i}", ["MISSING"])
        chk.evaluations += 1
        chk.distinct.add(data)
        fam_hist[fam] = fam_hist.get(fam, 0) + 1
        kind = im[0]
        out_hist[kind] = out_hist.get(kind, 0) + 1
        if kind == "HANG":
            hangs += 1
            low = data.lower().replace(header.encode().lower(), b"")      # (the fixed header's macros are not recursive)
            # (the property is about non-recursive macros and includes: an input that defines a macro or
            # includes a file may legitimately expand for ever, so only inputs without them count)
            if len(data) <= 4096 and b"@include" not in low and b"@macro" not in low:
                chk.violation(f"hang:{fam}", f"the assembler did not terminate on a {len(data)}-byte input ({arch}): {data[:300]!r}",
                              {"arch": arch, "source_hex": data.hex(), "source": data.decode("utf-8", "replace"), "opts": opts,
                               "how_to_rerun": "write the bytes to m.asm and run `timeout 10 az65 <arch> m.asm`"})
            else:
                chk.notes.append(f"hang (outside the size bound?): {data[:120]!r}")
            continue
        if kind in ("CRASH", "ABORT", "MISSING"):
            msg = C.unhexs(im[1]) if kind == "CRASH" and len(im) > 1 else " ".join(im[1:])
            site = re.search(r"(src/[\w/]+\.rs:\d+)", msg)
            chk.violation(f"crash:{site.group(1) if site else msg[:40]}", f"the assembler crashed ({kind}): {msg[-200:]}\ninput ({arch}): {data[:400]!r}",
                          {"arch": arch, "source_hex": data.hex(), "source": data.decode("utf-8", "replace"), "opts": opts, "panic": msg[-400:],
                           "how_to_rerun": "write the bytes to m.asm and run `az65 <arch> m.asm`"})
            continue
        if any(x.startswith("EXPORTERR") for x in im):
            pass
        # Model prediction (accepted / rejected); a Model crash or fuel exhaustion is a disagreement to look at
        mk = mo[0] if mo else "?"
        if mk == "HANG":
            continue
        mk2 = "ERR" if mk == "ERR" and not mo[1].startswith(("CRASH", "FUEL")) else mk
        if kind != mk2:
            chk.disagreements.append({"input": data[:300].decode("utf-8", "replace"), "arch": arch, "impl": im[:2], "model": mo[:2]})
    chk.samples += [{"family": cases[k][3], "input": cases[k][1][:200].decode("utf-8", "replace"), "impl": impl.get(f"k{k}", ["?"])[0]} for k in (5, len(DEGENERATE) * 3 + 7, len(cases) - 3)]
    chk.oblige("correspondence: accepted/rejected outcome of the implementation = Model on every input (a Model crash outcome counts as a disagreement)",
               not chk.disagreements, json.dumps(chk.disagreements[:2])[:900])
    chk.coverage.update({"families": fam_hist, "outcomes": out_hist, "hangs_outside_bounds": hangs, "exhaustive": False})
    chk.assumptions = ["stack exhaustion on deep but finite nesting, allocator failure on huge @count/@ds and panics inside std or dependencies are runtime behaviour the Model does not exhibit; generators keep repeat counts and sizes <= 4096 and macros non-recursive",
                       "the harness builds the crate with overflow-checks and debug-assertions on (the test profile), so arithmetic overflow panics are observed"]
    return chk.finish(
        checker_cmd="cd /verif/lean && lake build Az65.Thm.C13 && #print axioms audit",
        trusted_base=C.TRUSTED,
        rule="case = source bytes from four families: the listed degenerate programs, byte mutations of a seed corpus (the suite's sources + generated programs; incl. invalid UTF-8), random sequences over the complete token vocabulary of each CPU (regenerated tables) after a header of non-recursive macros, grammar programs with injected faults; run in-process under catch_unwind, an abort of the worker is detected and attributed; any abnormal end is a violation by definition; distinct = distinct byte strings")


def replay(path):
    r = json.load(open(path))
    C.build_harness()
    print(C.run_impl([f"r\tasm\t{r['arch']}\t/\t/m.asm\t-\t/m.asm={r['source_hex']}" + (("\t" + r["opts"]) if r.get("opts") else "")]))
    return 0

"""C05 — a symbol defined later gives the same result as one defined earlier."""
import random

from . import common as C
from . import core
from . import asmdiff as A
from . import proggen as G

BYTE_VALS = [0, 1, 0x7F, 0x80, 0xFF, 0x100, 0xFFFF, -1, -128, 0x10000]
WORD_VALS = [0, 1, 0xFF, 0x100, 0x7FFF, 0x8000, 0xFFFF, 0x10000, -1, 0x7FFFFFFF]
HIGH_VALS = [0, 0x10, 0xFF, 0x100, 0xFEFF, 0xFF00, 0xFF10, 0xFFFF, 0x10000, -1]   # sm83 ldh
EXTRA_SITES = {   # operand sites beyond the shared vocabulary: (template, field kind)
    "sm83": [("ldh a, ({0})", "h", [0xF0]), ("ldh ({0}), a", "h", [0xE0]), ("add sp, {0}", "b", [0xE8]), ("ld hl, sp+{0}", "b", [0xF8])],
    "z80": [("bit 1, (iy+{0})", "b3", [0xFD, 0xCB]), ("ld (iy+{0}), a", "b", [0xFD, 0x77]), ("in a, ({0})", "b", [0xDB])],
    "6502": [("cmp #{0}", "b", [0xC9]), ("jmp ({0})", "w", [0x6C]), ("jsr {0}+0", "w", None)],
}


def sites(arch):
    """every operand site of the instruction vocabularies + data directives: (name, render(opnd text) -> line, kind)"""
    out = []
    for tmpl, pieces in G.INSTRS[arch]:
        fields = [(p[0], p[1]) for p in pieces if not isinstance(p, int)]
        for kind, k in fields:
            def line(t, tmpl=tmpl, k=k, fields=fields):
                ops = ["1"] * (max(f[1] for f in fields) + 1)
                ops[k] = t
                return "  " + tmpl.format(*ops)
            out.append((f"{tmpl}#{k}", line, kind))
    for tmpl, kind, _ in EXTRA_SITES[arch]:
        out.append((tmpl, (lambda t, tmpl=tmpl: "  " + tmpl.format(t)), kind))
    out += [("@db", lambda t: f"@db 1, {t}, 2", "b"), ("@dw", lambda t: f"@dw {t}, 3", "w"),
            ("@db last", lambda t: f"@db 1, {t}", "b"), ("@dw last", lambda t: f"@dw 3, {t}", "w"), ("@dw only", lambda t: f"@dw {t}", "w"), ("@ds 0 fill", lambda t: f"@ds 0, {t}", "b"), ("@ds 1 fill", lambda t: f"@ds 1, {t}", "b"),
            ("@ds fill", lambda t: f"@ds 3, {t}", "b"), ("@assert", lambda t: f"@assert {t} == {t}", "a"),
            ("@assert0", lambda t: f"@assert {t} - {t}", "a"),
            ("@assert-neg", lambda t: f"@assert {t} - 9", "a"), ("@assert-neg2", lambda t: f"@assert 0 - {t} - 1", "a")]
    return out


def run(tier, seed):
    chk = C.Check("C05", tier, seed)
    C.std_setup(chk)
    rng = random.Random(seed)
    lines = []
    meta = []
    for arch in ("6502", "z80", "sm83"):
        for name, render, kind in sites(arch):
            vals = {"b": BYTE_VALS, "b3": BYTE_VALS, "w": WORD_VALS, "h": HIGH_VALS, "a": [0, 5], "r": None}[kind]
            if vals is None:
                vals = [0x1002 + d for d in (-129, -128, -1, 0, 127, 128)]
            for v in vals:
                for chained in (False, True):
                    vt = f"${v:x}" if v >= 0 else f"-{-v}"
                    defs = f"@defl sym, {vt}\n" if not chained else f"@defl sym, other + 1\n@defn other, {vt} - 1\n"
                    body = "@org $1000\n" + render("sym") + "\n@db $EE\n"
                    variants = {"before": defs + body, "after": body + defs, "never": body}
                    for vn, src in variants.items():
                        cid = f"d{len(lines)}"
                        lines.append(A.case_line(cid, arch, {"/m.asm": src}, opts="links"))
                        meta.append((cid, arch, name, kind, v, chained, vn, src))
    impl, model = A.run_both(lines)
    top_render = {}
    for arch in ("6502", "z80", "sm83"):
        for name, render, kind in sites(arch):
            if kind != "r":
                top_render[name] = render
    groups = {}
    for cid, arch, name, kind, v, chained, vn, src in meta:
        im = A.parse_impl(impl.get(cid))
        mo = A.parse_model(model.get(cid))
        chk.evaluations += 1
        chk.distinct.add((arch, name, v, chained, vn))
        if not A.agree(im, mo):
            chk.disagreements.append({"src": src, "impl": str(im)[:200], "model": str(mo)[:200]})
        groups.setdefault((arch, name, v, chained), {})[vn] = (im, src)
        # hook observation on the implementation: pending links lie inside the pre-link image, are
        # pairwise disjoint and still hold zero placeholders
        for x in im.get("extra", []):
            if x.startswith("LINKS "):
                ltxt, pre = x[6:].split(" PRE ")
                img = bytes.fromhex(pre)
                ranges = []
                for l in filter(None, ltxt.split(",")):
                    k, off, ln = (int(t) for t in l.split(":"))
                    if k == 4:
                        continue
                    if off + ln > len(img) or any(img[off:off + ln]):
                        chk.violation(f"links:{arch}:{name}", f"pending link ({k},{off},{ln}) outside the image or not a zero placeholder; program:\n{src}",
                                      {"arch": arch, "source": src, "links": ltxt, "pre_image": pre})
                    ranges.append((off, off + ln))
                ranges.sort()
                for a, b in zip(ranges, ranges[1:]):
                    if a[1] > b[0]:
                        chk.violation(f"links-overlap:{arch}:{name}", f"pending links overlap {a} {b}; program:\n{src}",
                                      {"arch": arch, "source": src, "links": ltxt})
    for (arch, name, v, chained), g in groups.items():
        b, a, n = g["before"][0], g["after"][0], g["never"][0]
        bad = None
        if "CRASH" in (b["kind"], a["kind"], n["kind"]) or "ABORT" in (b["kind"], a["kind"], n["kind"]):
            bad = "assembler crashed"
        elif b["kind"] != a["kind"]:
            bad = f"defined first: {b['kind']} {b.get('bytes', b.get('cls'))}; defined later: {a['kind']} {a.get('bytes', a.get('cls'))} — acceptance differs"
        elif b["kind"] == "OK" and b["bytes"] != a["bytes"]:
            bad = f"defined first gives {b['bytes']}, defined later gives {a['bytes']}"
        elif n["kind"] == "OK":
            bad = f"a reference that is never defined was assembled: {n['bytes']}"
        if bad:
            chk.violation(f"later:{arch}:{name}:{'chain' if chained else 'direct'}", f"{bad}; site `{name}` value {v} ({'chained' if chained else 'direct'} definition)\n{g['after'][1]}",
                          {"arch": arch, "source": g["after"][1], "source_before": g["before"][1], "impl_after": {k: x for k, x in a.items() if k != 'msg'},
                           "impl_before": {k: x for k, x in b.items() if k != 'msg'}})
    # the same sites placed so that the statement ends exactly at the top of memory ($10000): the
    # deferred form must still be accepted there, and rejected one byte further up, like the immediate one
    top_lines, top_meta = [], []
    for (arch, name, v, chained), g in groups.items():
        b = g["before"][0]
        if chained or b["kind"] != "OK" or name not in top_render:
            continue
        ln = len(b["bytes"]) // 2 - 1              # the statement itself (the run above appends one @db)
        if ln <= 0:
            continue                                # (@assert places nothing; `@org $10000` is not a placement)
        vt = f"${v:x}" if v >= 0 else f"-{-v}"
        for d in (0, 1):
            body = f"@org ${0x10000 - ln + d:x}\n" + top_render[name]("sym") + "\n"
            for vn, src in (("before", f"@defl sym, {vt}\n" + body), ("after", body + f"@defl sym, {vt}\n")):
                cid = f"t{len(top_lines)}"
                top_lines.append(A.case_line(cid, arch, {"/m.asm": src}))
                top_meta.append((cid, arch, name, v, d, vn, src))
    timpl, tmodel = A.run_both(top_lines)
    tg = {}
    for cid, arch, name, v, d, vn, src in top_meta:
        im = A.parse_impl(timpl.get(cid))
        mo = A.parse_model(tmodel.get(cid))
        chk.evaluations += 1
        chk.distinct.add(("top", arch, name, v, d, vn))
        if not A.agree(im, mo):
            chk.disagreements.append({"src": src, "impl": str(im)[:200], "model": str(mo)[:200]})
        tg.setdefault((arch, name, v, d), {})[vn] = (im, src)
    for (arch, name, v, d), g in tg.items():
        b, a = g["before"][0], g["after"][0]
        bad = None
        if b["kind"] != a["kind"]:
            bad = f"at the top of memory (end at $10000{'+1' if d else ''}): defined first {b['kind']} {b.get('cls', '')}, defined later {a['kind']} {a.get('cls', '')}"
        elif b["kind"] == "OK" and b["bytes"] != a["bytes"]:
            bad = f"at the top of memory: defined first gives {b['bytes']}, defined later gives {a['bytes']}"
        elif d == 0 and b["kind"] != "OK":
            bad = f"a statement ending exactly at $10000 is rejected ({b.get('cls')})"
        if bad:
            chk.violation(f"top:{arch}:{name}:{d}", f"{bad}; site `{name}` value {v}\n{g['after'][1]}",
                          {"arch": arch, "source": g["after"][1], "source_before": g["before"][1]})
    # constructs that need their value immediately
    now_cases = []
    for arch in ("6502", "z80", "sm83"):
        forms = ["@org {0}", "@ds {0}", "@align {0}", "@if {0}\n@db 1\n@endif", "@each T, {{@count {0}}}\n@db T\n@endeach",
                 "@struct S\n f {0}\n@endstruct", "@db @hex {0}"]
        if arch != "6502":
            forms += ["  bit {0}, a", "  rst {0}", "  set {0}, b"]
        for f in forms:
            for vn in ("before", "after"):
                body = f.format("sym") + "\n"
                src = ("@defl sym, 2\n" + body) if vn == "before" else (body + "@defl sym, 2\n")
                if "rst" in f:
                    src = src.replace("@defl sym, 2", "@defl sym, 8")
                now_cases.append((arch, f, vn, src))
    nl = [A.case_line(f"n{i}", a, {"/m.asm": s}) for i, (a, f, vn, s) in enumerate(now_cases)]
    impl2, model2 = A.run_both(nl)
    for i, (arch, f, vn, src) in enumerate(now_cases):
        im = A.parse_impl(impl2.get(f"n{i}"))
        mo = A.parse_model(model2.get(f"n{i}"))
        chk.evaluations += 1
        chk.distinct.add((arch, f, vn))
        if not A.agree(im, mo):
            chk.disagreements.append({"src": src, "impl": str(im)[:200], "model": str(mo)[:200]})
        if vn == "after" and im["kind"] != "ERR":
            chk.violation(f"needs-now:{arch}:{f[:12]}", f"a construct that needs its value immediately accepted a not-yet-defined symbol ({im['kind']}):\n{src}",
                          {"arch": arch, "source": src, "impl": {k: x for k, x in im.items() if k != 'msg'}})
        if vn == "before" and im["kind"] != "OK":
            chk.violation(f"needs-now-before:{arch}:{f[:12]}", f"rejected although the symbol is defined first ({im.get('msg', '')[-80:]}):\n{src}",
                          {"arch": arch, "source": src, "impl": {k: x for k, x in im.items() if k != 'msg'}})
    # random programs with planned (later-defined) names through all four implementations
    cases = []
    for i in range(400 if tier == "quick" else 6000):
        arch = rng.choice(["6502", "z80", "sm83"])
        g = G.Gen(rng, arch, allow_unknown=True)
        g.planned = [g.new_name() for _ in range(rng.randint(1, 3))]
        stmts, src, files = g.program(rng.randint(4, 20))
        cases.append({"arch": arch, "stmts": stmts, "src": src, "files": files, "note": "random"})
    core.run_cases(chk, cases, "r", opts="links")
    chk.samples += [{"source": meta[k][7], "variant": meta[k][6], "impl": str(A.parse_impl(impl.get(meta[k][0])))[:150]} for k in (4, len(meta) // 2, len(meta) - 2)]
    chk.oblige("correspondence: implementation = Model on every before/after/never variant, incl. pending links (kind, offset, length) and the pre-link image via the az65_verif hook",
               not chk.disagreements, str(chk.disagreements[:2])[:800])
    chk.coverage.update({"exhaustive": True, "sites": sum(len(sites(a)) for a in ("6502", "z80", "sm83")),
                         "exhaustive_note": "every operand site of the three instruction vocabularies + extra sites (ldh high page, sp+e, (iy+d) bit forms, indirect jmp) + @db/@dw/@ds-fill/@assert x boundary values of the field x {defined before, after, never} x {direct, chained definition}; needs-now constructs x {before, after}. The full per-form known/later product over every instruction form of the ISAs is run by C01–C03."})
    chk.assumptions = ["6502 direct operands (zero-page vs absolute) are excluded: C03 requires them to differ"]
    return chk.finish(
        checker_cmd="cd /verif/lean && lake build Az65.Thm.C05 && #print axioms audit",
        trusted_base=C.TRUSTED + ["hooks Module::verif_links / verif_image report pending links and the pre-link image faithfully"],
        rule="case = (operand site, value, definition placement, direct|chained); the implementation run on the `before` variant is compared with the `after` variant (no model involved), `never` must be rejected; distinct = distinct (cpu, site, value, chain, placement)")


replay = core.replay

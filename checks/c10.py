"""C10 — invoking a macro is equivalent to substituting its arguments into its body."""
import random

from . import common as C
from . import core
from . import asmdiff as A

# tokens are strings; ('P', i) is a parameter slot inside a macro body


class Macro:
    def __init__(self, name, params, body, kind):
        self.name, self.params, self.body, self.kind = name, params, body, kind   # kind: 'stmt' | 'expr'


def subst(tokens, args):
    out = []
    for t in tokens:
        if isinstance(t, tuple) and t[0] == "P":
            out += args[t[1]]
        elif isinstance(t, tuple) and t[0] == "CALL":
            out.append(("CALL", t[1], [subst(a, args) for a in t[2]]))
        else:
            out.append(t)
    return out


class Gen:
    def __init__(self, rng):
        self.rng = rng
        self.macros = []
        self.src = []       # source lines with macros
        self.flat = []      # reference expansion, one statement per line
        self.n = 0
        self.consts = []
        self.features = {"params": {}, "param_reuse": 0, "unused_param": 0, "brace_arg": 0, "nested_call": 0, "arg_has_call": 0,
                         "macro_defines_macro": 0, "param_name_as_arg": 0, "nested_braces": 0, "depth": {}}

    def fresh(self, p):
        self.n += 1
        return f"{p}{self.n}"

    # ---- expressions as token lists (fully parenthesised where needed, so splicing is precedence-safe
    #      exactly when the substitution says so: we do NOT add parentheses around parameters)
    def atom(self, params, depth):
        r = self.rng.random()
        if params and r < 0.5:
            i = self.rng.randrange(len(params))
            self.used.add(i)
            return [("P", i)]
        if self.consts and r < 0.65:
            return [self.rng.choice(self.consts)]
        exprmacs = [m for m in self.macros if m.kind == "expr" and self.level(m) < depth] if depth > 0 else []
        if exprmacs and r < 0.8:
            m = self.rng.choice(exprmacs)
            self.features["nested_call"] += 1 if params is not None else 0
            return ["("] + [("CALL", m, [self.arg(params, depth - 1) for _ in m.params])] + [")"]
        return [str(self.rng.choice([0, 1, 2, 3, 5, 7, 9, 16, 100]))]

    def expr(self, params, depth):
        toks = self.atom(params, depth)
        for _ in range(self.rng.randint(0, 2)):
            toks += [self.rng.choice(["+", "*", "-", "&", "|"])] + self.atom(params, depth)
        return toks

    def level(self, m):
        lv = 0
        for t in walk(m.body):
            if isinstance(t, tuple) and t[0] == "CALL":
                lv = max(lv, 1 + self.level(t[1]))
        return lv

    def arg(self, params, depth):
        """an argument: a single token, or a brace group of several tokens"""
        r = self.rng.random()
        if r < 0.4:
            a = self.atom(params, depth)
            if len(a) == 1:
                return a
        return self.expr(params, depth)

    def define_macro(self, depth):
        rng = self.rng
        kind = "expr" if rng.random() < 0.35 else "stmt"
        np_ = rng.randint(0, 4)
        name = self.fresh("MX" if kind == "expr" else "MS")
        params = [self.fresh("PA") for _ in range(np_)]
        self.used = set()
        if kind == "expr":
            body = ["("] + self.expr(params, depth) + [")"]
        else:
            body = []
            for _ in range(rng.randint(1, 3)):
                r = rng.random()
                stmts = [m for m in self.macros if m.kind == "stmt" and self.level(m) < depth]
                if stmts and r < 0.3:
                    m = rng.choice(stmts)
                    body.append(("CALL", m, [self.arg(params, depth - 1) for _ in m.params]))
                    self.features["nested_call"] += 1
                else:
                    items = [self.expr(params, depth) for _ in range(rng.randint(1, 3))]
                    body.append(("DB", items))
        # usage statistics
        cnt = {}
        for t in walk(body):
            if isinstance(t, tuple) and t[0] == "P":
                cnt[t[1]] = cnt.get(t[1], 0) + 1
        self.features["param_reuse"] += sum(1 for v in cnt.values() if v > 1)
        self.features["unused_param"] += sum(1 for i in range(np_) if i not in cnt)
        self.features["params"][np_] = self.features["params"].get(np_, 0) + 1
        m = Macro(name, params, body, kind)
        self.macros.append(m)
        return m

    # ---- rendering
    def render_tokens(self, toks, params):
        out = []
        for t in toks:
            if isinstance(t, tuple) and t[0] == "P":
                out.append(params[t[1]])
            elif isinstance(t, tuple) and t[0] == "CALL":
                out.append(self.render_call(t[1], t[2], params))
            else:
                out.append(t)
        return " ".join(out)

    def render_arg(self, a, params):
        s = self.render_tokens(a, params)
        # a parameter slot or an invocation may stand for several tokens: such an argument is always
        # written as a brace group (an unbraced argument is exactly one token, by the substitution rule)
        multi = len(a) != 1 or isinstance(a[0], tuple)
        if any(isinstance(t, tuple) and t[0] == "CALL" for t in a):
            self.features["arg_has_call"] += 1
        if multi:
            self.features["brace_arg"] += 1
            return "{ " + s + " }"
        return s

    def render_call(self, m, args, params):
        return (m.name + " " + ", ".join(self.render_arg(a, params) for a in args)).strip()

    def render_body(self, m):
        lines = []
        if m.kind == "expr":
            return [self.render_tokens(m.body, m.params)]
        for st in m.body:
            if st[0] == "DB":
                lines.append("@db " + ", ".join("( " + self.render_tokens(e, m.params) + " ) & $ff" for e in st[1]))
            else:
                lines.append(self.render_call(st[1], st[2], m.params))
        return lines

    # ---- reference expansion (substitution on token lists)
    def expand_tokens(self, toks):
        """fully expand a token list that contains no parameter slots"""
        out = []
        for t in toks:
            if isinstance(t, tuple) and t[0] == "CALL":
                args = [self.expand_tokens(a) for a in t[2]]      # arguments are expanded once, at the call
                out += self.expand_tokens(subst(t[1].body, args)) if t[1].kind == "expr" else ["<stmt-macro-in-expr>"]
            else:
                out.append(t)
        return out

    def expand_call(self, m, args, depth=0):
        self.features["depth"][depth] = self.features["depth"].get(depth, 0) + 1
        args = [self.expand_tokens(a) for a in args]
        lines = []
        for st in m.body:
            if st[0] == "DB":
                items = [self.expand_tokens(subst(e, args)) for e in st[1]]
                lines.append("@db " + ", ".join("( " + " ".join(e) + " ) & $ff" for e in items))
            else:
                sub_args = [subst(a, args) for a in st[2]]
                lines += self.expand_call(st[1], sub_args, depth + 1)
        return lines

    def program(self):
        rng = self.rng
        # constants usable as arguments; one of them is deliberately named like a parameter later
        for _ in range(rng.randint(1, 3)):
            c = self.fresh("KON")
            v = rng.randint(0, 50)
            self.consts.append(c)
            self.src.append(f"@defn {c}, {v}")
            self.flat.append(f"@defn {c}, {v}")
        for _ in range(rng.randint(1, 5)):
            depth = rng.randint(0, 3)
            m = self.define_macro(depth)
            hdr = f"@macro {m.name}, {len(m.params)}" + "".join(", " + p for p in m.params)
            if rng.random() < 0.12 and m.kind == "stmt":
                # the macro is defined by another macro
                outer = self.fresh("MD")
                self.src += [f"@macro {outer}, 0", hdr] + self.render_body(m) + ["@endmacro", "@endmacro", outer]
                self.features["macro_defines_macro"] += 1
            else:
                self.src += [hdr] + self.render_body(m) + ["@endmacro"]
            # a constant named exactly like a parameter, passed as an argument: must not be re-scanned
            if m.params and rng.random() < 0.3:
                p = m.params[0]
                self.src.append(f"@defn {p}, 77")
                self.flat.append(f"@defn {p}, 77")
                self.consts.append(p)
                self.features["param_name_as_arg"] += 1
            # invocations
            for _ in range(rng.randint(1, 3)):
                self.used = set()
                args = [self.arg(None, 3) for _ in m.params]
                if m.kind == "stmt":
                    self.src.append(self.render_call(m, args, None))
                    self.flat += self.expand_call(m, args)
                else:
                    call = ("CALL", m, args)
                    self.src.append("@db ( " + self.render_tokens([call], None) + " ) & $ff")
                    self.flat.append("@db ( " + " ".join(self.expand_tokens([call])) + " ) & $ff")
        return "\n".join(self.src) + "\n", "\n".join(self.flat) + "\n"


def brace(tokens, k):
    return "{ " * k + " ".join(tokens) + " }" * k if k else " ".join(tokens)


def forwarding_program(rng, feats):
    """arguments handed on from macro to macro: a group that travels through d invocations is written
    with d+1 levels of braces, each invocation strips exactly one"""
    d = rng.randint(1, 3)
    n = rng.randint(1, 2)
    names = [f"FW{j}" for j in range(d + 1)]
    src, flat = [], []
    # innermost: uses its parameters as expression pieces and/or as a group of statements
    kinds = [rng.choice(["expr", "stmts", "items"]) for _ in range(n)]
    pars = [f"G{i}" for i in range(n)]
    src.append(f"@macro {names[0]}, {n}, " + ", ".join(pars))
    body0 = []
    for i, k in enumerate(kinds):
        if k == "expr":
            body0.append(("@db ( ", i, " ) * 2 & $ff"))
        elif k == "items":
            body0.append(("@db $e0, ", i, ", $e1"))
        else:
            body0.append(("@db $50\n", i, "\n@db $51"))
    for a, i, b in body0:
        src.append(a.replace("\\n", "\n") + pars[i] + b.replace("\\n", "\n"))
    src.append("@endmacro")
    # forwarders: hand their own parameters on (possibly permuted / repeated)
    maps = []
    for j in range(1, d + 1):
        pj = [f"H{j}_{i}" for i in range(n)]
        mp = [rng.randrange(n) for _ in range(n)] if rng.random() < 0.4 else list(range(n))
        # a parameter may only be handed to a position of the same kind
        mp = [m if kinds_at(kinds, maps, m) == kinds_at(kinds, maps, i) else i for i, m in enumerate(mp)]
        maps.append(mp)
        src.append(f"@macro {names[j]}, {n}, " + ", ".join(pj))
        src.append(f"@db ${0xa0 + j:x}")
        src.append(f"{names[j - 1]} " + ", ".join(pj[m] for m in mp))
        src.append(f"@db ${0xb0 + j:x}")
        src.append("@endmacro")
    for _ in range(rng.randint(1, 2)):
        args = []
        for i in range(n):
            k = kinds_at(kinds, maps, i)
            if k == "expr":
                toks = rng.choice([["7"], ["1", "+", "2"], ["(", "3", ")", "*", "4"]])
            elif k == "items":
                toks = rng.choice([["5"], ["5", ",", "6"], ["1", "+", "1", ",", "9"]])
            else:
                toks = rng.choice([["@db", "$10"], ["@db", "$10", "\n", "@db", "$11"], ["@db", "1", ",", "2"]])
            if len(toks) == 1:
                lv = rng.randint(0, d + 1)
            else:
                lv = d + 1
            if lv >= 2:
                feats["nested_braces"] += 1
            args.append((toks, lv))
        src.append(f"{names[d]} " + ", ".join(brace([t for t in toks if t != "\n"], lv) for toks, lv in args))
        feats["forwarded_args"] = feats.get("forwarded_args", 0) + n
        # reference: walk the chain
        cur = [a[0] for a in args]
        pre, post = [], []
        for j in range(d, 0, -1):
            pre.append(f"@db ${0xa0 + j:x}")
            post.insert(0, f"@db ${0xb0 + j:x}")
            cur = [cur[m] for m in maps[j - 1]]
        flat += pre
        for a, i, b in body0:
            flat.append((a + " ".join(cur[i]) + b).replace("\\n", "\n").replace(" \n ", "\n"))
        flat += post
    return "\n".join(src) + "\n", "\n".join(flat) + "\n"


def kinds_at(kinds, maps, i):
    """kind of parameter i of the next forwarder, given the maps of the forwarders below it"""
    for mp in reversed(maps):
        i = mp[i]
    return kinds[i]


def tailcall_program(rng, feats):
    """a macro whose body ENDS with the bare name of another macro: that invocation takes its
    arguments from what follows the outer invocation (pure token substitution)"""
    n = rng.randint(1, 2)
    depth = rng.randint(1, 3)
    src, flat = [], []
    pars = [f"TP{i}" for i in range(n)]
    src += [f"@macro TINNER, {n}, " + ", ".join(pars), "@db " + ", ".join(f"( {p} ) & $ff" for p in pars), "@endmacro"]
    prev = "TINNER"
    ks = []
    for j in range(depth):
        k = rng.randint(0, 1)
        ks.append(k)
        name = f"TOUT{j}"
        src.append(f"@macro {name}, {k}" + (", TQ" if k else ""))
        src.append(f"@db ${0xc0 + j:x}" + (", ( TQ ) & $ff" if k else ""))
        src.append(prev)
        src.append("@endmacro")
        prev = name
    for _ in range(rng.randint(1, 3)):
        qs = [rng.choice([["9"], ["4", "+", "1"]]) for _ in range(depth)]
        ins = [rng.choice([["2"], ["1", "+", "2"], ["$30"]]) for _ in range(n)]
        call = prev
        # own arguments of the outermost first, then of each inner one in turn, then TINNER's
        for j in range(depth - 1, -1, -1):
            if ks[j]:
                call += " " + brace(qs[j], 1 if len(qs[j]) > 1 else 0)
        call += " " + ", ".join(brace(a, 1 if len(a) > 1 else 0) for a in ins)
        src.append(call)
        src.append("@db $fe")
        for j in range(depth - 1, -1, -1):
            flat.append(f"@db ${0xc0 + j:x}" + (", ( " + " ".join(qs[j]) + " ) & $ff" if ks[j] else ""))
        flat.append("@db " + ", ".join("( " + " ".join(a) + " ) & $ff" for a in ins))
        flat.append("@db $fe")
        feats["tail_calls"] = feats.get("tail_calls", 0) + 1
    return "\n".join(src) + "\n", "\n".join(flat) + "\n"


def deep_definer_program(rng, feats):
    """macro definitions nested three deep (each level takes a parameter used by the innermost body)"""
    src = ["@macro L1, 1, A1", "@db A1", "@macro L2, 1, A2", "@db A1, A2", "@macro L3, 1, A3", "@db A1, A2, A3", "@endmacro", "@db $d2", "@endmacro", "@db $d1", "@endmacro"]
    flat = []
    a1, a2, a3 = (str(rng.randint(1, 9)) for _ in range(3))
    src += [f"L1 {a1}", f"L2 {a2}", f"L3 {a3}", f"L3 {a1}"]
    flat += [f"@db {a1}", "@db $d1", f"@db {a1}, {a2}", "@db $d2", f"@db {a1}, {a2}, {a3}", f"@db {a1}, {a2}, {a1}"]
    feats["nested_three_deep"] = feats.get("nested_three_deep", 0) + 1
    return "\n".join(src) + "\n", "\n".join(flat) + "\n"


def multiline_args_program(rng, feats):
    """line breaks and comments between the arguments of an invocation (outside braces) are skipped"""
    src = ["@macro PAIR, 2, PX, PY", "@db PX", "@db $60", "@db PY", "@endmacro", "@macro TRI, 3, PX, PY, PZ", "@db PX, PY, PZ", "@endmacro"]
    flat = []
    for _ in range(rng.randint(1, 3)):
        x, y, z = (rng.choice(["$11", "7", "{ 1 + 2 }", "$22"]) for _ in range(3))
        gap = lambda: rng.choice([" ", " ; note\n  ", "\n", "\n\n   ", " ; a\n ; b\n "])
        if rng.random() < 0.5:
            src.append(f"PAIR {x},{gap()}{y}")
            flat += [f"@db {x.strip('{} ')}", "@db $60", f"@db {y.strip('{} ')}"]
        else:
            src.append(f"TRI {x},{gap()}{y},{gap()}{z}")
            flat.append(f"@db {x.strip('{} ')}, {y.strip('{} ')}, {z.strip('{} ')}")
        src.append("@db $fd")
        flat.append("@db $fd")
        feats["args_over_lines"] = feats.get("args_over_lines", 0) + 1
    return "\n".join(src) + "\n", "\n".join(flat) + "\n"


def empty_arg_program(rng, feats):
    """empty brace groups as arguments: the parameter expands to nothing, the rest of the body follows"""
    src = ["@macro E2, 2, EA, EB", "@db $a0", "EA", "@db $a1", "EB", "@db $a2", "@endmacro",
           "@macro E1, 1, EC", "@db 1, 2 EC", "@db $b0", "@endmacro"]
    flat = []
    for _ in range(rng.randint(2, 4)):
        a, b = (rng.choice(["{}", "{ }", "{ @db 9 }", "{ @db 7, 8 }"]) for _ in range(2))
        src.append(f"E2 {a}, {b}")
        flat.append("@db $a0")
        if "@db" in a:
            flat.append(a.strip("{} "))
        flat.append("@db $a1")
        if "@db" in b:
            flat.append(b.strip("{} "))
        flat.append("@db $a2")
        c = rng.choice(["{}", "{ }", "{ , 3 }"])
        src.append(f"E1 {c}")
        flat.append("@db 1, 2" + (" , 3" if "3" in c else ""))
        flat.append("@db $b0")
        feats["empty_args"] = feats.get("empty_args", 0) + 1
    return "\n".join(src) + "\n", "\n".join(flat) + "\n"


def misc_macro_program(rng, feats):
    """(a) a macro with parameters and an EMPTY body: the arguments are consumed, nothing is produced;
    (b) a macro defined by a macro whose body BEGINS with an invocation of an existing macro handing a
    parameter on (nothing is expanded while a body is being recorded)"""
    src = ["@macro TRACE, 1, TX", "@endmacro", "@macro TRACE2, 2, TX, TY", "@endmacro",
           "@macro PASS, 1, PQ", "@db PQ", "@endmacro",
           "@macro MKP, 1, NM", "@macro NM, 1, TT", "PASS TT", "@db 7", "@endmacro", "@endmacro"]
    flat = []
    for _ in range(rng.randint(1, 3)):
        r = rng.random()
        if r < 0.3:
            src.append(f"TRACE {rng.choice(['{ @db $bb }', '5', '{}', '{ 1, 2 }'])}")
        elif r < 0.5:
            src.append("@db 1, TRACE - 2")
            flat.append("@db 1, 2")
        elif r < 0.7:
            src.append("TRACE2 { @db 1 }, 9")
        else:
            nm = f"mk{len(src)}"
            a = rng.choice(["{ 3, 4 }", "5", "{ 1 + 1 }"])
            src += [f"MKP {nm}", f"{nm} {a}"]
            flat += ["@db " + a.strip("{} "), "@db 7"]
        src.append("@db $fc")
        flat.append("@db $fc")
        feats["empty_body_or_leading_call"] = feats.get("empty_body_or_leading_call", 0) + 1
    return "\n".join(src) + "\n", "\n".join(flat) + "\n"


def definer_program(rng, feats):
    """a macro with parameters that defines another macro: the outer parameters are substituted in
    the nested definition's name, parameter count position excluded, and body"""
    src, flat = [], []
    dn = rng.choice(["DEFINE", "MK"])
    two = rng.random() < 0.5
    src.append(f"@macro {dn}, {3 if two else 2}, NM, VAL" + (", VB" if two else ""))
    src.append("@macro NM, 1, TAIL")
    src.append("@db VAL, TAIL" + (", VB" if two else ""))
    if rng.random() < 0.5:
        src.append("@db ( VAL ) + ( TAIL ) & $ff")
        extra = True
    else:
        extra = False
    src.append("@endmacro")
    run_inside = rng.random() < 0.5
    if run_inside:
        src.append("NM $77")          # the macro just defined, invoked through the parameter that named it
        feats["definer_runs_made"] = feats.get("definer_runs_made", 0) + 1
    src.append("@endmacro")
    made = []
    for k in range(rng.randint(1, 3)):
        nm = f"made{k}"
        val = rng.choice([["5"], ["1", "+", "2"], ["$a1"]])
        vb = rng.choice([["$b2"], ["7", "*", "3"]])
        src.append(f"{dn} {nm}, {brace(val, 1 if len(val) > 1 else rng.randint(0, 1))}" + (f", {brace(vb, 1 if len(vb) > 1 else 0)}" if two else ""))
        made.append((nm, val, vb))
        if run_inside:
            flat.append("@db " + " ".join(val) + ", $77" + (", " + " ".join(vb) if two else ""))
            if extra:
                flat.append("@db ( " + " ".join(val) + " ) + ( $77 ) & $ff")
        feats["definer_with_params"] = feats.get("definer_with_params", 0) + 1
    for nm, val, vb in made:
        for _ in range(rng.randint(1, 2)):
            t = rng.choice([["$c3"], ["2", "+", "2"]])
            src.append(f"{nm} {brace(t, 1 if len(t) > 1 else 0)}")
            flat.append("@db " + " ".join(val) + ", " + " ".join(t) + (", " + " ".join(vb) if two else ""))
            if extra:
                flat.append("@db ( " + " ".join(val) + " ) + ( " + " ".join(t) + " ) & $ff")
    return "\n".join(src) + "\n", "\n".join(flat) + "\n"


def walk(body):
    for t in body:
        if isinstance(t, tuple) and t[0] == "DB":
            for e in t[1]:
                yield from walk(e)
        elif isinstance(t, tuple) and t[0] == "CALL":
            yield t
            for a in t[2]:
                yield from walk(a)
        else:
            yield t


def run(tier, seed):
    chk = C.Check("C10", tier, seed)
    C.std_setup(chk)
    rng = random.Random(seed)
    progs = []
    feats = None
    for _ in range(2000 if tier == "quick" else 30000):
        g = Gen(rng)
        if feats:
            g.features = feats
        src, flat = g.program()
        feats = g.features
        progs.append((src, flat))
    for _ in range(400 if tier == "quick" else 6000):
        progs.append(forwarding_program(rng, feats))
        progs.append(definer_program(rng, feats))
        progs.append(tailcall_program(rng, feats))
        progs.append(deep_definer_program(rng, feats))
        progs.append(multiline_args_program(rng, feats))
        progs.append(empty_arg_program(rng, feats))
        progs.append(misc_macro_program(rng, feats))
    corner = [
        ("@macro M, 0\n@db 1\n@endmacro\n@macro M, 0\n@db 2\n@endmacro\n", None),   # defining a macro twice is rejected
        ("@macro Z, 0\n@endmacro\nZ\n@db 9\n", "@db 9\n"),
        ("@macro T, 2, U, V\n@db U, V\n@endmacro\nT {5, 6}, 7\n", None),  # an argument `5, 6` spliced: `@db 5, 6, 7`
    ]
    corner[2] = ("@macro T, 2, U, V\n@db U, V\n@endmacro\nT {5, 6}, 7\n", "@db 5, 6, 7\n")
    lines = []
    for i, (src, flat) in enumerate(progs + corner):
        lines.append(A.case_line(f"m{i}", "6502", {"/m.asm": src}))
        if flat is not None:
            lines.append(A.case_line(f"f{i}", "6502", {"/m.asm": flat}))
    impl, model = A.run_both(lines)
    n_ok = 0
    for i, (src, flat) in enumerate(progs + corner):
        im = A.parse_impl(impl.get(f"m{i}"))
        mo = A.parse_model(model.get(f"m{i}"))
        chk.evaluations += 1
        chk.distinct.add(src)
        if not A.agree(im, mo):
            chk.disagreements.append({"src": src[:600], "impl": str(im)[:160], "model": str(mo)[:160]})
        if flat is None:
            if im["kind"] != "ERR":     # rejected with a diagnostic (the wording differs: the name is expanded while it is read)
                chk.violation("macro-twice", f"defining a macro twice was not rejected ({im['kind']} {im.get('cls')}):\n{src}",
                              {"arch": "6502", "source": src, "impl": {k: x for k, x in im.items() if k != 'msg'}})
            continue
        fl = A.parse_impl(impl.get(f"f{i}"))
        bad = None
        if im["kind"] in ("CRASH", "ABORT") or fl["kind"] in ("CRASH", "ABORT"):
            bad = "assembler crashed"
        elif fl["kind"] == "OK" and im["kind"] != "OK":
            bad = f"the program with macros is rejected ({im.get('msg', '').strip()[-100:]}) but its substitution expansion assembles to {fl['bytes']}"
        elif fl["kind"] == "OK" and im["bytes"] != fl["bytes"]:
            bad = f"with macros: {im['bytes']}; reference substitution: {fl['bytes']}"
        elif fl["kind"] != "OK" and im["kind"] == "OK":
            bad = f"the substitution expansion is rejected ({fl.get('cls')}) but the program with macros assembles"
        if im["kind"] == "OK":
            n_ok += 1
        if bad:
            chk.violation("subst:" + bad[:28], f"{bad}\n--- program ---\n{src}\n--- reference expansion ---\n{flat}",
                          {"arch": "6502", "source": src, "reference_expansion": flat, "impl": {k: x for k, x in im.items() if k != 'msg'},
                           "impl_on_expansion": {k: x for k, x in fl.items() if k != 'msg'}})
    chk.samples += [{"program": progs[k][0], "reference_expansion": progs[k][1]} for k in (3, len(progs) // 2)]
    chk.oblige("correspondence: implementation = Model (pump with macro recording and replay) on every program", not chk.disagreements,
               str(chk.disagreements[:2])[:800])
    chk.oblige("every generator feature was exercised", all(v for k, v in feats.items() if not isinstance(v, dict)), str({k: v for k, v in feats.items() if not isinstance(v, dict)}))
    chk.coverage.update({"features": {k: (v if not isinstance(v, dict) else {str(a): b for a, b in v.items()}) for k, v in (feats or {}).items()},
                         "accepted": n_ok, "exhaustive": False})
    chk.assumptions = ["bodies and arguments lose their line breaks when recorded; every statement form is self-delimiting, the reference expansion is rendered one statement per line",
                       "expression macros wrap their body in parentheses in the generator, parameters are spliced without added parentheses (pure token substitution)"]
    return chk.finish(
        checker_cmd="cd /verif/lean && lake build Az65.Thm.C10 && #print axioms audit",
        trusted_base=C.TRUSTED + ["the reference substitution expander in checks/c10.py"],
        rule="case = program of macro definitions (0..4 parameters, statement and expression macros, parameters used 0..3 times, nested invocations to depth 3, macros defined by macros, a constant named like a parameter passed as an argument, brace-grouped arguments containing invocations; groups forwarded through 1..3 invocations with one brace level per hop; macros with parameters defining macros whose name and body use them, and invoking them through that parameter; macros ending in a bare invocation that takes its arguments from after the outer invocation) and invocations; the implementation on the program is compared with the implementation on the reference token-substitution expansion; distinct = distinct programs")


replay = core.replay

"""Grammar-based generator of straight-line az65 programs in two renderings — source text and the
statement-level encoding of the `abs` driver mode — plus an independent Python reference
interpreter (C semantics, parse-time snapshot of computable names, final-table resolution of the
rest, prefix-sum layout) used to adjudicate the implementation's output."""
import random

from .c04 import BIN, UN, BIN_NODE, UN_NODE, BIN_TXT, UN_TXT, PREC, to_i32

GLOBALS = ["alpha", "beta", "gamma", "delta", "omega", "sigma", "kappa", "theta"]
LOCALS = ["one", "two", "loop", "done"]
TOP = 65536

# ------------------------------------------------------------------ per-CPU instruction vocabulary
# (source template, pieces) ; {0} {1} are operand expressions; pieces: int literal byte, ("b",k) ("w",k) ("r",k)
INSTRS = {
    "6502": [("nop", [0xEA]), ("rts", [0x60]), ("lda #{0}", [0xA9, ("b", 0)]), ("ldx #{0}", [0xA2, ("b", 0)]),
             ("jmp {0}+$100", None), ("jsr ({0})|$100", None),
             ("bne {0}", [0xD0, ("r", 0)]), ("beq {0}", [0xF0, ("r", 0)]),
             ("lda ({0}),y", [0xB1, ("b", 0)]), ("sta ({0},x)", [0x81, ("b", 0)]), ("asl a", [0x0A])],
    "z80": [("nop", [0x00]), ("ld a, {0}", [0x3E, ("b", 0)]), ("ld hl, {0}", [0x21, ("w", 0)]), ("jp {0}", [0xC3, ("w", 0)]),
            ("jr {0}", [0x18, ("r", 0)]), ("djnz {0}", [0x10, ("r", 0)]), ("ld (ix+{0}), {1}", [0xDD, 0x36, ("b", 0), ("b", 1)]),
            ("ld ix, {0}", [0xDD, 0x21, ("w", 0)]), ("ld ({0}), hl", [0x22, ("w", 0)]), ("call nz, {0}", [0xC4, ("w", 0)]),
            ("out ({0}), a", [0xD3, ("b", 0)]), ("ld bc, ({0})", [0xED, 0x4B, ("w", 0)]), ("and {0}", [0xE6, ("b", 0)])],
    "sm83": [("nop", [0x00]), ("ld a, {0}", [0x3E, ("b", 0)]), ("ld hl, {0}", [0x21, ("w", 0)]), ("jp {0}", [0xC3, ("w", 0)]),
             ("jr {0}", [0x18, ("r", 0)]), ("ld ({0}), a", [0xEA, ("w", 0)]), ("call {0}", [0xCD, ("w", 0)]),
             ("add a, {0}", [0xC6, ("b", 0)]), ("ld (hl), {0}", [0x36, ("b", 0)]), ("swap a", [0xCB, 0x37])],
}
INSTRS = {a: [i for i in v if i[1] is not None] for a, v in INSTRS.items()}


# ------------------------------------------------------------------ expression trees
# ("num", v) ("sym", qualified, spelling) ("here",) ("sz", qualified, spelling) ("un", op, e) ("bin", op, l, r) ("tern", c, a, b)
def nodes(t):
    k = t[0]
    if k == "num":
        return [f"v:{to_i32(t[1])}"]
    if k == "sym":
        return [f"l:{t[1]}"]
    if k == "sz":
        return [f"s:{t[1]}"]
    if k == "hereval":
        return ["l:@here"]
    if k == "un":
        n = UN_NODE[t[1]]
        return nodes(t[2]) + ([n] if n else [])
    if k == "bin":
        return nodes(t[2]) + nodes(t[3]) + [BIN_NODE[t[1]]]
    return nodes(t[1]) + nodes(t[2]) + nodes(t[3]) + ["ternary"]


def text(rng, t, ctx=0):
    k = t[0]
    if k == "num":
        v = t[1]
        if v < 0:
            s, p = f"- {-v}", 11
        else:
            s, p = rng.choice([str(v), f"${v:x}", f"%{v:b}"]) if rng else str(v), 12
    elif k == "sym":
        s, p = t[2], 12
    elif k == "sz":
        s, p = "@sizeof " + t[2], 12
    elif k == "hereval":
        s, p = "@here", 12
    elif k == "un":
        s, p = UN_TXT[t[1]] + " " + text(rng, t[2], 11), 11
    elif k == "bin":
        q = PREC[t[1]]
        s, p = text(rng, t[2], q) + " " + BIN_TXT[t[1]] + " " + text(rng, t[3], q + 1), q
    else:
        s, p = text(rng, t[1], 1) + " ? " + text(rng, t[2], 1) + " : " + text(rng, t[3], 1), 0
    return "( " + s + " )" if p < ctx else s


def wrap(x):
    return to_i32(x)


def u32(x):
    return x & 0xFFFFFFFF


def tdiv(a, b):
    q = abs(a) // abs(b)
    return q if (a < 0) == (b < 0) else -q


def c_bin(op, a, b):
    if op in ("div", "rem") and b == 0:
        return None
    sh = u32(b) % 32
    f = {"lor": lambda: int(a != 0 or b != 0), "land": lambda: int(a != 0 and b != 0), "bor": lambda: wrap(u32(a) | u32(b)),
         "bxor": lambda: wrap(u32(a) ^ u32(b)), "band": lambda: wrap(u32(a) & u32(b)), "eq": lambda: int(a == b),
         "ne": lambda: int(a != b), "lt": lambda: int(a < b), "le": lambda: int(a <= b), "gt": lambda: int(a > b),
         "ge": lambda: int(a >= b), "shl": lambda: wrap(a << sh), "shr": lambda: a >> sh, "shll": lambda: wrap(a << sh),
         "shrl": lambda: wrap(u32(a) >> sh), "add": lambda: wrap(a + b), "sub": lambda: wrap(a - b), "mul": lambda: wrap(a * b),
         "div": lambda: wrap(tdiv(a, b)), "rem": lambda: a - tdiv(a, b) * b}
    return f[op]()


def c_un(op, a):
    return {"neg": wrap(-a), "pos": a, "lnot": int(a == 0), "bnot": -a - 1, "lo": a % 256, "hi": (a // 256) % 256}[op]


class Ref:
    """independent reference: name -> ('v', int) | ('e', tree) ; sizes: name -> int"""

    def __init__(self):
        self.tab = {}
        self.sizes = {}
        self.refs = []
        self.here = 0

    def value(self, name, visiting=()):
        d = self.tab.get(name)
        if d is None:
            return None
        if d[0] == "v":
            return d[1]
        if name in visiting:
            return None
        return self.eval(d[1], visiting + (name,))

    def eval(self, t, visiting=()):
        k = t[0]
        if k == "num":
            return wrap(t[1])
        if k == "hereval":
            raise AssertionError("@here must be snapshotted")
        if k == "sym":
            return self.value(t[1], visiting)
        if k == "sz":
            return self.sizes.get(t[1])
        if k == "un":
            a = self.eval(t[2], visiting)
            return None if a is None else c_un(t[1], a)
        if k == "bin":
            a, b = self.eval(t[2], visiting), self.eval(t[3], visiting)
            return None if a is None or b is None else c_bin(t[1], a, b)
        c, a, b = (self.eval(x, visiting) for x in t[1:4])
        if c is None or a is None or b is None:
            return None
        return a if c != 0 else b

    def snapshot(self, t):
        """what the parser keeps: computable names become constants"""
        k = t[0]
        if k == "sym":
            self.refs.append(t[1])
            v = self.value(t[1])
            return ("num", v) if v is not None else t
        if k == "sz":
            self.refs.append(t[1])
            return t
        if k == "num":
            return t
        if k == "hereval":
            return ("num", self.here)
        if k == "un":
            return ("un", t[1], self.snapshot(t[2]))
        if k == "bin":
            return ("bin", t[1], self.snapshot(t[2]), self.snapshot(t[3]))
        return ("tern",) + tuple(self.snapshot(x) for x in t[1:4])


class RefFail(Exception):
    pass


def ref_run(stmts):
    """stmts: list of abstract statements (python form). Returns ('OK', bytes, {name: value}) or ('ERR', cls)."""
    r = Ref()
    here = 0
    data = bytearray()
    code = True
    patches = []   # (kind, offset, len, tree)
    asserts = []

    def fail(cls):
        raise RefFail(cls)

    def emit_field(kind, tree, size):
        nonlocal here
        t = r.snapshot(tree)
        v = r.eval(t)
        if kind == "r":
            t = ("bin", "sub", t, ("num", (here_at_instr + 2) & 0xFFFFFFFF))
            v = r.eval(t)
        if v is not None:
            check_range(kind, v)
            data.extend(field_bytes(kind, v))
        else:
            patches.append((kind, len(data), size, t))
            data.extend(b"\0" * size)

    def check_range(kind, v):
        if kind == "b" and not (0 <= u32(v) <= 255):
            fail("range")
        if kind == "w" and not (0 <= u32(v) <= 65535):
            fail("range")
        if kind == "r" and not (-128 <= v <= 127):
            fail("range")

    def field_bytes(kind, v):
        if kind == "w":
            return bytes([u32(v) & 0xFF, (u32(v) >> 8) & 0xFF])
        return bytes([u32(v) & 0xFF])

    try:
        for st in stmts:
            k = st[0]
            r.here = here
            if k == "label":
                if st[1] in r.tab:
                    fail("already-defined")
                r.tab[st[1]] = ("v", here)
            elif k == "org":
                v = r.eval(r.snapshot(st[1]))
                if v is None:
                    fail("needs-now")
                if not (0 <= u32(v) <= 65535):
                    fail("range")
                here = u32(v)
            elif k == "dbstr":
                n = len(st[1]) if code else 1
                if here + n > TOP:
                    fail("addr-overflow")
                here += n
                if code:
                    data.extend(st[1])
            elif k in ("db", "dw"):
                size = 1 if k == "db" else 2
                if not code:
                    if here + size > TOP:
                        fail("addr-overflow")
                    here += size
                    continue
                t = r.snapshot(st[1])
                v = r.eval(t)
                kind = "b" if k == "db" else "w"
                if v is not None:
                    check_range(kind, v)
                if here + size > TOP:
                    fail("addr-overflow")
                here += size
                if v is not None:
                    data.extend(field_bytes(kind, v))
                else:
                    patches.append((kind, len(data), size, t))
                    data.extend(b"\0" * size)
            elif k == "ds":
                v = r.eval(r.snapshot(st[1]))
                if v is None:
                    fail("needs-now")
                if not (0 <= u32(v) <= 65535):
                    fail("range")
                if here + u32(v) > TOP:
                    fail("addr-overflow")
                here += u32(v)
                r.here = here      # a fill expression is read after the address has advanced
                if code:
                    if st[2] is None:
                        data.extend(b"\0" * u32(v))
                    else:
                        t = r.snapshot(st[2])
                        fv = r.eval(t)
                        if fv is not None:
                            check_range("b", fv)
                            data.extend(bytes([u32(fv) & 0xFF]) * u32(v))
                        else:
                            patches.append(("s", len(data), u32(v), t))
                            data.extend(b"\0" * u32(v))
            elif k == "align":
                v = r.eval(r.snapshot(st[1]))
                if v is None:
                    fail("needs-now")
                if v < 2:
                    fail("range")
                pad = (u32(v) - here % u32(v)) % u32(v)
                if pad > 65535:
                    fail("range")
                if here + pad > TOP:
                    fail("addr-overflow")
                here += pad
                if code:
                    data.extend(b"\0" * pad)
            elif k == "incbin":
                if not code:
                    fail("unexpected")
                if here + len(st[1]) > TOP:
                    fail("addr-overflow")
                here += len(st[1])
                data.extend(st[1])
            elif k == "instr":
                if not code:
                    fail("unexpected")
                here_at_instr = here
                start = len(data)
                for p in st[1]:
                    if isinstance(p, int):
                        data.append(p)
                    else:
                        emit_field(p[0], p[1], 2 if p[0] == "w" else 1)
                if here + (len(data) - start) > TOP:
                    fail("addr-overflow")
                here += len(data) - start
            elif k == "assert":
                t = r.snapshot(st[1])
                v = r.eval(t)
                if v is None:
                    asserts.append(t)
                elif v == 0:
                    fail("assert")
            elif k == "define":
                if st[2] in r.tab:
                    fail("already-defined")
                r.tab[st[2]] = ("e", r.snapshot(st[3]))
            elif k == "redefine":
                r.tab[st[2]] = ("e", r.snapshot(st[3]))
            elif k == "undef":
                r.tab.pop(st[1], None)
            elif k == "segment":
                code = st[1]
            elif k == "struct":
                if st[1] in r.tab:
                    fail("already-defined")
                size = 0
                for m in st[2]:
                    if m[0] == "f":
                        fs = r.eval(r.snapshot(m[2]))
                        if fs is None:
                            fail("needs-now")
                        nm = st[1] + "." + m[1]
                        if nm in r.tab:
                            fail("already-defined")
                        r.tab[nm] = ("v", size)
                        r.sizes[nm] = fs
                        size = wrap(size + fs)
                    elif m[0] == "p":
                        p = r.eval(r.snapshot(m[1]))
                        if p is None:
                            fail("needs-now")
                        size = wrap(size + p)
                    else:
                        a = r.eval(r.snapshot(m[1]))
                        if a is None:
                            fail("needs-now")
                        if a < 2:
                            fail("range")
                        size = wrap(size + (a - size % a) % a)
                r.tab[st[1]] = ("v", size)
        # link: every referenced name must be defined and solvable, then the patches in order
        for n in r.refs:
            if n not in r.tab or r.value(n) is None:
                fail("undefined")
        for kind, off, size, t in patches:
            v = r.eval(t)
            if v is None:
                fail("unsolved")
            if kind == "s":
                check_range("b", v)
                data[off:off + size] = bytes([u32(v) & 0xFF]) * size
            else:
                check_range(kind, v)
                data[off:off + size] = field_bytes(kind, v)
        for t in asserts:
            v = r.eval(t)
            if v is None:
                fail("unsolved")
            if v == 0:
                fail("assert")
    except RefFail as e:
        return ("ERR", str(e))
    syms = {}
    for n in r.tab:
        syms[n] = r.value(n)
    return ("OK", bytes(data), syms)


# ------------------------------------------------------------------ encoding for the `abs` driver
def enc(st):
    k = st[0]
    N = lambda t: " ".join(nodes(t))
    if k == "label":
        return f"L|{st[1]}"
    if k == "org":
        return f"O|{N(st[1])}"
    if k == "dbstr":
        return f"S|{bytes(st[1]).hex()}"
    if k == "db":
        return f"B|{N(st[1])}"
    if k == "dw":
        return f"W|{N(st[1])}"
    if k == "ds":
        return f"D|{N(st[1])}|{N(st[2]) if st[2] is not None else '-'}"
    if k == "align":
        return f"A|{N(st[1])}"
    if k == "incbin":
        return f"I|{bytes(st[1]).hex()}"
    if k == "instr":
        ps = []
        for p in st[1]:
            ps.append(f"l{p}" if isinstance(p, int) else f"{p[0]}{N(p[1])}")
        return "X|" + ",".join(ps)
    if k == "assert":
        return f"T|{N(st[1])}"
    if k == "define":
        return f"DF|{1 if st[1] else 0}|{st[2]}|{N(st[3])}"
    if k == "redefine":
        return f"RD|{1 if st[1] else 0}|{st[2]}|{N(st[3])}"
    if k == "undef":
        return f"U|{st[1]}"
    if k == "segment":
        return f"G|{1 if st[1] else 0}"
    if k == "struct":
        ms = []
        for m in st[2]:
            ms.append(f"f/{m[1]}/{N(m[2])}" if m[0] == "f" else f"{m[0]}/{N(m[1])}")
        return f"ST|{st[1]}|" + ",".join(ms)
    raise ValueError(k)


# ------------------------------------------------------------------ the generator
class Gen:
    def __init__(self, rng, arch, allow_unknown=True):
        self.rng = rng
        self.arch = arch
        self.scope = None          # last global label
        self.defined = []          # qualified names defined so far (labels / defs)
        self.planned = []          # names that will be defined later
        self.stmts = []            # abstract
        self.lines = []            # source
        self.files = {}
        self.code = True
        self.here_est = 0
        self.allow_unknown = allow_unknown
        self.fresh = 0

    def new_name(self):
        self.fresh += 1
        return self.rng.choice(GLOBALS) + str(self.fresh)

    def sym(self, name):
        """('sym', qualified, spelling): local spelling when the name lives in the current scope"""
        if self.scope and name.startswith(self.scope + ".") and self.rng.random() < 0.7:
            return ("sym", name, name[len(self.scope):])
        return ("sym", name, name)

    def expr(self, depth=2, kind="any", known_only=False):
        rng = self.rng
        pool = list(self.defined)
        if not known_only and self.allow_unknown:
            pool += self.planned
        if depth == 0 or rng.random() < 0.35:
            r = rng.random()
            if pool and r < 0.45:
                return self.sym(rng.choice(pool))
            if r < 0.55 and self.code:
                return ("hereval", self.here_est)
            return ("num", rng.choice([0, 1, 2, 3, 7, 8, 0x10, 0x7F, 0x80, 0xFF, 0x100, 0x1234, 0xFFFF]))
        r = rng.random()
        if r < 0.2:
            return ("un", rng.choice(["neg", "bnot", "lo", "hi", "lnot", "pos"]), self.expr(depth - 1, kind, known_only))
        if r < 0.92:
            return ("bin", rng.choice(["add", "sub", "mul", "band", "bor", "bxor", "shl", "shr", "eq", "lt", "div", "rem", "land"]),
                    self.expr(depth - 1, kind, known_only), self.expr(depth - 1, kind, known_only))
        return ("tern", self.expr(depth - 1, kind, known_only), self.expr(depth - 1, kind, known_only), self.expr(depth - 1, kind, known_only))

    def small(self, lim, known_only=False):
        """an expression that is (usually) in 0..lim: mask of a general expression or a small constant"""
        rng = self.rng
        if rng.random() < 0.5:
            return ("num", rng.randint(0, lim))
        m = 0xFF if lim >= 0xFF else lim
        return ("bin", "band", self.expr(1, known_only=known_only), ("num", m))

    def add(self, st, line):
        self.stmts.append(st)
        self.lines.append(line)

    def T(self, t):
        return text(self.rng, t)

    def statement(self):
        rng = self.rng
        r = rng.random()
        if not self.code:
            # ADDR segment: bare @db / @dw, @ds size, @align, labels, definitions
            if r < 0.3:
                self.add(("dbstr", b"\0"), "@db")          # advances by 1, emits nothing
                self.here_est += 1
            elif r < 0.5:
                self.add(("dw", ("num", 0)), "@dw")
                self.here_est += 2
            elif r < 0.7:
                e = self.small(9, True)
                self.add(("ds", e, None), f"@ds {self.T(e)}")
            elif r < 0.8:
                self.label()
            elif r < 0.9:
                self.align()
            else:
                self.code = True
                self.add(("segment", True), '@segment "CODE"')
            return
        if r < 0.16:
            self.label()
        elif r < 0.30:
            items, lines = [], []
            for _ in range(rng.randint(1, 3)):
                if rng.random() < 0.35:
                    s = "".join(rng.choice(["a", "Z", " ", "é", "ß", "€", "🤠", "0"]) for _ in range(rng.randint(0, 4)))
                    b = s.encode("utf-8")
                    items.append(("dbstr", b))
                    lines.append('"' + s + '"')
                    self.here_est += len(b)
                else:
                    e = self.small(255)
                    items.append(("db", e))
                    lines.append(self.T(e))
                    self.here_est += 1
            self.stmts += items
            self.lines.append("@db " + ", ".join(lines))
        elif r < 0.40:
            es = [("bin", "band", self.expr(2), ("num", 0xFFFF)) if rng.random() < 0.7 else self.expr(1) for _ in range(rng.randint(1, 2))]
            for e in es:
                self.stmts.append(("dw", e))
                self.here_est += 2
            self.lines.append("@dw " + ", ".join(self.T(e) for e in es))
        elif r < 0.47:
            e = self.small(12, True)
            f = self.small(255) if rng.random() < 0.5 else None
            self.add(("ds", e, f), f"@ds {self.T(e)}" + (f", {self.T(f)}" if f is not None else ""))
            self.here_est += 6
        elif r < 0.52:
            self.align()
        elif r < 0.56:
            bins = sorted(f for f in self.files if f.endswith(".bin"))
            if bins and rng.random() < 0.45:
                # the same file again
                fn = rng.choice(bins)[1:]
                data = self.files["/" + fn]
            else:
                data = bytes(rng.randint(0, 255) for _ in range(rng.randint(0, 5)))
                fn = f"b{len(self.files)}.bin"
                self.files["/" + fn] = data
            self.add(("incbin", data), f'@incbin "{fn}"')
            self.here_est += len(data)
        elif r < 0.72:
            tmpl, pieces = rng.choice(INSTRS[self.arch])
            ops = []
            ps = []
            for p in pieces:
                if isinstance(p, int):
                    ps.append(p)
                else:
                    kind, k = p
                    while len(ops) <= k:
                        ops.append(None)
                    if kind == "b":
                        e = self.small(255)
                    elif kind == "w":
                        e = ("bin", "band", self.expr(1), ("num", 0xFFFF)) if rng.random() < 0.8 else self.expr(1)
                    else:
                        e = ("bin", "add", ("hereval", self.here_est), ("num", rng.randint(-20, 20) + 2)) if rng.random() < 0.6 else self.expr(1)
                    ops[k] = e
                    ps.append((kind, e))
            def optext(o):
                t = self.T(o)
                return "+ " + t if t.startswith("(") else t   # a leading "(" would read as an indirect operand
            self.add(("instr", ps), "  " + tmpl.format(*[optext(o) for o in ops]))
            self.here_est += len(pieces) + sum(1 for p in pieces if not isinstance(p, int) and p[0] == "w")
        elif r < 0.76:
            e = self.expr(2)
            e = ("bin", "lor", e, ("num", 1)) if rng.random() < 0.8 else e
            self.add(("assert", e), f"@assert {self.T(e)}")
        elif r < 0.88:
            self.definition()
        elif r < 0.91 and len(self.stmts) > 2:
            e = ("num", rng.choice([0, 0x10, 0x100, 0x8000, 0xFF00, self.here_est]))
            self.add(("org", e), f"@org {self.T(e)}")
            self.here_est = e[1]
        elif r < 0.94:
            self.code = False
            self.add(("segment", False), '@segment "ADDR"')
        else:
            self.struct()

    def align(self):
        e = ("num", self.rng.choice([2, 3, 4, 8, 16, 256]))
        self.add(("align", e), f"@align {self.T(e)}")

    def label(self):
        rng = self.rng
        r = rng.random()
        if r < 0.5 or self.scope is None:
            n = self.take_planned() or self.new_name()
            if "." in n:
                self.add(("label", n), f"{n}:")
            else:
                self.scope = n
                self.add(("label", n), f"{n}" + (":" if rng.random() < 0.7 else ""))
        elif r < 0.85:
            loc = rng.choice(LOCALS) + str(rng.randint(0, 3))
            n = f"{self.scope}.{loc}"
            self.add(("label", n), f".{loc}:")
        else:
            loc = rng.choice(LOCALS) + str(rng.randint(0, 3))
            n = f"{self.scope}.{loc}"
            self.add(("label", n), f"{n}:")
        if n not in self.defined:
            self.defined.append(n)

    def take_planned(self):
        if self.planned and self.rng.random() < 0.5:
            return self.planned.pop(0)
        return None

    def definition(self):
        rng = self.rng
        r = rng.random()
        keep = rng.random() < 0.5
        d = "l" if keep else "n"
        if r < 0.55:
            n = self.take_planned() or self.new_name()
            e = self.expr(2)
            self.add(("define", keep, n, e), f"@def{d} {n}, {self.T(e)}")
            if n not in self.defined:
                self.defined.append(n)
        elif r < 0.85 and self.defined:
            n = rng.choice(self.defined)
            e = self.expr(2) if rng.random() < 0.5 else ("bin", "add", ("sym", n, n), ("num", 1))
            self.add(("redefine", keep, n, e), f"@redef{d} {n}, {self.T(e)}")
        elif self.defined:
            n = rng.choice(self.defined)
            self.add(("undef", n), f"@undef {n}")
            self.defined.remove(n)
        if rng.random() < 0.3 and self.allow_unknown:
            self.planned.append(self.new_name())

    def struct(self):
        rng = self.rng
        name = "S" + self.new_name()
        ms, lines = [], [f"@struct {name}"]
        fields = []
        for _ in range(rng.randint(0, 6)):
            r = rng.random()
            if r < 0.6:
                fn = "f" + str(len(fields))
                r2 = rng.random()
                if r2 < 0.3:
                    ms.append(("f", fn, ("num", 1)))
                    lines.append(f"  {fn} @db")
                elif r2 < 0.55:
                    ms.append(("f", fn, ("num", 2)))
                    lines.append(f"  {fn}: @dw")
                else:
                    e = ("num", rng.randint(0, 9)) if not fields or rng.random() < 0.5 else \
                        ("bin", "add", ("sym", f"{name}.{rng.choice(fields)}", "." + rng.choice(fields)), ("num", rng.randint(1, 3)))
                    if e[0] == "bin":
                        f0 = e[2][1].split(".")[1]
                        e = ("bin", "add", ("sym", f"{name}.{f0}", "." + f0), e[3])
                    ms.append(("f", fn, e))
                    lines.append(f"  {fn} {self.T(e)}")
                fields.append(fn)
            elif r < 0.8:
                e = ("num", rng.randint(0, 5))
                ms.append(("p", e))
                lines.append(f"  @ds {self.T(e)}")
            else:
                e = ("num", rng.choice([2, 4, 8, 16, 3, 4096]))
                ms.append(("a", e))
                lines.append(f"  @align {self.T(e)}")
        lines.append("@endstruct")
        self.stmts.append(("struct", name, ms))
        self.lines.append("\n".join(lines))
        self.defined.append(name)
        for f in fields:
            self.defined.append(f"{name}.{f}")

    def finish(self):
        """define what was promised (so that most programs link), add probes"""
        for n in self.planned:
            if self.rng.random() < 0.85:
                e = ("num", self.rng.choice([0, 5, 0x42, 0x1234, 0xFF10]))
                self.add(("define", True, n, e), f"@defl {n}, {self.T(e)}")
        self.planned = []

    def program(self, nstmts):
        for _ in range(nstmts):
            self.statement()
        self.finish()
        return self.stmts, "\n".join(self.lines) + "\n", self.files

"""C08 — definitions are immutable unless redefined; each use sees a well-defined value."""
import itertools
import random

from . import common as C
from . import core
from . import proggen as G

# names: a global, a local under scope `scope0`, a direct spelling of another local
NAMES = [("glob", "glob"), ("scope0.loc", ".loc"), ("scope0.dir", "scope0.dir")]
OPS = ["label", "defl", "defn", "redefl", "redefn", "undef", "isdef", "use", "early", "defsum", "use2"]


def build(history, rng):
    """history: list of (op, name index, value). Returns (abstract stmts, source, isdef expectations)"""
    stmts = [("label", "scope0")]
    lines = ["scope0:"]
    defined = {}
    val = 3
    for op, ni, v in history:
        q, sp = NAMES[ni]
        if op == "label":
            stmts.append(("label", q))
            lines.append(f"{sp}:")
            # a label named `glob` changes the scope for local spellings: restore it
            if "." not in q:
                stmts.append(("label", "scope0x" + str(len(stmts))))
                lines.append(stmts[-1][1] + ":")
                # re-enter scope0 for later `.loc` spellings is impossible (scope0 exists); use direct spelling instead
        elif op in ("defl", "defn"):
            e = ("num", v)
            stmts.append(("define", op == "defl", q, e))
            lines.append(f"@{op} {sp}, {v}")
        elif op in ("redefl", "redefn"):
            e = ("bin", "add", ("sym", q, sp), ("num", 1)) if v % 2 else ("num", v)
            stmts.append(("redefine", op == "redefl", q, e))
            lines.append(f"@{op} {sp}, {G.text(None, e)}")
        elif op == "undef":
            stmts.append(("undef", q))
            lines.append(f"@undef {sp}")
        elif op == "isdef":
            stmts.append(("isdef", q))
            lines.append(f"@db @isdef {sp}")
        elif op == "use":
            e = ("bin", "band", ("sym", q, sp), ("num", 0xFF))
            stmts.append(("db", e))
            lines.append(f"@db {sp} & $ff")
        elif op == "defsum":
            # defined from two other names (possibly the same one twice, possibly not yet defined):
            # chains and diamonds through lazily defined names
            qa, qb = NAMES[(ni + 1 + v % 2) % 3][0], NAMES[(ni + 1 + (v // 2) % 2) % 3][0]
            e = ("bin", "add", ("sym", qa, qa), ("sym", qb, qb))
            lazy = v % 3 != 0
            stmts.append(("define", lazy, q, e))
            lines.append(f"@{'defl' if lazy else 'defn'} {sp}, {qa} + {qb}")
        elif op == "use2":
            e = ("bin", "band", ("bin", "add", ("sym", q, sp), ("sym", q, sp)), ("num", 0xFF))
            stmts.append(("db", e))
            lines.append(f"@db {sp} + {sp} & $ff")
        elif op == "early":
            e = ("bin", "band", ("bin", "add", ("sym", q, sp), ("num", 1)), ("num", 0xFFFF))
            stmts.append(("dw", e))
            lines.append(f"@dw {sp} + 1 & $ffff")
    return stmts, "\n".join(lines) + "\n"


def fix_scope(stmts, lines):
    return stmts, lines


def ref_with_isdef(stmts):
    """expand the `isdef` pseudo statement using the reference's own table at that point"""
    out = []
    tab = set()
    for st in stmts:
        k = st[0]
        if k == "isdef":
            out.append(("db", ("num", 1 if st[1] in tab else 0)))
            continue
        out.append(st)
        if k == "label":
            tab.add(st[1])
        elif k == "define":
            tab.add(st[2])
        elif k == "redefine":
            tab.add(st[2])
        elif k == "undef":
            tab.discard(st[1])
    return out


def run(tier, seed):
    chk = C.Check("C08", tier, seed)
    C.std_setup(chk)
    rng = random.Random(seed)
    cases = []
    steps = [(op, ni) for op in OPS for ni in range(len(NAMES))]
    L = 3
    hists = []
    for n in range(1, L + 1):
        for combo in itertools.product(steps, repeat=n):
            hists.append(combo)
    n_exh = len(hists)
    extra = 4000 if tier == "quick" else 150000
    for _ in range(extra):
        hists.append(tuple(rng.choice(steps) for _ in range(rng.randint(4, 5 if tier == "quick" else 8))))
    for _ in range(300 if tier == "quick" else 3000):
        hists.append(tuple(rng.choice(steps) for _ in range(rng.randint(9, 40))))
    if tier == "quick":
        # a seeded tenth of the exhaustive part plus everything of length <= 2
        keep = [h for h in hists[:n_exh] if len(h) <= 2] + rng.sample(hists[:n_exh], n_exh // 4) + hists[n_exh:]
        exhaustive_all = False
        hists = keep
    else:
        exhaustive_all = True
    ophist = {o: 0 for o in OPS}
    for h in hists:
        hv = [(op, ni, rng.choice([1, 2, 5, 7, 0x42, 0xFE, 0xFF])) for op, ni in h]
        for op, _, _ in hv:
            ophist[op] += 1
        stmts, src = build(hv, rng)
        # the local spelling `.loc` must still mean scope0.loc: keep scope0 the current global by
        # spelling globals that would change the scope… (a global label `glob` does change it) —
        # so after a global label the generator switches to direct spellings
        if any(op == "label" and NAMES[ni][0] == "glob" for op, ni, _ in hv):
            src_lines = src.split("\n")
            seen = False
            for k, l in enumerate(src_lines):
                if l == "glob:":
                    seen = True
                elif seen:
                    src_lines[k] = l.replace(" .loc", " scope0.loc").replace("(.loc", "(scope0.loc")
                    if l.startswith(".loc:"):
                        src_lines[k] = "scope0.loc:"
            src = "\n".join(src_lines)
        cases.append({"arch": "6502", "stmts": ref_with_isdef(stmts), "src": src, "note": "history"})
    # chains of names defined from one another (each level lazily or by value, defined top-down or
    # bottom-up), probed before and after the base or a middle level is redefined: a use must see
    # the values current at the use (or the final ones when it is deferred), never a remembered one
    n_chain = 0
    for depth in (1, 2, 3):
        for kinds in itertools.product((True, False), repeat=depth):
            for topdown in (True, False):
                for redef_level in range(depth + 1):
                    for redef_lazy in (True, False):
                        for early in (True, False):
                            names = [f"ch{i}" for i in range(depth + 1)]     # ch0 depends on ch1 … ; the last is the base
                            stmts, lines = [], []
                            if early:
                                e = ("bin", "band", ("sym", names[0], names[0]), ("num", 0xFFFF))
                                stmts.append(("dw", e))
                                lines.append(f"@dw {names[0]} & $ffff")
                            defs = []
                            for i in range(depth):
                                e = ("bin", "add", ("sym", names[i + 1], names[i + 1]), ("num", i + 1))
                                defs.append((("define", kinds[i], names[i], e), f"@{'defl' if kinds[i] else 'defn'} {names[i]}, {names[i + 1]} + {i + 1}"))
                            defs.append((("define", False, names[depth], ("num", 10)), f"@defn {names[depth]}, 10"))
                            for st, ln in (defs if topdown else list(reversed(defs))):
                                stmts.append(st)
                                lines.append(ln)
                            use = ("bin", "band", ("sym", names[0], names[0]), ("num", 0xFF))
                            stmts.append(("db", use))
                            lines.append(f"@db {names[0]} & $ff")
                            tgt = names[redef_level]
                            stmts.append(("redefine", redef_lazy, tgt, ("num", 40)))
                            lines.append(f"@{'redefl' if redef_lazy else 'redefn'} {tgt}, 40")
                            stmts.append(("db", use))
                            lines.append(f"@db {names[0]} & $ff")
                            cases.append({"arch": "6502", "stmts": stmts, "src": "\n".join(lines) + "\n", "note": "chain"})
                            n_chain += 1
    # a struct declared in the middle of a global label's scope, and @undef of a label that has local
    # and qualified names under it: the surrounding names keep their meaning
    for lazy in (True, False):
        stmts = [("label", "mainx"), ("define", lazy, "mainx.k", ("num", 5)),
                 ("struct", "Point", [("f", "px", ("num", 1)), ("f", "k", ("num", 2))]),
                 ("db", ("sym", "mainx.k", ".k")), ("db", ("sym", "Point.k", "Point.k")), ("redefine", lazy, "mainx.k", ("bin", "add", ("sym", "mainx.k", ".k"), ("num", 1))),
                 ("db", ("sym", "mainx.k", ".k"))]
        src = f"mainx:\n@{'defl' if lazy else 'defn'} .k, 5\n@struct Point\n px 1\n k 2\n@endstruct\n@db .k\n@db Point.k\n@{'redefl' if lazy else 'redefn'} .k, .k + 1\n@db .k\n"
        cases.append({"arch": "6502", "stmts": stmts, "src": src, "note": "struct-mid-scope"})
        stmts = [("label", "mainy"), ("label", "mainy.loop"), ("db", ("num", 1)), ("define", lazy, "mainy.count", ("num", 3)), ("undef", "mainy"),
                 ("db", ("sym", "mainy.count", "mainy.count")), ("dw", ("sym", "mainy.loop", "mainy.loop")), ("label", "mainy")]
        src = f"mainy:\n.loop:\n@db 1\n@{'defl' if lazy else 'defn'} mainy.count, 3\n@undef mainy\n@db mainy.count\n@dw mainy.loop\nmainy:\n"
        cases.append({"arch": "6502", "stmts": stmts, "src": src, "note": "undef-scope"})
    res = core.run_cases(chk, cases, "h", key_fn=lambda c, bad: "history:" + bad[:40])
    for r in res:
        chk.distinct.add(r["case"]["src"])
    ok = sum(1 for r in res if r["impl"]["kind"] == "OK")
    already = sum(1 for r in res if r["impl"].get("cls") == "already-defined")
    chk.samples += [{"source": res[k]["case"]["src"], "impl": {x: y for x, y in res[k]["impl"].items() if x != 'msg'}} for k in (7, len(res) // 2, len(res) - 3)]
    chk.oblige("correspondence: implementation = both Models on every history", not chk.disagreements, str(chk.disagreements[:2])[:800])
    chk.coverage.update({"exhaustive": exhaustive_all,
                         "exhaustive_note": f"histories over {len(OPS)} operations x {len(NAMES)} names (global, local, direct): all of length <= 3 ({n_exh}) in thorough, all of length <= 2 plus a seeded quarter of length 3 in quick; seeded longer histories up to 40 steps",
                         "operation_histogram": ophist, "chain_programs": n_chain, "accepted": ok, "rejected_already_defined": already})
    chk.assumptions = ["`@undef` of a name that an earlier deferred use still references makes the link fail (Undefined symbol): the reference models the same rule; the property is about the bytes of builds that succeed and about accept/reject of definitions"]
    return chk.finish(
        checker_cmd="cd /verif/lean && lake build Az65.Thm.C08 && #print axioms audit",
        trusted_base=C.TRUSTED + ["checks/proggen.py reference (snapshot of computable names at the use, final-table value otherwise)"],
        rule="case = history of {label, @defl, @defn, @redefl, @redefn (incl. X+1 self-updates), definition from two other names (chains, diamonds), @undef, @isdef probe, use, use mentioning the name twice, early use} over three names, a @db/@dw probe per use; plus dependency chains of depth 1..3 (each level @defl or @defn, defined top-down or bottom-up) probed before and after any level is redefined; distinct = distinct histories")


replay = core.replay
